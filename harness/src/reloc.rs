//! A user-defined backend honouring the Mem interface that makes memory errors
//! observable: every capacity change moves the storage to a fresh block, blocks
//! have guard zones, fresh memory is poison-filled, released blocks are
//! poison-filled and quarantined (never reused) until the end of the case.
use any_vec::mem::{Mem, MemBuilder, MemBuilderSizeable, MemResizable};
use std::alloc::{GlobalAlloc, Layout, System};
use std::cell::RefCell;

use crate::elem::{log, untracked, Ev};

const GUARD: usize = 64;
const G_BYTE: u8 = 0xA5;
const FRESH: u8 = 0xCD;
const FREED: u8 = 0xDD;
pub const LIMIT: usize = 1 << 32;

struct Block {
    base: *mut u8,
    total: Layout,
    payload: usize,
    live: bool,
    /// the builder instance this storage belongs to
    owner: u64,
}

thread_local! {
    static BLOCKS: RefCell<Vec<Block>> = const { RefCell::new(Vec::new()) };
}

thread_local! {
    static NEXT_OWNER: std::cell::Cell<u64> = const { std::cell::Cell::new(1) };
}
fn next_owner() -> u64 {
    NEXT_OWNER.with(|n| { let v = n.get(); n.set(v + 1); v })
}
/// The builder that owned these blocks is gone: so is the storage (poisoned, quarantined).
fn retire_owner(owner: u64) {
    untracked(|| unsafe {
        BLOCKS.with(|b| {
            for blk in b.borrow_mut().iter_mut() {
                if blk.owner == owner && blk.live {
                    blk.live = false;
                    std::ptr::write_bytes(blk.base.add(GUARD), FREED, blk.payload);
                }
            }
        })
    })
}

fn new_block(payload: usize, align: usize, owner: u64) -> *mut u8 {
    untracked(|| unsafe {
        // payload starts GUARD bytes in; GUARD is a multiple of every alignment used
        let total = Layout::from_size_align(GUARD + payload + GUARD, GUARD.max(align)).unwrap();
        let base = System.alloc(total);
        assert!(!base.is_null());
        std::ptr::write_bytes(base, G_BYTE, GUARD);
        std::ptr::write_bytes(base.add(GUARD), FRESH, payload);
        std::ptr::write_bytes(base.add(GUARD + payload), G_BYTE, GUARD);
        BLOCKS.with(|b| b.borrow_mut().push(Block { base, total, payload, live: true, owner }));
        base.add(GUARD)
    })
}

fn retire_block(ptr: *mut u8) {
    untracked(|| unsafe {
        BLOCKS.with(|b| {
            for blk in b.borrow_mut().iter_mut() {
                if blk.base.add(GUARD) == ptr {
                    if blk.live {
                        blk.live = false;
                        std::ptr::write_bytes(ptr, FREED, blk.payload);
                    }
                    // else: already released together with its owning builder
                    return;
                }
            }
            panic!("reloc: retire of unknown block");
        })
    })
}

/// Guard zones of all blocks and poison of retired blocks must be intact.
pub fn scan() -> Vec<String> {
    untracked(|| unsafe {
        let mut out = Vec::new();
        BLOCKS.with(|b| {
            for (i, blk) in b.borrow().iter().enumerate() {
                for k in 0..GUARD {
                    if *blk.base.add(k) != G_BYTE {
                        out.push(format!("guard-zone-before block={} byte={}", i, k));
                        break;
                    }
                }
                for k in 0..GUARD {
                    if *blk.base.add(GUARD + blk.payload + k) != G_BYTE {
                        out.push(format!("guard-zone-after block={} byte={}", i, k));
                        break;
                    }
                }
                if !blk.live {
                    for k in 0..blk.payload {
                        if *blk.base.add(GUARD + k) != FREED {
                            out.push(format!("write-after-release block={} byte={}", i, k));
                            break;
                        }
                    }
                }
            }
        });
        out
    })
}

/// End of case: report blocks still live (storage leak), free everything.
pub fn finish() -> usize {
    untracked(|| unsafe {
        BLOCKS.with(|b| {
            let mut live = 0;
            for blk in b.borrow_mut().drain(..) {
                if blk.live {
                    live += 1;
                }
                System.dealloc(blk.base, blk.total);
            }
            live
        })
    })
}

/// `C0`: capacity (in elements) of freshly built storage - 0 for a backend that allocates on demand,
/// > 0 for a small-buffer / pooled backend whose storage exists from the start.
///
/// The builder is STATEFUL: every instance (also every clone) is a distinct owning handle; storage built
/// through an instance belongs to it and is released (poisoned, quarantined) when that instance is dropped.
/// A vector therefore has to keep exactly the builder it built its storage with - as it does for pool /
/// arena style user backends.
pub struct Reloc<const C0: usize = 0> {
    owner: u64,
}
impl<const C0: usize> Default for Reloc<C0> {
    fn default() -> Self { Reloc { owner: next_owner() } }
}
impl<const C0: usize> Clone for Reloc<C0> {
    fn clone(&self) -> Self { Reloc { owner: next_owner() } }
}
impl<const C0: usize> Drop for Reloc<C0> {
    fn drop(&mut self) { retire_owner(self.owner) }
}

pub struct RelocMem {
    ptr: *mut u8,
    size: usize,
    layout: Layout,
    has_block: bool,
    owner: u64,
}
unsafe impl Send for RelocMem {}
unsafe impl Sync for RelocMem {}

impl RelocMem {
    fn do_resize(&mut self, new_size: usize) {
        let bytes = self.layout.size().checked_mul(new_size).expect("reloc: capacity overflow");
        if bytes > LIMIT {
            panic!("reloc: too large");
        }
        let old_bytes = self.layout.size() * self.size;
        let new_ptr = if bytes == 0 {
            self.layout.align() as *mut u8
        } else {
            new_block(bytes, self.layout.align(), self.owner)
        };
        let keep = old_bytes.min(bytes);
        if keep > 0 {
            unsafe { std::ptr::copy_nonoverlapping(self.ptr, new_ptr, keep) };
        }
        if self.has_block {
            retire_block(self.ptr);
        }
        self.ptr = new_ptr;
        self.has_block = bytes != 0;
        self.size = new_size;
    }
}

impl<const C0: usize> MemBuilder for Reloc<C0> {
    type Mem = RelocMem;
    fn build(&mut self, element_layout: Layout) -> RelocMem {
        log(Ev::B(element_layout.size(), element_layout.align()));
        let bytes = element_layout.size() * C0;
        RelocMem {
            ptr: if bytes == 0 { element_layout.align() as *mut u8 } else { new_block(bytes, element_layout.align(), self.owner) },
            size: C0,
            layout: element_layout,
            has_block: bytes != 0,
            owner: self.owner,
        }
    }
}
impl<const C0: usize> MemBuilderSizeable for Reloc<C0> {
    fn build_with_size(&mut self, element_layout: Layout, capacity: usize) -> RelocMem {
        let mut m = self.build(element_layout);
        m.resize(capacity);
        m
    }
}
impl Mem for RelocMem {
    fn as_ptr(&self) -> *const u8 {
        self.ptr
    }
    fn as_mut_ptr(&mut self) -> *mut u8 {
        self.ptr
    }
    fn element_layout(&self) -> Layout {
        self.layout
    }
    fn size(&self) -> usize {
        self.size
    }
    fn expand(&mut self, additional: usize) {
        log(Ev::X(additional));
        let n = self.size.checked_add(additional).expect("reloc: capacity overflow");
        self.do_resize(n);
    }
}
impl MemResizable for RelocMem {
    fn resize(&mut self, new_size: usize) {
        log(Ev::Z(new_size));
        self.do_resize(new_size);
    }
}
impl Drop for RelocMem {
    fn drop(&mut self) {
        log(Ev::M);
        if self.has_block {
            retire_block(self.ptr);
        }
    }
}
