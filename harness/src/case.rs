//! Case language (same text format as mlrun/driver.ml parses).
#[derive(Clone, Debug, PartialEq)]
pub enum Bk {
    Heap,
    Stack(usize),
    StackN(usize, usize),
    Empty,
    Reloc(usize),
}
#[derive(Clone, Copy, Debug, PartialEq)]
pub enum Api {
    E,
    T,
}
#[derive(Clone, Copy, Debug, PartialEq)]
pub enum TKind {
    Pop,
    Rm,
    Srm,
}
#[derive(Clone, Debug, PartialEq)]
pub enum Src {
    Wrap,
    Box_,
    Raw,
    RawT,
    RawS,
    Wrong(u64),
    BoxWrong(u64),
    Lazy(usize, usize, usize),
    /// lazy_clone()^depth of a user-defined AnyValueCloneable + AnyValue whose `Type` is the concrete element type
    UserLazy(usize),
    Temp(usize, TKind, usize),
}
#[derive(Clone, Debug, PartialEq)]
pub enum Sink {
    Drop,
    Down,
    Push(usize),
    Ins(usize, usize),
    Forget,
    Mut(Box<Sink>),
    Lazy(usize, usize, Box<Sink>),
    LazyDown(usize, Box<Sink>),
    /// pattern items only: the call is Iterator::nth(k) / nth_back(k), the yielded item goes to the inner sink
    Nth(usize, Box<Sink>),
}
#[derive(Clone, Copy, Debug, PartialEq)]
pub enum Bound {
    U,
    I(usize),
    X(usize),
}
#[derive(Clone, Copy, Debug, PartialEq)]
pub enum IterKind {
    Ref,
    Mut,
    TRef,
    TMut,
    /// through the IntoIterator impls of &AnyVec, &mut AnyVec, AnyVecRef, AnyVecMut
    IRef,
    IMut,
    ITRef,
    ITMut,
}
#[derive(Clone, Copy, Debug, PartialEq)]
pub enum RKind {
    Wrap,
    Box_,
    Lazy(usize),
}
#[derive(Clone, Debug, PartialEq)]
pub enum Op {
    New(usize, Bk),
    WithCap(usize, Bk, usize),
    DropVec(usize),
    Push(Api, usize, Src),
    Insert(Api, usize, usize, Src),
    Pop(Api, usize, Sink),
    Remove(Api, usize, usize, Sink),
    SwapRemove(Api, usize, usize, Sink),
    Clear(Api, usize),
    Get(Api, usize, usize),
    At(Api, usize, usize),
    Iter(IterKind, usize, Vec<bool>),
    Drain(Api, usize, Bound, Bound, Vec<(bool, Sink)>, bool),
    Splice(Api, usize, Bound, Bound, Vec<(bool, Sink)>, bool, RKind, usize, Option<usize>, (usize, usize)),
    Clone(usize, usize),
    CloneEmpty(usize, usize),
    CloneEmptyIn(usize, usize, Bk),
    /// clone_empty_in(<bk>) into the caller's frame, k pushes, read back, clone (Cloneable), pop, drop
    CloneIn(usize, Bk, usize),
    Reserve(usize, usize, bool),
    ReserveExact(usize, usize, bool),
    ShrinkToFit(usize, bool),
    ShrinkTo(usize, usize, bool),
    Views(usize),
    SpareWrite(Api, usize, usize),
    SetLen(usize, usize),
    IterClone(IterKind, usize, Vec<bool>, Vec<bool>),
    ProbeTypes(usize, usize),
    DownWrong(usize, TKind, usize),
    SwapWrong(usize, usize, usize),
    Write(usize, usize, usize),
    Read(usize, usize, usize),
    Swap(usize, usize, usize, usize, usize),
    Parts(usize, usize),
    Placement,
    IterNth(IterKind, usize, Vec<(bool, usize)>),
    LazyDown(usize, usize, usize),
    CursorMax(Api, Vec<bool>),
}

#[derive(Clone, Debug)]
pub struct Cfg {
    pub sz: usize,
    pub al: usize,
    pub dg: bool,
    pub cl: bool,
    pub trap: bool,
    pub tr: String,
    pub be: Bk,
}
#[derive(Clone, Debug)]
pub struct Step {
    pub fuse: Option<u64>,
    pub op: Op,
}
#[derive(Clone, Debug)]
pub struct Case {
    pub id: String,
    pub cfg: Cfg,
    pub steps: Vec<Step>,
}

fn u(s: &str) -> usize {
    s.parse::<usize>().unwrap_or_else(|_| panic!("bad number {:?}", s))
}

pub fn parse_bk(s: &str) -> Bk {
    let p: Vec<&str> = s.split(':').collect();
    match p.as_slice() {
        ["heap"] => Bk::Heap,
        ["stack", n] => Bk::Stack(u(n)),
        ["stackn", n, sz] => Bk::StackN(u(n), u(sz)),
        ["empty"] => Bk::Empty,
        ["reloc"] => Bk::Reloc(0),
        ["reloc", c0] => Bk::Reloc(u(c0)),
        _ => panic!("bad backend {:?}", s),
    }
}
fn parse_api(s: &str) -> Api {
    match s {
        "e" => Api::E,
        "t" => Api::T,
        _ => panic!("bad api {:?}", s),
    }
}
fn parse_tkind(s: &str) -> TKind {
    match s {
        "pop" => TKind::Pop,
        "rm" => TKind::Rm,
        "srm" => TKind::Srm,
        _ => panic!("bad tkind {:?}", s),
    }
}
fn parse_src(s: &str) -> Src {
    let p: Vec<&str> = s.split(':').collect();
    match p.as_slice() {
        ["w"] => Src::Wrap,
        ["box"] => Src::Box_,
        ["raw"] => Src::Raw,
        ["rawt"] => Src::RawT,
        ["raws"] => Src::RawS,
        ["wrong", k] => Src::Wrong(u(k) as u64),
        ["boxwrong", k] => Src::BoxWrong(u(k) as u64),
        ["lz", d, v, i] => Src::Lazy(u(d), u(v), u(i)),
        ["ulz", d] => Src::UserLazy(u(d)),
        ["tmp", v, k, i] => Src::Temp(u(v), parse_tkind(k), u(i)),
        _ => panic!("bad src {:?}", s),
    }
}
fn parse_sink(s: &str) -> Sink {
    if let Some(i) = s.find('+') {
        let (hd, tl) = (&s[..i], &s[i + 1..]);
        let k = Box::new(parse_sink(tl));
        let p: Vec<&str> = hd.split(':').collect();
        match p.as_slice() {
            ["mut"] => Sink::Mut(k),
            ["lz", n, v] => Sink::Lazy(u(n), u(v), k),
            ["lzd", n] => Sink::LazyDown(u(n), k),
            _ => panic!("bad sink {:?}", s),
        }
    } else {
        let p: Vec<&str> = s.split(':').collect();
        match p.as_slice() {
            ["drop"] => Sink::Drop,
            ["down"] => Sink::Down,
            ["push", v] => Sink::Push(u(v)),
            ["ins", v, i] => Sink::Ins(u(v), u(i)),
            ["forget"] => Sink::Forget,
            _ => panic!("bad sink {:?}", s),
        }
    }
}
fn parse_bound(s: &str) -> Bound {
    if s == "u" {
        return Bound::U;
    }
    match &s[..1] {
        "i" => Bound::I(u(&s[1..])),
        "x" => Bound::X(u(&s[1..])),
        _ => panic!("bad bound {:?}", s),
    }
}
fn parse_pat_ro(s: &str) -> Vec<bool> {
    if s == "-" {
        return vec![];
    }
    s.chars().map(|c| c == 'F').collect()
}
fn parse_pat_nth(s: &str) -> Vec<(bool, usize)> {
    if s == "-" {
        return vec![];
    }
    s.split(',').map(|it| (&it[..1] == "F", u(&it[1..]))).collect()
}
fn parse_pat(s: &str) -> Vec<(bool, Sink)> {
    if s == "-" {
        return vec![];
    }
    s.split(',').map(|it| {
        let front = &it[..1] == "F";
        let rest = &it[1..];
        // F<k>~<sink>: nth(k) / nth_back(k)
        if let Some(p) = rest.find('~') {
            if p > 0 && rest[..p].bytes().all(|b| b.is_ascii_digit()) {
                return (front, Sink::Nth(u(&rest[..p]), Box::new(parse_sink(&rest[p + 1..]))));
            }
        }
        (front, parse_sink(rest))
    }).collect()
}
/// `A` or `A/B`: the replacement iterator answers A to the first len() / size_hint() question and B to every later one
fn parse_claim(s: &str) -> (usize, usize) {
    match s.split_once('/') {
        Some((a, b)) => (u(a), u(b)),
        None => (u(s), u(s)),
    }
}
fn parse_ik(s: &str) -> IterKind {
    match s {
        "ref" => IterKind::Ref,
        "mut" => IterKind::Mut,
        "tref" => IterKind::TRef,
        "tmut" => IterKind::TMut,
        "iref" => IterKind::IRef,
        "imut" => IterKind::IMut,
        "itref" => IterKind::ITRef,
        "itmut" => IterKind::ITMut,
        _ => panic!("bad iterkind {:?}", s),
    }
}
fn parse_rk(s: &str) -> RKind {
    let p: Vec<&str> = s.split(':').collect();
    match p.as_slice() {
        ["w"] => RKind::Wrap,
        ["box"] => RKind::Box_,
        ["lz", v] => RKind::Lazy(u(v)),
        _ => panic!("bad rkind {:?}", s),
    }
}

pub fn parse_op(t: &[&str]) -> Op {
    match t {
        ["new", d, bk] => Op::New(u(d), parse_bk(bk)),
        ["withcap", d, bk, n] => Op::WithCap(u(d), parse_bk(bk), u(n)),
        ["dropvec", v] => Op::DropVec(u(v)),
        ["push", a, v, s] => Op::Push(parse_api(a), u(v), parse_src(s)),
        ["insert", a, v, i, s] => Op::Insert(parse_api(a), u(v), u(i), parse_src(s)),
        ["pop", a, v, k] => Op::Pop(parse_api(a), u(v), parse_sink(k)),
        ["remove", a, v, i, k] => Op::Remove(parse_api(a), u(v), u(i), parse_sink(k)),
        ["swap_remove", a, v, i, k] => Op::SwapRemove(parse_api(a), u(v), u(i), parse_sink(k)),
        ["clear", a, v] => Op::Clear(parse_api(a), u(v)),
        ["get", a, v, i] => Op::Get(parse_api(a), u(v), u(i)),
        ["at", a, v, i] => Op::At(parse_api(a), u(v), u(i)),
        ["iter", k, v, p] => Op::Iter(parse_ik(k), u(v), parse_pat_ro(p)),
        ["drain", a, v, sb, eb, p, f] => Op::Drain(
            parse_api(a), u(v), parse_bound(sb), parse_bound(eb), parse_pat(p), *f == "drop"),
        ["splice", a, v, sb, eb, p, f, rk, n, w, cl] => Op::Splice(
            parse_api(a), u(v), parse_bound(sb), parse_bound(eb), parse_pat(p), *f == "drop",
            parse_rk(rk), u(n), if *w == "-" { None } else { Some(u(w)) }, parse_claim(cl)),
        ["clone", v, d] => Op::Clone(u(v), u(d)),
        ["clone_empty", v, d] => Op::CloneEmpty(u(v), u(d)),
        ["clone_empty_in", v, d, bk] => Op::CloneEmptyIn(u(v), u(d), parse_bk(bk)),
        ["clone_in", v, bk, k] => Op::CloneIn(u(v), parse_bk(bk), u(k)),
        ["reserve", v, n] => Op::Reserve(u(v), u(n), false),
        ["reserve_exact", v, n] => Op::ReserveExact(u(v), u(n), false),
        ["shrink_to_fit", v] => Op::ShrinkToFit(u(v), false),
        ["shrink_to", v, n] => Op::ShrinkTo(u(v), u(n), false),
        // the same through the typed view
        ["treserve", v, n] => Op::Reserve(u(v), u(n), true),
        ["treserve_exact", v, n] => Op::ReserveExact(u(v), u(n), true),
        ["tshrink_to_fit", v] => Op::ShrinkToFit(u(v), true),
        ["tshrink_to", v, n] => Op::ShrinkTo(u(v), u(n), true),
        ["views", v] => Op::Views(u(v)),
        ["spare_write", a, v, k] => Op::SpareWrite(parse_api(a), u(v), u(k)),
        ["set_len", v, n] => Op::SetLen(u(v), u(n)),
        ["iter_clone", k, v, p1, p2] => Op::IterClone(parse_ik(k), u(v), parse_pat_ro(p1), parse_pat_ro(p2)),
        ["probe_types", v, i] => Op::ProbeTypes(u(v), u(i)),
        ["down_wrong", v, k, i] => Op::DownWrong(u(v), parse_tkind(k), u(i)),
        ["swap_wrong", v, i] => Op::SwapWrong(u(v), u(i), 0),
        ["swap_wrong", v, i, k] => Op::SwapWrong(u(v), u(i), match *k { "w" => 0, "raw" => 1, "rawrev" => 2, _ => panic!("bad swap_wrong kind") }),
        ["write", hk, v, i] => Op::Write(u(hk), u(v), u(i)),
        ["read", hk, v, i] => Op::Read(u(hk), u(v), u(i)),
        ["swap", pr, v1, i, v2, j] => Op::Swap(u(pr), u(v1), u(i), u(v2), u(j)),
        ["parts", v, m] => Op::Parts(u(v), u(m)),
        ["placement"] => Op::Placement,
        ["iter_nth", k, v, p] => Op::IterNth(parse_ik(k), u(v), parse_pat_nth(p)),
        ["lazy_down", d, v, i] => Op::LazyDown(u(d), u(v), u(i)),
        ["cursor_max", a, p] => Op::CursorMax(parse_api(a), parse_pat_ro(p)),
        _ => panic!("bad op {:?}", t),
    }
}

pub fn parse_case(line: &str) -> Option<Case> {
    let mut parts = line.split(';').map(|s| s.trim());
    let head = parts.next()?;
    let mut ht = head.split_whitespace();
    let id = ht.next()?.to_string();
    let mut cfg = Cfg { sz: 8, al: 8, dg: true, cl: true, trap: true, tr: "c".into(), be: Bk::Heap };
    for kv in ht {
        let (k, v) = kv.split_once('=').unwrap_or_else(|| panic!("bad cfg {:?}", kv));
        match k {
            "sz" => cfg.sz = u(v),
            "al" => cfg.al = u(v),
            "dg" => cfg.dg = v == "1",
            "cl" => cfg.cl = v == "1",
            "trap" => cfg.trap = v == "1",
            "tr" => cfg.tr = v.to_string(),
            "be" => cfg.be = parse_bk(v),
            _ => panic!("bad cfg key {:?}", k),
        }
    }
    let mut steps = Vec::new();
    for st in parts {
        let mut toks: Vec<&str> = st.split_whitespace().collect();
        if toks.is_empty() {
            continue;
        }
        let mut fuse = None;
        if toks[0].starts_with("fuse=") {
            fuse = Some(toks[0][5..].parse::<u64>().unwrap());
            toks.remove(0);
        }
        steps.push(Step { fuse, op: parse_op(&toks) });
    }
    Some(Case { id, cfg, steps })
}
