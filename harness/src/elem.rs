//! Instrumented element types and the thread-local registry (identity ledger,
//! event log, panic fuse).
use std::cell::RefCell;
use std::collections::HashMap;

#[derive(Clone, Debug, PartialEq)]
pub enum Ev {
    D(u64),
    C(u64, u64),
    N,
    A(usize, usize),
    R(usize, usize, usize),
    F(usize, usize),
    B(usize, usize),
    X(usize),
    Z(usize),
    M,
}

impl Ev {
    pub fn render(&self) -> String {
        match self {
            Ev::D(t) => format!("D{}", t),
            Ev::C(a, b) => format!("C{}>{}", a, b),
            Ev::N => "N".into(),
            Ev::A(s, a) => format!("A{}:{}", s, a),
            Ev::R(o, a, n) => format!("R{}:{}>{}", o, a, n),
            Ev::F(s, a) => format!("F{}:{}", s, a),
            Ev::B(s, a) => format!("B{}:{}", s, a),
            Ev::X(a) => format!("X{}", a),
            Ev::Z(a) => format!("Z{}", a),
            Ev::M => "M".into(),
        }
    }
}

#[derive(Default)]
pub struct Reg {
    pub next: u64,
    pub log: Vec<Ev>,
    /// token -> number of live instances (a correct run never exceeds 1 for sized types)
    pub live: HashMap<u64, i64>,
    pub zst: bool,
    pub created: u64,
    pub dropped: u64,
    pub fuse: Option<u64>,
    pub in_lib: bool,
    pub violations: Vec<String>,
}

thread_local! {
    pub static REG: RefCell<Reg> = RefCell::new(Reg { next: 1, ..Default::default() });
    /// allocator events are recorded only while this is set
    pub static ALLOC_TRACK: std::cell::Cell<bool> = const { std::cell::Cell::new(false) };
}

/// Run `f` with allocator tracking suspended (registry bookkeeping allocates).
pub fn untracked<R>(f: impl FnOnce() -> R) -> R {
    let old = ALLOC_TRACK.with(|t| t.replace(false));
    let r = f();
    ALLOC_TRACK.with(|t| t.set(old));
    r
}

pub fn with_reg<R>(f: impl FnOnce(&mut Reg) -> R) -> R {
    untracked(|| REG.with(|r| f(&mut r.borrow_mut())))
}

pub fn reset(zst: bool) {
    with_reg(|r| {
        *r = Reg { next: 1, zst, ..Default::default() };
    });
}

pub fn log(e: Ev) {
    with_reg(|r| r.log.push(e));
}

/// Called at every invocation of user code from inside the library.
/// Panics when the fuse fires (never while a panic is already unwinding).
pub fn user_call() {
    let fire = with_reg(|r| {
        if !r.in_lib || std::thread::panicking() {
            return false;
        }
        match r.fuse {
            None => false,
            Some(0) => {
                r.fuse = None;
                true
            }
            Some(k) => {
                r.fuse = Some(k - 1);
                false
            }
        }
    });
    if fire {
        panic!("fuse");
    }
}

pub fn fresh_token() -> u64 {
    with_reg(|r| {
        let t = if r.zst { 0 } else { r.next };
        r.next += 1;
        r.created += 1;
        *r.live.entry(t).or_insert(0) += 1;
        t
    })
}

pub fn on_drop(t: u64) {
    with_reg(|r| {
        r.log.push(Ev::D(t));
        r.dropped += 1;
        let e = r.live.entry(t).or_insert(0);
        *e -= 1;
        if *e < 0 {
            r.violations.push(format!("double-drop token={}", t));
        }
    });
    user_call();
}

pub fn on_clone(src: u64) -> u64 {
    user_call();
    let n = fresh_token();
    with_reg(|r| r.log.push(Ev::C(src, n)));
    n
}

/// RAII marker: "inside a library call" (fuse armed, allocator tracked).
pub struct InLib {
    old: bool,
    old_track: bool,
}
impl InLib {
    pub fn enter() -> Self {
        let old = with_reg(|r| std::mem::replace(&mut r.in_lib, true));
        let old_track = ALLOC_TRACK.with(|t| t.replace(true));
        InLib { old, old_track }
    }
}
impl Drop for InLib {
    fn drop(&mut self) {
        ALLOC_TRACK.with(|t| t.set(self.old_track));
        let old = self.old;
        with_reg(|r| r.in_lib = old);
    }
}
#[macro_export]
macro_rules! lib {
    ($e:expr) => {{
        let _g = $crate::elem::InLib::enter();
        $e
    }};
}

pub trait Elem: 'static + Clone + Sized + Send + Sync {
    const SIZE: usize;
    const ALIGN: usize;
    const DG: bool;
    type Wrong: Elem;
    fn new() -> Self;
    fn token(&self) -> u64;
    /// canary bytes consistent with the token
    fn intact(&self) -> bool;
}

// The identity of a value is spread over ALL its bytes: the first min(size, 8) bytes hold tok * MIX
// (mod 2^(8*that many bytes); MIX is odd, so this is a bijection and small identities have no zero bytes),
// the remaining bytes a canary derived from it.  A byte moved to the wrong place, or the wrong number of
// bytes moved, therefore changes what the slot decodes to.
const MIX: u64 = 0x9E37_79B9_7F4A_7C15;
const UNMIX: u64 = 0xF1DE_83E1_9937_733D;      // MIX * UNMIX = 1 (mod 2^64)
#[inline]
fn low_mask(m: usize) -> u64 { if m >= 8 { u64::MAX } else { (1u64 << (8 * m)) - 1 } }
#[inline]
fn canary(v: u64, k: usize) -> u8 { ((v >> (8 * (k % 8))) as u8).wrapping_mul(31).wrapping_add(k as u8) }
#[inline]
fn fill(b: &mut [u8], tok: u64) {
    let n = b.len();
    let v = tok.wrapping_mul(MIX) & low_mask(n.min(8));
    let le = v.to_le_bytes();
    for k in 0..n {
        b[k] = if k < 8 { le[k] } else { canary(v, k) };
    }
}
#[inline]
fn mixed_of(b: &[u8]) -> u64 {
    let mut le = [0u8; 8];
    for k in 0..b.len().min(8) {
        le[k] = b[k];
    }
    u64::from_le_bytes(le)
}
#[inline]
fn tok_of(b: &[u8]) -> u64 {
    mixed_of(b).wrapping_mul(UNMIX) & low_mask(b.len().min(8))
}
#[inline]
fn check(b: &[u8]) -> bool {
    let v = mixed_of(b);
    for k in 8..b.len() {
        if b[k] != canary(v, k) {
            return false;
        }
    }
    true
}

macro_rules! elem_type {
    ($name:ident, $wrong:ident, $size:expr, $align:expr, $dg:tt) => {
        #[repr(C, align($align))]
        pub struct $name {
            pub b: [u8; $size],
        }
        impl Elem for $name {
            const SIZE: usize = $size;
            const ALIGN: usize = $align;
            const DG: bool = $dg;
            type Wrong = $wrong;
            fn new() -> Self {
                let t = fresh_token();
                let mut b = [0u8; $size];
                fill(&mut b, t);
                $name { b }
            }
            fn token(&self) -> u64 {
                tok_of(&self.b)
            }
            fn intact(&self) -> bool {
                check(&self.b)
            }
        }
        impl Clone for $name {
            fn clone(&self) -> Self {
                let t = on_clone(self.token());
                let mut b = [0u8; $size];
                fill(&mut b, t);
                $name { b }
            }
        }
        elem_type!(@drop $name, $dg);
    };
    (@drop $name:ident, true) => {
        impl Drop for $name {
            fn drop(&mut self) {
                on_drop(self.token());
            }
        }
    };
    (@drop $name:ident, false) => {};
}

macro_rules! elem_pair {
    ($a:ident, $b:ident, $size:expr, $align:expr, $dg:tt) => {
        elem_type!($a, $b, $size, $align, $dg);
        elem_type!($b, $a, $size, $align, $dg);
    };
}

// name: E<size>a<align><d|n>; the W twin is a distinct type of identical layout
elem_pair!(E0a1d, W0a1d, 0, 1, true);
elem_pair!(E0a1n, W0a1n, 0, 1, false);
elem_pair!(E0a8d, W0a8d, 0, 8, true);     // zero-sized, over-aligned (e.g. [u64; 0]): the dangling pointer must be aligned too
elem_pair!(E1a1d, W1a1d, 1, 1, true);
elem_pair!(E1a1n, W1a1n, 1, 1, false);
elem_pair!(E2a2d, W2a2d, 2, 2, true);
elem_pair!(E2a2n, W2a2n, 2, 2, false);
elem_pair!(E3a1d, W3a1d, 3, 1, true);
elem_pair!(E3a1n, W3a1n, 3, 1, false);
elem_pair!(E8a8d, W8a8d, 8, 8, true);
elem_pair!(E8a8n, W8a8n, 8, 8, false);
elem_pair!(E12a4d, W12a4d, 12, 4, true);
elem_pair!(E12a4n, W12a4n, 12, 4, false);
elem_pair!(E16a16d, W16a16d, 16, 16, true);
elem_pair!(E16a16n, W16a16n, 16, 16, false);
elem_pair!(E24a8d, W24a8d, 24, 8, true);
elem_pair!(E24a8n, W24a8n, 24, 8, false);
elem_pair!(E64a64d, W64a64d, 64, 64, true);
elem_pair!(E64a64n, W64a64n, 64, 64, false);
elem_pair!(E136a8d, W136a8d, 136, 8, true);
elem_pair!(E136a8n, W136a8n, 136, 8, false);
elem_pair!(E160a32d, W160a32d, 160, 32, true);
elem_pair!(E160a32n, W160a32n, 160, 32, false);
