//! Instrumented global allocator: logs (kind, size, align) of every call made
//! while inside a library call, keeps a ledger of live blocks with the layout
//! they were allocated with, checks realloc/dealloc layouts against it, and
//! refuses requests above 2^40 bytes.
use std::alloc::{GlobalAlloc, Layout, System};
use std::cell::RefCell;
use std::collections::HashMap;

use crate::elem::{with_reg, Ev, ALLOC_TRACK};

pub struct Instr;

thread_local! {
    static LEDGER: RefCell<HashMap<usize, (usize, usize)>> = RefCell::new(HashMap::new());
}

fn tracking() -> bool {
    ALLOC_TRACK.try_with(|t| t.get()).unwrap_or(false) && !std::thread::panicking()
}

pub fn ledger_live() -> usize {
    crate::elem::untracked(|| LEDGER.with(|l| l.borrow().len()))
}
pub fn ledger_reset() {
    crate::elem::untracked(|| LEDGER.with(|l| l.borrow_mut().clear()))
}

unsafe impl GlobalAlloc for Instr {
    unsafe fn alloc(&self, layout: Layout) -> *mut u8 {
        if tracking() {
            if layout.size() > crate::reloc::LIMIT {
                with_reg(|r| r.log.push(Ev::A(layout.size(), layout.align())));
                return std::ptr::null_mut();
            }
            let p = System.alloc(layout);
            if !p.is_null() {
                // fresh memory is poison-filled (compared with the model's Uninit cells)
                std::ptr::write_bytes(p, 0xCD, layout.size());
            }
            with_reg(|r| {
                r.log.push(Ev::A(layout.size(), layout.align()));
                if layout.size() == 0 {
                    r.violations.push("zero-size-alloc".into());
                }
                if layout.size() > isize::MAX as usize - (layout.align() - 1) {
                    r.violations.push(format!("invalid-layout size={}", layout.size()));
                }
            });
            crate::elem::untracked(|| {
                LEDGER.with(|l| l.borrow_mut().insert(p as usize, (layout.size(), layout.align())))
            });
            p
        } else {
            System.alloc(layout)
        }
    }
    unsafe fn dealloc(&self, ptr: *mut u8, layout: Layout) {
        // also while a panic unwinds through the library: a half-built clone, a vector whose element
        // destructor panicked ... release their storage on the way out, and that is the crate's doing
        if ALLOC_TRACK.try_with(|t| t.get()).unwrap_or(false) {
            // blocks not in the ledger belong to the harness itself (e.g. the buffer of a
            // replacement iterator dropped inside a library frame): not the crate's business
            let known = crate::elem::untracked(|| LEDGER.with(|l| l.borrow_mut().remove(&(ptr as usize))));
            if let Some((s, a)) = known {
                with_reg(|r| {
                    r.log.push(Ev::F(layout.size(), layout.align()));
                    if !(s == layout.size() && a == layout.align()) {
                        r.violations.push(format!(
                            "dealloc-layout-mismatch allocated={}:{} presented={}:{}",
                            s, a, layout.size(), layout.align()
                        ));
                    }
                });
            }
        }
        System.dealloc(ptr, layout)
    }
    unsafe fn realloc(&self, ptr: *mut u8, layout: Layout, new_size: usize) -> *mut u8 {
        let known = if tracking() {
            crate::elem::untracked(|| LEDGER.with(|l| l.borrow_mut().remove(&(ptr as usize))))
        } else { None };
        if let Some((s, a)) = known {
            with_reg(|r| {
                r.log.push(Ev::R(layout.size(), layout.align(), new_size));
                if !(s == layout.size() && a == layout.align()) {
                    r.violations.push(format!(
                        "realloc-layout-mismatch allocated={}:{} presented={}:{}",
                        s, a, layout.size(), layout.align()
                    ));
                }
                if new_size > isize::MAX as usize - (layout.align() - 1) {
                    r.violations.push(format!("invalid-layout size={}", new_size));
                }
            });
            if new_size > crate::reloc::LIMIT {
                return std::ptr::null_mut();
            }
            // always move: allocate fresh, copy, free (makes stale pointers visible)
            let nl = Layout::from_size_align_unchecked(new_size, layout.align());
            let p = System.alloc(nl);
            std::ptr::write_bytes(p, 0xCD, new_size);
            std::ptr::copy_nonoverlapping(ptr, p, layout.size().min(new_size));
            std::ptr::write_bytes(ptr, 0xDD, layout.size());
            System.dealloc(ptr, layout);
            crate::elem::untracked(|| {
                LEDGER.with(|l| l.borrow_mut().insert(p as usize, (new_size, layout.align())))
            });
            p
        } else {
            System.realloc(ptr, layout, new_size)
        }
    }
}
