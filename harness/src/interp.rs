//! The interpreter: executes a case against the real crate, one trace line per step.
use std::any::TypeId;
use std::fmt::Write as _;
use std::mem::ManuallyDrop;
use std::panic::{catch_unwind, AssertUnwindSafe};
use std::ptr::NonNull;

use any_vec::any_value::{
    AnyValue, AnyValueCloneable, AnyValueMut, AnyValueRaw, AnyValueSizeless,
    AnyValueSizelessRaw, AnyValueTypeless, AnyValueTypelessRaw, AnyValueWrapper, Unknown,
};
use any_vec::element::Element;
use any_vec::mem::MemBuilder;
use any_vec::ops::{Pop, Remove, SwapRemove};
use any_vec::traits::{Cloneable, Trait};
use any_vec::{AnyVec, SatisfyTraits};

use crate::case::*;
use crate::elem::{with_reg, Elem, Ev};
use crate::lib;


// ---------------------------------------------------------------------------------
// Backend capabilities (what the type system offers for this M)
// ---------------------------------------------------------------------------------
pub trait BackOps: MemBuilder + Default + 'static {
    const RESIZABLE: bool;
    /// fresh storage is poison-filled by the harness (raw storage can be compared)
    const RAW: bool = false;
    fn matches(bk: &Bk) -> bool;
    /// capacity a fixed-capacity backend must report for an element of `sz` bytes
    fn fixed_cap(sz: usize) -> Option<usize>;
    /// `typed`: through the typed view (`downcast_mut::<T>()`), which forwards to the same raw operation
    fn reserve<Tr: ?Sized + Trait, T: Elem>(_v: &mut AnyVec<Tr, Self>, _n: usize, _typed: bool) { unreachable!() }
    fn reserve_exact<Tr: ?Sized + Trait, T: Elem>(_v: &mut AnyVec<Tr, Self>, _n: usize, _typed: bool) { unreachable!() }
    fn shrink_to_fit<Tr: ?Sized + Trait, T: Elem>(_v: &mut AnyVec<Tr, Self>, _typed: bool) { unreachable!() }
    fn shrink_to<Tr: ?Sized + Trait, T: Elem>(_v: &mut AnyVec<Tr, Self>, _n: usize, _typed: bool) { unreachable!() }
    fn with_capacity<Tr: ?Sized + Trait, T: Elem + SatisfyTraits<Tr>>(_n: usize) -> AnyVec<Tr, Self> {
        unreachable!()
    }
    /// into_raw_parts / (clone) / from_raw_parts; returns the rebuilt vector and the reported fields
    fn parts<Tr: ?Sized + Trait, T: Elem>(_v: AnyVec<Tr, Self>, _mode: usize) -> (AnyVec<Tr, Self>, Vec<u64>) {
        panic!("raw parts are not available on this backend")
    }
}
fn parts_impl<Tr: ?Sized + Trait, M: MemBuilder, T: Elem>(v: AnyVec<Tr, M>, mode: usize) -> (AnyVec<Tr, M>, Vec<u64>)
where
    M::Mem: any_vec::mem::MemRawParts,
    <M::Mem as any_vec::mem::MemRawParts>::Handle: Clone,
{
    let fields = |p: &any_vec::RawParts<M>| -> Vec<u64> {
        vec![p.len as u64, p.capacity as u64, p.element_layout.size() as u64, p.element_layout.align() as u64,
             (p.element_typeid == TypeId::of::<T>()) as u64, p.element_drop.is_some() as u64]
    };
    let p = lib!(v.into_raw_parts());
    let ret = if mode == 1 {
        let q = lib!(p.clone());
        fields(&q)
    } else {
        fields(&p)
    };
    let mut v2 = unsafe { lib!(AnyVec::<Tr, M>::from_raw_parts(p)) };
    if mode == 2 {
        let p2 = lib!(v2.into_raw_parts());
        v2 = unsafe { lib!(AnyVec::<Tr, M>::from_raw_parts(p2)) };
    }
    (v2, ret)
}

macro_rules! resizable_backops {
    ($t:ty, $pat:pat, $($extra:tt)*) => {
        impl BackOps for $t {
            const RESIZABLE: bool = true;
            const RAW: bool = true;
            fn matches(bk: &Bk) -> bool { matches!(bk, $pat) }
            fn fixed_cap(_sz: usize) -> Option<usize> { None }
            fn reserve<Tr: ?Sized + Trait, T: Elem>(v: &mut AnyVec<Tr, Self>, n: usize, typed: bool) {
                if typed { v.downcast_mut::<T>().expect("typed view").reserve(n) } else { v.reserve(n) } }
            fn reserve_exact<Tr: ?Sized + Trait, T: Elem>(v: &mut AnyVec<Tr, Self>, n: usize, typed: bool) {
                if typed { v.downcast_mut::<T>().expect("typed view").reserve_exact(n) } else { v.reserve_exact(n) } }
            fn shrink_to_fit<Tr: ?Sized + Trait, T: Elem>(v: &mut AnyVec<Tr, Self>, typed: bool) {
                if typed { v.downcast_mut::<T>().expect("typed view").shrink_to_fit() } else { v.shrink_to_fit() } }
            fn shrink_to<Tr: ?Sized + Trait, T: Elem>(v: &mut AnyVec<Tr, Self>, n: usize, typed: bool) {
                if typed { v.downcast_mut::<T>().expect("typed view").shrink_to(n) } else { v.shrink_to(n) } }
            fn with_capacity<Tr: ?Sized + Trait, T: Elem + SatisfyTraits<Tr>>(n: usize) -> AnyVec<Tr, Self> {
                AnyVec::<Tr, Self>::with_capacity::<T>(n)
            }
            $($extra)*
        }
    };
}
#[cfg(feature = "heap")]
resizable_backops!(any_vec::mem::Heap, Bk::Heap,
    fn parts<Tr: ?Sized + Trait, T: Elem>(v: AnyVec<Tr, Self>, mode: usize) -> (AnyVec<Tr, Self>, Vec<u64>) { parts_impl::<Tr, Self, T>(v, mode) });
impl<const C0: usize> BackOps for crate::reloc::Reloc<C0> {
    const RESIZABLE: bool = true;
    const RAW: bool = true;
    fn matches(bk: &Bk) -> bool { *bk == Bk::Reloc(C0) }
    fn fixed_cap(_sz: usize) -> Option<usize> { None }
    fn reserve<Tr: ?Sized + Trait, T: Elem>(v: &mut AnyVec<Tr, Self>, n: usize, typed: bool) {
        if typed { v.downcast_mut::<T>().expect("typed view").reserve(n) } else { v.reserve(n) } }
    fn reserve_exact<Tr: ?Sized + Trait, T: Elem>(v: &mut AnyVec<Tr, Self>, n: usize, typed: bool) {
        if typed { v.downcast_mut::<T>().expect("typed view").reserve_exact(n) } else { v.reserve_exact(n) } }
    fn shrink_to_fit<Tr: ?Sized + Trait, T: Elem>(v: &mut AnyVec<Tr, Self>, typed: bool) {
        if typed { v.downcast_mut::<T>().expect("typed view").shrink_to_fit() } else { v.shrink_to_fit() } }
    fn shrink_to<Tr: ?Sized + Trait, T: Elem>(v: &mut AnyVec<Tr, Self>, n: usize, typed: bool) {
        if typed { v.downcast_mut::<T>().expect("typed view").shrink_to(n) } else { v.shrink_to(n) } }
    fn with_capacity<Tr: ?Sized + Trait, T: Elem + SatisfyTraits<Tr>>(n: usize) -> AnyVec<Tr, Self> {
        AnyVec::<Tr, Self>::with_capacity::<T>(n)
    }
}

impl<const SIZE: usize> BackOps for any_vec::mem::Stack<SIZE> {
    const RESIZABLE: bool = false;
    fn matches(bk: &Bk) -> bool { *bk == Bk::Stack(SIZE) }
    fn fixed_cap(sz: usize) -> Option<usize> {
        Some(if sz == 0 { usize::MAX } else { SIZE / sz })
    }
}
impl<const N: usize, const SIZE: usize> BackOps for any_vec::mem::StackN<N, SIZE> {
    const RESIZABLE: bool = false;
    fn matches(bk: &Bk) -> bool { *bk == Bk::StackN(N, SIZE) }
    fn fixed_cap(_sz: usize) -> Option<usize> { Some(N) }
}
impl BackOps for any_vec::mem::Empty {
    const RESIZABLE: bool = false;
    fn matches(bk: &Bk) -> bool { *bk == Bk::Empty }
    fn fixed_cap(_sz: usize) -> Option<usize> { Some(0) }
    fn parts<Tr: ?Sized + Trait, T: Elem>(v: AnyVec<Tr, Self>, mode: usize) -> (AnyVec<Tr, Self>, Vec<u64>) { parts_impl::<Tr, Self, T>(v, mode) }
}

// ---------------------------------------------------------------------------------
// Constraint-set capabilities (Cloneable or not)
// ---------------------------------------------------------------------------------
pub trait TrOps: Trait {
    const CL: bool;
    const NAME: &'static str;
    fn clone_vec<M: MemBuilder>(_v: &AnyVec<Self, M>) -> AnyVec<Self, M> { unreachable!() }
    fn clone_from_vec<M: MemBuilder>(_dst: &mut AnyVec<Self, M>, _src: &AnyVec<Self, M>) { unreachable!() }
    /// dst.push(src.at(idx).lazy_clone()^depth)
    fn push_lazy_at<M: MemBuilder>(_dst: &mut AnyVec<Self, M>, _ins: Option<usize>, _src: &AnyVec<Self, M>, _idx: usize, _depth: usize) { unreachable!() }
    fn lazy_pop<M: MemBuilder>(_dst: &mut AnyVec<Self, M>, _h: &Pop<'_, Self, M>) { unreachable!() }
    fn lazy_remove<M: MemBuilder>(_dst: &mut AnyVec<Self, M>, _h: &Remove<'_, Self, M>) { unreachable!() }
    fn lazy_swap_remove<M: MemBuilder>(_dst: &mut AnyVec<Self, M>, _h: &SwapRemove<'_, Self, M>) { unreachable!() }
    fn lazy_element<M: MemBuilder>(_dst: &mut AnyVec<Self, M>, _e: &Element<'_, Self, M>) { unreachable!() }
    /// src.at(idx).lazy_clone()^depth .downcast::<T>()
    fn down_lazy_at<M: MemBuilder, T: 'static>(_src: &AnyVec<Self, M>, _idx: usize, _depth: usize) -> T { unreachable!() }
    fn down_lazy_pop<M: MemBuilder, T: 'static>(_h: &Pop<'_, Self, M>) -> T { unreachable!() }
    fn down_lazy_remove<M: MemBuilder, T: 'static>(_h: &Remove<'_, Self, M>) -> T { unreachable!() }
    fn down_lazy_swap_remove<M: MemBuilder, T: 'static>(_h: &SwapRemove<'_, Self, M>) -> T { unreachable!() }
    fn down_lazy_element<M: MemBuilder, T: 'static>(_e: &Element<'_, Self, M>) -> T { unreachable!() }
    /// v.splice(range, lazy clones of src[i mod len]) with the instrumented iterator
    fn splice_lazy<M: MemBuilder + 'static, R>(
        _v: &mut AnyVec<Self, M>, _src: &AnyVec<Self, M>, _n: usize, _claimed: (usize, usize),
        _sb: Bound, _eb: Bound,
        _f: &mut dyn FnMut(&mut dyn ErasedRange<Self, M>) -> R,
    ) -> R { unreachable!() }
}

macro_rules! plain_trops {
    ($t:ty, $name:expr) => {
        impl TrOps for $t {
            const CL: bool = false;
            const NAME: &'static str = $name;
        }
    };
}
macro_rules! cloneable_trops {
    ($t:ty, $name:expr) => {
        impl TrOps for $t {
            const CL: bool = true;
            const NAME: &'static str = $name;
            fn clone_vec<M: MemBuilder>(v: &AnyVec<Self, M>) -> AnyVec<Self, M> { v.clone() }
            fn clone_from_vec<M: MemBuilder>(dst: &mut AnyVec<Self, M>, src: &AnyVec<Self, M>) { dst.clone_from(src) }
            fn push_lazy_at<M: MemBuilder>(dst: &mut AnyVec<Self, M>, ins: Option<usize>, src: &AnyVec<Self, M>, idx: usize, depth: usize) {
                let e = src.at(idx);
                let l1 = e.lazy_clone();
                match (depth, ins) {
                    (1, None) => lib!(dst.push(l1)),
                    (1, Some(i)) => lib!(dst.insert(i, l1)),
                    // depth 2 and 3 also COPY the lazy clone (Clone for LazyClone) and drop the original: neither clones nor destroys
                    (2, None) => { let l2 = l1.lazy_clone(); let l2c = lib!(l2.clone()); drop(l2); lib!(dst.push(l2c)) }
                    (2, Some(i)) => { let l2 = l1.lazy_clone(); let l2c = lib!(l2.clone()); drop(l2); lib!(dst.insert(i, l2c)) }
                    (_, None) => { let l1c = lib!(l1.clone()); let l2 = l1c.lazy_clone(); let l3 = l2.lazy_clone(); lib!(dst.push(l3)) }
                    (_, Some(i)) => { let l1c = lib!(l1.clone()); let l2 = l1c.lazy_clone(); let l3 = l2.lazy_clone(); lib!(dst.insert(i, l3)) }
                }
            }
            fn lazy_pop<M: MemBuilder>(dst: &mut AnyVec<Self, M>, h: &Pop<'_, Self, M>) { lib!(dst.push(h.lazy_clone())) }
            fn lazy_remove<M: MemBuilder>(dst: &mut AnyVec<Self, M>, h: &Remove<'_, Self, M>) { lib!(dst.push(h.lazy_clone())) }
            fn lazy_swap_remove<M: MemBuilder>(dst: &mut AnyVec<Self, M>, h: &SwapRemove<'_, Self, M>) { lib!(dst.push(h.lazy_clone())) }
            fn lazy_element<M: MemBuilder>(dst: &mut AnyVec<Self, M>, e: &Element<'_, Self, M>) { lib!(dst.push(e.lazy_clone())) }
            fn down_lazy_at<M: MemBuilder, T: 'static>(src: &AnyVec<Self, M>, idx: usize, depth: usize) -> T {
                let e = src.at(idx);
                let l1 = e.lazy_clone();
                match depth {
                    1 => lib!(l1.downcast::<T>()).expect("downcast of a lazy clone failed"),
                    2 => { let l2 = l1.lazy_clone(); lib!(l2.downcast::<T>()).expect("downcast of a lazy clone failed") }
                    _ => { let l2 = l1.lazy_clone(); let l3 = l2.lazy_clone(); lib!(l3.downcast::<T>()).expect("downcast of a lazy clone failed") }
                }
            }
            fn down_lazy_pop<M: MemBuilder, T: 'static>(h: &Pop<'_, Self, M>) -> T { lib!(h.lazy_clone().downcast::<T>()).expect("downcast of a lazy clone failed") }
            fn down_lazy_remove<M: MemBuilder, T: 'static>(h: &Remove<'_, Self, M>) -> T { lib!(h.lazy_clone().downcast::<T>()).expect("downcast of a lazy clone failed") }
            fn down_lazy_swap_remove<M: MemBuilder, T: 'static>(h: &SwapRemove<'_, Self, M>) -> T { lib!(h.lazy_clone().downcast::<T>()).expect("downcast of a lazy clone failed") }
            fn down_lazy_element<M: MemBuilder, T: 'static>(e: &Element<'_, Self, M>) -> T { lib!(e.lazy_clone().downcast::<T>()).expect("downcast of a lazy clone failed") }
            fn splice_lazy<M: MemBuilder + 'static, R>(
                v: &mut AnyVec<Self, M>, src: &AnyVec<Self, M>, n: usize, claimed: (usize, usize),
                sb: Bound, eb: Bound,
                f: &mut dyn FnMut(&mut dyn ErasedRange<Self, M>) -> R,
            ) -> R {
                let refs: Vec<_> = (0..n).map(|i| src.at(if src.len() == 0 { 0 } else { i % src.len() })).collect();
                let items: Vec<_> = refs.iter().map(|r| (**r).lazy_clone()).collect();
                let it = Repl::new(items.into_iter(), claimed);
                let mut sp = lib!(v.splice((to_std(sb), to_std(eb)), it));
                let r = f(&mut sp);
                lib!(drop(sp));
                r
            }
        }
    };
}
plain_trops!(dyn any_vec::traits::None, "n");
plain_trops!(dyn Send, "s");
plain_trops!(dyn Sync, "y");
plain_trops!(dyn Send + Sync, "sy");
cloneable_trops!(dyn Cloneable, "c");
cloneable_trops!(dyn Cloneable + Send, "cs");
cloneable_trops!(dyn Cloneable + Sync, "cy");
cloneable_trops!(dyn Cloneable + Send + Sync, "csy");

// ---------------------------------------------------------------------------------
// Harness-side value kinds
// ---------------------------------------------------------------------------------

/// An owning AnyValue whose static type is unknown (erased arm), reporting `ty`.
/// `src.clone_empty_in(<NewM>)` held in the caller's frame: what it reports, `k` pushes of fresh values, the
/// contents read back through the typed view, a whole-vector clone dropped at once (Cloneable constraint sets
/// only), one pop dropped, the length, and the drop of the vector (also when one of the calls unwinds).
fn clone_in_probe<Tr: ?Sized + TrOps, M: MemBuilder, NewM: MemBuilder + Default, T: Elem + SatisfyTraits<Tr>>(
    src: &AnyVec<Tr, M>, k: usize,
) -> Vec<u64> {
    // the clone is dropped inside a library frame on every path (also when one of the calls below unwinds), so that
    // the release of its storage is seen by the instrumented allocator
    struct LibDrop<V>(Option<V>);
    impl<V> Drop for LibDrop<V> {
        fn drop(&mut self) { let v = self.0.take(); lib!(drop(v)); }
    }
    let mut ret: Vec<u64> = Vec::with_capacity(16);
    let mut guard = LibDrop(Some(lib!(src.clone_empty_in(NewM::default()))));
    let c: &mut AnyVec<Tr, NewM> = guard.0.as_mut().unwrap();
    ret.push(c.len() as u64);
    ret.push(c.capacity() as u64);
    for _ in 0..k {
        let x = AnyValueWrapper::new(T::new());
        lib!(c.push(x));
    }
    for x in c.downcast_ref::<T>().expect("typed view of the clone").as_slice() {
        ret.push(x.token());
    }
    if Tr::CL {
        let c2 = lib!(Tr::clone_vec(&*c));
        lib!(drop(c2));
    }
    if let Some(h) = lib!(c.pop()) {
        lib!(drop(h));
    }
    ret.push(c.len() as u64);
    drop(guard);
    ret
}

pub struct HBox<T: Elem> {
    v: ManuallyDrop<T>,
    ty: TypeId,
}
impl<T: Elem> HBox<T> {
    pub fn new(v: T, ty: TypeId) -> Self { HBox { v: ManuallyDrop::new(v), ty } }
}
impl<T: Elem> Drop for HBox<T> {
    fn drop(&mut self) { unsafe { ManuallyDrop::drop(&mut self.v) } }
}
impl<T: Elem> AnyValueSizeless for HBox<T> {
    type Type = Unknown;
    fn as_bytes_ptr(&self) -> *const u8 { &*self.v as *const T as *const u8 }
}
impl<T: Elem> AnyValueTypeless for HBox<T> {
    fn size(&self) -> usize { std::mem::size_of::<T>() }
}
impl<T: Elem> AnyValue for HBox<T> {
    fn value_typeid(&self) -> TypeId { self.ty }
}

/// A user-defined value kind: owns a `T`, reports the CONCRETE type (`Type = T`), and can be lazily cloned.
/// None of the crate's own cloneable sources has a known `Type`; LazyClone forwards it.
pub struct UVal<T: Elem>(pub T);
impl<T: Elem> AnyValueSizeless for UVal<T> {
    type Type = T;
    fn as_bytes_ptr(&self) -> *const u8 { &self.0 as *const T as *const u8 }
}
impl<T: Elem> AnyValueTypeless for UVal<T> {
    fn size(&self) -> usize { std::mem::size_of::<T>() }
}
impl<T: Elem> AnyValue for UVal<T> {
    fn value_typeid(&self) -> TypeId { TypeId::of::<T>() }
}
impl<T: Elem> any_vec::any_value::AnyValueCloneable for UVal<T> {
    unsafe fn clone_into(&self, out: *mut u8) { std::ptr::write(out as *mut T, self.0.clone()) }
}

/// Replacement iterator: instrumented next(), len() may lie - and may answer differently the second time
/// it is asked (`claimed` = (first answer, every later answer)).
pub struct Repl<I: Iterator> {
    pub inner: I,
    pub claimed: (usize, usize),
    pub asked: std::cell::Cell<bool>,
}
impl<I: Iterator> Repl<I> {
    pub fn new(inner: I, claimed: (usize, usize)) -> Self { Repl { inner, claimed, asked: std::cell::Cell::new(false) } }
    fn answer(&self) -> usize {
        if self.asked.replace(true) { self.claimed.1 } else { self.claimed.0 }
    }
}
impl<I: Iterator> Iterator for Repl<I> {
    type Item = I::Item;
    fn next(&mut self) -> Option<I::Item> {
        crate::elem::log(Ev::N);
        crate::elem::user_call();
        self.inner.next()
    }
    fn size_hint(&self) -> (usize, Option<usize>) { let a = self.answer(); (a, Some(a)) }
}
impl<I: Iterator> ExactSizeIterator for Repl<I> {
    fn len(&self) -> usize { self.answer() }
}

pub fn to_std(b: Bound) -> std::ops::Bound<usize> {
    match b {
        Bound::U => std::ops::Bound::Unbounded,
        Bound::I(i) => std::ops::Bound::Included(i),
        Bound::X(i) => std::ops::Bound::Excluded(i),
    }
}

/// Object-safe view of an erased drain/splice iterator.
pub trait ErasedRange<Tr: ?Sized + Trait, M: MemBuilder + 'static> {
    /// The item's lifetime is detached from the iterator borrow (as in the crate: items
    /// borrow the vector, not the iterator); the interpreter consumes it at once.
    fn next_item<'x>(&mut self, front: bool) -> Option<Element<'x, Tr, M>>;
    /// Iterator::nth(n) / DoubleEndedIterator::nth_back(n)
    fn nth_item<'x>(&mut self, front: bool, n: usize) -> Option<Element<'x, Tr, M>>;
    fn hint(&self) -> usize;
}
impl<'a, Tr: ?Sized + Trait, M: MemBuilder + 'static, I> ErasedRange<Tr, M> for I
where
    I: DoubleEndedIterator<Item = Element<'a, Tr, M>> + ExactSizeIterator,
{
    fn next_item<'x>(&mut self, front: bool) -> Option<Element<'x, Tr, M>> {
        let it = if front { lib!(self.next()) } else { lib!(self.next_back()) };
        it.map(|e| unsafe { std::mem::transmute::<Element<'a, Tr, M>, Element<'x, Tr, M>>(e) })
    }
    fn nth_item<'x>(&mut self, front: bool, n: usize) -> Option<Element<'x, Tr, M>> {
        let it = if front { lib!(self.nth(n)) } else { lib!(self.nth_back(n)) };
        it.map(|e| unsafe { std::mem::transmute::<Element<'a, Tr, M>, Element<'x, Tr, M>>(e) })
    }
    fn hint(&self) -> usize {
        let (lo, hi) = self.size_hint();
        let l = self.len();
        if hi != Some(lo) || l != lo { usize::MAX - 7 } else { lo }
    }
}

// ---------------------------------------------------------------------------------
// World
// ---------------------------------------------------------------------------------
pub struct World<Tr: ?Sized + TrOps, M: BackOps> {
    pub vecs: Vec<Option<AnyVec<Tr, M>>>,
    /// std::Vec mirror (None = not tracked since an event outside Vec's vocabulary)
    pub mir: Vec<Option<Vec<u64>>>,
    pub raw_line: String,
}

pub struct StepOut {
    pub out: u32,
    pub ret: Vec<u64>,
}

fn two<T>(v: &mut [Option<T>], a: usize, b: usize) -> (&mut T, &mut T) {
    assert!(a != b, "case uses one vector as source and target");
    if a < b {
        let (x, y) = v.split_at_mut(b);
        (x[a].as_mut().unwrap(), y[0].as_mut().unwrap())
    } else {
        let (x, y) = v.split_at_mut(a);
        (y[0].as_mut().unwrap(), x[b].as_mut().unwrap())
    }
}

fn tok_of_bytes<T: Elem>(p: *const u8) -> u64 {
    unsafe { (*(p as *const T)).token() }
}

/// Uniform access to the three removal handles.
pub trait Handle<Tr: ?Sized + TrOps, M: BackOps>: AnyValueMut + Sized {
    fn lazy_into(&self, dst: &mut AnyVec<Tr, M>);
    fn lazy_down<T: 'static>(&self) -> T;
}
impl<'a, Tr: ?Sized + TrOps, M: BackOps> Handle<Tr, M> for Pop<'a, Tr, M> {
    fn lazy_into(&self, dst: &mut AnyVec<Tr, M>) { Tr::lazy_pop(dst, self) }
    fn lazy_down<T: 'static>(&self) -> T { Tr::down_lazy_pop::<M, T>(self) }
}
impl<'a, Tr: ?Sized + TrOps, M: BackOps> Handle<Tr, M> for Remove<'a, Tr, M> {
    fn lazy_into(&self, dst: &mut AnyVec<Tr, M>) { Tr::lazy_remove(dst, self) }
    fn lazy_down<T: 'static>(&self) -> T { Tr::down_lazy_remove::<M, T>(self) }
}
impl<'a, Tr: ?Sized + TrOps, M: BackOps> Handle<Tr, M> for SwapRemove<'a, Tr, M> {
    fn lazy_into(&self, dst: &mut AnyVec<Tr, M>) { Tr::lazy_swap_remove(dst, self) }
    fn lazy_down<T: 'static>(&self) -> T { Tr::down_lazy_swap_remove::<M, T>(self) }
}

impl<Tr: ?Sized + TrOps, M: BackOps> World<Tr, M> {
    pub fn new() -> Self { World { vecs: Vec::new(), mir: Vec::new(), raw_line: String::new() } }

    fn slot(&mut self, i: usize) {
        while self.vecs.len() <= i {
            self.vecs.push(None);
            self.mir.push(None);
        }
    }
    fn v(&mut self, i: usize) -> &mut AnyVec<Tr, M> {
        self.vecs[i].as_mut().expect("vector does not exist")
    }

    /// Sink of a removal handle taken from vector `src`; `others` = all vectors.
    fn sink<T: Elem, H: Handle<Tr, M>>(
        mut h: H, k: &Sink, get_dst: &mut dyn FnMut(usize) -> *mut AnyVec<Tr, M>, ret: &mut Vec<u64>,
    ) {
        match k {
            Sink::Drop => lib!(drop(h)),
            Sink::Down => {
                let x: T = lib!(h.downcast::<T>()).expect("downcast to the real type failed");
                ret.push(x.token());
                drop(x);
            }
            Sink::Push(d) => {
                let dst = unsafe { &mut *get_dst(*d) };
                lib!(dst.push(h));
            }
            Sink::Ins(d, i) => {
                let dst = unsafe { &mut *get_dst(*d) };
                lib!(dst.insert(*i, h));
            }
            Sink::Forget => std::mem::forget(h),
            Sink::Mut(k2) => {
                // the shared downcast first: it must see the value the exclusive one is about to replace
                let seen = lib!(h.downcast_ref::<T>()).expect("downcast_ref to the real type failed").token();
                let r: &mut T = lib!(h.downcast_mut::<T>()).expect("downcast_mut to the real type failed");
                let old = std::mem::replace(r, T::new());
                if old.token() != seen { with_reg(|r| r.violations.push(format!("downcast_ref-saw={}-downcast_mut-saw={}", seen, old.token()))); }
                ret.push(old.token());
                drop(old);
                Self::sink::<T, H>(h, k2, get_dst, ret);
            }
            Sink::Lazy(n, d, k2) => {
                let dst = unsafe { &mut *get_dst(*d) };
                for _ in 0..*n {
                    h.lazy_into(dst);
                }
                Self::sink::<T, H>(h, k2, get_dst, ret);
            }
            Sink::LazyDown(n, k2) => {
                for _ in 0..*n {
                    let x: T = h.lazy_down::<T>();
                    ret.push(x.token());
                    drop(x);
                }
                Self::sink::<T, H>(h, k2, get_dst, ret);
            }
            Sink::Nth(..) => panic!("nth is a call of a range iterator, not a sink of a handle"),
        }
    }

    fn item_sink<T: Elem>(
        mut e: Element<'_, Tr, M>, k: &Sink, get_dst: &mut dyn FnMut(usize) -> *mut AnyVec<Tr, M>, ret: &mut Vec<u64>,
    ) {
        match k {
            Sink::Drop => lib!(drop(e)),
            Sink::Down => {
                let x: T = lib!(e.downcast::<T>()).expect("downcast to the real type failed");
                ret.push(x.token());
                drop(x);
            }
            Sink::Push(d) => {
                let dst = unsafe { &mut *get_dst(*d) };
                lib!(dst.push(e));
            }
            Sink::Ins(d, i) => {
                let dst = unsafe { &mut *get_dst(*d) };
                lib!(dst.insert(*i, e));
            }
            Sink::Forget => std::mem::forget(e),
            Sink::Mut(k2) => {
                let r: &mut T = lib!(AnyValueMut::downcast_mut::<T>(&mut e)).expect("downcast_mut failed");
                let old = std::mem::replace(r, T::new());
                ret.push(old.token());
                drop(old);
                Self::item_sink::<T>(e, k2, get_dst, ret);
            }
            Sink::Lazy(n, d, k2) => {
                let dst = unsafe { &mut *get_dst(*d) };
                for _ in 0..*n {
                    Tr::lazy_element(dst, &e);
                }
                Self::item_sink::<T>(e, k2, get_dst, ret);
            }
            Sink::LazyDown(n, k2) => {
                for _ in 0..*n {
                    let x: T = Tr::down_lazy_element::<M, T>(&e);
                    ret.push(x.token());
                    drop(x);
                }
                Self::item_sink::<T>(e, k2, get_dst, ret);
            }
            Sink::Nth(..) => panic!("nested nth"),
        }
    }

    /// typed drained value
    fn value_sink<T: Elem + SatisfyTraits<Tr>>(
        x: T, k: &Sink, get_dst: &mut dyn FnMut(usize) -> *mut AnyVec<Tr, M>, ret: &mut Vec<u64>,
    ) {
        match k {
            Sink::Drop => drop(x),
            Sink::Down => {
                ret.push(x.token());
                drop(x);
            }
            Sink::Push(d) => {
                let dst = unsafe { &mut *get_dst(*d) };
                lib!(dst.downcast_mut::<T>().unwrap().push(x));
            }
            Sink::Ins(d, i) => {
                let dst = unsafe { &mut *get_dst(*d) };
                lib!(dst.downcast_mut::<T>().unwrap().insert(*i, x));
            }
            Sink::Forget => std::mem::forget(x),
            _ => panic!("sink not available for typed values"),
        }
    }

    fn walk_erased<T: Elem>(
        it: &mut dyn ErasedRange<Tr, M>, pat: &[(bool, Sink)],
        get_dst: &mut dyn FnMut(usize) -> *mut AnyVec<Tr, M>, ret: &mut Vec<u64>,
    ) {
        for (front, k) in pat {
            let (item, k) = match k {
                Sink::Nth(n, inner) => (it.nth_item(*front, *n), &**inner),
                _ => (it.next_item(*front), k),
            };
            match item {
                None => {
                    ret.push(0);
                    ret.push(0);
                    // hint is read after the item is gone (below) for Some; here at once
                }
                Some(e) => {
                    let t = tok_of_bytes::<T>(e.as_bytes().as_ptr());
                    ret.push(1);
                    ret.push(t);
                    // the size hint is reported before the sink's own outputs: read it through a raw
                    // pointer is impossible while `e` borrows `it`; so the sink's outputs are buffered
                    let mut sub = Vec::new();
                    Self::item_sink::<T>(e, k, get_dst, &mut sub);
                    ret.push(it.hint() as u64);
                    ret.extend(sub);
                    continue;
                }
            }
            ret.push(it.hint() as u64);
        }
    }

    pub fn exec<T: Elem + SatisfyTraits<Tr>>(&mut self, op: &Op) -> StepOut {
        let mut ret: Vec<u64> = Vec::new();
        let mut out = 0u32;
        // element pointer into the world's vector table (ops that grow the table do not use it)
        let vecs_ptr: *mut Option<AnyVec<Tr, M>> = self.vecs.as_mut_ptr();
        let nvecs = self.vecs.len();
        // destination lookup for sinks (never the vector the handle borrows: checked by `two`-style assert)
        let busy_cell = std::cell::Cell::new(usize::MAX);
        let busy = &busy_cell;
        let vp = vecs_ptr;
        let mut get_dst = move |d: usize| -> *mut AnyVec<Tr, M> {
            assert!(d != busy.get(), "case moves a value into the vector its handle borrows");
            assert!(d < nvecs, "vector does not exist");
            unsafe { (&mut *vp.add(d)).as_mut().expect("vector does not exist") as *mut _ }
        };
        match op {
            Op::New(d, bk) => {
                assert!(M::matches(bk), "backend of the op differs from the case's");
                let v = lib!(AnyVec::<Tr, M>::new::<T>());
                self.slot(*d);
                self.vecs[*d] = Some(v);
            }
            Op::WithCap(d, bk, n) => {
                assert!(M::matches(bk));
                let v = lib!(M::with_capacity::<Tr, T>(*n));
                self.slot(*d);
                self.vecs[*d] = Some(v);
            }
            Op::DropVec(v) => {
                let x = self.vecs[*v].take().expect("vector does not exist");
                lib!(drop(x));
            }
            Op::Push(a, v, s) | Op::Insert(a, v, _, s) => {
                let ins = if let Op::Insert(_, _, i, _) = op { Some(*i) } else { None };
                match (a, s) {
                    (Api::T, Src::Wrap) => {
                        let x = T::new();
                        let vv = self.v(*v);
                        let mut tv = vv.downcast_mut::<T>().unwrap();
                        match ins {
                            None => lib!(tv.push(x)),
                            Some(i) => lib!(tv.insert(i, x)),
                        }
                    }
                    (Api::T, _) => panic!("typed api takes plain values only"),
                    (Api::E, Src::Wrap) => {
                        let x = AnyValueWrapper::new(T::new());
                        let vv = self.v(*v);
                        match ins { None => lib!(vv.push(x)), Some(i) => lib!(vv.insert(i, x)) }
                    }
                    (Api::E, Src::Box_) => {
                        let x = HBox::new(T::new(), TypeId::of::<T>());
                        let vv = self.v(*v);
                        match ins { None => lib!(vv.push(x)), Some(i) => lib!(vv.insert(i, x)) }
                    }
                    (Api::E, Src::Wrong(_)) => {
                        let x = AnyValueWrapper::new(<T::Wrong as Elem>::new());
                        let vv = self.v(*v);
                        match ins { None => lib!(vv.push(x)), Some(i) => lib!(vv.insert(i, x)) }
                    }
                    (Api::E, Src::BoxWrong(_)) => {
                        let x = HBox::new(T::new(), TypeId::of::<T::Wrong>());
                        let vv = self.v(*v);
                        match ins { None => lib!(vv.push(x)), Some(i) => lib!(vv.insert(i, x)) }
                    }
                    (Api::E, Src::Raw) | (Api::E, Src::RawT) | (Api::E, Src::RawS) => {
                        let mut x = ManuallyDrop::new(T::new());
                        let p = NonNull::from(&mut *x).cast::<u8>();
                        let vv = self.v(*v);
                        let r = catch_unwind(AssertUnwindSafe(|| unsafe {
                            match s {
                                Src::Raw => {
                                    let raw = AnyValueRaw::new(p, std::mem::size_of::<T>(), TypeId::of::<T>());
                                    match ins { None => lib!(vv.push(raw)), Some(i) => lib!(vv.insert(i, raw)) }
                                }
                                Src::RawT => {
                                    let raw = AnyValueTypelessRaw::new(p, std::mem::size_of::<T>());
                                    match ins { None => lib!(vv.push_unchecked(raw)), Some(i) => lib!(vv.insert_unchecked(i, raw)) }
                                }
                                _ => {
                                    let raw = AnyValueSizelessRaw::new(p);
                                    match ins { None => lib!(vv.push_unchecked(raw)), Some(i) => lib!(vv.insert_unchecked(i, raw)) }
                                }
                            }
                        }));
                        if let Err(e) = r {
                            // the value was not taken: destroy it here
                            unsafe { ManuallyDrop::drop(&mut x) };
                            std::panic::resume_unwind(e);
                        }
                    }
                    (Api::E, Src::UserLazy(depth)) => {
                        use any_vec::any_value::AnyValueCloneable;
                        // the user's value lives in this frame: it is destroyed when the frame is left,
                        // whether the vector took the clone or refused it
                        let uv = UVal(T::new());
                        let vv = self.v(*v);
                        match depth {
                            1 => { let l = uv.lazy_clone(); match ins { None => lib!(vv.push(l)), Some(i) => lib!(vv.insert(i, l)) } }
                            2 => { let l1 = uv.lazy_clone(); let l = l1.lazy_clone(); match ins { None => lib!(vv.push(l)), Some(i) => lib!(vv.insert(i, l)) } }
                            _ => { let l1 = uv.lazy_clone(); let l2 = l1.lazy_clone(); let l = l2.lazy_clone(); match ins { None => lib!(vv.push(l)), Some(i) => lib!(vv.insert(i, l)) } }
                        }
                    }
                    (Api::E, Src::Lazy(depth, sv, idx)) => {
                        assert!(Tr::CL, "lazy clone needs a Cloneable constraint set");
                        let (dst, src) = two(&mut self.vecs, *v, *sv);
                        Tr::push_lazy_at(dst, ins, src, *idx, *depth);
                    }
                    (Api::E, Src::Temp(sv, k, idx)) => {
                        let (dst, src) = two(&mut self.vecs, *v, *sv);
                        match k {
                            TKind::Pop => {
                                let h = lib!(src.pop()).expect("pop on empty vector");
                                match ins { None => lib!(dst.push(h)), Some(i) => lib!(dst.insert(i, h)) }
                            }
                            TKind::Rm => {
                                let h = lib!(src.remove(*idx));
                                match ins { None => lib!(dst.push(h)), Some(i) => lib!(dst.insert(i, h)) }
                            }
                            TKind::Srm => {
                                let h = lib!(src.swap_remove(*idx));
                                match ins { None => lib!(dst.push(h)), Some(i) => lib!(dst.insert(i, h)) }
                            }
                        }
                    }
                }
            }
            Op::Pop(a, v, k) => {
                busy.set(usize::MAX);
                let vv = unsafe { &mut *get_dst(*v) };
                busy.set(*v);
                match a {
                    Api::E => match lib!(vv.pop()) {
                        None => out = 1,
                        Some(h) => Self::sink::<T, _>(h, k, &mut get_dst, &mut ret),
                    },
                    Api::T => match lib!(vv.downcast_mut::<T>().unwrap().pop()) {
                        None => out = 1,
                        Some(x) => Self::value_sink::<T>(x, k, &mut get_dst, &mut ret),
                    },
                }
            }
            Op::Remove(a, v, i, k) => {
                busy.set(usize::MAX);
                let vv = unsafe { &mut *get_dst(*v) };
                busy.set(*v);
                match a {
                    Api::E => {
                        let h = lib!(vv.remove(*i));
                        Self::sink::<T, _>(h, k, &mut get_dst, &mut ret)
                    }
                    Api::T => {
                        let x = lib!(vv.downcast_mut::<T>().unwrap().remove(*i));
                        Self::value_sink::<T>(x, k, &mut get_dst, &mut ret)
                    }
                }
            }
            Op::SwapRemove(a, v, i, k) => {
                busy.set(usize::MAX);
                let vv = unsafe { &mut *get_dst(*v) };
                busy.set(*v);
                match a {
                    Api::E => {
                        let h = lib!(vv.swap_remove(*i));
                        Self::sink::<T, _>(h, k, &mut get_dst, &mut ret)
                    }
                    Api::T => {
                        let x = lib!(vv.downcast_mut::<T>().unwrap().swap_remove(*i));
                        Self::value_sink::<T>(x, k, &mut get_dst, &mut ret)
                    }
                }
            }
            Op::Clear(a, v) => {
                let vv = self.v(*v);
                match a {
                    Api::E => lib!(vv.clear()),
                    Api::T => lib!(vv.downcast_mut::<T>().unwrap().clear()),
                }
            }
            Op::Get(a, v, i) => {
                let vv = self.v(*v);
                match a {
                    Api::E => match lib!(vv.get(*i)) {
                        None => out = 1,
                        Some(e) => ret.push(lib!(e.downcast_ref::<T>()).unwrap().token()),
                    },
                    Api::T => match lib!(vv.downcast_ref::<T>().unwrap().get(*i)) {
                        None => out = 1,
                        Some(x) => ret.push(x.token()),
                    },
                }
            }
            Op::At(a, v, i) => {
                let vv = self.v(*v);
                match a {
                    Api::E => {
                        let e = lib!(vv.at(*i));
                        ret.push(lib!(e.downcast_ref::<T>()).unwrap().token())
                    }
                    Api::T => ret.push(lib!(vv.downcast_ref::<T>().unwrap().at(*i)).token()),
                }
            }
            Op::Iter(kind, v, pat) => {
                let vv = self.v(*v);
                fn hint<I: ExactSizeIterator>(it: &I) -> u64 {
                    let (lo, hi) = it.size_hint();
                    if hi != Some(lo) || it.len() != lo { u64::MAX - 7 } else { lo as u64 }
                }
                macro_rules! run_iter {
                    ($it:expr, $tok:expr) => {{
                        let mut it = $it;
                        ret.push(hint(&it));
                        for front in pat {
                            let x = if *front { lib!(it.next()) } else { lib!(it.next_back()) };
                            match x {
                                None => { ret.push(0); ret.push(0); }
                                Some(e) => { ret.push(1); ret.push($tok(e)); }
                            }
                            ret.push(hint(&it));
                        }
                    }};
                }
                match kind {
                    IterKind::Ref => run_iter!(lib!(vv.iter()), |e: any_vec::element::ElementRef<'_, Tr, M>| e.downcast_ref::<T>().unwrap().token()),
                    IterKind::Mut => run_iter!(lib!(vv.iter_mut()), |e: any_vec::element::ElementMut<'_, Tr, M>| e.downcast_ref::<T>().unwrap().token()),
                    IterKind::TRef => run_iter!(lib!(vv.downcast_ref::<T>().unwrap().iter()), |e: &T| e.token()),
                    IterKind::TMut => run_iter!(lib!(vv.downcast_mut::<T>().unwrap().iter_mut()), |e: &mut T| e.token()),
                    IterKind::IRef => run_iter!(lib!(IntoIterator::into_iter(&*vv)), |e: any_vec::element::ElementRef<'_, Tr, M>| e.downcast_ref::<T>().unwrap().token()),
                    IterKind::IMut => run_iter!(lib!(IntoIterator::into_iter(&mut *vv)), |e: any_vec::element::ElementMut<'_, Tr, M>| e.downcast_ref::<T>().unwrap().token()),
                    IterKind::ITRef => run_iter!(lib!(IntoIterator::into_iter(vv.downcast_ref::<T>().unwrap())), |e: &T| e.token()),
                    IterKind::ITMut => run_iter!(lib!(IntoIterator::into_iter(vv.downcast_mut::<T>().unwrap())), |e: &mut T| e.token()),
                }
            }
            Op::Drain(a, v, sb, eb, pat, fin_drop) => {
                busy.set(usize::MAX);
                let vv = unsafe { &mut *get_dst(*v) };
                busy.set(*v);
                match a {
                    Api::E => {
                        let mut it = lib!(vv.drain((to_std(*sb), to_std(*eb))));
                        ret.push(ErasedRange::hint(&it) as u64);
                        Self::walk_erased::<T>(&mut it, pat, &mut get_dst, &mut ret);
                        if *fin_drop { lib!(drop(it)) } else { std::mem::forget(it) }
                    }
                    Api::T => {
                        let mut tv = vv.downcast_mut::<T>().unwrap();
                        let mut it = lib!(tv.drain((to_std(*sb), to_std(*eb))));
                        Self::walk_typed::<T, _>(&mut it, pat, &mut get_dst, &mut ret);
                        if *fin_drop { lib!(drop(it)) } else { std::mem::forget(it) }
                    }
                }
            }
            Op::Splice(a, v, sb, eb, pat, fin_drop, rk, n, wrong_at, claimed) => {
                busy.set(usize::MAX);
                let vv = unsafe { &mut *get_dst(*v) };
                busy.set(*v);
                let ty = |i: usize| if *wrong_at == Some(i) { TypeId::of::<T::Wrong>() } else { TypeId::of::<T>() };
                match (a, rk) {
                    (Api::E, RKind::Wrap) => {
                        assert!(wrong_at.is_none(), "wrapper items are of one static type");
                        let items: Vec<_> = (0..*n).map(|_| AnyValueWrapper::new(T::new())).collect();
                        let rep = Repl::new(items.into_iter(), *claimed);
                        let mut it = lib!(vv.splice((to_std(*sb), to_std(*eb)), rep));
                        ret.push(ErasedRange::hint(&it) as u64);
                        Self::walk_erased::<T>(&mut it, pat, &mut get_dst, &mut ret);
                        if *fin_drop { lib!(drop(it)) } else { std::mem::forget(it) }
                    }
                    (Api::E, RKind::Box_) => {
                        let items: Vec<_> = (0..*n).map(|i| HBox::new(T::new(), ty(i))).collect();
                        let rep = Repl::new(items.into_iter(), *claimed);
                        let mut it = lib!(vv.splice((to_std(*sb), to_std(*eb)), rep));
                        ret.push(ErasedRange::hint(&it) as u64);
                        Self::walk_erased::<T>(&mut it, pat, &mut get_dst, &mut ret);
                        if *fin_drop { lib!(drop(it)) } else { std::mem::forget(it) }
                    }
                    (Api::E, RKind::Lazy(sv)) => {
                        assert!(Tr::CL && wrong_at.is_none());
                        let src = unsafe { &*get_dst(*sv) };
                        let fin_drop = *fin_drop;
                        let mut f = |it: &mut dyn ErasedRange<Tr, M>| {
                            ret.push(it.hint() as u64);
                            Self::walk_erased::<T>(it, pat, &mut get_dst, &mut ret);
                        };
                        // the iterator is dropped inside splice_lazy (forget unsupported here)
                        assert!(fin_drop, "forget of a lazy splice is not scripted");
                        Tr::splice_lazy(vv, src, *n, *claimed, *sb, *eb, &mut f);
                    }
                    (Api::T, RKind::Wrap) => {
                        let items: Vec<T> = (0..*n).map(|_| T::new()).collect();
                        let rep = Repl::new(items.into_iter(), *claimed);
                        let mut tv = vv.downcast_mut::<T>().unwrap();
                        let mut it = lib!(tv.splice((to_std(*sb), to_std(*eb)), rep));
                        Self::walk_typed::<T, _>(&mut it, pat, &mut get_dst, &mut ret);
                        if *fin_drop { lib!(drop(it)) } else { std::mem::forget(it) }
                    }
                    _ => panic!("replacement kind not available on this api"),
                }
            }
            Op::Clone(v, d) => {
                assert!(Tr::CL);
                let c = lib!(Tr::clone_vec(self.vecs[*v].as_ref().unwrap()));
                self.slot(*d);
                self.vecs[*d] = Some(c);
                // `Clone::clone_from` is part of the same contract (by default `*dst = src.clone()`): a probe in this
                // frame, invisible to the trace - a second clone, non-empty, is overwritten by `clone_from(&src)`;
                // it must then show one new value per source element, every value it held before must have been
                // destroyed exactly once, and dropping it must destroy the new ones.  The registry is put back as it
                // was, so identities and event logs of the case are unaffected.  (Seeded change C03-m11: an
                // allocation-reusing override that overwrites the old prefix without destroying it.)
                let armed = with_reg(|r| r.fuse.is_some());
                if !armed && T::SIZE > 0 && T::DG {
                    let src = self.vecs[*v].as_ref().unwrap();
                    let (next0, created0, dropped0, loglen0) = with_reg(|r| (r.next, r.created, r.dropped, r.log.len()));
                    let problems: Vec<String> = crate::elem::untracked(|| {
                        let mut out = Vec::new();
                        let mut tmp = Tr::clone_vec(src);
                        // make the destination longer than the source by one where the backend allows it
                        if M::RESIZABLE || tmp.capacity() > tmp.len() { tmp.push(AnyValueWrapper::new(T::new())); }
                        Tr::clone_from_vec(&mut tmp, src);
                        let got: Vec<u64> = if tmp.len() == 0 { Vec::new() } else { tmp.downcast_ref::<T>().unwrap().as_slice().iter().map(|e| e.token()).collect() };
                        if got.len() != src.len() { out.push(format!("clone_from-len={}-expected={}", got.len(), src.len())); }
                        drop(tmp);
                        with_reg(|r| {
                            for (t, n) in r.live.iter() {
                                if *t >= next0 && *n != 0 { out.push(format!("clone_from-probe-value-{}-live={}", t, n)); }
                            }
                        });
                        out
                    });
                    with_reg(|r| {
                        r.live.retain(|t, _| *t < next0);
                        r.next = next0; r.created = created0; r.dropped = dropped0; r.log.truncate(loglen0);
                        let mut ps = problems; ps.sort(); ps.truncate(3);
                        r.violations.extend(ps);
                    });
                }
            }
            Op::CloneEmpty(v, d) => {
                let c = lib!(self.vecs[*v].as_ref().unwrap().clone_empty());
                self.slot(*d);
                self.vecs[*d] = Some(c);
            }
            Op::CloneEmptyIn(..) => panic!("clone_empty_in into a slot of the world: not expressible (the backend type differs); see clone_in"),
            Op::CloneIn(v, bk, k) => {
                let src: &AnyVec<Tr, M> = self.vecs[*v].as_ref().expect("vector does not exist");
                let r = match bk {
                    #[cfg(feature = "heap")]
                    Bk::Heap => clone_in_probe::<Tr, M, any_vec::mem::Heap, T>(src, *k),
                    Bk::Stack(512) => clone_in_probe::<Tr, M, any_vec::mem::Stack<512>, T>(src, *k),
                    Bk::StackN(3, 512) => clone_in_probe::<Tr, M, any_vec::mem::StackN<3, 512>, T>(src, *k),
                    Bk::Empty => clone_in_probe::<Tr, M, any_vec::mem::Empty, T>(src, *k),
                    Bk::Reloc(2) => clone_in_probe::<Tr, M, crate::reloc::Reloc<2>, T>(src, *k),
                    _ => panic!("clone_in: target backend {:?} is not instantiated in the harness", bk),
                };
                ret.extend(r);
            }
            Op::Reserve(v, n, ty) => { let vv = self.v(*v); lib!(M::reserve::<Tr, T>(vv, *n, *ty)) }
            Op::ReserveExact(v, n, ty) => { let vv = self.v(*v); lib!(M::reserve_exact::<Tr, T>(vv, *n, *ty)) }
            Op::ShrinkToFit(v, ty) => { let vv = self.v(*v); lib!(M::shrink_to_fit::<Tr, T>(vv, *ty)) }
            Op::ShrinkTo(v, n, ty) => { let vv = self.v(*v); lib!(M::shrink_to::<Tr, T>(vv, *n, *ty)) }
            Op::Views(v) => {
                let vv = self.v(*v);
                let base = vv.downcast_ref::<T>().unwrap().as_ptr() as usize;
                let (p0, l0) = { let b = lib!(vv.as_bytes()); (b.as_ptr() as usize, b.len()) };
                let (p1, l1) = { let b = lib!(vv.spare_bytes_mut()); (b.as_ptr() as usize, b.len()) };
                let (p2, l2) = { let tv = vv.downcast_ref::<T>().unwrap(); let s = lib!(tv.as_slice()); (s.as_ptr() as usize, s.len()) };
                let (p3, l3) = { let mut tv = vv.downcast_mut::<T>().unwrap(); let s = lib!(tv.spare_capacity_mut()); (s.as_ptr() as usize, s.len()) };
                ret.extend([
                    p0.wrapping_sub(base) as u64, l0 as u64, p1.wrapping_sub(base) as u64, l1 as u64,
                    p2.wrapping_sub(base) as u64, l2 as u64, p3.wrapping_sub(base) as u64, l3 as u64,
                    (base % T::ALIGN) as u64,
                ]);
            }
            Op::SpareWrite(a, v, k) => {
                let vv = self.v(*v);
                let len = vv.len();
                match a {
                    Api::E => {
                        let sz = std::mem::size_of::<T>();
                        for i in 0..*k {
                            let x = ManuallyDrop::new(T::new());
                            let spare = lib!(vv.spare_bytes_mut());
                            let src = &*x as *const T as *const u8;
                            for b in 0..sz {
                                spare[i * sz + b].write(unsafe { *src.add(b) });
                            }
                        }
                        unsafe { lib!(vv.set_len(len + *k)) };
                    }
                    Api::T => {
                        let mut tv = vv.downcast_mut::<T>().unwrap();
                        for i in 0..*k {
                            let x = T::new();
                            let spare = lib!(tv.spare_capacity_mut());
                            spare[i].write(x);
                        }
                        unsafe { lib!(tv.set_len(len + *k)) };
                    }
                }
            }
            Op::SetLen(v, n) => {
                let vv = self.v(*v);
                unsafe { lib!(vv.set_len(*n)) };
            }
            Op::IterClone(kind, v, pat1, pat2) => {
                let vv = self.v(*v);
                fn hint<I: ExactSizeIterator>(it: &I) -> u64 {
                    let (lo, hi) = it.size_hint();
                    if hi != Some(lo) || it.len() != lo { u64::MAX - 7 } else { lo as u64 }
                }
                macro_rules! run_clone {
                    ($it:expr, $tok:expr) => {{
                        let mut it = $it;
                        ret.push(hint(&it));
                        let mut adv = |it: &mut _, pat: &Vec<bool>, ret: &mut Vec<u64>| {
                            for front in pat {
                                let x = if *front { lib!(Iterator::next(it)) } else { lib!(DoubleEndedIterator::next_back(it)) };
                                match x {
                                    None => { ret.push(0); ret.push(0); }
                                    Some(e) => { ret.push(1); ret.push($tok(e)); }
                                }
                                ret.push(hint(it));
                            }
                        };
                        adv(&mut it, pat1, &mut ret);
                        let mut cl = lib!(it.clone());
                        ret.push(hint(&cl));
                        adv(&mut cl, pat2, &mut ret);
                        ret.push(hint(&it));
                        adv(&mut it, pat2, &mut ret);
                    }};
                }
                match kind {
                    IterKind::Ref => run_clone!(lib!(vv.iter()), |e: any_vec::element::ElementRef<'_, Tr, M>| e.downcast_ref::<T>().unwrap().token()),
                    IterKind::Mut => run_clone!(lib!(vv.iter_mut()), |e: any_vec::element::ElementMut<'_, Tr, M>| e.downcast_ref::<T>().unwrap().token()),
                    IterKind::TRef => run_clone!(lib!(vv.downcast_ref::<T>().unwrap().iter()), |e: &T| e.token()),
                    IterKind::TMut => panic!("slice::IterMut is not Clone"),
                    _ => panic!("iter_clone: plain iterator kinds only"),
                }
            }
            Op::ProbeTypes(v, idx) => {
                let vv = self.v(*v);
                type W<T> = <T as Elem>::Wrong;
                ret.push(lib!(vv.downcast_ref::<T>()).is_some() as u64);
                ret.push(lib!(vv.downcast_ref::<W<T>>()).is_some() as u64);
                ret.push(lib!(vv.downcast_mut::<T>()).is_some() as u64);
                ret.push(lib!(vv.downcast_mut::<W<T>>()).is_some() as u64);
                ret.push((lib!(vv.element_typeid()) == TypeId::of::<T>()) as u64);
                let lay = lib!(vv.element_layout());
                ret.push(lay.size() as u64);
                ret.push(lay.align() as u64);
                if *idx < vv.len() {
                    {
                        let e = lib!(vv.get(*idx)).unwrap();
                        ret.push((lib!(e.value_typeid()) == TypeId::of::<T>()) as u64);
                        ret.push(lib!(e.size()) as u64);
                        ret.push(lib!(e.downcast_ref::<T>()).is_some() as u64);
                        ret.push(lib!(e.downcast_ref::<W<T>>()).is_some() as u64);
                    }
                    let mut em = lib!(vv.get_mut(*idx)).unwrap();
                    ret.push(lib!(em.downcast_mut::<T>()).is_some() as u64);
                    ret.push(lib!(em.downcast_mut::<W<T>>()).is_some() as u64);
                    ret.push(lib!(AnyValueMut::downcast_mut::<T>(&mut *em)).is_some() as u64);
                    ret.push(lib!(AnyValueMut::downcast_mut::<W<T>>(&mut *em)).is_some() as u64);
                }
            }
            Op::DownWrong(v, k, idx) => {
                let vv = self.v(*v);
                type W<T> = <T as Elem>::Wrong;
                macro_rules! probe_handle {
                    ($h:expr) => {{
                        let mut h = $h;
                        ret.push((lib!(h.value_typeid()) == TypeId::of::<T>()) as u64);
                        ret.push(lib!(h.size()) as u64);
                        ret.push(lib!(h.downcast_ref::<W<T>>()).is_some() as u64);
                        ret.push(lib!(h.downcast_mut::<W<T>>()).is_some() as u64);
                        let r = lib!(h.downcast::<W<T>>());
                        ret.push(r.is_some() as u64);
                        if let Some(x) = r { std::mem::forget(x); }
                    }};
                }
                match k {
                    TKind::Pop => match lib!(vv.pop()) { None => out = 1, Some(h) => probe_handle!(h) },
                    TKind::Rm => probe_handle!(lib!(vv.remove(*idx))),
                    TKind::Srm => probe_handle!(lib!(vv.swap_remove(*idx))),
                }
            }
            Op::SwapWrong(v, idx, kind) => {
                let vv = self.v(*v);
                let mut e = lib!(vv.at_mut(*idx));
                match kind {
                    0 => {
                        // typed value of another type
                        let mut w = AnyValueWrapper::new(<T::Wrong as Elem>::new());
                        lib!(e.swap(&mut w));
                    }
                    _ => {
                        // TYPE-ERASED value of another runtime type (both sides have Type = Unknown)
                        let mut x = <T::Wrong as Elem>::new();
                        let mut raw = unsafe {
                            AnyValueRaw::new(NonNull::from(&mut x).cast::<u8>(), std::mem::size_of::<T::Wrong>(), TypeId::of::<T::Wrong>())
                        };
                        if *kind == 1 { lib!(e.swap(&mut raw)); } else { lib!(raw.swap(&mut *e)); }
                    }
                }
            }
            Op::Write(hk, v, idx) => {
                let vv = self.v(*v);
                let i = *idx;
                let old: T = match hk {
                    0 => { let mut e = lib!(vv.at_mut(i)); let r = lib!(e.downcast_mut::<T>()).unwrap(); std::mem::replace(r, T::new()) }
                    1 => { let mut e = lib!(vv.at_mut(i)); let r = lib!(AnyValueMut::downcast_mut::<T>(&mut *e)).unwrap(); std::mem::replace(r, T::new()) }
                    2 => { let mut tv = vv.downcast_mut::<T>().unwrap(); let r = lib!(tv.at_mut(i)); std::mem::replace(r, T::new()) }
                    3 => { let mut tv = vv.downcast_mut::<T>().unwrap(); let s = lib!(tv.as_mut_slice()); std::mem::replace(&mut s[i], T::new()) }
                    4 => { let mut tv = vv.downcast_mut::<T>().unwrap(); let r = lib!(tv.iter_mut()).nth(i).unwrap(); std::mem::replace(r, T::new()) }
                    5 => {
                        assert!(i < vv.len(), "index out of range");
                        let mut x = ManuallyDrop::new(T::new());
                        let sz = std::mem::size_of::<T>();
                        let b = lib!(vv.as_bytes_mut());
                        let xb = unsafe { std::slice::from_raw_parts_mut(&mut *x as *mut T as *mut u8, sz) };
                        b[i * sz..(i + 1) * sz].swap_with_slice(xb);
                        ManuallyDrop::into_inner(x)
                    }
                    6 => { let mut e = lib!(vv.iter_mut()).nth(i).unwrap(); let r = lib!(e.downcast_mut::<T>()).unwrap(); std::mem::replace(r, T::new()) }
                    7 => { let mut e = lib!(vv.at_mut(i)); let mut wr = AnyValueWrapper::new(T::new()); lib!(e.swap(&mut wr)); wr.downcast::<T>().unwrap() }
                    8 => { let mut e = lib!(vv.at_mut(i)); let mut x = ManuallyDrop::new(T::new());
                           let mut raw = unsafe { AnyValueRaw::new(NonNull::from(&mut *x).cast::<u8>(), std::mem::size_of::<T>(), TypeId::of::<T>()) };
                           lib!(e.swap(&mut raw)); ManuallyDrop::into_inner(x) }
                    9 => { let mut e = lib!(vv.at_mut(i)); let mut wr = AnyValueWrapper::new(T::new()); lib!(wr.swap(&mut *e)); wr.downcast::<T>().unwrap() }
                    10 => { let mut e = lib!(vv.at_mut(i)); let mut x = ManuallyDrop::new(T::new());
                           let mut raw = unsafe { AnyValueRaw::new(NonNull::from(&mut *x).cast::<u8>(), std::mem::size_of::<T>(), TypeId::of::<T>()) };
                           lib!(raw.swap(&mut *e)); ManuallyDrop::into_inner(x) }
                    // the unchecked accessors (the index / type preconditions are established by the harness)
                    11 => { assert!(i < vv.len(), "index out of range");
                            let mut e = unsafe { lib!(vv.get_unchecked_mut(i)) }; let r = unsafe { lib!(e.downcast_mut_unchecked::<T>()) }; std::mem::replace(r, T::new()) }
                    12 => { assert!(i < vv.len(), "index out of range");
                            let mut tv = unsafe { lib!(vv.downcast_mut_unchecked::<T>()) }; let r = unsafe { lib!(tv.get_unchecked_mut(i)) }; std::mem::replace(r, T::new()) }
                    13 => { let mut tv = unsafe { lib!(vv.downcast_mut_unchecked::<T>()) }; let r = lib!(tv.at_mut(i)); std::mem::replace(r, T::new()) }
                    _ => { let mut e = lib!(vv.at_mut(i)); let mut x = ManuallyDrop::new(T::new());
                           let mut raw = unsafe { AnyValueRaw::new(NonNull::from(&mut *x).cast::<u8>(), std::mem::size_of::<T>(), TypeId::of::<T>()) };
                           unsafe { lib!(any_vec::any_value::AnyValueTypelessMut::swap_unchecked(&mut *e, &mut raw)) }; ManuallyDrop::into_inner(x) }
                };
                ret.push(old.token());
                drop(old);
            }
            Op::Read(hk, v, idx) => {
                let vv = self.v(*v);
                let i = *idx;
                let sz = std::mem::size_of::<T>();
                let r: Option<(u64, u64, u64)> = match hk {
                    0 => lib!(vv.get(i)).map(|e| (lib!(e.downcast_ref::<T>()).unwrap().token(), (lib!(e.value_typeid()) == TypeId::of::<T>()) as u64, lib!(e.size()) as u64)),
                    1 => lib!(vv.get(i)).map(|e| { let b = lib!(e.as_bytes()); (tok_of_bytes::<T>(b.as_ptr()), 1, b.len() as u64) }),
                    2 => lib!(vv.downcast_ref::<T>().unwrap().get(i)).map(|x| (x.token(), 1, sz as u64)),
                    3 => lib!(vv.downcast_ref::<T>().unwrap().as_slice()).get(i).map(|x| (x.token(), 1, sz as u64)),
                    4 => { let b = lib!(vv.as_bytes()); if i < vv.len() && (i + 1) * sz <= b.len() { Some((tok_of_bytes::<T>(b[i * sz..].as_ptr()), 1, sz as u64)) } else { None } }
                    5 => lib!(vv.iter()).nth(i).map(|e| (lib!(e.downcast_ref::<T>()).unwrap().token(), (lib!(e.value_typeid()) == TypeId::of::<T>()) as u64, lib!(e.size()) as u64)),
                    6 => lib!(vv.downcast_ref::<T>().unwrap().iter()).nth(i).map(|x| (x.token(), 1, sz as u64)),
                    7 => lib!(vv.get_mut(i)).map(|e| (lib!(e.downcast_ref::<T>()).unwrap().token(), (lib!(e.value_typeid()) == TypeId::of::<T>()) as u64, lib!(e.size()) as u64)),
                    // the unchecked accessors (the index / type preconditions are established by the harness)
                    8 => if i < vv.len() { let e = unsafe { lib!(vv.get_unchecked(i)) }; Some((unsafe { lib!(e.downcast_ref_unchecked::<T>()) }.token(), (lib!(e.value_typeid()) == TypeId::of::<T>()) as u64, lib!(e.size()) as u64)) } else { None },
                    9 => unsafe { lib!(vv.downcast_ref_unchecked::<T>()) }.get(i).map(|x| (x.token(), 1, sz as u64)),
                    10 => if i < vv.len() { let tv = unsafe { lib!(vv.downcast_ref_unchecked::<T>()) }; Some((unsafe { lib!(tv.get_unchecked(i)) }.token(), 1, sz as u64)) } else { None },
                    11 => if i < vv.len() { let mut e = unsafe { lib!(vv.get_unchecked_mut(i)) }; let t = unsafe { lib!(e.downcast_mut_unchecked::<T>()) }.token(); Some((t, 1, lib!(e.size()) as u64)) } else { None },
                    12 => if i < vv.len() { let mut tv = unsafe { lib!(vv.downcast_mut_unchecked::<T>()) }; Some((unsafe { lib!(tv.get_unchecked_mut(i)) }.token(), 1, sz as u64)) } else { None },
                    // copies of the shared handles: a cloned ElementRef (the original dropped first), a cloned typed view
                    13 => lib!(vv.get(i)).map(|e| { let e2 = lib!(e.clone()); drop(e); (lib!(e2.downcast_ref::<T>()).unwrap().token(), (lib!(e2.value_typeid()) == TypeId::of::<T>()) as u64, lib!(e2.size()) as u64) }),
                    _ => { let r = lib!(vv.downcast_ref::<T>()).unwrap(); let r2 = lib!(r.clone()); drop(r); lib!(r2.get(i)).map(|x| (x.token(), 1, sz as u64)) }
                };
                match r {
                    None => out = 1,
                    Some((t, ty, s)) => { ret.push(t); ret.push(ty); ret.push(s); }
                }
            }
            Op::Swap(pr, v1, i, v2, j) => {
                let (a, b) = two(&mut self.vecs, *v1, *v2);
                assert!(*i < a.len() && *j < b.len(), "index out of range");
                match pr {
                    0 => { let mut ea = lib!(a.at_mut(*i)); let mut eb = lib!(b.at_mut(*j)); lib!(ea.swap(&mut *eb)); }
                    1 => { let mut h = lib!(a.remove(*i)); { let mut e = lib!(b.at_mut(*j)); lib!(h.swap(&mut *e)); } lib!(drop(h)); }
                    _ => { let mut h = lib!(a.remove(*i)); { let mut e = lib!(b.at_mut(*j)); lib!(e.swap(&mut h)); } lib!(drop(h)); }
                }
            }
            Op::Parts(v, mode) => {
                let x = self.vecs[*v].take().expect("vector does not exist");
                let (x2, r) = M::parts::<Tr, T>(x, *mode);
                self.vecs[*v] = Some(x2);
                ret.extend(r);
            }
            Op::Placement => {
                use std::alloc::{GlobalAlloc, Layout, System};
                type V<Tr, M> = AnyVec<Tr, M>;
                let va = std::mem::align_of::<V<Tr, M>>();
                let lay = Layout::from_size_align(std::mem::size_of::<V<Tr, M>>() + 128, 128).unwrap();
                let buf = crate::elem::untracked(|| unsafe { System.alloc(lay) });
                let mut worst = 0usize;
                let mut off = 0;
                while off < 128 {
                    unsafe {
                        let p = buf.add(off) as *mut V<Tr, M>;
                        std::ptr::write(p, lib!(AnyVec::<Tr, M>::new::<T>()));
                        let base = lib!((*p).as_bytes()).as_ptr() as usize;
                        worst = worst.max(base % T::ALIGN);
                        // byte-level coherence of the views at this placement and across a MOVE of the (non-empty)
                        // vector object to the next placement - only type-erased byte operations are used, so this is
                        // well defined also where the storage of an over-aligned element type is misaligned (D7):
                        //   as_bytes shows exactly the bytes that were pushed; a write through as_bytes_mut is seen by
                        //   as_bytes and by the element handles; moving the vector changes none of it.
                        let room = lib!((*p).capacity()) >= 2 || M::RESIZABLE;
                        if T::SIZE > 0 && room && off + va < 128 {
                            let sz = std::mem::size_of::<T>();
                            // two byte patterns stand in for values: they are only ever copied, compared and forgotten
                            // (`set_len(0)` below), never interpreted as `T`, so no user code runs
                            let mut b0: Vec<u8> = (0..sz).map(|k| 0x40u8.wrapping_add(k as u8)).collect();
                            let mut b1: Vec<u8> = (0..sz).map(|k| 0xC0u8.wrapping_sub(k as u8)).collect();
                            lib!((*p).push(AnyValueRaw::new(NonNull::new(b0.as_mut_ptr()).unwrap(), sz, TypeId::of::<T>())));
                            lib!((*p).push(AnyValueRaw::new(NonNull::new(b1.as_mut_ptr()).unwrap(), sz, TypeId::of::<T>())));
                            let mut want = b0.clone(); want.extend_from_slice(&b1);
                            if lib!((*p).as_bytes()) != &want[..] {
                                with_reg(|r| r.violations.push(format!("as_bytes-differs-from-what-was-pushed-at-offset-{}", off)));
                            }
                            {   // exchange the two elements through the mutable byte view
                                let bm = lib!((*p).as_bytes_mut());
                                if bm.len() == 2 * sz { let (l, r) = bm.split_at_mut(sz); l.swap_with_slice(r); }
                            }
                            let mut want2 = b1.clone(); want2.extend_from_slice(&b0);
                            if lib!((*p).as_bytes()) != &want2[..] {
                                with_reg(|r| r.violations.push(format!("write-through-as_bytes_mut-not-seen-by-as_bytes-at-offset-{}", off)));
                            }
                            if lib!((*p).at(0).as_bytes()) != &b1[..] || lib!((*p).get(1).unwrap().as_bytes()) != &b0[..] {
                                with_reg(|r| r.violations.push(format!("element-handles-do-not-address-the-written-bytes-at-offset-{}", off)));
                            }
                            // the vector object moves (a Rust move is a bitwise copy) to the next placement
                            let q = buf.add(off + va) as *mut V<Tr, M>;
                            std::ptr::copy(p, q, 1);       // the two placements overlap
                            if lib!((*q).as_bytes()) != &want2[..] {
                                with_reg(|r| r.violations.push(format!("as_bytes-changed-by-moving-the-vector-from-offset-{}-to-{}", off, off + va)));
                            }
                            // the two values are still owned by this frame: the vector forgets them
                            lib!((*q).set_len(0));
                            lib!(std::ptr::drop_in_place(q));
                        } else {
                            lib!(std::ptr::drop_in_place(p));
                        }
                    }
                    off += va;
                }
                crate::elem::untracked(|| unsafe { System.dealloc(buf, lay) });
                ret.push(worst as u64);
            }
            Op::IterNth(kind, v, pat) => {
                let vv = self.v(*v);
                fn hint<I: ExactSizeIterator>(it: &I) -> u64 {
                    let (lo, hi) = it.size_hint();
                    if hi != Some(lo) || it.len() != lo { u64::MAX - 7 } else { lo as u64 }
                }
                macro_rules! run_iter {
                    ($it:expr, $tok:expr) => {{
                        let mut it = $it;
                        ret.push(hint(&it));
                        for (front, n) in pat {
                            let x = if *front { lib!(it.nth(*n)) } else { lib!(it.nth_back(*n)) };
                            match x {
                                None => { ret.push(0); ret.push(0); }
                                Some(e) => { ret.push(1); ret.push($tok(e)); }
                            }
                            ret.push(hint(&it));
                        }
                    }};
                }
                match kind {
                    IterKind::Ref => run_iter!(lib!(vv.iter()), |e: any_vec::element::ElementRef<'_, Tr, M>| e.downcast_ref::<T>().unwrap().token()),
                    IterKind::Mut => run_iter!(lib!(vv.iter_mut()), |e: any_vec::element::ElementMut<'_, Tr, M>| e.downcast_ref::<T>().unwrap().token()),
                    IterKind::TRef => run_iter!(lib!(vv.downcast_ref::<T>().unwrap().iter()), |e: &T| e.token()),
                    IterKind::TMut => run_iter!(lib!(vv.downcast_mut::<T>().unwrap().iter_mut()), |e: &mut T| e.token()),
                    IterKind::IRef => run_iter!(lib!(IntoIterator::into_iter(&*vv)), |e: any_vec::element::ElementRef<'_, Tr, M>| e.downcast_ref::<T>().unwrap().token()),
                    IterKind::IMut => run_iter!(lib!(IntoIterator::into_iter(&mut *vv)), |e: any_vec::element::ElementMut<'_, Tr, M>| e.downcast_ref::<T>().unwrap().token()),
                    IterKind::ITRef => run_iter!(lib!(IntoIterator::into_iter(vv.downcast_ref::<T>().unwrap())), |e: &T| e.token()),
                    IterKind::ITMut => run_iter!(lib!(IntoIterator::into_iter(vv.downcast_mut::<T>().unwrap())), |e: &mut T| e.token()),
                }
            }
            Op::CursorMax(a, pat) => {
                // a vector of zero-sized, drop-glue-free elements of length usize::MAX: only the cursor arithmetic
                // of the range iterator is exercised; the vector lives and dies inside this step
                assert!(T::SIZE == 0 && !T::DG && M::RESIZABLE, "cursor_max needs a zero-sized element without drop glue");
                let mut v = lib!(AnyVec::<Tr, M>::new::<T>());
                lib!(M::reserve::<Tr, T>(&mut v, usize::MAX, false));
                unsafe { lib!(v.set_len(usize::MAX)) };
                fn hint<I: ExactSizeIterator>(it: &I) -> u64 {
                    let (lo, hi) = it.size_hint();
                    if hi != Some(lo) || it.len() != lo { u64::MAX - 7 } else { lo as u64 }
                }
                match a {
                    Api::E => {
                        let mut it = lib!(v.drain(usize::MAX - 3..));
                        ret.push(hint(&it));
                        for front in pat {
                            let x = if *front { lib!(it.next()) } else { lib!(it.next_back()) };
                            ret.push(x.is_some() as u64);
                            if let Some(e) = x { std::mem::forget(e); }
                            ret.push(hint(&it));
                        }
                        std::mem::forget(it);
                    }
                    Api::T => {
                        let mut tv = v.downcast_mut::<T>().unwrap();
                        let mut it = lib!(tv.drain(usize::MAX - 3..));
                        ret.push(hint(&it));
                        for front in pat {
                            let x = if *front { lib!(it.next()) } else { lib!(it.next_back()) };
                            ret.push(x.is_some() as u64);
                            if let Some(e) = x { std::mem::forget(e); }
                            ret.push(hint(&it));
                        }
                        std::mem::forget(it);
                    }
                }
                unsafe { lib!(v.set_len(0)) };
                lib!(drop(v));
            }
            Op::LazyDown(depth, v, idx) => {
                assert!(Tr::CL, "lazy clone needs a Cloneable constraint set");
                let vv = self.v(*v);
                assert!(*idx < vv.len(), "Index out of range!");
                let x: T = Tr::down_lazy_at::<M, T>(vv, *idx, *depth);
                ret.push(x.token());
                drop(x);
            }
        }
        StepOut { out, ret }
    }

    fn walk_typed<T: Elem + SatisfyTraits<Tr>, I: DoubleEndedIterator<Item = T> + ExactSizeIterator>(
        it: &mut I, pat: &[(bool, Sink)],
        get_dst: &mut dyn FnMut(usize) -> *mut AnyVec<Tr, M>, ret: &mut Vec<u64>,
    ) {
        let hint = |it: &I| -> u64 {
            let (lo, hi) = it.size_hint();
            if hi != Some(lo) || it.len() != lo { u64::MAX - 7 } else { lo as u64 }
        };
        ret.push(hint(it));
        for (front, k) in pat {
            let (x, k) = match k {
                Sink::Nth(n, inner) => (if *front { lib!(it.nth(*n)) } else { lib!(it.nth_back(*n)) }, &**inner),
                _ => (if *front { lib!(it.next()) } else { lib!(it.next_back()) }, k),
            };
            match x {
                None => { ret.push(0); ret.push(0); ret.push(hint(it)); }
                Some(x) => {
                    ret.push(1);
                    ret.push(x.token());
                    ret.push(hint(it));
                    Self::value_sink::<T>(x, k, get_dst, ret);
                }
            }
        }
    }

    // ---------------------------------------------------------------------------
    // observation
    // ---------------------------------------------------------------------------
    pub fn observe<T: Elem>(&mut self, line: &mut String) {
        let mut lens = Vec::new();
        let mut caps = Vec::new();
        let mut snaps = Vec::new();
        for v in &self.vecs {
            match v {
                None => { lens.push("-".to_string()); caps.push("-".to_string()); snaps.push("-".to_string()); }
                Some(v) => {
                    lens.push(v.len().to_string());
                    caps.push(v.capacity().to_string());
                    let tv = v.downcast_ref::<T>().expect("vector lost its element type");
                    // an empty vector has nothing to show: no typed slice is formed (on the inline stack buffers the
                    // storage of an over-aligned element type is misaligned - known finding D7 - and even an empty
                    // `&[T]` over it is rejected by the debug checks of `slice::from_raw_parts`)
                    let s: Vec<String> = if v.len() == 0 { Vec::new() } else { tv.as_slice().iter().map(|e| {
                        if e.intact() { e.token().to_string() } else { format!("{}~", e.token()) }
                    }).collect() };
                    snaps.push(format!("[{}]", s.join(",")));
                }
            }
        }
        let _ = write!(line, " len={} cap={} snap={}", lens.join(","), caps.join(","), snaps.join("|"));
        // raw storage, slot by slot up to the capacity
        let mut raws = Vec::new();
        for v in &self.vecs {
            match v {
                None => raws.push("-".to_string()),
                Some(v) => {
                    let cap = v.capacity();
                    if !M::RAW || T::SIZE < 2 || cap > 600 {
                        raws.push("-".to_string());
                        continue;
                    }
                    let base = v.downcast_ref::<T>().unwrap().as_ptr() as *const u8;
                    if (base as usize) % std::mem::align_of::<T>() != 0 {
                        raws.push("-".to_string());      // misaligned storage (D7): slots are not read as `T`
                        continue;
                    }
                    let mut s = Vec::new();
                    for j in 0..cap {
                        let bytes = unsafe { std::slice::from_raw_parts(base.add(j * T::SIZE), T::SIZE) };
                        if bytes.iter().all(|b| *b == 0xCD) {
                            s.push("U".to_string());
                        } else {
                            let e = unsafe { &*(bytes.as_ptr() as *const T) };
                            if e.intact() { s.push(e.token().to_string()) } else { s.push("?".to_string()) }
                        }
                    }
                    raws.push(format!("[{}]", s.join(",")));
                }
            }
        }
        self.raw_line = raws.join("|");
        // monitor: every visible element is alive and appears exactly once
        if T::SIZE > 0 {
            let mut seen = std::collections::HashSet::new();
            for v in self.vecs.iter().flatten() {
                if v.len() == 0 { continue; }        // nothing visible; no typed slice over (possibly misaligned, D7) empty storage
                let tv = v.downcast_ref::<T>().unwrap();
                for e in tv.as_slice() {
                    let t = e.token();
                    if !e.intact() {
                        with_reg(|r| r.violations.push(format!("torn-element token={}", t)));
                    }
                    if !seen.insert(t) {
                        with_reg(|r| r.violations.push(format!("duplicate-visible token={}", t)));
                    }
                    if T::DG {
                        let alive = with_reg(|r| r.live.get(&t).copied().unwrap_or(0) > 0);
                        if !alive {
                            with_reg(|r| r.violations.push(format!("visible-dead token={}", t)));
                        }
                    }
                }
            }
        } else if T::DG {
            // zero-sized: by count
            let visible: i64 = self.vecs.iter().flatten().map(|v| v.len() as i64).sum();
            let live = with_reg(|r| r.live.get(&0).copied().unwrap_or(0));
            if visible > live {
                with_reg(|r| r.violations.push(format!("visible-dead count visible={} live={}", visible, live)));
            }
        }
    }
}

/// Run one case; returns the trace lines.
pub fn run_case<T: Elem + SatisfyTraits<Tr>, Tr: ?Sized + TrOps, M: BackOps>(case: &Case, outp: &mut String) {
    crate::elem::reset(T::SIZE == 0);
    crate::alloc::ledger_reset();
    let mut w: World<Tr, M> = World::new();
    for (i, st) in case.steps.iter().enumerate() {
        with_reg(|r| {
            r.log.clear();
            r.fuse = st.fuse;
        });
        let r = catch_unwind(AssertUnwindSafe(|| w.exec::<T>(&st.op)));
        with_reg(|r| {
            r.fuse = None;
            r.in_lib = false;
        });
        crate::elem::ALLOC_TRACK.with(|t| t.set(false));
        let (out, ret, msg) = match r {
            Ok(o) => (o.out, o.ret, String::new()),
            Err(e) => {
                let m = if let Some(s) = e.downcast_ref::<&str>() { s.to_string() }
                        else if let Some(s) = e.downcast_ref::<String>() { s.clone() } else { "?".into() };
                (2, Vec::new(), m)
            }
        };
        let mut line = String::new();
        let _ = write!(line, "{} {} out={} ret={}", case.id, i, out,
            ret.iter().map(|x| x.to_string()).collect::<Vec<_>>().join(","));
        w.observe::<T>(&mut line);
        let (ev, mut viol) = with_reg(|r| {
            (r.log.iter().map(|e| e.render()).collect::<Vec<_>>().join(","), std::mem::take(&mut r.violations))
        });
        viol.extend(crate::reloc::scan());
        let _ = write!(line, " ev={} raw={}", ev, w.raw_line);
        let _ = write!(line, " msg={}", msg.replace(|c: char| c.is_whitespace(), "_"));
        let _ = write!(line, " viol={}", viol.join("+").replace(' ', "_"));
        line.push('\n');
        crate::emit(&line);
    }
    // end of case: drop everything, then the ledgers must be empty
    let r = catch_unwind(AssertUnwindSafe(|| {
        with_reg(|r| r.log.clear());
        for v in w.vecs.drain(..) {
            if let Some(v) = v { lib!(drop(v)); }
        }
    }));
    let mut viol = with_reg(|r| std::mem::take(&mut r.violations));
    if r.is_err() { viol.push("final-drop-panicked".into()); }
    viol.extend(crate::reloc::scan());
    let live_blocks = crate::reloc::finish();
    let heap_live = crate::alloc::ledger_live();
    let (live_elems, created, dropped) = with_reg(|r| {
        (r.live.values().filter(|c| **c > 0).map(|c| *c as u64).sum::<u64>(), r.created, r.dropped)
    });
    let _ = outp;
    let mut end = String::new();
    let _ = writeln!(end, "{} end live={} created={} dropped={} blocks={} heap={} viol={}",
        case.id, if T::DG { live_elems.to_string() } else { "-".into() }, created, dropped,
        live_blocks, heap_live, viol.join("+").replace(' ', "_"));
    crate::emit(&end);
}
