(* Driver for the extracted Coq model: case file -> trace file.
   Only parsing and printing live here; every semantic decision is in Model
   (extracted from coq/AV/Model/*.v). *)
open Model

(* ---- numbers: Coq N <-> decimal strings (through Zarith) ---- *)
let rec z_of_pos (p : positive) : Z.t =
  match p with
  | XH -> Z.one
  | XO q -> Z.shift_left (z_of_pos q) 1
  | XI q -> Z.succ (Z.shift_left (z_of_pos q) 1)
let z_of_n (x : n) : Z.t = match x with N0 -> Z.zero | Npos p -> z_of_pos p
let rec pos_of_z (z : Z.t) : positive =
  if Z.equal z Z.one then XH
  else if Z.is_even z then XO (pos_of_z (Z.shift_right z 1))
  else XI (pos_of_z (Z.shift_right z 1))
let n_of_z (z : Z.t) : n = if Z.sign z <= 0 then N0 else Npos (pos_of_z z)
let n_of_string (s : string) : n = n_of_z (Z.of_string s)
let string_of_n (x : n) : string = Z.to_string (z_of_n x)
let rec nat_of_int (i : int) : nat = if i <= 0 then O else S (nat_of_int (i - 1))
let nat_of_string s = nat_of_int (int_of_string s)

(* ---- parsing ---- *)
let split c s = String.split_on_char c s
let fail_parse what s = failwith (Printf.sprintf "cannot parse %s: %S" what s)

let parse_bk (s : string) : bkind =
  match split ':' s with
  | ["heap"] -> BHeap
  | ["stack"; n] -> BStack (n_of_string n)
  | ["stackn"; n; sz] -> BStackN (n_of_string n, n_of_string sz)
  | ["empty"] -> BEmpty
  | ["reloc"] -> BReloc (n_of_string "0")
  | ["reloc"; c0] -> BReloc (n_of_string c0)
  | _ -> fail_parse "backend" s

let parse_api s = match s with "e" -> Erased | "t" -> Typed | _ -> fail_parse "api" s
let parse_tkind s = match s with
  | "pop" -> TPop | "rm" -> TRemove | "srm" -> TSwapRemove | _ -> fail_parse "tkind" s

let parse_src (s : string) : src =
  match split ':' s with
  | ["w"] -> SWrap
  | ["box"] -> SBox
  | ["raw"] -> SRaw
  | ["rawt"] -> SRawT
  | ["raws"] -> SRawS
  | ["wrong"; k] -> SWrong (n_of_string k)
  | ["boxwrong"; k] -> SBoxWrong (n_of_string k)
  | ["lz"; d; vid; idx] -> SLazy (n_of_string d, nat_of_string vid, n_of_string idx)
  | ["ulz"; d] -> SLazyUser (n_of_string d)
  | ["tmp"; vid; k; idx] -> STemp (nat_of_string vid, parse_tkind k, n_of_string idx)
  | _ -> fail_parse "src" s

let rec parse_sink (s : string) : sink =
  match String.index_opt s '+' with
  | Some i ->
      let hd = String.sub s 0 i and tl = String.sub s (i + 1) (String.length s - i - 1) in
      let k = parse_sink tl in
      (match split ':' hd with
       | ["mut"] -> KMut k
       | ["lz"; n; vid] -> KLazy (n_of_string n, nat_of_string vid, k)
       | ["lzd"; n] -> KLazyDown (n_of_string n, k)
       | _ -> fail_parse "sink" s)
  | None ->
      (match split ':' s with
       | ["drop"] -> KDrop
       | ["down"] -> KDown
       | ["push"; vid] -> KPush (nat_of_string vid)
       | ["ins"; vid; idx] -> KIns (nat_of_string vid, n_of_string idx)
       | ["forget"] -> KForget
       | _ -> fail_parse "sink" s)

let parse_bound (s : string) : bound =
  if s = "u" then BUnbounded
  else
    let rest = String.sub s 1 (String.length s - 1) in
    match s.[0] with
    | 'i' -> BIncluded (n_of_string rest)
    | 'x' -> BExcluded (n_of_string rest)
    | _ -> fail_parse "bound" s

let parse_pat_ro (s : string) : bool list =
  if s = "-" then []
  else List.init (String.length s) (fun i ->
      match s.[i] with 'F' -> true | 'B' -> false | _ -> fail_parse "pat" s)

(* F<k>~<sink> = Iterator::nth(k) (B: nth_back): k items passed over - destroyed, not reported (KSkip) -
   then an ordinary call whose item goes to <sink> *)
let parse_pat (s : string) : (bool * sink) list =
  if s = "-" then []
  else List.concat_map (fun item ->
      let front = match item.[0] with 'F' -> true | 'B' -> false | _ -> fail_parse "pat" s in
      let rest = String.sub item 1 (String.length item - 1) in
      let is_digit ch = ch >= '0' && ch <= '9' in
      match String.index_opt rest '~' with
      | Some p when p > 0 && String.for_all is_digit (String.sub rest 0 p) ->
          let k = int_of_string (String.sub rest 0 p) in
          List.init k (fun _ -> (front, KSkip))
          @ [(front, parse_sink (String.sub rest (p + 1) (String.length rest - p - 1)))]
      | _ -> [(front, parse_sink rest)]) (split ',' s)

let parse_pat_nth (s : string) : (bool * n) list =
  if s = "-" then []
  else List.map (fun item ->
      let front = match item.[0] with 'F' -> true | 'B' -> false | _ -> fail_parse "pat" s in
      (front, n_of_string (String.sub item 1 (String.length item - 1)))) (split ',' s)

let parse_fin s = match s with "drop" -> FinDrop | "forget" -> FinForget | _ -> fail_parse "fin" s
let parse_ik s = match s with
  | "ref" -> IRef | "mut" -> IMut | "tref" -> ITypedRef | "tmut" -> ITypedMut
  (* the same iterators reached through the IntoIterator impls of &AnyVec, &mut AnyVec, AnyVecRef, AnyVecMut *)
  | "iref" -> IRef | "imut" -> IMut | "itref" -> ITypedRef | "itmut" -> ITypedMut
  | _ -> fail_parse "iterkind" s
let parse_rk s = match split ':' s with
  | ["w"] -> RWrap | ["box"] -> RBox | ["lz"; vid] -> RLazy (nat_of_string vid)
  | _ -> fail_parse "rkind" s

let parse_op (toks : string list) : op =
  let nn = n_of_string and nat = nat_of_string in
  match toks with
  | ["new"; d; bk] -> ONew (nat d, parse_bk bk)
  | ["withcap"; d; bk; n] -> OWithCapacity (nat d, parse_bk bk, nn n)
  | ["dropvec"; v] -> ODropVec (nat v)
  | ["push"; a; v; s] -> OPush (parse_api a, nat v, parse_src s)
  | ["insert"; a; v; i; s] -> OInsert (parse_api a, nat v, nn i, parse_src s)
  | ["pop"; a; v; k] -> OPop (parse_api a, nat v, parse_sink k)
  | ["remove"; a; v; i; k] -> ORemove (parse_api a, nat v, nn i, parse_sink k)
  | ["swap_remove"; a; v; i; k] -> OSwapRemove (parse_api a, nat v, nn i, parse_sink k)
  | ["clear"; a; v] -> OClear (parse_api a, nat v)
  | ["get"; a; v; i] -> OGet (parse_api a, nat v, nn i)
  | ["at"; a; v; i] -> OAt (parse_api a, nat v, nn i)
  | ["iter"; k; v; p] -> OIter (parse_ik k, nat v, parse_pat_ro p)
  | ["drain"; a; v; sb; eb; p; f] ->
      ODrain (parse_api a, nat v, parse_bound sb, parse_bound eb, parse_pat p, parse_fin f)
  | ["splice"; a; v; sb; eb; p; f; rk; n; w; cl] ->
      OSplice (parse_api a, nat v, parse_bound sb, parse_bound eb, parse_pat p, parse_fin f,
               parse_rk rk, nn n, (if w = "-" then None else Some (nn w)),
               (* "A/B": the replacement iterator answers A to the first len() question and B to later ones;
                  Splice::drop asks once, the model takes the first answer *)
               nn (match split '/' cl with a :: _ -> a | [] -> cl))
  | ["clone"; v; d] -> OClone (nat v, nat d)
  | ["clone_empty"; v; d] -> OCloneEmpty (nat v, nat d)
  | ["clone_empty_in"; v; d; bk] -> OCloneEmptyIn (nat v, nat d, parse_bk bk)
  | ["clone_in"; v; bk; k] -> OCloneIn (nat v, parse_bk bk, nn k)
  | ["reserve"; v; n] | ["treserve"; v; n] -> OReserve (nat v, nn n)
  | ["reserve_exact"; v; n] | ["treserve_exact"; v; n] -> OReserveExact (nat v, nn n)
  | ["shrink_to_fit"; v] | ["tshrink_to_fit"; v] -> OShrinkToFit (nat v)
  | ["shrink_to"; v; n] | ["tshrink_to"; v; n] -> OShrinkTo (nat v, nn n)
  | ["views"; v] -> OViews (nat v)
  | ["spare_write"; a; v; k] -> OSpareWrite (parse_api a, nat v, nn k)
  | ["set_len"; v; n] -> OSetLen (nat v, nn n)
  | ["iter_clone"; k; v; p1; p2] -> OIterClone (parse_ik k, nat v, parse_pat_ro p1, parse_pat_ro p2)
  | ["probe_types"; v; i] -> OProbeTypes (nat v, nn i)
  | ["down_wrong"; v; k; i] -> ODownWrong (nat v, parse_tkind k, nn i)
  | ["swap_wrong"; v; i] -> OSwapWrong (nat v, nn i)
  | ["swap_wrong"; v; i; _] -> OSwapWrong (nat v, nn i)
  | ["write"; hk; v; i] -> OWrite (nn hk, nat v, nn i)
  | ["read"; hk; v; i] -> ORead (nn hk, nat v, nn i)
  | ["swap"; pr; v1; i; v2; j] -> OSwap (nn pr, nat v1, nn i, nat v2, nn j)
  | ["parts"; v; m] -> OParts (nat v, nn m)
  | ["placement"] -> OPlacement
  | ["iter_nth"; k; v; p] -> OIterNth (parse_ik k, nat v, parse_pat_nth p)
  | ["lazy_down"; d; v; i] -> OLazyDown (nn d, nat v, nn i)
  | ["cursor_max"; a; p] -> OCursorMax (parse_api a, parse_pat_ro p)
  | _ -> fail_parse "op" (String.concat " " toks)

let parse_cfg (toks : string list) : cfg =
  let tbl = Hashtbl.create 8 in
  List.iter (fun t ->
      match split '=' t with
      | [k; v] -> Hashtbl.replace tbl k v
      | _ -> fail_parse "cfg" t) toks;
  let g k = try Hashtbl.find tbl k with Not_found -> failwith ("cfg key missing: " ^ k) in
  { c_sz = n_of_string (g "sz"); c_al = n_of_string (g "al");
    c_dg = (g "dg" = "1"); c_cl = (g "cl" = "1"); c_trap = (g "trap" = "1");
    c_ty = n_of_string "1" }

(* ---- printing ---- *)
let pr_list f sep l = String.concat sep (List.map f l)
let pr_opt_n = function None -> "-" | Some x -> string_of_n x
let pr_snap = function
  | None -> "-"
  | Some None -> "!"
  | Some (Some l) -> "[" ^ pr_list string_of_n "," l ^ "]"
let pr_raw = function
  | None -> "-"
  | Some None -> "-"
  | Some (Some l) ->
      "[" ^ pr_list (function None -> "?" | Some None -> "U" | Some (Some t) -> string_of_n t) "," l ^ "]"
let pr_event (e : event) : string =
  let s = string_of_n in
  match e with
  | EDrop t -> "D" ^ s t
  | EClone (a, b) -> "C" ^ s a ^ ">" ^ s b
  | ENext -> "N"
  | EAlloc (sz, al) -> "A" ^ s sz ^ ":" ^ s al
  | ERealloc (o, al, nw) -> "R" ^ s o ^ ":" ^ s al ^ ">" ^ s nw
  | EDealloc (sz, al) -> "F" ^ s sz ^ ":" ^ s al
  | EBuild (sz, al) -> "B" ^ s sz ^ ":" ^ s al
  | EExpand a -> "X" ^ s a
  | EResize a -> "Z" ^ s a
  | EMemDrop -> "M"

(* the list specification's prediction for a step (Track.spec_track), rendered as Track.track_line *)
let pr_alen = function Some a -> string_of_int (List.length a.a_xs) | None -> "-"
let pr_asnap = function Some a -> "[" ^ pr_list string_of_n "," a.a_xs ^ "]" | None -> "-"
let pr_track = function
  | None -> "-"
  | Some t ->
      Printf.sprintf "out=%s pk=%s ret=%s len=%s snap=%s ev=%s"
        (string_of_n t.t_out) (string_of_n t.t_pk) (pr_list string_of_n "," t.t_ret)
        (pr_list pr_alen "," t.t_st) (pr_list pr_asnap "|" t.t_st) (pr_list pr_event "," t.t_evs)

let run_case (oc : out_channel) (sc : out_channel option) (line : string) : unit =
  match List.map String.trim (split ';' line) with
  | [] -> ()
  | head :: steps ->
      let htoks = List.filter (fun s -> s <> "") (split ' ' head) in
      (match htoks with
       | [] -> ()
       | id :: cfgtoks ->
           let c = parse_cfg cfgtoks in
           let w = ref init_world in
           List.iteri (fun i step ->
               let toks = List.filter (fun s -> s <> "") (split ' ' step) in
               let fuse, toks =
                 match toks with
                 | t :: rest when String.length t > 5 && String.sub t 0 5 = "fuse=" ->
                     (Some (n_of_string (String.sub t 5 (String.length t - 5))), rest)
                 | _ -> (None, toks) in
               let o = parse_op toks in
               (match sc with
                | Some sc -> Printf.fprintf sc "%s %d %s\n" id i (pr_track (spec_track c fuse o !w))
                | None -> ());
               let r = run_step c fuse o !w in
               w := r.sr_world;
               Printf.fprintf oc "%s %d out=%s ret=%s len=%s cap=%s snap=%s ev=%s raw=%s\n"
                 id i (string_of_n r.sr_out)
                 (pr_list string_of_n "," r.sr_ret)
                 (pr_list pr_opt_n "," (world_lens !w))
                 (pr_list pr_opt_n "," (world_caps !w))
                 (pr_list pr_snap "|" (world_snaps c !w))
                 (pr_list pr_event "," (world_events !w))
                 (pr_list pr_raw "|" (world_raw c !w))) steps)

let () =
  let ic = if Array.length Sys.argv > 1 then open_in Sys.argv.(1) else stdin in
  let oc = if Array.length Sys.argv > 2 then open_out Sys.argv.(2) else stdout in
  let sc = if Array.length Sys.argv > 3 then Some (open_out Sys.argv.(3)) else None in
  (try
     while true do
       let line = input_line ic in
       if String.length line > 0 && line.[0] <> '#' then run_case oc sc line
     done
   with End_of_file -> ());
  (match sc with Some sc -> close_out sc | None -> ());
  close_out oc
