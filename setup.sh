#!/bin/sh
# Build the framework from files on disk (offline): Coq development, extracted model,
# harness binaries (quick matrix, debug + release).
set -e
cd "$(dirname "$0")"
export CARGO_NET_OFFLINE=true
python3 - <<'PY'
import sys, os
sys.path.insert(0, os.getcwd())
from avcheck import core
t = core.ensure_coq()
print("coq development built in %.0fs" % t)
print("model:", core.ensure_model())
routing, dirs = core.ensure_harness("quick", ("debug", "release"))
print("harness: %d instantiations, %s" % (len(routing), dirs))
PY
