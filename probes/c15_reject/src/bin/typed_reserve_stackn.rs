#![allow(unused)]
use any_vec::AnyVec;
use any_vec::any_value::AnyValueWrapper;
use any_vec::mem::{Heap, Stack, StackN, Empty};
use any_vec::traits::*;
use std::rc::Rc;
use std::cell::Cell;
struct NoClone(u32);
fn main() {
    let mut v: AnyVec<dyn None, StackN<4, 64>> = AnyVec::new::<u32>();
    let mut t = v.downcast_mut::<u32>().unwrap();
    t.reserve(4);
}
