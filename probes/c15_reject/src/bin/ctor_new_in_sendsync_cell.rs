#![allow(unused)]
use any_vec::AnyVec;
use any_vec::any_value::AnyValueWrapper;
use any_vec::mem::{Heap, Stack, StackN, Empty};
use any_vec::traits::*;
use std::rc::Rc;
use std::cell::Cell;
struct NoClone(u32);
fn main() {
    let _v: AnyVec<dyn Send + Sync, Heap> = AnyVec::new_in::<Cell<u32>>(Heap);
}
