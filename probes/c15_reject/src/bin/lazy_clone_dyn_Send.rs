#![allow(unused)]
use any_vec::AnyVec;
use any_vec::any_value::AnyValueWrapper;
use any_vec::mem::{Heap, Stack, StackN, Empty};
use any_vec::traits::*;
use std::rc::Rc;
use std::cell::Cell;
struct NoClone(u32);
fn main() {
    use any_vec::any_value::AnyValueCloneable;
    let mut v: AnyVec<dyn Send> = AnyVec::new::<u32>();
    v.push(AnyValueWrapper::new(1u32));
    let e = v.at(0);
    let _l = e.lazy_clone();
}
