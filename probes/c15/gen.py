#!/usr/bin/env python3
"""Generate src/main.rs: one `impls!` cell per (type kind, constraint set, backend,
element class, auto trait) of the C15 domain; the program prints rustc's verdicts."""
import os
here = os.path.dirname(os.path.abspath(__file__))
TR = {"n": "dyn None", "s": "dyn Send", "y": "dyn Sync", "sy": "dyn Send + Sync",
      "c": "dyn Cloneable", "cs": "dyn Cloneable + Send", "cy": "dyn Cloneable + Sync", "csy": "dyn Cloneable + Send + Sync"}
MARK = {"b": "()", "s": "SendOnly", "y": "SyncOnly", "x": "Neither"}   # both / send only / sync only / neither
BACK = {"heap": "Heap", "stack": "Stack<64>", "stackn": "StackN<4, 64>", "empty": "Empty"}
for a in "bsyx":
    for b in "bsyx":
        BACK["u%s%s" % (a, b)] = "UB<%s, %s>" % (MARK[a], MARK[b])
ELEM = {"b": "u32", "s": "SendOnlyT", "y": "SyncOnlyT", "x": "NeitherT"}
ELEM_NC = {k + "n": "NC<%s>" % v for k, v in ELEM.items()}
ERASED = {
    "AnyVec": "AnyVec<{tr}, {m}>",
    "Element": "Element<'static, {tr}, {m}>",
    "ElementRef": "ElementRef<'static, {tr}, {m}>",
    "ElementMut": "ElementMut<'static, {tr}, {m}>",
    "IterRef": "IterRef<'static, {tr}, {m}>",
    "IterMut": "IterMut<'static, {tr}, {m}>",
    "Pop": "Pop<'static, {tr}, {m}>",
    "Remove": "Remove<'static, {tr}, {m}>",
    "SwapRemove": "SwapRemove<'static, {tr}, {m}>",
    "Drain": "Drain<'static, {tr}, {m}>",
    "Splice": "Splice<'static, {tr}, {m}, std::vec::IntoIter<AnyValueWrapper<u32>>>",
}
ERASED_CL = {
    "LazyCloneElement": "LazyClone<'static, Element<'static, {tr}, {m}>>",
    "LazyClonePop": "LazyClone<'static, Pop<'static, {tr}, {m}>>",
    "LazyCloneLazy": "LazyClone<'static, LazyClone<'static, Element<'static, {tr}, {m}>>>",
}
TYPED = {
    "AnyVecRef": "AnyVecRef<'static, {t}, {m}>",
    "AnyVecMut": "AnyVecMut<'static, {t}, {m}>",
    "AnyVecTyped": "AnyVecTyped<'static, {t}, {m}>",
}
def main():
    L = []
    for kind, pat in ERASED.items():
        for tr, trs in TR.items():
            for m, ms in BACK.items():
                ty = pat.format(tr=trs, m=ms)
                for trait in ("Send", "Sync"):
                    L.append(('%s|%s|%s|-|%s' % (kind, tr, m, trait), "impls!(%s: %s)" % (ty, trait)))
    for kind, pat in ERASED_CL.items():
        for tr, trs in TR.items():
            if "c" not in tr: continue
            for m, ms in BACK.items():
                ty = pat.format(tr=trs, m=ms)
                for trait in ("Send", "Sync"):
                    L.append(('%s|%s|%s|-|%s' % (kind, tr, m, trait), "impls!(%s: %s)" % (ty, trait)))
    for kind, pat in TYPED.items():
        for t, ts in ELEM.items():
            for m, ms in BACK.items():
                ty = pat.format(t=ts, m=ms)
                for trait in ("Send", "Sync"):
                    L.append(('%s|-|%s|%s|%s' % (kind, m, t, trait), "impls!(%s: %s)" % (ty, trait)))
    # opaque typed drain / splice iterators (auto traits leak through impl Trait): value probes
    V = []
    for t, ts in ELEM.items():
        for m, ms in BACK.items():
            for trait in ("Send", "Sync"):
                V.append(('TypedDrain|-|%s|%s|%s' % (m, t, trait), "tp_drain!(is_%s, %s, %s)" % (trait.lower(), ts, ms)))
                V.append(('TypedSplice|-|%s|%s|%s' % (m, t, trait), "tp_splice!(is_%s, %s, %s)" % (trait.lower(), ts, ms)))
    for tr, trs in TR.items():
        for t, ts in list(ELEM.items()) + list(ELEM_NC.items()):
            L.append(('Satisfy|%s|-|%s|SatisfyTraits' % (tr, t), "impls!(%s: SatisfyTraits<%s>)" % (ts, trs)))
        for m in ("heap", "stack", "uxx", "ubb"):
            L.append(('AnyVec|%s|%s|-|Clone' % (tr, m), "impls!(AnyVec<%s, %s>: Clone)" % (trs, BACK[m])))
    for m, ms in BACK.items():
        L.append(('Backend|-|%s|-|MemResizable' % m, "impls!(<%s as MemBuilder>::Mem: MemResizable)" % ms))
        L.append(('Backend|-|%s|-|MemBuilderSizeable' % m, "impls!(%s: MemBuilderSizeable)" % ms))
        L.append(('Backend|-|%s|-|BuilderSend' % m, "impls!(%s: Send)" % ms))
        L.append(('Backend|-|%s|-|BuilderSync' % m, "impls!(%s: Sync)" % ms))
        L.append(('Backend|-|%s|-|MemSend' % m, "impls!(<%s as MemBuilder>::Mem: Send)" % ms))
        L.append(('Backend|-|%s|-|MemSync' % m, "impls!(<%s as MemBuilder>::Mem: Sync)" % ms))
    for t, ts in list(ELEM.items()) + list(ELEM_NC.items()):
        for trait in ("Send", "Sync", "Clone"):
            L.append(('Elem|-|-|%s|%s' % (t, trait), "impls!(%s: %s)" % (ts, trait)))
    body = []
    chunk = 400
    fns = []
    allc = L + V
    for i in range(0, len(allc), chunk):
        fn = "part%d" % (i // chunk)
        fns.append(fn)
        body.append("fn %s() {" % fn)
        for key, expr in allc[i:i + chunk]:
            body.append('    println!("%s|{}", %s as u8);' % (key, expr))
        body.append("}")
    src = PRELUDE + "\n".join(body) + "\nfn main() {\n" + "\n".join("    %s();" % f for f in fns) + "\n}\n"
    p = os.path.join(here, "src", "main.rs")
    if not os.path.exists(p) or open(p).read() != src:
        open(p, "w").write(src)
    print(len(allc))

PRELUDE = r'''// GENERATED by gen.py - do not edit.
#![allow(dead_code, unused_imports)]
use any_vec::any_value::{AnyValueWrapper, LazyClone};
use any_vec::element::{Element, ElementMut, ElementRef};
use any_vec::mem::{Empty, Heap, Mem, MemBuilder, MemBuilderSizeable, MemResizable, Stack, StackN};
use any_vec::ops::{Drain, Pop, Remove, Splice, SwapRemove};
use any_vec::traits::{Cloneable, None};
use any_vec::{AnyVec, AnyVecMut, AnyVecRef, AnyVecTyped, IterMut, IterRef, SatisfyTraits};
use impls::impls;
use std::alloc::Layout;
use std::cell::Cell;
use std::marker::PhantomData;
use std::rc::Rc;

// markers: () = Send + Sync
pub struct SendOnly(Cell<()>);
pub struct SyncOnly(PhantomData<*const ()>);
unsafe impl Sync for SyncOnly {}
pub struct Neither(PhantomData<*const ()>);

// element classes (all Clone), and the same without Clone
#[derive(Clone, Default)] pub struct SendOnlyT(Cell<u32>);
#[derive(Clone, Default)] pub struct SyncOnlyT(PhantomData<*const ()>);
unsafe impl Sync for SyncOnlyT {}
#[derive(Clone, Default)] pub struct NeitherT(Rc<u32>);
pub struct NC<T>(T);

/// user backend: builder auto traits follow A, Mem auto traits follow B
pub struct UB<A, B>(PhantomData<A>, PhantomData<fn() -> B>);
impl<A, B> Clone for UB<A, B> { fn clone(&self) -> Self { UB(PhantomData, PhantomData) } }
impl<A, B> Default for UB<A, B> { fn default() -> Self { UB(PhantomData, PhantomData) } }
pub struct UMem<B> { buf: [u64; 16], layout: Layout, _m: PhantomData<B> }
impl<A, B> MemBuilder for UB<A, B> {
    type Mem = UMem<B>;
    fn build(&mut self, element_layout: Layout) -> UMem<B> { UMem { buf: [0; 16], layout: element_layout, _m: PhantomData } }
}
impl<B> Mem for UMem<B> {
    fn as_ptr(&self) -> *const u8 { self.buf.as_ptr() as *const u8 }
    fn as_mut_ptr(&mut self) -> *mut u8 { self.buf.as_mut_ptr() as *mut u8 }
    fn element_layout(&self) -> Layout { self.layout }
    fn size(&self) -> usize { if self.layout.size() == 0 { usize::MAX } else { 128 / self.layout.size() } }
}

// value probes for opaque types
struct P<'a, T>(&'a T);
trait NotSend { fn is_send(&self) -> bool { false } }
impl<T> NotSend for P<'_, T> {}
impl<'a, T: Send> P<'a, T> { fn is_send(&self) -> bool { true } }
trait NotSync { fn is_sync(&self) -> bool { false } }
impl<T> NotSync for P<'_, T> {}
impl<'a, T: Sync> P<'a, T> { fn is_sync(&self) -> bool { true } }

// expanded with concrete types (method resolution must see the concrete type)
macro_rules! tp_drain {
    ($is:ident, $T:ty, $M:ty) => {{
        let mut v: AnyVec<dyn None, $M> = AnyVec::new::<$T>();
        let mut tv = v.downcast_mut::<$T>().unwrap();
        let it = tv.drain(..);
        let r = P(&it).$is();
        drop(it);
        r
    }};
}
macro_rules! tp_splice {
    ($is:ident, $T:ty, $M:ty) => {{
        let mut v: AnyVec<dyn None, $M> = AnyVec::new::<$T>();
        let mut tv = v.downcast_mut::<$T>().unwrap();
        let it = tv.splice(.., Vec::<$T>::new());
        let r = P(&it).$is();
        drop(it);
        r
    }};
}

'''
if __name__ == "__main__":
    main()
