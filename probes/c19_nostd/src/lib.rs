//! A `no_std` artefact WITHOUT a global allocator that uses a stack-backed AnyVec built with
//! `default-features = false`.  It links only if the crate does not pull in `alloc`
//! ("no global memory allocator found but one is required" otherwise).
#![no_std]
use any_vec::any_value::AnyValueWrapper;
use any_vec::mem::{Stack, StackN};
use any_vec::traits::None;
use any_vec::AnyVec;

#[panic_handler]
fn panic(_: &core::panic::PanicInfo) -> ! {
    loop {}
}

#[no_mangle]
pub extern "C" fn c19_probe(x: u32) -> u32 {
    let mut v: AnyVec<dyn None, Stack<64>> = AnyVec::new::<u32>();
    v.push(AnyValueWrapper::new(x));
    v.push(AnyValueWrapper::new(x + 1));
    v.insert(0, AnyValueWrapper::new(7u32));
    let mut w: AnyVec<dyn None, StackN<4, 16>> = AnyVec::new::<u32>();
    {
        let e = v.remove(1);
        w.push(e);
    }
    let d = v.drain(..).count() as u32;
    let mut s = 0u32;
    for e in w.iter() {
        s += *e.downcast_ref::<u32>().unwrap();
    }
    {
        let mut t = v.downcast_mut::<u32>().unwrap();
        t.push(3);
        let _ = t.splice(.., [1u32, 2u32]).count();
    }
    s + d + v.len() as u32
}

/// Without the alloc feature the default backend is the zero-capacity `Empty` (type equality is
/// decided by the compiler), and the complete operation set is available on stack backends.
#[no_mangle]
pub extern "C" fn c19_default_backend_and_ops(x: u32) -> u32 {
    use any_vec::mem::Empty;
    let d: AnyVec<dyn None> = AnyVec::new::<u32>();
    let e: AnyVec<dyn None, Empty> = d;
    let mut v: AnyVec<dyn any_vec::traits::Cloneable, Stack<64>> = AnyVec::new::<u32>();
    v.push(AnyValueWrapper::new(x));
    v.push(AnyValueWrapper::new(x + 2));
    let mut c = v.clone();
    let _ = c.swap_remove(0);
    let _ = c.pop();
    c.clear();
    let w = v.clone_empty_in(StackN::<2, 8>);
    let n = v.splice(0..1, [AnyValueWrapper::new(9u32), AnyValueWrapper::new(8u32)]).count();
    let a = *v.at(0).downcast_ref::<u32>().unwrap();
    let g = v.get(7).is_none() as u32;
    (e.capacity() + w.capacity() + v.as_bytes().len() + n) as u32 + a + g
}
