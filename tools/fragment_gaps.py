#!/usr/bin/env python3
"""fragment_gaps.py [PID...]: which operation kinds of the last run's cases lie outside the fragment of the
history theorems (Track.spec_track answered '-')."""
import glob, collections, os, sys
ROOT = os.path.dirname(os.path.dirname(os.path.abspath(__file__)))
def word(st):
    tk = st.split()
    fuse = ""
    if tk and tk[0].startswith("fuse="):
        tk = tk[1:]; fuse = "fuse "
    w = tk[0]
    if w in ("push", "insert"): w += " " + tk[-1].split(":")[0]
    if w in ("pop", "remove", "swap_remove"): w += " " + tk[-1].split(":")[0].split("+")[0]
    if w == "splice": w += " " + tk[7].split(":")[0] + (" liar" if tk[8] != tk[10] else "") + (" wrong" if tk[9] != "-" else "")
    return fuse + w
for pid in sys.argv[1:] or sorted(os.listdir(os.path.join(ROOT, ".cache", "work"))):
    cnt, tot = collections.Counter(), collections.Counter()
    for cf in glob.glob(os.path.join(ROOT, ".cache", "work", pid, "*.case")):
        if ".r" in os.path.basename(cf)[:-5].split("-")[-1]: continue
        sp = cf[:-5] + ".spec"
        if not os.path.exists(sp): continue
        spec = {}
        for l in open(sp):
            t = l.split(" ", 2); spec.setdefault(t[0], []).append(t[2].strip() == "-")
        for l in open(cf):
            parts = [x.strip() for x in l.strip().split(";")]
            cid = parts[0].split()[0]
            for st, un in zip(parts[1:], spec.get(cid, [])):
                w = word(st); tot[w] += 1
                if un: cnt[w] += 1
    print("==", pid, "steps", sum(tot.values()), "outside", sum(cnt.values()))
    for w, c in cnt.most_common(14): print("   %-28s %8d of %8d" % (w, c, tot[w]))
