#!/bin/sh
# lane.sh <k> : (re)create an evaluation lane /tmp/lane_<k>/{verif,repo}: a copy of /verif's working tree whose
# checks run against the lane's own worktree of /repo, so seeded changes can be evaluated without touching
# /repo or the live /verif.  Development tooling only (nothing registered in MANIFEST.json uses it).
set -e
k=$1
L=/tmp/lane_$k
mkdir -p $L
if [ ! -d $L/repo ]; then git -C /repo worktree add -q --detach $L/repo HEAD; fi
git -C $L/repo checkout -q --detach "$(git -C /repo rev-parse HEAD)"
git -C $L/repo checkout -- . 
mkdir -p $L/verif
rsync -a --delete --exclude '.git' --exclude '.cache/work' --exclude '.cache/c19' --exclude 'replays' --exclude 'seeded' /verif/ $L/verif/
cd $L/verif
grep -rl '/repo' avcheck harness/gen_bins.py harness/Cargo.toml probes/*/Cargo.toml 2>/dev/null | while read f; do
  sed -i "s|\"/repo\"|\"$L/repo\"|g; s|REPO = \"$L/repo\"|REPO = \"$L/repo\"|" "$f"
done
grep -n '^REPO\|^ROOT' avcheck/core.py
