#!/usr/bin/env python3
"""append_props.py <PID> <json>: append pinned theorems to an existing AV/Props/<PID>.v.
json: {"imports": "...", "comment": "...", "theorems": [[name, lemma, comment], ...]}"""
import json, os, re, sys
sys.path.insert(0, os.path.dirname(os.path.abspath(__file__)))
import gen_props
def main():
    pid, spec = sys.argv[1], json.load(open(sys.argv[2]))
    p = os.path.join(gen_props.COQ, "AV", "Props", pid + ".v")
    src = open(p).read()
    base_imports = "\n".join(l for l in src.split("\n") if l.startswith("From "))
    types = gen_props.check_types(base_imports + "\n" + spec["imports"], [t[1] for t in spec["theorems"]])
    names = [t[0] for t in spec["theorems"]]
    # drop earlier versions of the same block
    mark = "(* ---- %s ---- *)" % spec["tag"]
    if mark in src:
        a = src.index(mark); b = src.index("(* ---- end %s ---- *)" % spec["tag"]) + len("(* ---- end %s ---- *)" % spec["tag"]) + 1
        src = src[:a] + src[b:]
        src = "\n".join(l for l in src.split("\n") if not any(l.strip() == "Print Assumptions %s." % n for n in names)) 
    out = [mark, spec["imports"], "(** %s *)" % spec["comment"]]
    for name, lemma, comment in spec["theorems"]:
        if comment: out.append("(** %s *)" % comment)
        out.append("Theorem %s :\n  %s." % (name, types[lemma].replace("\n", "\n  ")))
        out.append("Proof. exact %s. Qed.\n" % lemma)
    out.append("(* ---- end %s ---- *)" % spec["tag"])
    i = src.index("Print Assumptions")
    src = src[:i] + "\n".join(out) + "\n" + src[i:].rstrip("\n") + "\n" + "\n".join("Print Assumptions %s." % n for n in names) + "\n"
    open(p, "w").write(src)
    import subprocess
    r = subprocess.run("coqc -Q AV AV AV/Props/%s.v" % pid, cwd=gen_props.COQ, shell=True, stdout=subprocess.PIPE, stderr=subprocess.STDOUT, text=True)
    print(pid, "rc", r.returncode, "closed", r.stdout.count("Closed under the global context"))
    if r.returncode: print(r.stdout[-1500:])
main()
