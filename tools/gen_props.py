#!/usr/bin/env python3
"""Generate AV/Props/<ID>.v from a spec: the statement of every property theorem is printed
by Coq itself from the proved lemma (`Check`), pasted verbatim, and closed by `exact lemma`
- so the Props file pins the full statement textually and Print Assumptions sits beneath."""
import os, re, subprocess, sys, json
COQ = "/verif/coq"
def check_types(imports, lemmas):
    src = imports + "\nSet Printing Width 110.\nSet Printing Depth 1000.\n" + "".join("Check %s.\n" % l for l in lemmas)
    p = os.path.join(COQ, "_tmp_check.v")
    open(p, "w").write(src)
    out = subprocess.run("coqc -Q AV AV _tmp_check.v", cwd=COQ, shell=True, stdout=subprocess.PIPE, stderr=subprocess.STDOUT, text=True).stdout
    for f in os.listdir(COQ):
        if f.startswith("_tmp_check") or f.startswith("._tmp_check"):
            os.remove(os.path.join(COQ, f))
    res = {}
    # output: "name\n     : type" blocks
    blocks = re.split(r"\n(?=\S)", out)
    for b in blocks:
        m = re.match(r"(\w+)\s*\n?\s*:\s*(.*)", b, re.S)
        if m and m.group(1) in lemmas:
            res[m.group(1)] = m.group(2).strip()
    missing = [l for l in lemmas if l not in res]
    if missing:
        raise SystemExit("could not get statements of %s\n%s" % (missing, out[-2000:]))
    return res
def main():
    spec = json.load(open(sys.argv[1]))
    for pid, d in spec.items():
        imports = d["imports"]
        thms = d["theorems"]     # list of [prop theorem name, lemma, comment]
        types = check_types(imports, [t[1] for t in thms])
        out = ["(** %s *)" % d["doc"], imports, ""]
        for name, lemma, comment in thms:
            if comment:
                out.append("(** %s *)" % comment)
            out.append("Theorem %s :\n  %s." % (name, types[lemma].replace("\n", "\n  ")))
            out.append("Proof. exact %s. Qed.\n" % lemma)
        out.append(d.get("extra", ""))
        for name, _, _ in thms:
            out.append("Print Assumptions %s." % name)
        for name in d.get("extra_names", []):
            out.append("Print Assumptions %s." % name)
        open(os.path.join(COQ, "AV", "Props", pid + ".v"), "w").write("\n".join(out) + "\n")
        r = subprocess.run("coqc -Q AV AV AV/Props/%s.v" % pid, cwd=COQ, shell=True, stdout=subprocess.PIPE, stderr=subprocess.STDOUT, text=True)
        closed = r.stdout.count("Closed under the global context")
        print(pid, "rc", r.returncode, "closed", closed, "of", len(thms) + len(d.get("extra_names", [])))
        if r.returncode != 0:
            print(r.stdout[-1500:])
if __name__ == "__main__":
    main()
