#!/usr/bin/env python3
"""regen_props.py <PID>...: regenerate AV/Props/<PID>.v from tools/props_spec.json (if the property is generated)
and re-append its history block from tools/props_hist/<pid>h.json (if there is one)."""
import json, os, subprocess, sys, tempfile
T = os.path.dirname(os.path.abspath(__file__))
spec = json.load(open(os.path.join(T, "props_spec.json")))
for pid in sys.argv[1:]:
    if pid in spec:
        with tempfile.NamedTemporaryFile("w", suffix=".json", delete=False) as f:
            json.dump({pid: spec[pid]}, f)
        subprocess.run([sys.executable, os.path.join(T, "gen_props.py"), f.name])
        os.remove(f.name)
    h = os.path.join(T, "props_hist", pid.lower() + "h.json")
    if os.path.exists(h):
        subprocess.run([sys.executable, os.path.join(T, "append_props.py"), pid, h])
