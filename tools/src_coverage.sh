#!/bin/sh
# src_coverage.sh : development tool (nothing registered in MANIFEST.json uses it).  Which lines of /repo/src does the
# correspondence run execute?  Builds the harness with -C instrument-coverage on the nightly toolchain in a scratch copy,
# replays the case shards the last runs of the dynamic checks left in /verif/.cache/work, merges the profiles and prints
# llvm-cov's per-file report plus the uncovered lines.  Scratch directory: /tmp/cov (removed at the start, kept at the end
# for inspection; remove it when done).
set -e
T=$(dirname "$(rustup which --toolchain nightly rustc)")/../lib/rustlib/x86_64-unknown-linux-gnu/bin
rm -rf /tmp/cov && mkdir -p /tmp/cov/prof /tmp/cov/out
rsync -a --exclude target --exclude target-noalloc /verif/harness/ /tmp/cov/harness/
(cd /tmp/cov/harness && RUSTFLAGS="-C instrument-coverage" CARGO_NET_OFFLINE=true timeout 3000 cargo +nightly build --offline --bins 2>&1 | tail -1)
cd /verif/.cache/work
ls */*-debug-*.case | grep -v '\.r[0-9]*\.case' | grep -v C19 > /tmp/cov/shards.txt
cat > /tmp/cov/run1.sh <<'EOF'
#!/bin/sh
f="$1"; b=$(basename "$f" | sed 's/^[A-Z0-9]*-\([a-z][0-9]*\)-debug.*/\1/')
LLVM_PROFILE_FILE="/tmp/cov/prof/$b-%8m.profraw" timeout 600 /tmp/cov/harness/target/debug/$b "/verif/.cache/work/$f" /tmp/cov/out/$(echo "$f" | tr '/' '_').impl >/dev/null 2>&1
EOF
chmod +x /tmp/cov/run1.sh
cat /tmp/cov/shards.txt | xargs -P 12 -n 1 /tmp/cov/run1.sh || true
cd /tmp/cov
$T/llvm-profdata merge -sparse prof/*.profraw -o all.profdata 2>/dev/null
OBJS=$(for b in $(ls harness/target/debug | grep -E '^[gn][0-9]+$'); do echo -n "-object harness/target/debug/$b "; done)
$T/llvm-cov report $OBJS -instr-profile=all.profdata --ignore-filename-regex='(/root/.cargo|/rustc/|harness/src|rustup)' 2>/dev/null | cut -c1-60,130-200
$T/llvm-cov show $OBJS -instr-profile=all.profdata --ignore-filename-regex='(/root/.cargo|/rustc/|harness/src|rustup)' --show-line-counts-or-regions -format=text 2>/dev/null > show.txt
python3 - <<'EOF'
import re, collections
cur=None; by=collections.defaultdict(list)
for line in open('/tmp/cov/show.txt',errors='replace'):
    m=re.match(r'^(/repo/src/\S+):$',line.strip())
    if m: cur=m.group(1); continue
    m=re.match(r'^\s*(\d+)\|\s*0\|(.*)$',line)
    if m and cur: by[cur].append((int(m.group(1)),m.group(2).rstrip()))
for f in sorted(by):
    print("==",f,len(by[f]),"uncovered lines")
    for l,t in by[f]: print("  %4d %s"%(l,t[:110]))
EOF
