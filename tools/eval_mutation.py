#!/usr/bin/env python3
"""eval_mutation.py <worktree> <mutation-dir-name> <seed-id> <breaks-property> <check-ids,comma> [--skip-validate]
Validates a seeded change in its scratch worktree (suite passes with it, demo fails with it,
demo passes without it), stores it under /verif/seeded/<seed-id>/, then applies it to /repo,
runs the listed checks, and restores /repo."""
import json, os, shutil, subprocess, sys, time
def sh(cmd, cwd=None, timeout=3600):
    p = subprocess.run(cmd, cwd=cwd, shell=True, stdout=subprocess.PIPE, stderr=subprocess.STDOUT, text=True, timeout=timeout,
                       env=dict(os.environ, CARGO_NET_OFFLINE="true"))
    return p.returncode, p.stdout
def main():
    wt, mdir, sid, prop, checks = sys.argv[1:6]
    lane = None
    for a in sys.argv:
        if a.startswith("--lane="):
            lane = a.split("=")[1]
    REPO = "/tmp/lane_%s/repo" % lane if lane else "/repo"
    VERIF = "/tmp/lane_%s/verif" % lane if lane else "/verif"
    skip = "--skip-validate" in sys.argv
    only_validate = "--validate-only" in sys.argv
    src = os.path.join(wt, "_mutation", mdir)
    patch = os.path.join(src, "patch.diff")
    benign = "--benign" in sys.argv      # a property-preserving rewrite: every check must stay quiet
    dst = os.path.join("/verif/seeded_benign" if benign else "/verif/seeded", sid)
    os.makedirs(dst, exist_ok=True)
    for f in ("patch.diff", "demo.rs", "notes.md", "validated.json"):
        if os.path.exists(os.path.join(src, f)):
            shutil.copy(os.path.join(src, f), os.path.join(dst, f))
    meta = dict(id=sid, breaks_property=prop, checks_run=checks.split(","), validated={}, results={})
    if benign:
        meta = dict(id=sid, rewrites_code_of=prop, expect="no alarm", checks_run=checks.split(","), validated={}, results={})
    if os.path.exists(os.path.join(dst, "validated.json")):
        try:
            meta["validated"] = json.load(open(os.path.join(dst, "validated.json")))
        except Exception:
            pass
    if os.path.exists(os.path.join(dst, "meta.json")):
        old = json.load(open(os.path.join(dst, "meta.json")))
        meta["validated"] = old.get("validated", {}) or meta["validated"]
        meta["needs"] = old.get("needs", "")
        for k in ("history", "round", "what_was_run"):
            if k in old:
                meta[k] = old[k]
    if not skip:
        sh("git checkout -- . && rm -f tests/demo.rs", cwd=wt)
        rc, out = sh("git apply %s" % patch, cwd=wt)
        assert rc == 0, out
        rc1, out1 = sh("cargo test --offline 2>&1", cwd=wt)
        suite_ok = (rc1 == 0)
        rcb, outb = sh("cargo build --offline --no-default-features 2>&1 | tail -1", cwd=wt)
        if "--static" in sys.argv:
            # compile-time property: the demo program is rejected without the change and accepted with it
            os.makedirs(os.path.join(wt, "examples"), exist_ok=True)
            shutil.copy(os.path.join(src, "demo.rs"), os.path.join(wt, "examples", "demo.rs"))
            rc2, out2 = sh("cargo build --offline --example demo 2>&1", cwd=wt)
            sh("git checkout -- src", cwd=wt)
            rc3, out3 = sh("cargo build --offline --example demo 2>&1", cwd=wt)
            demo_fails_with = (rc2 == 0) and (rc3 != 0)      # "fails" = the misuse is accepted with the change
            demo_passes_without = rc3 != 0                   # rejected on the clean tree
            sh("rm -rf examples", cwd=wt)
        else:
            extra = " --no-default-features" if "--no-default-features" in sys.argv else ""
            shutil.copy(os.path.join(src, "demo.rs"), os.path.join(wt, "tests", "demo.rs"))
            rc2, out2 = sh("cargo test --offline%s --test demo 2>&1" % extra, cwd=wt)
            demo_fails_with = rc2 != 0
            sh("git checkout -- src", cwd=wt)
            rc3, out3 = sh("cargo test --offline%s --test demo 2>&1" % extra, cwd=wt)
            demo_passes_without = rc3 == 0
            sh("rm -f tests/demo.rs", cwd=wt)
        meta["validated"] = dict(suite_passes_with_change=suite_ok, no_default_features_builds="Finished" in outb,
                                 demo_fails_with_change=demo_fails_with, demo_passes_without_change=demo_passes_without,
                                 how="scratch worktree %s: git apply; cargo test --offline; cargo build --no-default-features; cargo test --test demo (with / without the change)" % wt)
        print("validated:", meta["validated"])
        if not (suite_ok and demo_fails_with and demo_passes_without):
            print("NOT A VALID SEED"); print(out1[-800:]); print(out2[-800:]); print(out3[-400:])
    if only_validate:
        old = {}
        if os.path.exists(os.path.join(dst, "meta.json")):
            old = json.load(open(os.path.join(dst, "meta.json")))
        old["validated"] = meta["validated"]
        for k in ("id", "breaks_property"):
            old.setdefault(k, meta[k])
        json.dump(old, open(os.path.join(dst, "meta.json"), "w"), indent=1)
        return
    if os.path.exists(os.path.join(dst, "meta.json")):
        meta["results"] = json.load(open(os.path.join(dst, "meta.json"))).get("results", {})
    # run the checks on /repo with the change applied
    rc, out = sh("git -C %s status --porcelain" % REPO)
    assert out.strip() == "", "%s is dirty: " % REPO + out
    rc, out = sh("git -C %s apply %s" % (REPO, os.path.join(dst, "patch.diff")))
    assert rc == 0, out
    try:
        for c in checks.split(","):
            t0 = time.time()
            rc, out = sh("./check %s --tier quick" % c, cwd=VERIF, timeout=3000)
            viol = [l for l in out.splitlines() if l.startswith("VIOLATION")]
            fi = [l for l in out.splitlines() if "failing input" in l][:3]
            nf = [l for l in viol if l.rstrip().endswith("no-failing-input-found")]
            meta["results"][c] = dict(exit=rc, violations=len(viol), no_failing_input_found=len(nf), detected=(rc == 1 and len(viol) > 0),
                                      first=(fi[0][:300] if fi else (viol[0] if viol else "")), wall_s=round(time.time() - t0))
            print(c, "exit", rc, "violations", len(viol), (fi[0][:200] if fi else ""))
            if rc not in (0, 1):
                print(out[-1500:])
    finally:
        sh("git -C %s checkout -- ." % REPO)
        rc, out = sh("git -C %s status --porcelain" % REPO)
        assert out.strip() == "", out
    json.dump(meta, open(os.path.join(dst, "meta.json"), "w"), indent=1)
if __name__ == "__main__":
    main()
