(** * C19: without the alloc feature the crate is heap-free and offers the complete API.

    rustc's resolved view of the public API (rustdoc JSON of the library built with and without
    default features; translator avcheck/c19.py) and the build facts are REGENERATED FROM /repo ON
    EVERY RUN into [AV.Gen.C19Table].  This file states what C19 demands of them: the
    `--no-default-features` build (a) exists, links against nothing but [core], and a no_std
    artefact without any global allocator using stack-backed vectors links; (b) offers no heap
    backend; (c) offers every other public item and method of the default build, and nothing else.
    The behavioural half ("behaviour identical to the default build") is the correspondence of the
    no-alloc harness with the same executable model the C01/C02/C08/C11 theorems are about. *)
From Coq Require Import List Bool String.
Import ListNotations.

Record item := { i_name : string; i_default : bool; i_noalloc : bool; i_heap : bool }.
Record facts := { f_lib_builds : bool; f_links_only_core : bool; f_nostd_staticlib_links : bool;
                  f_noalloc_crates : list string }.

Definition item_ok (i : item) : bool :=
  implb (i_noalloc i) (negb (i_heap i))                       (* no heap backend offered *)
  && implb (i_default i && negb (i_heap i)) (i_noalloc i)     (* complete operation set *)
  && implb (i_noalloc i) (i_default i).                       (* nothing that exists only without alloc *)

Definition facts_ok (f : facts) : bool :=
  f_lib_builds f && f_links_only_core f && f_nostd_staticlib_links f
  && forallb (fun c => String.eqb c "core" || String.eqb c "compiler_builtins") (f_noalloc_crates f).

Definition table_ok (t : list item) (f : facts) : bool :=
  forallb item_ok t && facts_ok f
  && existsb (fun i => i_heap i && i_default i) t             (* non-vacuity: the default build does have a heap backend *)
  && existsb (fun i => i_noalloc i) t.

Lemma table_ok_sound t f :
  table_ok t f = true ->
  (forall i, In i t -> i_noalloc i = true -> i_heap i = false /\ i_default i = true) /\
  (forall i, In i t -> i_default i = true -> i_heap i = false -> i_noalloc i = true) /\
  f_lib_builds f = true /\ f_nostd_staticlib_links f = true /\
  (forall c, In c (f_noalloc_crates f) -> c = "core"%string \/ c = "compiler_builtins"%string).
Proof.
  unfold table_ok. intros H.
  apply andb_prop in H. destruct H as [H _].
  apply andb_prop in H. destruct H as [H _].
  apply andb_prop in H. destruct H as [Hi Hf].
  rewrite forallb_forall in Hi.
  unfold facts_ok in Hf.
  apply andb_prop in Hf. destruct Hf as [Hf Hc].
  apply andb_prop in Hf. destruct Hf as [Hf Hs].
  apply andb_prop in Hf. destruct Hf as [Hb _].
  rewrite forallb_forall in Hc.
  repeat split.
  - specialize (Hi i H). unfold item_ok in Hi. rewrite H0 in Hi. cbn in Hi.
    destruct (i_heap i); [discriminate|reflexivity].
  - specialize (Hi i H). unfold item_ok in Hi. rewrite H0 in Hi. cbn in Hi.
    destruct (i_heap i); cbn in Hi; [discriminate|].
    destruct (i_default i); [reflexivity|].
    rewrite andb_false_r in Hi. discriminate.
  - intros i Hin Hd Hh. specialize (Hi i Hin). unfold item_ok in Hi. rewrite Hd, Hh in Hi. cbn in Hi.
    destruct (i_noalloc i); [reflexivity|discriminate].
  - exact Hb.
  - exact Hs.
  - intros c Hin. specialize (Hc c Hin). apply orb_prop in Hc.
    destruct Hc as [Hc|Hc]; apply String.eqb_eq in Hc; [left|right]; exact Hc.
Qed.
