(** * C15: the specification of who may be Send / Sync / Clone, as a decidable rule over
      the cells of a finite domain.  The verdict of the Rust compiler for every cell is
      regenerated from /repo on every run ([AV.Gen.C15Table], written by tools/c15.py from
      the output of the probe program probes/c15); the theorems in [AV.Props.C15] are
      re-checked against that table. *)
From Coq Require Import List Bool.
Import ListNotations.

(** constraint sets *)
Record trset := { t_clone : bool; t_send : bool; t_sync : bool }.
Definition all_trsets : list trset :=
  [ {| t_clone := false; t_send := false; t_sync := false |};
    {| t_clone := false; t_send := true;  t_sync := false |};
    {| t_clone := false; t_send := false; t_sync := true |};
    {| t_clone := false; t_send := true;  t_sync := true |};
    {| t_clone := true;  t_send := false; t_sync := false |};
    {| t_clone := true;  t_send := true;  t_sync := false |};
    {| t_clone := true;  t_send := false; t_sync := true |};
    {| t_clone := true;  t_send := true;  t_sync := true |} ].

(** auto-trait capability of a type: (Send?, Sync?) *)
Record caps := { c_send : bool; c_sync : bool }.
Definition all_caps : list caps :=
  [ {| c_send := true; c_sync := true |}; {| c_send := true; c_sync := false |};
    {| c_send := false; c_sync := true |}; {| c_send := false; c_sync := false |} ].

(** backends: the four built-in ones and user backends characterised by the capabilities
    of the builder and of its Mem (any user backend falls in one of the 16 classes) *)
Inductive back := BkHeap | BkStack | BkStackN | BkEmpty | BkUser (builder mem : caps).
Definition all_backs : list back :=
  [BkHeap; BkStack; BkStackN; BkEmpty] ++
  flat_map (fun a => map (fun b => BkUser a b) all_caps) all_caps.
Definition builder_caps (b : back) : caps :=
  match b with BkUser a _ => a | _ => {| c_send := true; c_sync := true |} end.
Definition mem_caps (b : back) : caps :=
  match b with BkUser _ m => m | _ => {| c_send := true; c_sync := true |} end.
Definition resizable (b : back) : bool := match b with BkHeap => true | _ => false end.

(** element classes *)
Record eclass := { e_caps : caps; e_clone : bool }.
Definition all_eclasses_clone : list eclass := map (fun c => {| e_caps := c; e_clone := true |}) all_caps.
Definition all_eclasses : list eclass :=
  all_eclasses_clone ++ map (fun c => {| e_caps := c; e_clone := false |}) all_caps.

(** the public types that are, or are derived from, a vector *)
Inductive kind :=
| KAnyVec
| KElement | KElementRef | KElementMut | KIterRef | KIterMut
| KPop | KRemove | KSwapRemove | KDrain | KSplice
| KLazyCloneElement | KLazyClonePop | KLazyCloneLazy
| KAnyVecRef | KAnyVecMut | KAnyVecTyped | KTypedDrain | KTypedSplice.

Inductive access := Owned | Shared | Exclusive.
(** what kind of reference to the vector a value of this type amounts to *)
Definition access_of (k : kind) : access :=
  match k with
  | KAnyVec => Owned
  | KElementRef | KIterRef | KLazyCloneElement | KLazyClonePop | KLazyCloneLazy | KAnyVecRef => Shared
  | _ => Exclusive
  end.
Definition erased_kinds : list kind :=
  [KAnyVec; KElement; KElementRef; KElementMut; KIterRef; KIterMut; KPop; KRemove; KSwapRemove; KDrain; KSplice].
Definition lazy_kinds : list kind := [KLazyCloneElement; KLazyClonePop; KLazyCloneLazy].
Definition typed_kinds : list kind := [KAnyVecRef; KAnyVecMut; KAnyVecTyped; KTypedDrain; KTypedSplice].

Inductive auto := ASend | ASync.

(** the cells of the domain *)
Inductive cell :=
| CErased (k : kind) (tr : trset) (b : back) (a : auto)        (* is the erased type Send / Sync? *)
| CTyped (k : kind) (b : back) (e : caps) (a : auto)           (* typed views over element class e *)
| CSatisfy (tr : trset) (e : eclass)                           (* T: SatisfyTraits<Traits> (constructors) *)
| CVecClone (tr : trset) (b : back)                            (* AnyVec<Traits, M>: Clone *)
| CResizable (b : back)                                        (* M::Mem: MemResizable (reserve / shrink) *)
| CSizeable (b : back).                                        (* M: MemBuilderSizeable (with_capacity) *)

(** Could a reference to the erased vector be sent / shared? *)
Definition vec_send (tr : trset) (b : back) : bool :=
  t_send tr && c_send (builder_caps b) && c_send (mem_caps b).
Definition vec_sync (tr : trset) (b : back) : bool :=
  t_sync tr && c_sync (builder_caps b) && c_sync (mem_caps b).
(** ... to a vector of elements of class [e] (typed views have no constraint set) *)
Definition tvec_send (e : caps) (b : back) : bool :=
  c_send e && c_send (builder_caps b) && c_send (mem_caps b).
Definition tvec_sync (e : caps) (b : back) : bool :=
  c_sync e && c_sync (builder_caps b) && c_sync (mem_caps b).

Definition implb' (a b : bool) : bool := negb a || b.

(** [rule c v]: the compiler's verdict [v] for cell [c] is what C15 demands. *)
Definition rule (c : cell) (v : bool) : bool :=
  match c with
  | CErased k tr b a =>
      match access_of k, a with
      | Owned, ASend => eqb v (vec_send tr b)           (* exactly when *)
      | Owned, ASync => eqb v (vec_sync tr b)
      | Shared, _ => implb' v (vec_sync tr b)           (* only when &vec could *)
      | Exclusive, ASend => implb' v (vec_send tr b)    (* only when &mut vec could *)
      | Exclusive, ASync => implb' v (vec_sync tr b)
      end
  | CTyped k b e a =>
      match access_of k, a with
      | Shared, _ => implb' v (tvec_sync e b)
      | _, ASend => implb' v (tvec_send e b)
      | _, ASync => implb' v (tvec_sync e b)
      end
  | CSatisfy tr e =>
      eqb v (implb' (t_clone tr) (e_clone e) && implb' (t_send tr) (c_send (e_caps e))
             && implb' (t_sync tr) (c_sync (e_caps e)))
  | CVecClone tr _ => eqb v (t_clone tr)
  | CResizable b => eqb v (resizable b)
  | CSizeable b => eqb v (resizable b)
  end.

(** the whole domain *)
Definition autos : list auto := [ASend; ASync].
Definition domain : list cell :=
  flat_map (fun k => flat_map (fun tr => flat_map (fun b => map (fun a => CErased k tr b a) autos)
                                                  all_backs) all_trsets) erased_kinds
  ++ flat_map (fun k => flat_map (fun tr => flat_map (fun b => map (fun a => CErased k tr b a) autos)
                                                  all_backs) (filter t_clone all_trsets)) lazy_kinds
  ++ flat_map (fun k => flat_map (fun b => flat_map (fun e => map (fun a => CTyped k b e a) autos)
                                                  all_caps) all_backs) typed_kinds
  ++ flat_map (fun tr => map (fun e => CSatisfy tr e) all_eclasses) all_trsets
  ++ flat_map (fun tr => map (fun b => CVecClone tr b)
                             [BkHeap; BkStack;
                              BkUser {| c_send := false; c_sync := false |} {| c_send := false; c_sync := false |};
                              BkUser {| c_send := true; c_sync := true |} {| c_send := true; c_sync := true |}]) all_trsets
  ++ map CResizable all_backs ++ map CSizeable all_backs.

(** decidable equality of cells (boolean) *)
Definition caps_eqb (a b : caps) := eqb (c_send a) (c_send b) && eqb (c_sync a) (c_sync b).
Definition trset_eqb (a b : trset) :=
  eqb (t_clone a) (t_clone b) && eqb (t_send a) (t_send b) && eqb (t_sync a) (t_sync b).
Definition back_eqb (a b : back) :=
  match a, b with
  | BkHeap, BkHeap | BkStack, BkStack | BkStackN, BkStackN | BkEmpty, BkEmpty => true
  | BkUser x y, BkUser x' y' => caps_eqb x x' && caps_eqb y y'
  | _, _ => false
  end.
Scheme Equality for kind.
Definition auto_eqb (a b : auto) := match a, b with ASend, ASend | ASync, ASync => true | _, _ => false end.
Definition eclass_eqb (a b : eclass) := caps_eqb (e_caps a) (e_caps b) && eqb (e_clone a) (e_clone b).
Definition cell_eqb (a b : cell) : bool :=
  match a, b with
  | CErased k tr b0 x, CErased k' tr' b' x' => kind_beq k k' && trset_eqb tr tr' && back_eqb b0 b' && auto_eqb x x'
  | CTyped k b0 e x, CTyped k' b' e' x' => kind_beq k k' && back_eqb b0 b' && caps_eqb e e' && auto_eqb x x'
  | CSatisfy tr e, CSatisfy tr' e' => trset_eqb tr tr' && eclass_eqb e e'
  | CVecClone tr b0, CVecClone tr' b' => trset_eqb tr tr' && back_eqb b0 b'
  | CResizable b0, CResizable b' => back_eqb b0 b'
  | CSizeable b0, CSizeable b' => back_eqb b0 b'
  | _, _ => false
  end.

Definition lookup (t : list (cell * bool)) (c : cell) : option bool :=
  match find (fun p => cell_eqb (fst p) c) t with Some p => Some (snd p) | None => None end.

(** The table decides the property: every cell of the domain has a verdict, and the
    verdict obeys the rule. *)
Definition table_ok (t : list (cell * bool)) : bool :=
  forallb (fun c => match lookup t c with Some v => rule c v | None => false end) domain.

Lemma table_ok_sound t :
  table_ok t = true ->
  forall c, In c domain -> exists v, lookup t c = Some v /\ rule c v = true.
Proof.
  unfold table_ok. intros H c Hin. rewrite forallb_forall in H. specialize (H c Hin).
  destruct (lookup t c) as [v|]; [exists v; split; [reflexivity | exact H] | discriminate].
Qed.

(** What the rule means, spelled out for the central cases. *)
Lemma rule_vec_iff tr b v :
  rule (CErased KAnyVec tr b ASend) v = true <-> (v = true <-> vec_send tr b = true).
Proof. unfold rule; cbn. destruct v, (vec_send tr b); cbn; intuition congruence. Qed.
Lemma rule_shared_only_when k tr b a :
  access_of k = Shared -> rule (CErased k tr b a) true = true -> vec_sync tr b = true.
Proof. unfold rule. intros ->. destruct a; cbn; intros H; exact H. Qed.
Lemma rule_exclusive_send_only_when k tr b :
  access_of k = Exclusive -> rule (CErased k tr b ASend) true = true -> vec_send tr b = true.
Proof. unfold rule. intros ->. cbn. intros H; exact H. Qed.
Lemma rule_satisfy tr e v :
  rule (CSatisfy tr e) v = true ->
  (v = true <-> ((t_clone tr = true -> e_clone e = true) /\ (t_send tr = true -> c_send (e_caps e) = true)
                 /\ (t_sync tr = true -> c_sync (e_caps e) = true))).
Proof.
  unfold rule, implb'. destruct v, (t_clone tr), (e_clone e), (t_send tr), (c_send (e_caps e)),
    (t_sync tr), (c_sync (e_caps e)); cbn; intuition congruence.
Qed.

Lemma domain_size : length domain = 4936.
Proof. vm_compute. reflexivity. Qed.
