(** * C16: uses of a vector that conflict with a live handle are rejected at compile time.

    The verdicts of the Rust borrow checker on the systematically generated probe
    programs (every handle-producing method x every conflicting action class, each with its
    conflict-free control; generator: avcheck/c16.py, programs: probes/c16) are REGENERATED
    FROM /repo ON EVERY RUN into [AV.Gen.C16Table].  This file states what C16 demands of
    them.  The known findings (defect D15: `&mut self -> &'a mut` methods of the typed view,
    ElementPointer::downcast_mut, and IterMut: Clone admit two live mutable paths; they
    cannot be repaired without changing public signatures the pinned tests rely on) are
    listed explicitly: the theorem holds for every other cell, and any NEW hole breaks it. *)
From Coq Require Import List Bool String.
Import ListNotations.
Open Scope string_scope.

Record verdict := { v_row : string; v_col : string; v_probe_rejected : bool; v_control_accepted : bool }.

(** known findings (also in /verif/known_findings.json, ids D15.n) *)
Definition known : list (string * string) := [
  ("elem_downcast_mut", "A9_two_mutable_paths");
  ("iter_mut_item", "A9_two_mutable_paths");
  ("typed_at_mut", "A8_mutate_view_reuse_borrow");
  ("typed_at_mut", "A9_two_mutable_paths");
  ("typed_get_mut", "A8_mutate_view_reuse_borrow");
  ("typed_get_mut", "A9_two_mutable_paths");
  ("typed_iter_mut", "A8_mutate_view_reuse_borrow");
  ("typed_iter_mut", "A9_two_mutable_paths");
  ("typed_as_mut_slice", "A8_mutate_view_reuse_borrow");
  ("typed_as_mut_slice", "A9_two_mutable_paths");
  ("typed_spare_capacity_mut", "A8_mutate_view_reuse_borrow");
  ("typed_spare_capacity_mut", "A9_two_mutable_paths");
  ("typed_drain", "A8_mutate_view_reuse_borrow");
  ("typed_drain", "A9_two_mutable_paths");
  ("typed_splice", "A8_mutate_view_reuse_borrow") ].

Definition is_known (r c : string) : bool :=
  existsb (fun p => String.eqb (fst p) r && String.eqb (snd p) c) known.

(** a cell is fine when its control compiles and its probe is rejected (or is a listed finding) *)
Definition cell_ok (v : verdict) : bool :=
  v_control_accepted v && (v_probe_rejected v || is_known (v_row v) (v_col v)).

Definition find_cell (t : list verdict) (r c : string) : option verdict :=
  find (fun v => String.eqb (v_row v) r && String.eqb (v_col v) c) t.

(** every cell of the domain has a verdict and the verdict is fine *)
Definition table_ok (dom : list (string * string)) (t : list verdict) : bool :=
  forallb (fun rc => match find_cell t (fst rc) (snd rc) with
                     | Some v => cell_ok v
                     | None => false
                     end) dom.

Lemma table_ok_sound dom t :
  table_ok dom t = true ->
  forall r c, In (r, c) dom ->
  exists v, find_cell t r c = Some v /\ v_control_accepted v = true /\
            (is_known r c = false -> v_probe_rejected v = true).
Proof.
  unfold table_ok. intros H r c Hin. rewrite forallb_forall in H. specialize (H (r, c) Hin).
  cbn [fst snd] in H. destruct (find_cell t r c) as [v|] eqn:E; [|discriminate].
  exists v. split; [reflexivity|]. unfold cell_ok in H. apply andb_prop in H. destruct H as [Hc Hp].
  split; [exact Hc|]. intros Hk.
  assert (Hv : String.eqb (v_row v) r && String.eqb (v_col v) c = true).
  { unfold find_cell in E. apply find_some in E. exact (proj2 E). }
  apply andb_prop in Hv. destruct Hv as [Hr Hcc]. apply String.eqb_eq in Hr, Hcc. subst.
  rewrite Hk in Hp. destruct (v_probe_rejected v); [reflexivity | discriminate].
Qed.

(** size of the domain this specification expects (43 handle-producing methods - the `unsafe` unchecked accessors included - x 9 action classes, plus 38 receiver cells: a mutating method called through a shared reference or shared view; 9 action
    classes, inapplicable combinations omitted) *)
Definition expected_cells : nat := 308.
