(** * The specification: std::vec::Vec<T> as operations on lists of element tokens.
    Short enough to read in minutes; the harness-side correspondence compares the
    implementation (and hence, transitively, this file) with the real Vec. *)
From Coq Require Import List NArith Arith.
Import ListNotations.

Section Spec.
Context {A : Type}.

(** [Vec::push] *)
Definition sp_push (x : A) (l : list A) : list A := l ++ [x].
(** [Vec::insert(i, x)], defined for [i <= len] (panics otherwise) *)
Definition sp_insert (i : nat) (x : A) (l : list A) : list A := firstn i l ++ x :: skipn i l.
(** [Vec::pop] *)
Definition sp_pop (l : list A) : option (A * list A) :=
  match rev l with [] => None | x :: r => Some (x, rev r) end.
(** [Vec::remove(i)], defined for [i < len]: removed value and rest *)
Definition sp_remove (i : nat) (l : list A) : list A := firstn i l ++ skipn (S i) l.
(** [Vec::swap_remove(i)], defined for [i < len]: the last element takes the place *)
Definition sp_swap_remove (i : nat) (l : list A) : list A :=
  match rev l with
  | [] => []
  | lastx :: _ =>
      if Nat.eqb (S i) (length l) then removelast l
      else firstn i l ++ lastx :: skipn (S i) (removelast l)
  end.
(** [Vec::drain(s..e)], defined for [s <= e <= len] *)
Definition sp_drained (s e : nat) (l : list A) : list A := firstn (e - s) (skipn s l).
Definition sp_drain (s e : nat) (l : list A) : list A := firstn s l ++ skipn e l.
(** [Vec::splice(s..e, r)] *)
Definition sp_splice (s e : nat) (r : list A) (l : list A) : list A := firstn s l ++ r ++ skipn e l.
Definition sp_clear (l : list A) : list A := [].
End Spec.

(** [RangeBounds] normalisation with the panics std documents:
    [None] = panic (start > end, end > len, or a bound + 1 not representable). *)
Inductive sbound := SUnbounded | SIncluded (i : N) | SExcluded (i : N).
Definition range_of_bounds (usize_max len : N) (sb eb : sbound) : option (N * N) :=
  let start := match sb with
               | SIncluded i => Some i
               | SExcluded i => if N.leb (i + 1) usize_max then Some (i + 1)%N else None
               | SUnbounded => Some 0%N
               end in
  let end_ := match eb with
              | SIncluded i => if N.leb (i + 1) usize_max then Some (i + 1)%N else None
              | SExcluded i => Some i
              | SUnbounded => Some len
              end in
  match start, end_ with
  | Some s, Some e => if andb (N.leb s e) (N.leb e len) then Some (s, e) else None
  | _, _ => None
  end.
