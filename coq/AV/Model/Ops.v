(** * Deferred operations: removal handles, the iterator cursor, drain and splice.

    Small steps: creating the handle ([*_new], which lowers [len]), using it, and
    finishing it ([consume] / [drop]); "forget" is simply not calling the last step.
    So the state *while a handle is alive* exists in the model. *)
From AV.Model Require Import Base Bytes Vec.

(** ** Pop / Remove / SwapRemove ([ops/pop.rs], [remove.rs], [swap_remove.rs], [temp.rs]) *)

Inductive tkind := TPop | TRemove | TSwapRemove.
Record temp := { tk : tkind; tindex : N; tlast : N; telem : eptr }.

(** [Operation::new] *)
Definition temp_new (c : cfg) (k : tkind) (index : N) : M st temp :=
  do v <- getv;
  match k with
  | TPop =>
      assert_ (negb (c_trap c) || (0 <? vlen v)) PAssert;;
      do l <- of_ovf (usub (c_trap c) (vlen v) 1);
      setv (with_len l);;
      ret {| tk := TPop; tindex := l; tlast := l; telem := ptr_at c v l |}
  | TRemove =>
      do l <- of_ovf (usub (c_trap c) (vlen v) 1);
      setv (with_len index);;
      ret {| tk := TRemove; tindex := index; tlast := l; telem := ptr_at c v index |}
  | TSwapRemove =>
      (* the element pointer is computed here and cached *)
      do l <- of_ovf (usub (c_trap c) (vlen v) 1);
      setv (with_len index);;
      ret {| tk := TSwapRemove; tindex := index; tlast := l; telem := ptr_at c v index |}
  end.

(** [Operation::bytes]: Pop and Remove recompute the address from the vector,
    SwapRemove uses the cached pointer. *)
Definition temp_ptr (c : cfg) (h : temp) : M st eptr :=
  do v <- getv;
  match tk h with
  | TPop => ret (ptr_at c v (vlen v))
  | TRemove => ret (ptr_at c v (tindex h))
  | TSwapRemove => ret (telem h)
  end.

Definition temp_bytes (c : cfg) (h : temp) : M st mem :=
  do p <- temp_ptr c h; read_ptr c p.

(** [Operation::consume]: called after the value has left. *)
Definition temp_consume (c : cfg) (known : bool) (h : temp) : M st unit :=
  match tk h with
  | TPop => ret tt
  | TRemove =>
      (* shift everything left *)
      let dst := bo c (tindex h) in
      shift c known (dst + szn c)%nat dst (N.to_nat (c_sz c * (tlast h - tindex h)));;
      setv (with_len (tlast h))
  | TSwapRemove =>
      do v <- getv;
      (if negb (pgen (telem h) =? vgen v) then fault_ FStale else ret tt);;
      let last_off := bo c (tlast h) in
      (if (poff (telem h) =? last_off)%nat then ret tt
       else
         (* copy_nonoverlapping_value: one element, last -> hole *)
         check_range c last_off (szn c);;
         check_range c (poff (telem h)) (szn c);;
         setv (fun v => with_mem
                 (mwrite (poff (telem h)) (msub last_off (szn c) (vmem v)) (vmem v)) v));;
      setv (with_len (tlast h))
  end.

(** [TempValue::drop]: destroy the element (erased arm: through [drop_fn] if any;
    typed arm: [drop_in_place::<T>] - both run the destructor iff the type has drop
    glue), then [consume].  A panicking destructor skips [consume]. *)
Definition temp_drop (c : cfg) (known : bool) (h : temp) : M st unit :=
  do p <- temp_ptr c h;
  (if c_dg c then
     do v <- getv;
     (if negb (pgen p =? vgen v) then fault_ FStale else ret tt);;
     drop_at c (poff p)
   else ret tt);;
  temp_consume c known h.

(** ** The cursor pair of [iter::Iter] *)

Record cursor := { ci : N; ce : N }.
Definition cur_next (k : cursor) : option N * cursor :=
  if ci k =? ce k then (None, k)
  else (Some (ci k), {| ci := ci k + 1; ce := ce k |}).
Definition cur_next_back (k : cursor) : option N * cursor :=
  if ce k =? ci k then (None, k)
  else (Some (ce k - 1), {| ci := ci k; ce := ce k - 1 |}).
(** [size_hint] / [len]: [end - index]. *)
Definition cur_len (k : cursor) : N := ce k - ci k.

(** ** into_range ([lib.rs]) *)

Inductive bound := BUnbounded | BIncluded (i : N) | BExcluded (i : N).

Definition into_range (len : N) (sb eb : bound) : M st (N * N) :=
  do start <- match sb with
              | BIncluded i => ret i
              | BExcluded i => of_opt (checked_add i 1) POverflow
              | BUnbounded => ret 0
              end;
  do end_ <- match eb with
             | BIncluded i => of_opt (checked_add i 1) POverflow
             | BExcluded i => ret i
             | BUnbounded => ret len
             end;
  assert_ (start <=? end_) PRange;;
  assert_ (end_ <=? len) PRange;;
  ret (start, end_).

(** ** Drain / Splice ([ops/drain.rs], [ops/splice.rs], [any_vec_ptr.rs utils]) *)

Record drain := { dcur : cursor; dstart : N; dend : N; dorig : N }.

Definition drain_new (c : cfg) (s e : N) : M st drain :=
  do v <- getv;
  assert_ (negb (c_trap c) || (s <=? e)) PAssert;;
  assert_ (negb (c_trap c) || (e <=? vlen v)) PAssert;;
  setv (with_len s);;
  ret {| dcur := {| ci := s; ce := e |}; dstart := s; dend := e; dorig := vlen v |}.

(** [utils::drop_elements_range] *)
Definition drop_range (c : cfg) (known : bool) (s e : N) : M st unit :=
  assert_ (negb (c_trap c) || (s <=? e)) PAssert;;
  if c_dg c then
    if known then drop_slice c (bo c s) (N.to_nat (e - s))
    else drop_loop c (bo c s) (N.to_nat (e - s))
  else ret tt.

(** [utils::move_elements_at]: [ptr::copy] in both arms. *)
Definition move_elements (c : cfg) (src dst n : N) : M st unit :=
  shift c true (bo c src) (bo c dst) (N.to_nat (c_sz c * n)).

Definition drain_drop (c : cfg) (known : bool) (d : drain) : M st unit :=
  (* 1. drop the rest of the elements *)
  drop_range c known (ci (dcur d)) (ce (dcur d));;
  (* 2. mem move *)
  move_elements c (dend d) (dstart d) (dorig d - dend d);;
  (* 3. len *)
  setv (with_len (dorig d - (dend d - dstart d))).

(** One replacement item as [Splice::drop] step 3 sees it. *)
Record ritem := {
  r_ty : N;                 (* value_typeid() *)
  r_src : vsrc;             (* what move_into does *)
  r_owned : option N        (* Some t: dropping the item instead destroys value t *)
}.

(** Dropping an unconsumed replacement item (owning wrapper: runs the destructor;
    the destructor of a value outside any vector never consults vector memory). *)
Definition drop_item (c : cfg) (it : ritem) : M st unit :=
  match r_owned it with
  | Some t => if c_dg c then emitv (EDrop t);; user_call else ret tt
  | None => ret tt
  end.
Fixpoint drop_items (c : cfg) (its : list ritem) : M st unit :=
  match its with
  | [] => ret tt
  | it :: r =>
      fun s => match drop_item c it s with
               | Ok _ s' => drop_items c r s'
               | Panic p s' =>
                   match quiet_st (drop_items c r) s' with
                   | Ok _ s'' => Panic p s''
                   | Panic _ _ => Fault FAbort
                   | Fault f => Fault f
                   end
               | Fault f => Fault f
               end
  end.

(** Step 3 loop: returns (items written, items not yet pulled from the iterator). *)
Fixpoint splice_fill (c : cfg) (off : nat) (budget : nat) (written : N)
         (its : list ritem) : M st (N * list ritem) :=
  match budget with
  | O => ret (written, its)
  | S b =>
      (* replace_with.next() is user code *)
      emitv ENext;;
      unwinding_st user_call (drop_items c its);;
      match its with
      | [] => ret (written, [])
      | it :: rest =>
          (* the item in hand is dropped if the check or the move panics; the
             iterator (rest) is dropped when Splice's fields are *)
          unwinding_st
            (unwinding_st
               (assert_ (r_ty it =? c_ty c) PType)
               (drop_item c it);;
             write_value c off (r_src it))
            (drop_items c rest);;
          splice_fill c (off + szn c)%nat b (written + 1) rest
      end
  end.

(** Steps 0-2 of [Splice::drop]; returns [replace_end]. *)
Definition splice_prep (c : cfg) (known : bool) (d : drain) (claimed : N) : M st N :=
  let start := dstart d in
  let elements_left := dorig d - dend d in
  do replace_end <- of_ovf (checked_add start claimed);
  do new_len <- of_ovf (checked_add replace_end elements_left);
  (* 0. capacity (len == start here) *)
  reserve c (new_len - start);;
  (* 1. drop elements *)
  drop_range c known (ci (dcur d)) (ce (dcur d));;
  (* 2. move elements *)
  move_elements c (dend d) replace_end elements_left;;
  ret replace_end.

Definition splice_drop (c : cfg) (known : bool) (d : drain)
           (claimed : N) (its : list ritem) : M st unit :=
  let start := dstart d in
  let elements_left := dorig d - dend d in
  do replace_end <- unwinding_st (splice_prep c known d claimed) (drop_items c its);
  (* 3. move replace_with in; never more than reserved *)
  do wr <- splice_fill c (bo c start) (N.to_nat claimed) 0 its;
  let '(written, rest) := wr in
  (* fewer items than promised: close the gap *)
  (if written <? claimed
   then unwinding_st (move_elements c replace_end (start + written) elements_left)
                     (drop_items c rest)
   else ret tt);;
  (* 4. restore len *)
  setv (with_len (start + written + elements_left));;
  (* Splice's fields are dropped: what the iterator still holds is destroyed *)
  drop_items c rest.
