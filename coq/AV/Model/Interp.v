(** * The world and the case language.

    A world is a list of vectors (all of one element type / constraint set, as in the
    harness) plus the user world.  An [op] is one script step of a case file; [exec]
    gives its meaning by composing the small steps of [Vec] and [Ops] exactly as the
    harness composes the crate's API calls (harness/src/interp.rs). *)
From AV.Model Require Import Base Bytes Vec Ops.

Record world := { wv : list (option vec); wuw : uw }.

Fixpoint set_nth {A} (n : nat) (x : A) (d : A) (l : list A) : list A :=
  match n, l with
  | O, [] => [x]
  | O, _ :: r => x :: r
  | S k, [] => d :: set_nth k x d []
  | S k, y :: r => y :: set_nth k x d r
  end.

Definition get_vec (vid : nat) (w : world) : option vec :=
  match nth_error (wv w) vid with Some (Some v) => Some v | _ => None end.
Definition put_vec (vid : nat) (o : option vec) (u : uw) (w : world) : world :=
  {| wv := set_nth vid o None (wv w); wuw := u |}.

(** Run a vector-level computation on vector [vid] of the world. *)
Definition on_vec {A} (vid : nat) (m : M st A) : M world A :=
  fun w => match get_vec vid w with
           | Some v =>
               match m (v, wuw w) with
               | Ok a (v', u') => Ok a (put_vec vid (Some v') u' w)
               | Panic p (v', u') => Panic p (put_vec vid (Some v') u' w)
               | Fault f => Fault f
               end
           | None => Panic PAssert w   (* ill-formed script: the harness panics too *)
           end.
Definition peek_vec (vid : nat) : M world vec :=
  fun w => match get_vec vid w with Some v => Ok v w | None => Panic PAssert w end.

(** User code called while a panic is already unwinding never consults the fuse
    (the harness's element types check [std::thread::panicking()]). *)
Definition quiet {A} (m : M world A) : M world A :=
  fun w =>
    let f := ufuse (wuw w) in
    let restore (w' : world) :=
      {| wv := wv w';
         wuw := {| ulog := ulog (wuw w'); unext := unext (wuw w'); ufuse := f |} |} in
    match m {| wv := wv w; wuw := disarm (wuw w) |} with
    | Ok a w' => Ok a (restore w')
    | Panic p w' => Panic p (restore w')
    | Fault f0 => Fault f0
    end.
Definition unwinding {A} (m : M world A) (cleanup : M world unit) : M world A :=
  on_unwind m (quiet cleanup).

Definition emitw (e : event) : M world unit :=
  fun w => Ok tt {| wv := wv w; wuw := emit e (wuw w) |}.
Definition freshw (c : cfg) : M world N :=
  fun w => let u := wuw w in
           let t := if c_sz c =? 0 then 0 else unext u in
           Ok t {| wv := wv w;
                   wuw := {| ulog := ulog u; unext := unext u + 1; ufuse := ufuse u |} |}.
(** A value destroyed by the harness's own frame (never consults the fuse). *)
Definition harness_drop (c : cfg) (t : N) : M world unit :=
  if c_dg c then emitw (EDrop t) else ret tt.
Definition decode (c : cfg) (bs : mem) : M world N :=
  match dec (szn c) bs with Some t => ret t | None => fault_ FDecode end.

(** ** The case language *)

Inductive api := Erased | Typed.

Inductive src :=
| SWrap                                  (* AnyValueWrapper<T> of a fresh value / typed push(value) *)
| SBox                                   (* harness-defined owning AnyValue with Type = Unknown *)
| SRaw                                   (* AnyValueRaw of a fresh value (reclaimed on panic) *)
| SRawT                                  (* AnyValueTypelessRaw via *_unchecked *)
| SRawS                                  (* AnyValueSizelessRaw via *_unchecked *)
| SWrong (k : N)                         (* AnyValueWrapper of another type, type id k *)
| SBoxWrong (k : N)                      (* owning erased value reporting type id k *)
| SLazy (depth : N) (vid : nat) (idx : N)          (* vecs[vid].at(idx).lazy_clone()^depth *)
| STemp (vid : nat) (k : tkind) (idx : N)          (* removal handle of another vector *)
| SLazyUser (depth : N).                 (* user_value.lazy_clone()^depth where user_value is a user-defined
                                            AnyValueCloneable + AnyValue with the CONCRETE [Type] = the element
                                            type (so LazyClone's Type is known too), owning a fresh value *)

Inductive sink :=
| KDrop
| KDown                                  (* downcast::<T>(), value then dropped by the caller *)
| KPush (vid : nat)
| KIns (vid : nat) (idx : N)
| KForget
| KMut (k : sink)                        (* replace the value through the handle first *)
| KLazy (n : N) (vid : nat) (k : sink)   (* push n lazy clones of it into vid first *)
| KLazyDown (n : N) (k : sink)           (* n times lazy_clone().downcast::<T>() (values then dropped) first *)
| KSkip.                                 (* an item passed over by Iterator::nth / nth_back / skip / step_by: destroyed like a
                                            dropped item, and the call is not reported (the caller never sees it) *)

Inductive iterkind := IRef | IMut | ITypedRef | ITypedMut.
Inductive fin := FinDrop | FinForget.
Inductive rkind :=
| RWrap | RBox | RLazy (vid : nat).

Inductive op :=
| ONew (dst : nat) (bk : bkind)
| OWithCapacity (dst : nat) (bk : bkind) (n : N)
| ODropVec (v : nat)
| OPush (a : api) (v : nat) (s : src)
| OInsert (a : api) (v : nat) (idx : N) (s : src)
| OPop (a : api) (v : nat) (k : sink)
| ORemove (a : api) (v : nat) (idx : N) (k : sink)
| OSwapRemove (a : api) (v : nat) (idx : N) (k : sink)
| OClear (a : api) (v : nat)
| OGet (a : api) (v : nat) (idx : N)
| OAt (a : api) (v : nat) (idx : N)
| OIter (ik : iterkind) (v : nat) (pat : list bool)
| ODrain (a : api) (v : nat) (sb eb : bound) (pat : list (bool * sink)) (f : fin)
| OSplice (a : api) (v : nat) (sb eb : bound) (pat : list (bool * sink)) (f : fin)
          (rk : rkind) (n : N) (wrong_at : option N) (claimed : N)
| OClone (v dst : nat)
| OCloneEmpty (v dst : nat)
| OCloneEmptyIn (v dst : nat) (bk : bkind)
| OReserve (v : nat) (n : N)
| OReserveExact (v : nat) (n : N)
| OShrinkToFit (v : nat)
| OShrinkTo (v : nat) (n : N)
| OViews (v : nat)
| OSpareWrite (a : api) (v : nat) (k : N)
| OSetLen (v : nat) (n : N)
| OIterClone (ik : iterkind) (v : nat) (pat1 pat2 : list bool)   (* advance, clone, advance both *)
| OProbeTypes (v : nat) (idx : N)                (* downcasts / reports with the right and a wrong type *)
| ODownWrong (v : nat) (k : tkind) (idx : N)     (* removal handle .downcast::<Wrong>() *)
| OSwapWrong (v : nat) (idx : N)                 (* element swap with a value of another type *)
| OWrite (hk : N) (v : nat) (idx : N)            (* replace element idx through handle kind hk *)
| ORead (hk : N) (v : nat) (idx : N)             (* read element idx through view kind hk *)
| OSwap (pr : N) (v1 : nat) (i : N) (v2 : nat) (j : N)   (* AnyValueMut::swap between handle kinds *)
| OParts (v : nat) (mode : N)                    (* into_raw_parts / clone / from_raw_parts *)
| OPlacement                                     (* storage alignment over all placements of the vector *)
| OIterNth (ik : iterkind) (v : nat) (pat : list (bool * N))   (* Iterator::nth / nth_back calls *)
| OLazyDown (depth : N) (v : nat) (idx : N)      (* vecs[v].at(idx).lazy_clone()^depth .downcast::<T>() *)
| OCloneIn (v : nat) (bk : bkind) (k : N)        (* let mut c = vecs[v].clone_empty_in(<bk>); k pushes of fresh values; read back;
                                                    c.clone() dropped (Cloneable only); pop() dropped; c dropped - the clone lives in
                                                    the caller's frame (its backend type differs from the world's) *)
| OCursorMax (a : api) (pat : list bool).        (* drain(usize::MAX-3..) of a zero-sized-element vector of length
                                                    usize::MAX, consumed by pat, then leaked: the cursor at the very
                                                    end of the index space *)

(** ** Offering a value to push / insert *)

Inductive odrop :=
| DNone                        (* raw pointer wrappers, lazy clones: nothing happens *)
| DOwned (t : N)               (* owning wrapper: destructor of value t runs *)
| DReclaim (t : N)             (* raw wrapper: the harness destroys the value after the panic *)
| DTemp (vid : nat) (h : temp) (* removal handle: TempValue::drop on its vector *)
| DElem (vid : nat) (p : eptr) (* drained element: Element::drop *)
| DAfter (t : N).              (* a lazy clone of a user-owned value: that value lives on in the caller's frame
                                  and is destroyed there afterwards, whether the offer was taken or refused *)

Record offer := { f_ty : N; f_src : vsrc; f_checked : bool; f_drop : odrop }.

(** [Element::drop] (drained item not consumed): [drop_fn(ptr, 1)] if any. *)
Definition elem_drop (c : cfg) (p : eptr) : M st unit :=
  if c_dg c then
    do v <- getv;
    (if negb (pgen p =? vgen v) then fault_ FStale else ret tt);;
    drop_at c (poff p)
  else ret tt.

Definition drop_offer (c : cfg) (o : offer) : M world unit :=
  match f_drop o with
  | DNone => ret tt
  | DOwned t => if c_dg c then emitw (EDrop t) else ret tt
  | DReclaim t => harness_drop c t
  | DTemp vid h => on_vec vid (temp_drop c false h)
  | DElem vid p => on_vec vid (elem_drop c p)
  | DAfter t => harness_drop c t
  end.
(** After a successful [move_into]: a removal handle compacts its vector. *)
Definition finish_offer (c : cfg) (o : offer) : M world unit :=
  match f_drop o with
  | DTemp vid h => on_vec vid (temp_consume c false h)
  | DAfter t => harness_drop c t
  | _ => ret tt
  end.

(** [AnyVec::push] / [insert] ([action] = the unchecked raw operation). *)
Definition offer_into (c : cfg) (v : nat) (o : offer) (action : vsrc -> M st unit)
  : M world unit :=
  unwinding
    ((if f_checked o then assert_ (f_ty o =? c_ty c) PType else ret tt);;
     on_vec v (action (f_src o)))
    (drop_offer c o);;
  finish_offer c o.

Definition enc_c (c : cfg) (t : N) : mem := enc (szn c) t.

(** [vecs[vid].at(idx)] as a source of bytes. *)
Definition elem_bytes (c : cfg) (vid : nat) (idx : N) : M world mem :=
  do v <- peek_vec vid;
  assert_ (idx <? vlen v) PIndex;;
  on_vec vid (read_ptr c (ptr_at c v idx)).

(** [AnyVec::pop/remove/swap_remove] up to the creation of the handle;
    [None] = pop on an empty vector. *)
Definition temp_open (c : cfg) (vid : nat) (k : tkind) (idx : N) : M world (option temp) :=
  do v <- peek_vec vid;
  match k with
  | TPop =>
      if vlen v =? 0 then ret None
      else do h <- on_vec vid (temp_new c TPop 0); ret (Some h)
  | _ =>
      assert_ (idx <? vlen v) PIndex;;
      do h <- on_vec vid (temp_new c k idx); ret (Some h)
  end.

Definition make_offer (c : cfg) (s : src) : M world offer :=
  match s with
  | SWrap => do t <- freshw c;
             ret {| f_ty := c_ty c; f_src := VBytes (enc_c c t) true;
                    f_checked := true; f_drop := DOwned t |}
  | SBox => do t <- freshw c;
            ret {| f_ty := c_ty c; f_src := VBytes (enc_c c t) false;
                   f_checked := true; f_drop := DOwned t |}
  | SRaw => do t <- freshw c;
            ret {| f_ty := c_ty c; f_src := VBytes (enc_c c t) false;
                   f_checked := true; f_drop := DReclaim t |}
  | SRawT | SRawS =>
            do t <- freshw c;
            ret {| f_ty := c_ty c; f_src := VBytes (enc_c c t) false;
                   f_checked := false; f_drop := DReclaim t |}
  | SWrong k => do t <- freshw c;
                ret {| f_ty := k; f_src := VBytes (enc_c c t) true;
                       f_checked := true; f_drop := DOwned t |}
  | SBoxWrong k => do t <- freshw c;
                   ret {| f_ty := k; f_src := VBytes (enc_c c t) false;
                          f_checked := true; f_drop := DOwned t |}
  | SLazy _ vid idx =>
      do bs <- elem_bytes c vid idx;
      ret {| f_ty := c_ty c; f_src := VClone bs false; f_checked := true; f_drop := DNone |}
  | STemp vid k idx =>
      do oh <- temp_open c vid k idx;
      match oh with
      | None => raise PIndex            (* harness: pop().unwrap() *)
      | Some h =>
          do bs <- on_vec vid (temp_bytes c h);
          ret {| f_ty := c_ty c; f_src := VBytes bs false; f_checked := true;
                 f_drop := DTemp vid h |}
      end
  | SLazyUser _ =>
      do t <- freshw c;
      ret {| f_ty := c_ty c; f_src := VClone (enc_c c t) true; f_checked := true; f_drop := DAfter t |}
  end.

(** ** Sinks of a removal handle *)

Fixpoint repeat_m {S} (n : nat) (m : M S unit) : M S unit :=
  match n with O => ret tt | S k => m;; repeat_m k m end.

(** [lazy.downcast::<T>()]: the source bytes are cloned into a temporary (user [Clone], fuse first),
    the value is returned and later destroyed by the caller. *)
Definition lazy_down (c : cfg) (v : nat) (bs : mem) : M world N :=
  do t <- decode c bs;
  on_vec v user_call;;
  do n <- freshw c;
  emitw (EClone t n);;
  harness_drop c n;;
  ret n.
Fixpoint lazy_downs (c : cfg) (v : nat) (n : nat) (get : M world mem) : M world (list N) :=
  match n with
  | O => ret []
  | S k => do bs <- get; do x <- lazy_down c v bs; do r <- lazy_downs c v k get; ret (x :: r)
  end.

Fixpoint apply_sink (c : cfg) (v : nat) (known : bool) (h : temp) (k : sink)
  : M world (list N) :=
  match k with
  | KDrop => on_vec v (temp_drop c known h);; ret []
  | KDown =>
      do bs <- on_vec v (temp_bytes c h);
      do t <- decode c bs;
      on_vec v (temp_consume c known h);;
      harness_drop c t;;
      ret [t]
  | KPush dst =>
      do bs <- on_vec v (temp_bytes c h);
      offer_into c dst {| f_ty := c_ty c; f_src := VBytes bs false; f_checked := true;
                          f_drop := DTemp v h |} (push_unchecked c);;
      ret []
  | KIns dst idx =>
      do bs <- on_vec v (temp_bytes c h);
      offer_into c dst {| f_ty := c_ty c; f_src := VBytes bs false; f_checked := true;
                          f_drop := DTemp v h |} (insert_unchecked c idx);;
      ret []
  | KForget => ret []
  | KMut k' =>
      do p <- on_vec v (temp_ptr c h);
      do bs <- on_vec v (read_ptr c p);
      do t <- decode c bs;
      do n <- freshw c;
      on_vec v (write_ptr c p (enc_c c n));;
      harness_drop c t;;
      do r <- apply_sink c v known h k';
      ret (t :: r)
  | KLazy n dst k' =>
      unwinding
        (repeat_m (N.to_nat n)
           (do bs <- on_vec v (temp_bytes c h);
            offer_into c dst {| f_ty := c_ty c; f_src := VClone bs false;
                                f_checked := true; f_drop := DNone |} (push_unchecked c)))
        (on_vec v (temp_drop c known h));;
      apply_sink c v known h k'
  | KLazyDown n k' =>
      do xs <- unwinding (lazy_downs c v (N.to_nat n) (on_vec v (temp_bytes c h)))
                         (on_vec v (temp_drop c known h));
      do r <- apply_sink c v known h k';
      ret (xs ++ r)
  | KSkip => on_vec v (temp_drop c known h);; ret []
  end.

(** ** Items of an iterator *)

Definition item_ptr (c : cfg) (v : nat) (idx : N) : M world eptr :=
  do vv <- peek_vec v; ret (ptr_at c vv idx).

(** What happens to a drained [Element] (erased) / value (typed). *)
Fixpoint item_sink (c : cfg) (v : nat) (a : api) (p : eptr) (k : sink) : M world (list N) :=
  match k with
  | KDrop =>
      match a with
      | Erased => on_vec v (elem_drop c p);; ret []
      | Typed => do bs <- on_vec v (read_ptr c p); do t <- decode c bs;
                 harness_drop c t;; ret []
      end
  | KDown =>
      do bs <- on_vec v (read_ptr c p); do t <- decode c bs;
      harness_drop c t;; ret [t]
  | KPush dst =>
      do bs <- on_vec v (read_ptr c p);
      match a with
      | Erased =>
          offer_into c dst {| f_ty := c_ty c; f_src := VBytes bs false; f_checked := true;
                              f_drop := DElem v p |} (push_unchecked c)
      | Typed =>
          do t <- decode c bs;
          offer_into c dst {| f_ty := c_ty c; f_src := VBytes bs true; f_checked := false;
                              f_drop := DOwned t |} (push_unchecked c)
      end;;
      ret []
  | KIns dst idx =>
      do bs <- on_vec v (read_ptr c p);
      match a with
      | Erased =>
          offer_into c dst {| f_ty := c_ty c; f_src := VBytes bs false; f_checked := true;
                              f_drop := DElem v p |} (insert_unchecked c idx)
      | Typed =>
          do t <- decode c bs;
          offer_into c dst {| f_ty := c_ty c; f_src := VBytes bs true; f_checked := false;
                              f_drop := DOwned t |} (insert_unchecked c idx)
      end;;
      ret []
  | KForget => ret []
  | KMut k' =>
      do bs <- on_vec v (read_ptr c p);
      do t <- decode c bs;
      do n <- freshw c;
      on_vec v (write_ptr c p (enc_c c n));;
      harness_drop c t;;
      do r <- item_sink c v a p k';
      ret (t :: r)
  | KLazy n dst k' =>
      unwinding
        (repeat_m (N.to_nat n)
           (do bs <- on_vec v (read_ptr c p);
            offer_into c dst {| f_ty := c_ty c; f_src := VClone bs false;
                                f_checked := true; f_drop := DNone |} (push_unchecked c)))
        (on_vec v (elem_drop c p));;
      item_sink c v a p k'
  | KLazyDown n k' =>
      do xs <- unwinding (lazy_downs c v (N.to_nat n) (on_vec v (read_ptr c p)))
                         (on_vec v (elem_drop c p));
      do r <- item_sink c v a p k';
      ret (xs ++ r)
  | KSkip =>
      match a with
      | Erased => on_vec v (elem_drop c p);; ret []
      | Typed => do bs <- on_vec v (read_ptr c p); do t <- decode c bs;
                 harness_drop c t;; ret []
      end
  end.

(** Walk a consumption pattern over a cursor.  Each call reports
    [flag; token; size_hint after the call].  [cleanup k] is what dropping the
    iterator does when a sink unwinds with the cursor at [k]. *)
Fixpoint walk (c : cfg) (v : nat) (a : api) (cleanup : cursor -> M world unit)
         (pat : list (bool * sink)) (k : cursor) : M world (list N * cursor) :=
  match pat with
  | [] => ret ([], k)
  | (front, s) :: rest =>
      let '(oi, k') := if front then cur_next k else cur_next_back k in
      match oi with
      | None =>
          do r <- walk c v a cleanup rest k';
          ret (match s with KSkip => fst r | _ => 0 :: 0 :: cur_len k' :: fst r end, snd r)
      | Some idx =>
          do p <- item_ptr c v idx;
          do bs <- on_vec v (read_ptr c p);
          do t <- decode c bs;
          do out <- unwinding (item_sink c v a p s) (cleanup k');
          do r <- walk c v a cleanup rest k';
          ret (match s with KSkip => fst r | _ => 1 :: t :: cur_len k' :: out ++ fst r end, snd r)
      end
  end.

(** Read-only walk for iter / iter_mut. *)
Fixpoint walk_ro (c : cfg) (v : nat) (pat : list bool) (k : cursor) : M world (list N) :=
  match pat with
  | [] => ret []
  | front :: rest =>
      let '(oi, k') := if front then cur_next k else cur_next_back k in
      match oi with
      | None => do r <- walk_ro c v rest k'; ret (0 :: 0 :: cur_len k' :: r)
      | Some idx =>
          do bs <- elem_bytes c v idx;
          do t <- decode c bs;
          do r <- walk_ro c v rest k';
          ret (1 :: t :: cur_len k' :: r)
      end
  end.

(** [Iterator::nth(n)] / [DoubleEndedIterator::nth_back(n)]: the crate does not override them, so they
    are std's default - [n] discarded calls of [next] / [next_back], then one more. *)
Fixpoint cur_skip (front : bool) (n : nat) (k : cursor) : cursor :=
  match n with
  | O => k
  | S m => cur_skip front m (snd (if front then cur_next k else cur_next_back k))
  end.
Definition cur_nth (front : bool) (n : N) (k : cursor) : option N * cursor :=
  let k' := cur_skip front (N.to_nat n) k in
  if front then cur_next k' else cur_next_back k'.
Fixpoint walk_nth (c : cfg) (v : nat) (pat : list (bool * N)) (k : cursor) : M world (list N) :=
  match pat with
  | [] => ret []
  | (front, n) :: rest =>
      let '(oi, k') := cur_nth front n k in
      match oi with
      | None => do r <- walk_nth c v rest k'; ret (0 :: 0 :: cur_len k' :: r)
      | Some idx =>
          do bs <- elem_bytes c v idx;
          do t <- decode c bs;
          do r <- walk_nth c v rest k';
          ret (1 :: t :: cur_len k' :: r)
      end
  end.

Definition with_cur (k : cursor) (d : drain) : drain :=
  {| dcur := k; dstart := dstart d; dend := dend d; dorig := dorig d |}.

(** Replacement items of a splice. *)
Fixpoint make_items (c : cfg) (rk : rkind) (n : nat) (i : N) (wrong_at : option N)
  : M world (list ritem) :=
  match n with
  | O => ret []
  | S n' =>
      let ty := match wrong_at with
                | Some j => if j =? i then c_ty c + 1 else c_ty c
                | None => c_ty c
                end in
      do it <- match rk with
               | RWrap => do t <- freshw c;
                          ret {| r_ty := ty; r_src := VBytes (enc_c c t) true; r_owned := Some t |}
               | RBox => do t <- freshw c;
                         ret {| r_ty := ty; r_src := VBytes (enc_c c t) false; r_owned := Some t |}
               | RLazy vid =>
                   do sv <- peek_vec vid;
                   do bs <- elem_bytes c vid (if vlen sv =? 0 then 0 else i mod vlen sv);
                   ret {| r_ty := ty; r_src := VClone bs false; r_owned := None |}
               end;
      do r <- make_items c rk n' (i + 1) wrong_at;
      ret (it :: r)
  end.

Definition known_of (a : api) : bool := match a with Typed => true | Erased => false end.

(** [vecs[n].clone()], the clone dropped at once (the world's vectors are untouched) *)
Definition clone_and_drop (c : cfg) (n : nat) : M world unit :=
  fun w => match get_vec n w with None => Panic PAssert w | Some cv =>
           match clone_vec c cv (cv, wuw w) with
           | Ok _ (cl, u) =>
               match drop_vec c (cl, u) with
               | Ok _ (_, u') => Ok tt {| wv := wv w; wuw := u' |}
               | Panic p (_, u') => Panic p {| wv := wv w; wuw := u' |}
               | Fault f => Fault f
               end
           | Panic p (_, u) => Panic p {| wv := wv w; wuw := u |}
           | Fault f => Fault f
           end end.
(** what the caller does with a vector it obtained from [clone_empty_in], held in scratch slot [n] *)
Definition clone_in_body (c : cfg) (n : nat) (k : N) : M world (list N) :=
  do cv <- peek_vec n;
  repeat_m (N.to_nat k) (do o <- make_offer c SWrap; offer_into c n o (push_unchecked c));;
  do cv2 <- peek_vec n;
  do xs <- match snapshot c cv2 with Some xs => ret xs | None => fault_ FDecode end;
  (if c_cl c then clone_and_drop c n else ret tt);;
  do oh <- temp_open c n TPop 0;
  match oh with Some h => on_vec n (temp_drop c false h) | None => ret tt end;;
  do cv3 <- peek_vec n;
  ret (vlen cv :: vcap cv :: xs ++ [vlen cv3]).

(** ** Meaning of one step: returns (outcome code, returned values).
    outcome 0 = ok, 1 = None. *)
Definition exec (c : cfg) (o : op) : M world (N * list N) :=
  match o with
  | ONew dst bk =>
      fun w => match mem_build c bk ({| vlen := 0; vcap := 0; vmem := []; vgen := 0; vbk := bk |}, wuw w) with
               | Ok _ (v, u) => Ok (0, []) (put_vec dst (Some v) u w)
               | Panic p (_, u) => Panic p {| wv := wv w; wuw := u |}
               | Fault f => Fault f
               end
  | OWithCapacity dst bk n =>
      fun w => match (mem_build c bk;; unwinding_st (mem_resize c n) (mem_drop c))
                       ({| vlen := 0; vcap := 0; vmem := []; vgen := 0; vbk := bk |}, wuw w) with
               | Ok _ (v, u) => Ok (0, []) (put_vec dst (Some v) u w)
               | Panic p (_, u) => Panic p {| wv := wv w; wuw := u |}
               | Fault f => Fault f
               end
  | ODropVec v =>
      fun w => match get_vec v w with None => Panic PAssert w | Some _ =>
               match on_vec v (drop_vec c) w with
               | Ok _ w' => Ok (0, []) (put_vec v None (wuw w') w')
               | Panic p w' => Panic p (put_vec v None (wuw w') w')
               | Fault f => Fault f
               end end
  | OPush a v s =>
      do o <- make_offer c s;
      let o := match a with
               | Typed => {| f_ty := f_ty o; f_src := f_src o; f_checked := false; f_drop := f_drop o |}
               | Erased => o end in
      offer_into c v o (push_unchecked c);; ret (0, [])
  | OInsert a v idx s =>
      do o <- make_offer c s;
      let o := match a with
               | Typed => {| f_ty := f_ty o; f_src := f_src o; f_checked := false; f_drop := f_drop o |}
               | Erased => o end in
      offer_into c v o (insert_unchecked c idx);; ret (0, [])
  | OPop a v k =>
      do oh <- temp_open c v TPop 0;
      match oh with
      | None => ret (1, [])
      | Some h => do r <- apply_sink c v (known_of a) h k; ret (0, r)
      end
  | ORemove a v idx k =>
      do oh <- temp_open c v TRemove idx;
      match oh with
      | None => ret (1, [])
      | Some h => do r <- apply_sink c v (known_of a) h k; ret (0, r)
      end
  | OSwapRemove a v idx k =>
      do oh <- temp_open c v TSwapRemove idx;
      match oh with
      | None => ret (1, [])
      | Some h => do r <- apply_sink c v (known_of a) h k; ret (0, r)
      end
  | OClear _ v => on_vec v (clear c);; ret (0, [])
  | OGet _ v idx =>
      do vv <- peek_vec v;
      match get_ptr c vv idx with
      | None => ret (1, [])
      | Some p => do bs <- on_vec v (read_ptr c p); do t <- decode c bs; ret (0, [t])
      end
  | OAt _ v idx =>
      do bs <- elem_bytes c v idx; do t <- decode c bs; ret (0, [t])
  | OIter _ v pat =>
      do vv <- peek_vec v;
      let k := {| ci := 0; ce := vlen vv |} in
      do r <- walk_ro c v pat k;
      ret (0, cur_len k :: r)
  | ODrain a v sb eb pat f =>
      do vv <- peek_vec v;
      do se <- on_vec v (into_range (vlen vv) sb eb);
      do d <- on_vec v (drain_new c (fst se) (snd se));
      let finish (k : cursor) := on_vec v (drain_drop c (known_of a) (with_cur k d)) in
      do r <- walk c v a finish pat (dcur d);
      match f with
      | FinDrop => finish (snd r)
      | FinForget => ret tt
      end;;
      ret (0, cur_len (dcur d) :: fst r)
  | OSplice a v sb eb pat f rk n wrong_at claimed =>
      do vv <- peek_vec v;
      do items <- make_items c rk (N.to_nat n) 0 wrong_at;
      do se <- unwinding (on_vec v (into_range (vlen vv) sb eb))
                         (on_vec v (drop_items c items));
      do d <- on_vec v (drain_new c (fst se) (snd se));
      let finish (k : cursor) :=
        on_vec v (splice_drop c (known_of a) (with_cur k d) claimed items) in
      do r <- walk c v a finish pat (dcur d);
      match f with
      | FinDrop => finish (snd r)
      | FinForget => ret tt     (* the replacement items are leaked with the iterator *)
      end;;
      ret (0, cur_len (dcur d) :: fst r)
  | OClone v dst =>
      do sv <- peek_vec v;
      fun w => match clone_vec c sv (sv, wuw w) with
               | Ok _ (nv, u) => Ok (0, []) (put_vec dst (Some nv) u w)
               | Panic p (_, u) => Panic p {| wv := wv w; wuw := u |}
               | Fault f => Fault f
               end
  | OCloneEmpty v dst =>
      do sv <- peek_vec v;
      fun w => match mem_build c (vbk sv) (sv, wuw w) with
               | Ok _ (nv, u) => Ok (0, []) (put_vec dst (Some nv) u w)
               | Panic p (_, u) => Panic p {| wv := wv w; wuw := u |}
               | Fault f => Fault f
               end
  | OCloneEmptyIn v dst bk =>
      do sv <- peek_vec v;
      fun w => match mem_build c bk (sv, wuw w) with
               | Ok _ (nv, u) => Ok (0, []) (put_vec dst (Some nv) u w)
               | Panic p (_, u) => Panic p {| wv := wv w; wuw := u |}
               | Fault f => Fault f
               end
  | OReserve v n => on_vec v (reserve c n);; ret (0, [])
  | OReserveExact v n => on_vec v (reserve_exact c n);; ret (0, [])
  | OShrinkToFit v => on_vec v (shrink_to_fit c);; ret (0, [])
  | OShrinkTo v n => on_vec v (shrink_to c n);; ret (0, [])
  | OViews v =>
      do vv <- peek_vec v;
      let l := vlen vv in let cp := vcap vv in let s := c_sz c in
      (* as_bytes (off,len); spare_bytes_mut (off,len); as_slice (off,n);
         spare_capacity_mut (off,n); base mod align *)
      ret (0, [0; l * s; l * s; (cp - l) * s; 0; l; l * s; cp - l; 0])
  | OSpareWrite a v k =>
      do vv <- peek_vec v;
      let fix go (n : nat) (i : N) : M world unit :=
        match n with
        | O => ret tt
        | S n' => do t <- freshw c;
                  on_vec v (write_value c (bo c (vlen vv + i)) (VBytes (enc_c c t) true));;
                  go n' (i + 1)
        end in
      go (N.to_nat k) 0;;
      on_vec v (set_len c (vlen vv + k));;
      ret (0, [])
  | OSetLen v n => on_vec v (set_len c n);; ret (0, [])
  | OIterClone _ v pat1 pat2 =>
      do vv <- peek_vec v;
      let k0 := {| ci := 0; ce := vlen vv |} in
      let fix adv (pat : list bool) (k : cursor) : cursor :=
        match pat with
        | [] => k
        | f :: r => adv r (snd (if f then cur_next k else cur_next_back k))
        end in
      do r1 <- walk_ro c v pat1 k0;
      let k1 := adv pat1 k0 in
      (* the clone is a copy of the cursor: both continue independently from k1 *)
      do rc <- walk_ro c v pat2 k1;
      do ro <- walk_ro c v pat2 k1;
      ret (0, cur_len k0 :: r1 ++ cur_len k1 :: rc ++ cur_len k1 :: ro)
  | OProbeTypes v idx =>
      do vv <- peek_vec v;
      (* vector: downcast_ref/mut right, wrong; element_typeid ok; layout size, align *)
      let head := [1; 0; 1; 0; 1; c_sz c; c_al c] in
      if idx <? vlen vv then
        (* ElementRef: typeid ok, size, downcast_ref right/wrong; ElementMut: downcast_mut right/wrong
           (inherent and trait versions) *)
        ret (0, head ++ [1; c_sz c; 1; 0; 1; 0; 1; 0])
      else ret (0, head)
  | ODownWrong v k idx =>
      do oh <- temp_open c v k idx;
      match oh with
      | None => ret (1, [])
      | Some h =>
          (* value_typeid ok, size, downcast_ref / downcast_mut wrong = None, then
             downcast::<Wrong>() = None: the handle is dropped *)
          on_vec v (temp_drop c false h);; ret (0, [1; c_sz c; 0; 0; 0])
      end
  | OSwapWrong v idx =>
      do vv <- peek_vec v;
      assert_ (idx <? vlen vv) PIndex;;
      do t <- freshw c;
      unwinding (raise PType) (harness_drop c t)
  | OWrite _ v idx =>
      do vv <- peek_vec v;
      assert_ (idx <? vlen vv) PIndex;;
      let p := ptr_at c vv idx in
      do bs <- on_vec v (read_ptr c p);
      do t <- decode c bs;
      do n <- freshw c;
      on_vec v (write_ptr c p (enc_c c n));;
      harness_drop c t;;
      ret (0, [t])
  | ORead _ v idx =>
      do vv <- peek_vec v;
      if idx <? vlen vv then
        do bs <- on_vec v (read_ptr c (ptr_at c vv idx));
        do t <- decode c bs;
        ret (0, [t; 1; c_sz c])
      else ret (1, [])
  | OSwap pr v1 i v2 j =>
      do a <- peek_vec v1;
      do b <- peek_vec v2;
      assert_ (i <? vlen a) PIndex;;
      assert_ (j <? vlen b) PIndex;;
      if pr =? 0 then
        (* ElementMut.swap(ElementMut) *)
        do ba <- on_vec v1 (read_ptr c (ptr_at c a i));
        do bb <- on_vec v2 (read_ptr c (ptr_at c b j));
        on_vec v1 (write_ptr c (ptr_at c a i) bb);;
        on_vec v2 (write_ptr c (ptr_at c b j) ba);;
        ret (0, [])
      else
        (* removal handle of v1[i] swapped with ElementMut v2[j] (either direction), then the
           handle - now holding v2[j]'s old value - is dropped *)
        do oh <- temp_open c v1 TRemove i;
        match oh with
        | None => ret (1, [])
        | Some h =>
            do p <- on_vec v1 (temp_ptr c h);
            do ba <- on_vec v1 (read_ptr c p);
            do bb <- on_vec v2 (read_ptr c (ptr_at c b j));
            on_vec v1 (write_ptr c p bb);;
            on_vec v2 (write_ptr c (ptr_at c b j) ba);;
            on_vec v1 (temp_drop c false h);;
            ret (0, [])
        end
  | OParts v mode =>
      do vv <- peek_vec v;
      (* len, capacity, layout size, align, type id ok, has drop fn; no event, state unchanged *)
      ret (0, [vlen vv; vcap vv; c_sz c; c_al c; 1; if c_dg c then 1 else 0])
  | OPlacement => ret (0, [0])
  | OIterNth _ v pat =>
      do vv <- peek_vec v;
      let k := {| ci := 0; ce := vlen vv |} in
      do r <- walk_nth c v pat k;
      ret (0, cur_len k :: r)
  | OLazyDown _ v idx =>
      do bs <- elem_bytes c v idx;
      do x <- lazy_down c v bs;
      ret (0, [x])
  | OCloneIn v bk k =>
      do sv <- peek_vec v;
      fun w =>
        let n := length (wv w) in        (* scratch slot: one past the end, removed again afterwards *)
        let strip (w' : world) := {| wv := firstn n (wv w'); wuw := wuw w' |} in
        match mem_build c bk (sv, wuw w) with
        | Ok _ (nv, u) =>
            match (do r <- unwinding (clone_in_body c n k) (on_vec n (drop_vec c));
                   on_vec n (drop_vec c);; ret r) (put_vec n (Some nv) u w) with
            | Ok r w2 => Ok (0, r) (strip w2)
            | Panic p w2 => Panic p (strip w2)
            | Fault f => Fault f
            end
        | Panic p (_, u) => Panic p {| wv := wv w; wuw := u |}
        | Fault f => Fault f
        end
  | OCursorMax _ pat =>
      let k0 := {| ci := usize_max - 3; ce := usize_max |} in
      let fix go (pat : list bool) (k : cursor) : list N :=
        match pat with
        | [] => []
        | f :: r =>
            let '(oi, k') := if f then cur_next k else cur_next_back k in
            (match oi with Some _ => 1 | None => 0 end) :: cur_len k' :: go r k'
        end in
      ret (0, cur_len k0 :: go pat k0)
  end.

(** One step of a case: fresh event log, the given fuse; a panic is caught
    (outcome 2), a fault reported (outcome 100 + n) with the world unchanged.
    The fuse is disarmed afterwards. *)
Definition fault_code (f : fault) : N :=
  match f with
  | FOob => 100 | FStale => 101 | FDecode => 102 | FOverlap => 103
  | FAbort => 104 | FBackend => 105
  end.
Definition panic_code (p : panic) : N :=
  match p with
  | PIndex => 1 | PType => 2 | PCapacity => 3 | PRange => 4 | POverflow => 5
  | PLayout => 6 | PStackN => 7 | PUser => 8 | PAssert => 9
  end.

Record step_result := { sr_world : world; sr_out : N; sr_pkind : N; sr_ret : list N }.

Definition run_step (c : cfg) (fuse : option N) (o : op) (w : world) : step_result :=
  let w0 := {| wv := wv w; wuw := {| ulog := []; unext := unext (wuw w); ufuse := fuse |} |} in
  let fin (w' : world) := {| wv := wv w'; wuw := disarm (wuw w') |} in
  match exec c o w0 with
  | Ok (out, r) w' => {| sr_world := fin w'; sr_out := out; sr_pkind := 0; sr_ret := r |}
  | Panic p w' => {| sr_world := fin w'; sr_out := 2; sr_pkind := panic_code p; sr_ret := [] |}
  | Fault f => {| sr_world := fin w0; sr_out := fault_code f; sr_pkind := 0; sr_ret := [] |}
  end.

Definition init_world : world :=
  {| wv := []; wuw := {| ulog := []; unext := 1; ufuse := None |} |}.

(** Observables of a world. *)
Definition world_lens (w : world) : list (option N) :=
  map (fun o => match o with Some v => Some (vlen v) | None => None end) (wv w).
Definition world_caps (w : world) : list (option N) :=
  map (fun o => match o with Some v => Some (vcap v) | None => None end) (wv w).
Definition world_snaps (c : cfg) (w : world) : list (option (option (list N))) :=
  map (fun o => match o with Some v => Some (snapshot c v) | None => None end) (wv w).
Definition world_events (w : world) : list event := rev (ulog (wuw w)).

(** Raw storage, slot by slot up to the capacity (resizable backends, element size >= 2):
    [None] = bytes that are no whole value, [Some None] = never written, [Some (Some t)] =
    the (possibly stale) bytes of value [t].  Compared with the real storage, which the
    harness's allocator / backend poison-fills when fresh. *)
Definition slot_class (c : cfg) (bs : mem) : option (option N) :=
  if forallb (fun x => match x with Uninit => true | _ => false end) bs then Some None
  else match dec (szn c) bs with Some t => Some (Some t) | None => None end.
Fixpoint slots_raw (c : cfg) (n : nat) (m : mem) : list (option (option N)) :=
  match n with
  | O => []
  | S k => slot_class c (firstn (szn c) m) :: slots_raw c k (skipn (szn c) m)
  end.
Definition vec_raw (c : cfg) (v : vec) : option (list (option (option N))) :=
  match vbk v with
  | BHeap | BReloc _ =>
      if (2 <=? c_sz c) && (vcap v <=? 600) then Some (slots_raw c (N.to_nat (vcap v)) (vmem v)) else None
  | _ => None
  end.
Definition world_raw (c : cfg) (w : world) : list (option (option (list (option (option N))))) :=
  map (fun o => match o with Some v => Some (vec_raw c v) | None => None end) (wv w).
