(** * Base definitions: machine integers, outcomes, events.

    Scalars that the Rust code keeps in [usize] are [N]; unchecked Rust arithmetic
    is modelled by [uadd]/[umul]/[usub] which take the build profile into account
    ([trap = true]: debug build, overflow panics; [trap = false]: release, wraps). *)
From Coq Require Export List NArith Arith Lia Bool.
Export ListNotations.
Open Scope N_scope.

Definition usize_max : N := 18446744073709551615.   (* 2^64 - 1 *)
Definition usize_mod : N := 18446744073709551616.   (* 2^64 *)
Definition isize_max : N := 9223372036854775807.    (* 2^63 - 1 *)
(** Requests above this size are refused by the (instrumented) allocator: the
    crate then calls [handle_alloc_error], i.e. the process aborts. *)
Definition alloc_limit : N := 4294967296.           (* 2^32 *)

Inductive panic :=
| PIndex      (* "Index out of range!" / unwrap on None in [at] *)
| PType       (* "Type mismatch!" *)
| PCapacity   (* "Can't change capacity!" (fixed-capacity Mem::expand) *)
| PRange      (* into_range asserts *)
| POverflow   (* arithmetic overflow (checked_* / debug overflow check) *)
| PLayout     (* invalid Layout (size overflowing isize) *)
| PStackN     (* "Insufficient storage!" *)
| PUser       (* user code (element Drop / Clone, replacement iterator) panicked *)
| PAssert.    (* debug_assert *)

Inductive fault :=
| FOob        (* access outside capacity * element size *)
| FStale      (* pointer from before a capacity change *)
| FDecode     (* typed read of bytes that are not one whole initialised value *)
| FOverlap    (* copy_nonoverlapping on overlapping ranges *)
| FAbort      (* allocator refused: handle_alloc_error (process abort) *)
| FBackend.   (* backend interface misuse: resize below len, use after drop *)

(** Outcome of a computation over a state [S].  A panic carries the state as it is
    once the panic has been raised (callers add the effects of unwinding); a fault is
    behaviour Rust calls undefined (or a process abort) and carries nothing: the
    theorems say it never happens. *)
Inductive res (S A : Type) : Type :=
| Ok (a : A) (s : S)
| Panic (p : panic) (s : S)
| Fault (f : fault).
Arguments Ok {S A} a s.
Arguments Panic {S A} p s.
Arguments Fault {S A} f.

Definition M (S A : Type) : Type := S -> res S A.
Definition ret {S A} (a : A) : M S A := fun s => Ok a s.
Definition bind {S A B} (m : M S A) (f : A -> M S B) : M S B :=
  fun s => match m s with
           | Ok a s' => f a s'
           | Panic p s' => Panic p s'
           | Fault f0 => Fault f0
           end.
Definition raise {S A} (p : panic) : M S A := fun s => Panic p s.
Definition fault_ {S A} (f : fault) : M S A := fun _ => Fault f.
Definition get {S} : M S S := fun s => Ok s s.
Definition put {S} (s : S) : M S unit := fun _ => Ok tt s.
Definition modify {S} (f : S -> S) : M S unit := fun s => Ok tt (f s).
(** Rust landing pad: if [m] panics, run [cleanup] on the state and keep unwinding.
    (A panic inside [cleanup] would be a double panic = abort; the harness never arms
    the fuse twice, and the model reports it as [FAbort].) *)
Definition on_unwind {S A} (m : M S A) (cleanup : M S unit) : M S A :=
  fun s => match m s with
           | Ok a s' => Ok a s'
           | Panic p s' =>
               match cleanup s' with
               | Ok _ s'' => Panic p s''
               | Panic _ _ => Fault FAbort
               | Fault f0 => Fault f0
               end
           | Fault f0 => Fault f0
           end.
(** catch_unwind: turn a panic into a value. *)
Definition catch {S A} (m : M S A) : M S (option A * option panic) :=
  fun s => match m s with
           | Ok a s' => Ok (Some a, None) s'
           | Panic p s' => Ok (None, Some p) s'
           | Fault f0 => Fault f0
           end.
Notation "'do' x <- m ; k" := (bind m (fun x => k))
  (at level 200, x pattern, m at level 100, k at level 200).
Notation "m ;; k" := (bind m (fun _ => k))
  (at level 100, k at level 200, right associativity).
Definition assert_ {S} (b : bool) (p : panic) : M S unit :=
  if b then ret tt else raise p.
Definition of_opt {S A} (o : option A) (p : panic) : M S A :=
  match o with Some a => ret a | None => raise p end.

(** Unchecked [usize] arithmetic as compiled in the given profile: [None] = the
    overflow check of a debug build fires. *)
Definition uadd (trap : bool) (a b : N) : option N :=
  if a + b <=? usize_max then Some (a + b)
  else if trap then None else Some ((a + b) mod usize_mod).
Definition umul (trap : bool) (a b : N) : option N :=
  if a * b <=? usize_max then Some (a * b)
  else if trap then None else Some ((a * b) mod usize_mod).
Definition usub (trap : bool) (a b : N) : option N :=
  if b <=? a then Some (a - b)
  else if trap then None else Some ((a + usize_mod - b) mod usize_mod).

(** [checked_add] / [checked_mul] / [saturating_mul]. *)
Definition checked_add (a b : N) : option N :=
  if a + b <=? usize_max then Some (a + b) else None.
Definition checked_mul (a b : N) : option N :=
  if a * b <=? usize_max then Some (a * b) else None.
Definition saturating_mul (a b : N) : N :=
  if a * b <=? usize_max then a * b else usize_max.

(** Events observable by the harness: user-code calls, allocator calls, calls of
    the user-defined backend.  One log, in program order (newest first). *)
Inductive event :=
| EDrop (t : N)                       (* element destructor ran on value [t] *)
| EClone (src new : N)                (* element Clone: [new] cloned from [src] *)
| ENext                               (* replacement iterator: next() *)
| EAlloc (size align : N)
| ERealloc (osize align nsize : N)
| EDealloc (size align : N)
| EBuild (size align : N)             (* user backend: MemBuilder::build(layout) *)
| EExpand (add : N)                   (* user backend: Mem::expand *)
| EResize (n : N)                     (* user backend: MemResizable::resize *)
| EMemDrop.                           (* user backend: Mem dropped *)

(** The "user world": event log, fresh-identity counter, panic fuse.
    [ufuse = Some k]: the (k+1)-th call of user code from now on panics. *)
Record uw := { ulog : list event; unext : N; ufuse : option N }.

Definition emit (e : event) (u : uw) : uw :=
  {| ulog := e :: ulog u; unext := unext u; ufuse := ufuse u |}.

(** One call of user code: [None] when the fuse fires (the fuse is then disarmed,
    see [fire]). *)
Definition tick (u : uw) : option uw :=
  match ufuse u with
  | None => Some u
  | Some k =>
      if k =? 0 then None
      else Some {| ulog := ulog u; unext := unext u; ufuse := Some (k - 1) |}
  end.
Definition disarm (u : uw) : uw :=
  {| ulog := ulog u; unext := unext u; ufuse := None |}.
