(** * Trace lines computed INSIDE Coq.

    [trace_case] renders the observables of a case exactly as mlrun/driver.ml (hand-written OCaml
    around the extracted model) prints them.  Every check re-evaluates a random sample of its cases
    with [vm_compute] through this file and requires byte-identical lines: the extraction
    (ExtrOcamlBasic), the OCaml compiler and the driver's printer are thereby cross-checked against
    the kernel's own evaluation of the same definitions. *)
From Coq Require Import String DecimalString.
From AV.Model Require Import Base Bytes Vec Ops Interp.
Open Scope string_scope.

Definition sn (n : N) : string := NilZero.string_of_uint (N.to_uint n).
Definition pr_list {A} (f : A -> string) (sep : string) (l : list A) : string := String.concat sep (map f l).
Definition pr_opt_n (o : option N) : string := match o with None => "-" | Some x => sn x end.
Definition pr_snap (o : option (option (list N))) : string :=
  match o with
  | None => "-"
  | Some None => "!"
  | Some (Some l) => "[" ++ pr_list sn "," l ++ "]"
  end.
Definition pr_raw (o : option (option (list (option (option N))))) : string :=
  match o with
  | None => "-"
  | Some None => "-"
  | Some (Some l) =>
      "[" ++ pr_list (fun x => match x with None => "?" | Some None => "U" | Some (Some t) => sn t end) "," l ++ "]"
  end.
Definition pr_event (e : event) : string :=
  match e with
  | EDrop t => "D" ++ sn t
  | EClone a b => "C" ++ sn a ++ ">" ++ sn b
  | ENext => "N"
  | EAlloc sz al => "A" ++ sn sz ++ ":" ++ sn al
  | ERealloc o al nw => "R" ++ sn o ++ ":" ++ sn al ++ ">" ++ sn nw
  | EDealloc sz al => "F" ++ sn sz ++ ":" ++ sn al
  | EBuild sz al => "B" ++ sn sz ++ ":" ++ sn al
  | EExpand a => "X" ++ sn a
  | EResize a => "Z" ++ sn a
  | EMemDrop => "M"
  end.

Definition trace_line (c : cfg) (r : step_result) : string :=
  let w := sr_world r in
  "out=" ++ sn (sr_out r) ++ " ret=" ++ pr_list sn "," (sr_ret r)
  ++ " len=" ++ pr_list pr_opt_n "," (world_lens w)
  ++ " cap=" ++ pr_list pr_opt_n "," (world_caps w)
  ++ " snap=" ++ pr_list pr_snap "|" (world_snaps c w)
  ++ " ev=" ++ pr_list pr_event "," (world_events w)
  ++ " raw=" ++ pr_list pr_raw "|" (world_raw c w).

Fixpoint trace_steps (c : cfg) (steps : list (option N * op)) (w : world) : list string :=
  match steps with
  | [] => []
  | (fuse, o) :: rest =>
      let r := run_step c fuse o w in
      trace_line c r :: trace_steps c rest (sr_world r)
  end.
Definition trace_case (c : cfg) (steps : list (option N * op)) : list string :=
  trace_steps c steps init_world.
