(** * Byte-granular memory.

    A buffer is a [list cell]; [Byte t k] is the k-th byte of the element value whose
    identity token is [t].  An element of size [sz] is encoded as
    [Byte t 0; ...; Byte t (sz-1)] and a slot decodes to [Some t] only if it is exactly
    that.  For [sz = 0] there are no cells and every slot decodes to the unit token 0
    (zero-sized values are accounted by count).

    Offsets and byte counts are [nat] here (they index lists); the vector layer keeps
    its scalars in [N] and converts at the call. *)
From AV.Model Require Import Base.
Local Open Scope nat_scope.

Inductive cell := Uninit | Byte (t k : N).
Definition mem := list cell.

Definition cell_eqb (a b : cell) : bool :=
  match a, b with
  | Uninit, Uninit => true
  | Byte t k, Byte t' k' => (t =? t')%N && (k =? k')%N
  | _, _ => false
  end.

Fixpoint mem_eqb (a b : mem) : bool :=
  match a, b with
  | [], [] => true
  | x :: a', y :: b' => cell_eqb x y && mem_eqb a' b'
  | _, _ => false
  end.

Fixpoint enc_from (t k : N) (n : nat) : mem :=
  match n with
  | O => []
  | S n' => Byte t k :: enc_from t (N.succ k) n'
  end.
Definition enc (sz : nat) (t : N) : mem := enc_from t 0%N sz.

(** Typed read of one slot. *)
Definition dec (sz : nat) (bs : mem) : option N :=
  match sz with
  | O => Some 0%N
  | S _ =>
      match bs with
      | Byte t _ :: _ => if mem_eqb bs (enc sz t) then Some t else None
      | _ => None
      end
  end.

(** ** Raw block primitives (total; bounds are checked by the callers in [Vec]) *)
Definition msub (off n : nat) (m : mem) : mem := firstn n (skipn off m).
Definition mwrite (off : nat) (bs : mem) (m : mem) : mem :=
  firstn off m ++ bs ++ skipn (off + length bs) m.
(** [ptr::copy] (memmove) inside one buffer. *)
Definition memmove (src dst n : nat) (m : mem) : mem := mwrite dst (msub src n m) m.
Definition mset (off : nat) (c : cell) (m : mem) : mem := mwrite off [c] m.
Definition mget (off : nat) (m : mem) : cell := nth off m Uninit.

(** The crate's own small-copy loop [for i in 0..count { *dst.add(i) = *src.add(i) }]. *)
Fixpoint copy_fwd (src dst n : nat) (m : mem) : mem :=
  match n with
  | O => m
  | S n' => copy_fwd (S src) (S dst) n' (mset dst (mget src m) m)
  end.
(** ... and its mirror image [for i in (0..count).rev()]. *)
Fixpoint copy_bwd (src dst n : nat) (m : mem) : mem :=
  match n with
  | O => m
  | S n' => copy_bwd src dst n' (mset (dst + n') (mget (src + n') m) m)
  end.

(** [lib.rs copy_bytes] (non-Miri build), after the direction fix:
    [ptr::copy] from 128 bytes on, below that a byte loop running in the direction that
    never reads an overwritten byte. *)
Definition copy_bytes (src dst n : nat) (m : mem) : mem :=
  if 128 <=? n then memmove src dst n m
  else if dst <=? src then copy_fwd src dst n m
  else copy_bwd src dst n m.

(** The pinned tree's version (forward loop only), kept for the refutation witness. *)
Definition copy_bytes_pinned (src dst n : nat) (m : mem) : mem :=
  if 128 <=? n then memmove src dst n m else copy_fwd src dst n m.

Definition uninit (n : nat) : mem := repeat Uninit n.

(** Slots: the buffer seen as consecutive [sz]-byte groups. *)
Definition slot (sz : nat) (i : nat) (m : mem) : mem := msub (i * sz) sz m.
Fixpoint flat (sz : nat) (ts : list N) : mem :=
  match ts with
  | [] => []
  | t :: ts' => enc sz t ++ flat sz ts'
  end.
(** Decode the first [n] slots (None if one of them is not a whole value). *)
Fixpoint dec_slots (sz : nat) (n : nat) (m : mem) : option (list N) :=
  match n with
  | O => Some []
  | S n' =>
      match dec sz (firstn sz m), dec_slots sz n' (skipn sz m) with
      | Some t, Some ts => Some (t :: ts)
      | _, _ => None
      end
  end.
