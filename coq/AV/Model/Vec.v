(** * The vector machine: [AnyVecRaw] over the storage backends.

    One Gallina function per Rust function, same statement order, same guards, both
    arms of every compile-time dispatch ([Unknown::is::<T>()] = the [known] flag).
    The code modelled is /repo's current tree (i.e. with the [fix:] commits). *)
From AV.Model Require Import Base Bytes.

(** Per-world constants: element layout, drop glue, Cloneable, build profile
    ([c_trap]: overflow checks and debug assertions on), element type id. *)
Record cfg := { c_sz : N; c_al : N; c_dg : bool; c_cl : bool; c_trap : bool; c_ty : N }.

Inductive bkind :=
| BHeap                      (* mem::Heap *)
| BStack (size : N)          (* mem::Stack<SIZE> *)
| BStackN (n size : N)       (* mem::StackN<N, SIZE> *)
| BEmpty                     (* mem::Empty *)
| BReloc (c0 : N).           (* the harness's user-defined backend: fresh storage already holds
                                [c0] elements (small-buffer / pooled backends); every capacity
                                change moves the storage; grows by exactly what is asked *)

(** [vmem] has [vcap * sz] cells on Heap/Reloc and [SIZE] cells on the stack backends.
    [vgen] is bumped whenever the storage may have moved. *)
Record vec := { vlen : N; vcap : N; vmem : mem; vgen : N; vbk : bkind }.

Definition st := (vec * uw)%type.

Definition with_len (n : N) (v : vec) : vec :=
  {| vlen := n; vcap := vcap v; vmem := vmem v; vgen := vgen v; vbk := vbk v |}.
Definition with_mem (m : mem) (v : vec) : vec :=
  {| vlen := vlen v; vcap := vcap v; vmem := m; vgen := vgen v; vbk := vbk v |}.
Definition with_store (cap : N) (m : mem) (g : N) (v : vec) : vec :=
  {| vlen := vlen v; vcap := cap; vmem := m; vgen := g; vbk := vbk v |}.

Definition getv : M st vec := fun s => Ok (fst s) s.
Definition setv (f : vec -> vec) : M st unit := fun s => Ok tt (f (fst s), snd s).
Definition emitv (e : event) : M st unit := fun s => Ok tt (fst s, emit e (snd s)).
Definition of_ovf (o : option N) : M st N := of_opt o POverflow.

(** One call into user code; panics with [PUser] (fuse disarmed) when the fuse fires. *)
Definition user_call : M st unit :=
  fun s => match tick (snd s) with
           | Some u => Ok tt (fst s, u)
           | None => Panic PUser (fst s, disarm (snd s))
           end.
(** User code called while a panic is already unwinding never consults the fuse
    (the harness's element types check [std::thread::panicking()]). *)
Definition quiet_st {A} (m : M st A) : M st A :=
  fun s =>
    let f := ufuse (snd s) in
    let restore (s' : st) : st :=
      (fst s', {| ulog := ulog (snd s'); unext := unext (snd s'); ufuse := f |}) in
    match m (fst s, disarm (snd s)) with
    | Ok a s' => Ok a (restore s')
    | Panic p s' => Panic p (restore s')
    | Fault f0 => Fault f0
    end.
Definition unwinding_st {A} (m : M st A) (cleanup : M st unit) : M st A :=
  on_unwind m (quiet_st cleanup).

Definition fresh (c : cfg) : M st N :=
  fun s => let u := snd s in
           let t := if c_sz c =? 0 then 0 else unext u in
           Ok t (fst s, {| ulog := ulog u; unext := unext u + 1; ufuse := ufuse u |}).

Definition szn (c : cfg) : nat := N.to_nat (c_sz c).
(** byte offset of element [i] *)
Definition bo (c : cfg) (i : N) : nat := N.to_nat (c_sz c * i).

(** Every access must lie inside [capacity * element size] of the current storage. *)
Definition check_range (c : cfg) (off n : nat) : M st unit :=
  do v <- getv;
  if (N.of_nat off + N.of_nat n <=? vcap v * c_sz c) && (off + n <=? length (vmem v))%nat
  then ret tt else fault_ FOob.

(** ** Backends *)

Definition heap_resize (c : cfg) (new_size : N) : M st unit :=
  do v <- getv;
  if vcap v =? new_size then ret tt
  else if c_sz c =? 0 then setv (with_store new_size (vmem v) (vgen v))
  else
    let obytes := c_sz c * vcap v in
    if new_size =? 0 then
      emitv (EDealloc obytes (c_al c));;
      setv (with_store 0 [] (vgen v + 1))
    else
      do nbytes <- of_ovf (checked_mul (c_sz c) new_size);
      (* Layout::from_size_align(..).expect(..) *)
      if isize_max - (c_al c - 1) <? nbytes then raise PLayout
      else if alloc_limit <? nbytes then fault_ FAbort
      else if vcap v =? 0 then
        emitv (EAlloc nbytes (c_al c));;
        setv (with_store new_size (uninit (N.to_nat nbytes)) (vgen v + 1))
      else
        emitv (ERealloc obytes (c_al c) nbytes);;
        let keep := N.to_nat (N.min obytes nbytes) in
        setv (with_store new_size
                (firstn keep (vmem v) ++ uninit (N.to_nat nbytes - keep)) (vgen v + 1)).

(** The harness's relocating backend ([harness/src/reloc.rs]). *)
Definition reloc_resize (c : cfg) (new_size : N) : M st unit :=
  do v <- getv;
  do nbytes <- of_ovf (checked_mul (c_sz c) new_size);
  if alloc_limit <? nbytes then raise PLayout
  else
    let keep := N.to_nat (N.min (c_sz c * vcap v) nbytes) in
    setv (with_store new_size
            (firstn keep (vmem v) ++ uninit (N.to_nat nbytes - keep)) (vgen v + 1)).

(** [MemResizable::resize] *)
Definition mem_resize (c : cfg) (new_size : N) : M st unit :=
  do v <- getv;
  match vbk v with
  | BHeap => heap_resize c new_size
  | BReloc _ => emitv (EResize new_size);; reloc_resize c new_size
  | _ => fault_ FBackend      (* not MemResizable: the call does not type-check *)
  end.

(** [Mem::expand] *)
Definition mem_expand (c : cfg) (additional : N) : M st unit :=
  do v <- getv;
  match vbk v with
  | BHeap =>
      do requested <- of_ovf (checked_add (vcap v) additional);
      heap_resize c (N.max (saturating_mul (vcap v) 2) requested)
  | BReloc _ =>
      emitv (EExpand additional);;
      do requested <- of_ovf (checked_add (vcap v) additional);
      reloc_resize c requested
  | _ => raise PCapacity     (* default Mem::expand: "Can't change capacity!" *)
  end.

(** [MemResizable::expand_exact] (default method: unchecked [size + additional]). *)
Definition mem_expand_exact (c : cfg) (additional : N) : M st unit :=
  do v <- getv;
  do n <- of_ovf (uadd (c_trap c) (vcap v) additional);
  mem_resize c n.

(** [StackN::build]'s "N elements fit in SIZE bytes" test. *)
Definition stackn_fits (n sz size : N) : bool :=
  match checked_mul n sz with Some bytes => bytes <=? size | None => false end.
(** ... and as in the pinned tree ([N * size] unchecked: wraps in a release build), kept
    for the refutation witness of defect D17. *)
Definition stackn_fits_pinned (trap : bool) (n sz size : N) : option bool :=
  match umul trap n sz with Some bytes => Some (bytes <=? size) | None => None end.

(** [MemBuilder::build] for a fresh vector of the world's element layout. *)
Definition mem_build (c : cfg) (bk : bkind) : M st unit :=
  match bk with
  | BHeap => setv (fun _ => {| vlen := 0; vcap := 0; vmem := []; vgen := 0; vbk := BHeap |})
  | BStack size =>
      let cap := if c_sz c =? 0 then usize_max else size / c_sz c in
      setv (fun _ => {| vlen := 0; vcap := cap; vmem := uninit (N.to_nat size);
                        vgen := 0; vbk := bk |})
  | BStackN n size =>
      (* assert!(N.checked_mul(size).map_or(false, |bytes| bytes <= SIZE), "Insufficient storage!") *)
      if stackn_fits n (c_sz c) size then
        setv (fun _ => {| vlen := 0; vcap := n; vmem := uninit (N.to_nat size);
                          vgen := 0; vbk := bk |})
      else raise PStackN
  | BEmpty => setv (fun _ => {| vlen := 0; vcap := 0; vmem := []; vgen := 0; vbk := BEmpty |})
  | BReloc c0 =>
      emitv (EBuild (c_sz c) (c_al c));;
      setv (fun _ => {| vlen := 0; vcap := c0; vmem := uninit (N.to_nat (c_sz c * c0)); vgen := 0; vbk := bk |})
  end.

(** Dropping the [Mem] object (after the elements): Heap = [resize(0)]. *)
Definition mem_drop (c : cfg) : M st unit :=
  do v <- getv;
  match vbk v with
  | BHeap => heap_resize c 0
  | BReloc _ => emitv EMemDrop
  | _ => ret tt
  end.

(** ** User code on elements *)

(** Run the element destructor on the slot at byte offset [off]:
    typed read, the destructor's own report, then the fuse. *)
Definition drop_at (c : cfg) (off : nat) : M st unit :=
  check_range c off (szn c);;
  do v <- getv;
  match dec (szn c) (msub off (szn c) (vmem v)) with
  | None => fault_ FDecode
  | Some t => emitv (EDrop t);; user_call
  end.

(** The type-erased destructor [drop_fn(ptr, len)]: a loop with stride
    [size_of::<T>()] that stops at the first panic. *)
Fixpoint drop_loop (c : cfg) (off : nat) (count : nat) : M st unit :=
  match count with
  | O => ret tt
  | S k => drop_at c off;; drop_loop c (off + szn c)%nat k
  end.

(** [ptr::drop_in_place::<[T]>]: slice drop glue keeps going after a panic and
    re-raises it at the end. *)
Fixpoint drop_slice (c : cfg) (off : nat) (count : nat) : M st unit :=
  match count with
  | O => ret tt
  | S k =>
      fun s => match drop_at c off s with
               | Ok _ s' => drop_slice c (off + szn c)%nat k s'
               | Panic p s' =>
                   match quiet_st (drop_slice c (off + szn c)%nat k) s' with
                   | Ok _ s'' => Panic p s''
                   | Panic _ _ => Fault FAbort
                   | Fault f => Fault f
                   end
               | Fault f => Fault f
               end
  end.

(** [clone_fn::<T>(src, dst, 1)] writing into this vector's storage at [off]:
    typed read of the source bytes, user [Clone] (fuse first: a panicking clone has
    produced nothing), write of the new value. *)
Definition clone_into (c : cfg) (srcbytes : mem) (off : nat) : M st unit :=
  match dec (szn c) srcbytes with
  | None => fault_ FDecode
  | Some t =>
      user_call;;
      do n <- fresh c;
      emitv (EClone t n);;
      check_range c off (szn c);;
      setv (fun v => with_mem (mwrite off (enc (szn c) n) (vmem v)) v)
  end.

(** A value offered to push/insert/splice, as the vector sees it at [move_into]:
    bytes to copy, or bytes to clone from ([LazyClone]).  [known] = the value's
    [AnyValueSizeless::Type] is a concrete type (compile-time arm selection). *)
Inductive vsrc :=
| VBytes (bs : mem) (known : bool)
| VClone (bs : mem) (known : bool).
Definition vknown (s : vsrc) : bool :=
  match s with VBytes _ k => k | VClone _ k => k end.

(** [value.move_into(element, size)] *)
Definition write_value (c : cfg) (off : nat) (s : vsrc) : M st unit :=
  match s with
  | VBytes bs _ =>
      check_range c off (szn c);;
      if (length bs =? szn c)%nat
      then setv (fun v => with_mem (mwrite off bs (vmem v)) v)
      else fault_ FOob
  | VClone bs _ => clone_into c bs off
  end.

(** ** AnyVecRaw *)

Definition reserve_one (c : cfg) : M st unit :=
  do v <- getv;
  if vlen v =? vcap v then mem_expand c 1 else ret tt.

Definition reserve (c : cfg) (additional : N) : M st unit :=
  do v <- getv;
  do new_len <- of_ovf (checked_add (vlen v) additional);
  if vcap v <? new_len then mem_expand c (new_len - vcap v) else ret tt.

Definition reserve_exact (c : cfg) (additional : N) : M st unit :=
  do v <- getv;
  do new_len <- of_ovf (checked_add (vlen v) additional);
  if vcap v <? new_len then mem_expand_exact c (new_len - vcap v) else ret tt.

Definition shrink_to_fit (c : cfg) : M st unit :=
  do v <- getv; mem_resize c (vlen v).

Definition shrink_to (c : cfg) (min_capacity : N) : M st unit :=
  do v <- getv;
  let new_len := N.max (vlen v) min_capacity in
  if new_len <? vcap v then mem_resize c new_len else ret tt.

Definition set_len (c : cfg) (new_len : N) : M st unit :=
  do v <- getv;
  assert_ (negb (c_trap c) || (new_len <=? vcap v)) PAssert;;
  setv (with_len new_len).

(** Block move inside the storage: [known] arm = [ptr::copy] of elements,
    erased arm = [copy_bytes]. *)
Definition shift (c : cfg) (known : bool) (src dst n : nat) : M st unit :=
  check_range c src n;;
  check_range c dst n;;
  setv (fun v => with_mem
                   ((if known then memmove else copy_bytes) src dst n (vmem v)) v).

Definition insert_unchecked (c : cfg) (index : N) (s : vsrc) : M st unit :=
  do v <- getv;
  assert_ (index <=? vlen v) PIndex;;
  reserve_one c;;
  (* the tail is hidden while user code (a lazy clone) may run *)
  let len := vlen v in
  setv (with_len index);;
  shift c (vknown s) (bo c index) (bo c index + szn c)%nat (N.to_nat (c_sz c * (len - index)));;
  write_value c (bo c index) s;;
  setv (with_len (len + 1)).

Definition push_unchecked (c : cfg) (s : vsrc) : M st unit :=
  reserve_one c;;
  do v <- getv;
  write_value c (bo c (vlen v)) s;;
  setv (with_len (vlen v + 1)).

Definition clear (c : cfg) : M st unit :=
  do v <- getv;
  setv (with_len 0);;
  if c_dg c then drop_loop c 0 (N.to_nat (vlen v)) else ret tt.

(** Vector [Drop]: [clear], then the [Mem] field is dropped (also while unwinding). *)
Definition drop_vec (c : cfg) : M st unit :=
  unwinding_st (clear c) (mem_drop c);;
  mem_drop c.

(** Typed snapshot [as_slice()] of the first [len] slots. *)
Definition snapshot (c : cfg) (v : vec) : option (list N) :=
  dec_slots (szn c) (N.to_nat (vlen v)) (vmem v).

(** [AnyVecRaw::clone(clone_fn)]: empty prototype on the same builder, [reserve(len)],
    clone loop into it (its [len] still 0), set len.  The prototype is dropped when
    the loop unwinds. Returns the new vector; the state's vector is the source. *)
Fixpoint clone_loop (c : cfg) (src : mem) (i : nat) (count : nat) : M st unit :=
  match count with
  | O => ret tt
  | S k =>
      clone_into c (msub (i * szn c) (szn c) src) (i * szn c)%nat;;
      clone_loop c src (S i) k
  end.

(** The state's vector is the clone under construction; [src] is the source. *)
Definition clone_vec (c : cfg) (src : vec) : M st unit :=
  mem_build c (vbk src);;
  unwinding_st
    (reserve c (vlen src);;
     clone_loop c (vmem src) 0 (N.to_nat (vlen src));;
     setv (with_len (vlen src)))
    (drop_vec c).

(** ** Element handles *)

(** A pointer to an element as cached by a handle: storage generation + byte offset. *)
Record eptr := { pgen : N; poff : nat }.

Definition ptr_at (c : cfg) (v : vec) (i : N) : eptr :=
  {| pgen := vgen v; poff := bo c i |}.

(** Read the [sz] bytes a handle points to. *)
Definition read_ptr (c : cfg) (p : eptr) : M st mem :=
  do v <- getv;
  if negb (pgen p =? vgen v) then fault_ FStale
  else check_range c (poff p) (szn c);; ret (msub (poff p) (szn c) (vmem v)).

Definition write_ptr (c : cfg) (p : eptr) (bs : mem) : M st unit :=
  do v <- getv;
  if negb (pgen p =? vgen v) then fault_ FStale
  else write_value c (poff p) (VBytes bs true).

(** [AnyVec::get(index)] / [get_mut]: [None] when out of range. *)
Definition get_ptr (c : cfg) (v : vec) (i : N) : option eptr :=
  if i <? vlen v then Some (ptr_at c v i) else None.
