(** Extraction of the executable model (ExtrOcamlBasic only: bool, option, unit, list,
    prod, sumbool, sumor mapped to OCaml's; [N], [positive], [nat] and every model
    type stay as extracted). *)
From Coq Require Import Extraction ExtrOcamlBasic.
From AV.Model Require Import Base Bytes Vec Ops Interp.
From AV.Spec Require Import WorldSpec.
From AV.Proofs Require Import Track.
Extraction Language OCaml.
Extraction "model.ml" spec_track run_step init_world world_lens world_caps world_snaps world_events world_raw
  N.of_nat N.to_nat N.add N.mul N.succ.
