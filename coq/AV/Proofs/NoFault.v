(** * Fault freedom (C05): on a state that represents a list, every operation of the machine
      returns normally or panics - it never reaches a [Fault] (out-of-bounds access, stale pointer,
      typed read of bytes that are no whole value, overlapping non-overlapping copy, backend misuse).
      Corollaries of the refinement theorems, gathered per operation with the complete case split
      on the backend (room / can grow / fixed and full). *)
From AV.Model Require Import Base Bytes Vec Ops.
From AV.Spec Require Import VecSpec.
From AV.Proofs Require Import MemLemmas Rep VecProofs TempProofs RangeProofs CapProofs.
Arguments N.add : simpl never.
Arguments N.sub : simpl never.
Arguments N.mul : simpl never.

Definition not_fault {S A} (r : res S A) : Prop :=
  match r with Fault _ => False | _ => True end.

Lemma ok_not_fault {S A} (r : res S A) a s : r = Ok a s -> not_fault r.
Proof. intros ->. exact I. Qed.
Lemma panic_not_fault {S A} (r : res S A) p s : r = Panic p s -> not_fault r.
Proof. intros ->. exact I. Qed.

(** the storage can take one more element, can grow to take it, or is of fixed capacity
    (in which case the operation panics): everything except "the allocator refuses" *)
Definition can_take (c : cfg) (v : vec) (n : N) : Prop :=
  vlen v + n <= vcap v \/ grow_ok c v (vlen v + n) \/ fixed_backend (vbk v).

Theorem push_no_fault c v u xs t k :
  cfg_wf c -> Rep c v xs -> tok_ok (szn c) t -> can_take c v 1 ->
  not_fault (push_unchecked c (VBytes (enc (szn c) t) k) (v, u)).
Proof.
  intros Hwf HR Ht Hc. pose proof (rep_cap _ _ _ HR) as Hle.
  destruct (N.lt_ge_cases (vlen v) (vcap v)) as [Hlt|Hge].
  - destruct (push_ok c v u xs t k Hwf HR Ht (or_introl Hlt)) as (v' & u' & E & _).
    exact (ok_not_fault _ _ _ E).
  - assert (He : vlen v = vcap v) by lia.
    destruct Hc as [Hr|[Hg|Hf]].
    + lia.
    + rewrite He in Hg.
      destruct (push_ok c v u xs t k Hwf HR Ht (or_intror Hg)) as (v' & u' & E & _).
      exact (ok_not_fault _ _ _ E).
    + exact (panic_not_fault _ _ _ (push_full_fixed c v u xs _ HR He Hf)).
Qed.

Theorem insert_no_fault c v u xs t k (i : N) :
  cfg_wf c -> Rep c v xs -> tok_ok (szn c) t -> can_take c v 1 ->
  not_fault (insert_unchecked c i (VBytes (enc (szn c) t) k) (v, u)).
Proof.
  intros Hwf HR Ht Hc. pose proof (rep_cap _ _ _ HR) as Hle. pose proof (rep_len _ _ _ HR) as Hl.
  destruct (N.le_gt_cases i (N.of_nat (length xs))) as [Hi|Hi].
  - assert (Hin : (N.to_nat i <= length xs)%nat) by lia.
    destruct (N.lt_ge_cases (vlen v) (vcap v)) as [Hlt|Hge].
    + destruct (insert_ok c v u xs t k (N.to_nat i) Hwf HR Ht Hin (or_introl Hlt)) as (v' & u' & E & _).
      rewrite N2Nat.id in E. exact (ok_not_fault _ _ _ E).
    + assert (He : vlen v = vcap v) by lia.
      destruct Hc as [Hr|[Hg|Hf]].
      * lia.
      * rewrite He in Hg.
        destruct (insert_ok c v u xs t k (N.to_nat i) Hwf HR Ht Hin (or_intror Hg)) as (v' & u' & E & _).
        rewrite N2Nat.id in E. exact (ok_not_fault _ _ _ E).
      * assert (Hiv : i <= vlen v) by lia.
        exact (panic_not_fault _ _ _ (insert_full_fixed c v u xs _ i HR Hiv He Hf)).
  - exact (panic_not_fault _ _ _ (insert_oob c v u xs _ i HR Hi)).
Qed.

(** a removal handle: creation, read, consumption, drop *)
Theorem handle_no_fault c v u xs k i h known :
  Rep c v xs -> temp_req k i xs -> temp_for c v xs k i h -> ufuse u = None ->
  not_fault (temp_new c k (N.of_nat i) (v, u)) /\
  not_fault (temp_bytes c h (with_len (N.of_nat i) v, u)) /\
  not_fault (temp_consume c known h (with_len (N.of_nat i) v, u)) /\
  not_fault (temp_drop c known h (with_len (N.of_nat i) v, u)).
Proof.
  intros HR Hq Hh Hf. repeat split.
  - destruct (temp_new_spec c v u xs k i HR Hq) as (h' & E & _). exact (ok_not_fault _ _ _ E).
  - exact (ok_not_fault _ _ _ (temp_bytes_spec c v u xs k i h HR Hq Hh)).
  - destruct (temp_consume_spec c v u xs k i h known HR Hq Hh) as (v' & E & _). exact (ok_not_fault _ _ _ E).
  - destruct (temp_drop_spec c v u xs k i h known HR Hq Hh Hf) as (v' & u' & E & _). exact (ok_not_fault _ _ _ E).
Qed.

Theorem clear_no_fault c v u xs : Rep c v xs -> ufuse u = None -> not_fault (clear c (v, u)).
Proof. intros HR Hf. destruct (clear_ok c v u xs HR Hf) as (v' & u' & E & _). exact (ok_not_fault _ _ _ E). Qed.

Theorem read_no_fault c v u xs i :
  Rep c v xs -> (i < length xs)%nat -> not_fault (read_ptr c (ptr_at c v (N.of_nat i)) (v, u)).
Proof. intros HR Hi. exact (ok_not_fault _ _ _ (read_elem c v u xs i HR Hi)). Qed.

(** drain / splice at every stage of consumption ([i], [j] = the cursor pair) *)
Theorem drain_drop_no_fault c v u xs s e i j known :
  RangeAlive c v xs s e i j -> ufuse u = None ->
  not_fault (drain_drop c known
    {| dcur := {| ci := N.of_nat i; ce := N.of_nat j |};
       dstart := N.of_nat s; dend := N.of_nat e; dorig := N.of_nat (length xs) |} (v, u)).
Proof.
  intros HA Hf. destruct (drain_drop_spec c v u xs s e i j known HA Hf) as (v' & u' & E & _).
  exact (ok_not_fault _ _ _ E).
Qed.

Theorem splice_drop_no_fault c v u xs s e i j known ts k :
  cfg_wf c -> RangeAlive c v xs s e i j -> ufuse u = None -> Forall (tok_ok (szn c)) ts ->
  let new_len := (s + length ts + (length xs - e))%nat in
  N.of_nat new_len <= usize_max ->
  (N.of_nat new_len <= vcap v \/ grow_ok c v (N.of_nat new_len) \/ fixed_backend (vbk v)) ->
  not_fault (splice_drop c known
    {| dcur := {| ci := N.of_nat i; ce := N.of_nat j |};
       dstart := N.of_nat s; dend := N.of_nat e; dorig := N.of_nat (length xs) |}
    (N.of_nat (length ts)) (map (fun t => honest_item c t k) ts) (v, u)).
Proof.
  intros Hwf HA Hf Hts new_len Hmax Hc.
  destruct (N.le_gt_cases (N.of_nat new_len) (vcap v)) as [Hle|Hgt].
  - destruct (splice_drop_spec c v u xs s e i j known ts k Hwf HA Hf Hts (or_introl Hle)) as (v' & u' & E & _).
    exact (ok_not_fault _ _ _ E).
  - destruct Hc as [Hr|[Hg|Hfx]].
    + fold new_len in Hr. lia.
    + destruct (splice_drop_spec c v u xs s e i j known ts k Hwf HA Hf Hts (or_intror Hg)) as (v' & u' & E & _).
      exact (ok_not_fault _ _ _ E).
    + destruct (splice_drop_beyond_fixed c v u xs s e i j known ts k HA Hf Hfx Hgt Hmax) as (u' & E & _).
      exact (panic_not_fault _ _ _ E).
Qed.

(** capacity management never resizes below the live length and never faults *)
Theorem reserve_no_fault c v u xs n :
  cfg_wf c -> Rep c v xs -> vlen v + n <= usize_max -> can_take c v n ->
  not_fault (reserve c n (v, u)).
Proof.
  intros Hwf HR Hmax Hc.
  destruct (N.le_gt_cases (vlen v + n) (vcap v)) as [Hle|Hgt].
  - destruct (reserve_ok c v u xs n Hwf HR (or_introl Hle)) as (v' & u' & E & _). exact (ok_not_fault _ _ _ E).
  - destruct Hc as [Hr|[Hg|Hf]].
    + lia.
    + destruct (reserve_ok c v u xs n Hwf HR (or_intror Hg)) as (v' & u' & E & _). exact (ok_not_fault _ _ _ E).
    + exact (panic_not_fault _ _ _ (reserve_fixed c v u n Hmax Hgt Hf)).
Qed.

Theorem shrink_no_fault c v u xs m :
  cfg_wf c -> Rep c v xs -> resizable_backend (vbk v) -> c_sz c * vcap v <= alloc_limit ->
  not_fault (shrink_to c m (v, u)) /\ not_fault (shrink_to_fit c (v, u)).
Proof.
  intros Hwf HR Hb Hl. split.
  - destruct (shrink_to_spec c v u xs m Hwf HR Hb Hl) as (v' & u' & E & _). exact (ok_not_fault _ _ _ E).
  - destruct (shrink_to_fit_spec c v u xs Hwf HR Hb Hl) as (v' & u' & E & _). exact (ok_not_fault _ _ _ E).
Qed.
