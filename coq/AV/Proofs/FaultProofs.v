(** * Panicking user code (C06): what the state is when the k-th destructor panics.
      In every case the vector represents a list without duplicates (a prefix of what
      it held), and no identity is reported dropped twice. *)
From AV.Model Require Import Base Bytes Vec Ops.
From AV.Spec Require Import VecSpec.
From AV.Proofs Require Import MemLemmas Rep VecProofs RangeProofs.
Arguments N.add : simpl never.
Arguments N.sub : simpl never.
Arguments N.mul : simpl never.


(** ** Auxiliary: user calls and destructors with an armed fuse *)
Definition set_fuse (f : option N) (u : uw) : uw :=
  {| ulog := ulog u; unext := unext u; ufuse := f |}.

Lemma user_call_tick v u k :
  ufuse u = Some k -> 0 < k -> user_call (v, u) = Ok tt (v, set_fuse (Some (k - 1)) u).
Proof.
  intros Hf Hk. unfold user_call, tick. cbn [fst snd]. rewrite Hf.
  destruct (N.eqb_spec k 0) as [E|E]; [lia|]. reflexivity.
Qed.
Lemma user_call_fire v u :
  ufuse u = Some 0 -> user_call (v, u) = Panic PUser (v, disarm u).
Proof.
  intros Hf. unfold user_call, tick. cbn [fst snd]. rewrite Hf. reflexivity.
Qed.

Lemma drop_at_pre c v u p t :
  store_ok c v -> N.of_nat (p + 1) <= vcap v -> Held c v p [t] -> tok_ok (szn c) t ->
  drop_at c (p * szn c) (v, u) = user_call (v, emit (EDrop t) u).
Proof.
  intros Hst Hle Hh Ht. unfold drop_at, bind.
  rewrite check_range_ok by (try assumption; nia).
  unfold getv. cbn [fst]. rewrite (held_one c v p t Hh), (dec_enc _ _ Ht).
  unfold emitv. cbn [fst snd]. reflexivity.
Qed.

(** the fuse outlives the loop *)
Lemma drop_loop_tick c v ys : forall p u k,
  store_ok c v -> N.of_nat (p + length ys) <= vcap v -> Held c v p ys ->
  Forall (tok_ok (szn c)) ys -> ufuse u = Some k -> N.of_nat (length ys) <= k ->
  exists u', drop_loop c (p * szn c) (length ys) (v, u) = Ok tt (v, u') /\
    ulog u' = rev (map EDrop ys) ++ ulog u /\ unext u' = unext u /\
    ufuse u' = Some (k - N.of_nat (length ys)).
Proof.
  induction ys as [|y ys IH]; intros p u k Hst Hle Hh Hall Hf Hk.
  - exists u. cbn [length drop_loop map rev app]. unfold ret.
    rewrite Hf. repeat split; auto. f_equal. cbn. lia.
  - cbn [length] in Hle, Hk. cbn [length drop_loop].
    apply (held_split c v p [y] ys) in Hh. destruct Hh as [H1 H2].
    inversion Hall; subst.
    unfold bind. rewrite (drop_at_pre c v u p y) by (auto; lia).
    rewrite (user_call_tick v (emit (EDrop y) u) k) by (auto; lia).
    replace (p * szn c + szn c)%nat with ((p + 1) * szn c)%nat by lia.
    destruct (IH (p + 1)%nat (set_fuse (Some (k - 1)) (emit (EDrop y) u)) (k - 1))
      as [u' [E [L [Nx F]]]]; auto; try lia.
    exists u'. split; [exact E|]. split; [|split].
    + rewrite L. cbn [map rev ulog set_fuse emit]. rewrite <- app_assoc. reflexivity.
    + rewrite Nx. reflexivity.
    + rewrite F. f_equal. lia.
Qed.

(** the [k]-th destructor (0-based) panics: the type-erased loop stops there *)
Lemma drop_loop_fire c v ys : forall p u k,
  store_ok c v -> N.of_nat (p + length ys) <= vcap v -> Held c v p ys ->
  Forall (tok_ok (szn c)) ys -> ufuse u = Some (N.of_nat k) -> (k < length ys)%nat ->
  exists u', drop_loop c (p * szn c) (length ys) (v, u) = Panic PUser (v, u') /\
    ulog u' = rev (map EDrop (firstn (S k) ys)) ++ ulog u /\ unext u' = unext u /\
    ufuse u' = None.
Proof.
  induction ys as [|y ys IH]; intros p u k Hst Hle Hh Hall Hf Hk.
  - cbn [length] in Hk. lia.
  - cbn [length] in Hle, Hk. cbn [length drop_loop].
    apply (held_split c v p [y] ys) in Hh. destruct Hh as [H1 H2].
    inversion Hall; subst.
    unfold bind. rewrite (drop_at_pre c v u p y) by (auto; lia).
    destruct k as [|k].
    + rewrite (user_call_fire v (emit (EDrop y) u)) by exact Hf.
      exists (disarm (emit (EDrop y) u)). split; [reflexivity|].
      cbn [firstn map rev app ulog disarm emit unext ufuse]. auto.
    + rewrite (user_call_tick v (emit (EDrop y) u) (N.of_nat (S k))) by (auto; lia).
      replace (p * szn c + szn c)%nat with ((p + 1) * szn c)%nat by lia.
      destruct (IH (p + 1)%nat (set_fuse (Some (N.of_nat (S k) - 1)) (emit (EDrop y) u)) k)
        as [u' [E [L [Nx F]]]]; auto; try lia.
      { cbn [ufuse set_fuse]. f_equal. lia. }
      exists u'. split; [exact E|]. split; [|split].
      * rewrite L. cbn [firstn map rev ulog set_fuse emit].
        rewrite <- app_assoc. reflexivity.
      * rewrite Nx. reflexivity.
      * exact F.
Qed.

(** ... and slice drop glue goes on quietly with the others *)
Lemma drop_slice_fire c v ys : forall p u k,
  store_ok c v -> N.of_nat (p + length ys) <= vcap v -> Held c v p ys ->
  Forall (tok_ok (szn c)) ys -> ufuse u = Some (N.of_nat k) -> (k < length ys)%nat ->
  exists u', drop_slice c (p * szn c) (length ys) (v, u) = Panic PUser (v, u') /\
    ulog u' = rev (map EDrop ys) ++ ulog u /\ unext u' = unext u /\
    ufuse u' = None.
Proof.
  induction ys as [|y ys IH]; intros p u k Hst Hle Hh Hall Hf Hk.
  - cbn [length] in Hk. lia.
  - cbn [length] in Hle, Hk. cbn [length drop_slice].
    apply (held_split c v p [y] ys) in Hh. destruct Hh as [H1 H2].
    inversion Hall; subst.
    rewrite (drop_at_pre c v u p y) by (auto; lia).
    replace (p * szn c + szn c)%nat with ((p + 1) * szn c)%nat by lia.
    destruct k as [|k].
    + rewrite (user_call_fire v (emit (EDrop y) u)) by exact Hf.
      unfold quiet_st. cbn [fst snd].
      destruct (drop_slice_ok c v ys (p + 1)%nat (disarm (disarm (emit (EDrop y) u))))
        as [u' [E [L [Nx F]]]]; auto; try lia.
      rewrite E. cbn [fst snd].
      eexists. split; [reflexivity|]. cbn [ulog unext ufuse disarm].
      rewrite L, Nx. cbn [map rev ulog unext disarm emit]. rewrite <- app_assoc. auto.
    + rewrite (user_call_tick v (emit (EDrop y) u) (N.of_nat (S k))) by (auto; lia).
      destruct (IH (p + 1)%nat (set_fuse (Some (N.of_nat (S k) - 1)) (emit (EDrop y) u)) k)
        as [u' [E [L [Nx F]]]]; auto; try lia.
      { cbn [ufuse set_fuse]. f_equal. lia. }
      exists u'. split; [exact E|]. split; [|split].
      * rewrite L. cbn [map rev ulog set_fuse emit].
        rewrite <- app_assoc. reflexivity.
      * rewrite Nx. reflexivity.
      * exact F.
Qed.

(** clear / vector drop: the k-th destructor (0-based) panics: the vector is already
    empty, destructors 0..k ran (the k-th one panicked), the rest leak *)
Theorem clear_panics c v u xs k :
  Rep c v xs -> c_dg c = true -> ufuse u = Some (N.of_nat k) -> (k < length xs)%nat ->
  exists v' u',
    clear c (v, u) = Panic PUser (v', u') /\
    Rep c v' [] /\ vcap v' = vcap v /\ ufuse u' = None /\ unext u' = unext u /\
    ulog u' = rev (map EDrop (firstn (S k) xs)) ++ ulog u.
Proof.
  intros HR Hdg Hf Hk. pose proof (rep_held _ _ _ HR) as HH.
  destruct HR as [Hlen Hcap Hus Hst Hmem Htok].
  assert (HR0 : Rep c (with_len 0 v) []).
  { constructor; cbn [with_len vlen vcap vmem length]; auto; try lia. }
  destruct (drop_loop_fire c (with_len 0 v) xs 0%nat u k) as [u' [E [L [Nx F]]]]; auto.
  { cbn [with_len vcap]. lia. }
  exists (with_len 0 v), u'.
  split; [|auto 10].
  unfold clear, bind, getv, setv. cbn [fst snd]. rewrite Hdg, Hlen, Nat2N.id.
  cbn [Nat.mul] in E. exact E.
Qed.

(** the fuse is longer than the number of destructor calls: no panic, fuse decremented *)
Theorem clear_fuse_survives c v u xs k :
  Rep c v xs -> c_dg c = true -> ufuse u = Some k -> N.of_nat (length xs) <= k ->
  exists v' u',
    clear c (v, u) = Ok tt (v', u') /\
    Rep c v' [] /\ ufuse u' = Some (k - N.of_nat (length xs)) /\
    ulog u' = rev (map EDrop xs) ++ ulog u.
Proof.
  intros HR Hdg Hf Hk. pose proof (rep_held _ _ _ HR) as HH.
  destruct HR as [Hlen Hcap Hus Hst Hmem Htok].
  assert (HR0 : Rep c (with_len 0 v) []).
  { constructor; cbn [with_len vlen vcap vmem length]; auto; try lia. }
  destruct (drop_loop_tick c (with_len 0 v) xs 0%nat u k) as [u' [E [L [Nx F]]]]; auto.
  { cbn [with_len vcap]. lia. }
  exists (with_len 0 v), u'.
  split; [|auto 10].
  unfold clear, bind, getv, setv. cbn [fst snd]. rewrite Hdg, Hlen, Nat2N.id.
  cbn [Nat.mul] in E. exact E.
Qed.

(** Drain::drop when the k-th destructor of the un-yielded items panics.
    Erased arm: the loop stops.  Typed arm: slice drop glue goes on with the remaining
    items (quietly) and re-raises.  Either way steps 2-3 are skipped: the vector is the
    prefix before the range; everything from the range on that was not destroyed leaks. *)
Theorem drain_drop_panics_erased c v u xs s e i j k :
  RangeAlive c v xs s e i j -> c_dg c = true -> ufuse u = Some (N.of_nat k) -> (k < j - i)%nat ->
  let d := {| dcur := {| ci := N.of_nat i; ce := N.of_nat j |};
              dstart := N.of_nat s; dend := N.of_nat e; dorig := N.of_nat (length xs) |} in
  exists u',
    drain_drop c false d (v, u) = Panic PUser (v, u') /\
    Rep c v (firstn s xs) /\ ufuse u' = None /\
    ulog u' = rev (map EDrop (firstn (S k) (skipn i xs))) ++ ulog u.
Proof.
  intros HA Hdg Hf Hk d.
  pose proof (drain_forget_rep _ _ _ _ _ _ _ HA) as HR.
  destruct HA as [Hle Hlen Hcap Hus Hst Hp Hm Ht Htok].
  destruct Hle as [Hsi [Hij [Hje Hel]]].
  assert (Htokm : Forall (tok_ok (szn c)) (firstn (j - i) (skipn i xs)))
    by (apply Forall_firstn', Forall_skipn'; exact Htok).
  assert (Hlm : length (firstn (j - i) (skipn i xs)) = (j - i)%nat).
  { rewrite firstn_length_le; [lia | rewrite skipn_length; lia]. }
  destruct (drop_loop_fire c v (firstn (j - i) (skipn i xs)) i u k) as [u' [E [L [Nx F]]]];
    auto; try lia.
  exists u'. split; [|split; [exact HR|split; [exact F|]]].
  - unfold drain_drop, d. cbn [dcur ci ce dend dstart dorig].
    apply bind_panic. unfold drop_range, bind, assert_.
    rewrite (proj2 (N.leb_le (N.of_nat i) (N.of_nat j))) by lia.
    rewrite orb_true_r. unfold ret at 1. rewrite Hdg, bo_of_nat.
    replace (N.to_nat (N.of_nat j - N.of_nat i)) with (j - i)%nat by lia.
    rewrite Hlm in E. exact E.
  - rewrite L. f_equal. f_equal. f_equal.
    rewrite firstn_firstn. f_equal. lia.
Qed.

Theorem drain_drop_panics_typed c v u xs s e i j k :
  RangeAlive c v xs s e i j -> c_dg c = true -> ufuse u = Some (N.of_nat k) -> (k < j - i)%nat ->
  let d := {| dcur := {| ci := N.of_nat i; ce := N.of_nat j |};
              dstart := N.of_nat s; dend := N.of_nat e; dorig := N.of_nat (length xs) |} in
  exists u',
    drain_drop c true d (v, u) = Panic PUser (v, u') /\
    Rep c v (firstn s xs) /\ ufuse u' = None /\
    ulog u' = rev (map EDrop (firstn (j - i) (skipn i xs))) ++ ulog u.
Proof.
  intros HA Hdg Hf Hk d.
  pose proof (drain_forget_rep _ _ _ _ _ _ _ HA) as HR.
  destruct HA as [Hle Hlen Hcap Hus Hst Hp Hm Ht Htok].
  destruct Hle as [Hsi [Hij [Hje Hel]]].
  assert (Htokm : Forall (tok_ok (szn c)) (firstn (j - i) (skipn i xs)))
    by (apply Forall_firstn', Forall_skipn'; exact Htok).
  assert (Hlm : length (firstn (j - i) (skipn i xs)) = (j - i)%nat).
  { rewrite firstn_length_le; [lia | rewrite skipn_length; lia]. }
  destruct (drop_slice_fire c v (firstn (j - i) (skipn i xs)) i u k) as [u' [E [L [Nx F]]]];
    auto; try lia.
  exists u'. split; [|split; [exact HR|split; [exact F|]]].
  - unfold drain_drop, d. cbn [dcur ci ce dend dstart dorig].
    apply bind_panic. unfold drop_range, bind, assert_.
    rewrite (proj2 (N.leb_le (N.of_nat i) (N.of_nat j))) by lia.
    rewrite orb_true_r. unfold ret at 1. rewrite Hdg, bo_of_nat.
    replace (N.to_nat (N.of_nat j - N.of_nat i)) with (j - i)%nat by lia.
    rewrite Hlm in E. exact E.
  - rewrite L. reflexivity.
Qed.

(** what these results mean for the identities: a prefix of a duplicate-free list is
    duplicate-free, and the identities destroyed are distinct and disjoint from it *)
Lemma prefix_nodup (xs : list N) n : NoDup xs -> NoDup (firstn n xs).
Proof.
  intros H. revert n. induction H as [|x l Hx Hl IH]; intros n.
  - rewrite firstn_nil. constructor.
  - destruct n as [|n]; cbn [firstn]; constructor.
    + intros Hin. apply Hx. rewrite <- (firstn_skipn n l). apply in_or_app. left. exact Hin.
    + apply IH.
Qed.
Lemma drops_distinct (xs : list N) i k :
  NoDup xs -> NoDup (firstn k (skipn i xs)) /\
  forall t, In t (firstn k (skipn i xs)) -> ~ In t (firstn i xs).
Proof.
  intros H. split.
  - apply prefix_nodup. clear k. revert i. induction H as [|x l Hx Hl IH]; intros i.
    + rewrite skipn_nil. constructor.
    + destruct i as [|i]; cbn [skipn]; [constructor; assumption | apply IH].
  - intros t Hin.
    assert (Hin' : In t (skipn i xs)).
    { rewrite <- (firstn_skipn k (skipn i xs)). apply in_or_app. left. exact Hin. }
    clear Hin k. revert i Hin'. induction H as [|x l Hx Hl IH]; intros i Hin.
    + rewrite firstn_nil. intros [].
    + destruct i as [|i]; cbn [firstn skipn] in *; [intros []|].
      intros [Heq | Hin2].
      * subst t. apply Hx. rewrite <- (firstn_skipn i l). apply in_or_app. right. exact Hin.
      * exact (IH i Hin Hin2).
Qed.


(** ** Auxiliary for lying iterators *)
Lemma firstn_min_len {A} n (l : list A) : firstn (Nat.min n (length l)) l = firstn n l.
Proof.
  destruct (Nat.le_ge_cases n (length l)) as [H|H].
  - rewrite Nat.min_l by exact H. reflexivity.
  - rewrite Nat.min_r by exact H. rewrite firstn_all, firstn_all2 by exact H. reflexivity.
Qed.
Lemma skipn_min_len {A} n (l : list A) : skipn (Nat.min n (length l)) l = skipn n l.
Proof.
  destruct (Nat.le_ge_cases n (length l)) as [H|H].
  - rewrite Nat.min_l by exact H. reflexivity.
  - rewrite Nat.min_r by exact H. rewrite skipn_all, skipn_all2 by exact H. reflexivity.
Qed.

(** the fill loop with a budget that need not be the number of items: it writes
    [min budget (length ts)] items and hands back the others *)
Lemma splice_fill_gen c k : forall budget ts p w v u,
  store_ok c v -> N.of_nat (p + Nat.min budget (length ts)) <= vcap v -> ufuse u = None ->
  exists u' n,
    splice_fill c (p * szn c) budget w (map (fun t => honest_item c t k) ts) (v, u)
    = Ok (w + N.of_nat (Nat.min budget (length ts)),
          map (fun t => honest_item c t k) (skipn budget ts))
         (with_mem (mwrite (p * szn c) (flat (szn c) (firstn budget ts)) (vmem v)) v, u') /\
    ulog u' = repeat ENext n ++ ulog u /\ unext u' = unext u /\ ufuse u' = None /\
    n = Nat.min budget (S (length ts)).
Proof.
  induction budget as [|b IH]; intros ts p w v u Hst Hle Hf.
  - exists u, 0%nat. cbn [splice_fill firstn skipn flat repeat app Nat.min].
    rewrite mwrite_nil, with_mem_id. unfold ret. rewrite N.add_0_r. auto 6.
  - destruct ts as [|t ts].
    + exists (emit ENext u), 1%nat. cbn [length map splice_fill firstn skipn flat Nat.min].
      rewrite (bind_ok _ _ (v, u) tt (v, emit ENext u)) by reflexivity.
      rewrite (bind_ok _ _ _ tt (v, emit ENext u))
        by (apply unwinding_ok, user_call_ok; exact Hf).
      rewrite mwrite_nil, with_mem_id. unfold ret. rewrite N.add_0_r.
      split; [reflexivity|]. split; [reflexivity|]. split; [reflexivity|]. split; [exact Hf|].
      cbn [length]. lia.
    + cbn [length Nat.min] in Hle. cbn [length map splice_fill firstn skipn Nat.min].
      rewrite (bind_ok _ _ (v, u) tt (v, emit ENext u)) by reflexivity.
      rewrite (bind_ok _ _ _ tt (v, emit ENext u))
        by (apply unwinding_ok, user_call_ok; exact Hf).
      rewrite (bind_ok _ _ _ tt
                 (with_mem (mwrite (p * szn c) (enc (szn c) t) (vmem v)) v, emit ENext u)).
      2:{ apply unwinding_ok. cbn [r_ty r_src honest_item]. rewrite N.eqb_refl.
          rewrite (bind_ok _ _ _ tt (v, emit ENext u)) by reflexivity.
          apply write_value_ok; [exact Hst | lia]. }
      assert (Hb : (p * szn c + szn c <= length (vmem v))%nat).
      { unfold store_ok in Hst. rewrite cap_bytes in Hst. nia. }
      replace (p * szn c + szn c)%nat with ((p + 1) * szn c)%nat by lia.
      destruct (IH ts (p + 1)%nat (w + 1)
                  (with_mem (mwrite (p * szn c) (enc (szn c) t) (vmem v)) v) (emit ENext u))
        as [u' [n [E [L [Nx [F Hn]]]]]].
      * unfold store_ok. cbn [vcap vmem with_mem]. rewrite mwrite_length; [exact Hst|].
        rewrite enc_length. exact Hb.
      * cbn [vcap with_mem]. lia.
      * exact Hf.
      * exists u', (S n). split; [|split; [|split; [exact Nx|split; [exact F|cbn [length]; lia]]]].
        -- rewrite E. cbn [vmem with_mem flat].
           replace ((p + 1) * szn c)%nat with (p * szn c + length (enc (szn c) t))%nat
             by (rewrite enc_length; lia).
           rewrite mwrite_mwrite_app by lia.
           replace (w + 1 + N.of_nat (Nat.min b (length ts)))
             with (w + N.of_nat (S (Nat.min b (length ts)))) by lia.
           reflexivity.
        -- rewrite L. cbn [ulog emit repeat]. rewrite (repeat_cons n ENext).
           rewrite <- app_assoc. reflexivity.
Qed.

Definition is_drop (ev : event) : bool := match ev with EDrop _ => true | _ => false end.
Lemma filter_drops_drops (b : bool) (l : list N) :
  filter is_drop (if b then rev (map EDrop l) else []) = (if b then rev (map EDrop l) else []).
Proof.
  destruct b; [|reflexivity].
  apply filter_all_true. apply Forall_rev. apply Forall_forall.
  intros x Hx. apply in_map_iff in Hx. destruct Hx as [t [<- _]]. reflexivity.
Qed.
Lemma filter_drops_nexts n : filter is_drop (repeat ENext n) = [].
Proof. induction n as [|n IH]; cbn [repeat filter is_drop]; auto. Qed.

(** ** Lying replacement iterators (C06): Splice::drop never trusts the claimed length.
    The iterator yields [ts] but claims [cl]; values are owned honest items. *)
Theorem splice_drop_liar_full c v u xs s e i j known ts k cl :
  cfg_wf c -> RangeAlive c v xs s e i j -> ufuse u = None ->
  Forall (tok_ok (szn c)) ts ->
  let new_len := (s + cl + (length xs - e))%nat in
  (N.of_nat new_len <= vcap v \/ grow_ok c v (N.of_nat new_len)) ->
  let d := {| dcur := {| ci := N.of_nat i; ce := N.of_nat j |};
              dstart := N.of_nat s; dend := N.of_nat e; dorig := N.of_nat (length xs) |} in
  let written := Nat.min cl (length ts) in
  exists v' u',
    splice_drop c known d (N.of_nat cl) (map (fun t => honest_item c t k) ts) (v, u)
      = Ok tt (v', u') /\
    (* exactly the first [written] items went in; the others were destroyed, once each *)
    Rep c v' (sp_splice s e (firstn written ts) xs) /\ vbk v' = vbk v /\
    unext u' = unext u /\ ufuse u' = None /\
    (* the iterator is asked [cl] times, or until it first answers None *)
    uevents u' = (if c_dg c then rev (map EDrop (skipn written ts)) else [])
                 ++ repeat ENext (Nat.min cl (S (length ts)))
                 ++ (if c_dg c then rev (map EDrop (firstn (j - i) (skipn i xs))) else [])
                 ++ uevents u /\
    (N.of_nat new_len <= vcap v -> vcap v' = vcap v).
Proof.
  intros Hwf HA Hf Htoks new_len Hroom d written.
  destruct (splice_prep_ok c v u xs s e i j known cl Hwf HA Hf Hroom)
    as [v2 [u2 [E2 [Hl2 [Hc2 [Hus2 [Hst2 [Hp2 [Ht2 [Hb2 [Hn2 [Hf2 [He2 Hcap2]]]]]]]]]]]]].
  fold new_len in Hc2.
  destruct HA as [Hle Hlen Hcap Hus Hst Hp Hm Ht Htok].
  destruct Hle as [Hsi [Hij [Hje Hel]]].
  assert (Hlt : length (skipn e xs) = (length xs - e)%nat) by apply skipn_length.
  assert (Hlp : length (firstn s xs) = s) by (apply firstn_length_le; lia).
  set (W := firstn cl ts).
  assert (HlW : length W = written) by (unfold W, written; apply firstn_length).
  assert (Hwcl : (written <= cl)%nat) by (unfold written; lia).
  assert (HtokW : Forall (tok_ok (szn c)) W) by (apply Forall_firstn'; exact Htoks).
  (* 3. fill *)
  destruct (splice_fill_gen c k cl ts s 0 v2 u2 Hst2) as [u3 [n [E3 [L3 [N3 [F3 Hn3]]]]]];
    [fold written; unfold new_len in Hc2; lia | exact Hf2 |].
  fold written in E3. fold W in E3.
  set (v3 := with_mem (mwrite (s * szn c) (flat (szn c) W) (vmem v2)) v2) in *.
  assert (Hb : ((s + cl) * szn c + (length xs - e) * szn c <= length (vmem v2))%nat).
  { unfold store_ok in Hst2. rewrite cap_bytes in Hst2. unfold new_len in Hc2. nia. }
  assert (Hb' : (s * szn c + length W * szn c <= length (vmem v2))%nat) by nia.
  assert (Hst3 : store_ok c v3).
  { unfold store_ok, v3. cbn [vcap vmem with_mem].
    rewrite mwrite_length; [exact Hst2|]. rewrite flat_length. lia. }
  assert (Hp3 : Held c v3 0 (firstn s xs)).
  { change (HeldM (szn c) (vmem v3) 0 (firstn s xs)). unfold v3. cbn [vmem with_mem].
    apply heldm_mwrite_before; [exact Hp2 | rewrite Hlp; lia | lia]. }
  assert (Hts3 : Held c v3 s W).
  { change (HeldM (szn c) (vmem v3) s W). unfold v3. cbn [vmem with_mem].
    apply heldm_mwrite_at. lia. }
  assert (Ht3 : Held c v3 (s + cl) (skipn e xs)).
  { change (HeldM (szn c) (vmem v3) (s + cl) (skipn e xs)). unfold v3.
    cbn [vmem with_mem].
    apply heldm_mwrite_after; [exact Ht2 | rewrite flat_length; nia | lia]. }
  assert (Hpw3 : Held c v3 0 (firstn s xs ++ W)).
  { apply held_app; [exact Hp3|]. rewrite Hlp. exact Hts3. }
  set (tail := skipn e xs) in *.
  set (rest := map (fun t => honest_item c t k) (skipn cl ts)) in *.
  (* closing the gap *)
  assert (Hgap : exists v4,
    (if 0 + N.of_nat written <? N.of_nat cl
     then unwinding_st (move_elements c (N.of_nat s + N.of_nat cl)
                          (N.of_nat s + (0 + N.of_nat written))
                          (N.of_nat (length xs) - N.of_nat e))
                       (drop_items c rest)
     else ret tt) (v3, u3) = Ok tt (v4, u3) /\
    store_ok c v4 /\ Held c v4 0 (firstn s xs ++ W) /\ Held c v4 (s + written) tail /\
    vcap v4 = vcap v2 /\ vbk v4 = vbk v2).
  { destruct (N.ltb_spec (0 + N.of_nat written) (N.of_nat cl)) as [Hlt' | Hge'].
    - destruct (moved_state c v3 (firstn s xs ++ W) tail (s + written) Hst3)
        as [Hst4 [Hp4 Ht4]]; auto.
      + cbn [vcap with_mem v3]. unfold new_len in Hc2. lia.
      + rewrite app_length. lia.
      + eexists. split; [|split; [exact Hst4|split; [exact Hp4|split; [exact Ht4|split; reflexivity]]]].
        apply unwinding_ok.
        rewrite (move_elements_ok c v3 u3 (N.of_nat s + N.of_nat cl)
                   (N.of_nat s + (0 + N.of_nat written))
                   (N.of_nat (length xs) - N.of_nat e) tail Hst3).
        * replace (N.to_nat (N.of_nat s + (0 + N.of_nat written))) with (s + written)%nat by lia.
          reflexivity.
        * lia.
        * cbn [vcap with_mem v3]. unfold new_len in Hc2. lia.
        * cbn [vcap with_mem v3]. unfold new_len in Hc2. lia.
        * replace (N.to_nat (N.of_nat s + N.of_nat cl)) with (s + cl)%nat by lia. exact Ht3.
    - exists v3. assert (written = cl) by lia.
      split; [reflexivity|]. split; [exact Hst3|]. split; [exact Hpw3|].
      split; [|split; reflexivity]. replace (s + written)%nat with (s + cl)%nat by lia. exact Ht3. }
  destruct Hgap as [v4 [E4 [Hst4 [Hp4 [Ht4 [Hc4 Hbk4]]]]]].
  (* the items never pulled are destroyed *)
  set (v5 := with_len (N.of_nat s + (0 + N.of_nat written)
                       + (N.of_nat (length xs) - N.of_nat e)) v4).
  destruct (drop_items_ok c k v5 (skipn cl ts) u3 F3) as [u5 [E5 [L5 [N5 F5]]]].
  fold rest in E5.
  exists v5, u5.
  split; [|split; [|split; [|split; [|split; [|split]]]]].
  - unfold splice_drop, d. cbn [dcur ci ce dend dstart dorig].
    rewrite (bind_ok _ _ _ _ _ (unwinding_ok _ _ _ _ _ E2)).
    rewrite bo_of_nat, Nat2N.id.
    rewrite (bind_ok _ _ _ _ _ E3).
    rewrite (bind_ok _ _ _ _ _ E4).
    unfold bind, setv. cbn [fst snd]. exact E5.
  - unfold sp_splice. fold tail.
    replace (firstn written ts) with W by (unfold W, written; symmetry; apply firstn_min_len).
    apply rep_of_held; cbn [vlen vcap with_len v5]; auto.
    + rewrite !app_length. lia.
    + rewrite Hc4. unfold new_len in Hc2. lia.
    + rewrite Hc4. exact Hus2.
    + rewrite app_assoc. apply held_app; [exact Hp4|].
      rewrite app_length, Hlp, HlW. exact Ht4.
    + apply Forall_app. split; [apply Forall_firstn'; exact Htok|].
      apply Forall_app. split; [exact HtokW | apply Forall_skipn'; exact Htok].
  - unfold v5. cbn [vbk with_len]. rewrite Hbk4. exact Hb2.
  - rewrite N5, N3. exact Hn2.
  - exact F5.
  - replace (skipn written ts) with (skipn cl ts)
      by (unfold written; symmetry; apply skipn_min_len).
    unfold uevents at 1. rewrite L5, uevents_drops, L3, uevents_nexts.
    fold (uevents u2). rewrite He2, Hn3. reflexivity.
  - intros Hle'. unfold v5. cbn [vcap with_len]. rewrite Hc4. apply Hcap2. exact Hle'.
Qed.

Theorem splice_drop_liar c v u xs s e i j known ts k cl :
  cfg_wf c -> RangeAlive c v xs s e i j -> ufuse u = None ->
  Forall (tok_ok (szn c)) ts ->
  let new_len := (s + cl + (length xs - e))%nat in
  (N.of_nat new_len <= vcap v \/ grow_ok c v (N.of_nat new_len)) ->
  let d := {| dcur := {| ci := N.of_nat i; ce := N.of_nat j |};
              dstart := N.of_nat s; dend := N.of_nat e; dorig := N.of_nat (length xs) |} in
  let written := Nat.min cl (length ts) in
  exists v' u',
    splice_drop c known d (N.of_nat cl) (map (fun t => honest_item c t k) ts) (v, u)
      = Ok tt (v', u') /\
    (* exactly the first [written] items went in; the others were destroyed, once each *)
    Rep c v' (sp_splice s e (firstn written ts) xs) /\ ufuse u' = None /\
    filter (fun ev => match ev with EDrop _ => true | _ => false end) (uevents u')
    = (if c_dg c then rev (map EDrop (skipn written ts)) else [])
      ++ (if c_dg c then rev (map EDrop (firstn (j - i) (skipn i xs))) else [])
      ++ filter (fun ev => match ev with EDrop _ => true | _ => false end) (uevents u).
Proof.
  intros Hwf HA Hf Htoks new_len Hroom d written.
  destruct (splice_drop_liar_full c v u xs s e i j known ts k cl Hwf HA Hf Htoks Hroom)
    as (v' & u' & E & HR & _ & _ & F & Ev & _).
  exists v', u'. split; [exact E|]. split; [exact HR|]. split; [exact F|].
  change (fun ev : event => match ev with EDrop _ => true | _ => false end) with is_drop.
  fold written in Ev. rewrite Ev.
  rewrite !filter_app, !filter_drops_drops, filter_drops_nexts. reflexivity.
Qed.
