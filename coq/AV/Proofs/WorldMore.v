(** * More operations inside histories: with_capacity, values of another type offered to push / insert,
      removal handles whose downcast is refused. *)
From AV.Model Require Import Base Bytes Vec Ops Interp.
From AV.Spec Require Import VecSpec.
From AV.Proofs Require Import MemLemmas Rep VecProofs TempProofs RangeProofs CapProofs CloneProofs NoFault HandleProofs.
From AV.Proofs Require Import FaultProofs LazySplice TypeProofs.
From AV.Spec Require Import WorldSpec.
From AV.Proofs Require Import WorldCore WorldSplice WorldRead.
Arguments N.add : simpl never.
Arguments N.sub : simpl never.
Arguments N.mul : simpl never.

(** ** with_capacity *)

Lemma exec_withcap c w st dst bk n r :
  cfg_wf c -> WRep c w st -> ufuse (wuw w) = None ->
  (if resizable bk then
     if layout_limit c bk <? c_sz c * n
     then Some (panic_res (if usize_max <? c_sz c * n then POverflow else PLayout) [] st (unext (wuw w)))
     else sp_new c st (unext (wuw w)) dst bk
   else None) = Some r ->
  adm_withcap c bk n ->
  res_matches c w (exec c (OWithCapacity dst bk n) w) r.
Proof.
  intros Hwf HW Hfuse Hr (Hbw & Hmax & Hlim0).
  destruct (resizable bk) eqn:Hrz; [|discriminate].
  set (v0 := {| vlen := 0; vcap := 0; vmem := []; vgen := 0; vbk := bk |}).
  destruct (N.ltb_spec (layout_limit c bk) (c_sz c * n)) as [Hbig|Hsmall].
  { (* refused before anything is allocated: the fresh storage object is dropped by the unwinding, the slot keeps
       what it held *)
    injection Hr as <-.
    assert (Hll : alloc_limit <= layout_limit c bk).
    { destruct Hwf as [_ Hal]. unfold layout_limit. destruct bk; unfold alloc_limit, isize_max in *; lia. }
    assert (Hc0 : match bk with BReloc c0 => c_sz c * c0 <= alloc_limit | _ => True end).
    { destruct Hlim0 as [H|[_ H]]; [|exact H]. destruct bk; try exact I. nia. }
    pose proof (new_vi c bk v0 (wuw w) Hbw) as Hn.
    assert (Hb : exists v1 u1, mem_build c bk (v0, wuw w) = Ok tt (v1, u1) /\ same_user (wuw w) u1 /\ vbk v1 = bk /\
                               c_sz c * vcap v1 <= alloc_limit).
    { destruct bk as [|size|k size| |c0]; try discriminate; destruct Hn as (v1 & u1 & E & HV & Hsu);
        exists v1, u1; (split; [exact E|]); (split; [exact Hsu|]); (split; [exact (vi_bk _ _ _ HV)|]);
        unfold mem_build, bind, emitv, setv in E; cbn in E; injection E as <- _; cbn [vcap]; lia. }
    destruct Hb as (v1 & u1 & E1 & Hsu1 & Hbk1 & Hcap1).
    assert (Hres : resizable_backend (vbk v1)).
    { rewrite Hbk1. destruct bk; try discriminate; [left; reflexivity|right; eexists; reflexivity]. }
    rewrite <- Hbk1 in Hbig.
    destruct (mem_resize_layout_panic c v1 u1 n Hwf Hres Hcap1 Hbig) as (u2 & E2 & Hsu2).
    destruct (mem_drop_ok c v1 u2) as (v3 & u3 & E3 & _ & Hn3 & Hf3 & He3).
    destruct (same_user_events _ _ Hsu1) as (He1 & Hn1 & Hf1). destruct (same_user_events _ _ Hsu2) as (He2 & Hn2 & Hf2).
    assert (Hfu2 : ufuse u2 = None) by congruence.
    assert (Eq : quiet_st (mem_drop c) (v1, u2) = Ok tt (v3, u3)).
    { apply TypeProofs.quiet_st_none; [exact Hfu2|exact E3|congruence]. }
    cbn [exec]. fold v0. unfold bind at 1. rewrite E1.
    unfold unwinding_st, on_unwind. rewrite E2, Eq.
    cbn [res_matches panic_res s_out s_pk s_ret s_st s_evs s_nx].
    split; [reflexivity|split; [reflexivity|split; [reflexivity|]]]. rewrite N.sub_diag.
    constructor.
    - apply (wrep_wv c w _ st eq_refl HW).
    - cbn [wuw]. lia.
    - cbn [wuw]. congruence.
    - cbn [wuw rev app]. congruence. }
  assert (Hlim : match bk with BReloc c0 => c_sz c * N.max n c0 <= alloc_limit | _ => c_sz c * n <= alloc_limit end).
  { destruct Hlim0 as [H|[H _]]; [exact H|lia]. }
  assert (Hb : exists v1 u1, mem_build c bk (v0, wuw w) = Ok tt (v1, u1) /\ VI c v1 {| a_bk := bk; a_xs := [] |} /\
                             same_user (wuw w) u1 /\ vcap v1 = match bk with BReloc c0 => c0 | _ => 0 end).
  { pose proof (new_vi c bk v0 (wuw w) Hbw) as Hn.
    destruct bk as [|size|k size| |c0]; try discriminate; destruct Hn as (v1 & u1 & E & HV & Hsu);
      exists v1, u1; (split; [exact E|]); (split; [exact HV|]); (split; [exact Hsu|]);
      unfold mem_build, bind, emitv, setv in E; cbn in E; injection E as <- _; reflexivity. }
  destruct Hb as (v1 & u1 & E1 & HV1 & Hsu1 & Hc1).
  pose proof (vi_rep _ _ _ HV1) as HR1. cbn [a_xs] in HR1.
  assert (Hres : resizable_backend (vbk v1)).
  { rewrite (vi_bk _ _ _ HV1). cbn [a_bk]. destruct bk; try discriminate; [left; reflexivity|right; eexists; reflexivity]. }
  assert (Hrs : exists v2 u2, mem_resize c n (v1, u1) = Ok tt (v2, u2) /\ Rep c v2 [] /\ vbk v2 = vbk v1 /\ same_user u1 u2).
  { destruct (N.le_gt_cases (vcap v1) n) as [Hle|Hgt].
    - destruct (mem_resize_grow c v1 u1 [] n Hwf HR1 Hres Hle Hmax) as (v2 & u2 & E & H1 & H2 & H3 & H4).
      { destruct bk; try discriminate; lia. }
      exists v2, u2. auto.
    - destruct (mem_resize_shrink c v1 u1 [] n Hwf HR1 Hres) as (v2 & u2 & E & H1 & H2 & H3 & H4).
      { rewrite (rep_len _ _ _ HR1). cbn [length]. lia. }
      { lia. }
      { rewrite Hc1 in *. destruct bk; try discriminate; lia. }
      exists v2, u2. auto. }
  destruct Hrs as (v2 & u2 & E2 & HR2 & Hb2 & Hsu2).
  cbn [exec]. fold v0. unfold bind at 1. rewrite E1.
  rewrite (unwinding_ok _ _ _ _ _ E2).
  assert (Hsp : sp_new c st (unext (wuw w)) dst bk = Some (ok_res [] [] (set_a dst (Some {| a_bk := bk; a_xs := [] |}) st) (unext (wuw w)))).
  { unfold sp_new. destruct bk; try discriminate; reflexivity. }
  rewrite Hsp in Hr. injection Hr as <-.
  destruct (same_user_events _ _ Hsu1) as (He1 & Hn1 & Hf1). destruct (same_user_events _ _ Hsu2) as (He2 & Hn2 & Hf2).
  cbn [res_matches ok_res s_out s_pk s_ret s_st s_evs s_nx].
  split; [reflexivity|split; [reflexivity|split; [reflexivity|]]]. rewrite N.sub_diag.
  constructor.
  - apply wrep_put; [exact HW|]. destruct HV1 as [_ Hbk Hwfb Hcap Hfits]. cbn [a_bk a_xs] in *.
    constructor; cbn [a_bk a_xs]; auto; try congruence.
    destruct bk; try discriminate; exact I.
  - rewrite wuw_put. lia.
  - rewrite wuw_put. congruence.
  - rewrite wuw_put. cbn [rev app]. congruence.
Qed.

(** ** a value of another type offered to the erased push / insert *)
Lemma exec_offer_wrong c w st vid s k (action : vsrc -> M Vec.st unit) r :
  WRep c w st -> ufuse (wuw w) = None ->
  (s = SWrong k \/ s = SBoxWrong k) ->
  sp_offer_wrong c st (unext (wuw w)) vid k = Some r ->
  res_matches c w ((do o <- make_offer c s; offer_into c vid o action;; ret (0, @nil N)) w) r.
Proof.
  intros HW Hfuse Hs Hr. unfold sp_offer_wrong in Hr.
  destruct (get_a vid st) as [av|] eqn:Hg; [|discriminate].
  destruct (N.eqb_spec k (c_ty c)) as [|Hne]; [discriminate|]. injection Hr as <-.
  set (t := tok c (unext (wuw w))).
  assert (Emk : exists o, make_offer c s w = Ok o (bump w) /\ f_checked o = true /\ f_ty o = k /\ f_drop o = DOwned t).
  { destruct Hs as [-> | ->]; eexists; (split; [reflexivity|]); cbn [f_checked f_ty f_drop]; auto. }
  destruct Emk as (o & Emk & Hck & Hty & Hdr).
  unfold bind at 1. rewrite Emk.
  destruct (quiet_drop_fresh c o t (bump w) (or_introl Hdr)) as (w' & Eq & Hwv & Hn & Hf & He).
  assert (Eo : offer_into c vid o action (bump w) = Panic PType w').
  { unfold offer_into, unwinding. apply bind_panic. unfold on_unwind.
    rewrite Hck, Hty. unfold bind at 1. unfold assert_.
    destruct (N.eqb_spec k (c_ty c)) as [|_]; [contradiction|]. unfold raise. rewrite Eq. reflexivity. }
  rewrite (bind_panic _ _ _ _ _ Eo).
  cbn [res_matches panic_res s_out s_pk s_ret s_st s_evs s_nx].
  split; [reflexivity|split; [reflexivity|split; [reflexivity|]]].
  replace (unext (wuw w) + 1 - unext (wuw w)) with (1 + 0) by lia.
  apply step_ok_bump. constructor.
  - apply (wrep_wv c (bump w) w' st Hwv). apply wrep_bump. exact HW.
  - rewrite Hn. lia.
  - rewrite Hf. exact Hfuse.
  - exact He.
Qed.

(** ** a removal handle whose downcast to another type is refused *)
Lemma exec_down_wrong c w st vid k idx r0 :
  cfg_wf c -> WRep c w st -> ufuse (wuw w) = None ->
  sp_take c st (unext (wuw w)) vid k (match k with TPop => 0 | _ => idx end) KDrop = Some r0 ->
  res_matches c w (exec c (ODownWrong vid k idx) w)
    (if s_out r0 =? 0 then {| s_out := 0; s_pk := 0; s_ret := [1; c_sz c; 0; 0; 0]; s_evs := s_evs r0;
                              s_st := s_st r0; s_nx := s_nx r0 |} else r0).
Proof.
  intros Hwf HW Hfuse Hr.
  set (idx' := match k with TPop => 0 | _ => idx end) in *.
  assert (Hpop : k = TPop -> idx' = 0) by (intros ->; reflexivity).
  pose proof (exec_take c w st Erased vid k idx' KDrop r0 Hwf HW Hfuse Hpop (fun d Hin => match Hin with end) Hr) as Hm.
  assert (Eopen : temp_open c vid k idx = temp_open c vid k idx').
  { unfold idx', temp_open. destruct k; reflexivity. }
  unfold take_prog in Hm. cbn [exec]. rewrite Eopen.
  unfold bind at 1 in Hm. unfold bind at 1.
  destruct (temp_open c vid k idx' w) as [[h|] w1|p w1|f]; cbn [res_matches] in *.
  - cbn [apply_sink known_of] in Hm. unfold bind in Hm. unfold bind.
    destruct (on_vec vid (temp_drop c false h) w1) as [[] w2|p w2|f]; unfold ret in *; cbn [res_matches] in *.
    + destruct Hm as (H1 & H2 & H3 & H4). rewrite H1. cbn [N.eqb s_out s_pk s_ret s_st s_evs s_nx]. auto.
    + rewrite (proj1 Hm). cbn [N.eqb]. exact Hm.
    + exact Hm.
  - unfold ret in *. cbn [res_matches] in *. rewrite (proj1 Hm). cbn [N.eqb]. exact Hm.
  - rewrite (proj1 Hm). cbn [N.eqb]. exact Hm.
  - exact Hm.
Qed.

(** ** writing through element handles *)
Lemma sp_upd_eq i t xs : sp_upd i t xs = upd i t xs.
Proof. reflexivity. Qed.

Lemma vi_upd c vv a i t v' :
  VI c vv a -> Rep c v' (upd i t (a_xs a)) -> vcap v' = vcap vv -> vbk v' = vbk vv ->
  VI c v' (with_xs a (sp_upd i t (a_xs a))).
Proof.
  intros [HR Hbk Hwf Hcap Hfits] HR' Hc Hb. constructor; cbn [with_xs a_bk a_xs]; auto; try congruence.
  destruct (acap c (a_bk a)); [congruence|exact I].
Qed.

Lemma elem_tok c vv a i : VI c vv a -> (i < length (a_xs a))%nat -> tok_ok (szn c) (nth i (a_xs a) 0).
Proof.
  intros HV Hi. pose proof (rep_tok _ _ _ (vi_rep _ _ _ HV)) as Ht. rewrite Forall_forall in Ht.
  apply Ht. apply nth_In. exact Hi.
Qed.

Lemma exec_write c w st hk vid idx r :
  WRep c w st -> ufuse (wuw w) = None ->
  sp_write c st (unext (wuw w)) vid idx = Some r ->
  res_matches c w (exec c (OWrite hk vid idx) w) r.
Proof.
  intros HW Hfuse Hr. unfold sp_write in Hr.
  destruct (get_a vid st) as [av|] eqn:Hg; [|discriminate].
  destruct (wrep_get c w st vid av HW Hg) as (vv & Hgv & HV).
  pose proof (vi_rep _ _ _ HV) as HR. pose proof (rep_len _ _ _ HR) as Hlen.
  cbv zeta in Hr. set (xs := a_xs av) in *.
  cbn [exec]. rewrite (bind_ok _ _ _ _ _ (peek_vec_ok vid w vv Hgv)). rewrite Hlen.
  unfold bind at 1. unfold assert_.
  destruct (N.ltb_spec idx (N.of_nat (length xs))) as [Hlt|Hge]; injection Hr as <-.
  - set (i := N.to_nat idx). assert (Hi : (i < length xs)%nat) by (unfold i; lia).
    assert (Hidx : idx = N.of_nat i) by (unfold i; lia).
    set (t := nth i xs 0). set (n := tok c (unext (wuw w))).
    unfold ret at 1. rewrite Hidx.
    pose proof (read_elem c vv (wuw w) xs i HR Hi) as Er.
    rewrite (bind_ok _ _ _ _ _ (on_vec_ok vid _ w vv _ vv (wuw w) Hgv Er)).
    set (w1 := put_vec vid (Some vv) (wuw w) w).
    pose proof (elem_tok c vv av i HV Hi) as Ht. fold xs in Ht. fold t in Ht.
    unfold bind at 1. unfold decode. fold t. rewrite (dec_enc _ _ Ht). unfold ret at 1.
    unfold bind at 1. unfold freshw at 1. fold n.
    set (w2 := {| wv := wv w1; wuw := {| ulog := ulog (wuw w1); unext := unext (wuw w1) + 1; ufuse := ufuse (wuw w1) |} |}).
    destruct (write_elem c vv (wuw w2) xs i n HR Hi (tok_tok_ok c _)) as (v' & Ew & HR' & Hl' & Hc' & Hg' & Hb' & Hm').
    assert (Hgv2 : get_vec vid w2 = Some vv) by (apply get_vec_put_same).
    unfold enc_c. rewrite (bind_ok _ _ _ _ _ (on_vec_ok vid _ w2 vv tt v' (wuw w2) Hgv2 Ew)).
    set (w3 := put_vec vid (Some v') (wuw w2) w2).
    unfold bind, harness_drop, ret.
    assert (Hrep3 : WRep c w3 (set_a vid (Some (with_xs av (sp_upd i n xs))) st)).
    { intros k. unfold w3, w2, w1, put_vec, set_a. cbn [wv]. rewrite !slot_set_nth.
      destruct (Nat.eqb_spec k vid) as [->|Hne]; [|apply HW].
      apply (vi_upd c vv av i n v' HV HR' Hc' Hb'). }
    cbn [res_matches ok_res s_out s_pk s_ret s_st s_evs s_nx].
    destruct (c_dg c) eqn:Hdg; unfold emitw; cbn [res_matches];
      (split; [reflexivity|split; [reflexivity|split; [reflexivity|]]]);
      constructor; cbn [wuw wv ok_res s_nx s_evs s_st]; auto.
    + unfold w3, w2, w1. cbn [wuw put_vec emit unext]. lia.
    + unfold uevents, drop_ev. rewrite Hdg. unfold w3, w2, w1. cbn [wuw put_vec emit ulog filter is_user_event rev app]. reflexivity.
    + unfold w3, w2, w1. cbn [wuw put_vec unext]. lia.
    + unfold drop_ev. rewrite Hdg. reflexivity.
  - unfold raise. cbn [res_matches panic_res s_out s_pk s_ret s_st s_evs s_nx].
    split; [reflexivity|split; [reflexivity|split; [reflexivity|]]]. rewrite N.sub_diag.
    apply step_ok_refl; assumption.
Qed.

Lemma exec_swap c w st v1 i v2 j r :
  WRep c w st -> ufuse (wuw w) = None ->
  sp_swap c st (unext (wuw w)) v1 i v2 j = Some r ->
  res_matches c w (exec c (OSwap 0 v1 i v2 j) w) r.
Proof.
  intros HW Hfuse Hr. unfold sp_swap in Hr.
  destruct (Nat.eqb_spec v1 v2) as [|Hne]; [discriminate|].
  destruct (get_a v1 st) as [a|] eqn:Hga; [|discriminate].
  destruct (get_a v2 st) as [b|] eqn:Hgb; [|discriminate].
  destruct (wrep_get c w st v1 a HW Hga) as (va & Hgva & HVa).
  destruct (wrep_get c w st v2 b HW Hgb) as (vb & Hgvb & HVb).
  pose proof (vi_rep _ _ _ HVa) as HRa. pose proof (rep_len _ _ _ HRa) as Hla.
  pose proof (vi_rep _ _ _ HVb) as HRb. pose proof (rep_len _ _ _ HRb) as Hlb.
  cbn [exec]. rewrite (bind_ok _ _ _ _ _ (peek_vec_ok v1 w va Hgva)).
  rewrite (bind_ok _ _ _ _ _ (peek_vec_ok v2 w vb Hgvb)). rewrite Hla, Hlb.
  unfold bind at 1. unfold assert_.
  assert (Hpanic : forall w0, w0 = w -> r = panic_res PIndex [] st (unext (wuw w)) ->
            res_matches c w (Panic PIndex w0) r).
  { intros w0 -> ->. cbn [res_matches panic_res s_out s_pk s_ret s_st s_evs s_nx].
    split; [reflexivity|split; [reflexivity|split; [reflexivity|]]]. rewrite N.sub_diag. apply step_ok_refl; assumption. }
  destruct (N.ltb_spec i (N.of_nat (length (a_xs a)))) as [Hi|Hi]; cbn [negb orb] in Hr.
  2:{ injection Hr as <-. unfold raise. apply Hpanic; reflexivity. }
  unfold ret at 1. unfold bind at 1.
  destruct (N.ltb_spec j (N.of_nat (length (a_xs b)))) as [Hj|Hj]; cbn [negb] in Hr.
  2:{ injection Hr as <-. unfold raise. apply Hpanic; reflexivity. }
  injection Hr as <-. unfold ret at 1. cbn [N.eqb].
  set (ii := N.to_nat i). set (jj := N.to_nat j).
  assert (Hii : (ii < length (a_xs a))%nat) by (unfold ii; lia). assert (Hjj : (jj < length (a_xs b))%nat) by (unfold jj; lia).
  assert (Ei : i = N.of_nat ii) by (unfold ii; lia). assert (Ej : j = N.of_nat jj) by (unfold jj; lia).
  rewrite Ei, Ej.
  set (x := nth ii (a_xs a) 0). set (y := nth jj (a_xs b) 0).
  (* read a[i] *)
  rewrite (bind_ok _ _ _ _ _ (on_vec_ok v1 _ w va _ va (wuw w) Hgva (read_elem c va (wuw w) (a_xs a) ii HRa Hii))).
  set (w1 := put_vec v1 (Some va) (wuw w) w).
  assert (Hg1b : get_vec v2 w1 = Some vb).
  { rewrite get_vec_slot. unfold w1, put_vec. cbn [wv]. rewrite slot_set_nth.
    destruct (Nat.eqb_spec v2 v1); [congruence|]. rewrite <- get_vec_slot. exact Hgvb. }
  (* read b[j] *)
  rewrite (bind_ok _ _ _ _ _ (on_vec_ok v2 _ w1 vb _ vb (wuw w1) Hg1b (read_elem c vb (wuw w1) (a_xs b) jj HRb Hjj))).
  set (w2 := put_vec v2 (Some vb) (wuw w1) w1).
  assert (Hg2a : get_vec v1 w2 = Some va).
  { rewrite get_vec_slot. unfold w2, put_vec. cbn [wv]. rewrite slot_set_nth.
    destruct (Nat.eqb_spec v1 v2); [congruence|]. rewrite <- get_vec_slot. apply get_vec_put_same. }
  (* a[i] := y *)
  destruct (write_elem c va (wuw w2) (a_xs a) ii y HRa Hii (elem_tok c vb b jj HVb Hjj)) as (va' & Ewa & HRa' & _ & Hca & _ & Hba & _).
  rewrite (bind_ok _ _ _ _ _ (on_vec_ok v1 _ w2 va tt va' (wuw w2) Hg2a Ewa)).
  set (w3 := put_vec v1 (Some va') (wuw w2) w2).
  assert (Hg3b : get_vec v2 w3 = Some vb).
  { rewrite get_vec_slot. unfold w3, put_vec. cbn [wv]. rewrite slot_set_nth.
    destruct (Nat.eqb_spec v2 v1); [congruence|]. rewrite <- get_vec_slot. apply get_vec_put_same. }
  (* b[j] := x *)
  destruct (write_elem c vb (wuw w3) (a_xs b) jj x HRb Hjj (elem_tok c va a ii HVa Hii)) as (vb' & Ewb & HRb' & _ & Hcb & _ & Hbb & _).
  rewrite (bind_ok _ _ _ _ _ (on_vec_ok v2 _ w3 vb tt vb' (wuw w3) Hg3b Ewb)).
  unfold ret.
  cbn [res_matches ok_res s_out s_pk s_ret s_st s_evs s_nx].
  split; [reflexivity|split; [reflexivity|split; [reflexivity|]]]. rewrite N.sub_diag.
  constructor.
  - intros k. unfold w3, w2, w1, put_vec, set_a. cbn [wv]. rewrite !slot_set_nth.
    destruct (Nat.eqb_spec k v2) as [->|Hk2].
    + apply (vi_upd c vb b jj x vb' HVb HRb' Hcb Hbb).
    + destruct (Nat.eqb_spec k v1) as [->|Hk1]; [|apply HW].
      apply (vi_upd c va a ii y va' HVa HRa' Hca Hba).
  - rewrite wuw_put. unfold w3, w2, w1. rewrite !wuw_put. lia.
  - rewrite wuw_put. unfold w3, w2, w1. rewrite !wuw_put. exact Hfuse.
  - rewrite wuw_put. unfold w3, w2, w1. rewrite !wuw_put. reflexivity.
Qed.

(** ** lazy clones as value sources of push / insert *)


Lemma exec_offer_lazy c w st a vid idx d src sidx r :
  cfg_wf c -> WRep c w st -> ufuse (wuw w) = None -> adm_vec c w vid ->
  sp_offer_lazy c st (unext (wuw w)) vid idx src sidx = Some r ->
  res_matches c w ((do o <- make_offer c (SLazy d src sidx);
                    let o := match a with Typed => unchecked o | Erased => o end in
                    offer_into c vid o (raw_action c idx);; ret (0, @nil N)) w) r.
Proof.
  intros Hwf HW Hfuse Hadm Hr. unfold sp_offer_lazy in Hr.
  destruct (Nat.eqb_spec src vid) as [|Hne]; [discriminate|].
  destruct (get_a vid st) as [av|] eqn:Hga; [|discriminate].
  destruct (get_a src st) as [bv|] eqn:Hgb; [|discriminate].
  destruct (wrep_get c w st vid av HW Hga) as (va & Hgva & HVa).
  destruct (wrep_get c w st src bv HW Hgb) as (vb & Hgvb & HVb).
  pose proof (vi_rep _ _ _ HVb) as HRb. pose proof (rep_len _ _ _ HRb) as Hlb.
  cbn [make_offer]. unfold Interp.elem_bytes.
  unfold bind at 1. unfold bind at 1. unfold bind at 1. rewrite (peek_vec_ok src w vb Hgvb).
  unfold bind at 1. unfold assert_. rewrite Hlb.
  destruct (N.ltb_spec sidx (N.of_nat (length (a_xs bv)))) as [Hlt|Hge].
  2:{ injection Hr as <-. unfold raise.
      cbn [res_matches panic_res s_out s_pk s_ret s_st s_evs s_nx].
      split; [reflexivity|split; [reflexivity|split; [reflexivity|]]]. rewrite N.sub_diag.
      apply step_ok_refl; assumption. }
  set (j := N.to_nat sidx). assert (Hj : (j < length (a_xs bv))%nat) by (unfold j; lia).
  assert (Ej : sidx = N.of_nat j) by (unfold j; lia).
  set (t0 := nth j (a_xs bv) 0) in *.
  unfold ret at 1. rewrite Ej.
  rewrite (on_vec_ok src _ w vb _ vb (wuw w) Hgvb (read_elem c vb (wuw w) (a_xs bv) j HRb Hj)).
  set (w1 := put_vec src (Some vb) (wuw w) w).
  unfold ret at 1. cbv zeta. fold t0.
  set (o := {| f_ty := c_ty c; f_src := VClone (enc (szn c) t0) false; f_checked := true; f_drop := DNone |}).
  set (o' := match a with Typed => unchecked o | Erased => o end).
  assert (Hty' : f_ty o' = c_ty c) by (unfold o'; destruct a; reflexivity).
  assert (Hsrc' : f_src o' = VClone (enc (szn c) t0) false) by (unfold o'; destruct a; reflexivity).
  assert (Hdrop' : f_drop o' = DNone) by (unfold o'; destruct a; reflexivity).
  assert (Hg1a : get_vec vid w1 = Some va).
  { rewrite get_vec_slot. unfold w1, put_vec. cbn [wv]. rewrite slot_set_nth.
    destruct (Nat.eqb_spec vid src); [congruence|]. rewrite <- get_vec_slot. exact Hgva. }
  assert (HW1 : WRep c w1 st) by (apply (wrep_put_same c w st src vb bv); assumption).
  pose proof (raw_action_clone_spec c va av (wuw w1) idx (enc (szn c) t0) t0 false Hwf HVa
                (dec_enc _ _ (elem_tok c vb bv j HVb Hj)) Hfuse (Hadm va Hgva)) as Hspec.
  cbv zeta in Hspec. fold (tok c (unext (wuw w))) in Hr.
  assert (Hnx1 : unext (wuw w1) = unext (wuw w)) by reflexivity. rewrite Hnx1 in Hspec.
  unfold offer_into, unwinding.
  destruct (put_value c av idx (tok c (unext (wuw w)))) as [xs'|p]; injection Hr as <-.
  - destruct Hspec as (v' & u' & E & HV' & Hn' & Hf' & He').
    unfold bind at 1. unfold bind at 1. unfold on_unwind. rewrite offer_check_pass by exact Hty'.
    rewrite Hsrc'. rewrite (on_vec_ok vid _ w1 va tt v' u' Hg1a E).
    unfold finish_offer. rewrite Hdrop'. unfold ret.
    cbn [res_matches ok_res s_out s_pk s_ret s_st s_evs s_nx].
    split; [reflexivity|split; [reflexivity|split; [reflexivity|]]].
    constructor.
    + apply wrep_put; [exact HW1|exact HV'].
    + rewrite wuw_put. rewrite Hn'. cbn [s_nx ok_res]. lia.
    + rewrite wuw_put. exact Hf'.
    + rewrite wuw_put. rewrite He'. reflexivity.
  - unfold bind at 1. unfold bind at 1. unfold on_unwind. rewrite offer_check_pass by exact Hty'.
    rewrite Hsrc'. rewrite (on_vec_panic vid _ w1 va p va (wuw w1) Hg1a Hspec).
    unfold quiet, drop_offer. rewrite Hdrop'. unfold ret. cbn [wuw wv ulog unext ufuse].
    cbn [res_matches panic_res s_out s_pk s_ret s_st s_evs s_nx].
    split; [reflexivity|split; [reflexivity|split; [reflexivity|]]]. rewrite N.sub_diag.
    constructor; cbn [wuw wv ulog unext ufuse].
    + apply (wrep_wv c (put_vec vid (Some va) (wuw w1) w1)); [reflexivity|].
      apply (wrep_put_same c w1 st vid va av); assumption.
    + unfold w1. rewrite !wuw_put. destruct (wuw w); cbn; lia.
    + exact Hfuse.
    + unfold w1. rewrite !wuw_put. unfold uevents. destruct (wuw w); reflexivity.
Qed.

(** ** removal handles of another vector as value sources of push / insert *)
Lemma sp_take_elem_out c st nx v a k i sk r : sp_take_elem c st nx v a k i sk = Some r -> s_out r <> 1.
Proof.
  unfold sp_take_elem. cbv zeta. intros H.
  repeat match type of H with
  | Some _ = Some _ => injection H as <-
  | None = Some _ => discriminate H
  | context [match ?x with _ => _ end] => destruct x eqn:?
  | context [if ?x then _ else _] => destruct x eqn:?
  end; cbn [ok_res panic_res s_out]; discriminate.
Qed.
Lemma sp_sink_out c : forall sk st nx v a k i r, sp_sink c st nx v a k i sk = Some r -> s_out r <> 1.
Proof.
  induction sk as [| |d|d j| |sk' IH|n0 d0 sk' IH|n0 sk' IH|]; intros st nx v a k i r H; cbn [sp_sink] in H;
    try (exact (sp_take_elem_out _ _ _ _ _ _ _ _ _ H)).
  - cbv zeta in H. destruct (sp_sink c _ (nx + 1) v _ k i sk') as [r'|] eqn:E; [|discriminate].
    apply IH in E. injection H as <-. exact E.
  - destruct (Nat.eqb d0 v); [discriminate|]. destruct (get_a d0 st) as [b|]; [|discriminate].
    destruct (sp_lazy_pushes c b (nth i (a_xs a) 0) nx (N.to_nat n0)) as [[[b1 e1] n1] o1].
    destruct o1.
    + destruct (sp_sink c _ n1 v a k i sk') as [r'|] eqn:E; [|discriminate].
      apply IH in E. injection H as <-. exact E.
    + injection H as <-. cbn [panic_res s_out]. discriminate.
  - cbv zeta in H. destruct (sp_sink c st (nx + n0) v a k i sk') as [r'|] eqn:E; [|discriminate].
    apply IH in E. injection H as <-. exact E.
Qed.
Lemma sp_take_none c st nx v k idx sk r :
  sp_take c st nx v k idx sk = Some r -> s_out r = 1 -> r = none_res st nx.
Proof.
  unfold sp_take. cbv zeta. intros H Ho.
  destruct (get_a v st) as [a|]; [|discriminate].
  destruct k.
  - destruct (length (a_xs a) =? 0)%nat.
    + injection H as <-; reflexivity.
    + exfalso. exact (sp_sink_out _ _ _ _ _ _ _ _ _ H Ho).
  - destruct (idx <? N.of_nat (length (a_xs a))).
    + exfalso. exact (sp_sink_out _ _ _ _ _ _ _ _ _ H Ho).
    + injection H as <-; cbn [panic_res s_out] in Ho; discriminate.
  - destruct (idx <? N.of_nat (length (a_xs a))).
    + exfalso. exact (sp_sink_out _ _ _ _ _ _ _ _ _ H Ho).
    + injection H as <-; cbn [panic_res s_out] in Ho; discriminate.
Qed.

Lemma exec_offer_temp c w st v idx src k sidx r :
  cfg_wf c -> WRep c w st -> ufuse (wuw w) = None -> adm_vec c w v ->
  sp_offer_temp c st (unext (wuw w)) v idx src k sidx = Some r ->
  res_matches c w ((do o <- make_offer c (STemp src k sidx);
                    offer_into c v o (raw_action c idx);; ret (0, @nil N)) w) r.
Proof.
  intros Hwf HW Hfuse Hadm Hr. unfold sp_offer_temp in Hr.
  set (sidx' := match k with TPop => 0 | _ => sidx end) in *.
  set (sk := match idx with None => KPush v | Some i => KIns v i end) in *.
  destruct (sp_take c st (unext (wuw w)) src k sidx' sk) as [r0|] eqn:E0; [|discriminate]. injection Hr as <-.
  assert (Hpop : k = TPop -> sidx' = 0) by (intros ->; reflexivity).
  assert (Hadm' : forall d, In d (sink_dsts sk) -> adm_many c w d (sink_count sk d)).
  { unfold sk. destruct idx; cbn [sink_dsts sink_count]; intros d [<-|[]]; rewrite Nat.eqb_refl; apply adm_vec_many1; exact Hadm. }
  pose proof (exec_take c w st Erased src k sidx' sk r0 Hwf HW Hfuse Hpop Hadm' E0) as Hm.
  assert (Eopen : temp_open c src k sidx = temp_open c src k sidx').
  { unfold sidx', temp_open. destruct k; reflexivity. }
  unfold take_prog in Hm. cbn [make_offer]. rewrite Eopen.
  unfold bind at 1 in Hm. unfold bind at 1. unfold bind at 1.
  destruct (temp_open c src k sidx' w) as [[h|] w1|p w1|f]; cbn [res_matches] in *.
  - (* the handle exists: the same computation as the sink *)
    assert (Hsame : (do o <- (do bs <- on_vec src (temp_bytes c h);
                              ret {| f_ty := c_ty c; f_src := VBytes bs false; f_checked := true; f_drop := DTemp src h |});
                     offer_into c v o (raw_action c idx);; ret (0, @nil N)) w1
                    = (do r <- apply_sink c src (known_of Erased) h sk; ret (0, r)) w1).
    { unfold sk. destruct idx as [i|]; cbn [apply_sink raw_action]; unfold bind;
        destruct (on_vec src (temp_bytes c h) w1) as [bs w2|p w2|f]; try reflexivity; unfold ret at 1;
        match goal with |- context [offer_into ?a ?b ?o ?act w2] => destruct (offer_into a b o act w2) as [[] w3|p w3|f] end;
        reflexivity. }
    unfold bind at 1 in Hsame. unfold bind at 1 in Hsame.
    match goal with |- res_matches c w ?X _ => match type of Hsame with ?Y = _ => change X with Y end end.
    rewrite Hsame.
    destruct ((do r <- apply_sink c src (known_of Erased) h sk; ret (0, r)) w1) as [[out rets] w2|p w2|f] eqn:Es;
      cbn [res_matches] in *.
    + assert (Ho : out = 0).
      { unfold bind in Es. destruct (apply_sink c src (known_of Erased) h sk w1); try discriminate. unfold ret in Es. congruence. }
      subst out. rewrite (proj1 Hm). cbn [N.eqb]. exact Hm.
    + rewrite (proj1 Hm). cbn [N.eqb]. exact Hm.
    + exact Hm.
  - (* pop on an empty source: the caller's unwrap panics *)
    unfold ret in Hm. cbn [res_matches] in Hm. destruct Hm as (Ho & Hp & Hrt & Hso).
    rewrite Ho. cbn [N.eqb]. pose proof (sp_take_none _ _ _ _ _ _ _ _ E0 Ho) as ->.
    unfold raise. cbn [res_matches panic_res none_res s_out s_pk s_ret s_st s_evs s_nx] in *.
    split; [reflexivity|split; [reflexivity|split; [reflexivity|exact Hso]]].
  - rewrite (proj1 Hm). cbn [N.eqb]. exact Hm.
  - exact Hm.
Qed.

(** ** a lazy clone of a value the caller owns (user-defined cloneable value of the element type) *)
Lemma exec_offer_userlazy c w st vid idx d r :
  cfg_wf c -> WRep c w st -> ufuse (wuw w) = None -> adm_vec c w vid ->
  sp_offer_userlazy c st (unext (wuw w)) vid idx = Some r ->
  res_matches c w ((do o <- make_offer c (SLazyUser d);
                    offer_into c vid o (raw_action c idx);; ret (0, @nil N)) w) r.
Proof.
  intros Hwf HW Hfuse Hadm Hr. unfold sp_offer_userlazy in Hr.
  destruct (get_a vid st) as [av|] eqn:Hga; [|discriminate].
  destruct (wrep_get c w st vid av HW Hga) as (va & Hgva & HVa).
  cbv zeta in Hr.
  set (t := tok c (unext (wuw w))) in *. set (n := tok c (unext (wuw w) + 1)) in *.
  set (o := {| f_ty := c_ty c; f_src := VClone (enc (szn c) t) true; f_checked := true; f_drop := DAfter t |}).
  assert (Emk : make_offer c (SLazyUser d) w = Ok o (bump w)) by reflexivity.
  unfold bind at 1. rewrite Emk.
  set (w0 := bump w).
  assert (Hg0 : get_vec vid w0 = Some va) by exact Hgva.
  assert (Hnx0 : unext (wuw w0) = unext (wuw w) + 1) by reflexivity.
  pose proof (raw_action_clone_spec c va av (wuw w0) idx (enc (szn c) t) t true Hwf HVa
                (dec_enc _ _ (tok_tok_ok c _)) Hfuse (Hadm va Hgva)) as Hspec.
  cbv zeta in Hspec. rewrite Hnx0 in Hspec. fold n in Hspec.
  unfold offer_into, unwinding.
  destruct (put_value c av idx n) as [xs'|p]; injection Hr as <-.
  - destruct Hspec as (v' & u' & E & HV' & Hn' & Hf' & He').
    unfold bind at 1. unfold bind at 1. unfold on_unwind. rewrite offer_check_pass by reflexivity.
    cbn [f_src o]. rewrite (on_vec_ok vid _ w0 va tt v' u' Hg0 E).
    unfold finish_offer. cbn [f_drop o]. unfold bind, harness_drop, ret.
    cbn [res_matches ok_res s_out s_pk s_ret s_st s_evs s_nx].
    assert (Hrep : WRep c (put_vec vid (Some v') u' w0) (set_a vid (Some (with_xs av xs')) st)).
    { apply wrep_put; [apply wrep_bump; exact HW|exact HV']. }
    destruct (c_dg c) eqn:Hdg; unfold emitw; cbn [res_matches];
      (split; [reflexivity|split; [reflexivity|split; [reflexivity|]]]);
      constructor; cbn [wuw wv put_vec emit unext ufuse ok_res s_nx s_evs]; auto; try (rewrite Hn'; lia);
      try (rewrite ?uevents_emit_user by reflexivity; rewrite He'; unfold drop_ev; rewrite Hdg; reflexivity).
  - unfold bind at 1. unfold bind at 1. unfold on_unwind. rewrite offer_check_pass by reflexivity.
    cbn [f_src o]. rewrite (on_vec_panic vid _ w0 va p va (wuw w0) Hg0 Hspec).
    unfold quiet, drop_offer. cbn [f_drop o]. unfold harness_drop.
    cbn [res_matches panic_res s_out s_pk s_ret s_st s_evs s_nx].
    assert (Hrep : WRep c (put_vec vid (Some va) (wuw w0) w0) st).
    { apply (wrep_put_same c w0 st vid va av); [apply wrep_bump; exact HW|exact Hga|exact HVa]. }
    destruct (c_dg c) eqn:Hdg; unfold emitw, ret; cbn [wuw wv put_vec ulog unext ufuse disarm emit res_matches];
      (split; [reflexivity|split; [reflexivity|split; [reflexivity|]]]);
      constructor; cbn [wuw wv ulog unext ufuse panic_res s_nx s_evs s_st]; auto;
      try (apply (wrep_wv c (put_vec vid (Some va) (wuw w0) w0)); [reflexivity|exact Hrep]);
      try (unfold w0, bump; cbn [wuw unext]; lia);
      try (unfold w0, bump; cbn [wuw ufuse]; exact Hfuse);
      try (unfold uevents, drop_ev; rewrite Hdg; unfold w0, bump; cbn [wuw ulog filter is_user_event rev app]; reflexivity).
Qed.

(** ** a lazy clone of an element, downcast: one Clone, the vector untouched *)
Lemma exec_lazy_down c w st d v idx r :
  cfg_wf c -> WRep c w st -> ufuse (wuw w) = None ->
  sp_lazy_down c st (unext (wuw w)) v idx = Some r ->
  res_matches c w (exec c (OLazyDown d v idx) w) r.
Proof.
  intros Hwf HW Hfuse Hr. unfold sp_lazy_down in Hr.
  destruct (get_a v st) as [bv|] eqn:Hgb; [|discriminate].
  destruct (wrep_get c w st v bv HW Hgb) as (vb & Hgvb & HVb).
  pose proof (vi_rep _ _ _ HVb) as HRb. pose proof (rep_len _ _ _ HRb) as Hlb.
  cbn [exec]. unfold Interp.elem_bytes.
  unfold bind at 1. unfold bind at 1. rewrite (peek_vec_ok v w vb Hgvb).
  unfold bind at 1. unfold assert_. rewrite Hlb.
  destruct (N.ltb_spec idx (N.of_nat (length (a_xs bv)))) as [Hlt|Hge].
  2:{ injection Hr as <-. unfold raise.
      cbn [res_matches panic_res s_out s_pk s_ret s_st s_evs s_nx].
      split; [reflexivity|split; [reflexivity|split; [reflexivity|]]]. rewrite N.sub_diag.
      apply step_ok_refl; assumption. }
  set (j := N.to_nat idx). assert (Hj : (j < length (a_xs bv))%nat) by (unfold j; lia).
  assert (Ej : idx = N.of_nat j) by (unfold j; lia).
  set (t0 := nth j (a_xs bv) 0) in *.
  unfold ret at 1. rewrite Ej.
  rewrite (on_vec_ok v _ w vb _ vb (wuw w) Hgvb (read_elem c vb (wuw w) (a_xs bv) j HRb Hj)).
  set (w1 := put_vec v (Some vb) (wuw w) w).
  assert (HW1 : WRep c w1 st) by (apply (wrep_put_same c w st v vb bv); assumption).
  assert (Hg1 : get_vec v w1 = Some vb) by apply get_vec_put_same.
  rewrite Ej, Nat2N.id in Hr. injection Hr as <-.
  unfold ret at 1. cbv zeta. unfold lazy_down, decode. subst t0. rewrite (dec_enc _ _ (elem_tok c vb bv j HVb Hj)).
  unfold bind, ret.
  rewrite (on_vec_ok v _ w1 vb tt vb (wuw w1) Hg1 (user_call_ok vb (wuw w1) Hfuse)).
  set (w2 := put_vec v (Some vb) (wuw w1) w1).
  assert (HW2 : WRep c w2 st) by (apply (wrep_put_same c w1 st v vb bv); assumption).
  unfold freshw, emitw, harness_drop, ret. fold (tok c (unext (wuw w2))).
  assert (Hnx : unext (wuw w2) = unext (wuw w)) by reflexivity. rewrite Hnx.
  cbn [res_matches ok_res s_out s_pk s_ret s_st s_evs s_nx].
  destruct (c_dg c) eqn:Hdg; unfold emitw; cbn [wv wuw];
    (split; [reflexivity|split; [reflexivity|split; [reflexivity|]]]).
  all: constructor; cbn [wv wuw unext ufuse emit].
  all: try (intros n; apply HW2).
  all: try exact Hfuse.
  all: try (cbn [s_nx ok_res]; lia).
  all: unfold uevents, drop_ev; rewrite Hdg; cbn; reflexivity.
Qed.

(** ** values written into the spare capacity, then set_len *)
Fixpoint spare_go (c : cfg) (v : nat) (len : N) (n : nat) (i : N) : M world unit :=
  match n with
  | O => ret tt
  | S n' => do t <- freshw c;
            on_vec v (write_value c (bo c (len + i)) (VBytes (enc_c c t) true));;
            spare_go c v len n' (i + 1)
  end.
Lemma spare_go_eq c v vv : forall n i w,
  (fix go (n : nat) (i : N) {struct n} : M world unit :=
     match n with
     | O => ret tt
     | S n' => do t <- freshw c;
               on_vec v (write_value c (bo c (vlen vv + i)) (VBytes (enc_c c t) true));;
               go n' (i + 1)
     end) n i w = spare_go c v (vlen vv) n i w.
Proof.
  induction n as [|n IH]; intros i w; [reflexivity|].
  cbn [spare_go]. unfold bind. destruct (freshw c w) as [t w1|p w1|f]; try reflexivity.
  destruct (on_vec v (write_value c (bo c (vlen vv + i)) (VBytes (enc_c c t) true)) w1) as [x w2|p w2|f]; try reflexivity.
  apply IH.
Qed.
Lemma exec_spare_unfold c a v k w :
  exec c (OSpareWrite a v k) w
  = (do vv <- peek_vec v; spare_go c v (vlen vv) (N.to_nat k) 0;; on_vec v (set_len c (vlen vv + k));; ret (0, @nil N)) w.
Proof.
  cbn [exec].
  assert (Hext : forall S A B (m : M S A) (f g : A -> M S B) s, (forall a s', f a s' = g a s') -> bind m f s = bind m g s).
  { intros S0 A B m f g s H. unfold bind. destruct (m s); auto. }
  apply Hext. intros vv w1.
  assert (Hm : forall S A B (m m' : M S A) (f : A -> M S B) s, m s = m' s -> bind m f s = bind m' f s).
  { intros S0 A B m m' f s H. unfold bind. rewrite H. reflexivity. }
  apply Hm. apply spare_go_eq.
Qed.

Lemma spare_go_spec c v vv0 : store_ok c vv0 -> forall n done w,
  get_vec v w = Some (with_mem (mwrite (N.to_nat (vlen vv0) * szn c) (flat (szn c) done) (vmem vv0)) vv0) ->
  N.of_nat (N.to_nat (vlen vv0) + length done + n) <= vcap vv0 ->
  exists w',
    spare_go c v (vlen vv0) n (N.of_nat (length done)) w = Ok tt w' /\
    get_vec v w' = Some (with_mem (mwrite (N.to_nat (vlen vv0) * szn c)
                                          (flat (szn c) (done ++ next_ids c (unext (wuw w)) n)) (vmem vv0)) vv0) /\
    (forall k, k <> v -> slot k (wv w') = slot k (wv w)) /\
    unext (wuw w') = unext (wuw w) + N.of_nat n /\ ufuse (wuw w') = ufuse (wuw w) /\ ulog (wuw w') = ulog (wuw w).
Proof.
  intros Hst. induction n as [|n IH]; intros done w Hg Hcap.
  - exists w. cbn [spare_go next_ids seq map]. rewrite app_nil_r. unfold ret. repeat split; auto. lia.
  - cbn [spare_go]. unfold bind at 1. unfold freshw. fold (tok c (unext (wuw w))).
    set (t := tok c (unext (wuw w))). set (w1 := bump w).
    change ({| wv := wv w; wuw := {| ulog := ulog (wuw w); unext := unext (wuw w) + 1; ufuse := ufuse (wuw w) |} |}) with w1.
    set (L := N.to_nat (vlen vv0)) in *.
    set (m := mwrite (L * szn c) (flat (szn c) done) (vmem vv0)) in *.
    set (vi := with_mem m vv0) in *.
    assert (Hg1 : get_vec v w1 = Some vi) by exact Hg.
    assert (Hlen_m : length m = length (vmem vv0)).
    { unfold m. apply mwrite_length. rewrite flat_length. unfold store_ok in Hst. rewrite cap_bytes in Hst. nia. }
    assert (Hsti : store_ok c vi) by (unfold store_ok, vi; cbn [vcap vmem with_mem]; rewrite Hlen_m; exact Hst).
    assert (Ebo : bo c (vlen vv0 + N.of_nat (length done)) = ((L + length done) * szn c)%nat).
    { unfold bo, szn, L. lia. }
    pose proof (write_value_ok c vi (wuw w1) (L + length done) t true Hsti) as Ew.
    assert (Hle1 : N.of_nat (L + length done + 1) <= vcap vi) by (unfold vi; cbn [vcap with_mem]; lia).
    specialize (Ew Hle1).
    unfold bind at 1. rewrite Ebo. unfold enc_c.
    rewrite (on_vec_ok v _ w1 vi tt _ (wuw w1) Hg1 Ew).
    set (w2 := put_vec v (Some (with_mem (mwrite ((L + length done) * szn c) (enc (szn c) t) (vmem vi)) vi)) (wuw w1) w1).
    assert (Em2 : with_mem (mwrite ((L + length done) * szn c) (enc (szn c) t) (vmem vi)) vi
                  = with_mem (mwrite (L * szn c) (flat (szn c) (done ++ [t])) (vmem vv0)) vv0).
    { unfold vi. cbn [vmem with_mem]. unfold with_mem. cbn [vlen vcap vgen vbk]. f_equal.
      unfold m. rewrite flat_app. cbn [flat app]. rewrite app_nil_r.
      replace ((L + length done) * szn c)%nat with (L * szn c + length (flat (szn c) done))%nat by (rewrite flat_length; lia).
      apply mwrite_mwrite_app. unfold store_ok in Hst. rewrite cap_bytes in Hst. nia. }
    destruct (IH (done ++ [t]) w2) as (w' & E & Hg' & Ho' & Hn' & Hf' & Hl').
    { unfold w2. rewrite get_vec_put_same. f_equal. exact Em2. }
    { rewrite app_length. cbn [length]. lia. }
    rewrite app_length in E. cbn [length] in E.
    replace (N.of_nat (length done) + 1) with (N.of_nat (length done + 1)) by lia.
    exists w'. split; [exact E|]. split; [|split; [|split; [|split]]].
    + rewrite Hg'. f_equal. f_equal. f_equal. rewrite <- app_assoc. cbn [app]. f_equal.
      rewrite next_ids_S. reflexivity.
    + intros k Hk. rewrite (Ho' k Hk). unfold w2, put_vec. cbn [wv]. rewrite slot_set_nth.
      destruct (Nat.eqb_spec k v); [contradiction|reflexivity].
    + rewrite Hn'. unfold w2. rewrite wuw_put. unfold w1, bump. cbn [wuw unext]. lia.
    + rewrite Hf'. reflexivity.
    + rewrite Hl'. reflexivity.
Qed.

Lemma exec_spare_write c w st a v k r :
  cfg_wf c -> WRep c w st -> ufuse (wuw w) = None ->
  sp_spare_write c st (unext (wuw w)) v k = Some r ->
  (forall vv, get_vec v w = Some vv -> vlen vv + k <= vcap vv) ->
  res_matches c w (exec c (OSpareWrite a v k) w) r.
Proof.
  intros Hwf HW Hfuse Hr Hadm. unfold sp_spare_write in Hr.
  destruct (get_a v st) as [av|] eqn:Hga; [|discriminate]. injection Hr as <-.
  destruct (wrep_get c w st v av HW Hga) as (vv & Hg & HV).
  pose proof (vi_rep _ _ _ HV) as HR. pose proof (rep_len _ _ _ HR) as Hlen. specialize (Hadm vv Hg).
  set (xs := a_xs av) in *. set (n := N.to_nat k). set (ts := next_ids c (unext (wuw w)) n).
  rewrite exec_spare_unfold. rewrite (bind_ok _ _ _ _ _ (peek_vec_ok v w vv Hg)).
  assert (Hst : store_ok c vv) by apply (rep_store _ _ _ HR).
  destruct (spare_go_spec c v vv Hst n [] w) as (w' & E & Hg' & Ho' & Hn' & Hf' & Hl').
  { cbn [flat]. rewrite mwrite_nil, with_mem_id. exact Hg. }
  { cbn [length]. unfold n. lia. }
  cbn [length] in E. change (N.of_nat 0) with 0 in E. fold n. rewrite (bind_ok _ _ _ _ _ E).
  cbn [app] in Hg'. fold ts in Hg'.
  set (L := N.to_nat (vlen vv)) in *.
  set (v3 := with_mem (mwrite (L * szn c) (flat (szn c) ts) (vmem vv)) vv) in *.
  assert (HL : L = length xs) by (unfold L; lia).
  assert (Hlts : length ts = n) by apply next_ids_length.
  assert (Hb : (L * szn c + length (flat (szn c) ts) <= length (vmem vv))%nat).
  { rewrite flat_length, Hlts. unfold store_ok in Hst. rewrite cap_bytes in Hst. unfold n. nia. }
  assert (Hst3 : store_ok c v3).
  { unfold store_ok, v3. cbn [vcap vmem with_mem]. rewrite mwrite_length; [exact Hst|exact Hb]. }
  assert (Hp3 : Held c v3 0 xs).
  { change (HeldM (szn c) (vmem v3) 0 xs). unfold v3. cbn [vmem with_mem].
    apply heldm_mwrite_before; [exact (rep_held c vv xs HR)|lia|lia]. }
  assert (Ht3 : Held c v3 (length xs) ts).
  { change (HeldM (szn c) (vmem v3) (length xs) ts). unfold v3. cbn [vmem with_mem]. rewrite <- HL.
    apply heldm_mwrite_at. lia. }
  assert (Eset : set_len c (vlen vv + k) (v3, wuw w') = Ok tt (with_len (vlen vv + k) v3, wuw w')).
  { unfold set_len, bind, getv, assert_. cbn [fst snd]. unfold v3 at 1. cbn [vcap with_mem].
    rewrite (proj2 (N.leb_le _ _) Hadm), Bool.orb_true_r. reflexivity. }
  rewrite (bind_ok _ _ _ _ _ (on_vec_ok v _ w' v3 tt _ _ Hg' Eset)). unfold ret.
  cbn [res_matches ok_res s_out s_pk s_ret s_st s_evs s_nx].
  split; [reflexivity|split; [reflexivity|split; [reflexivity|]]].
  constructor.
  - intros j. unfold put_vec, set_a. cbn [wv]. rewrite !slot_set_nth.
    destruct (Nat.eqb_spec j v) as [->|Hne]; [|rewrite (Ho' j Hne); apply HW].
    destruct HV as [_ Hbk Hbw Hcap Hfits]. constructor; cbn [with_xs a_bk a_xs with_len v3 with_mem vbk vcap]; auto.
    apply rep_of_held; cbn [vlen vcap with_len v3 with_mem].
    + rewrite app_length, Hlts. unfold n. lia.
    + exact Hadm.
    + apply (rep_usize _ _ _ HR).
    + exact Hst3.
    + apply held_app; [exact Hp3|exact Ht3].
    + apply Forall_app. split; [apply (rep_tok _ _ _ HR)|apply next_ids_tok_ok].
  - rewrite wuw_put, Hn'. unfold n. cbn [s_nx ok_res]. lia.
  - rewrite wuw_put, Hf'. exact Hfuse.
  - rewrite wuw_put. unfold uevents. rewrite Hl'. reflexivity.
Qed.

(** ** swap between a removal handle and an element handle of another vector *)
Lemma remove_upd (i : nat) (t : N) (xs : list N) : (i < length xs)%nat -> sp_remove i (sp_upd i t xs) = sp_remove i xs.
Proof.
  intros Hi. unfold sp_remove, sp_upd.
  rewrite firstn_app_l by (rewrite firstn_length_le; lia).
  assert (E : skipn (S i) (firstn i xs ++ t :: skipn (S i) xs) = skipn (S i) xs).
  { replace (S i) with (length (firstn i xs ++ [t])) at 1 by (rewrite app_length, firstn_length_le; cbn; lia).
    change (firstn i xs ++ t :: skipn (S i) xs) with (firstn i xs ++ [t] ++ skipn (S i) xs). rewrite app_assoc.
    apply skipn_app_l. reflexivity. }
  rewrite E. reflexivity.
Qed.
Lemma nth_upd_same (i : nat) (t : N) (xs : list N) : (i < length xs)%nat -> nth i (sp_upd i t xs) 0 = t.
Proof.
  intros Hi. unfold sp_upd. rewrite app_nth2 by (rewrite firstn_length_le; lia).
  rewrite firstn_length_le by lia. rewrite Nat.sub_diag. reflexivity.
Qed.

Lemma set_nth_comm {A} (x y d : A) : forall n m l, n <> m -> set_nth n x d (set_nth m y d l) = set_nth m y d (set_nth n x d l).
Proof.
  induction n as [|n IH]; intros m l Hne; destruct m as [|m]; try congruence; destruct l as [|z l]; cbn [set_nth]; try reflexivity.
  - f_equal. apply IH. congruence.
  - f_equal. apply IH. congruence.
Qed.

Lemma exec_swap_temp c w st pr v1 i v2 j r :
  cfg_wf c -> WRep c w st -> ufuse (wuw w) = None -> pr <> 0 ->
  sp_swap_temp c st (unext (wuw w)) v1 i v2 j = Some r ->
  res_matches c w (exec c (OSwap pr v1 i v2 j) w) r.
Proof.
  intros Hwf HW Hfuse Hpr Hr. unfold sp_swap_temp in Hr.
  destruct (Nat.eqb_spec v1 v2) as [|Hne]; [discriminate|].
  destruct (get_a v1 st) as [a|] eqn:Hga; [|discriminate].
  destruct (get_a v2 st) as [b|] eqn:Hgb; [|discriminate].
  destruct (wrep_get c w st v1 a HW Hga) as (va & Hgva & HVa).
  destruct (wrep_get c w st v2 b HW Hgb) as (vb & Hgvb & HVb).
  pose proof (vi_rep _ _ _ HVa) as HRa. pose proof (rep_len _ _ _ HRa) as Hla.
  pose proof (vi_rep _ _ _ HVb) as HRb. pose proof (rep_len _ _ _ HRb) as Hlb.
  cbn [exec]. rewrite (bind_ok _ _ _ _ _ (peek_vec_ok v1 w va Hgva)).
  rewrite (bind_ok _ _ _ _ _ (peek_vec_ok v2 w vb Hgvb)). rewrite Hla, Hlb.
  unfold bind at 1. unfold assert_.
  assert (Hpanic : forall w0, w0 = w -> r = panic_res PIndex [] st (unext (wuw w)) ->
            res_matches c w (Panic PIndex w0) r).
  { intros w0 -> ->. cbn [res_matches panic_res s_out s_pk s_ret s_st s_evs s_nx].
    split; [reflexivity|split; [reflexivity|split; [reflexivity|]]]. rewrite N.sub_diag. apply step_ok_refl; assumption. }
  destruct (N.ltb_spec i (N.of_nat (length (a_xs a)))) as [Hi|Hi]; cbn [negb orb] in Hr.
  2:{ injection Hr as <-. unfold raise. apply Hpanic; reflexivity. }
  unfold ret at 1. unfold bind at 1.
  destruct (N.ltb_spec j (N.of_nat (length (a_xs b)))) as [Hj|Hj]; cbn [negb] in Hr.
  2:{ injection Hr as <-. unfold raise. apply Hpanic; reflexivity. }
  injection Hr as <-. unfold ret at 1.
  destruct (N.eqb_spec pr 0) as [|_]; [contradiction|].
  set (ii := N.to_nat i). set (jj := N.to_nat j).
  assert (Hii : (ii < length (a_xs a))%nat) by (unfold ii; lia). assert (Hjj : (jj < length (a_xs b))%nat) by (unfold jj; lia).
  assert (Ei : i = N.of_nat ii) by (unfold ii; lia). assert (Ej : j = N.of_nat jj) by (unfold jj; lia).
  set (xs := a_xs a) in *. set (ys := a_xs b) in *.
  set (x := nth ii xs 0). set (y := nth jj ys 0).
  assert (Hreq : temp_req TRemove ii xs) by (split; [exact Hii|discriminate]).
  destruct (temp_open_some c w st v1 a TRemove i ii HW Hga Hreq (fun _ => Ei)) as (va0 & h & Hgva0 & _ & Hfor & Eopen).
  rewrite Hgva in Hgva0. injection Hgva0 as <-.
  rewrite (bind_ok _ _ _ _ _ Eopen).
  set (wl := with_len (N.of_nat ii) va).
  set (w1 := put_vec v1 (Some wl) (wuw w) w).
  assert (Hg1 : forall u0 w0, get_vec v1 (put_vec v1 (Some wl) u0 w0) = Some wl) by (intros; apply get_vec_put_same).
  assert (Ew1 : put_vec v1 (Some wl) (wuw w) w1 = w1) by (unfold w1; apply put_put_same).
  (* the handle's pointer and value *)
  rewrite (bind_ok _ _ _ _ _ (on_vec_ok v1 _ w1 wl _ wl (wuw w) (Hg1 _ _) (temp_ptr_ok c va (wuw w) xs TRemove ii h Hfor))).
  rewrite Ew1.
  assert (Er : read_ptr c (ptr_at c va (N.of_nat ii)) (wl, wuw w) = Ok (enc (szn c) x) (wl, wuw w)).
  { unfold wl. rewrite read_ptr_with_len. rewrite (read_elem c va (wuw w) xs ii HRa Hii). reflexivity. }
  rewrite (bind_ok _ _ _ _ _ (on_vec_ok v1 _ w1 wl _ wl (wuw w) (Hg1 _ _) Er)).
  rewrite Ew1.
  (* the element of the other vector *)
  assert (Hg1b : get_vec v2 w1 = Some vb).
  { unfold w1. rewrite get_vec_put_other' by congruence. exact Hgvb. }
  rewrite Ej.
  rewrite (bind_ok _ _ _ _ _ (on_vec_ok v2 _ w1 vb _ vb (wuw w1) Hg1b (read_elem c vb (wuw w1) ys jj HRb Hjj))).
  set (w2 := put_vec v2 (Some vb) (wuw w1) w1).
  assert (Hg2a : get_vec v1 w2 = Some wl).
  { unfold w2. rewrite get_vec_put_other' by congruence. apply Hg1. }
  (* handle := y *)
  destruct (write_elem c va (wuw w2) xs ii y HRa Hii (elem_tok c vb b jj HVb Hjj)) as (va' & Ewa & HRa' & Hla' & Hca & Hgena & Hba & _).
  assert (Ewa' : write_ptr c (ptr_at c va (N.of_nat ii)) (enc (szn c) y) (wl, wuw w2) = Ok tt (with_len (N.of_nat ii) va', wuw w2)).
  { unfold wl. rewrite write_ptr_with_len, Ewa. reflexivity. }
  rewrite (bind_ok _ _ _ _ _ (on_vec_ok v1 _ w2 wl tt _ (wuw w2) Hg2a Ewa')).
  set (w3 := put_vec v1 (Some (with_len (N.of_nat ii) va')) (wuw w2) w2).
  assert (Hg3b : get_vec v2 w3 = Some vb).
  { unfold w3. rewrite get_vec_put_other' by congruence. unfold w2. apply get_vec_put_same. }
  (* v2[j] := x *)
  destruct (write_elem c vb (wuw w3) ys jj x HRb Hjj (elem_tok c va a ii HVa Hii)) as (vb' & Ewb & HRb' & _ & Hcb & _ & Hbb & _).
  rewrite (bind_ok _ _ _ _ _ (on_vec_ok v2 _ w3 vb tt vb' (wuw w3) Hg3b Ewb)).
  set (w4 := put_vec v2 (Some vb') (wuw w3) w3).
  (* the world in which the handle - now holding y - is alive *)
  set (a' := with_xs a (sp_upd ii y xs)).
  set (b' := with_xs b (sp_upd jj x ys)).
  set (st' := set_a v2 (Some b') (set_a v1 (Some a') st)).
  set (w' := put_vec v1 (Some va') (wuw w4) w4).
  assert (HVa' : VI c va' a') by (apply (vi_upd c va a ii y va' HVa HRa' Hca Hba)).
  assert (HVb' : VI c vb' b') by (apply (vi_upd c vb b jj x vb' HVb HRb' Hcb Hbb)).
  assert (HW' : WRep c w' st').
  { intros k. unfold w', w4, w3, w2, w1, put_vec, st', set_a. cbn [wv]. rewrite !slot_set_nth.
    destruct (Nat.eqb_spec k v1) as [->|Hk1].
    - destruct (Nat.eqb_spec v1 v2); [contradiction|]. exact HVa'.
    - destruct (Nat.eqb_spec k v2) as [->|Hk2]; [exact HVb'|apply HW]. }
  assert (Hga' : get_a v1 st' = Some a').
  { unfold st'. rewrite get_a_slot. unfold set_a. rewrite !slot_set_nth.
    destruct (Nat.eqb_spec v1 v2); [contradiction|]. rewrite Nat.eqb_refl. reflexivity. }
  assert (Hreq' : temp_req TRemove ii (a_xs a')).
  { cbn [a' with_xs a_xs]. unfold temp_req. rewrite sp_upd_length' by exact Hii. exact Hreq. }
  assert (Hgv' : get_vec v1 w' = Some va') by apply get_vec_put_same.
  assert (Hfor' : temp_for c va' (a_xs a') TRemove ii h).
  { destruct Hfor as (H1 & H2 & H3 & H4). cbn [a' with_xs a_xs]. unfold temp_for.
    rewrite sp_upd_length' by exact Hii. repeat split; auto. rewrite H4. unfold ptr_at. rewrite Hgena. reflexivity. }
  assert (Hfuse' : ufuse (wuw w') = None) by exact Hfuse.
  destruct (sink_drop c w' st' v1 a' TRemove ii va' h HW' Hreq' HVa' Hfor' Hfuse' false) as (wz & Ez & Hso).
  assert (Ew4 : put_vec v1 (Some (with_len (N.of_nat ii) va')) (wuw w') w' = w4).
  { unfold w'. rewrite put_put_same. unfold w4, w3, put_vec. cbn [wv wuw]. f_equal.
    rewrite (set_nth_comm _ _ _ v1 v2) by exact Hne. rewrite set_nth_same. reflexivity. }
  rewrite Ew4 in Ez. cbn [apply_sink] in Ez. unfold bind in Ez.
  unfold bind at 1.
  destruct (on_vec v1 (temp_drop c false h) w4) as [u0 wq|p wq|f]; try discriminate.
  unfold ret in Ez. injection Ez as <-. unfold ret.
  cbn [res_matches ok_res s_out s_pk s_ret s_st s_evs s_nx].
  split; [reflexivity|split; [reflexivity|split; [reflexivity|]]]. rewrite N.sub_diag.
  destruct Hso as [R Nx F E]. constructor.
  - intros k. specialize (R k). unfold st', set_a in R. unfold set_a. rewrite !slot_set_nth in R. rewrite !slot_set_nth.
    destruct (Nat.eqb k v1) eqn:E1; destruct (Nat.eqb k v2) eqn:E2; try exact R.
    + apply Nat.eqb_eq in E1, E2. congruence.
    + cbn [a' with_xs a_xs take_result a_bk] in R. rewrite (remove_upd ii y xs Hii) in R. exact R.
  - rewrite Nx. reflexivity.
  - exact F.
  - rewrite E. cbn [a' with_xs a_xs]. rewrite (nth_upd_same ii y xs Hii). reflexivity.
Qed.

(** ** view geometry on the fixed-capacity backends *)
Lemma exec_views c w st v r :
  WRep c w st -> ufuse (wuw w) = None ->
  sp_views c st (unext (wuw w)) v = Some r ->
  res_matches c w (exec c (OViews v) w) r.
Proof.
  intros HW Hfuse Hr. unfold sp_views in Hr.
  destruct (get_a v st) as [av|] eqn:Hg; [|discriminate].
  destruct (wrep_get c w st v av HW Hg) as (vv & Hgv & HV).
  destruct (acap c (a_bk av)) as [cp|] eqn:Ea; [|discriminate]. injection Hr as <-.
  pose proof (vi_cap _ _ _ HV) as Hc. rewrite Ea in Hc.
  pose proof (rep_len _ _ _ (vi_rep _ _ _ HV)) as Hl.
  cbn [exec]. rewrite (bind_ok _ _ _ _ _ (peek_vec_ok v w vv Hgv)). cbv zeta. unfold ret. rewrite Hc, Hl.
  cbn [res_matches ok_res s_out s_pk s_ret s_st s_evs s_nx].
  split; [reflexivity|split; [reflexivity|split; [reflexivity|]]]. rewrite N.sub_diag.
  apply step_ok_refl; assumption.
Qed.

(** ** splice whose replacement items are lazy clones of elements of another vector *)
Lemma lazy_events_eq srcs ids : lazy_fill_events srcs ids = sp_lazy_fill_events srcs ids.
Proof. reflexivity. Qed.
Lemma fresh_ids_next' c nx n : CloneProofs.fresh_ids c nx n = next_ids c nx n.
Proof. reflexivity. Qed.

Lemma splice_drop_prep_panic_lazy c v u known d srcs p cl :
  ufuse u = None -> splice_prep c known d cl (v, u) = Panic p (v, u) ->
  exists u', splice_drop c known d cl (map (lazy_item c) srcs) (v, u) = Panic p (v, u') /\
    unext u' = unext u /\ ufuse u' = None /\ uevents u' = uevents u.
Proof.
  intros Hf Hprep. exists u. split; [|auto].
  unfold splice_drop. apply bind_panic. unfold unwinding_st, on_unwind. rewrite Hprep.
  unfold quiet_st. cbn [fst snd]. rewrite drop_items_lazy. cbn [fst snd]. rewrite Hf.
  destruct u as [l nx fz]. cbn [ufuse] in Hf. subst fz. reflexivity.
Qed.

Section LazyItems.
Variables (c : cfg) (w : world) (src : nat) (bv : avec) (vb : vec).
Hypothesis Hgvb : get_vec src w = Some vb.
Hypothesis HVb : VI c vb bv.
Let ys := a_xs bv.

Lemma elem_bytes_same ww k :
  same_world w ww -> (k < length ys)%nat ->
  Interp.elem_bytes c src (N.of_nat k) ww = Ok (enc (szn c) (nth k ys 0)) (put_vec src (Some vb) (wuw ww) ww).
Proof.
  intros Hs Hk.
  assert (Hg : get_vec src ww = Some vb) by (rewrite (same_get _ _ _ Hs); exact Hgvb).
  pose proof (rep_len _ _ _ (vi_rep _ _ _ HVb)) as Hlen. fold ys in Hlen.
  unfold Interp.elem_bytes. unfold bind at 1. rewrite (peek_vec_ok src ww vb Hg).
  unfold bind at 1. unfold assert_. rewrite Hlen.
  destruct (N.ltb_spec (N.of_nat k) (N.of_nat (length ys))) as [_|Hge]; [|lia].
  unfold ret at 1.
  exact (on_vec_ok src _ ww vb _ vb (wuw ww) Hg (read_elem c vb (wuw ww) ys k (vi_rep _ _ _ HVb) Hk)).
Qed.

Lemma make_items_lazy : forall n i ww,
  same_world w ww -> (0 < length ys)%nat ->
  exists ww', make_items c (RLazy src) n (N.of_nat i) None ww
              = Ok (map (lazy_item c) (map (fun k => nth (k mod length ys) ys 0) (seq i n))) ww' /\ same_world w ww'.
Proof.
  induction n as [|n IH]; intros i ww Hs Hpos.
  - exists ww. cbn [make_items seq map]. split; [reflexivity|exact Hs].
  - cbn [make_items seq map].
    assert (Hg : get_vec src ww = Some vb) by (rewrite (same_get _ _ _ Hs); exact Hgvb).
    pose proof (rep_len _ _ _ (vi_rep _ _ _ HVb)) as Hlen. fold ys in Hlen.
    unfold bind at 1. unfold bind at 1. rewrite (peek_vec_ok src ww vb Hg).
    assert (Hidx : (if vlen vb =? 0 then 0 else N.of_nat i mod vlen vb) = N.of_nat (i mod length ys)).
    { rewrite Hlen. destruct (N.eqb_spec (N.of_nat (length ys)) 0) as [E|E]; [lia|].
      rewrite <- Nat2N.inj_mod by lia. reflexivity. }
    rewrite Hidx.
    assert (Hk : (i mod length ys < length ys)%nat) by (apply Nat.mod_upper_bound; lia).
    unfold bind at 1. rewrite (elem_bytes_same ww _ Hs Hk).
    set (ww1 := put_vec src (Some vb) (wuw ww) ww).
    assert (Hs1 : same_world w ww1) by (apply same_put; assumption).
    unfold ret at 1.
    replace (N.of_nat i + 1) with (N.of_nat (S i)) by lia.
    destruct (IH (S i) ww1 Hs1 Hpos) as (ww' & E & Hs').
    exists ww'. split; [|exact Hs'].
    unfold bind at 1. rewrite E. reflexivity.
Qed.

Lemma make_items_lazy_empty n ww :
  same_world w ww -> length ys = 0%nat -> (0 < n)%nat ->
  make_items c (RLazy src) n 0 None ww = Panic PIndex ww.
Proof.
  intros Hs Hz Hn. destruct n as [|n]; [lia|]. cbn [make_items].
  assert (Hg : get_vec src ww = Some vb) by (rewrite (same_get _ _ _ Hs); exact Hgvb).
  pose proof (rep_len _ _ _ (vi_rep _ _ _ HVb)) as Hlen. fold ys in Hlen. rewrite Hz in Hlen.
  unfold bind at 1. unfold bind at 1. rewrite (peek_vec_ok src ww vb Hg). rewrite Hlen. cbn [N.of_nat N.eqb].
  unfold bind at 1. unfold Interp.elem_bytes. unfold bind at 1. rewrite (peek_vec_ok src ww vb Hg).
  unfold bind at 1. unfold assert_. rewrite Hlen. cbn [N.of_nat N.ltb N.compare]. reflexivity.
Qed.
End LazyItems.

Lemma exec_splice_lazy c w st a vid sb eb pat f src n claimed r :
  cfg_wf c -> WRep c w st -> ufuse (wuw w) = None ->
  sp_splice_lazy c st (unext (wuw w)) vid sb eb pat f src n claimed = Some r ->
  adm_splice c w vid sb eb claimed ->
  res_matches c w (exec c (OSplice a vid sb eb pat f (RLazy src) n None claimed) w) r.
Proof.
  intros Hwf HW Hfuse Hr Hadm. unfold sp_splice_lazy in Hr.
  destruct (Nat.eqb_spec src vid) as [|Hnes]; [discriminate|].
  destruct (get_a vid st) as [av|] eqn:Hg; [|discriminate].
  destruct (get_a src st) as [bv|] eqn:Hgb; [|discriminate].
  destruct (wrep_get c w st vid av HW Hg) as (vv & Hgv & HV).
  destruct (wrep_get c w st src bv HW Hgb) as (vb & Hgvb & HVb).
  pose proof (vi_rep _ _ _ HV) as HR. pose proof (rep_len _ _ _ HR) as Hlen.
  specialize (Hadm vv Hgv). rewrite Hlen in Hadm.
  set (xs := a_xs av) in *. set (ys := a_xs bv) in *. cbv zeta in Hr.
  set (nn := N.to_nat n) in *.
  set (cl := N.to_nat claimed) in *.
  assert (Hcl' : claimed = N.of_nat cl) by (unfold cl; lia).
  cbn [exec]. rewrite (bind_ok _ _ _ _ _ (peek_vec_ok vid w vv Hgv)).
  destruct ((0 <? n) && (length ys =? 0)%nat) eqn:Eempty.
  { (* the source is empty: at(0) panics before anything happens *)
    apply andb_prop in Eempty. destruct Eempty as [E1 E2]. apply N.ltb_lt in E1. apply Nat.eqb_eq in E2.
    injection Hr as <-.
    rewrite (bind_panic _ _ _ _ _ (make_items_lazy_empty c w src bv vb Hgvb HVb nn w (same_refl w) E2 ltac:(unfold nn; lia))).
    cbn [res_matches panic_res s_out s_pk s_ret s_st s_evs s_nx].
    split; [reflexivity|split; [reflexivity|split; [reflexivity|]]]. rewrite N.sub_diag. apply step_ok_refl; assumption. }
  set (srcs := lazy_srcs ys nn) in *.
  assert (Hlsrcs : length srcs = nn) by (unfold srcs, lazy_srcs; rewrite map_length, seq_length; reflexivity).
  assert (Hsrcs_tok : Forall (tok_ok (szn c)) srcs).
  { unfold srcs, lazy_srcs. apply Forall_forall. intros x Hx. apply in_map_iff in Hx. destruct Hx as (k & <- & Hk).
    apply in_seq in Hk. destruct (Nat.eq_dec (length ys) 0) as [Hz|Hnz].
    - (* no item: n = 0 *) exfalso. rewrite Hz in Eempty. cbn [Nat.eqb] in Eempty. rewrite andb_true_r in Eempty.
      apply N.ltb_ge in Eempty. unfold nn in Hk. lia.
    - pose proof (rep_tok _ _ _ (vi_rep _ _ _ HVb)) as Ht. rewrite Forall_forall in Ht. apply Ht. apply nth_In.
      apply Nat.mod_upper_bound. exact Hnz. }
  assert (Hmk : exists ww, make_items c (RLazy src) nn 0 None w = Ok (map (lazy_item c) srcs) ww /\ same_world w ww).
  { destruct (Nat.eq_dec (length ys) 0) as [Hz|Hnz].
    - assert (Hn0 : nn = 0%nat).
      { rewrite Hz in Eempty. cbn [Nat.eqb] in Eempty. rewrite andb_true_r in Eempty. apply N.ltb_ge in Eempty. unfold nn. lia. }
      exists w. unfold srcs. rewrite Hn0. cbn [make_items lazy_srcs seq map]. split; [reflexivity|apply same_refl].
    - assert (Hpos : (0 < length ys)%nat) by lia.
      exact (make_items_lazy c w src bv vb Hgvb HVb nn 0 w (same_refl w) Hpos). }
  destruct Hmk as (w0 & Emk & Hsame).
  rewrite (bind_ok _ _ _ _ _ Emk).
  set (items := map (lazy_item c) srcs).
  assert (HW0 : WRep c w0 st) by (intros k; rewrite (proj2 Hsame k); apply HW).
  assert (Hgv0 : get_vec vid w0 = Some vv) by (rewrite (same_get _ _ _ Hsame); exact Hgv).
  assert (Hu0 : wuw w0 = wuw w) by (apply (proj1 Hsame)).
  assert (Hfuse0 : ufuse (wuw w0) = None) by (rewrite Hu0; exact Hfuse).
  assert (Hnx0 : unext (wuw w0) = unext (wuw w)) by (rewrite Hu0; reflexivity).
  assert (Hev0 : uevents (wuw w0) = uevents (wuw w)) by (rewrite Hu0; reflexivity).
  rewrite Hlen.
  (* relating a result relative to w0 to the step of w *)
  assert (Hstep : forall w' st' evs d0, step_ok c w0 w' st' evs d0 -> step_ok c w w' st' evs d0).
  { intros w' st' evs d0 [R Nx F E]. constructor; auto; try (rewrite Nx, Hnx0; lia); try (rewrite E, Hev0; reflexivity). }
  destruct (range_of_bounds usize_max (N.of_nat (length xs)) (to_sb sb) (to_sb eb)) as [[sN eN]|] eqn:Erb.
  - destruct (into_range_ok _ sb eb (vv, wuw w0) sN eN Erb) as (Eir & Hse & Hel).
    set (s := N.to_nat sN) in *. set (e := N.to_nat eN) in *.
    assert (HsN : sN = N.of_nat s) by (unfold s; rewrite N2Nat.id; reflexivity).
    assert (HeN : eN = N.of_nat e) by (unfold e; rewrite N2Nat.id; reflexivity).
    assert (Hse' : (s <= e)%nat) by lia. assert (Hel' : (e <= length xs)%nat) by lia.
    rewrite (bind_ok _ _ _ _ _ (unwinding_okw _ _ _ _ _ (on_vec_ok vid _ w0 vv _ vv (wuw w0) Hgv0 Eir))). cbn [fst snd].
    set (w1 := put_vec vid (Some vv) (wuw w0) w0).
    set (vr := with_len (N.of_nat s) vv).
    pose proof (drain_new_spec c vv (wuw w0) xs s e HR Hse' Hel') as Edn. rewrite <- HsN, <- HeN in Edn.
    rewrite (bind_ok _ _ _ _ _ (on_vec_ok vid _ w1 vv _ _ _ (get_vec_put_same vid (Some vv) (wuw w0) w0) Edn)).
    rewrite HsN, HeN. fold vr.
    set (w2 := put_vec vid (Some vr) (wuw w1) w1).
    set (d := {| dcur := {| ci := N.of_nat s; ce := N.of_nat e |}; dstart := N.of_nat s; dend := N.of_nat e;
                 dorig := N.of_nat (length xs) |}).
    cbn [dcur].
    assert (Hwk0 : Walking w0 vid vv s w2 []).
    { constructor.
      - apply get_vec_put_same.
      - intros k Hne. unfold w2, w1, put_vec. cbn [wv]. rewrite !slot_set_nth.
        destruct (Nat.eqb_spec k vid); [contradiction|reflexivity].
      - reflexivity.
      - exact Hfuse0.
      - reflexivity. }
    destruct (sp_walk xs pat s e) as [[[[rets ds] i'] j']|] eqn:Ewalk; [|discriminate].
    set (finish := fun k : cursor => on_vec vid (splice_drop c (known_of a) (with_cur k d) claimed items)).
    destruct (walk_spec c w0 vid av vv s e a HV Hse' Hel' finish pat s e w2 [] rets ds i' j'
                Hwk0 (le_n s) Hse' (le_n e) Ewalk) as (ww' & Ew & Hwk & Hb1 & Hb2 & Hb3).
    cbn [app] in Hwk.
    rewrite (bind_ok _ _ _ _ _ Ew). cbn [fst snd].
    destruct Hwk as [Hv Ho Hnx Hf He].
    assert (Hcl : cur_len (dcur d) = N.of_nat (e - s)) by (unfold d, cur_len; cbn [dcur ci ce]; lia).
    (* the vector as a leaked / refused iterator leaves it *)
    assert (Hkept : forall u', WRep c (put_vec vid (Some vr) u' ww') (set_a vid (Some (with_xs av (firstn s xs))) st)).
    { intros u' k. unfold put_vec, set_a. cbn [wv]. rewrite !slot_set_nth.
      destruct (Nat.eqb_spec k vid) as [->|Hne].
      - apply vi_prefix; [exact HV|exact (Nat.le_trans _ _ _ Hse' Hel')].
      - rewrite (Ho k Hne). apply HW0. }
    destruct f.
    + (* the iterator is dropped *)
      pose proof (range_alive_any c vv xs s e i' j' HR Hb1 Hb2 Hb3 Hel') as HA. fold vr in HA.
      assert (Hnl : N.of_nat s + claimed + N.of_nat (length xs - e) = N.of_nat (s + cl + (length xs - e))) by lia.
      rewrite Hnl in Hr.
      assert (Hpanic : forall p, splice_prep c (known_of a) (with_cur {| ci := N.of_nat i'; ce := N.of_nat j' |} d) (N.of_nat cl) (vr, wuw ww')
                                 = Panic p (vr, wuw ww') ->
                r = panic_res p (flat_map (drop_ev c) ds)
                              (set_a vid (Some (with_xs av (firstn s xs))) st) (unext (wuw w)) ->
                res_matches c w ((finish {| ci := N.of_nat i'; ce := N.of_nat j' |};; ret (0, N.of_nat (e - s) :: rets)) ww') r).
      { intros p Hprep ->.
        destruct (splice_drop_prep_panic_lazy c vr (wuw ww') (known_of a) _ srcs p _ Hf Hprep) as (u' & Ed & Hn' & Hf' & He').
        assert (Efin : finish {| ci := N.of_nat i'; ce := N.of_nat j' |} ww' = Panic p (put_vec vid (Some vr) u' ww')).
        { unfold finish. apply (on_vec_panic vid _ ww' vr p vr u' Hv). rewrite Hcl' at 1. exact Ed. }
        rewrite (bind_panic _ _ _ _ _ Efin).
        cbn [res_matches panic_res s_out s_pk s_ret s_st s_evs s_nx].
        split; [reflexivity|split; [reflexivity|split; [reflexivity|]]]. rewrite N.sub_diag.
        apply Hstep. constructor.
        - apply Hkept.
        - rewrite wuw_put. lia.
        - rewrite wuw_put. exact Hf'.
        - rewrite wuw_put. rewrite He', He. reflexivity. }
      rewrite Hcl.
      destruct (N.ltb_spec usize_max (N.of_nat (s + cl + (length xs - e)))) as [Hov|Hnov].
      * injection Hr as Hr. apply (Hpanic POverflow); [|symmetry; exact Hr].
        apply (splice_prep_overflow c vr (wuw ww') xs s e i' j' (known_of a) cl HA Hov).
      * destruct (match acap c (a_bk av) with Some cap => cap <? N.of_nat (s + cl + (length xs - e)) | None => false end) eqn:Ecap.
        -- injection Hr as Hr. apply (Hpanic PCapacity); [|symmetry; exact Hr].
           destruct (acap c (a_bk av)) as [cap|] eqn:Ea; [|discriminate].
           apply N.ltb_lt in Ecap.
           assert (Hcapv : vcap vv = cap). { pose proof (vi_cap _ _ _ HV) as H. rewrite Ea in H. exact H. }
           apply (splice_prep_capacity c vr (wuw ww') xs s e i' j' (known_of a) cl HA).
           ++ unfold vr. cbn [with_len vbk]. rewrite (vi_bk _ _ _ HV). eapply acap_fixed; eauto.
           ++ unfold vr. cbn [with_len vcap]. lia.
           ++ exact Hnov.
        -- injection Hr as <-.
           assert (Hroom : N.of_nat (s + cl + (length xs - e)) <= vcap vr \/
                           grow_ok c vr (N.of_nat (s + cl + (length xs - e)))).
           { destruct (acap c (a_bk av)) as [cap|] eqn:Ea.
             - left. apply N.ltb_ge in Ecap. pose proof (vi_cap _ _ _ HV) as H. rewrite Ea in H.
               unfold vr. cbn [with_len vcap]. lia.
             - assert (Hnf : ~ fixed_backend (vbk vv)). { rewrite (vi_bk _ _ _ HV). eapply acap_none_not_fixed; eauto. }
               cbv zeta in Hadm.
               assert (Hx : sN + claimed + (N.of_nat (length xs) - eN) = N.of_nat (s + cl + (length xs - e))) by lia.
               rewrite Hx in Hadm.
               destruct Hadm as [H1|[H1|[H1|H1]]]; [left; exact H1|contradiction|lia|right; exact H1]. }
           destruct (splice_drop_lazy c vr (wuw ww') xs s e i' j' (known_of a) srcs cl Hwf HA Hf Hsrcs_tok Hroom)
             as (v' & u' & Ed & HR' & Hb' & Hn' & Hf' & He' & Hc').
           rewrite Hlsrcs in HR', Hn', He'. rewrite Hnx, Hnx0 in HR', He'. rewrite fresh_ids_next' in HR', He'.
           assert (Efin : finish {| ci := N.of_nat i'; ce := N.of_nat j' |} ww' = Ok tt (put_vec vid (Some v') u' ww')).
           { unfold finish. apply (on_vec_ok vid _ ww' vr tt v' u' Hv). rewrite Hcl' at 1. exact Ed. }
           rewrite (bind_ok _ _ _ _ _ Efin). unfold ret.
           cbn [res_matches ok_res s_out s_pk s_ret s_st s_evs s_nx].
           split; [reflexivity|split; [reflexivity|split; [reflexivity|]]].
           apply Hstep. constructor.
           ++ intros k. unfold put_vec, set_a. cbn [wv]. rewrite !slot_set_nth.
              destruct (Nat.eqb_spec k vid) as [->|Hne].
              ** destruct HV as [HRv Hbk Hbw Hcap Hfits]. constructor; cbn [with_xs a_bk a_xs]; auto.
                 --- unfold vr in Hb'. cbn [with_len vbk] in Hb'. congruence.
                 --- destruct (acap c (a_bk av)) as [cap|] eqn:Ea; [|exact I].
                     apply N.ltb_ge in Ecap. rewrite Hc'; [unfold vr; cbn [with_len vcap]; exact Hcap|].
                     unfold vr. cbn [with_len vcap]. lia.
              ** rewrite (Ho k Hne). apply HW0.
           ++ rewrite wuw_put. rewrite Hn'. cbn [s_nx ok_res]. lia.
           ++ rewrite wuw_put. exact Hf'.
           ++ rewrite wuw_put. rewrite He', He. rewrite !rev_app_distr. rewrite lazy_events_eq.
              assert (Hlt : (length srcs <? cl)%nat = (n <? claimed)).
              { rewrite Hlsrcs. unfold nn, cl. destruct (N.ltb_spec n claimed), (Nat.ltb_spec (N.to_nat n) (N.to_nat claimed)); auto; lia. }
              rewrite Hlsrcs in Hlt. rewrite Hlt.
              destruct (c_dg c), (n <? claimed); cbn [rev app]; rewrite <- ?app_assoc; try rewrite map_rev; reflexivity.
    + (* the iterator is leaked *)
      injection Hr as <-. unfold ret, bind. rewrite Hcl.
      cbn [res_matches ok_res s_out s_pk s_ret s_st s_evs s_nx].
      split; [reflexivity|split; [reflexivity|split; [reflexivity|]]]. rewrite N.sub_diag.
      apply Hstep. constructor.
      * intros k. unfold set_a. rewrite slot_set_nth.
        destruct (Nat.eqb_spec k vid) as [->|Hne].
        -- rewrite get_vec_slot in Hv. rewrite Hv. apply vi_prefix; [exact HV|exact (Nat.le_trans _ _ _ Hse' Hel')].
        -- rewrite (Ho k Hne). apply HW0.
      * lia.
      * exact Hf.
      * exact He.
  - (* invalid range: panics before the vector is touched; the replacement values are destroyed *)
    injection Hr as <-.
    pose proof (into_range_panic _ sb eb (vv, wuw w0) Erb) as Ep.
    pose proof (on_vec_panic vid _ w0 vv _ vv (wuw w0) Hgv0 Ep) as Ep'.
    set (w1 := put_vec vid (Some vv) (wuw w0) w0) in *.
    set (u' := wuw w1).
    assert (Ecl : quiet (on_vec vid (drop_items c items)) w1 = Ok tt (put_vec vid (Some vv) u' w1)).
    { apply quiet_none; [exact Hfuse0| |rewrite wuw_put; exact Hfuse0].
      apply (on_vec_ok vid _ w1 vv tt vv u'); [apply get_vec_put_same|]. unfold items. apply drop_items_lazy. }
    assert (Eu : unwinding (on_vec vid (into_range (N.of_nat (length xs)) sb eb)) (on_vec vid (drop_items c items)) w0
                 = Panic (range_panic sb eb) (put_vec vid (Some vv) u' w1)).
    { unfold unwinding, on_unwind. rewrite Ep'. rewrite Ecl. reflexivity. }
    rewrite (bind_panic _ _ _ _ _ Eu).
    cbn [res_matches panic_res s_out s_pk s_ret s_st s_evs s_nx].
    split; [reflexivity|split; [reflexivity|split; [reflexivity|]]]. rewrite N.sub_diag.
    apply Hstep. constructor.
    + apply (wrep_put_same c w1 st vid vv av); [|assumption|assumption].
      apply (wrep_put_same c w0 st vid vv av); assumption.
    + rewrite wuw_put. unfold u', w1. rewrite wuw_put. lia.
    + rewrite wuw_put. exact Hfuse0.
    + rewrite wuw_put. reflexivity.
Qed.