(** Memory-level lemma library for [AV.Model.Bytes] (pure list reasoning).
    Offsets are [nat].  Everything here is independent of vectors. *)
From AV.Model Require Import Base Bytes.
Local Open Scope nat_scope.

(** ** Generic list helpers (stdlib 8.16 lacks some of these) *)
Lemma firstn_app_l {A} (a b : list A) n : n = length a -> firstn n (a ++ b) = a.
Proof.
  intros ->. rewrite firstn_app, Nat.sub_diag, firstn_all.
  cbn [firstn]. apply app_nil_r.
Qed.
Lemma skipn_app_l {A} (a b : list A) n : n = length a -> skipn n (a ++ b) = b.
Proof.
  intros ->. rewrite skipn_app, Nat.sub_diag, skipn_all.
  cbn [skipn app]. reflexivity.
Qed.
Lemma firstn_app_le {A} (a b : list A) n : n <= length a -> firstn n (a ++ b) = firstn n a.
Proof.
  intros Hle. rewrite firstn_app.
  replace (n - length a) with 0 by lia. cbn [firstn]. apply app_nil_r.
Qed.
Lemma skipn_app_le {A} (a b : list A) n : n <= length a -> skipn n (a ++ b) = skipn n a ++ b.
Proof.
  intros Hle. rewrite skipn_app.
  replace (n - length a) with 0 by lia. cbn [skipn]. reflexivity.
Qed.
Lemma firstn_app_ge {A} (a b : list A) n :
  length a <= n -> firstn n (a ++ b) = a ++ firstn (n - length a) b.
Proof. intros Hle. rewrite firstn_app, (firstn_all2 a) by exact Hle. reflexivity. Qed.
Lemma skipn_app_ge {A} (a b : list A) n :
  length a <= n -> skipn n (a ++ b) = skipn (n - length a) b.
Proof. intros Hle. rewrite skipn_app, (skipn_all2 a) by exact Hle. reflexivity. Qed.
Lemma firstn_plus {A} (a b : nat) (l : list A) :
  firstn (a + b) l = firstn a l ++ firstn b (skipn a l).
Proof.
  revert l. induction a as [|a IH]; intros l.
  - reflexivity.
  - destruct l as [|x l].
    + cbn [Nat.add firstn skipn app]. rewrite firstn_nil. reflexivity.
    + cbn [Nat.add firstn skipn app]. rewrite IH. reflexivity.
Qed.
Lemma nth_firstn_lt {A} (l : list A) n i d : i < n -> nth i (firstn n l) d = nth i l d.
Proof.
  revert n i. induction l as [|x l IH]; intros n i Hlt.
  - rewrite firstn_nil. reflexivity.
  - destruct n as [|n]; [lia|]. destruct i as [|i]; cbn [firstn nth].
    + reflexivity.
    + apply IH. lia.
Qed.
Lemma nth_skipn_add {A} (l : list A) n i d : nth i (skipn n l) d = nth (n + i) l d.
Proof.
  revert l. induction n as [|n IH]; intros l.
  - reflexivity.
  - destruct l as [|x l]; cbn [skipn Nat.add nth].
    + destruct i; reflexivity.
    + apply IH.
Qed.

(** ** Encoding *)
Lemma enc_from_length t k n : length (enc_from t k n) = n.
Proof.
  revert k. induction n as [|n IH]; intros k; cbn [enc_from length].
  - reflexivity.
  - rewrite IH. reflexivity.
Qed.
Lemma enc_length sz t : length (enc sz t) = sz.
Proof. unfold enc. apply enc_from_length. Qed.
Lemma flat_length sz xs : length (flat sz xs) = length xs * sz.
Proof.
  induction xs as [|x xs IH]; cbn [flat length].
  - reflexivity.
  - rewrite app_length, enc_length, IH. lia.
Qed.
Lemma flat_app sz a b : flat sz (a ++ b) = flat sz a ++ flat sz b.
Proof.
  induction a as [|x a IH]; cbn [flat app].
  - reflexivity.
  - rewrite IH, app_assoc. reflexivity.
Qed.
Lemma cell_eqb_refl c : cell_eqb c c = true.
Proof. destruct c as [|t k]; cbn [cell_eqb]; [reflexivity|]. rewrite !N.eqb_refl. reflexivity. Qed.
Lemma cell_eqb_eq a b : cell_eqb a b = true -> a = b.
Proof.
  destruct a as [|t k], b as [|t' k']; cbn [cell_eqb]; intros H; try discriminate H.
  - reflexivity.
  - apply andb_true_iff in H. destruct H as [Ht Hk].
    apply N.eqb_eq in Ht. apply N.eqb_eq in Hk. subst. reflexivity.
Qed.
Lemma mem_eqb_refl m : mem_eqb m m = true.
Proof.
  induction m as [|c m IH]; cbn [mem_eqb]; [reflexivity|].
  rewrite cell_eqb_refl, IH. reflexivity.
Qed.
Lemma mem_eqb_eq a b : mem_eqb a b = true -> a = b.
Proof.
  revert b. induction a as [|x a IH]; intros [|y b] H; cbn [mem_eqb] in H; try discriminate H.
  - reflexivity.
  - apply andb_true_iff in H. destruct H as [Hc Hm].
    apply cell_eqb_eq in Hc. apply IH in Hm. subst. reflexivity.
Qed.

(** A token is admissible for element size [sz] (zero-sized values all carry token 0). *)
Definition tok_ok (sz : nat) (t : N) : Prop := sz = 0 -> t = 0%N.

Lemma dec_enc sz t : tok_ok sz t -> dec sz (enc sz t) = Some t.
Proof.
  intros Hok. destruct sz as [|n].
  - cbn [dec]. rewrite (Hok eq_refl). reflexivity.
  - unfold dec.
    assert (Hc : exists tl, enc (S n) t = Byte t 0%N :: tl).
    { unfold enc. cbn [enc_from]. eexists. reflexivity. }
    destruct Hc as [tl Hc].
    remember (enc (S n) t) as e eqn:He.
    rewrite Hc. cbv beta iota. rewrite <- Hc. rewrite He.
    rewrite mem_eqb_refl. reflexivity.
Qed.
(** decoding succeeds only on exact encodings *)
Lemma dec_inv sz bs t : sz <> 0 -> dec sz bs = Some t -> bs = enc sz t.
Proof.
  intros Hsz Hd. destruct sz as [|n]; [congruence|].
  unfold dec in Hd.
  destruct bs as [|[|t' k] tl]; try discriminate Hd.
  destruct (mem_eqb (Byte t' k :: tl) (enc (S n) t')) eqn:E; try discriminate Hd.
  injection Hd as <-. apply mem_eqb_eq in E. exact E.
Qed.
Lemma dec_slots_flat sz xs junk :
  Forall (tok_ok sz) xs -> dec_slots sz (length xs) (flat sz xs ++ junk) = Some xs.
Proof.
  intros Hall. induction Hall as [|x xs Hx Hxs IH].
  - reflexivity.
  - cbn [length flat dec_slots]. rewrite <- app_assoc.
    rewrite firstn_app_l by (now rewrite enc_length).
    rewrite skipn_app_l by (now rewrite enc_length).
    rewrite dec_enc by exact Hx. rewrite IH. reflexivity.
Qed.
(** conversely: a successful typed snapshot determines the first [n] slots *)
Lemma dec_slots_inv sz n m xs :
  sz <> 0 -> dec_slots sz n m = Some xs ->
  length xs = n /\ firstn (n * sz) m = flat sz xs.
Proof.
  intros Hsz. revert m xs. induction n as [|n IH]; intros m xs H.
  - cbn [dec_slots] in H. injection H as <-. split; reflexivity.
  - cbn [dec_slots] in H.
    destruct (dec sz (firstn sz m)) as [t|] eqn:E1; try discriminate H.
    destruct (dec_slots sz n (skipn sz m)) as [ts|] eqn:E2; try discriminate H.
    injection H as <-.
    apply IH in E2. destruct E2 as [Hlen Hfl].
    apply dec_inv in E1; [|exact Hsz].
    split.
    + cbn [length]. rewrite Hlen. reflexivity.
    + cbn [flat]. replace (S n * sz) with (sz + n * sz) by lia.
      rewrite firstn_plus, E1, Hfl. reflexivity.
Qed.

(** ** Block primitives on appended buffers *)
Lemma msub_app a b c : msub (length a) (length b) (a ++ b ++ c) = b.
Proof.
  unfold msub. rewrite skipn_app_l by reflexivity.
  apply firstn_app_l. reflexivity.
Qed.
Lemma msub_length off n m : off + n <= length m -> length (msub off n m) = n.
Proof. intros H. unfold msub. rewrite firstn_length, skipn_length. lia. Qed.
Lemma mwrite_length off bs m : off + length bs <= length m -> length (mwrite off bs m) = length m.
Proof.
  intros H. unfold mwrite. rewrite !app_length, firstn_length, skipn_length. lia.
Qed.
Lemma mwrite_app a b b' c :
  length b = length b' -> mwrite (length a) b' (a ++ b ++ c) = a ++ b' ++ c.
Proof.
  intros Hlen. unfold mwrite.
  rewrite firstn_app_l by reflexivity.
  rewrite (app_assoc a b c).
  rewrite skipn_app_l by (rewrite app_length; lia).
  reflexivity.
Qed.
Lemma memmove_length src dst n m :
  src + n <= length m -> dst + n <= length m -> length (memmove src dst n m) = length m.
Proof.
  intros Hs Hd. unfold memmove. apply mwrite_length.
  rewrite msub_length by exact Hs. exact Hd.
Qed.

(** right shift by [k] (insert): block [b] moves up over the gap [g] *)
Lemma memmove_up a b g r k :
  length g = k ->
  memmove (length a) (length a + k) (length b) (a ++ b ++ g ++ r)
  = a ++ firstn k (b ++ g) ++ b ++ r.
Proof.
  intros Hg. unfold memmove. rewrite msub_app. unfold mwrite.
  rewrite firstn_app_2.
  rewrite (app_assoc b g r).
  rewrite (firstn_app_le (b ++ g) r) by (rewrite app_length; lia).
  replace (a ++ (b ++ g) ++ r) with ((a ++ b ++ g) ++ r)
    by (rewrite <- !app_assoc; reflexivity).
  rewrite skipn_app_l by (rewrite !app_length; lia).
  rewrite <- !app_assoc. reflexivity.
Qed.
(** left shift (remove): block [b] moves down over the hole [h] *)
Lemma memmove_down a h b r :
  memmove (length a + length h) (length a) (length b) (a ++ h ++ b ++ r)
  = a ++ b ++ skipn (length b) (h ++ b) ++ r.
Proof.
  unfold memmove.
  assert (Hsub : msub (length a + length h) (length b) (a ++ h ++ b ++ r) = b).
  { rewrite (app_assoc a h (b ++ r)). rewrite <- app_length. apply msub_app. }
  rewrite Hsub. unfold mwrite.
  rewrite firstn_app_l by reflexivity.
  rewrite skipn_app_ge by lia.
  replace (length a + length b - length a) with (length b) by lia.
  rewrite (app_assoc h b r).
  rewrite skipn_app_le by (rewrite app_length; lia).
  reflexivity.
Qed.
(** general disjoint / arbitrary move of a block to an earlier position that does not overlap:
    [x] is copied over [y] *)
Lemma memmove_copy_down a y mid x r :
  length x = length y ->
  memmove (length a + length y + length mid) (length a) (length x) (a ++ y ++ mid ++ x ++ r)
  = a ++ x ++ mid ++ x ++ r.
Proof.
  intros Hlen. unfold memmove.
  assert (Hsub : msub (length a + length y + length mid) (length x)
                   (a ++ y ++ mid ++ x ++ r) = x).
  { replace (a ++ y ++ mid ++ x ++ r) with ((a ++ y ++ mid) ++ x ++ r)
      by (rewrite <- !app_assoc; reflexivity).
    replace (length a + length y + length mid) with (length (a ++ y ++ mid))
      by (rewrite !app_length; lia).
    apply msub_app. }
  rewrite Hsub. apply mwrite_app. symmetry. exact Hlen.
Qed.

(** ** The crate's byte loops are memmove in their safe direction *)
Lemma mset_length off c m : off < length m -> length (mset off c m) = length m.
Proof. intros H. unfold mset. apply mwrite_length. cbn [length]. lia. Qed.
Lemma mget_mset_same off c m : off < length m -> mget off (mset off c m) = c.
Proof.
  intros H. unfold mget, mset, mwrite.
  rewrite app_nth2 by (rewrite firstn_length; lia).
  rewrite firstn_length. replace (off - Nat.min off (length m)) with 0 by lia.
  reflexivity.
Qed.

Lemma mget_mset_other_counterexample :
  exists off off' c m, off <> off' /\ mget off' (mset off c m) <> mget off' m.
Proof.
  exists 1, 0, (Byte 0 0), []. split; [lia|].
  intros H. vm_compute in H. discriminate H.
Qed.
(** holds as soon as the write does not extend the buffer ([off <= length m]) *)
Lemma mget_mset_other_le off off' c m :
  off <= length m -> off <> off' -> mget off' (mset off c m) = mget off' m.
Proof.
  intros Hb Hne. unfold mget, mset, mwrite.
  destruct (Nat.lt_ge_cases off' off) as [Hlt|Hge].
  - rewrite app_nth1 by (rewrite firstn_length; lia).
    apply nth_firstn_lt. exact Hlt.
  - rewrite app_nth2 by (rewrite firstn_length; lia).
    rewrite firstn_length. replace (Nat.min off (length m)) with off by lia.
    destruct (off' - off) as [|j] eqn:Ej; [lia|].
    cbn [app nth length]. rewrite nth_skipn_add.
    f_equal. lia.
Qed.
Lemma mget_mset_other_fixed off off' c m :
  off < length m -> off <> off' -> mget off' (mset off c m) = mget off' m.
Proof. intros Hb. apply mget_mset_other_le. lia. Qed.

(** pointwise characterisation of memmove *)
Lemma memmove_mget src dst n m i :
  src + n <= length m -> dst + n <= length m ->
  mget i (memmove src dst n m) =
  if (dst <=? i) && (i <? dst + n) then mget (src + (i - dst)) m else mget i m.
Proof.
  intros Hs Hd. unfold memmove, mwrite, mget.
  rewrite (msub_length src n m Hs).
  destruct (Nat.leb_spec dst i) as [Hle|Hlt]; cbn [andb].
  - rewrite app_nth2 by (rewrite firstn_length; lia).
    rewrite firstn_length. replace (Nat.min dst (length m)) with dst by lia.
    destruct (Nat.ltb_spec i (dst + n)) as [Hin|Hout].
    + rewrite app_nth1 by (rewrite msub_length by exact Hs; lia).
      unfold msub. rewrite nth_firstn_lt by lia.
      apply nth_skipn_add.
    + rewrite app_nth2 by (rewrite msub_length by exact Hs; lia).
      rewrite msub_length by exact Hs.
      rewrite nth_skipn_add. f_equal. lia.
  - rewrite app_nth1 by (rewrite firstn_length; lia).
    apply nth_firstn_lt. exact Hlt.
Qed.

Lemma copy_fwd_length src dst n m :
  src + n <= length m -> dst + n <= length m -> length (copy_fwd src dst n m) = length m.
Proof.
  revert src dst m. induction n as [|n IH]; intros src dst m Hs Hd; cbn [copy_fwd].
  - reflexivity.
  - assert (Hl : length (mset dst (mget src m) m) = length m) by (apply mset_length; lia).
    rewrite IH by (rewrite Hl; lia). exact Hl.
Qed.
Lemma copy_bwd_length src dst n m :
  src + n <= length m -> dst + n <= length m -> length (copy_bwd src dst n m) = length m.
Proof.
  revert m. induction n as [|n IH]; intros m Hs Hd; cbn [copy_bwd].
  - reflexivity.
  - assert (Hl : length (mset (dst + n) (mget (src + n) m) m) = length m)
      by (apply mset_length; lia).
    rewrite IH by (rewrite Hl; lia). exact Hl.
Qed.

(** pointwise characterisations of the two loops, each in its safe direction *)
Lemma copy_fwd_mget src dst n m i :
  dst <= src -> src + n <= length m ->
  mget i (copy_fwd src dst n m) =
  if (dst <=? i) && (i <? dst + n) then mget (src + (i - dst)) m else mget i m.
Proof.
  revert src dst m. induction n as [|n IH]; intros src dst m Hds Hs; cbn [copy_fwd].
  - destruct (Nat.leb_spec dst i) as [Hle|Hlt]; cbn [andb]; [|reflexivity].
    destruct (Nat.ltb_spec i (dst + 0)) as [Hin|Hout]; [lia|reflexivity].
  - assert (Hl : length (mset dst (mget src m) m) = length m) by (apply mset_length; lia).
    rewrite IH by (rewrite ?Hl; lia).
    destruct (Nat.leb_spec (S dst) i) as [Hle|Hlt];
      destruct (Nat.ltb_spec i (S dst + n)) as [Hin|Hout];
      destruct (Nat.leb_spec dst i) as [Hle'|Hlt'];
      destruct (Nat.ltb_spec i (dst + S n)) as [Hin'|Hout'];
      cbn [andb]; try lia.
    + (* strictly inside the tail: the byte read was never overwritten *)
      rewrite mget_mset_other_fixed by lia. f_equal. lia.
    + (* past the block *)
      apply mget_mset_other_fixed; lia.
    + (* i = dst: the byte just written *)
      assert (i = dst) by lia. subst i.
      rewrite mget_mset_same by lia. f_equal. lia.
    + (* before the block *)
      apply mget_mset_other_fixed; lia.
Qed.
Lemma copy_bwd_mget src dst n m i :
  src <= dst -> dst + n <= length m ->
  mget i (copy_bwd src dst n m) =
  if (dst <=? i) && (i <? dst + n) then mget (src + (i - dst)) m else mget i m.
Proof.
  revert m. induction n as [|n IH]; intros m Hsd Hd; cbn [copy_bwd].
  - destruct (Nat.leb_spec dst i) as [Hle|Hlt]; cbn [andb]; [|reflexivity].
    destruct (Nat.ltb_spec i (dst + 0)) as [Hin|Hout]; [lia|reflexivity].
  - assert (Hl : length (mset (dst + n) (mget (src + n) m) m) = length m)
      by (apply mset_length; lia).
    rewrite IH by (rewrite ?Hl; lia).
    destruct (Nat.leb_spec dst i) as [Hle|Hlt];
      destruct (Nat.ltb_spec i (dst + n)) as [Hin|Hout];
      destruct (Nat.ltb_spec i (dst + S n)) as [Hin'|Hout'];
      cbn [andb]; try lia.
    + (* strictly below the top byte: source position is below [dst + n] *)
      apply mget_mset_other_fixed; lia.
    + (* i = dst + n: the byte just written *)
      assert (i = dst + n) by lia. subst i.
      rewrite mget_mset_same by lia. f_equal. lia.
    + (* past the block *)
      apply mget_mset_other_fixed; lia.
    + (* before the block *)
      apply mget_mset_other_fixed; lia.
Qed.

Theorem copy_fwd_memmove src dst n m :
  dst <= src -> src + n <= length m ->
  copy_fwd src dst n m = memmove src dst n m.
Proof.
  intros Hds Hs. apply (nth_ext _ _ Uninit Uninit).
  - rewrite copy_fwd_length, memmove_length by lia. reflexivity.
  - intros i _. change (mget i (copy_fwd src dst n m) = mget i (memmove src dst n m)).
    rewrite copy_fwd_mget, memmove_mget by lia. reflexivity.
Qed.
Theorem copy_bwd_memmove src dst n m :
  src <= dst -> dst + n <= length m ->
  copy_bwd src dst n m = memmove src dst n m.
Proof.
  intros Hsd Hd. apply (nth_ext _ _ Uninit Uninit).
  - rewrite copy_bwd_length, memmove_length by lia. reflexivity.
  - intros i _. change (mget i (copy_bwd src dst n m) = mget i (memmove src dst n m)).
    rewrite copy_bwd_mget, memmove_mget by lia. reflexivity.
Qed.
Theorem copy_bytes_memmove src dst n m :
  src + n <= length m -> dst + n <= length m ->
  copy_bytes src dst n m = memmove src dst n m.
Proof.
  intros Hs Hd. unfold copy_bytes.
  destruct (128 <=? n); [reflexivity|].
  destruct (Nat.leb_spec dst src) as [Hle|Hlt].
  - apply copy_fwd_memmove; lia.
  - apply copy_bwd_memmove; lia.
Qed.

(** ... and the forward loop is NOT memmove for an overlapping right shift
    (the pinned tree's copy_bytes): concrete witness. *)
Theorem copy_bytes_pinned_refuted :
  exists src dst n m, src + n <= length m /\ dst + n <= length m /\
    copy_bytes_pinned src dst n m <> memmove src dst n m.
Proof.
  exists 0, 1, 2, [Byte 0 0; Byte 1 0; Byte 2 0].
  split; [cbn [length]; lia|]. split; [cbn [length]; lia|].
  intros H. vm_compute in H. discriminate H.
Qed.
