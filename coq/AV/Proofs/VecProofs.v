(** * Refinement of the element-wise operations: the machine (byte-level storage, backends)
      implements the list specification [AV.Spec.VecSpec].  All statements hold for every
      element size (including 0), every capacity, every backend. *)
From AV.Model Require Import Base Bytes Vec.
From AV.Spec Require Import VecSpec.
From AV.Proofs Require Import MemLemmas Rep.
Arguments N.add : simpl never.
Arguments N.sub : simpl never.
Arguments N.mul : simpl never.
Arguments N.max : simpl never.
Arguments N.min : simpl never.

(** ** Arithmetic bridges *)
Lemma szn_bo c i : bo c i = (N.to_nat i * szn c)%nat.
Proof. unfold bo, szn. rewrite N2Nat.inj_mul. apply Nat.mul_comm. Qed.
Lemma bo_of_nat c n : bo c (N.of_nat n) = (n * szn c)%nat.
Proof. rewrite szn_bo, Nat2N.id. reflexivity. Qed.

(** ** Generic list helpers *)
Lemma app_inv_len {A} (a a' b b' : list A) :
  length a = length a' -> a ++ b = a' ++ b' -> a = a' /\ b = b'.
Proof.
  revert a'. induction a as [|x a IH]; intros [|y a'] Hl H; cbn [length] in Hl; try discriminate Hl.
  - split; [reflexivity|exact H].
  - cbn [app] in H. injection H as -> H. injection Hl as Hl.
    destruct (IH _ Hl H) as [-> ->]. split; reflexivity.
Qed.

Lemma firstn_plus_split {A} (l x y : list A) p q :
  firstn (p + q) l = x ++ y -> length x = p ->
  firstn p l = x /\ firstn q (skipn p l) = y.
Proof.
  intros H Hx. rewrite firstn_plus in H.
  apply app_inv_len in H; [exact H|].
  assert (Hl : length (firstn (p + q) l) = length (x ++ y)).
  { rewrite firstn_plus. rewrite H. reflexivity. }
  rewrite firstn_length, app_length in Hl. rewrite firstn_length. lia.
Qed.

Lemma firstn_eq_length_le {A} (l x : list A) n : firstn n l = x -> length x = n -> (n <= length l)%nat.
Proof. intros H Hl. rewrite <- H, firstn_length in Hl. lia. Qed.

(** Held-level generic facts on raw memory *)
Lemma flat_slot sz xs m i :
  firstn (length xs * sz) m = flat sz xs -> (i < length xs)%nat ->
  msub (i * sz) sz m = enc sz (nth i xs 0).
Proof.
  intros H Hi.
  rewrite <- (firstn_skipn i xs) in H.
  assert (Hli : length (firstn i xs) = i) by (rewrite firstn_length; lia).
  destruct (skipn i xs) as [|y ys] eqn:E.
  { apply (f_equal (@length _)) in E. rewrite skipn_length in E. cbn in E. lia. }
  assert (Hn : nth i xs 0 = y).
  { rewrite <- (firstn_skipn i xs) at 1. rewrite E.
    rewrite app_nth2 by lia. rewrite Hli, Nat.sub_diag. reflexivity. }
  rewrite Hn.
  rewrite app_length, Hli in H. cbn [length] in H.
  rewrite flat_app in H. cbn [flat] in H.
  replace ((i + S (length ys)) * sz)%nat with (i * sz + (sz + length ys * sz))%nat in H by lia.
  apply firstn_plus_split in H; [|rewrite flat_length; lia].
  destruct H as [_ H].
  apply firstn_plus_split in H; [|apply enc_length].
  destruct H as [H _]. unfold msub. exact H.
Qed.

(** ** Monadic step lemmas *)
Ltac mstep := unfold bind, getv, setv, emitv, ret, raise, assert_, of_ovf, of_opt; cbn [fst snd].

Lemma capbytes c v : N.to_nat (vcap v * c_sz c) = (N.to_nat (vcap v) * szn c)%nat.
Proof. unfold szn. apply N2Nat.inj_mul. Qed.

Lemma check_range_ok c off n v u :
  store_ok c v -> (off + n <= N.to_nat (vcap v) * szn c)%nat ->
  check_range c off n (v, u) = Ok tt (v, u).
Proof.
  intros Hs Hb. unfold store_ok in Hs. rewrite capbytes in Hs.
  unfold check_range. mstep.
  assert (H1 : N.of_nat off + N.of_nat n <= vcap v * c_sz c).
  { assert (H := capbytes c v). lia. }
  rewrite (proj2 (N.leb_le _ _) H1).
  rewrite (proj2 (Nat.leb_le _ _)) by lia. reflexivity.
Qed.

Lemma shift_ok c k src dst n v u :
  store_ok c v ->
  (src + n <= N.to_nat (vcap v) * szn c)%nat -> (dst + n <= N.to_nat (vcap v) * szn c)%nat ->
  shift c k src dst n (v, u) = Ok tt (with_mem (memmove src dst n (vmem v)) v, u).
Proof.
  intros Hs H1 H2. unfold shift. unfold bind at 1.
  rewrite check_range_ok by assumption. unfold bind at 1.
  rewrite check_range_ok by assumption. mstep.
  destruct k; [reflexivity|].
  unfold store_ok in Hs. rewrite capbytes in Hs.
  rewrite copy_bytes_memmove by lia. reflexivity.
Qed.

Lemma write_bytes_ok c off bs k v u :
  store_ok c v -> (off + szn c <= N.to_nat (vcap v) * szn c)%nat -> length bs = szn c ->
  write_value c off (VBytes bs k) (v, u) = Ok tt (with_mem (mwrite off bs (vmem v)) v, u).
Proof.
  intros Hs H1 Hl. unfold write_value. unfold bind at 1.
  rewrite check_range_ok by assumption.
  rewrite Hl, Nat.eqb_refl. mstep. reflexivity.
Qed.

Lemma same_user_refl u : same_user u u.
Proof. unfold same_user. auto. Qed.
Lemma same_user_emit e u : is_user_event e = false -> same_user u (emit e u).
Proof.
  intros H. unfold same_user, uevents, emit; cbn [ulog unext ufuse filter].
  rewrite H. auto.
Qed.
Lemma same_user_trans a b d : same_user a b -> same_user b d -> same_user a d.
Proof. unfold same_user. intros (A1 & A2 & A3) (B1 & B2 & B3). repeat split; congruence. Qed.

Lemma uninit_length n : length (uninit n) = n.
Proof. apply repeat_length. Qed.

(** storage growth keeping the old bytes *)
Lemma grow_store_rep c v xs ncap g :
  Rep c v xs -> vcap v <= ncap -> ncap <= usize_max ->
  let nbytes := c_sz c * ncap in
  let keep := N.to_nat (N.min (c_sz c * vcap v) nbytes) in
  let v' := with_store ncap (firstn keep (vmem v) ++ uninit (N.to_nat nbytes - keep)) g v in
  Rep c v' xs /\
  firstn (N.to_nat (vcap v * c_sz c)) (vmem v') = firstn (N.to_nat (vcap v * c_sz c)) (vmem v).
Proof.
  intros [Hlen Hcap Hus Hst Hmem Htok] Hle Hmax nbytes keep v'.
  unfold store_ok in Hst.
  assert (Hk : keep = N.to_nat (vcap v * c_sz c)).
  { unfold keep, nbytes. f_equal. nia. }
  assert (Hkl : length (firstn keep (vmem v)) = keep).
  { rewrite firstn_length. lia. }
  assert (Hxs : (length xs * szn c <= keep)%nat).
  { rewrite Hk, capbytes. apply Nat.mul_le_mono_r. lia. }
  split.
  - constructor; unfold v'; cbn [with_store vlen vcap vmem].
    + exact Hlen.
    + lia.
    + exact Hmax.
    + unfold store_ok; cbn [with_store vlen vcap vmem].
      rewrite app_length, Hkl, uninit_length. unfold nbytes.
      rewrite (N.mul_comm ncap). lia.
    + rewrite firstn_app_le by lia.
      rewrite firstn_firstn. rewrite Nat.min_l by lia. exact Hmem.
    + exact Htok.
  - unfold v'; cbn [with_store vmem]. rewrite <- Hk.
    rewrite firstn_app_l by (symmetry; exact Hkl). reflexivity.
Qed.

Ltac splits := match goal with |- _ /\ _ => split; [|splits] | _ => idtac end.

Lemma bind_ok {S A B} (m : M S A) (f : A -> M S B) s a s' :
  m s = Ok a s' -> bind m f s = f a s'.
Proof. intros H. unfold bind. rewrite H. reflexivity. Qed.
Lemma bind_panic {S A B} (m : M S A) (f : A -> M S B) s p s' :
  m s = Panic p s' -> bind m f s = Panic p s'.
Proof. intros H. unfold bind. rewrite H. reflexivity. Qed.
Ltac bstep H := rewrite (bind_ok _ _ _ _ _ H); cbv beta.

Lemma mwrite_firstn off bs m :
  (off + length bs <= length m)%nat ->
  firstn (off + length bs) (mwrite off bs m) = firstn off m ++ bs.
Proof.
  intros H. unfold mwrite. rewrite app_assoc. apply firstn_app_l.
  rewrite app_length, firstn_length. lia.
Qed.


(** ** Facts used by the handle / range proofs (moved up: used below) *)
Lemma skipn_skipn' {A} x y (l : list A) : skipn x (skipn y l) = skipn (y + x) l.
Proof.
  revert l. induction y as [|y IH]; intros l; [reflexivity|].
  destruct l as [|h l]; cbn [skipn Nat.add].
  - apply skipn_nil.
  - apply IH.
Qed.
Lemma rep_held c v xs : Rep c v xs -> Held c v 0 xs.
Proof. intros HR. unfold Held. cbn [Nat.mul skipn]. apply (rep_mem _ _ _ HR). Qed.

Lemma held_app c v off a b :
  Held c v off a -> Held c v (off + length a) b -> Held c v off (a ++ b).
Proof.
  unfold Held. intros Ha Hb.
  rewrite app_length, flat_app, Nat.mul_add_distr_r, firstn_plus, Ha.
  rewrite skipn_skipn'.
  replace (off * szn c + length a * szn c)%nat with ((off + length a) * szn c)%nat by lia.
  rewrite Hb. reflexivity.
Qed.
Lemma held_split c v off a b :
  Held c v off (a ++ b) -> Held c v off a /\ Held c v (off + length a) b.
Proof.
  unfold Held. intros H.
  rewrite app_length, flat_app, Nat.mul_add_distr_r in H.
  apply firstn_plus_split in H; [|apply flat_length].
  destruct H as [Ha Hb]. split; [exact Ha|].
  rewrite skipn_skipn' in Hb.
  replace ((off + length a) * szn c)%nat with (off * szn c + length a * szn c)%nat by lia.
  exact Hb.
Qed.

Lemma rep_held_suffix c v xs n : Rep c v xs -> (n <= length xs)%nat -> Held c v n (skipn n xs).
Proof.
  intros HR Hn. apply rep_held in HR.
  rewrite <- (firstn_skipn n xs) in HR. apply held_split in HR.
  destruct HR as [_ H]. rewrite firstn_length, Nat.min_l in H by exact Hn. exact H.
Qed.
Lemma rep_prefix c v xs n :
  Rep c v xs -> (n <= length xs)%nat -> Rep c (with_len (N.of_nat n) v) (firstn n xs).
Proof.
  intros HR Hn. pose proof (rep_held _ _ _ HR) as HH.
  destruct HR as [Hlen Hcap Hus Hst Hmem Htok].
  assert (Hl : length (firstn n xs) = n) by (rewrite firstn_length; lia).
  constructor; cbn [with_len vlen vcap vmem]; auto.
  - lia.
  - rewrite Hl. rewrite <- (firstn_skipn n xs) in HH. apply held_split in HH.
    destruct HH as [H _]. unfold Held in H. cbn [Nat.mul skipn] in H. rewrite Hl in H. exact H.
  - rewrite <- (firstn_skipn n xs) in Htok. apply Forall_app in Htok. apply Htok.
Qed.
Lemma rep_of_held c v xs :
  vlen v = N.of_nat (length xs) -> vlen v <= vcap v -> vcap v <= usize_max -> store_ok c v ->
  Held c v 0 xs -> Forall (tok_ok (szn c)) xs -> Rep c v xs.
Proof.
  intros H1 H2 H3 H4 H5 H6. constructor; auto.
Qed.


(** ** Observation *)
Theorem snapshot_rep c v xs : Rep c v xs -> snapshot c v = Some xs.
Proof.
  intros [Hlen Hcap Hus Hst Hmem Htok]. unfold snapshot.
  rewrite Hlen, Nat2N.id.
  rewrite <- (firstn_skipn (length xs * szn c) (vmem v)), Hmem.
  apply dec_slots_flat. exact Htok.
Qed.

Theorem get_ptr_spec c v xs i :
  Rep c v xs ->
  get_ptr c v i = if i <? N.of_nat (length xs) then Some (ptr_at c v i) else None.
Proof. intros HR. unfold get_ptr. rewrite (rep_len _ _ _ HR). reflexivity. Qed.

Theorem read_elem c v u xs i :
  Rep c v xs -> (i < length xs)%nat ->
  read_ptr c (ptr_at c v (N.of_nat i)) (v, u) = Ok (enc (szn c) (nth i xs 0)) (v, u).
Proof.
  intros [Hlen Hcap Hus Hst Hmem Htok] Hi.
  unfold read_ptr, ptr_at. cbn [pgen poff].
  assert (Eg : getv (v, u) = Ok v (v, u)) by reflexivity. bstep Eg.
  rewrite N.eqb_refl. cbn [negb].
  rewrite bo_of_nat.
  assert (Ec : check_range c (i * szn c) (szn c) (v, u) = Ok tt (v, u)).
  { apply check_range_ok; [exact Hst|].
    replace (i * szn c + szn c)%nat with ((i + 1) * szn c)%nat by lia.
    apply Nat.mul_le_mono_r. lia. }
  bstep Ec. unfold ret. f_equal.
  apply flat_slot; assumption.
Qed.


(** an empty vector of any backend represents [[]] *)
(** The first version of this lemma was false for the pinned tree: in a release build
    [StackN::build]'s unchecked [N * size] could wrap and pass the "Insufficient storage!"
    assert ([stackn_fits_pinned_refuted] below; defect D17, repaired by a checked product). *)
Lemma mem_build_rep c bk u v0 :
  bk_wf bk ->
  forall v' u', mem_build c bk (v0, u) = Ok tt (v', u') ->
  Rep c v' [] /\ vbk v' = bk /\ uevents u' = uevents u /\ unext u' = unext u /\ ufuse u' = ufuse u.
Proof.
  intros Hwf v' u' E. unfold mem_build in E.
  destruct bk as [|size|n size| |c0]; cbn [bk_wf] in *.
  - unfold setv in E. cbn [fst snd] in E. injection E as <- <-.
    splits; auto. constructor; cbn [vlen vcap vmem length]; auto; try lia.
    unfold store_ok. cbn. lia.
  - unfold setv in E. cbn [fst snd] in E. injection E as <- <-.
    splits; auto. constructor; cbn [vlen vcap vmem length]; auto; try lia.
    + destruct (N.eqb_spec (c_sz c) 0) as [Z|NZ]; [lia|].
      pose proof (N.mul_div_le size (c_sz c) NZ). nia.
    + unfold store_ok. cbn [vlen vcap vmem]. rewrite uninit_length.
      destruct (N.eqb_spec (c_sz c) 0) as [Z|NZ].
      * rewrite Z, N.mul_0_r. cbn. lia.
      * pose proof (N.mul_div_le size (c_sz c) NZ). lia.
  - destruct Hwf as [Hn Hs]. unfold stackn_fits, checked_mul in E.
    destruct (N.leb_spec (n * c_sz c) usize_max) as [Hle|Hgt].
    + destruct (N.leb_spec (n * c_sz c) size) as [Hfit|Hno].
      * unfold setv in E. cbn [fst snd] in E. injection E as <- <-.
        splits; auto. constructor; cbn [vlen vcap vmem length]; auto; try lia.
        unfold store_ok. cbn [vlen vcap vmem]. rewrite uninit_length. lia.
      * discriminate E.
    + discriminate E.
  - unfold setv in E. cbn [fst snd] in E. injection E as <- <-.
    splits; auto. constructor; cbn [vlen vcap vmem length]; auto; try lia.
    unfold store_ok. cbn. lia.
  - unfold bind, emitv, setv in E. cbn [fst snd] in E. injection E as <- <-.
    splits; auto. constructor; cbn [vlen vcap vmem length]; auto; try lia.
    unfold store_ok. cbn [vlen vcap vmem]. rewrite uninit_length. lia.
Qed.

Lemma stackn_fits_pinned_refuted :
  exists n sz size, n <= usize_max /\ sz <= usize_max /\
    stackn_fits_pinned false n sz size = Some true /\ ~ (n * sz <= size) /\
    stackn_fits n sz size = false.
Proof.
  exists 4294967296, 4294967296, 0. repeat split; try (vm_compute; congruence).
Qed.

(** ** Capacity changes keep the contents *)
(** (only the storage facts of [Rep] matter: [len] may be lowered by a live handle, in
    which case [xs] is the visible prefix and the last conjunct carries the rest over) *)
Definition grown c v xs u ncap (r : res st unit) : Prop :=
  exists v' u',
    r = Ok tt (v', u') /\
    Rep c v' xs /\ vcap v' = ncap /\ vlen v' = vlen v /\ vbk v' = vbk v /\ same_user u u' /\
    firstn (N.to_nat (vcap v * c_sz c)) (vmem v') = firstn (N.to_nat (vcap v * c_sz c)) (vmem v).

Lemma heap_resize_grow c v u xs ncap :
  cfg_wf c -> Rep c v xs -> vcap v <= ncap -> ncap <= usize_max -> c_sz c * ncap <= alloc_limit ->
  grown c v xs u ncap (heap_resize c ncap (v, u)).
Proof.
  intros [Hal1 Hal2] HR Hle Hmax Hlim. unfold grown.
  unfold heap_resize. mstep.
  destruct (N.eqb_spec (vcap v) ncap) as [E|NE].
  { exists v, u. splits; auto using same_user_refl. }
  destruct (N.eqb_spec (c_sz c) 0) as [Z|NZ].
  { exists (with_store ncap (vmem v) (vgen v) v), u.
    split; [reflexivity|].
    destruct HR as [Hlen Hcap Hus Hst Hmem Htok].
    splits; auto using same_user_refl.
    constructor; cbn [with_store vlen vcap vmem]; auto; try lia.
    unfold store_ok; cbn [with_store vlen vcap vmem]. rewrite Z, N.mul_0_r. cbn. lia. }
  destruct (N.eqb_spec ncap 0) as [Z0|NZ0]; [lia|].
  unfold checked_mul.
  assert (Hu : c_sz c * ncap <= usize_max) by (unfold alloc_limit, usize_max in *; lia).
  rewrite (proj2 (N.leb_le _ _) Hu). cbv beta iota. unfold ret. cbn [fst snd].
  destruct (N.ltb_spec (isize_max - (c_al c - 1)) (c_sz c * ncap)) as [Hbad|_].
  { unfold alloc_limit, isize_max in *. lia. }
  destruct (N.ltb_spec alloc_limit (c_sz c * ncap)) as [Hbad|_]; [lia|].
  destruct (N.eqb_spec (vcap v) 0) as [C0|CN0].
  - (* fresh allocation *)
    eexists _, _. split; [reflexivity|].
    destruct HR as [Hlen Hcap Hus Hst Hmem Htok].
    assert (Hxs : xs = []).
    { destruct xs; [reflexivity|]. cbn [length] in Hlen. lia. }
    subst xs.
    splits; cbn [with_store vlen vcap vmem fst snd]; auto; try lia.
    + constructor; cbn [with_store vlen vcap vmem fst snd]; auto; try lia.
      unfold store_ok; cbn [with_store vlen vcap vmem].
      rewrite uninit_length, (N.mul_comm ncap). lia.
    + apply same_user_emit. reflexivity.
    + rewrite C0, N.mul_0_l. reflexivity.
  - (* realloc *)
    eexists _, _. split; [reflexivity|].
    destruct (grow_store_rep c v xs ncap (vgen v + 1) HR Hle Hmax) as [HR' Hpre].
    splits; cbn [with_store vlen vcap vmem fst snd]; auto.
    apply same_user_emit. reflexivity.
Qed.

Lemma reloc_resize_grow c v u xs ncap :
  Rep c v xs -> vcap v <= ncap -> ncap <= usize_max -> c_sz c * ncap <= alloc_limit ->
  grown c v xs u ncap (reloc_resize c ncap (v, u)).
Proof.
  intros HR Hle Hmax Hlim. unfold grown.
  unfold reloc_resize. mstep.
  unfold checked_mul.
  assert (Hu : c_sz c * ncap <= usize_max) by (unfold alloc_limit, usize_max in *; lia).
  rewrite (proj2 (N.leb_le _ _) Hu). cbv beta iota. unfold ret. cbn [fst snd].
  destruct (N.ltb_spec alloc_limit (c_sz c * ncap)) as [Hbad|_]; [lia|].
  eexists _, _. split; [reflexivity|].
  destruct (grow_store_rep c v xs ncap (vgen v + 1) HR Hle Hmax) as [HR' Hpre].
  splits; cbn [with_store vlen vcap vmem fst snd]; auto using same_user_refl.
Qed.

Lemma saturating_mul_le a b : saturating_mul a b <= usize_max.
Proof. unfold saturating_mul. destruct (N.leb_spec (a * b) usize_max); lia. Qed.

Theorem mem_expand_ok c v u xs add :
  cfg_wf c -> Rep c v xs -> grow_ok c v (vcap v + add) ->
  exists v' u',
    mem_expand c add (v, u) = Ok tt (v', u') /\
    Rep c v' xs /\ vcap v' = grow_target v (vcap v + add) /\ vcap v + add <= vcap v' /\
    vlen v' = vlen v /\ vbk v' = vbk v /\ same_user u u' /\
    (* every byte of the old capacity is preserved *)
    firstn (N.to_nat (vcap v * c_sz c)) (vmem v') = firstn (N.to_nat (vcap v * c_sz c)) (vmem v).
Proof.
  intros Hwf HR Hg. unfold grow_ok, grow_target in *. unfold mem_expand. mstep.
  destruct (vbk v) eqn:Ebk; try contradiction.
  - destruct Hg as [Hg1 Hg2]. unfold checked_add.
    rewrite (proj2 (N.leb_le _ _) Hg1). cbv beta iota. unfold ret. cbn [fst snd].
    assert (Hs := saturating_mul_le (vcap v) 2).
    destruct (heap_resize_grow c v u xs (N.max (saturating_mul (vcap v) 2) (vcap v + add)) Hwf HR)
      as (v' & u' & E & H1 & H2 & H3 & H4 & H5 & H6); try lia.
    exists v', u'. rewrite E. splits; auto; try congruence. lia.
  - destruct Hg as [Hg1 Hg2]. unfold checked_add.
    rewrite (proj2 (N.leb_le _ _) Hg1). cbv beta iota. unfold ret. cbn [fst snd].
    destruct (reloc_resize_grow c v (emit (EExpand add) u) xs (vcap v + add) HR)
      as (v' & u' & E & H1 & H2 & H3 & H4 & H5 & H6); try lia.
    exists v', u'. rewrite E. splits; auto; try congruence; try lia.
Qed.

Theorem mem_expand_fixed c v u add :
  fixed_backend (vbk v) -> mem_expand c add (v, u) = Panic PCapacity (v, u).
Proof.
  intros H. unfold mem_expand. mstep. destruct (vbk v); try contradiction; reflexivity.
Qed.

Theorem reserve_one_ok c v u xs :
  cfg_wf c -> Rep c v xs -> (vlen v < vcap v \/ grow_ok c v (vcap v + 1)) ->
  exists v' u',
    reserve_one c (v, u) = Ok tt (v', u') /\
    Rep c v' xs /\ vlen v' < vcap v' /\ vlen v' = vlen v /\ vbk v' = vbk v /\ same_user u u' /\
    (vlen v < vcap v -> v' = v /\ u' = u).
Proof.
  intros Hwf HR Hg. unfold reserve_one. mstep.
  destruct (N.eqb_spec (vlen v) (vcap v)) as [E|NE].
  - destruct Hg as [Hg|Hg]; [lia|].
    destruct (mem_expand_ok c v u xs 1 Hwf HR Hg) as (v' & u' & E1 & H1 & H2 & H3 & H4 & H5 & H6 & H7).
    exists v', u'. splits; auto; lia.
  - exists v, u. pose proof (rep_cap _ _ _ HR).
    splits; auto using same_user_refl. lia.
Qed.

Theorem reserve_one_full_fixed c v u xs :
  Rep c v xs -> vlen v = vcap v -> fixed_backend (vbk v) ->
  reserve_one c (v, u) = Panic PCapacity (v, u).
Proof.
  intros _ E F. unfold reserve_one. mstep. rewrite E, N.eqb_refl.
  apply mem_expand_fixed. exact F.
Qed.

(** ** push *)
Theorem push_ok c v u xs t k :
  cfg_wf c -> Rep c v xs -> tok_ok (szn c) t ->
  (vlen v < vcap v \/ grow_ok c v (vcap v + 1)) ->
  exists v' u',
    push_unchecked c (VBytes (enc (szn c) t) k) (v, u) = Ok tt (v', u') /\
    Rep c v' (sp_push t xs) /\ vbk v' = vbk v /\ same_user u u' /\
    (vlen v < vcap v -> vcap v' = vcap v /\ vgen v' = vgen v).
Proof.
  intros Hwf HR Ht Hg.
  destruct (reserve_one_ok c v u xs Hwf HR Hg) as (v1 & u1 & E1 & HR1 & Hlt & Hl & Hbk & Hsu & Hsame).
  unfold push_unchecked. bstep E1.
  assert (Eg : getv (v1, u1) = Ok v1 (v1, u1)) by reflexivity. bstep Eg.
  destruct HR1 as [Hlen Hcap Hus Hst Hmem Htok].
  assert (Hoff : bo c (vlen v1) = (length xs * szn c)%nat).
  { rewrite Hlen. apply bo_of_nat. }
  assert (Hb : (length xs * szn c + szn c <= N.to_nat (vcap v1) * szn c)%nat).
  { replace (length xs * szn c + szn c)%nat with ((length xs + 1) * szn c)%nat by lia.
    apply Nat.mul_le_mono_r. lia. }
  assert (Ew := write_bytes_ok c (bo c (vlen v1)) (enc (szn c) t) k v1 u1 Hst).
  rewrite Hoff in Ew. specialize (Ew Hb (enc_length _ _)).
  rewrite Hoff. bstep Ew. unfold setv. cbn [fst snd].
  eexists _, _. split; [reflexivity|]. splits; auto;
    [|intros Hroom; destruct (Hsame Hroom) as [-> _]; split; reflexivity].
  unfold sp_push.
  constructor; cbn [with_len with_mem vlen vcap vmem]; auto.
  - rewrite app_length. cbn [length]. lia.
  - lia.
  - unfold store_ok in *. cbn [with_len with_mem vlen vcap vmem].
    rewrite mwrite_length; [exact Hst|]. rewrite enc_length. rewrite capbytes in Hst. lia.
  - rewrite app_length. cbn [length].
    replace ((length xs + 1) * szn c)%nat with (length xs * szn c + length (enc (szn c) t))%nat
      by (rewrite enc_length; lia).
    rewrite mwrite_firstn.
    + rewrite Hmem, flat_app. cbn [flat]. rewrite app_nil_r. reflexivity.
    + unfold store_ok in Hst. rewrite capbytes in Hst. rewrite enc_length. lia.
  - apply Forall_app. split; [exact Htok|]. constructor; [exact Ht|constructor].
Qed.

Theorem push_full_fixed c v u xs s :
  Rep c v xs -> vlen v = vcap v -> fixed_backend (vbk v) ->
  push_unchecked c s (v, u) = Panic PCapacity (v, u).
Proof.
  intros HR E F. unfold push_unchecked.
  apply bind_panic. eapply reserve_one_full_fixed; eauto.
Qed.

(** ** insert (both dispatch arms: [k = true] element-stride ptr::copy, [k = false] copy_bytes) *)
Lemma insert_mem sz m a b t :
  firstn ((length a + length b) * sz) m = flat sz a ++ flat sz b ->
  ((length a + length b + 1) * sz <= length m)%nat ->
  let off := (length a * sz)%nat in
  let m' := mwrite off (enc sz t) (memmove off (off + sz) (length b * sz) m) in
  length m' = length m /\
  firstn ((length a + 1 + length b) * sz) m' = flat sz a ++ enc sz t ++ flat sz b.
Proof.
  intros Hm Hlen off m'.
  set (N0 := ((length a + length b) * sz)%nat) in *.
  set (G := firstn sz (skipn N0 m)).
  set (R := skipn sz (skipn N0 m)).
  assert (Em : m = flat sz a ++ flat sz b ++ G ++ R).
  { rewrite <- (firstn_skipn N0 m) at 1. rewrite Hm, <- app_assoc.
    unfold G, R. rewrite firstn_skipn. reflexivity. }
  assert (HG : length G = sz).
  { unfold G. rewrite firstn_length, skipn_length. unfold N0. lia. }
  assert (Ha : length (flat sz a) = off) by (rewrite flat_length; reflexivity).
  assert (Hb : length (flat sz b) = (length b * sz)%nat) by apply flat_length.
  assert (Emm : memmove off (off + sz) (length b * sz) m
                = flat sz a ++ firstn sz (flat sz b ++ G) ++ flat sz b ++ R).
  { rewrite Em at 1. rewrite <- Ha, <- Hb. apply memmove_up. exact HG. }
  assert (HX : length (firstn sz (flat sz b ++ G)) = sz).
  { rewrite firstn_length, app_length. lia. }
  assert (Em' : m' = flat sz a ++ enc sz t ++ flat sz b ++ R).
  { unfold m'. rewrite Emm. rewrite <- Ha. apply mwrite_app.
    rewrite HX, enc_length. reflexivity. }
  split.
  - rewrite Em'. transitivity (length (flat sz a ++ flat sz b ++ G ++ R)); [|rewrite <- Em; reflexivity].
    rewrite !app_length, enc_length, HG. lia.
  - rewrite Em'.
    replace (flat sz a ++ enc sz t ++ flat sz b ++ R)
      with ((flat sz a ++ enc sz t ++ flat sz b) ++ R) by (rewrite <- !app_assoc; reflexivity).
    apply firstn_app_l. rewrite !app_length, enc_length, Ha, Hb. unfold off. lia.
Qed.

Lemma assert_true {S} b p (s : S) : b = true -> assert_ b p s = Ok tt s.
Proof. intros ->. reflexivity. Qed.

Lemma insert_run c v u xs t i :
  cfg_wf c -> Rep c v xs -> tok_ok (szn c) t -> (i <= length xs)%nat ->
  (vlen v < vcap v \/ grow_ok c v (vcap v + 1)) ->
  exists v' u',
    (forall k, insert_unchecked c (N.of_nat i) (VBytes (enc (szn c) t) k) (v, u) = Ok tt (v', u')) /\
    Rep c v' (sp_insert i t xs) /\ vbk v' = vbk v /\ same_user u u' /\
    (vlen v < vcap v -> vcap v' = vcap v /\ vgen v' = vgen v).
Proof.
  intros Hwf HR Ht Hi Hg.
  destruct (reserve_one_ok c v u xs Hwf HR Hg) as (v1 & u1 & E1 & HR1 & Hlt & Hl & Hbk & Hsu & Hsame).
  pose proof (rep_len _ _ _ HR) as Hlenv.
  destruct HR1 as [Hlen Hcap Hus Hst Hmem Htok].
  set (a := firstn i xs). set (b := skipn i xs).
  assert (Hla : length a = i) by (unfold a; rewrite firstn_length; lia).
  assert (Hlb : length b = (length xs - i)%nat) by (unfold b; apply skipn_length).
  assert (Hxs : xs = a ++ b) by (unfold a, b; symmetry; apply firstn_skipn).
  assert (Hoff : bo c (N.of_nat i) = (length a * szn c)%nat) by (rewrite Hla; apply bo_of_nat).
  assert (Hn : N.to_nat (c_sz c * (vlen v - N.of_nat i)) = (length b * szn c)%nat).
  { rewrite N2Nat.inj_mul. fold (szn c). rewrite Hlenv, Hlb. lia. }
  assert (Hcapb : ((length a + length b + 1) * szn c <= N.to_nat (vcap v1) * szn c)%nat).
  { apply Nat.mul_le_mono_r. lia. }
  assert (Hstore := Hst). unfold store_ok in Hstore. rewrite capbytes in Hstore.
  assert (Hm0 : firstn ((length a + length b) * szn c) (vmem v1) = flat (szn c) a ++ flat (szn c) b).
  { rewrite <- flat_app, <- Hxs. rewrite <- app_length, <- Hxs. exact Hmem. }
  destruct (insert_mem (szn c) (vmem v1) a b t Hm0) as [Hlm' Hm']; [lia|].
  eexists _, _. split; [intros k|].
  - unfold insert_unchecked.
    assert (Eg : getv (v, u) = Ok v (v, u)) by reflexivity. bstep Eg.
    assert (Ea : assert_ (N.of_nat i <=? vlen v) PIndex (v, u) = Ok tt (v, u)).
    { apply assert_true. apply N.leb_le. lia. }
    bstep Ea. bstep E1.
    assert (Es : setv (with_len (N.of_nat i)) (v1, u1) = Ok tt (with_len (N.of_nat i) v1, u1))
      by reflexivity.
    bstep Es. cbn [vknown].
    rewrite Hoff, Hn.
    assert (Esh : shift c k (length a * szn c) (length a * szn c + szn c) (length b * szn c)
                     (with_len (N.of_nat i) v1, u1)
                  = Ok tt (with_mem (memmove (length a * szn c) (length a * szn c + szn c)
                                       (length b * szn c) (vmem (with_len (N.of_nat i) v1))) (with_len (N.of_nat i) v1), u1)).
    { apply shift_ok; [change (store_ok c v1); exact Hst| |]; cbn [with_len vcap vmem]; lia. }
    bstep Esh.
    match goal with |- bind (write_value c ?o ?s) _ ?st = _ =>
      assert (Ew : write_value c o s st
                   = Ok tt (with_mem (mwrite o (enc (szn c) t) (vmem (fst st))) (fst st), u1))
    end.
    { apply write_bytes_ok; [|cbn [fst] |apply enc_length].
      - unfold store_ok. cbn [with_mem with_len vcap vmem fst].
        rewrite memmove_length by lia. exact Hst.
      -  cbn [with_len with_mem vcap]. lia. }
    bstep Ew. unfold setv. cbn [fst snd]. reflexivity.
  - splits; auto;
      [|intros Hroom; destruct (Hsame Hroom) as [-> _]; split; reflexivity].
    unfold sp_insert. fold a b.
    constructor; cbn [with_len with_mem vlen vcap vmem]; auto.
    + rewrite app_length. cbn [length]. lia.
    + lia.
    + unfold store_ok. cbn [with_len with_mem vlen vcap vmem].
      rewrite Hlm'. exact Hst.
    + rewrite app_length. cbn [length].
      replace (length a + S (length b))%nat with (length a + 1 + length b)%nat by lia.
      rewrite Hm'. rewrite flat_app. cbn [flat]. reflexivity.
    + rewrite Hxs in Htok. apply Forall_app in Htok. destruct Htok as [Ha Hb].
      apply Forall_app. split; [exact Ha|]. constructor; assumption.
Qed.

Theorem insert_ok c v u xs t k i :
  cfg_wf c -> Rep c v xs -> tok_ok (szn c) t -> (i <= length xs)%nat ->
  (vlen v < vcap v \/ grow_ok c v (vcap v + 1)) ->
  exists v' u',
    insert_unchecked c (N.of_nat i) (VBytes (enc (szn c) t) k) (v, u) = Ok tt (v', u') /\
    Rep c v' (sp_insert i t xs) /\ vbk v' = vbk v /\ same_user u u' /\
    (vlen v < vcap v -> vcap v' = vcap v /\ vgen v' = vgen v).
Proof.
  intros Hwf HR Ht Hi Hg.
  destruct (insert_run c v u xs t i Hwf HR Ht Hi Hg) as (v' & u' & E & H).
  exists v', u'. split; [apply E|exact H].
Qed.

Theorem insert_oob c v u xs s i :
  Rep c v xs -> N.of_nat (length xs) < i ->
  insert_unchecked c i s (v, u) = Panic PIndex (v, u).
Proof.
  intros HR Hi. unfold insert_unchecked.
  assert (Eg : getv (v, u) = Ok v (v, u)) by reflexivity. bstep Eg.
  apply bind_panic. unfold assert_.
  rewrite (rep_len _ _ _ HR).
  destruct (N.leb_spec i (N.of_nat (length xs))); [lia|reflexivity].
Qed.

Theorem insert_full_fixed c v u xs s i :
  Rep c v xs -> i <= vlen v -> vlen v = vcap v -> fixed_backend (vbk v) ->
  insert_unchecked c i s (v, u) = Panic PCapacity (v, u).
Proof.
  intros HR Hi E F. unfold insert_unchecked.
  assert (Eg : getv (v, u) = Ok v (v, u)) by reflexivity. bstep Eg.
  assert (Ea : assert_ (i <=? vlen v) PIndex (v, u) = Ok tt (v, u)).
  { apply assert_true. apply N.leb_le. exact Hi. }
  bstep Ea. apply bind_panic. eapply reserve_one_full_fixed; eauto.
Qed.

Corollary insert_arms_agree c v u xs t i :
  cfg_wf c -> Rep c v xs -> tok_ok (szn c) t -> (i <= length xs)%nat ->
  (vlen v < vcap v \/ grow_ok c v (vcap v + 1)) ->
  insert_unchecked c (N.of_nat i) (VBytes (enc (szn c) t) true) (v, u)
  = insert_unchecked c (N.of_nat i) (VBytes (enc (szn c) t) false) (v, u).
Proof.
  intros Hwf HR Ht Hi Hg.
  destruct (insert_run c v u xs t i Hwf HR Ht Hi Hg) as (v' & u' & E & H).
  rewrite !E. reflexivity.
Qed.


(** ** clear (no panicking destructor: the fuse is off) *)
Lemma drop_at_ok c v u off t :
  store_ok c v -> (off + 1 <= N.to_nat (vcap v))%nat ->
  msub (off * szn c) (szn c) (vmem v) = enc (szn c) t -> tok_ok (szn c) t -> ufuse u = None ->
  drop_at c (off * szn c) (v, u) = Ok tt (v, emit (EDrop t) u).
Proof.
  intros Hst Hb Hm Ht Hf. unfold drop_at.
  assert (Ec : check_range c (off * szn c) (szn c) (v, u) = Ok tt (v, u)).
  { apply check_range_ok; [exact Hst|].
    replace (off * szn c + szn c)%nat with ((off + 1) * szn c)%nat by lia.
    apply Nat.mul_le_mono_r. lia. }
  bstep Ec.
  assert (Eg : getv (v, u) = Ok v (v, u)) by reflexivity. bstep Eg.
  rewrite Hm, dec_enc by exact Ht.
  unfold bind, emitv, user_call, tick. cbn [fst snd emit ufuse]. rewrite Hf. reflexivity.
Qed.

Lemma drop_loop_ok c v ys : forall off u,
  store_ok c v -> Held c v off ys -> Forall (tok_ok (szn c)) ys ->
  (off + length ys <= N.to_nat (vcap v))%nat -> ufuse u = None ->
  exists u', drop_loop c (off * szn c) (length ys) (v, u) = Ok tt (v, u') /\
    ulog u' = rev (map EDrop ys) ++ ulog u /\ unext u' = unext u /\ ufuse u' = None.
Proof.
  induction ys as [|y ys IH]; intros off u Hst Hh Htok Hb Hf.
  - exists u. cbn [length drop_loop map rev app]. unfold ret. auto.
  - change (y :: ys) with ([y] ++ ys) in Hh. apply held_split in Hh.
    destruct Hh as [Hy Hys]. cbn [length] in Hys, Hb.
    unfold Held in Hy. cbn [length flat] in Hy. rewrite app_nil_r, Nat.mul_1_l in Hy.
    inversion Htok as [|? ? Hty Htys]; subst.
    cbn [length drop_loop].
    assert (Ed := drop_at_ok c v u off y Hst ltac:(lia) Hy Hty Hf).
    bstep Ed.
    replace (off * szn c + szn c)%nat with ((off + 1) * szn c)%nat by lia.
    destruct (IH (off + 1)%nat (emit (EDrop y) u) Hst Hys Htys ltac:(lia) Hf)
      as (u' & E & H1 & H2 & H3).
    exists u'. split; [exact E|]. split; [|split; assumption].
    rewrite H1. cbn [map rev emit ulog]. rewrite <- app_assoc. reflexivity.
Qed.

Theorem clear_ok c v u xs :
  Rep c v xs -> ufuse u = None ->
  exists v' u',
    clear c (v, u) = Ok tt (v', u') /\
    Rep c v' [] /\ vcap v' = vcap v /\ vbk v' = vbk v /\
    unext u' = unext u /\ ufuse u' = None /\
    ulog u' = (if c_dg c then rev (map EDrop xs) else []) ++ ulog u.
Proof.
  intros HR Hf. pose proof (rep_held _ _ _ HR) as HH.
  destruct HR as [Hlen Hcap Hus Hst Hmem Htok].
  assert (HR0 : Rep c (with_len 0 v) []).
  { constructor; cbn [with_len vlen vcap vmem length]; auto; try lia. }
  unfold clear.
  assert (Eg : getv (v, u) = Ok v (v, u)) by reflexivity. bstep Eg.
  assert (Es : setv (with_len 0) (v, u) = Ok tt (with_len 0 v, u)) by reflexivity. bstep Es.
  destruct (c_dg c).
  - rewrite Hlen, Nat2N.id.
    destruct (drop_loop_ok c (with_len 0 v) xs 0%nat u) as (u' & E & H1 & H2 & H3); auto.
    + cbn [with_len vcap]. lia.
    + cbn [Nat.mul] in E. exists (with_len 0 v), u'. splits; auto.
  - exists (with_len 0 v), u. unfold ret. splits; auto.
Qed.


(** ** set_len after writing into spare capacity (C12) *)
Theorem spare_write_set_len c v u xs ys m' :
  Rep c v xs -> Forall (tok_ok (szn c)) ys ->
  N.of_nat (length xs + length ys) <= vcap v ->
  length m' = length (vmem v) ->
  firstn (length xs * szn c) m' = firstn (length xs * szn c) (vmem v) ->
  firstn (length ys * szn c) (skipn (length xs * szn c) m') = flat (szn c) ys ->
  exists v',
    set_len c (N.of_nat (length xs + length ys)) (with_mem m' v, u) = Ok tt (v', u) /\
    Rep c v' (xs ++ ys).
Proof.
  intros [Hlen Hcap Hus Hst Hmem Htok] Hys Hle Hlm Hpre Hspare.
  unfold set_len.
  assert (Eg : getv (with_mem m' v, u) = Ok (with_mem m' v) (with_mem m' v, u)) by reflexivity.
  bstep Eg.
  assert (Ea : assert_ (negb (c_trap c) || (N.of_nat (length xs + length ys) <=? vcap (with_mem m' v)))
                 PAssert (with_mem m' v, u) = Ok tt (with_mem m' v, u)).
  { apply assert_true. cbn [with_mem vcap]. rewrite (proj2 (N.leb_le _ _) Hle).
    apply orb_true_r. }
  bstep Ea. unfold setv. cbn [fst snd].
  eexists. split; [reflexivity|].
  constructor; cbn [with_len with_mem vlen vcap vmem]; auto.
  - rewrite app_length. reflexivity.
  - unfold store_ok. cbn [with_len with_mem vlen vcap vmem]. rewrite Hlm. exact Hst.
  - rewrite app_length, Nat.mul_add_distr_r, firstn_plus, Hpre, Hmem, Hspare, flat_app.
    reflexivity.
  - apply Forall_app. split; assumption.
Qed.
