(** * Element handles (write through a handle: frame property and coherence of views),
      the type check in front of every raw operation, the raw-parts round trip. *)
From AV.Model Require Import Base Bytes Vec Ops Interp.
From AV.Spec Require Import VecSpec.
From AV.Proofs Require Import MemLemmas Rep VecProofs RangeProofs OwnProofs.
Arguments N.add : simpl never.
Arguments N.sub : simpl never.
Arguments N.mul : simpl never.

(** list update *)
Definition upd (i : nat) (t : N) (xs : list N) : list N := firstn i xs ++ t :: skipn (S i) xs.

Lemma upd_length i t xs : (i < length xs)%nat -> length (upd i t xs) = length xs.
Proof.
  intros Hi. unfold upd. rewrite app_length. cbn [length]. rewrite firstn_length, skipn_length. lia.
Qed.
Lemma upd_nth_same i t xs : (i < length xs)%nat -> nth i (upd i t xs) 0 = t.
Proof.
  intros Hi. unfold upd. rewrite app_nth2; rewrite firstn_length; [|lia].
  replace (i - Nat.min i (length xs))%nat with 0%nat by lia. reflexivity.
Qed.
Lemma upd_nth_other i j t xs : (i < length xs)%nat -> j <> i -> nth j (upd i t xs) 0 = nth j xs 0.
Proof.
  intros Hi Hj. unfold upd.
  destruct (Nat.lt_ge_cases j i) as [Hlt|Hge].
  - rewrite app_nth1 by (rewrite firstn_length; lia). apply nth_firstn_lt. exact Hlt.
  - rewrite app_nth2 by (rewrite firstn_length; lia). rewrite firstn_length.
    replace (Nat.min i (length xs)) with i by lia.
    destruct (j - i)%nat as [|k] eqn:E; [lia|]. cbn [nth].
    rewrite nth_skipn. f_equal. lia.
Qed.

(** ** Writing through a handle ([ElementMut::downcast_mut], typed [at_mut], a removal handle
       before it is consumed ...): exactly slot [i] changes. *)
Theorem write_elem c v u xs i t :
  Rep c v xs -> (i < length xs)%nat -> tok_ok (szn c) t ->
  exists v',
    write_ptr c (ptr_at c v (N.of_nat i)) (enc (szn c) t) (v, u) = Ok tt (v', u) /\
    Rep c v' (upd i t xs) /\
    vlen v' = vlen v /\ vcap v' = vcap v /\ vgen v' = vgen v /\ vbk v' = vbk v /\
    length (vmem v') = length (vmem v).
Proof.
  intros HR Hi Ht. assert (HR' := HR). destruct HR as [Hlen Hcap Hus Hst Hmem Htok].
  unfold write_ptr, ptr_at. cbn [pgen poff].
  assert (Eg : getv (v, u) = Ok v (v, u)) by reflexivity. bstep Eg.
  rewrite N.eqb_refl. cbn [negb]. rewrite bo_of_nat.
  assert (Hst' := Hst). unfold store_ok in Hst'. rewrite capbytes in Hst'.
  assert (Hcapn : (length xs <= N.to_nat (vcap v))%nat) by lia.
  assert (Hb : (i * szn c + szn c <= N.to_nat (vcap v) * szn c)%nat).
  { replace (i * szn c + szn c)%nat with ((i + 1) * szn c)%nat by lia.
    apply Nat.mul_le_mono_r. lia. }
  rewrite write_bytes_ok; [|exact Hst|exact Hb|apply enc_length].
  eexists. split; [reflexivity|].
  set (m' := mwrite (i * szn c) (enc (szn c) t) (vmem v)).
  assert (Hlm : length m' = length (vmem v)).
  { unfold m', mwrite. rewrite !app_length, firstn_length, skipn_length, enc_length. lia. }
  cbn [with_mem vlen vcap vgen vbk vmem]. fold m'.
  split; [|repeat split; auto].
  (* the new memory holds a ++ [t] ++ b *)
  set (a := firstn i xs). set (b := skipn (S i) xs).
  assert (Hla : length a = i) by (unfold a; rewrite firstn_length; lia).
  assert (Hxs : xs = a ++ nth i xs 0 :: b).
  { unfold a, b. rewrite <- (firstn_skipn i xs) at 1. f_equal.
    rewrite (skipn_nth_cons 0 xs i Hi) at 1. reflexivity. }
  assert (Hheld : Held c v 0 xs) by (apply rep_held; exact HR').
  rewrite Hxs in Hheld. apply held_split in Hheld. destruct Hheld as [Ha Hxb].
  change (nth i xs 0 :: b) with ([nth i xs 0] ++ b) in Hxb.
  apply held_split in Hxb. destruct Hxb as [_ Hbb].
  rewrite Nat.add_0_l in Hbb. cbn [length] in Hbb. rewrite Hla in Hbb.
  apply rep_of_held; cbn [with_mem vlen vcap vmem]; fold m'.
  - rewrite upd_length by exact Hi. exact Hlen.
  - exact Hcap.
  - exact Hus.
  - unfold store_ok. cbn [with_mem vcap vmem]. fold m'. rewrite Hlm. exact Hst.
  - unfold upd. fold a b.
    apply held_app.
    + unfold Held in *. cbn [with_mem vmem]. fold m'.
      apply (heldm_mwrite_before (szn c) (vmem v) 0 a (i * szn c) (enc (szn c) t)).
      * exact Ha.
      * rewrite Hla. lia.
      * lia.
    + rewrite Nat.add_0_l, Hla.
      change (t :: b) with ([t] ++ b). apply held_app.
      * unfold Held. cbn [with_mem vmem]. fold m'.
        assert (Hf : flat (szn c) [t] = enc (szn c) t) by (cbn [flat]; apply app_nil_r).
        unfold m'. rewrite <- Hf. apply heldm_mwrite_at. lia.
      * cbn [length]. unfold Held in *. cbn [with_mem vmem]. fold m'.
        apply (heldm_mwrite_after (szn c) (vmem v) (i + 1) b (i * szn c) (enc (szn c) t)).
        -- exact Hbb.
        -- rewrite enc_length. lia.
        -- lia.
  - unfold upd. apply Forall_app. split.
    + apply Forall_firstn'. exact Htok.
    + constructor; [exact Ht|]. apply Forall_skipn'. exact Htok.
Qed.

(** what was written is what every other view reads, and no other element changed *)
Corollary write_then_read c v u xs i j t :
  Rep c v xs -> (i < length xs)%nat -> (j < length xs)%nat -> tok_ok (szn c) t ->
  exists v',
    write_ptr c (ptr_at c v (N.of_nat i)) (enc (szn c) t) (v, u) = Ok tt (v', u) /\
    snapshot c v' = Some (upd i t xs) /\
    read_ptr c (ptr_at c v' (N.of_nat j)) (v', u)
      = Ok (enc (szn c) (if Nat.eqb j i then t else nth j xs 0)) (v', u).
Proof.
  intros HR Hi Hj Ht.
  destruct (write_elem c v u xs i t HR Hi Ht) as (v' & E & HR' & _).
  exists v'. split; [exact E|]. split; [apply snapshot_rep; exact HR'|].
  rewrite (read_elem c v' u (upd i t xs) j HR') by (rewrite upd_length; assumption).
  f_equal. f_equal.
  destruct (Nat.eqb_spec j i) as [->|Hne].
  - apply upd_nth_same. exact Hi.
  - apply upd_nth_other; assumption.
Qed.

(** ** The type check precedes every raw operation *)

(** the offered value has another runtime type: [push]/[insert] panic before [action] (the raw
    operation, arbitrary here) is reached; the world's vectors are untouched and an owning
    wrapper destroys its value exactly once. *)
Theorem offer_wrong_type_owned c vid o (action : vsrc -> M st unit) w t :
  f_checked o = true -> (f_ty o =? c_ty c) = false -> f_drop o = DOwned t ->
  offer_into c vid o action w
  = Panic PType {| wv := wv w;
                   wuw := if c_dg c then emit (EDrop t) (wuw w) else wuw w |}.
Proof.
  intros Hc Hty Hd. unfold offer_into, unwinding, on_unwind, bind.
  rewrite Hc. unfold assert_. rewrite Hty. unfold raise.
  unfold quiet, drop_offer. rewrite Hd.
  destruct (c_dg c).
  - unfold emitw, disarm, emit. cbn [wv wuw ulog unext ufuse]. destruct w as [vs [l n f]]; reflexivity.
  - unfold ret, disarm. cbn [wv wuw ulog unext ufuse]. destruct w as [vs [l n f]]; reflexivity.
Qed.

(** raw-pointer wrappers and lazy clones own nothing: nothing at all happens *)
Theorem offer_wrong_type_borrowed c vid o (action : vsrc -> M st unit) w :
  f_checked o = true -> (f_ty o =? c_ty c) = false -> f_drop o = DNone ->
  offer_into c vid o action w = Panic PType w.
Proof.
  intros Hc Hty Hd. unfold offer_into, unwinding, on_unwind, bind.
  rewrite Hc. unfold assert_. rewrite Hty. unfold raise.
  unfold quiet, drop_offer. rewrite Hd. unfold ret, disarm.
  destruct w as [vs [l n f]]; reflexivity.
Qed.

(** with the right type the check is transparent: the raw operation runs on the vector *)
Theorem offer_right_type c vid o (action : vsrc -> M st unit) w :
  (f_ty o =? c_ty c) = true ->
  offer_into c vid o action w
  = (unwinding (on_vec vid (action (f_src o))) (drop_offer c o);; finish_offer c o) w.
Proof.
  intros Hty. unfold offer_into, unwinding, on_unwind, bind.
  destruct (f_checked o); unfold assert_; rewrite ?Hty; reflexivity.
Qed.

(** ** Raw parts: in the model decomposing and rebuilding is the identity on machine states *)
Theorem parts_identity c vid mode w v :
  get_vec vid w = Some v ->
  exec c (OParts vid mode) w
  = Ok (0, [vlen v; vcap v; c_sz c; c_al c; 1; if c_dg c then 1 else 0]) w.
Proof.
  intros Hg. unfold exec, bind, peek_vec. rewrite Hg. reflexivity.
Qed.

(** ** Storage lifecycle of the user-defined backend *)

(** [MemBuilder::build] is called once, with the element type's layout *)
Theorem build_reloc_event c c0 v0 u :
  mem_build c (BReloc c0) (v0, u)
  = Ok tt ({| vlen := 0; vcap := c0; vmem := uninit (N.to_nat (c_sz c * c0)); vgen := 0; vbk := BReloc c0 |},
           emit (EBuild (c_sz c) (c_al c)) u).
Proof. reflexivity. Qed.

(** [shrink_to] / [shrink_to_fit] never ask for less than the live length *)
Theorem shrink_request_ge_len c c0 v u m :
  vbk v = BReloc c0 ->
  forall r, shrink_to c m (v, u) = r ->
  (r = Ok tt (v, u) /\ vcap v <= N.max (vlen v) m) \/
  (exists n, vlen v <= n /\ n < vcap v /\
             r = reloc_resize c n (v, emit (EResize n) u)).
Proof.
  intros Hbk r <-. unfold shrink_to. mstep.
  destruct (N.ltb_spec (N.max (vlen v) m) (vcap v)) as [Hlt|Hge].
  - right. exists (N.max (vlen v) m). split; [lia|]. split; [exact Hlt|].
    unfold mem_resize. mstep. rewrite Hbk. reflexivity.
  - left. split; [reflexivity|exact Hge].
Qed.
Theorem shrink_to_fit_request c c0 v u :
  vbk v = BReloc c0 ->
  shrink_to_fit c (v, u) = reloc_resize c (vlen v) (v, emit (EResize (vlen v)) u).
Proof.
  intros Hbk. unfold shrink_to_fit, mem_resize. mstep. rewrite Hbk. reflexivity.
Qed.

(** dropping a vector: the remaining elements are destroyed first (in order), then the storage
    is released, once *)
Theorem drop_vec_reloc c c0 v u xs :
  Rep c v xs -> ufuse u = None -> vbk v = BReloc c0 ->
  exists v' u',
    drop_vec c (v, u) = Ok tt (v', u') /\ vlen v' = 0 /\
    ulog u' = EMemDrop :: (if c_dg c then rev (map EDrop xs) else []) ++ ulog u.
Proof.
  intros HR Hf Hbk.
  destruct (clear_ok c v u xs HR Hf) as (v1 & u1 & Ec & HR1 & Hcap1 & Hbk1 & Hn1 & Hf1 & Hl1).
  unfold drop_vec.
  rewrite (bind_ok _ _ _ _ _ (unwinding_ok _ _ _ _ _ Ec)).
  unfold mem_drop. mstep. rewrite Hbk1, Hbk.
  eexists _, _. split; [reflexivity|]. split.
  - destruct HR1 as [Hl _ _ _ _ _]. exact Hl.
  - cbn [emit ulog snd]. rewrite Hl1. reflexivity.
Qed.
