(** * Capacity management (C10) and the heap allocation ledger (C18). *)
From AV.Model Require Import Base Bytes Vec.
From AV.Spec Require Import VecSpec.
From AV.Proofs Require Import MemLemmas Rep VecProofs.
Arguments N.add : simpl never.
Arguments N.sub : simpl never.
Arguments N.mul : simpl never.
Arguments N.max : simpl never.
Arguments N.min : simpl never.

Ltac mred := cbv beta iota; unfold ret; cbv beta iota; cbn [fst snd].

Definition resizable_backend (b : bkind) : Prop := b = BHeap \/ exists c0, b = BReloc c0.

(** ** Auxiliary: [mem_resize] growing and shrinking *)
Lemma mem_resize_grow c v u xs ncap :
  cfg_wf c -> Rep c v xs -> resizable_backend (vbk v) ->
  vcap v <= ncap -> ncap <= usize_max -> c_sz c * ncap <= alloc_limit ->
  exists v' u',
    mem_resize c ncap (v, u) = Ok tt (v', u') /\ Rep c v' xs /\ vcap v' = ncap /\ vbk v' = vbk v /\ same_user u u'.
Proof.
  intros Hwf HR Hb Hle Hmax Hlim. unfold mem_resize. mstep.
  destruct Hb as [Hb|[c0 Hb]]; rewrite Hb.
  - destruct (heap_resize_grow c v u xs ncap Hwf HR Hle Hmax Hlim)
      as (v' & u' & E & H1 & H2 & H3 & H4 & H5 & H6).
    exists v', u'. splits; auto. congruence.
  - destruct (reloc_resize_grow c v (emit (EResize ncap) u) xs ncap HR Hle Hmax Hlim)
      as (v' & u' & E & H1 & H2 & H3 & H4 & H5 & H6).
    exists v', u'. splits; auto; try congruence.
Qed.

Lemma shrink_store_rep c v xs ncap g :
  Rep c v xs -> vlen v <= ncap -> ncap <= vcap v ->
  let nbytes := c_sz c * ncap in
  let keep := N.to_nat (N.min (c_sz c * vcap v) nbytes) in
  Rep c (with_store ncap (firstn keep (vmem v) ++ uninit (N.to_nat nbytes - keep)) g v) xs.
Proof.
  intros [Hlen Hcap Hus Hst Hmem Htok] Hl Hle nbytes keep.
  unfold store_ok in Hst.
  assert (Hm : ncap * c_sz c <= vcap v * c_sz c) by (apply N.mul_le_mono_r; exact Hle).
  assert (Hk : keep = N.to_nat (ncap * c_sz c)).
  { unfold keep, nbytes. f_equal. lia. }
  assert (Hkl : length (firstn keep (vmem v)) = keep).
  { rewrite firstn_length. lia. }
  assert (Hxs : (length xs * szn c <= keep)%nat).
  { rewrite Hk. unfold szn. rewrite N2Nat.inj_mul. apply Nat.mul_le_mono_r. lia. }
  constructor; cbn [with_store vlen vcap vmem].
  - exact Hlen.
  - exact Hl.
  - lia.
  - unfold store_ok; cbn [with_store vlen vcap vmem].
    rewrite app_length, Hkl, uninit_length. lia.
  - rewrite firstn_app_le by lia.
    rewrite firstn_firstn. rewrite Nat.min_l by lia. exact Hmem.
  - exact Htok.
Qed.

Lemma mem_resize_shrink c v u xs ncap :
  cfg_wf c -> Rep c v xs -> resizable_backend (vbk v) ->
  vlen v <= ncap -> ncap <= vcap v -> c_sz c * vcap v <= alloc_limit ->
  exists v' u',
    mem_resize c ncap (v, u) = Ok tt (v', u') /\ Rep c v' xs /\ vcap v' = ncap /\ vbk v' = vbk v /\ same_user u u'.
Proof.
  intros [Hal1 Hal2] HR Hb Hl Hle Hlim.
  assert (Hnb : c_sz c * ncap <= c_sz c * vcap v) by (apply N.mul_le_mono_l; exact Hle).
  assert (Hu : c_sz c * ncap <= usize_max) by (unfold alloc_limit, usize_max in *; lia).
  unfold mem_resize. mstep.
  destruct Hb as [Hb|[c0 Hb]]; rewrite Hb.
  - unfold heap_resize. mstep.
    destruct (N.eqb_spec (vcap v) ncap) as [E|NE].
    { exists v, u. splits; auto using same_user_refl. }
    destruct (N.eqb_spec (c_sz c) 0) as [Z|NZ].
    { exists (with_store ncap (vmem v) (vgen v) v), u.
      split; [reflexivity|].
      destruct HR as [Hlen Hcap Hus Hst Hmem Htok].
      splits; auto using same_user_refl.
      constructor; cbn [with_store vlen vcap vmem]; auto; try lia.
      unfold store_ok; cbn [with_store vlen vcap vmem]. rewrite Z, N.mul_0_r. cbn. lia. }
    destruct (N.eqb_spec ncap 0) as [Z0|NZ0].
    { eexists _, _. split; [reflexivity|].
      destruct HR as [Hlen Hcap Hus Hst Hmem Htok].
      assert (Hxs : xs = []).
      { destruct xs; [reflexivity|]. cbn [length] in Hlen. lia. }
      subst xs.
      splits; cbn [with_store vlen vcap vmem fst snd]; auto.
      - constructor; cbn [with_store vlen vcap vmem fst snd]; auto; try lia.
        unfold store_ok; cbn [with_store vlen vcap vmem]. rewrite N.mul_0_l. cbn. lia.
      - apply same_user_emit. reflexivity. }
    unfold checked_mul.
    rewrite (proj2 (N.leb_le _ _) Hu). cbv beta iota. unfold ret. cbn [fst snd].
    destruct (N.ltb_spec (isize_max - (c_al c - 1)) (c_sz c * ncap)) as [Hbad|_].
    { unfold alloc_limit, isize_max in *. lia. }
    destruct (N.ltb_spec alloc_limit (c_sz c * ncap)) as [Hbad|_]; [lia|].
    destruct (N.eqb_spec (vcap v) 0) as [C0|CN0]; [lia|].
    eexists _, _. split; [reflexivity|].
    pose proof (shrink_store_rep c v xs ncap (vgen v + 1) HR Hl Hle) as HR'.
    splits; cbn [with_store vlen vcap vmem fst snd]; auto.
    apply same_user_emit. reflexivity.
  - unfold reloc_resize. mstep. unfold checked_mul.
    rewrite (proj2 (N.leb_le _ _) Hu). cbv beta iota. unfold ret. cbn [fst snd].
    destruct (N.ltb_spec alloc_limit (c_sz c * ncap)) as [Hbad|_]; [lia|].
    eexists _, _. split; [reflexivity|].
    pose proof (shrink_store_rep c v xs ncap (vgen v + 1) HR Hl Hle) as HR'.
    splits; cbn [with_store vlen vcap vmem fst snd]; auto.
    apply same_user_emit. reflexivity.
Qed.

(** ** reserve / reserve_exact *)

(** capacity already sufficient: nothing happens at all (no event, no reallocation) *)
Theorem reserve_noop c v u xs n :
  Rep c v xs -> vlen v + n <= vcap v ->
  reserve c n (v, u) = Ok tt (v, u) /\ reserve_exact c n (v, u) = Ok tt (v, u).
Proof.
  intros HR H. pose proof (rep_usize _ _ _ HR) as Hu.
  unfold reserve, reserve_exact. mstep. unfold checked_add.
  assert (H1 : vlen v + n <= usize_max) by lia.
  rewrite (proj2 (N.leb_le _ _) H1). mred.
  destruct (N.ltb_spec (vcap v) (vlen v + n)); [lia|]. split; reflexivity.
Qed.

Theorem reserve_grows c v u xs n :
  cfg_wf c -> Rep c v xs -> vcap v < vlen v + n -> grow_ok c v (vlen v + n) ->
  exists v' u',
    reserve c n (v, u) = Ok tt (v', u') /\
    Rep c v' xs /\ vlen v + n <= vcap v' /\ vcap v' = grow_target v (vlen v + n) /\
    vbk v' = vbk v /\ same_user u u'.
Proof.
  intros Hwf HR Hlt Hg.
  assert (Hu : vlen v + n <= usize_max).
  { unfold grow_ok in Hg. destruct (vbk v); try contradiction; apply Hg. }
  assert (Ea : vcap v + (vlen v + n - vcap v) = vlen v + n) by lia.
  destruct (mem_expand_ok c v u xs (vlen v + n - vcap v) Hwf HR)
    as (v' & u' & E & H1 & H2 & H3 & H4 & H5 & H6 & H7).
  { rewrite Ea. exact Hg. }
  rewrite Ea in H2, H3.
  exists v', u'. unfold reserve. mstep. unfold checked_add.
  rewrite (proj2 (N.leb_le _ _) Hu). mred.
  destruct (N.ltb_spec (vcap v) (vlen v + n)); [|lia].
  splits; auto.
Qed.

(** len + n not representable: panic (in both build profiles), nothing changed *)
Theorem reserve_overflow c v u n :
  usize_max < vlen v + n ->
  reserve c n (v, u) = Panic POverflow (v, u) /\ reserve_exact c n (v, u) = Panic POverflow (v, u).
Proof.
  intros H. unfold reserve, reserve_exact. mstep. unfold checked_add.
  destruct (N.leb_spec (vlen v + n) usize_max); [lia|]. split; reflexivity.
Qed.

(** reserve_exact on a resizable backend ends at exactly len + n *)
Theorem reserve_exact_grows c v u xs n :
  cfg_wf c -> Rep c v xs -> resizable_backend (vbk v) ->
  vcap v < vlen v + n -> vlen v + n <= usize_max -> c_sz c * (vlen v + n) <= alloc_limit ->
  exists v' u',
    reserve_exact c n (v, u) = Ok tt (v', u') /\
    Rep c v' xs /\ vcap v' = vlen v + n /\ vbk v' = vbk v /\ same_user u u'.
Proof.
  intros Hwf HR Hb Hlt Hu Hlim.
  assert (Ea : vcap v + (vlen v + n - vcap v) = vlen v + n) by lia.
  destruct (mem_resize_grow c v u xs (vlen v + n) Hwf HR Hb) as (v' & u' & E & H1 & H2 & H3 & H4);
    try lia.
  exists v', u'. unfold reserve_exact. mstep. unfold checked_add.
  rewrite (proj2 (N.leb_le _ _) Hu). mred.
  destruct (N.ltb_spec (vcap v) (vlen v + n)); [|lia].
  unfold mem_expand_exact. mstep. unfold uadd. rewrite Ea.
  rewrite (proj2 (N.leb_le _ _) Hu). mred.
  splits; auto.
Qed.

(** ** shrink_to / shrink_to_fit: never grow, never below max(len, m); exactly
    min(cap, max(len, m)) on resizable backends; contents unchanged *)
Theorem shrink_to_spec c v u xs m :
  cfg_wf c -> Rep c v xs -> resizable_backend (vbk v) -> c_sz c * vcap v <= alloc_limit ->
  exists v' u',
    shrink_to c m (v, u) = Ok tt (v', u') /\
    Rep c v' xs /\ vcap v' = N.min (vcap v) (N.max (vlen v) m) /\
    vbk v' = vbk v /\ same_user u u' /\
    (vcap v <= N.max (vlen v) m -> v' = v /\ u' = u).
Proof.
  intros Hwf HR Hb Hlim. unfold shrink_to. mstep. cbv zeta.
  destruct (N.ltb_spec (N.max (vlen v) m) (vcap v)) as [Hlt|Hge].
  - destruct (mem_resize_shrink c v u xs (N.max (vlen v) m) Hwf HR Hb) as (v' & u' & E & H1 & H2 & H3 & H4);
      try lia.
    exists v', u'. splits; auto; try lia.
  - exists v, u. splits; auto using same_user_refl. lia.
Qed.

Theorem shrink_to_fit_spec c v u xs :
  cfg_wf c -> Rep c v xs -> resizable_backend (vbk v) -> c_sz c * vcap v <= alloc_limit ->
  exists v' u',
    shrink_to_fit c (v, u) = Ok tt (v', u') /\
    Rep c v' xs /\ vcap v' = vlen v /\ vbk v' = vbk v /\ same_user u u'.
Proof.
  intros Hwf HR Hb Hlim. unfold shrink_to_fit. mstep.
  pose proof (rep_cap _ _ _ HR).
  destruct (mem_resize_shrink c v u xs (vlen v) Hwf HR Hb) as (v' & u' & E & H1 & H2 & H3 & H4);
    try lia.
  exists v', u'. splits; auto.
Qed.

(** ** Amortised growth on the heap backend: doubling *)

(** capacity after one growth step of [reserve_one] on Heap *)
Definition heap_grow1 (cap : N) : N := N.max (saturating_mul cap 2) (cap + 1).

(** [n] pushes into an empty heap vector: (final capacity, number of growth steps
    = number of alloc/realloc calls for a non-zero-sized element) *)
Fixpoint push_run (n : nat) (len cap steps : N) : N * N :=
  match n with
  | O => (cap, steps)
  | S k => if len =? cap then push_run k (len + 1) (heap_grow1 cap) (steps + 1)
           else push_run k (len + 1) cap steps
  end.

Lemma heap_grow1_double cap : 0 < cap -> cap * 2 <= usize_max -> heap_grow1 cap = cap * 2.
Proof.
  intros H0 H. unfold heap_grow1, saturating_mul. rewrite (proj2 (N.leb_le _ _) H). lia.
Qed.

(** generalised invariant of a push run *)
Definition pr_inv (len cap steps : N) : Prop :=
  (cap = 0 /\ steps = 0 /\ len = 0) \/
  (exists e, cap = 2 ^ e /\ steps = e + 1 /\ len <= cap /\ cap < 2 * len).

Lemma push_run_inv k : forall len cap steps,
  pr_inv len cap steps -> (len + N.of_nat k) * 2 <= usize_max ->
  pr_inv (len + N.of_nat k) (fst (push_run k len cap steps)) (snd (push_run k len cap steps)).
Proof.
  induction k as [|k IH]; intros len cap steps Hi Hb.
  - cbn [push_run fst snd]. change (N.of_nat 0) with 0. rewrite N.add_0_r. exact Hi.
  - cbn [push_run].
    replace (len + N.of_nat (S k)) with (len + 1 + N.of_nat k) in * by lia.
    destruct (N.eqb_spec len cap) as [E|NE].
    + apply IH; [|exact Hb].
      destruct Hi as [(C & S0 & L)|(e & C & S0 & L1 & L2)].
      * right. exists 0. subst. change (heap_grow1 0) with 1.
        change (2 ^ 0) with 1. splits; lia.
      * right. exists (e + 1).
        assert (Hpos : 0 < cap).
        { rewrite C. apply N.neq_0_lt_0, N.pow_nonzero. lia. }
        rewrite heap_grow1_double by lia.
        rewrite N.pow_add_r, N.pow_1_r, <- C. splits; lia.
    + apply IH; [|exact Hb].
      destruct Hi as [(C & S0 & L)|(e & C & S0 & L1 & L2)]; [lia|].
      right. exists e. splits; lia.
Qed.

(** the invariant of a push run: capacity is 0 or a power of two >= len, steps = log2(cap)+1 *)
Theorem push_run_log n :
  N.of_nat n * 2 <= usize_max ->
  let '(cap, steps) := push_run n 0 0 0 in
  N.of_nat n <= cap /\ steps <= N.log2 (N.of_nat n) + 2.
Proof.
  intros Hb. pose proof (push_run_inv n 0 0 0) as H.
  destruct (push_run n 0 0 0) as [cap steps]. cbn [fst snd] in H.
  rewrite N.add_0_l in H.
  destruct H as [(C & S0 & L)|(e & C & S0 & L1 & L2)].
  { left; auto. }
  { exact Hb. }
  - split; lia.
  - split; [lia|].
    destruct (N.eq_dec e 0) as [Z|NZ]; [lia|].
    assert (Ee : e = N.succ (e - 1)) by lia.
    remember (e - 1) as e' eqn:He'.
    rewrite Ee, N.pow_succ_r' in C.
    assert (Hp : 2 ^ e' <= N.of_nat n) by lia.
    apply N.log2_le_mono in Hp. rewrite N.log2_pow2 in Hp by lia. lia.
Qed.

Lemma reserve_one_cap c v u xs :
  cfg_wf c -> Rep c v xs -> vbk v = BHeap ->
  (vlen v < vcap v \/ grow_ok c v (vcap v + 1)) ->
  exists v' u',
    reserve_one c (v, u) = Ok tt (v', u') /\
    Rep c v' xs /\ vlen v' < vcap v' /\ vlen v' = vlen v /\
    vcap v' = (if vlen v =? vcap v then heap_grow1 (vcap v) else vcap v).
Proof.
  intros Hwf HR Hbk Hg. unfold reserve_one. mstep.
  destruct (N.eqb_spec (vlen v) (vcap v)) as [E|NE].
  - destruct Hg as [Hg|Hg]; [lia|].
    destruct (mem_expand_ok c v u xs 1 Hwf HR Hg)
      as (v' & u' & E1 & H1 & H2 & H3 & H4 & H5 & H6 & H7).
    exists v', u'. splits; auto; try lia.
    rewrite H2. unfold grow_target, heap_grow1. rewrite Hbk. reflexivity.
  - exists v, u. pose proof (rep_cap _ _ _ HR). splits; auto. lia.
Qed.

(** tie to the machine: one model push on a heap vector follows [heap_grow1] *)
Theorem push_heap_cap c v u xs t k :
  cfg_wf c -> Rep c v xs -> tok_ok (szn c) t -> vbk v = BHeap ->
  (vlen v < vcap v \/ grow_ok c v (vcap v + 1)) ->
  exists v' u',
    push_unchecked c (VBytes (enc (szn c) t) k) (v, u) = Ok tt (v', u') /\
    vcap v' = (if vlen v =? vcap v then heap_grow1 (vcap v) else vcap v).
Proof.
  intros Hwf HR Ht Hbk Hg.
  destruct (reserve_one_cap c v u xs Hwf HR Hbk Hg) as (v1 & u1 & E1 & HR1 & Hlt & Hl & Hc).
  unfold push_unchecked. bstep E1.
  assert (Eg : getv (v1, u1) = Ok v1 (v1, u1)) by reflexivity. bstep Eg.
  destruct HR1 as [Hlen Hcap Hus Hst Hmem Htok].
  assert (Hoff : bo c (vlen v1) = (length xs * szn c)%nat).
  { rewrite Hlen. apply bo_of_nat. }
  assert (Hb : (length xs * szn c + szn c <= N.to_nat (vcap v1) * szn c)%nat).
  { replace (length xs * szn c + szn c)%nat with ((length xs + 1) * szn c)%nat by lia.
    apply Nat.mul_le_mono_r. lia. }
  assert (Ew := write_bytes_ok c (bo c (vlen v1)) (enc (szn c) t) k v1 u1 Hst).
  rewrite Hoff in Ew. specialize (Ew Hb (enc_length _ _)).
  rewrite Hoff. bstep Ew. unfold setv. cbn [fst snd].
  eexists _, _. split; [reflexivity|].
  cbn [with_len with_mem vcap]. exact Hc.
Qed.

(** ** The heap allocation ledger (C18) *)

(** the block a heap vector owns: none while capacity * size = 0 *)
Definition owned_block (c : cfg) (v : vec) : option (N * N) :=
  if c_sz c * vcap v =? 0 then None else Some (c_sz c * vcap v, c_al c).

(** replaying allocator events against the ledger: [None] = an event that does not
    present the layout of the live block (or allocates while a block is live) *)
Definition ledger_step (blk : option (N * N)) (e : event) : option (option (N * N)) :=
  match e, blk with
  | EAlloc s a, None => if 0 <? s then Some (Some (s, a)) else None
  | ERealloc o a n, Some (s, a') =>
      if (o =? s) && (a =? a') && (0 <? n) then Some (Some (n, a)) else None
  | EDealloc s a, Some (s', a') => if (s =? s') && (a =? a') then Some None else None
  | EAlloc _ _, Some _ | ERealloc _ _ _, None | EDealloc _ _, None => None
  | _, _ => Some blk           (* not an allocator event *)
  end.
Fixpoint ledger_run (blk : option (N * N)) (es : list event) : option (option (N * N)) :=
  match es with
  | [] => Some blk
  | e :: r => match ledger_step blk e with Some b' => ledger_run b' r | None => None end
  end.
(** a request the allocator may legally receive *)
Definition valid_request (e : event) : Prop :=
  match e with
  | EAlloc s a => s <= isize_max - (a - 1)
  | ERealloc _ a n => n <= isize_max - (a - 1)
  | _ => True
  end.
(** the events a computation appended (the log is newest first) *)
Definition appended (u u' : uw) (es : list event) : Prop := ulog u' = rev es ++ ulog u.

(** every resize of a heap vector - whatever its outcome - presents the ledger's layout,
    makes only valid requests, and leaves the ledger describing the new state *)
Theorem heap_resize_ledger c v u n :
  vbk v = BHeap ->
  match heap_resize c n (v, u) with
  | Ok _ (v', u') =>
      exists es, appended u u' es /\ Forall valid_request es /\
        ledger_run (owned_block c v) es = Some (owned_block c v') /\ vcap v' = n /\ vbk v' = BHeap
  | Panic _ (v', u') => v' = v /\ u' = u          (* rejected before reaching the allocator *)
  | Fault _ => True                               (* allocator refused: abort *)
  end.
Proof.
  intros Hbk. unfold heap_resize. mstep.
  destruct (N.eqb_spec (vcap v) n) as [E|NE].
  { mred. exists []. unfold appended. cbn [rev app ledger_run]. splits; auto. }
  destruct (N.eqb_spec (c_sz c) 0) as [Z|NZ].
  { mred. exists []. unfold appended. cbn [rev app ledger_run with_store vcap vbk].
    splits; auto. unfold owned_block. cbn [with_store vcap]. rewrite Z, !N.mul_0_l. reflexivity. }
  cbv zeta.
  destruct (N.eqb_spec n 0) as [Z0|NZ0].
  { mred. exists [EDealloc (c_sz c * vcap v) (c_al c)]. unfold appended.
    cbn [rev app ledger_run with_store vcap vbk emit ulog].
    splits; auto; [constructor; [exact I|constructor]|].
    unfold owned_block. cbn [with_store vcap].
    destruct (N.eqb_spec (c_sz c * vcap v) 0) as [Z1|_]; [lia|].
    cbn [ledger_step]. rewrite !N.eqb_refl. cbn [andb].
    subst n. rewrite N.mul_0_r. reflexivity. }
  unfold checked_mul.
  destruct (N.leb_spec (c_sz c * n) usize_max) as [Hu|Hu]; mred; [|split; reflexivity].
  destruct (N.ltb_spec (isize_max - (c_al c - 1)) (c_sz c * n)) as [Hbad|Hlay]; mred;
    [split; reflexivity|].
  destruct (N.ltb_spec alloc_limit (c_sz c * n)) as [Hbad|Hlim]; mred; [exact I|].
  assert (Hpos : 0 < c_sz c * n) by lia.
  destruct (N.eqb_spec (vcap v) 0) as [C0|CN0]; mred.
  - exists [EAlloc (c_sz c * n) (c_al c)]. unfold appended.
    cbn [rev app ledger_run with_store vcap vbk emit ulog].
    splits; auto; try (constructor; [exact Hlay|constructor]).
    unfold owned_block. cbn [with_store vcap]. rewrite C0, N.mul_0_r.
    change (0 =? 0) with true. cbv iota.
    cbn [ledger_step]. rewrite (proj2 (N.ltb_lt _ _) Hpos).
    destruct (N.eqb_spec (c_sz c * n) 0) as [Z1|_]; [lia|]. reflexivity.
  - exists [ERealloc (c_sz c * vcap v) (c_al c) (c_sz c * n)]. unfold appended.
    cbn [rev app ledger_run with_store vcap vbk emit ulog].
    splits; auto; try (constructor; [exact Hlay|constructor]).
    unfold owned_block. cbn [with_store vcap].
    destruct (N.eqb_spec (c_sz c * vcap v) 0) as [Z1|_]; [lia|].
    cbn [ledger_step]. rewrite !N.eqb_refl, (proj2 (N.ltb_lt _ _) Hpos). cbn [andb].
    destruct (N.eqb_spec (c_sz c * n) 0) as [Z1|_]; [lia|]. reflexivity.
Qed.

(** dropping the vector's storage, or shrinking to zero, returns all of its memory *)
Theorem heap_release c v u :
  vbk v = BHeap ->
  exists v' u' es,
    mem_drop c (v, u) = Ok tt (v', u') /\ appended u u' es /\
    ledger_run (owned_block c v) es = Some None /\ owned_block c v' = None.
Proof.
  intros Hbk. unfold mem_drop. mstep. rewrite Hbk.
  unfold heap_resize. mstep.
  destruct (N.eqb_spec (vcap v) 0) as [E|NE].
  { exists v, u, []. unfold appended. cbn [rev app ledger_run].
    assert (Ho : owned_block c v = None).
    { unfold owned_block. rewrite E, N.mul_0_r. reflexivity. }
    rewrite Ho. splits; auto. }
  destruct (N.eqb_spec (c_sz c) 0) as [Z|NZ].
  { eexists _, _, []. split; [reflexivity|]. unfold appended.
    cbn [rev app ledger_run].
    unfold owned_block. cbn [with_store vcap]. rewrite Z, !N.mul_0_l.
    change (0 =? 0) with true. cbv iota. splits; auto. }
  cbv zeta. change (0 =? 0) with true. cbv iota.
  eexists _, _, [EDealloc (c_sz c * vcap v) (c_al c)]. split; [reflexivity|].
  unfold appended. cbn [rev app ledger_run emit ulog].
  unfold owned_block. cbn [with_store vcap].
  destruct (N.eqb_spec (c_sz c * vcap v) 0) as [Z1|_]; [lia|].
  cbn [ledger_step]. rewrite !N.eqb_refl. cbn [andb]. rewrite N.mul_0_r.
  splits; auto.
Qed.

(** no operation of a fixed-capacity backend touches the allocator: building emits
    nothing and growing panics before any event (C11) *)
Theorem fixed_backend_no_events c bk v0 u :
  fixed_backend bk ->
  match mem_build c bk (v0, u) with
  | Ok _ (_, u') => u' = u
  | Panic _ (_, u') => u' = u
  | Fault _ => True
  end.
Proof.
  intros Hf. destruct bk as [|size|n size| |]; cbn [fixed_backend] in Hf; try contradiction;
    unfold mem_build.
  - unfold setv. cbn [fst snd]. reflexivity.
  - destruct (stackn_fits n (c_sz c) size); unfold setv, raise; cbn [fst snd]; reflexivity.
  - unfold setv. cbn [fst snd]. reflexivity.
Qed.

(** capacity of the stack backends (C11) *)
Theorem stack_capacity c size v0 u :
  exists v', mem_build c (BStack size) (v0, u) = Ok tt (v', u) /\
    vcap v' = (if c_sz c =? 0 then usize_max else size / c_sz c) /\ vlen v' = 0.
Proof.
  unfold mem_build, setv. cbn [fst snd].
  eexists. split; [reflexivity|]. cbn [vcap vlen]. split; reflexivity.
Qed.
Theorem stackn_capacity c n size v0 u :
  (n * c_sz c <= size -> n * c_sz c <= usize_max ->
     exists v', mem_build c (BStackN n size) (v0, u) = Ok tt (v', u) /\ vcap v' = n /\ vlen v' = 0) /\
  (size < n * c_sz c -> mem_build c (BStackN n size) (v0, u) = Panic PStackN (v0, u)).
Proof.
  unfold mem_build, stackn_fits, checked_mul. split.
  - intros H1 H2. rewrite (proj2 (N.leb_le _ _) H2), (proj2 (N.leb_le _ _) H1).
    unfold setv. cbn [fst snd]. eexists. split; [reflexivity|]. cbn [vcap vlen]. split; reflexivity.
  - intros H. destruct (N.leb_spec (n * c_sz c) usize_max) as [Hu|Hu]; [|reflexivity].
    destruct (N.leb_spec (n * c_sz c) size); [lia|]. reflexivity.
Qed.
