(** * Ownership accounting (C03): every identity is in exactly one place and is
      destroyed at most once.  List-level facts about the specification operations plus
      the generic invariant they preserve. *)
From Coq Require Import List NArith Arith Lia Permutation.
Import ListNotations.
From AV.Spec Require Import VecSpec.

(** ** Auxiliary list facts *)
Lemma skipn_nth_cons {A} (d : A) (xs : list A) i :
  (i < length xs)%nat -> skipn i xs = nth i xs d :: skipn (S i) xs.
Proof.
  revert i. induction xs as [|x xs IH]; intros i Hi; cbn [length] in Hi.
  - lia.
  - destruct i as [|i].
    + reflexivity.
    + change (skipn (S i) (x :: xs)) with (skipn i xs).
      change (nth (S i) (x :: xs) d) with (nth i xs d).
      change (skipn (S (S i)) (x :: xs)) with (skipn (S i) xs).
      apply IH. lia.
Qed.

Lemma split_at_nth {A} (d : A) (xs : list A) i :
  (i < length xs)%nat -> xs = firstn i xs ++ nth i xs d :: skipn (S i) xs.
Proof.
  intros Hi. rewrite <- (skipn_nth_cons d xs i Hi). symmetry. apply firstn_skipn.
Qed.

Lemma NoDup_app_iff {A} (a b : list A) :
  NoDup (a ++ b) <-> NoDup a /\ NoDup b /\ (forall x, In x a -> ~ In x b).
Proof.
  induction a as [|x a IH]; cbn [app].
  - split.
    + intros H. split; [constructor|]. split; [exact H|]. intros x [].
    + intros [_ [H _]]. exact H.
  - split.
    + intros H. inversion H as [|y l Hnin Hnd]; subst.
      apply IH in Hnd. destruct Hnd as [Ha [Hb Hab]].
      split.
      * constructor; [|exact Ha]. intro Hin. apply Hnin. apply in_or_app. left. exact Hin.
      * split; [exact Hb|]. intros y [Hy|Hy].
        -- subst y. intro Hin. apply Hnin. apply in_or_app. right. exact Hin.
        -- apply Hab. exact Hy.
    + intros [Ha [Hb Hab]]. inversion Ha as [|y l Hnin Hnd]; subst.
      constructor.
      * intro Hin. apply in_app_or in Hin. destruct Hin as [Hin|Hin].
        -- apply Hnin. exact Hin.
        -- apply (Hab x); [left; reflexivity|exact Hin].
      * apply IH. split; [exact Hnd|]. split; [exact Hb|].
        intros y Hy. apply Hab. right. exact Hy.
Qed.

(** ** Each specification operation only moves identities *)
Lemma sp_push_perm (t : N) xs : Permutation (t :: xs) (sp_push t xs).
Proof.
  unfold sp_push. change (t :: xs) with ([t] ++ xs). apply Permutation_app_comm.
Qed.
Lemma sp_insert_perm (t : N) xs i : Permutation (t :: xs) (sp_insert i t xs).
Proof.
  unfold sp_insert. apply Permutation_cons_app. rewrite firstn_skipn. apply Permutation_refl.
Qed.
Lemma sp_remove_perm (xs : list N) i : (i < length xs)%nat -> Permutation xs (nth i xs 0%N :: sp_remove i xs).
Proof.
  intros Hi. unfold sp_remove.
  rewrite (split_at_nth 0%N xs i Hi) at 1.
  apply Permutation_sym. apply Permutation_middle.
Qed.

Lemma sp_swap_remove_snoc (r : list N) a i :
  sp_swap_remove i (r ++ [a]) =
  if Nat.eqb (S i) (length (r ++ [a])) then r
  else firstn i (r ++ [a]) ++ a :: skipn (S i) r.
Proof.
  unfold sp_swap_remove. rewrite rev_unit. rewrite removelast_last. reflexivity.
Qed.

Lemma sp_swap_remove_perm (xs : list N) i : (i < length xs)%nat -> Permutation xs (nth i xs 0%N :: sp_swap_remove i xs).
Proof.
  intros Hi.
  assert (Hne : xs <> []) by (intro E; subst xs; cbn in Hi; lia).
  pose proof (app_removelast_last 0%N Hne) as E.
  remember (removelast xs) as r eqn:Er. remember (last xs 0%N) as a eqn:Ea.
  clear Er Ea Hne. subst xs.
  rewrite sp_swap_remove_snoc.
  rewrite app_length in *. cbn [length] in *.
  destruct (Nat.eqb_spec (S i) (length r + 1)) as [Heq|Hneq].
  - assert (i = length r) by lia. subst i.
    rewrite app_nth2 by lia. rewrite Nat.sub_diag. cbn [nth].
    change (a :: r) with ([a] ++ r). apply Permutation_app_comm.
  - assert (Hi' : (i < length r)%nat) by lia.
    rewrite app_nth1 by exact Hi'.
    rewrite firstn_app.
    replace (i - length r)%nat with 0%nat by lia.
    cbn [firstn]. rewrite app_nil_r.
    eapply Permutation_trans.
    { apply Permutation_app_comm. }
    cbn [app].
    eapply Permutation_trans.
    { apply perm_skip. apply (sp_remove_perm r i Hi'). }
    unfold sp_remove.
    eapply Permutation_trans.
    { apply perm_swap. }
    apply perm_skip. apply Permutation_middle.
Qed.
Lemma removelast_perm (xs : list N) : xs <> [] -> Permutation xs (last xs 0%N :: removelast xs).
Proof.
  intros Hne. rewrite (app_removelast_last 0%N Hne) at 1.
  change (last xs 0%N :: removelast xs) with ([last xs 0%N] ++ removelast xs).
  apply Permutation_app_comm.
Qed.

Lemma skipn_skipn_add {A} (xs : list A) s n : skipn n (skipn s xs) = skipn (s + n) xs.
Proof.
  revert xs. induction s as [|s IH]; intros xs.
  - reflexivity.
  - destruct xs as [|x xs].
    + cbn [skipn]. destruct n; reflexivity.
    + cbn [skipn plus]. apply IH.
Qed.

Lemma skipn_split_range {A} (xs : list A) s e :
  (s <= e)%nat -> skipn s xs = firstn (e - s) (skipn s xs) ++ skipn e xs.
Proof.
  intros Hse.
  rewrite <- (firstn_skipn (e - s) (skipn s xs)) at 1.
  rewrite skipn_skipn_add. replace (s + (e - s))%nat with e by lia. reflexivity.
Qed.

Lemma sp_drain_perm (xs : list N) s e :
  (s <= e)%nat -> (e <= length xs)%nat -> Permutation xs (sp_drained s e xs ++ sp_drain s e xs).
Proof.
  intros Hse _. unfold sp_drained, sp_drain.
  rewrite <- (firstn_skipn s xs) at 1.
  rewrite (skipn_split_range xs s e Hse) at 1.
  rewrite !app_assoc. apply Permutation_app_tail. apply Permutation_app_comm.
Qed.
Lemma sp_splice_perm (xs ts : list N) s e :
  (s <= e)%nat -> (e <= length xs)%nat ->
  Permutation (ts ++ xs) (sp_drained s e xs ++ sp_splice s e ts xs).
Proof.
  intros Hse Hel. unfold sp_splice.
  eapply Permutation_trans.
  { apply Permutation_app_head. apply (sp_drain_perm xs s e Hse Hel). }
  unfold sp_drain.
  set (d := sp_drained s e xs). set (a := firstn s xs). set (b := skipn e xs).
  (* ts ++ d ++ a ++ b  ~  d ++ a ++ ts ++ b *)
  rewrite (app_assoc ts d). 
  eapply Permutation_trans.
  { apply Permutation_app_tail. apply Permutation_app_comm. }
  rewrite <- app_assoc. apply Permutation_app_head.
  rewrite (app_assoc ts a), (app_assoc a ts). apply Permutation_app_tail.
  apply Permutation_app_comm.
Qed.
(** the drained items are the range, in order *)
Lemma nth_skipn {A} (d : A) (xs : list A) s k : nth k (skipn s xs) d = nth (s + k) xs d.
Proof.
  revert xs. induction s as [|s IH]; intros xs.
  - reflexivity.
  - destruct xs as [|x xs].
    + cbn [skipn]. destruct k; reflexivity.
    + cbn [skipn plus nth]. apply IH.
Qed.
Lemma nth_firstn_lt {A} (d : A) (xs : list A) n k : (k < n)%nat -> nth k (firstn n xs) d = nth k xs d.
Proof.
  revert xs k. induction n as [|n IH]; intros xs k Hk.
  - lia.
  - destruct xs as [|x xs].
    + reflexivity.
    + cbn [firstn]. destruct k as [|k].
      * reflexivity.
      * cbn [nth]. apply IH. lia.
Qed.
Lemma sp_drained_nth (xs : list N) s e k :
  (s <= e)%nat -> (e <= length xs)%nat -> (k < e - s)%nat -> nth k (sp_drained s e xs) 0%N = nth (s + k) xs 0%N.
Proof.
  intros _ _ Hk. unfold sp_drained.
  rewrite nth_firstn_lt by exact Hk. apply nth_skipn.
Qed.

(** ** The ownership state: vectors, values held outside vectors (handles, extracted
    values), and the identities already destroyed *)
Record own := { o_vecs : list (list N); o_held : list N; o_dropped : list N }.
Definition own_all (o : own) : list N := concat (o_vecs o) ++ o_held o ++ o_dropped o.
(** exactly one owner, destroyed at most once, never visible after destruction *)
Definition own_inv (o : own) : Prop := NoDup (own_all o).

(** a step that creates the fresh identities [new] and otherwise only moves identities
    between places (including into [o_dropped]) preserves the invariant *)
Theorem own_step_inv o o' new :
  own_inv o -> NoDup new -> (forall t, In t new -> ~ In t (own_all o)) ->
  Permutation (new ++ own_all o) (own_all o') ->
  own_inv o'.
Proof.
  unfold own_inv. intros Hinv Hnew Hfresh Hperm.
  eapply Permutation_NoDup; [exact Hperm|].
  apply NoDup_app_iff. split; [exact Hnew|]. split; [exact Hinv|exact Hfresh].
Qed.

(** consequences of the invariant *)
Theorem own_no_double_drop o : own_inv o -> NoDup (o_dropped o).
Proof.
  unfold own_inv, own_all. intros H.
  apply NoDup_app_iff in H. destruct H as [_ [H _]].
  apply NoDup_app_iff in H. destruct H as [_ [H _]]. exact H.
Qed.

Lemma in_concat_intro {A} (ls : list (list A)) v (t : A) : In v ls -> In t v -> In t (concat ls).
Proof.
  intros Hv Ht. apply in_concat. exists v. split; assumption.
Qed.

Theorem own_visible_alive o v t :
  own_inv o -> In v (o_vecs o) -> In t v -> ~ In t (o_dropped o) /\ ~ In t (o_held o).
Proof.
  unfold own_inv, own_all. intros H Hv Ht.
  apply NoDup_app_iff in H. destruct H as [_ [_ H]].
  pose proof (H t (in_concat_intro _ _ _ Hv Ht)) as Hn.
  split; intro Hin; apply Hn; apply in_or_app; [right|left]; exact Hin.
Qed.

Lemma concat_one_place {A} (ls : list (list A)) :
  NoDup (concat ls) ->
  forall i j v1 v2 (t : A), nth_error ls i = Some v1 -> nth_error ls j = Some v2 ->
  In t v1 -> In t v2 -> i = j.
Proof.
  induction ls as [|l ls IH]; intros Hnd i j v1 v2 t Hi Hj H1 H2.
  - destruct i; discriminate Hi.
  - cbn [concat] in Hnd. apply NoDup_app_iff in Hnd. destruct Hnd as [_ [Hls Hdisj]].
    destruct i as [|i], j as [|j]; cbn [nth_error] in Hi, Hj.
    + reflexivity.
    + exfalso. inversion Hi; subst v1. apply (Hdisj t H1).
      apply nth_error_In in Hj. eapply in_concat_intro; eassumption.
    + exfalso. inversion Hj; subst v2. apply (Hdisj t H2).
      apply nth_error_In in Hi. eapply in_concat_intro; eassumption.
    + f_equal. eapply IH; eassumption.
Qed.

Theorem own_one_place o v1 v2 i j t :
  own_inv o -> nth_error (o_vecs o) i = Some v1 -> nth_error (o_vecs o) j = Some v2 ->
  In t v1 -> In t v2 -> i = j.
Proof.
  unfold own_inv, own_all. intros H Hi Hj H1 H2.
  apply NoDup_app_iff in H. destruct H as [H _].
  eapply concat_one_place; eassumption.
Qed.

Lemma concat_vec_nodup {A} (ls : list (list A)) v : NoDup (concat ls) -> In v ls -> NoDup v.
Proof.
  induction ls as [|l ls IH]; intros Hnd Hv.
  - destruct Hv.
  - cbn [concat] in Hnd. apply NoDup_app_iff in Hnd. destruct Hnd as [Hl [Hls _]].
    destruct Hv as [Hv|Hv].
    + subst l. exact Hl.
    + apply IH; assumption.
Qed.

Theorem own_vec_nodup o v : own_inv o -> In v (o_vecs o) -> NoDup v.
Proof.
  unfold own_inv, own_all. intros H Hv.
  apply NoDup_app_iff in H. destruct H as [H _].
  eapply concat_vec_nodup; eassumption.
Qed.
(** when all vectors and extracted values are gone, everything ever created is destroyed *)
Theorem own_all_gone o : o_vecs o = [] -> o_held o = [] -> own_all o = o_dropped o.
Proof.
  unfold own_all. intros Hv Hh. rewrite Hv, Hh. reflexivity.
Qed.
