(** * C10 inside histories: the promises of the capacity calls, at every step of every history of the fragment.

    [CapProofs] proves the promises of reserve / reserve_exact / shrink_to_fit / shrink_to for one call on a
    represented state; [WorldProofs.history_refines] shows that every state of every history of the fragment
    is represented.  Here the two are composed through the glue of [Interp.exec] / [run_step]: whatever came
    before - pushes, removals, drains, splices, clones, on any number of vectors -, a capacity call that returns
    has kept its promise, and a request whose length is not representable has panicked ([cap_promise]);
    [history_cap_promises] is the statement for every step of every history. *)
From AV.Model Require Import Base Bytes Vec Ops Interp.
From AV.Spec Require Import VecSpec WorldSpec.
From AV.Proofs Require Import MemLemmas Rep VecProofs RangeProofs CapProofs WorldCore WorldProofs.
From AV.Proofs Require TypeProofs CloneProofs.

(** what the step [o], run from world [w] with result [sr], owes its caller *)
Definition cap_promise (c : cfg) (o : op) (w : world) (sr : step_result) : Prop :=
  match o with
  | OReserve v n | OReserveExact v n =>
      forall vv, get_vec v w = Some vv ->
        (* not representable: panics rather than returning *)
        (usize_max < vlen vv + n -> sr_out sr = 2) /\
        (* returns: room for n more, and nothing changes when there already was *)
        (sr_out sr = 0 ->
         exists vv', get_vec v (sr_world sr) = Some vv' /\ vlen vv' = vlen vv /\
                     vlen vv + n <= vcap vv' /\ (vlen vv + n <= vcap vv -> vv' = vv))
  | OShrinkToFit v =>
      forall vv, get_vec v w = Some vv -> sr_out sr = 0 ->
        exists vv', get_vec v (sr_world sr) = Some vv' /\ vlen vv' = vlen vv /\ vcap vv' = vlen vv
  | OShrinkTo v m =>
      forall vv, get_vec v w = Some vv -> sr_out sr = 0 ->
        exists vv', get_vec v (sr_world sr) = Some vv' /\ vlen vv' = vlen vv /\
                    vcap vv' = N.min (vcap vv) (N.max (vlen vv) m)
  | OWithCapacity dst bk n =>
      sr_out sr = 0 -> exists vv', get_vec dst (sr_world sr) = Some vv' /\ vlen vv' = 0 /\ vcap vv' = n
  | _ => True
  end.

Definition start_of (w : world) : world :=
  {| wv := wv w; wuw := {| ulog := []; unext := unext (wuw w); ufuse := None |} |}.
Lemma get_vec_start v w : get_vec v (start_of w) = get_vec v w.
Proof. reflexivity. Qed.

(** a computation on one vector, as a script step *)
Lemma run_on_vec c o w v vv (m : M st unit) :
  exec c o (start_of w) = (on_vec v m;; ret (0, [])) (start_of w) ->
  get_vec v w = Some vv ->
  match m (vv, wuw (start_of w)) with
  | Ok _ (vv', u') => sr_out (run_step c None o w) = 0 /\ get_vec v (sr_world (run_step c None o w)) = Some vv'
  | Panic _ _ => sr_out (run_step c None o w) = 2
  | Fault _ => True
  end.
Proof.
  intros He Hg. unfold run_step. fold (start_of w). rewrite He. unfold bind, on_vec. rewrite get_vec_start, Hg.
  destruct (m (vv, wuw (start_of w))) as [a [vv' u']|p [vv' u']|f]; cbn [sr_out sr_world]; auto.
  split; [reflexivity|]. unfold ret. cbn [sr_world]. apply get_vec_put_same.
Qed.

Lemma reserve_promise c w st v n (exact : bool) :
  cfg_wf c -> WRep c w st -> adm_reserve c w v n ->
  (exists r, sp_capacity c st (unext (wuw w)) v (Some n) exact = Some r) ->
  let o := if exact then OReserveExact v n else OReserve v n in
  cap_promise c o w (run_step c None o w).
Proof.
  intros Hwf HW Hadm [r Hr] o.
  assert (Hgoal : forall vv, get_vec v w = Some vv ->
    (usize_max < vlen vv + n -> sr_out (run_step c None o w) = 2) /\
    (sr_out (run_step c None o w) = 0 ->
     exists vv', get_vec v (sr_world (run_step c None o w)) = Some vv' /\ vlen vv' = vlen vv /\
                 vlen vv + n <= vcap vv' /\ (vlen vv + n <= vcap vv -> vv' = vv))).
  2:{ unfold o. destruct exact; exact Hgoal. }
  intros vv Hg.
  unfold sp_capacity in Hr. destruct (get_a v st) as [av|] eqn:Hga; [|discriminate].
  destruct (wrep_get c w st v av HW Hga) as (vv0 & Hg0 & HV). rewrite Hg in Hg0. injection Hg0 as <-.
  pose proof (vi_rep _ _ _ HV) as HR. specialize (Hadm vv Hg).
  set (m := if exact then reserve_exact c n else reserve c n).
  assert (He : exec c o (start_of w) = (on_vec v m;; ret (0, [])) (start_of w)) by (unfold o, m; destruct exact; reflexivity).
  pose proof (run_on_vec c o w v vv m He Hg) as Hrun.
  destruct (N.ltb_spec usize_max (vlen vv + n)) as [Hov|Hnov].
  - (* not representable *)
    destruct (reserve_overflow c vv (wuw (start_of w)) n Hov) as [E1 E2].
    assert (Em : m (vv, wuw (start_of w)) = Panic POverflow (vv, wuw (start_of w))) by (unfold m; destruct exact; assumption).
    rewrite Em in Hrun. split; [intros _; exact Hrun|]. intros H0. rewrite Hrun in H0. discriminate.
  - split; [intros H; lia|]. intros H0.
    destruct (N.le_gt_cases (vlen vv + n) (vcap vv)) as [Hroom|Hno].
    + destruct (reserve_noop c vv (wuw (start_of w)) (a_xs av) n HR Hroom) as [E1 E2].
      assert (Em : m (vv, wuw (start_of w)) = Ok tt (vv, wuw (start_of w))) by (unfold m; destruct exact; assumption).
      rewrite Em in Hrun. destruct Hrun as [_ Hgv]. exists vv. repeat split; auto.
    + destruct Hadm as [Hr1|[Hf|[Ho|[[Hg1 Hg2]|(Hrs & Hcl & Hbig)]]]]; try lia.
      3:{ (* more bytes than any allocation can have: refused before the allocator is asked *)
          exfalso.
          destruct (reserve_layout_panic c vv (wuw (start_of w)) (a_xs av) n Hwf HR Hrs Hcl Hnov Hbig) as (u1 & u2 & E1 & E2 & _).
          unfold m in Hrun. destruct exact; [rewrite E2 in Hrun|rewrite E1 in Hrun]; rewrite Hrun in H0; discriminate. }
      * (* a fixed capacity: refused *)
        exfalso. destruct exact.
        -- rewrite <- (rep_len _ _ _ HR) in Hr.
           destruct (usize_max <? vlen vv + n) eqn:E; [apply N.ltb_lt in E; lia|].
           destruct (acap c (a_bk av)) as [cap|] eqn:Ea.
           ++ pose proof (vi_cap _ _ _ HV) as Hc. rewrite Ea in Hc. rewrite <- Hc in Hr.
              destruct (N.leb_spec (vlen vv + n) (vcap vv)); [lia|discriminate].
           ++ rewrite (vi_bk _ _ _ HV) in Hf. exact (acap_none_not_fixed _ _ Ea Hf).
        -- assert (Em : m (vv, wuw (start_of w)) = Panic PCapacity (vv, wuw (start_of w))).
           { unfold m. apply reserve_fixed; auto. }
           rewrite Em in Hrun. rewrite Hrun in H0. discriminate.
      * (* grows *)
        assert (Hres' : resizable_backend (vbk vv)).
        { unfold grow_ok in Hg1. destruct (vbk vv) eqn:Eb; try contradiction; [left; reflexivity|right; eexists; reflexivity]. }
        destruct exact.
        -- destruct (reserve_exact_grows c vv (wuw (start_of w)) (a_xs av) n Hwf HR Hres' Hno Hnov Hg2) as (v' & u' & E & H1 & H2 & H3 & H4).
           unfold m in Hrun. rewrite E in Hrun. destruct Hrun as [_ Hgv]. exists v'.
           split; [exact Hgv|]. split; [rewrite (rep_len _ _ _ H1), (rep_len _ _ _ HR); reflexivity|]. split; [lia|]. intros; lia.
        -- destruct (reserve_grows c vv (wuw (start_of w)) (a_xs av) n Hwf HR Hno Hg1) as (v' & u' & E & H1 & H2 & H3 & H4 & H5).
           unfold m in Hrun. rewrite E in Hrun. destruct Hrun as [_ Hgv]. exists v'.
           split; [exact Hgv|]. split; [rewrite (rep_len _ _ _ H1), (rep_len _ _ _ HR); reflexivity|]. split; [exact H2|]. intros; lia.
Qed.

Lemma shrink_promise c w st v (want : option N) :
  cfg_wf c -> WRep c w st -> adm_shrink c w v ->
  (exists r, sp_capacity c st (unext (wuw w)) v None false = Some r) ->
  let o := match want with Some m => OShrinkTo v m | None => OShrinkToFit v end in
  cap_promise c o w (run_step c None o w).
Proof.
  intros Hwf HW Hadm [r Hr] o.
  unfold sp_capacity in Hr. destruct (get_a v st) as [av|] eqn:Hga; [|discriminate].
  destruct (resizable (a_bk av)) eqn:Hrz; [|discriminate].
  destruct (wrep_get c w st v av HW Hga) as (vv & Hg & HV).
  pose proof (vi_rep _ _ _ HV) as HR.
  destruct (resizable_spec _ Hrz) as [Hres' _]. rewrite <- (vi_bk _ _ _ HV) in Hres'.
  specialize (Hadm vv Hg).
  destruct want as [m|]; cbn [cap_promise o]; intros vv0 Hg0 H0; rewrite Hg in Hg0; injection Hg0 as <-.
  - assert (He : exec c (OShrinkTo v m) (start_of w) = (on_vec v (shrink_to c m);; ret (0, [])) (start_of w)) by reflexivity.
    pose proof (run_on_vec c _ w v vv _ He Hg) as Hrun.
    destruct (shrink_to_spec c vv (wuw (start_of w)) (a_xs av) m Hwf HR Hres' Hadm) as (v' & u' & E & H1 & H2 & H3 & H4 & _).
    rewrite E in Hrun. destruct Hrun as [_ Hgv]. exists v'. split; [exact Hgv|].
    split; [rewrite (rep_len _ _ _ H1), (rep_len _ _ _ HR); reflexivity|exact H2].
  - assert (He : exec c (OShrinkToFit v) (start_of w) = (on_vec v (shrink_to_fit c);; ret (0, [])) (start_of w)) by reflexivity.
    pose proof (run_on_vec c _ w v vv _ He Hg) as Hrun.
    destruct (shrink_to_fit_spec c vv (wuw (start_of w)) (a_xs av) Hwf HR Hres' Hadm) as (v' & u' & E & H1 & H2 & H3 & H4).
    rewrite E in Hrun. destruct Hrun as [_ Hgv]. exists v'. split; [exact Hgv|].
    split; [rewrite (rep_len _ _ _ H1), (rep_len _ _ _ HR); reflexivity|exact H2].
Qed.

Lemma withcap_promise c w dst bk n :
  cfg_wf c -> adm_withcap c bk n -> resizable bk = true ->
  cap_promise c (OWithCapacity dst bk n) w (run_step c None (OWithCapacity dst bk n) w).
Proof.
  intros Hwf (Hbw & Hmax & Hlim0) Hrz. cbn [cap_promise]. intros H0.
  set (v0 := {| vlen := 0; vcap := 0; vmem := []; vgen := 0; vbk := bk |}).
  set (u0 := wuw (start_of w)).
  destruct Hlim0 as [Hlim|[Hbig Hc0]].
  2:{ (* refused before anything is allocated: the step panics, so it did not return *)
      exfalso.
      pose proof (new_vi c bk v0 u0 Hbw) as Hn.
      assert (Hb : exists v1 u1, mem_build c bk (v0, u0) = Ok tt (v1, u1) /\ vbk v1 = bk /\ c_sz c * vcap v1 <= alloc_limit /\
                                 same_user u0 u1).
      { destruct bk as [|size|k size| |c0]; try discriminate; destruct Hn as (v1 & u1 & E & HV & Hsu);
          exists v1, u1; (split; [exact E|]); (split; [exact (vi_bk _ _ _ HV)|]); (split; [|exact Hsu]);
          unfold mem_build, bind, emitv, setv in E; cbn in E; injection E as <- _; cbn [vcap]; lia. }
      destruct Hb as (v1 & u1 & E1 & Hbk1 & Hcap1 & Hsu1).
      assert (Hres : resizable_backend (vbk v1)).
      { rewrite Hbk1. destruct bk; try discriminate; [left; reflexivity|right; eexists; reflexivity]. }
      rewrite <- Hbk1 in Hbig.
      destruct (mem_resize_layout_panic c v1 u1 n Hwf Hres Hcap1 Hbig) as (u2 & E2 & Hsu2).
      destruct (CloneProofs.mem_drop_ok c v1 u2) as (v3 & u3 & E3 & _ & Hn3 & Hf3 & He3).
      destruct Hsu1 as (_ & Hf1 & _). destruct Hsu2 as (_ & Hf2 & _).
      assert (Hfu2 : ufuse u2 = None) by (rewrite Hf2, Hf1; reflexivity).
      assert (Eq : quiet_st (mem_drop c) (v1, u2) = Ok tt (v3, u3)).
      { apply TypeProofs.quiet_st_none; [exact Hfu2|exact E3|congruence]. }
      revert H0. unfold run_step. fold (start_of w). cbn [exec]. fold v0. fold u0. unfold bind at 1. rewrite E1.
      unfold unwinding_st, on_unwind. rewrite E2, Eq. cbn [sr_out]. intros H0. discriminate. }
  assert (Hb : exists v1 u1, mem_build c bk (v0, u0) = Ok tt (v1, u1) /\ VI c v1 {| a_bk := bk; a_xs := [] |} /\
                             vcap v1 = match bk with BReloc c0 => c0 | _ => 0 end).
  { pose proof (new_vi c bk v0 u0 Hbw) as Hn.
    destruct bk as [|size|k size| |c0]; try discriminate; destruct Hn as (v1 & u1 & E & HV & Hsu);
      exists v1, u1; (split; [exact E|]); (split; [exact HV|]);
      unfold mem_build, bind, emitv, setv in E; cbn in E; injection E as <- _; reflexivity. }
  destruct Hb as (v1 & u1 & E1 & HV1 & Hc1).
  pose proof (vi_rep _ _ _ HV1) as HR1. cbn [a_xs] in HR1.
  assert (Hres : resizable_backend (vbk v1)).
  { rewrite (vi_bk _ _ _ HV1). cbn [a_bk]. destruct bk; try discriminate; [left; reflexivity|right; eexists; reflexivity]. }
  assert (Hrs : exists v2 u2, mem_resize c n (v1, u1) = Ok tt (v2, u2) /\ Rep c v2 [] /\ vcap v2 = n).
  { destruct (N.le_gt_cases (vcap v1) n) as [Hle|Hgt].
    - destruct (mem_resize_grow c v1 u1 [] n Hwf HR1 Hres Hle Hmax) as (v2 & u2 & E & H1 & H2 & H3 & H4).
      { destruct bk; try discriminate; lia. }
      exists v2, u2. auto.
    - destruct (mem_resize_shrink c v1 u1 [] n Hwf HR1 Hres) as (v2 & u2 & E & H1 & H2 & H3 & H4).
      { rewrite (rep_len _ _ _ HR1). cbn [length]. lia. }
      { lia. }
      { rewrite Hc1 in *. destruct bk; try discriminate; lia. }
      exists v2, u2. auto. }
  destruct Hrs as (v2 & u2 & E2 & HR2 & Hc2).
  unfold run_step. fold (start_of w). cbn [exec]. fold v0. fold u0. unfold bind at 1. rewrite E1.
  rewrite (unwinding_ok _ _ _ _ _ E2). cbn [sr_world]. exists v2.
  split; [apply get_vec_put_same|]. split; [rewrite (rep_len _ _ _ HR2); reflexivity|exact Hc2].
Qed.

(** one step of the fragment keeps the promise of its operation *)
Theorem step_cap_promise c w st o r :
  cfg_wf c -> WRep c w st -> spec_step c st (unext (wuw w)) o = Some r -> admissible c w o ->
  cap_promise c o w (run_step c None o w).
Proof.
  intros Hwf HW Hr Hadm.
  destruct o; try exact I; cbn [spec_step] in Hr; cbn [admissible] in Hadm.
  - (* OWithCapacity *) destruct (resizable bk) eqn:Hrz; [|discriminate]. apply withcap_promise; assumption.
  - (* OReserve *) exact (reserve_promise c w st v n false Hwf HW Hadm (ex_intro _ r Hr)).
  - (* OReserveExact *) exact (reserve_promise c w st v n true Hwf HW Hadm (ex_intro _ r Hr)).
  - (* OShrinkToFit *) exact (shrink_promise c w st v None Hwf HW Hadm (ex_intro _ r Hr)).
  - (* OShrinkTo *) exact (shrink_promise c w st v (Some n) Hwf HW Hadm (ex_intro _ r Hr)).
Qed.

(** ... hence every step of every history of the fragment: the worlds a history passes through *)
Fixpoint worlds_before (c : cfg) (ops : list op) (w : world) : list world :=
  match ops with
  | [] => []
  | o :: r => w :: worlds_before c r (sr_world (run_step c None o w))
  end.
Fixpoint Forall3 {A B C} (P : A -> B -> C -> Prop) (la : list A) (lb : list B) (lc : list C) : Prop :=
  match la, lb, lc with
  | [], [], [] => True
  | a :: la', b :: lb', c0 :: lc' => P a b c0 /\ Forall3 P la' lb' lc'
  | _, _, _ => False
  end.

Theorem history_cap_promises c : forall ops w st rs,
  cfg_wf c -> WRep c w st -> spec_run c st (unext (wuw w)) ops = Some rs -> Admissible c w ops ->
  Forall3 (fun o w0 sr => cap_promise c o w0 sr) ops (worlds_before c ops w) (run_hist c ops w).
Proof.
  induction ops as [|o ops IH]; intros w st rs Hwf HW Hs Ha; cbn [spec_run worlds_before run_hist Forall3] in *; [exact I|].
  destruct (spec_step c st (unext (wuw w)) o) as [r|] eqn:Er; [|discriminate].
  destruct (spec_run c (s_st r) (s_nx r) ops) as [rs'|] eqn:Ers; [|discriminate].
  cbn [Admissible] in Ha. destruct Ha as [Ha1 Ha2].
  split; [exact (step_cap_promise c w st o r Hwf HW Er Ha1)|].
  pose proof (step_refines c w st o r Hwf HW Er Ha1) as Hm.
  apply (IH _ (s_st r) rs' Hwf (om_rep _ _ _ Hm)); [|exact Ha2].
  rewrite (om_nx _ _ _ Hm). exact Ers.
Qed.

(** non-vacuity: the example history of [WorldProofs] (106+ steps with reserve beyond a fixed capacity, reserve,
    reserve_exact, shrink_to, shrink_to_fit, a reserve of usize::MAX, with_capacity on two backends) *)
Example ex_cap_promises :
  Forall3 (fun o w0 sr => cap_promise ex_cfg o w0 sr) ex_ops (worlds_before ex_cfg ex_ops init_world) (run_hist ex_cfg ex_ops init_world).
Proof.
  destruct ex_spec_defined as (rs & Hs & _).
  exact (history_cap_promises ex_cfg ex_ops init_world [] rs ex_cfg_wf (wrep_init ex_cfg) Hs ex_admissible).
Qed.
