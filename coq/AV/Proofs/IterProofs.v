(** Proofs about the iterator cursor ([iter::Iter], used by iter / iter_mut / drain /
    splice in the model): refinement to a double-ended list. *)
From AV.Model Require Import Base Ops.
Arguments N.add : simpl never.
Arguments N.sub : simpl never.

(** The positions a cursor still has to yield. *)
Fixpoint seqN (s : N) (n : nat) : list N :=
  match n with O => [] | S n' => s :: seqN (s + 1) n' end.
Definition cur_abs (k : cursor) : list N := seqN (ci k) (N.to_nat (ce k - ci k)).
Definition cur_wf (k : cursor) : Prop := ci k <= ce k.

Lemma seqN_length s n : length (seqN s n) = n.
Proof. revert s; induction n as [|n IH]; intros s; cbn [seqN length]; [reflexivity | now rewrite IH]. Qed.

Lemma seqN_snoc s n : seqN s (S n) = seqN s n ++ [s + N.of_nat n].
Proof.
  revert s; induction n as [|n IH]; intros s.
  - cbn [seqN app]. f_equal. lia.
  - change (seqN s (S (S n))) with (s :: seqN (s + 1) (S n)).
    rewrite IH. cbn [seqN app]. do 2 f_equal. f_equal. lia.
Qed.

Lemma seqN_in s n x : In x (seqN s n) <-> s <= x < s + N.of_nat n.
Proof.
  revert s; induction n as [|n IH]; intros s; cbn [seqN In].
  - split; [tauto | lia].
  - rewrite IH. split; intros H.
    + destruct H as [H | H]; lia.
    + destruct (N.eq_dec s x) as [E | E]; [now left | right; lia].
Qed.

Lemma seqN_NoDup s n : NoDup (seqN s n).
Proof.
  revert s; induction n as [|n IH]; intros s; cbn [seqN]; constructor.
  - rewrite seqN_in. lia.
  - apply IH.
Qed.

(** [next] = pop the head. *)
Lemma cur_next_spec k :
  cur_wf k ->
  let '(o, k') := cur_next k in
  cur_wf k' /\
  match o with
  | None => cur_abs k = [] /\ k' = k
  | Some x => cur_abs k = x :: cur_abs k'
  end.
Proof.
  unfold cur_wf, cur_next, cur_abs. intros Hwf.
  destruct (N.eqb_spec (ci k) (ce k)) as [E | E].
  - split; [exact Hwf|]. split; [|reflexivity]. rewrite E, N.sub_diag. reflexivity.
  - cbn [ci ce]. split; [lia|].
    replace (N.to_nat (ce k - ci k)) with (S (N.to_nat (ce k - (ci k + 1)))) by lia.
    reflexivity.
Qed.

(** [next_back] = pop the last. *)
Lemma cur_next_back_spec k :
  cur_wf k ->
  let '(o, k') := cur_next_back k in
  cur_wf k' /\
  match o with
  | None => cur_abs k = [] /\ k' = k
  | Some x => cur_abs k = cur_abs k' ++ [x]
  end.
Proof.
  unfold cur_wf, cur_next_back, cur_abs. intros Hwf.
  destruct (N.eqb_spec (ce k) (ci k)) as [E | E].
  - split; [exact Hwf|]. split; [|reflexivity]. rewrite E, N.sub_diag. reflexivity.
  - cbn [ci ce]. split; [lia|].
    replace (N.to_nat (ce k - ci k)) with (S (N.to_nat (ce k - 1 - ci k))) by lia.
    rewrite seqN_snoc. do 2 f_equal. lia.
Qed.

(** [size_hint] / [len] is the number of positions still to come. *)
Lemma cur_len_spec k : cur_wf k -> cur_len k = N.of_nat (length (cur_abs k)).
Proof. unfold cur_wf, cur_len, cur_abs. intros H. rewrite seqN_length. lia. Qed.

(** Any list of calls ([true] = next, [false] = next_back). *)
Record call_out := { co_front : bool; co_item : option N; co_hint : N }.
Fixpoint run_cur (calls : list bool) (k : cursor) : list call_out * cursor :=
  match calls with
  | [] => ([], k)
  | f :: rest =>
      let '(o, k') := if f then cur_next k else cur_next_back k in
      let '(outs, k'') := run_cur rest k' in
      ({| co_front := f; co_item := o; co_hint := cur_len k' |} :: outs, k'')
  end.

Fixpoint fronts (l : list call_out) : list N :=
  match l with
  | [] => []
  | c :: r => match co_front c, co_item c with
              | true, Some x => x :: fronts r
              | _, _ => fronts r
              end
  end.
Fixpoint backs (l : list call_out) : list N :=
  match l with
  | [] => []
  | c :: r => match co_front c, co_item c with
              | false, Some x => x :: backs r
              | _, _ => backs r
              end
  end.

(** Main statement: whatever the interleaving, the items taken from the front (in
    call order), then what is left, then the items taken from the back (in reverse
    call order) are exactly the positions of the range, in ascending order. *)
Theorem run_cur_partition calls k :
  cur_wf k ->
  let '(outs, k') := run_cur calls k in
  cur_wf k' /\ fronts outs ++ cur_abs k' ++ rev (backs outs) = cur_abs k.
Proof.
  revert k; induction calls as [|f rest IH]; intros k Hwf.
  - cbn [run_cur fronts backs rev]. split; [exact Hwf|]. now rewrite app_nil_r.
  - cbn [run_cur]. destruct f.
    + pose proof (cur_next_spec k Hwf) as Hs.
      destruct (cur_next k) as [o k1]. destruct Hs as [Hwf1 Hs].
      specialize (IH k1 Hwf1). destruct (run_cur rest k1) as [outs k2].
      destruct IH as [Hwf2 IH]. split; [exact Hwf2|].
      cbn [fronts backs co_front co_item]. destruct o as [x|].
      * rewrite Hs. cbn [app]. now rewrite IH.
      * destruct Hs as [_ ->]. exact IH.
    + pose proof (cur_next_back_spec k Hwf) as Hs.
      destruct (cur_next_back k) as [o k1]. destruct Hs as [Hwf1 Hs].
      specialize (IH k1 Hwf1). destruct (run_cur rest k1) as [outs k2].
      destruct IH as [Hwf2 IH]. split; [exact Hwf2|].
      cbn [fronts backs co_front co_item]. destruct o as [x|].
      * rewrite Hs. cbn [rev]. rewrite <- IH. now rewrite <- !app_assoc.
      * destruct Hs as [_ ->]. exact IH.
Qed.

(** Every reported hint equals the number of items still to come after that call,
    i.e. the original count minus the items yielded so far. *)
Fixpoint yielded (l : list call_out) : nat :=
  match l with
  | [] => O
  | c :: r => match co_item c with Some _ => S (yielded r) | None => yielded r end
  end.
Theorem run_cur_hints calls k :
  cur_wf k ->
  let '(outs, k') := run_cur calls k in
  forall pre c post, outs = pre ++ c :: post ->
    (N.to_nat (co_hint c) + yielded (pre ++ [c]) = length (cur_abs k))%nat.
Proof.
  revert k; induction calls as [|f rest IH]; intros k Hwf.
  - cbn [run_cur]. intros pre c post H. destruct pre; discriminate.
  - cbn [run_cur].
    assert (Hstep : let '(o, k1) := if f then cur_next k else cur_next_back k in
                    cur_wf k1 /\ (match o with Some _ => 1 | None => 0 end + length (cur_abs k1) = length (cur_abs k))%nat).
    { destruct f.
      - pose proof (cur_next_spec k Hwf) as Hs. destruct (cur_next k) as [o k1].
        destruct Hs as [Hw Hs]. split; [exact Hw|]. destruct o.
        + rewrite Hs. reflexivity.
        + destruct Hs as [_ ->]. reflexivity.
      - pose proof (cur_next_back_spec k Hwf) as Hs. destruct (cur_next_back k) as [o k1].
        destruct Hs as [Hw Hs]. split; [exact Hw|]. destruct o.
        + rewrite Hs, app_length. cbn [length]. lia.
        + destruct Hs as [_ ->]. reflexivity. }
    destruct (if f then cur_next k else cur_next_back k) as [o k1].
    destruct Hstep as [Hwf1 Hlen].
    specialize (IH k1 Hwf1). destruct (run_cur rest k1) as [outs k2].
    intros pre c post H. destruct pre as [|c0 pre].
    + cbn [app] in H. injection H as <- _. cbn [app yielded co_item co_hint].
      rewrite (cur_len_spec k1 Hwf1). destruct o; lia.
    + cbn [app] in H. injection H as <- H. specialize (IH pre c post H).
      cbn [app yielded co_item]. destruct o; lia.
Qed.

(** Fused: once a call has returned [None], every later call returns [None]. *)
Theorem run_cur_fused calls k :
  cur_wf k -> cur_abs k = [] ->
  let '(outs, k') := run_cur calls k in
  k' = k /\ Forall (fun c => co_item c = None /\ co_hint c = 0) outs.
Proof.
  revert k; induction calls as [|f rest IH]; intros k Hwf Hnil.
  - cbn [run_cur]. split; [reflexivity | constructor].
  - cbn [run_cur].
    assert (Hstep : (if f then cur_next k else cur_next_back k) = (None, k)).
    { destruct f.
      - pose proof (cur_next_spec k Hwf) as Hs. destruct (cur_next k) as [o k1].
        destruct Hs as [_ Hs]. destruct o; [rewrite Hnil in Hs; discriminate|].
        destruct Hs as [_ ->]. reflexivity.
      - pose proof (cur_next_back_spec k Hwf) as Hs. destruct (cur_next_back k) as [o k1].
        destruct Hs as [_ Hs]. destruct o.
        + rewrite Hnil in Hs. destruct (cur_abs k1); discriminate.
        + destruct Hs as [_ ->]. reflexivity. }
    rewrite Hstep. specialize (IH k Hwf Hnil). destruct (run_cur rest k) as [outs k2].
    destruct IH as [-> IH]. split; [reflexivity|]. constructor; [|exact IH].
    cbn [co_item co_hint]. split; [reflexivity|].
    rewrite (cur_len_spec k Hwf), Hnil. reflexivity.
Qed.

(** A clone of the cursor is a value: advancing one copy cannot change the other
    (cursors are immutable records; stated for completeness). *)
Lemma cursor_clone_independent calls k :
  let k2 := k in snd (run_cur calls k) = snd (run_cur calls k) /\ k2 = k.
Proof. split; reflexivity. Qed.

(** ** The cursor arithmetic never leaves the machine's index space.
    The model computes [index + 1] and [end - 1] on unbounded numbers; from a well-formed cursor whose end is
    a machine integer every call sequence keeps [index <= end <= usize::MAX], every hint and every yielded
    position is a machine integer - so no addition wraps and no subtraction underflows, whatever the calls:
    the unbounded arithmetic IS the machine's.  In particular for the cursor at the very end of the index space
    (a zero-sized-element vector of length usize::MAX drained over its last positions). *)
Definition cur_in_range (k : cursor) : Prop := ci k <= ce k /\ ce k <= usize_max.
Lemma cur_step_in_range (f : bool) k :
  cur_in_range k ->
  let '(o, k') := if f then cur_next k else cur_next_back k in
  cur_in_range k' /\ cur_len k' <= usize_max /\
  match o with Some x => x < usize_max /\ ci k <= x < ce k | None => ci k = ce k end.
Proof.
  unfold cur_in_range, cur_next, cur_next_back, cur_len. intros [H1 H2]. destruct f.
  - destruct (N.eqb_spec (ci k) (ce k)) as [E|E]; cbn [ci ce]; repeat split; try lia.
  - destruct (N.eqb_spec (ce k) (ci k)) as [E|E]; cbn [ci ce]; repeat split; try lia.
Qed.
Theorem run_cur_in_range calls : forall k,
  cur_in_range k ->
  let '(outs, k') := run_cur calls k in
  cur_in_range k' /\
  Forall (fun o => co_hint o <= usize_max /\ match co_item o with Some x => x < usize_max | None => True end) outs.
Proof.
  induction calls as [|f rest IH]; intros k Hk; cbn [run_cur].
  - split; [exact Hk|constructor].
  - pose proof (cur_step_in_range f k Hk) as Hs.
    destruct (if f then cur_next k else cur_next_back k) as [o k1]. destruct Hs as (Hk1 & Hh & Ho).
    specialize (IH k1 Hk1). destruct (run_cur rest k1) as [outs k2]. destruct IH as [Hk2 Hall].
    split; [exact Hk2|]. constructor; [|exact Hall]. cbn [co_hint co_item]. split; [exact Hh|].
    destruct o; [exact (proj1 Ho)|exact I].
Qed.
Example cursor_at_the_end_in_range : cur_in_range {| ci := usize_max - 3; ce := usize_max |}.
Proof. unfold cur_in_range, usize_max. cbn [ci ce]. lia. Qed.
