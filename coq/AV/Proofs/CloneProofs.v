(** * Cloning (C08) and lazy clones (C09). *)
From AV.Model Require Import Base Bytes Vec.
From AV.Spec Require Import VecSpec.
From Coq Require FinFun.
From AV.Proofs Require Import MemLemmas Rep VecProofs RangeProofs CapProofs.
Arguments N.add : simpl never.
Arguments N.sub : simpl never.
Arguments N.mul : simpl never.

(** the identities user Clone hands out, starting from counter [n0]:
    zero-sized values all carry token 0 *)
Definition fresh_ids (c : cfg) (n0 : N) (count : nat) : list N :=
  map (fun k => if c_sz c =? 0 then 0 else n0 + N.of_nat k) (seq 0 count).
(** the Clone events of cloning [xs] into [ys], oldest first *)
Definition clone_events (xs ys : list N) : list event :=
  map (fun p => EClone (fst p) (snd p)) (combine xs ys).


(** ** Auxiliary facts *)
Lemma fresh_ids_length c n0 k : length (fresh_ids c n0 k) = k.
Proof. unfold fresh_ids. rewrite map_length, seq_length. reflexivity. Qed.

Lemma szn0 c : szn c = 0%nat -> c_sz c = 0.
Proof. unfold szn. lia. Qed.

Lemma fresh_tok_ok c n0 : tok_ok (szn c) (if c_sz c =? 0 then 0 else n0).
Proof. unfold tok_ok. intros H. apply szn0 in H. rewrite H. reflexivity. Qed.

Lemma fresh_ids_tok_ok c n0 k : Forall (tok_ok (szn c)) (fresh_ids c n0 k).
Proof.
  unfold fresh_ids. apply Forall_forall. intros x Hx.
  apply in_map_iff in Hx. destruct Hx as [j [<- _]]. apply fresh_tok_ok.
Qed.

(** fresh identities are new and pairwise distinct (for sized types) *)
Lemma fresh_ids_fresh c n0 k : c_sz c <> 0 -> NoDup (fresh_ids c n0 k) /\ Forall (fun t => n0 <= t) (fresh_ids c n0 k).
Proof.
  intros Hnz. unfold fresh_ids.
  destruct (N.eqb_spec (c_sz c) 0) as [Z|_]; [contradiction|].
  split.
  - apply FinFun.Injective_map_NoDup; [|apply seq_NoDup].
    intros a b Hab. lia.
  - apply Forall_forall. intros x Hx. apply in_map_iff in Hx. destruct Hx as [j [<- _]]. lia.
Qed.

Lemma fresh_ids_S c n0 k :
  fresh_ids c n0 (S k) = (if c_sz c =? 0 then 0 else n0) :: fresh_ids c (n0 + 1) k.
Proof.
  unfold fresh_ids. cbn [seq map]. rewrite <- seq_shift, map_map. f_equal.
  - destruct (c_sz c =? 0); [reflexivity|]. cbn [N.of_nat]. lia.
  - apply map_ext. intros a. destruct (c_sz c =? 0); [reflexivity|]. lia.
Qed.

Lemma clone_events_cons x xs y ys :
  clone_events (x :: xs) (y :: ys) = EClone x y :: clone_events xs ys.
Proof. reflexivity. Qed.

Lemma uevents_clones a b lg :
  filter is_user_event (rev (clone_events a b) ++ lg)
  = rev (clone_events a b) ++ filter is_user_event lg.
Proof.
  rewrite filter_app. f_equal. apply filter_all_true. apply Forall_rev. apply Forall_forall.
  intros x Hx. unfold clone_events in Hx. apply in_map_iff in Hx.
  destruct Hx as [p [<- _]]. reflexivity.
Qed.

(** the fuse *)
Lemma tick_none u : ufuse u = None -> tick u = Some u.
Proof. intros H. unfold tick. rewrite H. reflexivity. Qed.
Lemma tick_zero u : ufuse u = Some 0 -> tick u = None.
Proof. intros H. unfold tick. rewrite H. reflexivity. Qed.
Lemma tick_succ u k :
  ufuse u = Some (N.of_nat (S k)) ->
  tick u = Some {| ulog := ulog u; unext := unext u; ufuse := Some (N.of_nat k) |}.
Proof.
  intros H. unfold tick. rewrite H.
  destruct (N.eqb_spec (N.of_nat (S k)) 0) as [Z|_]; [lia|].
  do 3 f_equal. lia.
Qed.

(** the user world after one successful Clone of [t0] *)
Definition cloned_uw (c : cfg) (t0 : N) (u : uw) : uw :=
  {| ulog := EClone t0 (if c_sz c =? 0 then 0 else unext u) :: ulog u;
     unext := unext u + 1; ufuse := ufuse u |}.

Lemma clone_into_ok c bs t0 off v u u1 :
  dec (szn c) bs = Some t0 -> tick u = Some u1 -> store_ok c v ->
  (off + szn c <= N.to_nat (vcap v) * szn c)%nat ->
  clone_into c bs off (v, u)
  = Ok tt (with_mem (mwrite off (enc (szn c) (if c_sz c =? 0 then 0 else unext u1)) (vmem v)) v,
           cloned_uw c t0 u1).
Proof.
  intros Hd Ht Hst Hb. unfold clone_into. rewrite Hd.
  unfold bind, user_call, fresh, emitv. cbn [fst snd]. rewrite Ht. cbn [fst snd].
  rewrite RangeProofs.check_range_ok by assumption.
  unfold setv. cbn [fst snd]. reflexivity.
Qed.

Lemma clone_into_panics c bs t0 off v u :
  dec (szn c) bs = Some t0 -> tick u = None ->
  clone_into c bs off (v, u) = Panic PUser (v, disarm u).
Proof.
  intros Hd Ht. unfold clone_into. rewrite Hd.
  unfold bind, user_call. cbn [fst snd]. rewrite Ht. reflexivity.
Qed.

(** replacing the storage by one that agrees on the live prefix *)
Lemma rep_with_mem c v xs m' :
  Rep c v xs -> length m' = length (vmem v) ->
  firstn (length xs * szn c) m' = firstn (length xs * szn c) (vmem v) ->
  Rep c (with_mem m' v) xs.
Proof.
  intros [Hlen Hcap Hus Hst Hmem Htok] Hl Hp.
  constructor; cbn [with_mem vlen vcap vmem]; auto.
  - unfold store_ok in *. cbn [with_mem vcap vmem]. rewrite Hl. exact Hst.
  - rewrite Hp. exact Hmem.
Qed.

(** the vector after a value has been written behind the last element *)
Lemma push_rep c v xs t v' :
  Rep c v xs -> vlen v < vcap v -> tok_ok (szn c) t ->
  vlen v' = vlen v + 1 -> vcap v' = vcap v ->
  vmem v' = mwrite (bo c (vlen v)) (enc (szn c) t) (vmem v) ->
  Rep c v' (xs ++ [t]).
Proof.
  intros [Hlen Hcap Hus Hst Hmem Htok] Hlt Ht Hl' Hc' Hm'.
  assert (Hoff : bo c (vlen v) = (length xs * szn c)%nat).
  { rewrite Hlen. apply bo_of_nat. }
  assert (Hst' := Hst). unfold store_ok in Hst'. rewrite capbytes in Hst'.
  assert (Hb : (length xs * szn c + szn c <= N.to_nat (vcap v) * szn c)%nat).
  { replace (length xs * szn c + szn c)%nat with ((length xs + 1) * szn c)%nat by lia.
    apply Nat.mul_le_mono_r. lia. }
  constructor.
  - rewrite Hl', app_length. cbn [length]. lia.
  - lia.
  - lia.
  - unfold store_ok. rewrite Hc', Hm', Hoff.
    rewrite mwrite_length; [exact Hst|]. rewrite enc_length. lia.
  - rewrite Hm', Hoff, app_length. cbn [length].
    replace ((length xs + 1) * szn c)%nat with (length xs * szn c + length (enc (szn c) t))%nat
      by (rewrite enc_length; lia).
    rewrite VecProofs.mwrite_firstn.
    + rewrite Hmem, flat_app. cbn [flat]. rewrite app_nil_r. reflexivity.
    + rewrite enc_length. lia.
  - apply Forall_app. split; [exact Htok|]. constructor; [exact Ht|constructor].
Qed.

(** the vector after the tail has been shifted up and a value written into the gap *)
Lemma insert_rep c v xs t i v' :
  Rep c v xs -> vlen v < vcap v -> tok_ok (szn c) t -> (i <= length xs)%nat ->
  vlen v' = vlen v + 1 -> vcap v' = vcap v ->
  vmem v' = mwrite (i * szn c) (enc (szn c) t)
              (memmove (i * szn c) (i * szn c + szn c) ((length xs - i) * szn c) (vmem v)) ->
  Rep c v' (sp_insert i t xs).
Proof.
  intros [Hlen Hcap Hus Hst Hmem Htok] Hlt Ht Hi Hl' Hc' Hm'.
  set (a := firstn i xs). set (b := skipn i xs).
  assert (Hla : length a = i) by (unfold a; rewrite firstn_length; lia).
  assert (Hlb : length b = (length xs - i)%nat) by (unfold b; apply skipn_length).
  assert (Hxs : xs = a ++ b) by (unfold a, b; symmetry; apply firstn_skipn).
  assert (Hcapb : ((length a + length b + 1) * szn c <= N.to_nat (vcap v) * szn c)%nat).
  { apply Nat.mul_le_mono_r. lia. }
  assert (Hstore := Hst). unfold store_ok in Hstore. rewrite capbytes in Hstore.
  assert (Hm0 : firstn ((length a + length b) * szn c) (vmem v) = flat (szn c) a ++ flat (szn c) b).
  { rewrite <- flat_app, <- Hxs. rewrite <- app_length, <- Hxs. exact Hmem. }
  destruct (insert_mem (szn c) (vmem v) a b t Hm0) as [Hlm' Hm1]; [lia|].
  rewrite Hla, Hlb in Hlm', Hm1. rewrite <- Hm' in Hlm', Hm1.
  unfold sp_insert. fold a b.
  constructor.
  - rewrite Hl', app_length. cbn [length]. lia.
  - lia.
  - lia.
  - unfold store_ok. rewrite Hc', Hlm'. exact Hst.
  - rewrite app_length. cbn [length].
    replace (length a + S (length b))%nat with (i + 1 + (length xs - i))%nat by lia.
    rewrite Hm1. rewrite flat_app. cbn [flat]. reflexivity.
  - rewrite Hxs in Htok. apply Forall_app in Htok. destruct Htok as [Ha Hb].
    apply Forall_app. split; [exact Ha|]. constructor; assumption.
Qed.

(** one lazy-clone consumption by push: exactly one Clone of the source value, the
    destination receives the clone *)
Theorem push_clone_ok c v u xs bs t0 k :
  cfg_wf c -> Rep c v xs -> dec (szn c) bs = Some t0 -> ufuse u = None ->
  (vlen v < vcap v \/ grow_ok c v (vcap v + 1)) ->
  let n := if c_sz c =? 0 then 0 else unext u in
  exists v' u',
    push_unchecked c (VClone bs k) (v, u) = Ok tt (v', u') /\
    Rep c v' (xs ++ [n]) /\ vbk v' = vbk v /\
    unext u' = unext u + 1 /\ ufuse u' = None /\
    uevents u' = EClone t0 n :: uevents u /\
    (vlen v < vcap v -> vcap v' = vcap v /\ vgen v' = vgen v).
Proof.
  intros Hwf HR Hd Hf Hg n.
  destruct (reserve_one_ok c v u xs Hwf HR Hg)
    as (v1 & u1 & E1 & HR1 & Hlt & Hl & Hbk & (Hsn & Hsf & Hse) & Hsame).
  unfold push_unchecked. bstep E1.
  assert (Eg : getv (v1, u1) = Ok v1 (v1, u1)) by reflexivity. bstep Eg.
  cbn [write_value].
  pose proof (rep_store _ _ _ HR1) as Hst.
  pose proof (rep_len _ _ _ HR1) as Hlen.
  assert (Hb : (bo c (vlen v1) + szn c <= N.to_nat (vcap v1) * szn c)%nat).
  { rewrite szn_bo. nia. }
  assert (Hf1 : ufuse u1 = None) by congruence.
  assert (Ec := clone_into_ok c bs t0 (bo c (vlen v1)) v1 u1 u1 Hd (tick_none _ Hf1) Hst Hb).
  bstep Ec. unfold setv. cbn [fst snd].
  eexists _, _. split; [reflexivity|].
  split; [|split; [|split; [|split; [|split]]]].
  - unfold n. rewrite <- Hsn.
    eapply push_rep; [exact HR1|exact Hlt|apply fresh_tok_ok|reflexivity|reflexivity|reflexivity].
  - cbn [with_len with_mem vbk]. exact Hbk.
  - cbn [cloned_uw unext]. rewrite Hsn. reflexivity.
  - cbn [cloned_uw ufuse]. exact Hf1.
  - unfold uevents in *. cbn [cloned_uw ulog filter is_user_event]. rewrite Hse.
    unfold n. rewrite Hsn. reflexivity.
  - intros Hroom. destruct (Hsame Hroom) as [-> _]. cbn [with_len with_mem vcap vgen]. auto.
Qed.

(** the steps of [insert_unchecked] up to the write of the value *)
Lemma insert_prefix_run c v u xs i s :
  cfg_wf c -> Rep c v xs -> (i <= length xs)%nat ->
  (vlen v < vcap v \/ grow_ok c v (vcap v + 1)) ->
  exists v1 u1,
    Rep c v1 xs /\ vlen v1 < vcap v1 /\ vlen v1 = vlen v /\ vbk v1 = vbk v /\ same_user u u1 /\
    (vlen v < vcap v -> v1 = v) /\
    let vs := with_mem (memmove (i * szn c) (i * szn c + szn c) ((length xs - i) * szn c) (vmem v1))
                (with_len (N.of_nat i) v1) in
    store_ok c vs /\
    insert_unchecked c (N.of_nat i) s (v, u)
    = (write_value c (i * szn c) s;; setv (with_len (vlen v + 1))) (vs, u1).
Proof.
  intros Hwf HR Hi Hg.
  destruct (reserve_one_ok c v u xs Hwf HR Hg) as (v1 & u1 & E1 & HR1 & Hlt & Hl & Hbk & Hsu & Hsame).
  exists v1, u1. split; [exact HR1|]. split; [exact Hlt|]. split; [exact Hl|].
  split; [exact Hbk|]. split; [exact Hsu|]. split; [intros Hroom; exact (proj1 (Hsame Hroom))|].
  pose proof (rep_len _ _ _ HR) as Hlenv.
  destruct HR1 as [Hlen Hcap Hus Hst Hmem Htok].
  assert (Hn : N.to_nat (c_sz c * (vlen v - N.of_nat i)) = ((length xs - i) * szn c)%nat).
  { rewrite N2Nat.inj_mul. fold (szn c). rewrite Hlenv. lia. }
  assert (Hstore := Hst). unfold store_ok in Hstore. rewrite capbytes in Hstore.
  assert (Hcapb : ((i + (length xs - i) + 1) * szn c <= N.to_nat (vcap v1) * szn c)%nat).
  { apply Nat.mul_le_mono_r. lia. }
  intros vs. split.
  - unfold store_ok, vs. cbn [with_mem with_len vcap vmem].
    rewrite memmove_length by lia. exact Hst.
  - unfold insert_unchecked.
    assert (Eg : getv (v, u) = Ok v (v, u)) by reflexivity. bstep Eg.
    assert (Ea : assert_ (N.of_nat i <=? vlen v) PIndex (v, u) = Ok tt (v, u)).
    { apply assert_true. apply N.leb_le. lia. }
    bstep Ea. bstep E1.
    assert (Es : setv (with_len (N.of_nat i)) (v1, u1) = Ok tt (with_len (N.of_nat i) v1, u1))
      by reflexivity.
    bstep Es. rewrite bo_of_nat, Hn.
    assert (Esh : shift c (vknown s) (i * szn c) (i * szn c + szn c) ((length xs - i) * szn c)
                     (with_len (N.of_nat i) v1, u1) = Ok tt (vs, u1)).
    { apply VecProofs.shift_ok; [change (store_ok c v1); exact Hst| |]; cbn [with_len vcap vmem]; lia. }
    bstep Esh. reflexivity.
Qed.

Theorem insert_clone_ok c v u xs bs t0 k i :
  cfg_wf c -> Rep c v xs -> dec (szn c) bs = Some t0 -> ufuse u = None -> (i <= length xs)%nat ->
  (vlen v < vcap v \/ grow_ok c v (vcap v + 1)) ->
  let n := if c_sz c =? 0 then 0 else unext u in
  exists v' u',
    insert_unchecked c (N.of_nat i) (VClone bs k) (v, u) = Ok tt (v', u') /\
    Rep c v' (sp_insert i n xs) /\ vbk v' = vbk v /\
    unext u' = unext u + 1 /\ ufuse u' = None /\
    uevents u' = EClone t0 n :: uevents u /\
    (vlen v < vcap v -> vcap v' = vcap v /\ vgen v' = vgen v).
Proof.
  intros Hwf HR Hd Hf Hi Hg n.
  destruct (insert_prefix_run c v u xs i (VClone bs k) Hwf HR Hi Hg)
    as (v1 & u1 & HR1 & Hlt & Hl & Hbk & (Hsn & Hsf & Hse) & Hsame & Hvs).
  cbv zeta in Hvs. destruct Hvs as [Hsts E]. rewrite E. clear E.
  cbn [write_value].
  assert (Hf1 : ufuse u1 = None) by congruence.
  pose proof (rep_len _ _ _ HR1) as Hlen1.
  match type of Hsts with store_ok c ?vs0 => set (vs := vs0) in * end.
  assert (Hb : (i * szn c + szn c <= N.to_nat (vcap vs) * szn c)%nat).
  { unfold vs. cbn [with_mem with_len vcap]. nia. }
  assert (Ec := clone_into_ok c bs t0 (i * szn c) vs u1 u1 Hd (tick_none _ Hf1) Hsts Hb).
  bstep Ec. unfold setv. cbn [fst snd].
  eexists _, _. split; [reflexivity|].
  split; [|split; [|split; [|split; [|split]]]].
  - unfold n. rewrite <- Hsn.
    eapply insert_rep; [exact HR1|exact Hlt|apply fresh_tok_ok|exact Hi| | |].
    + cbn [with_len vlen]. rewrite Hl. reflexivity.
    + reflexivity.
    + reflexivity.
  - cbn [with_len with_mem vbk vs]. exact Hbk.
  - cbn [cloned_uw unext]. rewrite Hsn. reflexivity.
  - cbn [cloned_uw ufuse]. exact Hf1.
  - unfold uevents in *. cbn [cloned_uw ulog filter is_user_event]. rewrite Hse.
    unfold n. rewrite Hsn. reflexivity.
  - intros Hroom. unfold vs. rewrite (Hsame Hroom). cbn [with_len with_mem vcap vgen]. auto.
Qed.

(** a Clone that panics inside push: the vector is unchanged (apart from a possible
    growth of the storage), nothing was created *)
Theorem push_clone_panics c v u xs bs t0 k :
  cfg_wf c -> Rep c v xs -> dec (szn c) bs = Some t0 -> ufuse u = Some 0 ->
  (vlen v < vcap v \/ grow_ok c v (vcap v + 1)) ->
  exists v' u',
    push_unchecked c (VClone bs k) (v, u) = Panic PUser (v', u') /\
    Rep c v' xs /\ unext u' = unext u /\ ufuse u' = None /\ uevents u' = uevents u /\
    vbk v' = vbk v /\ (vlen v < vcap v -> vcap v' = vcap v).
Proof.
  intros Hwf HR Hd Hf Hg.
  destruct (reserve_one_ok c v u xs Hwf HR Hg)
    as (v1 & u1 & E1 & HR1 & Hlt & Hl & Hbk & (Hsn & Hsf & Hse) & Hsame).
  unfold push_unchecked. bstep E1.
  assert (Eg : getv (v1, u1) = Ok v1 (v1, u1)) by reflexivity. bstep Eg.
  cbn [write_value].
  assert (Hf1 : ufuse u1 = Some 0) by congruence.
  assert (Ec := clone_into_panics c bs t0 (bo c (vlen v1)) v1 u1 Hd (tick_zero _ Hf1)).
  rewrite (bind_panic _ _ _ _ _ Ec).
  eexists _, _. split; [reflexivity|].
  split; [exact HR1|]. split; [exact Hsn|]. split; [reflexivity|]. split; [exact Hse|].
  split; [exact Hbk|]. intros Hroom. rewrite (proj1 (Hsame Hroom)). reflexivity.
Qed.

(** a Clone that panics inside insert: the tail is hidden (leaked), the visible prefix is
    intact - no duplicate is ever visible (defect D9, repaired) *)
Theorem insert_clone_panics c v u xs bs t0 k i :
  cfg_wf c -> Rep c v xs -> dec (szn c) bs = Some t0 -> ufuse u = Some 0 -> (i <= length xs)%nat ->
  (vlen v < vcap v \/ grow_ok c v (vcap v + 1)) ->
  exists v' u',
    insert_unchecked c (N.of_nat i) (VClone bs k) (v, u) = Panic PUser (v', u') /\
    Rep c v' (firstn i xs) /\ unext u' = unext u /\ ufuse u' = None /\ uevents u' = uevents u /\
    vbk v' = vbk v /\ (vlen v < vcap v -> vcap v' = vcap v).
Proof.
  intros Hwf HR Hd Hf Hi Hg.
  destruct (insert_prefix_run c v u xs i (VClone bs k) Hwf HR Hi Hg)
    as (v1 & u1 & HR1 & Hlt & Hl & Hbk & (Hsn & Hsf & Hse) & Hsame & Hvs).
  cbv zeta in Hvs. destruct Hvs as [Hsts E]. rewrite E. clear E.
  cbn [write_value].
  assert (Hf1 : ufuse u1 = Some 0) by congruence.
  match type of Hsts with store_ok c ?vs0 => set (vs := vs0) in * end.
  assert (Ec := clone_into_panics c bs t0 (i * szn c) vs u1 Hd (tick_zero _ Hf1)).
  rewrite (bind_panic _ _ _ _ _ Ec).
  eexists _, _. split; [reflexivity|].
  split; [|split; [exact Hsn|split; [reflexivity|split; [exact Hse|split; [exact Hbk|intros Hroom; unfold vs; cbn [vcap with_mem with_len]; rewrite (Hsame Hroom); reflexivity]]]]].
  pose proof (rep_prefix c v1 xs i HR1 Hi) as HRp.
  pose proof (rep_len _ _ _ HR1) as Hlen1.
  pose proof (rep_store _ _ _ HR1) as Hst1. unfold store_ok in Hst1. rewrite capbytes in Hst1.
  assert (Hli : length (firstn i xs) = i) by (rewrite firstn_length; lia).
  assert (Hcapb : ((i + (length xs - i) + 1) * szn c <= N.to_nat (vcap v1) * szn c)%nat).
  { apply Nat.mul_le_mono_r. lia. }
  apply (rep_with_mem c (with_len (N.of_nat i) v1) (firstn i xs)); [exact HRp| |].
  - cbn [with_len vmem]. apply memmove_length; lia.
  - cbn [with_len vmem]. rewrite Hli. unfold memmove.
    assert (Hcapi : ((i + 1) * szn c <= N.to_nat (vcap v1) * szn c)%nat).
    { apply Nat.mul_le_mono_r. lia. }
    apply RangeProofs.mwrite_firstn; lia.
Qed.

(** capacity a fixed backend is built with *)
Definition fixed_cap (c : cfg) (b : bkind) : N :=
  match b with
  | BStack size => if c_sz c =? 0 then usize_max else size / c_sz c
  | BStackN n _ => n
  | _ => 0
  end.
(** the vector's backend is one that [mem_build] produces for this element layout *)
Definition backend_consistent (c : cfg) (v : vec) : Prop :=
  match vbk v with
  | BStackN n size => stackn_fits n (c_sz c) size = true /\ vcap v = n
  | BStack size => vcap v = fixed_cap c (BStack size)
  | BEmpty => vcap v = 0
  | _ => True
  end.

(** the source slot the loop reads at step [length pre] *)
Lemma src_slot c src pre r rest :
  Held c src 0 (pre ++ r :: rest) ->
  msub (length pre * szn c) (szn c) (vmem src) = enc (szn c) r.
Proof.
  intros H. apply held_split in H. destruct H as [_ H]. cbn [Nat.add] in H.
  change (r :: rest) with ([r] ++ rest) in H. apply held_split in H. destruct H as [H _].
  apply held_one. exact H.
Qed.

Lemma store_ok_mwrite c v off bs :
  store_ok c v -> (off + length bs <= length (vmem v))%nat ->
  store_ok c (with_mem (mwrite off bs (vmem v)) v).
Proof.
  intros Hst Hb. unfold store_ok in *. cbn [with_mem vcap vmem].
  rewrite mwrite_length by exact Hb. exact Hst.
Qed.

Lemma clone_loop_run c src : forall rest pre ys v u,
  Held c src 0 (pre ++ rest) -> Forall (tok_ok (szn c)) rest ->
  length ys = length pre ->
  Held c v 0 ys -> store_ok c v -> N.of_nat (length pre + length rest) <= vcap v ->
  ufuse u = None ->
  exists m' u',
    clone_loop c (vmem src) (length pre) (length rest) (v, u) = Ok tt (with_mem m' v, u') /\
    length m' = length (vmem v) /\
    Held c (with_mem m' v) 0 (ys ++ fresh_ids c (unext u) (length rest)) /\
    unext u' = unext u + N.of_nat (length rest) /\ ufuse u' = None /\
    ulog u' = rev (clone_events rest (fresh_ids c (unext u) (length rest))) ++ ulog u.
Proof.
  induction rest as [|r rest IH]; intros pre ys v u Hsrc Htok Hly Hys Hst Hcap Hf.
  - exists (vmem v), u. cbn [length clone_loop]. unfold ret. rewrite with_mem_id.
    split; [reflexivity|]. split; [reflexivity|]. split.
    { unfold fresh_ids. cbn [seq map]. rewrite app_nil_r. exact Hys. }
    split; [cbn [N.of_nat]; lia|]. split; [exact Hf|]. reflexivity.
  - cbn [length clone_loop].
    inversion Htok as [|? ? Hr Hrest]; subst.
    rewrite (src_slot c src pre r rest Hsrc).
    cbn [length] in Hcap.
    assert (Hst' := Hst). unfold store_ok in Hst'. rewrite capbytes in Hst'.
    assert (Hb : (length pre * szn c + szn c <= N.to_nat (vcap v) * szn c)%nat) by nia.
    assert (Ec := clone_into_ok c (enc (szn c) r) r (length pre * szn c) v u u
                    (dec_enc _ _ Hr) (tick_none _ Hf) Hst Hb).
    bstep Ec.
    set (n := if c_sz c =? 0 then 0 else unext u) in *.
    set (v1 := with_mem (mwrite (length pre * szn c) (enc (szn c) n) (vmem v)) v) in *.
    destruct (IH (pre ++ [r]) (ys ++ [n]) v1 (cloned_uw c r u))
      as (m' & u' & E & Hlm & Hh & Hn & Hf' & Hlog).
    + rewrite <- app_assoc. exact Hsrc.
    + exact Hrest.
    + rewrite !app_length, Hly. reflexivity.
    + apply held_app.
      * change (HeldM (szn c) (vmem v1) 0 ys). unfold v1. cbn [vmem with_mem].
        apply heldm_mwrite_before; [exact Hys | rewrite Hly; cbn [Nat.add]; lia | lia].
      * cbn [Nat.add]. rewrite Hly.
        change (HeldM (szn c) (vmem v1) (length pre) [n]). unfold v1. cbn [vmem with_mem].
        replace (enc (szn c) n) with (flat (szn c) [n]) by (cbn [flat]; apply app_nil_r).
        apply heldm_mwrite_at. lia.
    + apply store_ok_mwrite; [exact Hst|]. rewrite enc_length. lia.
    + rewrite app_length. cbn [length]. unfold v1. cbn [vcap with_mem]. lia.
    + exact Hf.
    + rewrite app_length in E. cbn [length] in E. rewrite Nat.add_1_r in E.
      exists m', u'. split; [exact E|].
      split.
      { rewrite Hlm. unfold v1. cbn [vmem with_mem]. apply mwrite_length.
        rewrite enc_length. lia. }
      rewrite fresh_ids_S. fold n. cbn [cloned_uw unext ulog] in *.
      split; [rewrite <- app_assoc in Hh; exact Hh|].
      split; [lia|]. split; [exact Hf'|].
      rewrite Hlog, clone_events_cons. cbn [rev]. rewrite <- app_assoc. reflexivity.
Qed.

Lemma clone_loop_fuse c src : forall rest pre v u k,
  Held c src 0 (pre ++ rest) -> Forall (tok_ok (szn c)) rest ->
  store_ok c v -> N.of_nat (length pre + length rest) <= vcap v ->
  ufuse u = Some (N.of_nat k) -> (k < length rest)%nat ->
  exists m' u',
    clone_loop c (vmem src) (length pre) (length rest) (v, u) = Panic PUser (with_mem m' v, u') /\
    ufuse u' = None /\
    ulog u' = rev (clone_events (firstn k rest) (fresh_ids c (unext u) k)) ++ ulog u /\
    unext u' = unext u + N.of_nat k.
Proof.
  induction rest as [|r rest IH]; intros pre v u k Hsrc Htok Hst Hcap Hf Hk.
  - cbn [length] in Hk. lia.
  - cbn [length clone_loop].
    inversion Htok as [|? ? Hr Hrest]; subst.
    rewrite (src_slot c src pre r rest Hsrc).
    cbn [length] in Hcap, Hk.
    destruct k as [|k].
    + exists (vmem v), (disarm u). rewrite with_mem_id. split.
      * apply bind_panic. apply clone_into_panics with (t0 := r); [apply dec_enc; exact Hr|].
        apply tick_zero. exact Hf.
      * split; [reflexivity|]. split; [reflexivity|]. cbn [disarm unext]. lia.
    + assert (Hst' := Hst). unfold store_ok in Hst'. rewrite capbytes in Hst'.
      assert (Hb : (length pre * szn c + szn c <= N.to_nat (vcap v) * szn c)%nat) by nia.
      set (ut := {| ulog := ulog u; unext := unext u; ufuse := Some (N.of_nat k) |}).
      assert (Ec := clone_into_ok c (enc (szn c) r) r (length pre * szn c) v u ut
                      (dec_enc _ _ Hr) (tick_succ _ _ Hf) Hst Hb).
      bstep Ec. cbn [ut unext] in *.
      set (n := if c_sz c =? 0 then 0 else unext u) in *.
      set (v1 := with_mem (mwrite (length pre * szn c) (enc (szn c) n) (vmem v)) v) in *.
      destruct (IH (pre ++ [r]) v1 (cloned_uw c r ut) k) as (m' & u' & E & Hf' & Hlog & Hnx).
      * rewrite <- app_assoc. exact Hsrc.
      * exact Hrest.
      * apply store_ok_mwrite; [exact Hst|]. rewrite enc_length. lia.
      * rewrite app_length. cbn [length]. unfold v1. cbn [vcap with_mem]. lia.
      * reflexivity.
      * lia.
      * rewrite app_length in E. cbn [length] in E. rewrite Nat.add_1_r in E.
        exists m', u'. split; [exact E|]. split; [exact Hf'|]. split.
        -- rewrite Hlog. cbn [firstn]. rewrite fresh_ids_S. fold n.
           cbn [cloned_uw ut unext ulog]. rewrite clone_events_cons. cbn [rev].
           rewrite <- app_assoc. reflexivity.
        -- rewrite Hnx. cbn [cloned_uw ut unext]. lia.
Qed.

(** ** clone of a whole vector: the state's vector becomes the clone *)
Theorem clone_loop_ok c v u src xs ys :
  (* v: target with len 0 whose first slots already hold ys; src holds xs ++ rest from slot |ys| *)
  forall rest, 
  Held c src 0 (xs ++ rest) -> Forall (tok_ok (szn c)) (xs ++ rest) ->
  length ys = length xs ->
  Held c v 0 ys -> store_ok c v -> N.of_nat (length xs + length rest) <= vcap v -> ufuse u = None ->
  exists m' u',
    clone_loop c (vmem src) (length xs) (length rest) (v, u) = Ok tt (with_mem m' v, u') /\
    length m' = length (vmem v) /\
    Held c (with_mem m' v) 0 (ys ++ fresh_ids c (unext u) (length rest)) /\
    unext u' = unext u + N.of_nat (length rest) /\ ufuse u' = None /\
    ulog u' = rev (clone_events rest (fresh_ids c (unext u) (length rest))) ++ ulog u.
Proof.
  intros rest Hsrc Htok Hly Hys Hst Hcap Hf.
  apply Forall_app in Htok. destruct Htok as [_ Htok].
  rewrite <- Hly in *.
  destruct (clone_loop_run c src rest xs ys v u Hsrc Htok) as (m' & u' & H); auto.
  - rewrite <- Hly. exact Hcap.
  - exists m', u'. rewrite <- Hly in H. exact H.
Qed.

(** building the prototype, then making room for the source's elements *)
Lemma fixed_backend_dec b : {fixed_backend b} + {~ fixed_backend b}.
Proof. destruct b; cbn [fixed_backend]; auto. Qed.

Lemma mem_build_run c src v0 u :
  backend_consistent c src ->
  exists vb ub,
    mem_build c (vbk src) (v0, u) = Ok tt (vb, ub) /\
    (fixed_backend (vbk src) -> vcap vb = vcap src) /\
    (~ fixed_backend (vbk src) ->
     vbk vb = vbk src /\ (vbk src = BHeap -> vcap vb = 0)).
Proof.
  unfold backend_consistent, mem_build. intros H.
  destruct (vbk src) as [|size|n size| |c0]; cbn [fixed_backend].
  - eexists _, _. split; [reflexivity|]. split; [intros []|]. intros _. split; reflexivity.
  - eexists _, _. split; [reflexivity|]. split.
    + intros _. cbn [vcap]. symmetry. exact H.
    + intros F. exfalso. apply F. exact I.
  - destruct H as [Hfit Hcap]. rewrite Hfit.
    eexists _, _. split; [reflexivity|]. split.
    + intros _. cbn [vcap]. symmetry. exact Hcap.
    + intros F. exfalso. apply F. exact I.
  - eexists _, _. split; [reflexivity|]. split.
    + intros _. cbn [vcap]. symmetry. exact H.
    + intros F. exfalso. apply F. exact I.
  - eexists _, _. split; [reflexivity|]. split; [intros []|]. intros _. split; [reflexivity|discriminate].
Qed.

Lemma clone_prepare c src u xs v0 :
  cfg_wf c -> bk_wf (vbk src) -> backend_consistent c src -> Rep c src xs ->
  (fixed_backend (vbk src) \/ (N.of_nat (length xs) <= usize_max /\
      c_sz c * grow_target {| vlen := 0; vcap := 0; vmem := []; vgen := 0; vbk := vbk src |} (N.of_nat (length xs)) <= alloc_limit)) ->
  exists vb ub v1 u1,
    mem_build c (vbk src) (v0, u) = Ok tt (vb, ub) /\
    reserve c (vlen src) (vb, ub) = Ok tt (v1, u1) /\
    Rep c v1 [] /\ N.of_nat (length xs) <= vcap v1 /\ vbk v1 = vbk src /\
    unext u1 = unext u /\ ufuse u1 = ufuse u /\ uevents u1 = uevents u /\
    (fixed_backend (vbk src) -> vcap v1 = vcap src).
Proof.
  intros Hwf Hbw Hbc HR Hfit.
  destruct (mem_build_run c src v0 u Hbc) as (vb & ub & Eb & Hfx & Hnf).
  destruct (mem_build_rep c (vbk src) u v0 Hbw vb ub Eb) as (HRb & Hbkb & Heb & Hnb & Hfb).
  pose proof (rep_len _ _ _ HRb) as Hlb. cbn [length N.of_nat] in Hlb.
  pose proof (rep_len _ _ _ HR) as Hlen.
  assert (Hroom : vlen vb + vlen src <= vcap vb \/ grow_ok c vb (vlen vb + vlen src)).
  { rewrite Hlb, N.add_0_l.
    destruct (fixed_backend_dec (vbk src)) as [F|NF].
    - left. rewrite (Hfx F). apply (rep_cap _ _ _ HR).
    - right. destruct Hfit as [F|[Hu Ha]]; [contradiction|].
      destruct (Hnf NF) as [Hbk0 Hcap0].
      rewrite Hlen. unfold grow_ok, grow_target in *. rewrite Hbk0. cbn [vbk vcap] in Ha.
      revert Ha NF Hcap0. destruct (vbk src); cbn [fixed_backend]; intros Ha NF Hcap0;
        try (exfalso; apply NF; exact I); (split; [assumption|]).
      + rewrite (Hcap0 eq_refl). exact Ha.
      + exact Ha. }
  destruct (reserve_ok c vb ub [] (vlen src) Hwf HRb Hroom)
    as (v1 & u1 & Er & HR1 & Hc1 & _ & Hl1 & Hbk1 & (Hsn & Hsf & Hse) & _).
  exists vb, ub, v1, u1. split; [exact Eb|]. split; [exact Er|]. split; [exact HR1|].
  split; [lia|]. split; [congruence|]. split; [congruence|]. split; [congruence|]. split; [congruence|].
  intros F. pose proof (Hfx F) as Hcb.
  assert (Hr : vlen vb + vlen src <= vcap vb).
  { rewrite Hlb, N.add_0_l, Hcb. apply (rep_cap _ _ _ HR). }
  destruct (reserve_noop c vb ub [] (vlen src) HRb Hr) as [En _].
  rewrite En in Er. injection Er as <- _. exact Hcb.
Qed.

(** dropping the [Mem] object never fails and is invisible to user code *)
Lemma mem_drop_ok c v u :
  exists v' u', mem_drop c (v, u) = Ok tt (v', u') /\ vlen v' = vlen v /\
    unext u' = unext u /\ ufuse u' = ufuse u /\ uevents u' = uevents u.
Proof.
  unfold mem_drop, bind, getv. cbn [fst snd].
  destruct (vbk v).
  - unfold heap_resize, bind, getv, setv, emitv, ret. cbn [fst snd].
    destruct (vcap v =? 0).
    { eexists _, _. split; [reflexivity|]. auto. }
    destruct (c_sz c =? 0).
    { eexists _, _. split; [reflexivity|]. cbn [with_store vlen]. auto. }
    change (0 =? 0) with true. cbv iota.
    eexists _, _. split; [reflexivity|]. cbn [with_store vlen]. auto.
  - eexists _, _. split; [reflexivity|]. auto.
  - eexists _, _. split; [reflexivity|]. auto.
  - eexists _, _. split; [reflexivity|]. auto.
  - unfold emitv. cbn [fst snd]. eexists _, _. split; [reflexivity|]. auto.
Qed.

Lemma drop_vec_empty c v u :
  vlen v = 0 ->
  exists v' u', drop_vec c (v, u) = Ok tt (v', u') /\ vlen v' = 0 /\
    unext u' = unext u /\ ufuse u' = ufuse u /\ uevents u' = uevents u.
Proof.
  intros Hl. unfold drop_vec.
  assert (Ec : clear c (v, u) = Ok tt (with_len 0 v, u)).
  { unfold clear, bind, getv, setv. cbn [fst snd]. rewrite Hl.
    change (N.to_nat 0) with 0%nat. cbn [drop_loop]. destruct (c_dg c); reflexivity. }
  rewrite (bind_ok _ _ _ _ _ (unwinding_ok _ _ _ _ _ Ec)).
  destruct (mem_drop_ok c (with_len 0 v) u) as (v' & u' & E & H1 & H2).
  exists v', u'. split; [exact E|]. split; [rewrite H1; reflexivity|exact H2].
Qed.

Theorem clone_vec_ok c src u xs v0 :
  cfg_wf c -> bk_wf (vbk src) -> backend_consistent c src -> Rep c src xs -> ufuse u = None ->
  (* the contents fit a fresh backend of the same kind *)
  (fixed_backend (vbk src) \/ (N.of_nat (length xs) <= usize_max /\
      c_sz c * grow_target {| vlen := 0; vcap := 0; vmem := []; vgen := 0; vbk := vbk src |} (N.of_nat (length xs)) <= alloc_limit)) ->
  let ys := fresh_ids c (unext u) (length xs) in
  exists v' u',
    clone_vec c src (v0, u) = Ok tt (v', u') /\
    Rep c v' ys /\ vbk v' = vbk src /\ length ys = length xs /\
    unext u' = unext u + N.of_nat (length xs) /\ ufuse u' = None /\
    uevents u' = rev (clone_events xs ys) ++ uevents u /\
    (fixed_backend (vbk src) -> vcap v' = vcap src).
Proof.
  intros Hwf Hbw Hbc HR Hf Hfit ys.
  destruct (clone_prepare c src u xs v0 Hwf Hbw Hbc HR Hfit)
    as (vb & ub & v1 & u1 & Eb & Er & HR1 & Hc1 & Hbk1 & Hn1 & Hf1 & He1 & Hfc1).
  pose proof (rep_len _ _ _ HR) as Hlen.
  pose proof (rep_len _ _ _ HR1) as Hl1. cbn [length N.of_nat] in Hl1.
  destruct (clone_loop_run c src xs [] [] v1 u1) as (m' & u2 & El & Hlm & Hh & Hn2 & Hf2 & Hlog).
  { cbn [app]. apply rep_held. exact HR. }
  { apply (rep_tok _ _ _ HR). }
  { reflexivity. }
  { unfold Held. reflexivity. }
  { apply (rep_store _ _ _ HR1). }
  { cbn [length Nat.add]. exact Hc1. }
  { congruence. }
  cbn [length app] in El, Hh. rewrite Hn1 in Hh, Hlog, Hn2. fold ys in Hh, Hlog.
  unfold clone_vec. bstep Eb.
  exists (with_len (vlen src) (with_mem m' v1)), u2. split.
  - apply unwinding_ok. bstep Er. rewrite Hlen, Nat2N.id. bstep El. reflexivity.
  - split; [|split; [|split; [|split; [|split; [|split]]]]].
    + apply rep_of_held; cbn [with_len with_mem vlen vcap].
      * unfold ys. rewrite fresh_ids_length. exact Hlen.
      * lia.
      * apply (rep_usize _ _ _ HR1).
      * unfold store_ok. cbn [with_len with_mem vcap vmem]. rewrite Hlm.
        apply (rep_store _ _ _ HR1).
      * exact Hh.
      * apply fresh_ids_tok_ok.
    + cbn [with_len with_mem vbk]. exact Hbk1.
    + apply fresh_ids_length.
    + exact Hn2.
    + exact Hf2.
    + unfold uevents in *. rewrite Hlog, uevents_clones, He1. reflexivity.
    + cbn [with_len with_mem vcap]. exact Hfc1.
Qed.

(** the k-th Clone panics: the prototype is dropped (destroying the clones already made
    when the type has drop glue is NOT done: its len is still 0, they leak), the source
    is untouched because it is not part of the state at all *)
Theorem clone_vec_panics c src u xs v0 k :
  cfg_wf c -> bk_wf (vbk src) -> backend_consistent c src -> Rep c src xs ->
  ufuse u = Some (N.of_nat k) -> (k < length xs)%nat ->
  (fixed_backend (vbk src) \/ (N.of_nat (length xs) <= usize_max /\
      c_sz c * grow_target {| vlen := 0; vcap := 0; vmem := []; vgen := 0; vbk := vbk src |} (N.of_nat (length xs)) <= alloc_limit)) ->
  exists v' u',
    clone_vec c src (v0, u) = Panic PUser (v', u') /\
    vlen v' = 0 /\ ufuse u' = None /\
    uevents u' = rev (clone_events (firstn k xs) (fresh_ids c (unext u) k)) ++ uevents u /\
    unext u' = unext u + N.of_nat k.
Proof.
  intros Hwf Hbw Hbc HR Hf Hk Hfit.
  destruct (clone_prepare c src u xs v0 Hwf Hbw Hbc HR Hfit)
    as (vb & ub & v1 & u1 & Eb & Er & HR1 & Hc1 & Hbk1 & Hn1 & Hf1 & He1 & Hfc1).
  pose proof (rep_len _ _ _ HR) as Hlen.
  pose proof (rep_len _ _ _ HR1) as Hl1. cbn [length N.of_nat] in Hl1.
  destruct (clone_loop_fuse c src xs [] v1 u1 k) as (m' & u2 & El & Hf2 & Hlog & Hnx2).
  { cbn [app]. apply rep_held. exact HR. }
  { apply (rep_tok _ _ _ HR). }
  { apply (rep_store _ _ _ HR1). }
  { cbn [length Nat.add]. exact Hc1. }
  { congruence. }
  { exact Hk. }
  cbn [length] in El. rewrite Hn1 in Hlog.
  destruct (drop_vec_empty c (with_mem m' v1) (disarm u2)) as (v' & u' & Ed & Hl' & Hn' & Hf' & He').
  { cbn [with_mem vlen]. exact Hl1. }
  unfold clone_vec. bstep Eb.
  unfold unwinding_st, on_unwind.
  assert (Ebody : (reserve c (vlen src);;
                   clone_loop c (vmem src) 0 (N.to_nat (vlen src));;
                   setv (with_len (vlen src))) (vb, ub) = Panic PUser (with_mem m' v1, u2)).
  { bstep Er. apply bind_panic. rewrite Hlen, Nat2N.id. exact El. }
  rewrite Ebody. unfold quiet_st. cbn [fst snd]. rewrite Ed.
  eexists _, _. split; [reflexivity|]. cbn [fst snd].
  split; [exact Hl'|]. split; [exact Hf2|]. split.
  - unfold uevents in *. cbn [ulog disarm] in *. rewrite He', Hlog, uevents_clones, He1.
    reflexivity.
  - cbn [unext]. rewrite Hn'. cbn [disarm unext]. rewrite Hnx2, Hn1. reflexivity.
Qed.

