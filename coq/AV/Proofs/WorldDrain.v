(** * Drains whose items are moved into other vectors or forgotten, inside histories.

    While a [Drain] is alive its vector shows only the elements in front of the range; every other vector of the
    world may receive the items one by one.  The refinement invariant of the walk therefore carries the list state of
    the OTHER vectors along ([WalkM]), and a refused move (full fixed backend, insertion index out of range) is a
    panic in the middle of the walk: the value is destroyed once and the unwinding drops the iterator where it
    stands ([WStop]). *)
From AV.Model Require Import Base Bytes Vec Ops Interp.
From AV.Spec Require Import VecSpec.
From AV.Proofs Require Import MemLemmas Rep VecProofs TempProofs RangeProofs CapProofs CloneProofs NoFault HandleProofs FaultProofs.
From AV.Spec Require Import WorldSpec.
From AV.Proofs Require Import WorldCore WorldSplice.
Arguments N.add : simpl never.
Arguments N.sub : simpl never.
Arguments N.mul : simpl never.

(** the allocator can serve every move of the pattern *)
Definition adm_pat (c : cfg) (w : world) (vid : nat) (pat : list (bool * sink)) : Prop :=
  forall d, d <> vid -> adm_many c w d (pat_count pat d).

Lemma sink_count_notin sk d : ~ In d (sink_dsts sk) -> sink_count sk d = 0.
Proof.
  induction sk as [| |d0|d0 j0| |k IH|n0 d0 k IH|n0 k IH|]; cbn [sink_dsts sink_count In]; intros H; try reflexivity; auto.
  - destruct (Nat.eqb_spec d0 d); [exfalso; apply H; left; assumption|reflexivity].
  - destruct (Nat.eqb_spec d0 d); [exfalso; apply H; left; assumption|reflexivity].
  - destruct (Nat.eqb_spec d0 d) as [|_]; [exfalso; apply H; left; assumption|].
    rewrite IH; [reflexivity|]. intros X. apply H. right. exact X.
Qed.
Lemma pat_count_notin pat d : ~ In d (pat_dsts pat) -> pat_count pat d = 0.
Proof.
  induction pat as [|[fr sk] pat IH]; cbn [pat_dsts pat_count]; intros H; [reflexivity|].
  rewrite in_app_iff in H. rewrite sink_count_notin, IH; [reflexivity| |]; intros X; apply H; [right|left]; exact X.
Qed.
Lemma adm_pat_of c w vid pat :
  (forall d, In d (pat_dsts pat) -> adm_many c w d (pat_count pat d)) -> adm_pat c w vid pat.
Proof.
  intros H d _. destruct (in_dec Nat.eq_dec d (pat_dsts pat)) as [Hin|Hnin]; [apply H; exact Hin|].
  rewrite (pat_count_notin pat d Hnin). intros vv _. split; intros; lia.
Qed.

Lemma roomy_le c vv m m' : m' <= m -> roomy c vv m -> roomy c vv m'.
Proof.
  intros Hle [Hf|(Hr & H1 & H2)]; [left; exact Hf|right]. split; [exact Hr|]. split; [lia|].
  apply (N.le_trans _ (c_sz c * (2 * (vlen vv + m) + 2))); [|exact H2].
  apply N.mul_le_mono_l. lia.
Qed.
Lemma adm_many_le c w d m m' : m' <= m -> adm_many c w d m -> adm_many c w d m'.
Proof.
  intros Hle H vv Hg. destruct (H vv Hg) as [H1 H2]. split.
  - intros Hm. apply H1. lia.
  - intros Hm. apply (roomy_le c vv m m' Hle). apply H2. lia.
Qed.
Lemma adm_many_same c w w' d m : get_vec d w' = get_vec d w -> adm_many c w d m -> adm_many c w' d m.
Proof. intros E H vv Hg. apply H. rewrite <- E. exact Hg. Qed.

Lemma put_vec_id vid wl W : get_vec vid W = Some wl -> put_vec vid (Some wl) (wuw W) W = W.
Proof.
  intros Hg. unfold put_vec. destruct W as [l u]. cbn [wv wuw]. f_equal.
  apply set_nth_id. unfold get_vec in Hg. cbn [wv] in Hg.
  destruct (nth_error l vid) as [[x|]|]; try discriminate. injection Hg as ->. reflexivity.
Qed.

Lemma unwinding_ok_inv {A} (m : M world A) cl w a w' : unwinding m cl w = Ok a w' -> m w = Ok a w'.
Proof.
  unfold unwinding, on_unwind. destruct (m w) as [x w1|p w1|f]; intros H; try discriminate.
  - exact H.
  - destruct (quiet cl w1); discriminate.
Qed.
Lemma seq_ret_inv {A} (m : M world unit) (x : A) w y w' : (m;; ret x) w = Ok y w' -> m w = Ok tt w' /\ y = x.
Proof.
  unfold bind, ret. destruct (m w) as [[] w1|p w1|f]; intros H; try discriminate. injection H as <- <-. split; reflexivity.
Qed.

(** what a panic that unwinds through the iterator leaves: the cleanup runs (quietly), then the panic goes on *)
Definition unwound {A} (p : panic) (cl : M world unit) (w1 : world) : res world A :=
  match quiet cl w1 with
  | Ok _ w2 => Panic p w2
  | Panic _ _ => Fault FAbort
  | Fault f => Fault f
  end.
Lemma bind_unwound {A B} (m : M world A) (f : A -> M world B) w p cl w1 :
  m w = unwound p cl w1 -> bind m f w = unwound p cl w1.
Proof. intros H. unfold bind. rewrite H. unfold unwound. destruct (quiet cl w1); reflexivity. Qed.
Lemma unwinding_panic {A} (m : M world A) cl w p w1 : m w = Panic p w1 -> unwinding m cl w = unwound p cl w1.
Proof. intros H. unfold unwinding, on_unwind, unwound. rewrite H. reflexivity. Qed.


Lemma put_value_length c b di t ys' : put_value c b di t = inl ys' -> length ys' = S (length (a_xs b)).
Proof.
  unfold put_value. destruct di as [j|].
  - destruct (N.of_nat (length (a_xs b)) <? j) eqn:Hj; [discriminate|]. apply N.ltb_ge in Hj. destruct (full c b); [discriminate|].
    intros H. injection H as <-. unfold sp_insert. rewrite app_length. cbn [length]. rewrite firstn_length, skipn_length. lia.
  - destruct (full c b); [discriminate|]. intros H. injection H as <-. unfold sp_push. rewrite app_length. cbn [length]. lia.
Qed.

(** one more value went into vector [d]: the allowance for the remaining moves *)
Lemma adm_after_push c ww ww' d dv0 dv ys m :
  get_vec d ww = Some dv0 -> get_vec d ww' = Some dv -> vlen dv = vlen dv0 + 1 -> vbk dv = vbk dv0 -> Rep c dv ys ->
  adm_many c ww d (1 + m) -> adm_many c ww' d m.
Proof.
  intros Hg0 Hg Hl Hb HRd Hadm dv' Hg'. rewrite Hg in Hg'. injection Hg' as <-.
  destruct (Hadm dv0 Hg0) as [_ Hroom].
  assert (Hr' : 1 <= m -> roomy c dv m).
  { intros Hm. replace m with (1 + m - 1) by lia.
    apply (roomy_pushed c dv0 dv (1 + m)); [apply Hroom; lia|lia|exact Hl|exact Hb]. }
  split.
  - intros Hm. apply (roomy_can_take c dv ys m HRd (Hr' Hm)).
  - intros Hm. apply Hr'. lia.
Qed.

Section DrainMv.
Variables (c : cfg) (w : world) (vid : nat) (av : avec) (vv : vec) (s e : nat) (a : api).
Hypothesis Hwf : cfg_wf c.
Hypothesis HV : VI c vv av.
Hypothesis Hse : (s <= e)%nat.
Hypothesis Hel : (e <= length (a_xs av))%nat.
Let xs := a_xs av.
Let vr := with_len (N.of_nat s) vv.
Let hid := with_xs av (firstn s xs).

(** worlds met while the iterator is alive: slot [vid] holds [vr] - which shows the prefix in front of the range -
    and the whole world represents the list state [stw] *)
Record WalkM (ww : world) (stw : astate) (evs : list event) : Prop := {
  wm_rep : WRep c ww stw;
  wm_nx : unext (wuw w) <= unext (wuw ww);
  wm_fuse : ufuse (wuw ww) = None;
  wm_evs : uevents (wuw ww) = rev evs ++ uevents (wuw w);
  wm_vec : get_vec vid ww = Some vr;
  wm_a : get_a vid stw = Some hid
}.

Lemma walkm_base ww stw evs : WalkM ww stw evs -> Walking ww vid vv s ww [].
Proof. intros [HR Hn Hf He Hv Ha]. constructor; auto. Qed.

Lemma walkm_after ww stw evs ww' evs' :
  WalkM ww stw evs -> Walking ww vid vv s ww' evs' -> WalkM ww' stw (evs ++ evs').
Proof.
  intros [HR Hn Hf He Hv Ha] [Hv' Ho' Hn' Hf' He']. constructor; auto.
  - intros n. destruct (Nat.eq_dec n vid) as [->|Hne].
    + rewrite get_vec_slot in Hv, Hv'. pose proof (HR vid) as Hs. rewrite Hv in Hs. rewrite Hv'. exact Hs.
    + rewrite (Ho' n Hne). apply HR.
  - rewrite Hn'. exact Hn.
  - rewrite He', He, rev_app_distr, app_assoc. reflexivity.
Qed.

Lemma walkm_others ww ww' evs' n : Walking ww vid vv s ww' evs' -> n <> vid -> get_vec n ww' = get_vec n ww.
Proof. intros H Hne. rewrite !get_vec_slot. apply (wk_other _ _ _ _ _ _ H n Hne). Qed.

Lemma walkm_read ww stw evs idx :
  WalkM ww stw evs -> (s <= idx)%nat -> (idx < e)%nat ->
  on_vec vid (read_ptr c (ptr_at c vr (N.of_nat idx))) ww = Ok (enc (szn c) (nth idx xs 0)) ww.
Proof.
  intros Hwk Hsi Hie.
  pose proof (item_read c ww vid av vv s e HV Hse Hel ww [] idx (walkm_base _ _ _ Hwk) Hsi Hie) as E.
  fold vr in E. rewrite (put_vec_id vid vr ww (wm_vec _ _ _ Hwk)) in E. exact E.
Qed.

(** the unwinding destroys the item: Element::drop *)
Lemma item_drop_quiet ww stw evs idx :
  WalkM ww stw evs -> (s <= idx)%nat -> (idx < e)%nat ->
  exists ww', quiet (on_vec vid (elem_drop c (ptr_at c vr (N.of_nat idx)))) ww = Ok tt ww' /\
              Walking ww vid vv s ww' (drop_ev c (nth idx xs 0)).
Proof.
  intros Hwk Hsi Hie.
  destruct (item_sink_spec c ww vid av vv s e Erased HV Hse Hel ww [] idx KDrop [] (ret tt) (walkm_base _ _ _ Hwk) Hsi Hie eq_refl)
    as (ww' & E1 & Hwk').
  apply unwinding_ok_inv in E1. fold xs in E1, Hwk'. fold vr in E1.
  cbn [item_sink] in E1. apply seq_ret_inv in E1. destruct E1 as [E1 _].
  exists ww'. split; [|exact Hwk'].
  apply quiet_none; [exact (wm_fuse _ _ _ Hwk)|exact E1|apply (wk_fuse _ _ _ _ _ _ Hwk')].
Qed.

Definition move_to (dst : nat) (di : option N) : sink :=
  match di with None => KPush dst | Some j => KIns dst j end.

(** the item is offered to another vector *)
Lemma item_move ww stw evs idx dst b di :
  WalkM ww stw evs -> (s <= idx)%nat -> (idx < e)%nat -> dst <> vid -> get_a dst stw = Some b ->
  adm_vec c ww dst ->
  let t := nth idx xs 0 in
  match put_value c b di t with
  | inl ys' => exists ww', item_sink c vid a (ptr_at c vr (N.of_nat idx)) (move_to dst di) ww = Ok [] ww' /\
                 WalkM ww' (set_a dst (Some (with_xs b ys')) stw) evs /\ unext (wuw ww') = unext (wuw ww) /\
                 (forall n, n <> dst -> get_vec n ww' = get_vec n ww)
  | inr p => exists ww', item_sink c vid a (ptr_at c vr (N.of_nat idx)) (move_to dst di) ww = Panic p ww' /\
                 WalkM ww' stw (evs ++ drop_ev c t) /\ unext (wuw ww') = unext (wuw ww)
  end.
Proof.
  intros Hwk Hsi Hie Hne Hgb Hadm t.
  pose proof (item_tok c av vv s e HV Hse Hel idx Hie) as Htok. fold xs in Htok. fold t in Htok.
  pose proof (walkm_read ww stw evs idx Hwk Hsi Hie) as Eread. fold t in Eread.
  pose proof Hwk as Hwk_.
  destruct Hwk as [HR Hn Hf He Hv Ha].
  destruct (wrep_get c ww stw dst b HR Hgb) as (dv & Hgd & HVd).
  pose proof (raw_action_spec c dv b (wuw ww) di t (match a with Typed => true | Erased => false end) Hwf HVd Htok (Hadm dv Hgd)) as Hspec.
  set (p0 := ptr_at c vr (N.of_nat idx)) in *.
  set (o := match a with
            | Erased => {| f_ty := c_ty c; f_src := VBytes (enc (szn c) t) false; f_checked := true; f_drop := DElem vid p0 |}
            | Typed => {| f_ty := c_ty c; f_src := VBytes (enc (szn c) t) true; f_checked := false; f_drop := DOwned t |}
            end).
  assert (Hsink : item_sink c vid a p0 (move_to dst di) ww = (offer_into c dst o (raw_action c di);; ret []) ww).
  { unfold o. destruct di as [j|]; destruct a; cbn [move_to item_sink raw_action];
      rewrite (bind_ok _ _ _ _ _ Eread); try reflexivity;
      unfold bind at 1; unfold decode; rewrite (dec_enc _ _ Htok); reflexivity. }
  assert (Hty : f_ty o = c_ty c) by (unfold o; destruct a; reflexivity).
  assert (Hsrc : f_src o = VBytes (enc (szn c) t) (match a with Typed => true | Erased => false end))
    by (unfold o; destruct a; reflexivity).
  assert (Hfin : finish_offer c o = ret tt) by (unfold o, finish_offer; destruct a; reflexivity).
  rewrite Hsink. unfold offer_into, unwinding.
  destruct (put_value c b di t) as [ys'|p].
  - destruct Hspec as (dv' & u' & E & HVd' & Hsu).
    destruct (same_user_events _ _ Hsu) as (He' & Hn' & Hf').
    exists (put_vec dst (Some dv') u' ww). split; [|split; [|split]].
    + unfold bind at 1. unfold bind at 1. unfold on_unwind. rewrite offer_check_pass by exact Hty.
      rewrite Hsrc. rewrite (on_vec_ok dst _ ww dv tt dv' u' Hgd E). rewrite Hfin. reflexivity.
    + constructor.
      * apply wrep_put; [exact HR|exact HVd'].
      * rewrite wuw_put. rewrite Hn'. exact Hn.
      * rewrite wuw_put. congruence.
      * rewrite wuw_put. rewrite He'. exact He.
      * rewrite get_vec_put_other by (intros X; apply Hne; symmetry; exact X). exact Hv.
      * rewrite get_a_set_other by (intros X; apply Hne; symmetry; exact X). exact Ha.
    + rewrite wuw_put. exact Hn'.
    + intros n Hnd. apply get_vec_put_other. exact Hnd.
  - (* refused: the value is destroyed, once *)
    assert (Ew3 : put_vec dst (Some dv) (wuw ww) ww = ww) by (apply put_vec_id; exact Hgd).
    assert (Hdrop : exists ww', quiet (drop_offer c o) ww = Ok tt ww' /\
              Walking ww vid vv s ww' (drop_ev c t)).
    { destruct a.
      - (* erased: Element::drop *)
        exact (item_drop_quiet ww stw evs idx Hwk_ Hsi Hie).
      - destruct (quiet_drop_fresh c o t ww (or_introl eq_refl)) as (ww' & Eq & Hwv & Hn1 & Hf1 & He1).
        exists ww'. split; [exact Eq|]. constructor.
        + rewrite get_vec_slot, Hwv, <- get_vec_slot. exact Hv.
        + intros n _. rewrite Hwv. reflexivity.
        + exact Hn1.
        + rewrite Hf1. exact Hf.
        + exact He1. }
    destruct Hdrop as (ww' & Eq & Hwk').
    exists ww'. split; [|split].
    + unfold bind at 1. unfold bind at 1. unfold on_unwind. rewrite offer_check_pass by exact Hty.
      rewrite Hsrc. rewrite (on_vec_panic dst _ ww dv p dv (wuw ww) Hgd Hspec). rewrite Ew3, Eq. reflexivity.
    + apply (walkm_after ww stw evs ww' (drop_ev c t) Hwk_ Hwk').
    + apply (wk_nx _ _ _ _ _ _ Hwk').
Qed.

(** [n] lazy clones of the item downcast: a new value each, destroyed by the caller *)
Lemma item_lazy_downs ww stw evs idx :
  WalkM ww stw evs -> (s <= idx)%nat -> (idx < e)%nat -> forall m u, ufuse u = None ->
  lazy_downs c vid m (on_vec vid (read_ptr c (ptr_at c vr (N.of_nat idx)))) (put_vec vid (Some vr) u ww)
  = Ok (next_ids c (unext u) m) (put_vec vid (Some vr) (lazy_uw c (nth idx xs 0) u m) ww).
Proof.
  intros Hwk Hsi Hie. set (t := nth idx xs 0).
  pose proof (item_tok c av vv s e HV Hse Hel idx Hie) as Ht. fold xs in Ht. fold t in Ht.
  assert (Hrd : forall u, read_ptr c (ptr_at c vr (N.of_nat idx)) (vr, u) = Ok (enc (szn c) t) (vr, u)).
  { intros u. assert (Hp : ptr_at c vr (N.of_nat idx) = ptr_at c vv (N.of_nat idx)) by reflexivity.
    rewrite Hp. unfold vr. rewrite read_ptr_with_len.
    rewrite (read_elem c vv u xs idx (vi_rep _ _ _ HV)) by (unfold xs in *; lia). reflexivity. }
  induction m as [|m IHm]; intros u Hfu.
  - reflexivity.
  - cbn [lazy_downs lazy_uw].
    rewrite (bind_ok _ _ _ _ _ (on_vec_ok vid _ _ vr _ vr u (get_vec_put_same _ _ _ _) (Hrd u))).
    rewrite put_put_same.
    unfold lazy_down. unfold bind at 1. unfold bind at 1. unfold decode. rewrite (dec_enc _ _ Ht). unfold ret at 1.
    rewrite (bind_ok _ _ _ _ _ (on_vec_ok vid _ _ vr tt vr u (get_vec_put_same _ _ _ _) (user_call_ok vr u Hfu))).
    rewrite put_put_same.
    match goal with |- match ?X (put_vec vid (Some vr) u ww) with _ => _ end = _ =>
      assert (Estep : X (put_vec vid (Some vr) u ww) = Ok (tok c (unext u)) (put_vec vid (Some vr) (lazy_step c t u) ww))
    end.
    { unfold bind, freshw, emitw, harness_drop, ret, lazy_step, put_vec, tok. cbn [wuw wv ulog unext ufuse emit].
      destruct (c_dg c); cbn [app]; reflexivity. }
    rewrite Estep.
    rewrite (bind_ok _ _ _ _ _ (IHm (lazy_step c t u) Hfu)). unfold ret.
    assert (En : next_ids c (unext u) (S m) = tok c (unext u) :: next_ids c (unext u + 1) m).
    { unfold next_ids. cbn [seq map]. rewrite N.add_0_r. f_equal.
      rewrite <- seq_shift, map_map. apply map_ext. intros j. f_equal. lia. }
    rewrite En. reflexivity.
Qed.

(** one item, whatever is done with it *)
Lemma item_mv_spec idx : (s <= idx)%nat -> (idx < e)%nat -> forall sk ww stw evs,
  WalkM ww stw evs ->
  (forall d, d <> vid -> adm_many c ww d (sink_count sk d)) ->
  let t := nth idx xs 0 in
  match sp_item c vid stw (unext (wuw ww)) t sk with
  | None => True
  | Some (inl (out, evs0, st1, lost0, nx1)) =>
      exists ww', item_sink c vid a (ptr_at c vr (N.of_nat idx)) sk ww = Ok out ww' /\ WalkM ww' st1 (evs ++ evs0) /\
        unext (wuw ww') = nx1 /\
        (forall d m, d <> vid -> adm_many c ww d (sink_count sk d + m) -> adm_many c ww' d m)
  | Some (inr (p, evs0, st1, nx1)) =>
      exists ww', item_sink c vid a (ptr_at c vr (N.of_nat idx)) sk ww = Panic p ww' /\ WalkM ww' st1 (evs ++ evs0) /\
        unext (wuw ww') = nx1
  end.
Proof.
  intros Hsi Hie. set (t := nth idx xs 0). set (p0 := ptr_at c vr (N.of_nat idx)).
  assert (Hsimple : forall sk ww stw evs out, WalkM ww stw evs ->
            match sk with KDrop | KSkip => Some [] | KDown => Some [t] | _ => None end = Some out ->
            exists ww', item_sink c vid a p0 sk ww = Ok out ww' /\ WalkM ww' stw (evs ++ drop_ev c t) /\
              unext (wuw ww') = unext (wuw ww) /\
              (forall d m, d <> vid -> adm_many c ww d (sink_count sk d + m) -> adm_many c ww' d m)).
  { intros sk ww stw evs out Hwk Hout.
    destruct (item_sink_spec c ww vid av vv s e a HV Hse Hel ww [] idx sk out (ret tt) (walkm_base _ _ _ Hwk) Hsi Hie Hout)
      as (ww' & E1 & Hwk').
    apply unwinding_ok_inv in E1. exists ww'. split; [exact E1|]. split; [|split].
    - apply (walkm_after ww stw evs ww' _ Hwk Hwk').
    - apply (wk_nx _ _ _ _ _ _ Hwk').
    - intros d m Hd Hm. apply (adm_many_same c ww ww' d m (walkm_others ww ww' _ d Hwk' Hd)).
      apply (adm_many_le c ww d (sink_count sk d + m)); [lia|exact Hm]. }
  assert (Hmove : forall dst di ww stw evs, WalkM ww stw evs ->
            (forall d, d <> vid -> adm_many c ww d (sink_count (move_to dst di) d)) ->
            match sp_item c vid stw (unext (wuw ww)) t (move_to dst di) with
            | None => True
            | Some (inl (out, evs0, st1, lost0, nx1)) =>
                exists ww', item_sink c vid a p0 (move_to dst di) ww = Ok out ww' /\ WalkM ww' st1 (evs ++ evs0) /\
                  unext (wuw ww') = nx1 /\
                  (forall d m, d <> vid -> adm_many c ww d (sink_count (move_to dst di) d + m) -> adm_many c ww' d m)
            | Some (inr (p, evs0, st1, nx1)) =>
                exists ww', item_sink c vid a p0 (move_to dst di) ww = Panic p ww' /\ WalkM ww' st1 (evs ++ evs0) /\
                  unext (wuw ww') = nx1
            end).
  { intros dst di ww stw evs Hwk Hadm.
    assert (Hsp : sp_item c vid stw (unext (wuw ww)) t (move_to dst di)
                  = if Nat.eqb dst vid then None
                    else match get_a dst stw with
                         | None => None
                         | Some b => match put_value c b di t with
                                     | inl ys' => Some (inl ([], [], set_a dst (Some (with_xs b ys')) stw, [], unext (wuw ww)))
                                     | inr p => Some (inr (p, drop_ev c t, stw, unext (wuw ww)))
                                     end
                         end) by (destruct di; reflexivity).
    rewrite Hsp. clear Hsp.
    assert (Hcnt : forall d, sink_count (move_to dst di) d = if Nat.eqb dst d then 1 else 0) by (intros d; destruct di; reflexivity).
    destruct (Nat.eqb_spec dst vid) as [|Hne]; [exact I|].
    destruct (get_a dst stw) as [b|] eqn:Hgb; [|exact I].
    assert (Hav : adm_vec c ww dst).
    { apply (adm_many_vec c ww dst 1); [lia|]. specialize (Hadm dst Hne). rewrite Hcnt, Nat.eqb_refl in Hadm. exact Hadm. }
    pose proof (item_move ww stw evs idx dst b di Hwk Hsi Hie Hne Hgb Hav) as H. cbv zeta in H. fold t in H. fold p0 in H.
    destruct (put_value c b di t) as [ys'|p] eqn:Epv.
    - destruct H as (ww' & E1 & Hwk' & Hnx' & Hoth). exists ww'. split; [exact E1|]. split; [rewrite app_nil_r; exact Hwk'|].
      split; [exact Hnx'|].
      intros d m Hd Hm. rewrite Hcnt in Hm. destruct (Nat.eqb_spec dst d) as [<-|Hdd].
      + destruct (wrep_get c ww stw dst b (wm_rep _ _ _ Hwk) Hgb) as (dv0 & Hg0 & HV0).
        destruct (wrep_get c ww' _ dst _ (wm_rep _ _ _ Hwk') (get_a_set_same dst _ stw)) as (dv2 & Hg2 & HV2).
        pose proof (rep_len _ _ _ (vi_rep _ _ _ HV0)) as L0. pose proof (rep_len _ _ _ (vi_rep _ _ _ HV2)) as L2.
        cbn [with_xs a_xs] in L2.
        apply (adm_after_push c ww ww' dst dv0 dv2 ys' m Hg0 Hg2); [|rewrite (vi_bk _ _ _ HV2), (vi_bk _ _ _ HV0); reflexivity|exact (vi_rep _ _ _ HV2)|exact Hm].
        rewrite L2, L0, (put_value_length c b di t ys' Epv). lia.
      + apply (adm_many_same c ww ww' d m (Hoth d (fun X => Hdd (eq_sym X)))).
        apply (adm_many_le c ww d (0 + m)); [lia|exact Hm].
    - destruct H as (ww' & E1 & Hwk' & Hnx'). exists ww'. split; [exact E1|]. split; [exact Hwk'|exact Hnx']. }
  induction sk as [| |dst|dst j| |sk' IH|n0 dst sk' IH|n0 sk' IH|]; intros ww stw evs Hwk Hadm; cbv zeta.
  - (* KDrop *) cbn [sp_item]. destruct (Hsimple KDrop ww stw evs [] Hwk eq_refl) as (ww' & E & H1 & H2 & H3). exists ww'. auto.
  - (* KDown *) cbn [sp_item]. destruct (Hsimple KDown ww stw evs [t] Hwk eq_refl) as (ww' & E & H1 & H2 & H3). exists ww'. auto.
  - exact (Hmove dst None ww stw evs Hwk Hadm).
  - exact (Hmove dst (Some j) ww stw evs Hwk Hadm).
  - (* KForget *)
    cbn [sp_item]. exists ww. split; [reflexivity|]. split; [rewrite app_nil_r; exact Hwk|]. split; [reflexivity|].
    intros d m Hd Hm. apply (adm_many_le c ww d (sink_count KForget d + m)); [lia|exact Hm].
  - (* KMut *) exact I.
  - (* KLazy: lazy clones of the item go into another vector first *)
    cbn [sp_item]. fold t.
    destruct (Nat.eqb_spec dst vid) as [|Hne]; [exact I|].
    destruct (get_a dst stw) as [ad|] eqn:Hgd; [|exact I].
    pose proof (item_tok c av vv s e HV Hse Hel idx Hie) as Ht. fold xs in Ht. fold t in Ht.
    destruct (wrep_get c ww stw dst ad (wm_rep _ _ _ Hwk) Hgd) as (vd & Hgvd & HVd).
    assert (Hbytes : forall u, read_ptr c p0 (vr, u) = Ok (enc (szn c) t) (vr, u)).
    { intros u. assert (Hp : p0 = ptr_at c vv (N.of_nat idx)) by reflexivity.
      rewrite Hp. unfold vr. rewrite read_ptr_with_len.
      rewrite (read_elem c vv u xs idx (vi_rep _ _ _ HV)) by (unfold xs in *; lia). reflexivity. }
    assert (HI : LoopInv c vid dst vr ww ww ad vd).
    { constructor; [exact (wm_vec _ _ _ Hwk)|exact Hgvd|exact HVd|intros; reflexivity|exact (wm_fuse _ _ _ Hwk)]. }
    (* the loop, for any allowance [m] beyond the item's own moves *)
    assert (Hloop : forall m, adm_many c ww dst (n0 + sink_count sk' dst + m) ->
              exists W' vd',
                LoopInv c vid dst vr ww W' (fst (fst (fst (sp_lazy_pushes c ad t (unext (wuw ww)) (N.to_nat n0))))) vd' /\
                unext (wuw W') = snd (fst (sp_lazy_pushes c ad t (unext (wuw ww)) (N.to_nat n0))) /\
                uevents (wuw W') = rev (snd (fst (fst (sp_lazy_pushes c ad t (unext (wuw ww)) (N.to_nat n0))))) ++ uevents (wuw ww) /\
                (let pushed := snd (fst (sp_lazy_pushes c ad t (unext (wuw ww)) (N.to_nat n0))) - unext (wuw ww) in
                 (1 <= n0 + sink_count sk' dst + m - pushed -> can_take c vd' 1) /\
                 (2 <= n0 + sink_count sk' dst + m - pushed -> roomy c vd' (n0 + sink_count sk' dst + m - pushed))) /\
                repeat_m (N.to_nat n0) (lazy_body c vid dst (read_ptr c p0)) ww
                = (if snd (sp_lazy_pushes c ad t (unext (wuw ww)) (N.to_nat n0)) then Ok tt W' else Panic PCapacity W')).
    { intros m Hm. destruct (Hm vd Hgvd) as [Hc1 Hc2].
      exact (lazy_push_loop c vid dst vr t (read_ptr c p0) ww Hwf Hne Ht Hbytes (N.to_nat n0) ww ad vd _ HI Hc1 Hc2 ltac:(lia)). }
    assert (Hm0 : adm_many c ww dst (n0 + sink_count sk' dst + 0)).
    { pose proof (Hadm dst Hne) as H. cbn [sink_count] in H. rewrite Nat.eqb_refl in H. rewrite N.add_0_r. exact H. }
    destruct (Hloop 0 Hm0) as (W' & vd' & HI' & Hnx' & Hev' & _ & Erun).
    destruct (sp_lazy_pushes c ad t (unext (wuw ww)) (N.to_nat n0)) as [[[ad' evs1] nx'] ok] eqn:Esp.
    cbn [fst snd] in *.
    destruct (sp_lazy_pushes_nx c t _ _ _ _ _ _ _ Esp) as (Hge & _ & Hbk').
    destruct HI' as [Hv' Hd' HVd' Ho' Hf'].
    set (st1 := set_a dst (Some ad') stw) in *.
    assert (Hwk1 : WalkM W' st1 (evs ++ evs1)).
    { constructor.
      - intros j. unfold st1, set_a. rewrite slot_set_nth.
        destruct (Nat.eqb_spec j dst) as [->|Hj2].
        + rewrite <- get_vec_slot, Hd'. exact HVd'.
        + destruct (Nat.eq_dec j vid) as [->|Hj1].
          * rewrite <- get_vec_slot, Hv'. pose proof (wm_rep _ _ _ Hwk vid) as Hs.
            rewrite <- get_vec_slot, (wm_vec _ _ _ Hwk) in Hs. exact Hs.
          * rewrite (Ho' j Hj1 Hj2). apply (wm_rep _ _ _ Hwk).
      - rewrite Hnx'. pose proof (wm_nx _ _ _ Hwk). lia.
      - exact Hf'.
      - rewrite Hev', (wm_evs _ _ _ Hwk), rev_app_distr, app_assoc. reflexivity.
      - exact Hv'.
      - unfold st1. rewrite get_a_set_other by (intros X; apply Hne; symmetry; exact X). exact (wm_a _ _ _ Hwk). }
    assert (Hbody : item_sink c vid a p0 (KLazy n0 dst sk') ww
                    = (unwinding (repeat_m (N.to_nat n0) (lazy_body c vid dst (read_ptr c p0))) (on_vec vid (elem_drop c p0));;
                       item_sink c vid a p0 sk') ww) by reflexivity.
    rewrite Hbody. clear Hbody.
    (* the allowance of the other vectors after the loop *)
    assert (Hframe : forall d m, d <> vid -> adm_many c ww d (sink_count (KLazy n0 dst sk') d + m) ->
                       ok = true -> adm_many c W' d (sink_count sk' d + m)).
    { intros d m Hd Hm Hok. cbn [sink_count] in Hm. destruct (Nat.eqb_spec dst d) as [<-|Hdd].
      - rewrite <- N.add_assoc in Hm.
        assert (Hm' : adm_many c ww dst (n0 + sink_count sk' dst + m)) by (rewrite <- N.add_assoc; exact Hm).
        destruct (Hloop m Hm') as (W2 & vd2 & HI2 & _ & _ & Hadm2 & Erun2).
        cbn [fst snd] in Erun2, Hadm2, HI2. rewrite Hok in Erun, Erun2.
        rewrite Erun in Erun2. injection Erun2 as <-.
        pose proof (sp_lazy_pushes_ok c t _ _ _ _ _ _ (eq_trans Esp (f_equal _ Hok))) as Enx.
        intros vx Hgx. rewrite (li_d _ _ _ _ _ _ _ _ HI2) in Hgx. injection Hgx as <-.
        replace (sink_count sk' dst + m) with (n0 + sink_count sk' dst + m - (nx' - unext (wuw ww))) by lia.
        exact Hadm2.
      - rewrite N.add_0_l in Hm. intros vx Hgx. apply (Hm vx).
        rewrite !get_vec_slot in *. rewrite <- (Ho' d Hd (fun X => Hdd (eq_sym X))). exact Hgx. }
    destruct ok.
    + (* all clones went in: the rest of the sink *)
      rewrite (bind_ok _ _ _ _ _ (unwinding_okw _ _ _ _ _ Erun)).
      assert (Hadm1 : forall d, d <> vid -> adm_many c W' d (sink_count sk' d)).
      { intros d Hd. pose proof (Hframe d 0 Hd) as H. rewrite !N.add_0_r in H. apply H; [apply Hadm; exact Hd|reflexivity]. }
      pose proof (IH W' st1 (evs ++ evs1) Hwk1 Hadm1) as Hrest. cbv zeta in Hrest. fold t in Hrest. rewrite Hnx' in Hrest.
      destruct (sp_item c vid st1 nx' t sk') as [[[[[[out evs2] st2] lost2] nx2]|[[[p evs2] st2] nx2]]|]; [| |exact I].
      * destruct Hrest as (ww2 & E2 & Hwk2 & Hnx2 & Hfr2). exists ww2. split; [exact E2|]. split; [rewrite app_assoc; exact Hwk2|].
        split; [exact Hnx2|]. intros d m Hd Hm. apply (Hfr2 d m Hd). apply (Hframe d m Hd Hm eq_refl).
      * destruct Hrest as (ww2 & E2 & Hwk2 & Hnx2). exists ww2. split; [exact E2|]. split; [rewrite app_assoc; exact Hwk2|exact Hnx2].
    + (* a push was refused: the unwinding destroys the item *)
      destruct (item_drop_quiet W' st1 (evs ++ evs1) idx Hwk1 Hsi Hie) as (ww2 & Eq & Hwk2). fold p0 in Eq. fold t in Hwk2.
      exists ww2. split; [|split].
      * unfold bind. unfold unwinding, on_unwind. rewrite Erun, Eq. reflexivity.
      * rewrite app_assoc. apply (walkm_after W' st1 (evs ++ evs1) ww2 _ Hwk1 Hwk2).
      * rewrite (wk_nx _ _ _ _ _ _ Hwk2). exact Hnx'.
  - (* KLazyDown: lazy clones of the item are downcast first *)
    cbn [sp_item]. fold t.
    set (cnt := N.to_nat n0) in *.
    pose proof (item_lazy_downs ww stw evs idx Hwk Hsi Hie cnt (wuw ww) (wm_fuse _ _ _ Hwk)) as Hld. fold p0 in Hld. fold t in Hld.
    rewrite (put_vec_id vid vr ww (wm_vec _ _ _ Hwk)) in Hld.
    destruct (lazy_uw_facts c t cnt (wuw ww)) as (Hn1 & Hf1 & He1).
    set (u' := lazy_uw c t (wuw ww) cnt) in *.
    set (W' := put_vec vid (Some vr) u' ww) in *.
    set (cl := flat_map (fun id => EClone t id :: drop_ev c id) (next_ids c (unext (wuw ww)) cnt)) in *.
    assert (Hwk1 : WalkM W' stw (evs ++ cl)).
    { constructor.
      - apply (wrep_put_same c ww stw vid vr hid u' (wm_rep _ _ _ Hwk) (wm_a _ _ _ Hwk)).
        pose proof (wm_rep _ _ _ Hwk vid) as Hs. rewrite <- get_vec_slot, (wm_vec _ _ _ Hwk), <- get_a_slot, (wm_a _ _ _ Hwk) in Hs. exact Hs.
      - unfold W'. rewrite wuw_put, Hn1. pose proof (wm_nx _ _ _ Hwk). lia.
      - unfold W'. rewrite wuw_put, Hf1. exact (wm_fuse _ _ _ Hwk).
      - unfold W'. rewrite wuw_put, He1, (wm_evs _ _ _ Hwk), rev_app_distr, app_assoc. reflexivity.
      - apply get_vec_put_same.
      - exact (wm_a _ _ _ Hwk). }
    assert (Hnx1 : unext (wuw W') = unext (wuw ww) + n0) by (unfold W'; rewrite wuw_put, Hn1; unfold cnt; lia).
    assert (Hoth : forall d, d <> vid -> get_vec d W' = get_vec d ww) by (intros d Hd; unfold W'; apply get_vec_put_other; exact Hd).
    assert (Hadm1 : forall d, d <> vid -> adm_many c W' d (sink_count sk' d)).
    { intros d Hd. apply (adm_many_same c ww W' d _ (Hoth d Hd)). apply (Hadm d Hd). }
    pose proof (IH W' stw (evs ++ cl) Hwk1 Hadm1) as Hrest. cbv zeta in Hrest. fold t in Hrest. rewrite Hnx1 in Hrest.
    assert (Hbody : item_sink c vid a p0 (KLazyDown n0 sk') ww
                    = (do xs0 <- unwinding (lazy_downs c vid cnt (on_vec vid (read_ptr c p0))) (on_vec vid (elem_drop c p0));
                       do r <- item_sink c vid a p0 sk'; ret (xs0 ++ r)) ww) by reflexivity.
    rewrite Hbody. clear Hbody.
    rewrite (bind_ok _ _ _ _ _ (unwinding_okw _ _ _ _ _ Hld)).
    destruct (sp_item c vid stw (unext (wuw ww) + n0) t sk') as [[[[[[out evs2] st2] lost2] nx2]|[[[p evs2] st2] nx2]]|]; [| |exact I].
    + destruct Hrest as (ww2 & E2 & Hwk2 & Hnx2 & Hfr2). exists ww2. split; [|split; [|split]].
      * rewrite (bind_ok _ _ _ _ _ E2). reflexivity.
      * rewrite app_assoc. exact Hwk2.
      * exact Hnx2.
      * intros d m Hd Hm. apply (Hfr2 d m Hd). apply (adm_many_same c ww W' d _ (Hoth d Hd)). exact Hm.
    + destruct Hrest as (ww2 & E2 & Hwk2 & Hnx2). exists ww2. split; [|split].
      * rewrite (bind_panic _ _ _ _ _ E2). reflexivity.
      * rewrite app_assoc. exact Hwk2.
      * exact Hnx2.
  - (* KSkip *) cbn [sp_item]. destruct (Hsimple KSkip ww stw evs [] Hwk eq_refl) as (ww' & E & H1 & H2 & H3). exists ww'. auto.
Qed.

Lemma walk_mv_spec cleanup : forall pat i j ww stw evs,
  WalkM ww stw evs -> (s <= i)%nat -> (i <= j)%nat -> (j <= e)%nat -> adm_pat c ww vid pat ->
  match sp_walk_mv c vid xs pat i j stw (unext (wuw ww)) with
  | None => True
  | Some (WDone rets evs1 i' j' st' lost nx') =>
      exists ww', walk c vid a cleanup pat {| ci := N.of_nat i; ce := N.of_nat j |} ww
                  = Ok (rets, {| ci := N.of_nat i'; ce := N.of_nat j' |}) ww' /\
                  WalkM ww' st' (evs ++ evs1) /\ unext (wuw ww') = nx' /\ (i <= i')%nat /\ (i' <= j')%nat /\ (j' <= j)%nat
  | Some (WStop p evs1 i' j' st' lost nx') =>
      exists ww1, walk c vid a cleanup pat {| ci := N.of_nat i; ce := N.of_nat j |} ww
                  = unwound p (cleanup {| ci := N.of_nat i'; ce := N.of_nat j' |}) ww1 /\
                  WalkM ww1 st' (evs ++ evs1) /\ unext (wuw ww1) = nx' /\ (i <= i')%nat /\ (i' <= j')%nat /\ (j' <= j)%nat
  end.
Proof.
  induction pat as [|[front sk] pat IH]; intros i j ww stw evs Hwk Hsi Hij Hje Hadm; cbn [sp_walk_mv].
  - exists ww. cbn [walk]. rewrite app_nil_r. split; [reflexivity|]. split; [exact Hwk|]. split; [reflexivity|lia].
  - destruct (Nat.eqb_spec i j) as [Heq|Hne].
    + (* exhausted *)
      assert (Hk : (if front then cur_next {| ci := N.of_nat i; ce := N.of_nat j |}
                    else cur_next_back {| ci := N.of_nat i; ce := N.of_nat j |})
                   = (None, {| ci := N.of_nat i; ce := N.of_nat j |})).
      { destruct front; [rewrite cur_next_nat|rewrite cur_next_back_nat];
          (destruct (Nat.eqb_spec i j); [reflexivity|contradiction]). }
      assert (Hwalk : walk c vid a cleanup ((front, sk) :: pat) {| ci := N.of_nat i; ce := N.of_nat j |} ww
                      = (do r <- walk c vid a cleanup pat {| ci := N.of_nat i; ce := N.of_nat j |};
                         ret (match sk with KSkip => fst r | _ => 0 :: 0 :: cur_len {| ci := N.of_nat i; ce := N.of_nat j |} :: fst r end, snd r)) ww).
      { cbn [walk]. rewrite Hk. reflexivity. }
      rewrite Hwalk. clear Hwalk.
      assert (Hadm' : adm_pat c ww vid pat).
      { intros d Hd. apply (adm_many_le c ww d (pat_count ((front, sk) :: pat) d)); [cbn [pat_count]; lia|apply Hadm; exact Hd]. }
      specialize (IH i j ww stw evs Hwk Hsi Hij Hje Hadm').
      destruct (sp_walk_mv c vid xs pat i j stw (unext (wuw ww))) as [[rets0 evs0 i0 j0 st0 lost0 nx0|p0 evs0 i0 j0 st0 lost0 nx0]|]; [| |exact I].
      * destruct IH as (ww' & E & Hwk' & Hb). exists ww'. split; [|split; [exact Hwk'|exact Hb]].
        rewrite (bind_ok _ _ _ _ _ E). unfold ret. cbn [fst snd]. rewrite cur_len_nat. reflexivity.
      * destruct IH as (ww1 & E & Hwk' & Hb). exists ww1. split; [|split; [exact Hwk'|exact Hb]].
        apply bind_unwound. exact E.
    + set (idx := if front then i else (j - 1)%nat) in *.
      set (i1 := if front then S i else i) in *. set (j1 := if front then j else (j - 1)%nat) in *.
      set (t := nth idx xs 0) in *.
      assert (Hidx : (s <= idx)%nat /\ (idx < e)%nat) by (unfold idx; destruct front; lia).
      assert (Hb1 : (s <= i1)%nat /\ (i1 <= j1)%nat /\ (j1 <= e)%nat) by (unfold i1, j1; destruct front; lia).
      assert (Hk : (if front then cur_next {| ci := N.of_nat i; ce := N.of_nat j |}
                    else cur_next_back {| ci := N.of_nat i; ce := N.of_nat j |})
                   = (Some (N.of_nat idx), {| ci := N.of_nat i1; ce := N.of_nat j1 |})).
      { unfold idx, i1, j1. destruct front; [rewrite cur_next_nat|rewrite cur_next_back_nat];
          (destruct (Nat.eqb_spec i j); [contradiction|reflexivity]). }
      assert (Hwalk : walk c vid a cleanup ((front, sk) :: pat) {| ci := N.of_nat i; ce := N.of_nat j |} ww
                      = (do out <- unwinding (item_sink c vid a (ptr_at c vr (N.of_nat idx)) sk) (cleanup {| ci := N.of_nat i1; ce := N.of_nat j1 |});
                         do r <- walk c vid a cleanup pat {| ci := N.of_nat i1; ce := N.of_nat j1 |};
                         ret (match sk with KSkip => fst r | _ => 1 :: t :: cur_len {| ci := N.of_nat i1; ce := N.of_nat j1 |} :: out ++ fst r end, snd r)) ww).
      { cbn [walk]. rewrite Hk.
        assert (Ep : item_ptr c vid (N.of_nat idx) ww = Ok (ptr_at c vr (N.of_nat idx)) ww).
        { unfold item_ptr, bind. rewrite (peek_vec_ok vid ww vr (wm_vec _ _ _ Hwk)). reflexivity. }
        rewrite (bind_ok _ _ _ _ _ Ep).
        rewrite (bind_ok _ _ _ _ _ (walkm_read ww stw evs idx Hwk (proj1 Hidx) (proj2 Hidx))).
        pose proof (dec_enc _ _ (item_tok c av vv s e HV Hse Hel idx (proj2 Hidx))) as Hde. fold xs in Hde.
        unfold bind at 1. unfold decode. rewrite Hde. unfold ret at 1. reflexivity. }
      rewrite Hwalk. clear Hwalk.
      assert (Hadm0 : forall d, d <> vid -> adm_many c ww d (sink_count sk d)).
      { intros d Hd. apply (adm_many_le c ww d (pat_count ((front, sk) :: pat) d)); [cbn [pat_count]; lia|apply Hadm; exact Hd]. }
      pose proof (item_mv_spec idx (proj1 Hidx) (proj2 Hidx) sk ww stw evs Hwk Hadm0) as Hitem. cbv zeta in Hitem. fold t in Hitem.
      destruct (sp_item c vid stw (unext (wuw ww)) t sk) as [[[[[[out evs0] st1] lost0] nx1]|[[[p evs0] st1] nx1]]|] eqn:Eit; [| |exact I].
      * destruct Hitem as (ww2 & E2 & Hwk2 & Hnx2 & Hframe).
        rewrite (bind_ok _ _ _ _ _ (unwinding_okw _ _ _ _ _ E2)).
        assert (Hadm2 : adm_pat c ww2 vid pat).
        { intros d Hd. apply (Hframe d (pat_count pat d) Hd). apply (Hadm d Hd). }
        destruct Hb1 as (Hb1a & Hb1b & Hb1c).
        specialize (IH i1 j1 ww2 st1 (evs ++ evs0) Hwk2 Hb1a Hb1b Hb1c Hadm2). rewrite Hnx2 in IH.
        destruct (sp_walk_mv c vid xs pat i1 j1 st1 nx1) as [[rets0 evs1 i0 j0 st0 lost1 nx0|p0 evs1 i0 j0 st0 lost1 nx0]|]; [| |exact I].
        -- destruct IH as (ww' & E & Hwk' & Hnx' & Hb). exists ww'. split; [|split; [|split]].
           ++ rewrite (bind_ok _ _ _ _ _ E). unfold ret. cbn [fst snd]. rewrite cur_len_nat. reflexivity.
           ++ rewrite app_assoc. exact Hwk'.
           ++ exact Hnx'.
           ++ unfold i1, j1 in Hb. destruct front; lia.
        -- destruct IH as (ww1 & E & Hwk' & Hnx' & Hb). exists ww1. split; [|split; [|split]].
           ++ apply bind_unwound. exact E.
           ++ rewrite app_assoc. exact Hwk'.
           ++ exact Hnx'.
           ++ unfold i1, j1 in Hb. destruct front; lia.
      * destruct Hitem as (ww2 & E2 & Hwk2 & Hnx2).
        exists ww2. split; [|split; [|split]].
        -- apply bind_unwound. apply unwinding_panic. exact E2.
        -- exact Hwk2.
        -- exact Hnx2.
        -- unfold i1, j1. destruct front; lia.
Qed.
End DrainMv.

Lemma exec_drain_mv c w st a vid sb eb pat f r :
  cfg_wf c -> WRep c w st -> ufuse (wuw w) = None ->
  sp_drain_mv c st (unext (wuw w)) vid sb eb pat f = Some r ->
  adm_pat c w vid pat ->
  res_matches c w (exec c (ODrain a vid sb eb pat f) w) r.
Proof.
  intros Hwf HW Hfuse Hr Hadm. unfold sp_drain_mv in Hr.
  destruct (get_a vid st) as [av|] eqn:Hg; [|discriminate].
  destruct (wrep_get c w st vid av HW Hg) as (vv & Hgv & HV).
  pose proof (vi_rep _ _ _ HV) as HR. pose proof (rep_len _ _ _ HR) as Hlen.
  set (xs := a_xs av) in *. cbv zeta in Hr.
  cbn [exec]. rewrite (bind_ok _ _ _ _ _ (peek_vec_ok vid w vv Hgv)). rewrite Hlen.
  destruct (range_of_bounds usize_max (N.of_nat (length xs)) (to_sb sb) (to_sb eb)) as [[sN eN]|] eqn:Erb.
  - destruct (into_range_ok _ sb eb (vv, wuw w) sN eN Erb) as (Eir & Hse & Hel).
    set (s := N.to_nat sN) in *. set (e := N.to_nat eN) in *.
    assert (HsN : sN = N.of_nat s) by (unfold s; rewrite N2Nat.id; reflexivity).
    assert (HeN : eN = N.of_nat e) by (unfold e; rewrite N2Nat.id; reflexivity).
    assert (Hse' : (s <= e)%nat) by lia. assert (Hel' : (e <= length xs)%nat) by lia.
    rewrite (bind_ok _ _ _ _ _ (on_vec_ok vid _ w vv _ vv (wuw w) Hgv Eir)). cbn [fst snd].
    set (w1 := put_vec vid (Some vv) (wuw w) w).
    set (vr := with_len (N.of_nat s) vv).
    pose proof (drain_new_spec c vv (wuw w) xs s e HR Hse' Hel') as Edn. rewrite <- HsN, <- HeN in Edn.
    rewrite (bind_ok _ _ _ _ _ (on_vec_ok vid _ w1 vv _ _ _ (get_vec_put_same vid (Some vv) (wuw w) w) Edn)).
    rewrite HsN, HeN. fold vr.
    set (w2 := put_vec vid (Some vr) (wuw w1) w1).
    set (d := {| dcur := {| ci := N.of_nat s; ce := N.of_nat e |}; dstart := N.of_nat s; dend := N.of_nat e;
                 dorig := N.of_nat (length xs) |}).
    cbn [dcur].
    set (hid := with_xs av (firstn s xs)) in *.
    set (hidden := set_a vid (Some hid) st) in *.
    assert (Hw1 : w1 = w) by (apply put_vec_id; exact Hgv).
    assert (Hwk0 : WalkM c w vid av vv s w2 hidden []).
    { constructor.
      - unfold w2, hidden. apply wrep_put; [rewrite Hw1; exact HW|].
        apply (vi_prefix c vv av s HV). fold xs. lia.
      - unfold w2. rewrite wuw_put. unfold w1. rewrite wuw_put. lia.
      - exact Hfuse.
      - reflexivity.
      - apply get_vec_put_same.
      - apply get_a_set_same. }
    assert (Hadm2 : adm_pat c w2 vid pat).
    { intros dd Hd. apply (adm_many_same c w w2 dd); [|apply Hadm; exact Hd].
      unfold w2, w1. rewrite !get_vec_put_other by exact Hd. reflexivity. }
    set (finish := fun k : cursor => on_vec vid (drain_drop c (known_of a) (with_cur k d))).
    pose proof (walk_mv_spec c w vid av vv s e a Hwf HV Hse' Hel' finish pat s e w2 hidden [] Hwk0 (le_n s) Hse' (le_n e) Hadm2) as Hwalk.
    fold xs in Hwalk. cbn [app] in Hwalk.
    assert (Hnx2 : unext (wuw w2) = unext (wuw w)) by reflexivity. rewrite Hnx2 in Hwalk.
    assert (Hcl : cur_len (dcur d) = N.of_nat (e - s)) by (unfold d, cur_len; cbn [dcur ci ce]; lia).
    (* the iterator dropped with the cursor at [i', j'), in a world of the walk *)
    assert (Hfinish : forall ww st' evs i' j', WalkM c w vid av vv s ww st' evs -> (s <= i')%nat -> (i' <= j')%nat -> (j' <= e)%nat ->
              exists w', finish {| ci := N.of_nat i'; ce := N.of_nat j' |} ww = Ok tt w' /\
                step_ok c w w' (set_a vid (Some (with_xs av (VecSpec.sp_drain s e xs))) st')
                        (evs ++ (if c_dg c then map EDrop (firstn (j' - i') (skipn i' xs)) else [])) (unext (wuw ww) - unext (wuw w))).
    { intros ww st' evs i' j' [HRw Hnw Hfw Hew Hvw Haw] Hb1 Hb2 Hb3.
      pose proof (range_alive_any c vv xs s e i' j' HR Hb1 Hb2 Hb3 Hel') as HA. fold vr in HA.
      destruct (drain_drop_spec c vr (wuw ww) xs s e i' j' (known_of a) HA Hfw)
        as (v' & u' & Ed & HR' & Hc' & Hb' & Hn' & Hf' & Hl').
      exists (put_vec vid (Some v') u' ww). split.
      - unfold finish. apply (on_vec_ok vid _ ww vr tt v' u' Hvw). exact Ed.
      - constructor.
        + apply wrep_put; [exact HRw|].
          destruct HV as [HRv Hbk Hbw Hcap Hfits]. constructor; cbn [with_xs a_bk a_xs]; auto.
          * unfold vr in Hb'. cbn [with_len vbk] in Hb'. congruence.
          * unfold vr in Hc'. cbn [with_len vcap] in Hc'. destruct (acap c (a_bk av)); [congruence|exact I].
        + rewrite wuw_put. lia.
        + rewrite wuw_put. exact Hf'.
        + rewrite wuw_put. unfold uevents at 1. rewrite Hl', uevents_drops. fold (uevents (wuw ww)). rewrite Hew.
          rewrite rev_app_distr. destruct (c_dg c); cbn [rev app]; rewrite <- ?app_assoc; reflexivity. }
    destruct (sp_walk_mv c vid xs pat s e hidden (unext (wuw w))) as [[rets evs1 i' j' st' lost nx'|p evs1 i' j' st' lost nx']|]; [| |discriminate].
    + destruct Hwalk as (ww' & Ew & Hwk & Hnx' & Hb1 & Hb2 & Hb3).
      rewrite (bind_ok _ _ _ _ _ Ew). cbn [fst snd].
      destruct f; injection Hr as <-.
      * destruct (Hfinish ww' st' evs1 i' j' Hwk Hb1 Hb2 Hb3) as (w' & Efin & Hok).
        rewrite (bind_ok _ _ _ _ _ Efin). unfold ret. rewrite Hcl.
        cbn [res_matches ok_res s_out s_pk s_ret s_st s_evs s_nx].
        split; [reflexivity|split; [reflexivity|split; [reflexivity|]]]. rewrite <- Hnx'. exact Hok.
      * unfold ret, bind. rewrite Hcl.
        cbn [res_matches ok_res s_out s_pk s_ret s_st s_evs s_nx].
        split; [reflexivity|split; [reflexivity|split; [reflexivity|]]].
        destruct Hwk as [HRw Hnw Hfw Hew Hvw Haw]. constructor; auto. lia.
    + destruct Hwalk as (ww1 & Ew & Hwk & Hnx' & Hb1 & Hb2 & Hb3).
      injection Hr as <-.
      destruct (Hfinish ww1 st' evs1 i' j' Hwk Hb1 Hb2 Hb3) as (w' & Efin & Hok).
      assert (Equiet : quiet (finish {| ci := N.of_nat i'; ce := N.of_nat j' |}) ww1 = Ok tt w').
      { apply quiet_none; [apply (wm_fuse _ _ _ _ _ _ _ _ _ Hwk)|exact Efin|apply (so_fuse _ _ _ _ _ _ Hok)]. }
      rewrite (bind_unwound _ _ _ _ _ _ Ew). unfold unwound. rewrite Equiet.
      cbn [res_matches panic_res s_out s_pk s_ret s_st s_evs s_nx].
      split; [reflexivity|split; [reflexivity|split; [reflexivity|]]]. rewrite <- Hnx'. exact Hok.
  - (* invalid range: panics before anything changes *)
    injection Hr as <-.
    pose proof (into_range_panic _ sb eb (vv, wuw w) Erb) as Ep.
    rewrite (bind_panic _ _ _ _ _ (on_vec_panic vid _ w vv _ vv (wuw w) Hgv Ep)).
    cbn [res_matches panic_res s_out s_pk s_ret s_st s_evs s_nx].
    split; [reflexivity|split; [reflexivity|split; [reflexivity|]]]. rewrite N.sub_diag.
    constructor.
    + apply (wrep_put_same c w st vid vv av); assumption.
    + rewrite wuw_put. lia.
    + rewrite wuw_put. exact Hfuse.
    + rewrite wuw_put. reflexivity.
Qed.

(** ** ... and splices *)

(** dropping the [Splice] with the cursor at [i', j') in a world of the (moving) walk *)
Lemma splice_finish c w0 vid av vv s e (a : api) ts k claimed i' j' ww st' evs :
  cfg_wf c -> VI c vv av -> (s <= e)%nat -> (e <= length (a_xs av))%nat ->
  WalkM c w0 vid av vv s ww st' evs -> (s <= i')%nat -> (i' <= j')%nat -> (j' <= e)%nat ->
  Forall (tok_ok (szn c)) ts ->
  (let nl := N.of_nat s + claimed + (N.of_nat (length (a_xs av)) - N.of_nat e) in
   nl <= vcap vv \/ fixed_backend (vbk vv) \/ usize_max < nl \/ grow_ok c vv nl) ->
  let xs := a_xs av in
  let d := {| dcur := {| ci := N.of_nat s; ce := N.of_nat e |}; dstart := N.of_nat s; dend := N.of_nat e;
              dorig := N.of_nat (length xs) |} in
  let items := map (fun t => honest_item c t k) ts in
  let finish := on_vec vid (splice_drop c (known_of a) (with_cur {| ci := N.of_nat i'; ce := N.of_nat j' |} d) claimed items) in
  match sp_splice_fin c av s e i' j' ts claimed (N.of_nat (length ts)) with
  | inl p => exists w', finish ww = Panic p w' /\
               step_ok c w0 w' st' (evs ++ (if c_dg c then map EDrop ts else [])) (unext (wuw ww) - unext (wuw w0))
  | inr (fevs, ys) => exists w', finish ww = Ok tt w' /\
               step_ok c w0 w' (set_a vid (Some (with_xs av ys)) st') (evs ++ fevs) (unext (wuw ww) - unext (wuw w0))
  end.
Proof.
  intros Hwf HV Hse' Hel' [HRw Hnw Hfw Hew Hvw Haw] Hb1 Hb2 Hb3 Htoks Hadm xs d items finish.
  pose proof (vi_rep _ _ _ HV) as HR. fold xs in Hel', Hadm.
  set (vr := with_len (N.of_nat s) vv) in *.
  set (cl := N.to_nat claimed).
  assert (Hcl' : claimed = N.of_nat cl) by (unfold cl; lia).
  pose proof (range_alive_any c vv xs s e i' j' HR Hb1 Hb2 Hb3 Hel') as HA. fold vr in HA.
  unfold sp_splice_fin. cbv zeta. fold xs.
  assert (Hnl : N.of_nat s + claimed + N.of_nat (length xs - e) = N.of_nat (s + cl + (length xs - e))) by lia.
  rewrite Hnl.
  assert (Hpanic : forall p, splice_prep c (known_of a) (with_cur {| ci := N.of_nat i'; ce := N.of_nat j' |} d) (N.of_nat cl) (vr, wuw ww)
                             = Panic p (vr, wuw ww) ->
            exists w', finish ww = Panic p w' /\
              step_ok c w0 w' st' (evs ++ (if c_dg c then map EDrop ts else [])) (unext (wuw ww) - unext (wuw w0))).
  { intros p Hprep.
    destruct (splice_drop_prep_panic c vr (wuw ww) (known_of a) _ ts k p _ Hfw Hprep) as (u' & Ed & Hn' & Hf' & He').
    exists (put_vec vid (Some vr) u' ww). split.
    - unfold finish. apply (on_vec_panic vid _ ww vr p vr u' Hvw). rewrite Hcl' at 1. exact Ed.
    - constructor.
      + apply (wrep_put_same c ww st' vid vr _ u' HRw Haw). apply (vi_prefix c vv av s HV). exact (Nat.le_trans _ _ _ Hse' Hel').
      + rewrite wuw_put. lia.
      + rewrite wuw_put. exact Hf'.
      + rewrite wuw_put. rewrite He', Hew. rewrite rev_app_distr.
        destruct (c_dg c); cbn [rev app]; rewrite <- ?app_assoc; try rewrite map_rev; reflexivity. }
  destruct (N.ltb_spec usize_max (N.of_nat (s + cl + (length xs - e)))) as [Hov|Hnov].
  - apply (Hpanic POverflow). apply (splice_prep_overflow c vr (wuw ww) xs s e i' j' (known_of a) cl HA Hov).
  - destruct (match acap c (a_bk av) with Some cap => cap <? N.of_nat (s + cl + (length xs - e)) | None => false end) eqn:Ecap.
    + apply (Hpanic PCapacity).
      destruct (acap c (a_bk av)) as [cap|] eqn:Ea; [|discriminate].
      apply N.ltb_lt in Ecap.
      assert (Hcapv : vcap vv = cap). { pose proof (vi_cap _ _ _ HV) as H. rewrite Ea in H. exact H. }
      apply (splice_prep_capacity c vr (wuw ww) xs s e i' j' (known_of a) cl HA).
      * unfold vr. cbn [with_len vbk]. rewrite (vi_bk _ _ _ HV). eapply acap_fixed; eauto.
      * unfold vr. cbn [with_len vcap]. lia.
      * exact Hnov.
    + assert (Hroom : N.of_nat (s + cl + (length xs - e)) <= vcap vr \/
                      grow_ok c vr (N.of_nat (s + cl + (length xs - e)))).
      { destruct (acap c (a_bk av)) as [cap|] eqn:Ea.
        - left. apply N.ltb_ge in Ecap. pose proof (vi_cap _ _ _ HV) as H. rewrite Ea in H.
          unfold vr. cbn [with_len vcap]. lia.
        - assert (Hnf : ~ fixed_backend (vbk vv)). { rewrite (vi_bk _ _ _ HV). eapply acap_none_not_fixed; eauto. }
          cbv zeta in Hadm.
          assert (Hx : N.of_nat s + claimed + (N.of_nat (length xs) - N.of_nat e) = N.of_nat (s + cl + (length xs - e))) by lia.
          rewrite Hx in Hadm.
          destruct Hadm as [H1|[H1|[H1|H1]]]; [left; exact H1|contradiction|lia|right; exact H1]. }
      destruct (splice_drop_liar_full c vr (wuw ww) xs s e i' j' (known_of a) ts k cl Hwf HA Hfw Htoks Hroom)
        as (v' & u' & Ed & HR' & Hb' & Hn' & Hf' & He' & Hc').
      exists (put_vec vid (Some v') u' ww). split.
      * unfold finish. apply (on_vec_ok vid _ ww vr tt v' u' Hvw). rewrite Hcl' at 1. exact Ed.
      * rewrite Nat2N.id. fold cl. constructor.
        -- apply wrep_put; [exact HRw|].
           destruct HV as [HRv Hbk Hbw Hcap Hfits]. constructor; cbn [with_xs a_bk a_xs]; auto.
           ++ unfold vr in Hb'. cbn [with_len vbk] in Hb'. congruence.
           ++ destruct (acap c (a_bk av)) as [cap|] eqn:Ea; [|exact I].
              apply N.ltb_ge in Ecap. rewrite Hc'; [unfold vr; cbn [with_len vcap]; exact Hcap|].
              unfold vr. cbn [with_len vcap]. lia.
        -- rewrite wuw_put. lia.
        -- rewrite wuw_put. exact Hf'.
        -- rewrite wuw_put. rewrite He', Hew. rewrite !rev_app_distr.
           rewrite rev_repeat.
           destruct (c_dg c); cbn [rev app]; rewrite <- ?app_assoc; try rewrite map_rev; reflexivity.
Qed.

Lemma exec_splice_mv c w st a vid sb eb pat f rk n wrong_at claimed r :
  cfg_wf c -> WRep c w st -> ufuse (wuw w) = None ->
  sp_splice_mv c st (unext (wuw w)) vid sb eb pat f rk n wrong_at claimed = Some r ->
  adm_splice c w vid sb eb claimed -> adm_pat c w vid pat ->
  res_matches c w (exec c (OSplice a vid sb eb pat f rk n wrong_at claimed) w) r.
Proof.
  intros Hwf HW Hfuse Hr Hadm Hadmp.
  destruct (sp_splice_mv_inv _ _ _ _ _ _ _ _ _ _ _ _ _ Hr) as (Hrk & -> & Hr').
  clear Hr. rename Hr' into Hr. unfold sp_splice_mv0 in Hr.
  destruct (get_a vid st) as [av|] eqn:Hg; [|discriminate].
  destruct (wrep_get c w st vid av HW Hg) as (vv & Hgv & HV).
  pose proof (vi_rep _ _ _ HV) as HR. pose proof (rep_len _ _ _ HR) as Hlen.
  specialize (Hadm vv Hgv). rewrite Hlen in Hadm.
  set (xs := a_xs av) in *. cbv zeta in Hr.
  set (nn := N.to_nat n) in *.
  set (ts := next_ids c (unext (wuw w)) nn) in *.
  assert (Hlts : length ts = nn) by apply next_ids_length.
  assert (Hn : n = N.of_nat (length ts)) by (rewrite Hlts; unfold nn; lia).
  set (w0 := bump_by (N.of_nat nn) w).
  assert (HW0 : WRep c w0 st) by (apply (wrep_wv c w w0 st eq_refl HW)).
  assert (Hgv0 : get_vec vid w0 = Some vv) by exact Hgv.
  assert (Hfuse0 : ufuse (wuw w0) = None) by exact Hfuse.
  assert (Hnx0 : unext (wuw w0) = unext (wuw w) + n) by (unfold w0, bump_by, nn; cbn [wuw unext]; lia).
  assert (Hev0 : uevents (wuw w0) = uevents (wuw w)) by reflexivity.
  set (items := map (fun t => honest_item c t (rk_flag rk)) ts).
  cbn [exec]. rewrite (bind_ok _ _ _ _ _ (peek_vec_ok vid w vv Hgv)).
  rewrite (bind_ok _ _ _ _ _ (make_items_honest c rk Hrk nn 0 w)). fold ts items w0.
  rewrite Hlen.
  assert (Hstep : forall w' st' evs d, step_ok c w0 w' st' evs d -> step_ok c w w' st' evs (unext (wuw w) + n + d - unext (wuw w))).
  { intros w' st' evs d [R Nx F E]. constructor; auto; try (rewrite Nx, Hnx0; lia); try (rewrite E, Hev0; reflexivity). }
  destruct (range_of_bounds usize_max (N.of_nat (length xs)) (to_sb sb) (to_sb eb)) as [[sN eN]|] eqn:Erb.
  - destruct (into_range_ok _ sb eb (vv, wuw w0) sN eN Erb) as (Eir & Hse & Hel).
    set (s := N.to_nat sN) in *. set (e := N.to_nat eN) in *.
    assert (HsN : sN = N.of_nat s) by (unfold s; rewrite N2Nat.id; reflexivity).
    assert (HeN : eN = N.of_nat e) by (unfold e; rewrite N2Nat.id; reflexivity).
    assert (Hse' : (s <= e)%nat) by lia. assert (Hel' : (e <= length xs)%nat) by lia.
    rewrite (bind_ok _ _ _ _ _ (unwinding_okw _ _ _ _ _ (on_vec_ok vid _ w0 vv _ vv (wuw w0) Hgv0 Eir))). cbn [fst snd].
    set (w1 := put_vec vid (Some vv) (wuw w0) w0).
    set (vr := with_len (N.of_nat s) vv).
    pose proof (drain_new_spec c vv (wuw w0) xs s e HR Hse' Hel') as Edn. rewrite <- HsN, <- HeN in Edn.
    rewrite (bind_ok _ _ _ _ _ (on_vec_ok vid _ w1 vv _ _ _ (get_vec_put_same vid (Some vv) (wuw w0) w0) Edn)).
    rewrite HsN, HeN. fold vr.
    set (w2 := put_vec vid (Some vr) (wuw w1) w1).
    set (d := {| dcur := {| ci := N.of_nat s; ce := N.of_nat e |}; dstart := N.of_nat s; dend := N.of_nat e;
                 dorig := N.of_nat (length xs) |}).
    cbn [dcur].
    set (hid := with_xs av (firstn s xs)) in *.
    set (hidden := set_a vid (Some hid) st) in *.
    assert (Hw1 : w1 = w0) by (apply put_vec_id; exact Hgv0).
    assert (Hwk0 : WalkM c w0 vid av vv s w2 hidden []).
    { constructor.
      - unfold w2, hidden. apply wrep_put; [rewrite Hw1; exact HW0|].
        apply (vi_prefix c vv av s HV). fold xs. lia.
      - unfold w2. rewrite wuw_put. unfold w1. rewrite wuw_put. lia.
      - exact Hfuse0.
      - reflexivity.
      - apply get_vec_put_same.
      - apply get_a_set_same. }
    assert (Hadm2 : adm_pat c w2 vid pat).
    { intros dd Hd. apply (adm_many_same c w w2 dd); [|apply Hadmp; exact Hd].
      unfold w2, w1. rewrite !get_vec_put_other by exact Hd. reflexivity. }
    set (finish := fun k : cursor => on_vec vid (splice_drop c (known_of a) (with_cur k d) claimed items)).
    pose proof (walk_mv_spec c w0 vid av vv s e a Hwf HV Hse' Hel' finish pat s e w2 hidden [] Hwk0 (le_n s) Hse' (le_n e) Hadm2) as Hwalk.
    fold xs in Hwalk. cbn [app] in Hwalk.
    assert (Hnx2 : unext (wuw w2) = unext (wuw w) + n) by exact Hnx0. rewrite Hnx2 in Hwalk.
    assert (Hcl : cur_len (dcur d) = N.of_nat (e - s)) by (unfold d, cur_len; cbn [dcur ci ce]; lia).
    assert (Hadm' : let nl := N.of_nat s + claimed + (N.of_nat (length (a_xs av)) - N.of_nat e) in
                    nl <= vcap vv \/ fixed_backend (vbk vv) \/ usize_max < nl \/ grow_ok c vv nl).
    { cbv zeta in Hadm |- *. fold xs. rewrite <- HsN, <- HeN. exact Hadm. }
    assert (Hfinish : forall ww st' evs i' j', WalkM c w0 vid av vv s ww st' evs -> (s <= i')%nat -> (i' <= j')%nat -> (j' <= e)%nat ->
              match sp_splice_fin c av s e i' j' ts claimed n with
              | inl p => exists w', finish {| ci := N.of_nat i'; ce := N.of_nat j' |} ww = Panic p w' /\
                           step_ok c w w' st' (evs ++ (if c_dg c then map EDrop ts else [])) (unext (wuw ww) - unext (wuw w))
              | inr (fevs, ys) => exists w', finish {| ci := N.of_nat i'; ce := N.of_nat j' |} ww = Ok tt w' /\
                           step_ok c w w' (set_a vid (Some (with_xs av ys)) st') (evs ++ fevs) (unext (wuw ww) - unext (wuw w))
              end).
    { intros ww st' evs i' j' Hwk Hb1 Hb2 Hb3. rewrite Hn.
      pose proof (splice_finish c w0 vid av vv s e a ts (rk_flag rk) claimed i' j' ww st' evs Hwf HV Hse' Hel' Hwk Hb1 Hb2 Hb3
               (next_ids_tok_ok _ _ _) Hadm') as H. cbv zeta in H.
      pose proof (wm_nx _ _ _ _ _ _ _ _ _ Hwk) as Hge.
      destruct (sp_splice_fin c av s e i' j' ts claimed (N.of_nat (length ts))) as [p|[fevs ys]];
        destruct H as (w' & E & Hok); exists w'; (split; [exact E|]);
        apply Hstep in Hok;
        replace (unext (wuw ww) - unext (wuw w)) with (unext (wuw w) + n + (unext (wuw ww) - unext (wuw w0)) - unext (wuw w)) by lia;
        exact Hok. }
    destruct (sp_walk_mv c vid xs pat s e hidden (unext (wuw w) + n)) as [[rets evs1 i' j' st' lost nx'|p evs1 i' j' st' lost nx']|]; [| |discriminate].
    + destruct Hwalk as (ww' & Ew & Hwk & Hnx' & Hb1 & Hb2 & Hb3).
      rewrite (bind_ok _ _ _ _ _ Ew). cbn [fst snd].
      specialize (Hfinish ww' st' evs1 i' j' Hwk Hb1 Hb2 Hb3). rewrite Hnx' in Hfinish.
      destruct f.
      * destruct (sp_splice_fin c av s e i' j' ts claimed n) as [p|[fevs ys]]; injection Hr as <-.
        -- destruct Hfinish as (w' & Efin & Hok).
           rewrite (bind_panic _ _ _ _ _ Efin).
           cbn [res_matches panic_res s_out s_pk s_ret s_st s_evs s_nx].
           split; [reflexivity|split; [reflexivity|split; [reflexivity|]]]. exact Hok.
        -- destruct Hfinish as (w' & Efin & Hok).
           rewrite (bind_ok _ _ _ _ _ Efin). unfold ret. rewrite Hcl.
           cbn [res_matches ok_res s_out s_pk s_ret s_st s_evs s_nx].
           split; [reflexivity|split; [reflexivity|split; [reflexivity|]]]. exact Hok.
      * injection Hr as <-. unfold ret, bind. rewrite Hcl.
        cbn [res_matches ok_res s_out s_pk s_ret s_st s_evs s_nx].
        split; [reflexivity|split; [reflexivity|split; [reflexivity|]]].
        destruct Hwk as [HRw Hnw Hfw Hew Hvw Haw]. constructor; [exact HRw|lia|exact Hfw|rewrite Hew, Hev0; reflexivity].
    + destruct Hwalk as (ww1 & Ew & Hwk & Hnx' & Hb1 & Hb2 & Hb3).
      specialize (Hfinish ww1 st' evs1 i' j' Hwk Hb1 Hb2 Hb3). rewrite Hnx' in Hfinish.
      destruct (sp_splice_fin c av s e i' j' ts claimed n) as [p'|[fevs ys]]; [discriminate|]. injection Hr as <-.
      destruct Hfinish as (w' & Efin & Hok).
      assert (Equiet : quiet (finish {| ci := N.of_nat i'; ce := N.of_nat j' |}) ww1 = Ok tt w').
      { apply quiet_none; [apply (wm_fuse _ _ _ _ _ _ _ _ _ Hwk)|exact Efin|apply (so_fuse _ _ _ _ _ _ Hok)]. }
      rewrite (bind_unwound _ _ _ _ _ _ Ew). unfold unwound. rewrite Equiet.
      cbn [res_matches panic_res s_out s_pk s_ret s_st s_evs s_nx].
      split; [reflexivity|split; [reflexivity|split; [reflexivity|]]]. exact Hok.
  - (* invalid range: panics before the vector is touched; the replacement values are destroyed *)
    injection Hr as <-.
    pose proof (into_range_panic _ sb eb (vv, wuw w0) Erb) as Ep.
    pose proof (on_vec_panic vid _ w0 vv _ vv (wuw w0) Hgv0 Ep) as Ep'.
    set (w1 := put_vec vid (Some vv) (wuw w0) w0) in *.
    destruct (drop_items_ok c (rk_flag rk) vv ts (wuw w1) Hfuse0) as (u' & Ed & Hl & Hn' & Hf').
    assert (Ecl : quiet (on_vec vid (drop_items c items)) w1 = Ok tt (put_vec vid (Some vv) u' w1)).
    { apply quiet_none; [exact Hfuse0| |rewrite wuw_put; exact Hf'].
      apply (on_vec_ok vid _ w1 vv tt vv u'); [apply get_vec_put_same|exact Ed]. }
    assert (Eu : unwinding (on_vec vid (into_range (N.of_nat (length xs)) sb eb)) (on_vec vid (drop_items c items)) w0
                 = Panic (range_panic sb eb) (put_vec vid (Some vv) u' w1)).
    { unfold unwinding, on_unwind. rewrite Ep'. rewrite Ecl. reflexivity. }
    rewrite (bind_panic _ _ _ _ _ Eu).
    cbn [res_matches panic_res s_out s_pk s_ret s_st s_evs s_nx].
    split; [reflexivity|split; [reflexivity|split; [reflexivity|]]].
    replace (unext (wuw w) + n - unext (wuw w)) with (unext (wuw w) + n + 0 - unext (wuw w)) by lia.
    apply Hstep. constructor.
    + apply (wrep_put_same c w1 st vid vv av); [|assumption|assumption].
      apply (wrep_put_same c w0 st vid vv av); assumption.
    + rewrite wuw_put, Hn'. unfold w1. rewrite wuw_put. lia.
    + rewrite wuw_put. exact Hf'.
    + rewrite wuw_put. unfold uevents at 1. rewrite Hl, uevents_drops. destruct (c_dg c); try rewrite map_rev; reflexivity.
Qed.
