(** * Removal handles (pop / remove / swap_remove): creation, the state while the handle
      is alive, reading, consumption and drop. *)
From AV.Model Require Import Base Bytes Vec Ops.
From AV.Spec Require Import VecSpec.
From AV.Proofs Require Import MemLemmas Rep.
Arguments N.add : simpl never.
Arguments N.sub : simpl never.
Arguments N.mul : simpl never.

(** handle [h] was created by operation [k] at index [i] of a vector representing [xs] *)
Definition temp_for (c : cfg) (v : vec) (xs : list N) (k : tkind) (i : nat) (h : temp) : Prop :=
  tk h = k /\ tindex h = N.of_nat i /\ tlast h = N.of_nat (length xs - 1) /\
  telem h = ptr_at c v (N.of_nat i).
(** what the vector holds once the handle is gone *)
Definition temp_result (k : tkind) (i : nat) (xs : list N) : list N :=
  match k with
  | TPop => removelast xs
  | TRemove => sp_remove i xs
  | TSwapRemove => sp_swap_remove i xs
  end.
(** valid request: index in range; pop addresses the last element *)
Definition temp_req (k : tkind) (i : nat) (xs : list N) : Prop :=
  (i < length xs)%nat /\ (k = TPop -> i = (length xs - 1)%nat).

(** ** The list-level meaning of the three results *)
Lemma sp_swap_remove_last (xs : list N) x : sp_swap_remove (length xs) (xs ++ [x]) = xs.
Proof.
  unfold sp_swap_remove. rewrite rev_unit.
  rewrite app_length. cbn [length].
  replace (length xs + 1)%nat with (S (length xs)) by lia.
  rewrite Nat.eqb_refl. apply removelast_last.
Qed.
Lemma sp_swap_remove_mid (a : list N) x b y :
  sp_swap_remove (length a) (a ++ x :: b ++ [y]) = a ++ y :: b.
Proof.
  unfold sp_swap_remove.
  replace (a ++ x :: b ++ [y]) with ((a ++ x :: b) ++ [y])
    by (rewrite <- app_assoc; reflexivity).
  rewrite rev_unit, removelast_last.
  destruct (Nat.eqb_spec (S (length a)) (length ((a ++ x :: b) ++ [y]))) as [E|_].
  - rewrite !app_length in E. cbn [length] in E. lia.
  - rewrite <- app_assoc. rewrite firstn_app_l by reflexivity.
    change (a ++ x :: b) with (a ++ [x] ++ b). rewrite app_assoc.
    rewrite skipn_app_l by (rewrite app_length; cbn [length]; lia).
    reflexivity.
Qed.
Lemma sp_remove_mid (a : list N) x b : sp_remove (length a) (a ++ x :: b) = a ++ b.
Proof.
  unfold sp_remove. rewrite firstn_app_l by reflexivity.
  change (a ++ x :: b) with (a ++ [x] ++ b). rewrite app_assoc.
  rewrite skipn_app_l by (rewrite app_length; cbn [length]; lia).
  reflexivity.
Qed.
Lemma temp_result_length k i xs :
  temp_req k i xs -> length (temp_result k i xs) = (length xs - 1)%nat.
Proof.
  intros [Hi _].
  destruct (nth_split xs 0 Hi) as (a & b & Hxs & Ha).
  subst i. revert Hxs. generalize (nth (length a) xs 0) as x. intros x ->. clear Hi.
  assert (Hl : (length (a ++ x :: b) - 1 = length a + length b)%nat)
    by (rewrite app_length; cbn [length]; lia).
  rewrite Hl.
  destruct k; cbn [temp_result].
  - rewrite removelast_firstn_len, firstn_length, app_length. cbn [length]. lia.
  - rewrite sp_remove_mid, app_length. reflexivity.
  - destruct b as [|b0 b'] using rev_ind.
    + rewrite sp_swap_remove_last. cbn [length]. lia.
    + rewrite sp_swap_remove_mid. rewrite !app_length. cbn [length]. lia.
Qed.

(** ** Auxiliary facts *)
Lemma msub_app_eq (A B C : mem) off n :
  off = length A -> n = length B -> msub off n (A ++ B ++ C) = B.
Proof. intros -> ->. apply msub_app. Qed.
Lemma memmove_down_eq a h b r src dst n :
  src = (length a + length h)%nat -> dst = length a -> n = length b ->
  memmove src dst n (a ++ h ++ b ++ r) = a ++ b ++ skipn (length b) (h ++ b) ++ r.
Proof. intros -> -> ->. apply memmove_down. Qed.
Lemma memmove_copy_down_eq a y mid x r src dst n :
  length x = length y ->
  src = (length a + length y + length mid)%nat -> dst = length a -> n = length x ->
  memmove src dst n (a ++ y ++ mid ++ x ++ r) = a ++ x ++ mid ++ x ++ r.
Proof. intros H -> -> ->. apply memmove_copy_down. exact H. Qed.

Lemma flat_zero xs : flat 0 xs = [].
Proof. apply length_zero_iff_nil. rewrite flat_length. lia. Qed.

Lemma rep_mem_split c v xs :
  Rep c v xs -> vmem v = flat (szn c) xs ++ skipn (length xs * szn c) (vmem v).
Proof. intros H. rewrite <- (rep_mem _ _ _ H). symmetry. apply firstn_skipn. Qed.

Lemma rep_build c v xs r :
  vlen v = N.of_nat (length xs) -> vlen v <= vcap v -> vcap v <= usize_max -> store_ok c v ->
  vmem v = flat (szn c) xs ++ r -> Forall (tok_ok (szn c)) xs -> Rep c v xs.
Proof.
  intros H1 H2 H3 H4 H5 H6. constructor; try assumption.
  rewrite H5. apply firstn_app_l. rewrite flat_length. reflexivity.
Qed.

Lemma rep_bytes_le c v xs :
  Rep c v xs -> (length xs * szn c <= N.to_nat (vcap v * c_sz c))%nat.
Proof.
  intros [Hlen Hcap _ _ _ _]. rewrite N2Nat.inj_mul. fold (szn c).
  apply Nat.mul_le_mono_r. lia.
Qed.

Lemma bo_nat c n : bo c (N.of_nat n) = (n * szn c)%nat.
Proof. unfold bo, szn. rewrite N2Nat.inj_mul, Nat2N.id. apply Nat.mul_comm. Qed.

Lemma len_sub_bytes c p q : N.to_nat (c_sz c * (N.of_nat p - N.of_nat q)) = ((p - q) * szn c)%nat.
Proof.
  rewrite N2Nat.inj_mul, N2Nat.inj_sub, !Nat2N.id. unfold szn. apply Nat.mul_comm.
Qed.

Lemma check_range_ok c off n v u :
  store_ok c v -> (off + n <= N.to_nat (vcap v * c_sz c))%nat ->
  check_range c off n (v, u) = Ok tt (v, u).
Proof.
  unfold store_ok, check_range, bind, getv. cbn [fst snd]. intros Hs Hb.
  destruct (N.leb_spec (N.of_nat off + N.of_nat n) (vcap v * c_sz c)) as [_|H]; [|lia].
  destruct (Nat.leb_spec (off + n) (length (vmem v))) as [_|H]; [|lia].
  reflexivity.
Qed.

Lemma shift_ok c known src dst n v u :
  store_ok c v ->
  (src + n <= N.to_nat (vcap v * c_sz c))%nat -> (dst + n <= N.to_nat (vcap v * c_sz c))%nat ->
  shift c known src dst n (v, u) = Ok tt (with_mem (memmove src dst n (vmem v)) v, u).
Proof.
  intros Hs H1 H2. unfold shift, bind.
  rewrite !check_range_ok by assumption.
  unfold setv. cbn [fst snd].
  destruct known; [reflexivity|].
  rewrite copy_bytes_memmove by (unfold store_ok in Hs; lia). reflexivity.
Qed.

(** the slot of the element a handle addresses *)
Lemma elem_bytes c v a x b :
  Rep c v (a ++ x :: b) -> msub (length a * szn c) (szn c) (vmem v) = enc (szn c) x.
Proof.
  intros H. rewrite (rep_mem_split _ _ _ H), flat_app. cbn [flat].
  rewrite <- !app_assoc. apply msub_app_eq.
  - rewrite flat_length. reflexivity.
  - rewrite enc_length. reflexivity.
Qed.

Lemma elem_range c v a x b :
  Rep c v (a ++ x :: b) ->
  (length a * szn c + szn c + length b * szn c <= N.to_nat (vcap v * c_sz c))%nat.
Proof.
  intros H. pose proof (rep_bytes_le _ _ _ H) as Hb.
  rewrite app_length in Hb. cbn [length] in Hb. lia.
Qed.

Lemma rep_tok_split c v a x b :
  Rep c v (a ++ x :: b) ->
  Forall (tok_ok (szn c)) a /\ tok_ok (szn c) x /\ Forall (tok_ok (szn c)) b.
Proof.
  intros H. pose proof (rep_tok _ _ _ H) as Ht.
  apply Forall_app in Ht. destruct Ht as [Ha Hb]. inversion Hb; subst. auto.
Qed.

Lemma temp_ptr_ok c v u xs k i h :
  temp_for c v xs k i h ->
  temp_ptr c h (with_len (N.of_nat i) v, u)
  = Ok (ptr_at c v (N.of_nat i)) (with_len (N.of_nat i) v, u).
Proof.
  intros (Hk & Hi & Hl & He). unfold temp_ptr, bind, getv. cbn [fst snd].
  rewrite Hk, Hi, He. destruct k; reflexivity.
Qed.

(** ** Creation *)
(** creation: [len] is lowered to the index, nothing else changes *)
Theorem temp_new_spec c v u xs k i :
  Rep c v xs -> temp_req k i xs ->
  exists h,
    temp_new c k (N.of_nat i) (v, u) = Ok h (with_len (N.of_nat i) v, u) /\
    temp_for c v xs k i h.
Proof.
  intros HR [Hi Hp]. pose proof (rep_len _ _ _ HR) as Hlen.
  assert (Hsub : usub (c_trap c) (vlen v) 1 = Some (N.of_nat (length xs - 1))).
  { unfold usub. destruct (N.leb_spec 1 (vlen v)) as [_|H]; [|lia]. f_equal. lia. }
  unfold temp_new, bind, getv. cbn [fst snd].
  destruct k.
  - specialize (Hp eq_refl).
    assert (H0 : (0 <? vlen v) = true) by (apply N.ltb_lt; lia).
    unfold temp_for. rewrite H0, orb_true_r, Hsub. rewrite <- Hp.
    unfold assert_, of_ovf, of_opt, ret, setv. cbn [fst snd].
    eexists. split; [reflexivity|]. repeat split.
  - rewrite Hsub. unfold of_ovf, of_opt, ret, setv. cbn [fst snd].
    eexists. split; [reflexivity|]. repeat split.
  - rewrite Hsub. unfold of_ovf, of_opt, ret, setv. cbn [fst snd].
    eexists. split; [reflexivity|]. repeat split.
Qed.


(** while the handle is alive the vector is the valid prefix (what a forgotten handle leaves) *)
Theorem temp_alive_rep c v xs i :
  Rep c v xs -> (i <= length xs)%nat -> Rep c (with_len (N.of_nat i) v) (firstn i xs).
Proof.
  intros HR Hi. pose proof (rep_mem_split _ _ _ HR) as Hmem.
  destruct HR as [Hlen Hcap Hus Hst _ Htok].
  rewrite <- (firstn_skipn i xs) in Hmem at 1. rewrite flat_app, <- app_assoc in Hmem.
  eapply rep_build; cbn [vlen vcap vmem with_len].
  - rewrite firstn_length. f_equal. lia.
  - lia.
  - exact Hus.
  - exact Hst.
  - exact Hmem.
  - rewrite <- (firstn_skipn i xs) in Htok. apply Forall_app in Htok. apply Htok.
Qed.

(** ** Reading *)
(** the handle reads exactly the requested element *)
Theorem temp_bytes_spec c v u xs k i h :
  Rep c v xs -> temp_req k i xs -> temp_for c v xs k i h ->
  temp_bytes c h (with_len (N.of_nat i) v, u)
  = Ok (enc (szn c) (nth i xs 0)) (with_len (N.of_nat i) v, u).
Proof.
  intros HR [Hi _] Hfor.
  unfold temp_bytes, bind. rewrite (temp_ptr_ok _ _ _ _ _ _ _ Hfor).
  destruct (nth_split xs 0 Hi) as (a & b & Hxs & Ha).
  set (x := nth i xs 0) in *. clearbody x. subst i xs. clear Hfor Hi.
  pose proof (elem_range _ _ _ _ _ HR) as Hrg.
  unfold read_ptr, bind, getv. cbn [fst snd pgen poff ptr_at vgen with_len].
  rewrite N.eqb_refl. cbn [negb]. rewrite bo_nat.
  rewrite check_range_ok by (try exact (rep_store _ _ _ HR); cbn [vcap with_len]; lia).
  unfold ret. cbn [vmem with_len]. rewrite (elem_bytes _ _ _ _ _ HR). reflexivity.
Qed.

(** ** Consumption *)
Lemma consume_core c v u a x b k h :
  Rep c v (a ++ x :: b) -> (k = TPop -> b = []) ->
  temp_for c v (a ++ x :: b) k (length a) h ->
  exists v',
    (forall known,
        temp_consume c known h (with_len (N.of_nat (length a)) v, u) = Ok tt (v', u)) /\
    Rep c v' (temp_result k (length a) (a ++ x :: b)) /\
    vcap v' = vcap v /\ vbk v' = vbk v /\ vgen v' = vgen v.
Proof.
  intros HR Hpop (Hk & Hi & Hl & He).
  pose proof (elem_range _ _ _ _ _ HR) as Hrg.
  pose proof (rep_mem_split _ _ _ HR) as Hmem.
  destruct (rep_tok_split _ _ _ _ _ HR) as (Ta & Tx & Tb).
  destruct HR as [Hlen Hcap Hus Hst _ _].
  rewrite flat_app in Hmem. cbn [flat] in Hmem. rewrite <- !app_assoc in Hmem.
  set (rest := skipn (length (a ++ x :: b) * szn c) (vmem v)) in Hmem. clearbody rest.
  assert (Hlast : (length (a ++ x :: b) - 1 = length a + length b)%nat)
    by (rewrite app_length; cbn [length]; lia).
  rewrite Hlast in Hl.
  assert (Hlen' : vlen v = N.of_nat (length a + length b + 1))
    by (rewrite Hlen, app_length; cbn [length]; f_equal; lia).
  clear Hlen Hlast.
  unfold temp_consume. rewrite Hk.
  destruct k; cbn [temp_result].
  - (* pop *)
    rewrite (Hpop eq_refl) in *. clear Hpop.
    eexists. split; [intros known; reflexivity|].
    rewrite removelast_last.
    split; [|auto].
    eapply rep_build; cbn [vlen vcap vmem with_len]; try eassumption; lia.
  - (* remove *)
    rewrite Hi, Hl, bo_nat, len_sub_bytes.
    replace (length a + length b - length a)%nat with (length b) by lia.
    eexists. split.
    { intros known. unfold bind.
      rewrite shift_ok by (try exact Hst; cbn [vcap with_len]; lia).
      unfold setv. cbn [fst snd]. reflexivity. }
    rewrite sp_remove_mid.
    split; [|auto].
    eapply rep_build; cbn [vlen vcap vmem with_len with_mem]; try eassumption.
    + rewrite app_length. reflexivity.
    + lia.
    + unfold store_ok in *. cbn [vlen vcap vmem with_len with_mem].
      rewrite memmove_length by lia. exact Hst.
    + rewrite Hmem, flat_app, <- app_assoc.
      apply memmove_down_eq; rewrite ?flat_length, ?enc_length; reflexivity.
    + apply Forall_app; auto.
  - (* swap_remove *)
    rewrite He, Hl.
    unfold bind at 1. unfold getv at 1. cbn [fst snd pgen poff ptr_at vgen with_len].
    rewrite N.eqb_refl. cbn [negb]. unfold bind at 1. unfold ret at 1.
    rewrite !bo_nat.
    destruct b as [|y b' _] using rev_ind.
    + (* the last element *)
      cbn [length] in *. rewrite Nat.add_0_r in *. rewrite Nat.eqb_refl.
      eexists. split; [intros known; reflexivity|].
      rewrite sp_swap_remove_last. split; [|auto].
      eapply rep_build; cbn [fst vlen vcap vmem with_len]; try eassumption; lia.
    + rewrite sp_swap_remove_mid.
      rewrite app_length in *. cbn [length] in *.
      rewrite flat_app in Hmem. cbn [flat] in Hmem. rewrite <- !app_assoc in Hmem.
      rewrite app_nil_l in Hmem.
      apply Forall_app in Tb. destruct Tb as [Tb' Ty]. inversion Ty as [|? ? Ty' _]; subst.
      destruct (Nat.eqb_spec (length a * szn c) ((length a + (length b' + 1)) * szn c))
        as [E|NE].
      * (* zero-sized elements: nothing to copy *)
        assert (Hz : szn c = 0%nat) by nia.
        eexists. split; [intros known; reflexivity|].
        split; [|auto].
        eapply rep_build with (r := vmem v); cbn [fst vlen vcap vmem with_len]; try eassumption.
        -- cbn [length]. rewrite app_length. cbn [length]. f_equal. lia.
        -- lia.
        -- rewrite Hz, flat_zero. reflexivity.
        -- apply Forall_app; auto.
      * eexists. split.
        { intros known. unfold bind.
          rewrite !check_range_ok by (try exact Hst; cbn [vcap with_len]; lia).
          unfold setv. cbn [fst snd vmem with_len]. reflexivity. }
        split; [|auto].
        eapply rep_build; cbn [vlen vcap vmem with_len with_mem]; try eassumption.
        -- rewrite app_length. cbn [length]. f_equal. lia.
        -- lia.
        -- unfold store_ok in *. cbn [vlen vcap vmem with_len with_mem].
           rewrite mwrite_length; [exact Hst|]. rewrite msub_length; lia.
        -- rewrite flat_app. cbn [flat]. rewrite <- !app_assoc.
           rewrite Hmem.
           change (mwrite ?d (msub ?s ?n ?m) ?m) with (memmove s d n m).
           apply memmove_copy_down_eq; rewrite ?flat_length, ?enc_length; try reflexivity.
           lia.
        -- apply Forall_app; auto.
Qed.

(** from an index to a decomposition of the list around it *)
Lemma temp_req_split k i xs :
  temp_req k i xs ->
  exists a b, xs = a ++ nth i xs 0 :: b /\ length a = i /\ (k = TPop -> b = []).
Proof.
  intros [Hi Hp]. destruct (nth_split xs 0 Hi) as (a & b & Hxs & Ha).
  exists a, b. split; [exact Hxs|]. split; [exact Ha|].
  intros Hk. specialize (Hp Hk).
  assert (Hl : length xs = (length a + S (length b))%nat)
    by (rewrite Hxs at 1; rewrite app_length; reflexivity).
  destruct b; [reflexivity|]. cbn [length] in Hl. lia.
Qed.

Lemma temp_consume_explicit c v u xs k i h :
  Rep c v xs -> temp_req k i xs -> temp_for c v xs k i h ->
  exists v',
    (forall known, temp_consume c known h (with_len (N.of_nat i) v, u) = Ok tt (v', u)) /\
    Rep c v' (temp_result k i xs) /\ vcap v' = vcap v /\ vbk v' = vbk v /\ vgen v' = vgen v.
Proof.
  intros HR Hreq Hfor.
  destruct (temp_req_split _ _ _ Hreq) as (a & b & Hxs & Ha & Hp).
  set (x := nth i xs 0) in *. clearbody x. subst i xs.
  apply consume_core; assumption.
Qed.

(** consumption (after the value has left): compaction and length as Vec *)
Theorem temp_consume_spec c v u xs k i h known :
  Rep c v xs -> temp_req k i xs -> temp_for c v xs k i h ->
  exists v',
    temp_consume c known h (with_len (N.of_nat i) v, u) = Ok tt (v', u) /\
    Rep c v' (temp_result k i xs) /\ vcap v' = vcap v /\ vbk v' = vbk v /\ vgen v' = vgen v.
Proof.
  intros HR Hreq Hfor.
  destruct (temp_consume_explicit c v u xs k i h HR Hreq Hfor) as (v' & H & Hrest).
  exists v'. split; [apply H | exact Hrest].
Qed.

(** both dispatch arms agree *)
Corollary temp_consume_arms_agree c v u xs k i h :
  Rep c v xs -> temp_req k i xs -> temp_for c v xs k i h ->
  temp_consume c true h (with_len (N.of_nat i) v, u)
  = temp_consume c false h (with_len (N.of_nat i) v, u).
Proof.
  intros HR Hreq Hfor.
  destruct (temp_consume_explicit c v u xs k i h HR Hreq Hfor) as (v' & H & _).
  rewrite !H. reflexivity.
Qed.

(** ** Drop *)
(** the destructor call of [temp_drop], up to the fuse *)
Lemma temp_drop_head c v u xs k i h :
  Rep c v xs -> temp_req k i xs -> temp_for c v xs k i h ->
  drop_at c (bo c (N.of_nat i)) (with_len (N.of_nat i) v, u)
  = user_call (with_len (N.of_nat i) v, emit (EDrop (nth i xs 0)) u).
Proof.
  intros HR Hreq Hfor.
  destruct (temp_req_split _ _ _ Hreq) as (a & b & Hxs & Ha & _).
  set (x := nth i xs 0) in *. clearbody x. subst i xs.
  pose proof (elem_range _ _ _ _ _ HR) as Hrg.
  destruct (rep_tok_split _ _ _ _ _ HR) as (_ & Tx & _).
  unfold drop_at, bind. rewrite bo_nat.
  rewrite check_range_ok by (try exact (rep_store _ _ _ HR); cbn [vcap with_len]; lia).
  unfold getv. cbn [fst snd vmem with_len].
  rewrite (elem_bytes _ _ _ _ _ HR), (dec_enc _ _ Tx).
  unfold emitv. cbn [fst snd]. reflexivity.
Qed.

(** drop of the handle: the element is destroyed exactly once, then compaction *)
Theorem temp_drop_spec c v u xs k i h known :
  Rep c v xs -> temp_req k i xs -> temp_for c v xs k i h -> ufuse u = None ->
  exists v' u',
    temp_drop c known h (with_len (N.of_nat i) v, u) = Ok tt (v', u') /\
    Rep c v' (temp_result k i xs) /\ vcap v' = vcap v /\ vbk v' = vbk v /\
    unext u' = unext u /\ ufuse u' = None /\
    ulog u' = (if c_dg c then [EDrop (nth i xs 0)] else []) ++ ulog u.
Proof.
  intros HR Hreq Hfor Hfuse.
  unfold temp_drop. unfold bind at 1. rewrite (temp_ptr_ok _ _ _ _ _ _ _ Hfor).
  unfold bind at 1.
  destruct (c_dg c).
  - unfold bind at 1. unfold getv at 1. cbn [fst snd pgen poff ptr_at vgen with_len].
    rewrite N.eqb_refl. cbn [negb]. unfold bind at 1. unfold ret at 1.
    rewrite (temp_drop_head _ _ _ _ _ _ _ HR Hreq Hfor).
    unfold user_call, tick. cbn [fst snd emit ufuse]. rewrite Hfuse.
    destruct (temp_consume_explicit c v (emit (EDrop (nth i xs 0)) u) xs k i h HR Hreq Hfor)
      as (v' & H & HR' & Hc & Hb & _).
    exists v', (emit (EDrop (nth i xs 0)) u).
    split; [apply H|]. cbn [emit unext ufuse ulog app]. auto 10.
  - unfold ret at 1.
    destruct (temp_consume_explicit c v u xs k i h HR Hreq Hfor)
      as (v' & H & HR' & Hc & Hb & _).
    exists v', u. split; [apply H|]. cbn [app]. auto 10.
Qed.

(** a destructor that panics (fuse at 0) leaves the valid prefix: the tail is leaked,
    nothing is duplicated (C06 for removal handles) *)
Theorem temp_drop_panics c v u xs k i h known :
  Rep c v xs -> temp_req k i xs -> temp_for c v xs k i h -> c_dg c = true -> ufuse u = Some 0 ->
  exists u',
    temp_drop c known h (with_len (N.of_nat i) v, u) = Panic PUser (with_len (N.of_nat i) v, u') /\
    ufuse u' = None /\ ulog u' = EDrop (nth i xs 0) :: ulog u.
Proof.
  intros HR Hreq Hfor Hdg Hfuse.
  unfold temp_drop. unfold bind at 1. rewrite (temp_ptr_ok _ _ _ _ _ _ _ Hfor).
  unfold bind at 1. rewrite Hdg.
  unfold bind at 1. unfold getv at 1. cbn [fst snd pgen poff ptr_at vgen with_len].
  rewrite N.eqb_refl. cbn [negb]. unfold bind at 1. unfold ret at 1.
  rewrite (temp_drop_head _ _ _ _ _ _ _ HR Hreq Hfor).
  unfold user_call, tick. cbn [fst snd emit ufuse]. rewrite Hfuse.
  cbn [N.eqb].
  eexists. split; [reflexivity|]. split; reflexivity.
Qed.
