(** * into_range, drain and splice: independent of the consumption pattern the vector
      ends as Vec::drain / Vec::splice leave it. *)
From AV.Model Require Import Base Bytes Vec Ops.
From AV.Spec Require Import VecSpec.
From AV.Proofs Require Import MemLemmas Rep VecProofs.
Arguments N.add : simpl never.
Arguments N.sub : simpl never.
Arguments N.mul : simpl never.


(** ** Auxiliary: memory frame lemmas for [mwrite] and slot-level [Held] reasoning *)
Section MemAux.
Local Open Scope nat_scope.

Lemma skipn_skipn' {A} (x y : nat) (l : list A) : skipn x (skipn y l) = skipn (y + x) l.
Proof.
  revert l. induction y as [|y IH]; intros l.
  - reflexivity.
  - destruct l as [|a l]; cbn [skipn Nat.add].
    + apply skipn_nil.
    + apply IH.
Qed.

Lemma mwrite_firstn off bs (m : mem) k :
  k <= off -> off <= length m -> firstn k (mwrite off bs m) = firstn k m.
Proof.
  intros Hk Ho. unfold mwrite. rewrite firstn_app_le by (rewrite firstn_length; lia).
  rewrite firstn_firstn. f_equal. lia.
Qed.

Lemma mwrite_mid off bs (m : mem) :
  off <= length m -> firstn (length bs) (skipn off (mwrite off bs m)) = bs.
Proof.
  intros Ho. unfold mwrite. rewrite skipn_app_l by (rewrite firstn_length; lia).
  apply firstn_app_l. reflexivity.
Qed.

Lemma mwrite_skipn off bs (m : mem) k :
  off <= length m -> off + length bs <= k -> skipn k (mwrite off bs m) = skipn k m.
Proof.
  intros Ho Hk. unfold mwrite.
  rewrite skipn_app_ge by (rewrite firstn_length; lia).
  rewrite firstn_length. replace (Nat.min off (length m)) with off by lia.
  rewrite skipn_app_ge by lia.
  rewrite skipn_skipn'. f_equal. lia.
Qed.

Lemma mwrite_mwrite_app off a b (m : mem) :
  off <= length m ->
  mwrite (off + length a) b (mwrite off a m) = mwrite off (a ++ b) m.
Proof.
  intros Ho. unfold mwrite at 1.
  rewrite (mwrite_skipn off a m) by lia.
  unfold mwrite.
  rewrite (app_assoc (firstn off m) a).
  rewrite firstn_app_l by (rewrite app_length, firstn_length; lia).
  rewrite app_length, <- !app_assoc. do 4 f_equal. lia.
Qed.

Definition HeldM (sz : nat) (m : mem) (off : nat) (ys : list N) : Prop :=
  firstn (length ys * sz) (skipn (off * sz) m) = flat sz ys.

Lemma heldm_firstn_eq sz m m' off ys K :
  HeldM sz m off ys -> firstn K m' = firstn K m -> (off + length ys) * sz <= K ->
  HeldM sz m' off ys.
Proof.
  unfold HeldM. intros Hh He Hle.
  rewrite firstn_skipn_comm in *.
  replace (off * sz + length ys * sz) with (Nat.min (off * sz + length ys * sz) K) in * by lia.
  rewrite <- firstn_firstn in *. rewrite He. exact Hh.
Qed.

Lemma heldm_mwrite_before sz m off ys woff bs :
  HeldM sz m off ys -> (off + length ys) * sz <= woff -> woff <= length m ->
  HeldM sz (mwrite woff bs m) off ys.
Proof.
  intros Hh Hle Hw. apply (heldm_firstn_eq sz m _ off ys woff Hh); [|exact Hle].
  apply mwrite_firstn; lia.
Qed.

Lemma heldm_mwrite_after sz m off ys woff bs :
  HeldM sz m off ys -> woff + length bs <= off * sz -> woff <= length m ->
  HeldM sz (mwrite woff bs m) off ys.
Proof.
  unfold HeldM. intros Hh Hle Hw. rewrite mwrite_skipn by lia. exact Hh.
Qed.

Lemma heldm_mwrite_at sz m off ys :
  off * sz <= length m -> HeldM sz (mwrite (off * sz) (flat sz ys) m) off ys.
Proof.
  intros Ho. unfold HeldM. rewrite <- (flat_length sz ys). apply mwrite_mid. exact Ho.
Qed.

End MemAux.


(** ** Auxiliary: step lemmas for the primitives *)
Lemma bind_ok {S A B} (m : M S A) (f : A -> M S B) s a s' :
  m s = Ok a s' -> bind m f s = f a s'.
Proof. intros H. unfold bind. rewrite H. reflexivity. Qed.
Lemma bind_panic {S A B} (m : M S A) (f : A -> M S B) s p s' :
  m s = Panic p s' -> bind m f s = Panic p s'.
Proof. intros H. unfold bind. rewrite H. reflexivity. Qed.
Lemma unwinding_ok {A} (m : M st A) cl s a s' :
  m s = Ok a s' -> unwinding_st m cl s = Ok a s'.
Proof. intros H. unfold unwinding_st, on_unwind. rewrite H. reflexivity. Qed.

Lemma cap_bytes c v : N.to_nat (vcap v * c_sz c) = (N.to_nat (vcap v) * szn c)%nat.
Proof. unfold szn. lia. Qed.

Lemma check_range_ok c v u off n :
  store_ok c v -> (off + n <= N.to_nat (vcap v) * szn c)%nat ->
  check_range c off n (v, u) = Ok tt (v, u).
Proof.
  intros Hst Hle. unfold store_ok in Hst. rewrite cap_bytes in Hst.
  unfold check_range, bind, getv, ret. cbn [fst].
  rewrite (proj2 (N.leb_le _ _)), (proj2 (Nat.leb_le _ _)); [reflexivity | lia |].
  unfold szn in *. lia.
Qed.

Lemma held_one c v p t :
  Held c v p [t] -> msub (p * szn c) (szn c) (vmem v) = enc (szn c) t.
Proof.
  unfold Held, msub. cbn [length flat]. rewrite app_nil_r, Nat.mul_1_l. auto.
Qed.

Lemma user_call_ok v u : ufuse u = None -> user_call (v, u) = Ok tt (v, u).
Proof. intros Hf. unfold user_call, tick. cbn [fst snd]. rewrite Hf. reflexivity. Qed.

Lemma drop_at_ok c v u p t :
  store_ok c v -> N.of_nat (p + 1) <= vcap v -> Held c v p [t] -> tok_ok (szn c) t ->
  ufuse u = None ->
  drop_at c (p * szn c) (v, u) = Ok tt (v, emit (EDrop t) u).
Proof.
  intros Hst Hle Hh Ht Hf. unfold drop_at, bind.
  rewrite check_range_ok by (try assumption; nia).
  unfold getv. cbn [fst]. rewrite (held_one c v p t Hh), (dec_enc _ _ Ht).
  unfold emitv. cbn [fst snd]. apply user_call_ok. exact Hf.
Qed.

Lemma drop_loop_ok c v ys : forall p u,
  store_ok c v -> N.of_nat (p + length ys) <= vcap v -> Held c v p ys ->
  Forall (tok_ok (szn c)) ys -> ufuse u = None ->
  exists u', drop_loop c (p * szn c) (length ys) (v, u) = Ok tt (v, u') /\
    ulog u' = rev (map EDrop ys) ++ ulog u /\ unext u' = unext u /\ ufuse u' = None.
Proof.
  induction ys as [|y ys IH]; intros p u Hst Hle Hh Hall Hf.
  - exists u. cbn. auto.
  - cbn [length] in Hle. cbn [length drop_loop].
    apply (held_split c v p [y] ys) in Hh. destruct Hh as [H1 H2].
    inversion Hall; subst.
    unfold bind. rewrite (drop_at_ok c v u p y) by (auto; lia).
    replace (p * szn c + szn c)%nat with ((p + 1) * szn c)%nat by lia.
    destruct (IH (p + 1)%nat (emit (EDrop y) u)) as [u' [E [L [Nx F]]]]; auto.
    + lia.
    + exists u'. split; [exact E|]. cbn [map rev]. rewrite <- app_assoc. cbn [app]. auto.
Qed.

Lemma drop_slice_ok c v ys : forall p u,
  store_ok c v -> N.of_nat (p + length ys) <= vcap v -> Held c v p ys ->
  Forall (tok_ok (szn c)) ys -> ufuse u = None ->
  exists u', drop_slice c (p * szn c) (length ys) (v, u) = Ok tt (v, u') /\
    ulog u' = rev (map EDrop ys) ++ ulog u /\ unext u' = unext u /\ ufuse u' = None.
Proof.
  induction ys as [|y ys IH]; intros p u Hst Hle Hh Hall Hf.
  - exists u. cbn. auto.
  - cbn [length] in Hle. cbn [length drop_slice].
    apply (held_split c v p [y] ys) in Hh. destruct Hh as [H1 H2].
    inversion Hall; subst.
    rewrite (drop_at_ok c v u p y) by (auto; lia).
    replace (p * szn c + szn c)%nat with ((p + 1) * szn c)%nat by lia.
    destruct (IH (p + 1)%nat (emit (EDrop y) u)) as [u' [E [L [Nx F]]]]; auto.
    + lia.
    + exists u'. split; [exact E|]. cbn [map rev]. rewrite <- app_assoc. cbn [app]. auto.
Qed.

Lemma drop_range_ok c known v u ys i j :
  store_ok c v -> (i <= j)%nat -> N.of_nat j <= vcap v -> length ys = (j - i)%nat ->
  Held c v i ys -> Forall (tok_ok (szn c)) ys -> ufuse u = None ->
  exists u', drop_range c known (N.of_nat i) (N.of_nat j) (v, u) = Ok tt (v, u') /\
    ulog u' = (if c_dg c then rev (map EDrop ys) else []) ++ ulog u /\
    unext u' = unext u /\ ufuse u' = None.
Proof.
  intros Hst Hij Hj Hlen Hh Hall Hf. unfold drop_range, bind, assert_.
  rewrite (proj2 (N.leb_le (N.of_nat i) (N.of_nat j))) by lia.
  rewrite orb_true_r. unfold ret at 1.
  rewrite bo_of_nat.
  replace (N.to_nat (N.of_nat j - N.of_nat i)) with (length ys) by lia.
  destruct (c_dg c).
  - destruct known; [apply drop_slice_ok | apply drop_loop_ok]; auto; lia.
  - exists u. unfold ret. auto.
Qed.

Lemma shift_ok c v u a b ys :
  store_ok c v -> N.of_nat (a + length ys) <= vcap v -> N.of_nat (b + length ys) <= vcap v ->
  Held c v a ys ->
  shift c true (a * szn c) (b * szn c) (length ys * szn c) (v, u)
  = Ok tt (with_mem (mwrite (b * szn c) (flat (szn c) ys) (vmem v)) v, u).
Proof.
  intros Hst Ha Hb Hh. unfold shift, bind.
  rewrite !check_range_ok by (try assumption; nia).
  unfold setv. cbn [fst snd]. unfold memmove, msub.
  unfold Held in Hh. rewrite Hh. reflexivity.
Qed.

Lemma move_elements_ok c v u src dst n ys :
  store_ok c v -> N.to_nat n = length ys -> src + n <= vcap v -> dst + n <= vcap v ->
  Held c v (N.to_nat src) ys ->
  move_elements c src dst n (v, u)
  = Ok tt (with_mem (mwrite (N.to_nat dst * szn c) (flat (szn c) ys) (vmem v)) v, u).
Proof.
  intros Hst Hn Hs Hd Hh. unfold move_elements.
  change (N.to_nat (c_sz c * n)) with (bo c n). rewrite !szn_bo, Hn.
  apply shift_ok; auto; lia.
Qed.

Lemma write_value_ok c v u p t k :
  store_ok c v -> N.of_nat (p + 1) <= vcap v ->
  write_value c (p * szn c) (VBytes (enc (szn c) t) k) (v, u)
  = Ok tt (with_mem (mwrite (p * szn c) (enc (szn c) t) (vmem v)) v, u).
Proof.
  intros Hst Hle. unfold write_value, bind.
  rewrite check_range_ok by (try assumption; nia).
  rewrite enc_length, Nat.eqb_refl. reflexivity.
Qed.


Lemma Forall_firstn' {A} (P : A -> Prop) n (l : list A) : Forall P l -> Forall P (firstn n l).
Proof.
  rewrite !Forall_forall. intros H x Hx. apply H.
  rewrite <- (firstn_skipn n l). apply in_or_app. left. exact Hx.
Qed.
Lemma Forall_skipn' {A} (P : A -> Prop) n (l : list A) : Forall P l -> Forall P (skipn n l).
Proof.
  rewrite !Forall_forall. intros H x Hx. apply H.
  rewrite <- (firstn_skipn n l). apply in_or_app. right. exact Hx.
Qed.

(** the storage after the tail has been copied to slot [dst] *)
Lemma moved_state c v pre tail dst :
  store_ok c v -> N.of_nat (dst + length tail) <= vcap v ->
  Held c v 0 pre -> (length pre <= dst)%nat ->
  let v' := with_mem (mwrite (dst * szn c) (flat (szn c) tail) (vmem v)) v in
  store_ok c v' /\ Held c v' 0 pre /\ Held c v' dst tail.
Proof.
  intros Hst Hcap Hp Hle v'.
  assert (Hb : (dst * szn c + length tail * szn c <= length (vmem v))%nat).
  { unfold store_ok in Hst. rewrite cap_bytes in Hst. nia. }
  split; [|split].
  - unfold store_ok, v'. cbn [vcap vmem with_mem].
    rewrite mwrite_length; [exact Hst|]. rewrite flat_length. lia.
  - change (HeldM (szn c) (vmem v') 0 pre). unfold v'. cbn [vmem with_mem].
    apply heldm_mwrite_before; [exact Hp | cbn [Nat.add]; nia | lia].
  - change (HeldM (szn c) (vmem v') dst tail). unfold v'. cbn [vmem with_mem].
    apply heldm_mwrite_at. lia.
Qed.



Lemma filter_all_true {A} (f : A -> bool) (l : list A) :
  Forall (fun x => f x = true) l -> filter f l = l.
Proof.
  induction 1 as [|x l Hx Hl IH]; cbn [filter]; [reflexivity|]. rewrite Hx, IH. reflexivity.
Qed.
Lemma uevents_drops (b : bool) (l : list N) (lg : list event) :
  filter is_user_event ((if b then rev (map EDrop l) else []) ++ lg)
  = (if b then rev (map EDrop l) else []) ++ filter is_user_event lg.
Proof.
  rewrite filter_app. f_equal. destruct b; [|reflexivity].
  apply filter_all_true. apply Forall_rev. apply Forall_forall.
  intros x Hx. apply in_map_iff in Hx. destruct Hx as [t [<- _]]. reflexivity.
Qed.
Lemma uevents_nexts n (lg : list event) :
  filter is_user_event (repeat ENext n ++ lg) = repeat ENext n ++ filter is_user_event lg.
Proof.
  rewrite filter_app. f_equal. apply filter_all_true. apply Forall_forall.
  intros x Hx. apply repeat_spec in Hx. subst x. reflexivity.
Qed.

(** [reserve] either finds room or grows, keeping every byte of the old capacity *)
Lemma reserve_ok c v u xs add :
  cfg_wf c -> Rep c v xs -> (vlen v + add <= vcap v \/ grow_ok c v (vlen v + add)) ->
  exists v' u',
    reserve c add (v, u) = Ok tt (v', u') /\
    Rep c v' xs /\ vlen v + add <= vcap v' /\ vcap v <= vcap v' /\
    vlen v' = vlen v /\ vbk v' = vbk v /\
    same_user u u' /\
    firstn (N.to_nat (vcap v * c_sz c)) (vmem v') = firstn (N.to_nat (vcap v * c_sz c)) (vmem v).
Proof.
  intros Hwf HR Hroom.
  assert (Hmax : vlen v + add <= usize_max).
  { destruct Hroom as [Hr | Hg].
    - pose proof (rep_usize _ _ _ HR). lia.
    - unfold grow_ok in Hg. destruct (vbk v); tauto. }
  unfold reserve, bind, getv, of_ovf, of_opt, checked_add. cbn [fst].
  rewrite (proj2 (N.leb_le _ _) Hmax). unfold ret at 1.
  destruct (N.ltb_spec (vcap v) (vlen v + add)) as [Hlt | Hge].
  - destruct Hroom as [Hr | Hg]; [lia|].
    destruct (mem_expand_ok c v u xs (vlen v + add - vcap v) Hwf HR)
      as [v' [u' [E [HR' [_ [Hc [Hl [Hb [Hu Hm]]]]]]]]].
    { replace (vcap v + (vlen v + add - vcap v)) with (vlen v + add) by lia. exact Hg. }
    exists v', u'. split; [exact E|]. split; [exact HR'|]. split; [lia|]. split; [lia|].
    split; [exact Hl|]. split; [exact Hb|]. split; [exact Hu|exact Hm].
  - exists v, u. unfold ret. split; [reflexivity|]. split; [exact HR|]. split; [lia|].
    split; [lia|]. unfold same_user. auto 10.
Qed.

(** with room, [reserve] leaves the state untouched *)
Lemma reserve_room_same c v u add v' u' :
  vlen v + add <= vcap v -> vcap v <= usize_max ->
  reserve c add (v, u) = Ok tt (v', u') -> v' = v /\ u' = u.
Proof.
  intros Hr Hu. unfold reserve, bind, getv, of_ovf, of_opt, checked_add. cbn [fst].
  assert (Hm : vlen v + add <= usize_max) by lia.
  rewrite (proj2 (N.leb_le _ _) Hm). unfold ret at 1.
  destruct (N.ltb_spec (vcap v) (vlen v + add)) as [Hlt|_]; [lia|].
  unfold ret. intros H. injection H as <- <-. auto.
Qed.

Lemma reserve_fixed c v u add :
  vlen v + add <= usize_max -> vcap v < vlen v + add -> fixed_backend (vbk v) ->
  reserve c add (v, u) = Panic PCapacity (v, u).
Proof.
  intros Hmax Hlt Hfix.
  unfold reserve, bind, getv, of_ovf, of_opt, checked_add. cbn [fst].
  rewrite (proj2 (N.leb_le _ _) Hmax). unfold ret at 1.
  rewrite (proj2 (N.ltb_lt _ _) Hlt). apply mem_expand_fixed. exact Hfix.
Qed.

(** ** into_range = the RangeBounds normalisation of the specification, panics included *)
Definition to_sbound (b : bound) : sbound :=
  match b with BUnbounded => SUnbounded | BIncluded i => SIncluded i | BExcluded i => SExcluded i end.

Theorem into_range_spec (len : N) (sb eb : bound) (s : st) :
  match range_of_bounds usize_max len (to_sbound sb) (to_sbound eb) with
  | Some (a, b) => into_range len sb eb s = Ok (a, b) s
  | None => exists p, into_range len sb eb s = Panic p s
  end.
Proof.
  unfold range_of_bounds, into_range, bind, of_opt, checked_add, assert_, ret, raise.
  destruct sb as [|i|i], eb as [|j|j]; cbn [to_sbound];
    repeat match goal with
           | |- context [N.leb ?a ?b] => destruct (N.leb a b) eqn:?
           end; cbn [andb]; eauto.
Qed.

Corollary into_range_valid len sb eb s a b :
  into_range len sb eb s = Ok (a, b) s -> a <= b /\ b <= len.
Proof.
  unfold into_range, bind, of_opt, checked_add, assert_, ret, raise.
  destruct sb as [|i|i], eb as [|j|j];
    repeat match goal with
           | |- context [N.leb ?x ?y] => destruct (N.leb_spec x y)
           end; intros HH; inversion HH; subst; lia.
Qed.

(** ** drain *)
Theorem drain_new_spec c v u xs s e :
  Rep c v xs -> (s <= e)%nat -> (e <= length xs)%nat ->
  drain_new c (N.of_nat s) (N.of_nat e) (v, u)
  = Ok {| dcur := {| ci := N.of_nat s; ce := N.of_nat e |};
          dstart := N.of_nat s; dend := N.of_nat e; dorig := N.of_nat (length xs) |}
       (with_len (N.of_nat s) v, u).
Proof.
  intros HR Hse He. destruct HR as [Hlen Hcap Husize Hstore Hmem Htok].
  unfold drain_new, bind, getv, assert_, setv, ret. cbn [fst snd].
  rewrite (proj2 (N.leb_le (N.of_nat s) (N.of_nat e))) by lia.
  rewrite (proj2 (N.leb_le (N.of_nat e) (vlen v))) by lia.
  rewrite orb_true_r. rewrite Hlen. reflexivity.
Qed.

(** State of the storage while a range iterator over [s, e) with cursor [i, j) is alive:
    the prefix, the not-yet-yielded middle and the tail are intact; yielded slots are
    arbitrary (their values were moved out, possibly overwritten through the handle). *)
Record RangeAlive (c : cfg) (v : vec) (xs : list N) (s e i j : nat) : Prop := {
  ra_le : (s <= i)%nat /\ (i <= j)%nat /\ (j <= e)%nat /\ (e <= length xs)%nat;
  ra_len : vlen v = N.of_nat s;
  ra_cap : N.of_nat (length xs) <= vcap v;
  ra_usize : vcap v <= usize_max;
  ra_store : store_ok c v;
  ra_prefix : Held c v 0 (firstn s xs);
  ra_middle : Held c v i (firstn (j - i) (skipn i xs));
  ra_tail : Held c v e (skipn e xs);
  ra_tok : Forall (tok_ok (szn c)) xs
}.

Lemma range_alive_init c v xs s e :
  Rep c v xs -> (s <= e)%nat -> (e <= length xs)%nat ->
  RangeAlive c (with_len (N.of_nat s) v) xs s e s e.
Proof.
  intros HR Hse He.
  pose proof (rep_held c v xs HR) as Hall.
  rewrite <- (firstn_skipn s xs) in Hall.
  apply held_split in Hall. destruct Hall as [Hp Hs].
  rewrite firstn_length_le in Hs by lia. cbn [Nat.add] in Hs.
  pose proof Hs as Hs'.
  rewrite <- (firstn_skipn (e - s) (skipn s xs)) in Hs.
  apply held_split in Hs. destruct Hs as [Hm Ht].
  rewrite firstn_length_le in Ht by (rewrite skipn_length; lia).
  rewrite skipn_skipn' in Ht.
  replace (s + (e - s))%nat with e in Ht by lia.
  destruct HR as [Hlen Hcap Husize Hstore Hmem Htok].
  constructor; try assumption.
  - lia.
  - reflexivity.
  - cbn [vcap with_len]. lia.
Qed.

(** Dropping the drain at ANY cursor position: the un-yielded items are destroyed once each,
    the tail moves down, the result is Vec::drain's. *)
Theorem drain_drop_spec c v u xs s e i j known :
  RangeAlive c v xs s e i j -> ufuse u = None ->
  let d := {| dcur := {| ci := N.of_nat i; ce := N.of_nat j |};
              dstart := N.of_nat s; dend := N.of_nat e; dorig := N.of_nat (length xs) |} in
  exists v' u',
    drain_drop c known d (v, u) = Ok tt (v', u') /\
    Rep c v' (sp_drain s e xs) /\ vcap v' = vcap v /\ vbk v' = vbk v /\
    unext u' = unext u /\ ufuse u' = None /\
    ulog u' = (if c_dg c then rev (map EDrop (firstn (j - i) (skipn i xs))) else []) ++ ulog u.
Proof.
  intros HA Hf d. destruct HA as [Hle Hlen Hcap Hus Hst Hp Hm Ht Htok].
  destruct Hle as [Hsi [Hij [Hje Hel]]].
  assert (Htokm : Forall (tok_ok (szn c)) (firstn (j - i) (skipn i xs)))
    by (apply Forall_firstn', Forall_skipn'; exact Htok).
  destruct (drop_range_ok c known v u (firstn (j - i) (skipn i xs)) i j)
    as [u1 [E1 [L1 [N1 F1]]]]; auto; try lia.
  { rewrite firstn_length_le; [lia | rewrite skipn_length; lia]. }
  set (tail := skipn e xs) in *.
  assert (Hlt : length tail = (length xs - e)%nat) by apply skipn_length.
  assert (Hlp : length (firstn s xs) = s) by (apply firstn_length_le; lia).
  destruct (moved_state c v (firstn s xs) tail s Hst) as [Hst' [Hp' Ht']]; auto; try lia.
  eexists _, u1. split; [|split].
  - unfold drain_drop, d. cbn [dcur ci ce dend dstart dorig].
    rewrite (bind_ok _ _ _ _ _ E1).
    rewrite (bind_ok _ _ _ tt _
               (move_elements_ok c v u1 (N.of_nat e) (N.of_nat s)
                  (N.of_nat (length xs) - N.of_nat e) tail Hst
                  ltac:(lia) ltac:(lia) ltac:(lia) ltac:(rewrite Nat2N.id; exact Ht))).
    unfold setv. cbn [fst snd]. reflexivity.
  - rewrite Nat2N.id. unfold sp_drain. fold tail.
    apply rep_of_held; cbn [vlen vcap with_len with_mem]; auto.
    + rewrite app_length. lia.
    + lia.
    + apply held_app; [exact Hp'|]. rewrite Hlp. exact Ht'.
    + apply Forall_app. split; [apply Forall_firstn' | apply Forall_skipn']; exact Htok.
  - cbn [vcap vbk with_len with_mem]. auto.
Qed.

(** forgetting the drain leaves the valid prefix (C07) *)
Theorem drain_forget_rep c v xs s e i j :
  RangeAlive c v xs s e i j -> Rep c v (firstn s xs).
Proof.
  intros [Hle Hlen Hcap Hus Hst Hp Hm Ht Htok].
  apply rep_of_held; auto.
  - rewrite firstn_length_le by lia. exact Hlen.
  - lia.
  - apply Forall_forall. intros x Hx. rewrite Forall_forall in Htok. apply Htok.
    rewrite <- (firstn_skipn s xs). apply in_or_app. left. exact Hx.
Qed.

(** ** splice with an honest replacement iterator of owned values *)
Definition honest_item (c : cfg) (t : N) (k : bool) : ritem :=
  {| r_ty := c_ty c; r_src := VBytes (enc (szn c) t) k; r_owned := Some t |}.

Lemma drop_items_ok c k v ts : forall u, ufuse u = None ->
  exists u', drop_items c (map (fun t => honest_item c t k) ts) (v, u) = Ok tt (v, u') /\
    ulog u' = (if c_dg c then rev (map EDrop ts) else []) ++ ulog u /\
    unext u' = unext u /\ ufuse u' = None.
Proof.
  destruct (c_dg c) eqn:Edg.
  - induction ts as [|t ts IH]; intros u Hf.
    + exists u. cbn. auto.
    + cbn [map drop_items]. unfold drop_item at 1. cbn [r_owned honest_item]. rewrite Edg.
      unfold bind, emitv. cbn [fst snd]. rewrite user_call_ok by exact Hf.
      destruct (IH (emit (EDrop t) u) Hf) as [u' [E [L [Nx F]]]].
      exists u'. split; [exact E|]. cbn [map rev]. rewrite <- app_assoc. cbn [app]. auto.
  - induction ts as [|t ts IH]; intros u Hf.
    + exists u. cbn. auto.
    + cbn [map drop_items]. unfold drop_item at 1. cbn [r_owned honest_item]. rewrite Edg.
      unfold ret at 1. apply IH. exact Hf.
Qed.

Lemma with_mem_id v : with_mem (vmem v) v = v.
Proof. destruct v. reflexivity. Qed.

Lemma mwrite_nil off (m : mem) : mwrite off [] m = m.
Proof. unfold mwrite. cbn [app length]. rewrite Nat.add_0_r. apply firstn_skipn. Qed.

Lemma splice_fill_ok c k ts : forall p w v u,
  store_ok c v -> N.of_nat (p + length ts) <= vcap v -> ufuse u = None ->
  exists u',
    splice_fill c (p * szn c) (length ts) w (map (fun t => honest_item c t k) ts) (v, u)
    = Ok (w + N.of_nat (length ts), [])
         (with_mem (mwrite (p * szn c) (flat (szn c) ts) (vmem v)) v, u') /\
    ulog u' = repeat ENext (length ts) ++ ulog u /\ unext u' = unext u /\ ufuse u' = None.
Proof.
  induction ts as [|t ts IH]; intros p w v u Hst Hle Hf.
  - exists u. cbn [length map splice_fill flat repeat app]. rewrite mwrite_nil, with_mem_id.
    unfold ret. rewrite N.add_0_r. auto.
  - cbn [length] in Hle. cbn [length map splice_fill].
    rewrite (bind_ok _ _ (v, u) tt (v, emit ENext u)) by reflexivity.
    rewrite (bind_ok _ _ _ tt (v, emit ENext u))
      by (apply unwinding_ok, user_call_ok; exact Hf).
    rewrite (bind_ok _ _ _ tt
               (with_mem (mwrite (p * szn c) (enc (szn c) t) (vmem v)) v, emit ENext u)).
    2:{ apply unwinding_ok. cbn [r_ty r_src honest_item]. rewrite N.eqb_refl.
        rewrite (bind_ok _ _ _ tt (v, emit ENext u)) by reflexivity.
        apply write_value_ok; [exact Hst | lia]. }
    assert (Hb : (p * szn c + szn c <= length (vmem v))%nat).
    { unfold store_ok in Hst. rewrite cap_bytes in Hst. nia. }
    replace (p * szn c + szn c)%nat with ((p + 1) * szn c)%nat by lia.
    destruct (IH (p + 1)%nat (w + 1)
                (with_mem (mwrite (p * szn c) (enc (szn c) t) (vmem v)) v) (emit ENext u))
      as [u' [E [L [Nx F]]]].
    + unfold store_ok. cbn [vcap vmem with_mem]. rewrite mwrite_length; [exact Hst|].
      rewrite enc_length. exact Hb.
    + cbn [vcap with_mem]. lia.
    + exact Hf.
    + exists u'. split; [|split; [|split]]; auto.
      * rewrite E. cbn [vmem with_mem flat].
        replace ((p + 1) * szn c)%nat with (p * szn c + length (enc (szn c) t))%nat
          by (rewrite enc_length; lia).
        rewrite mwrite_mwrite_app by lia.
        replace (w + 1 + N.of_nat (length ts)) with (w + N.of_nat (S (length ts))) by lia.
        reflexivity.
      * rewrite L. cbn [ulog emit repeat]. rewrite (repeat_cons (length ts) ENext).
        rewrite <- app_assoc. reflexivity.
Qed.



(** Steps 0-2 of [Splice::drop] *)
Lemma splice_prep_ok c v u xs s e i j known n :
  cfg_wf c -> RangeAlive c v xs s e i j -> ufuse u = None ->
  let new_len := (s + n + (length xs - e))%nat in
  (N.of_nat new_len <= vcap v \/ grow_ok c v (N.of_nat new_len)) ->
  let d := {| dcur := {| ci := N.of_nat i; ce := N.of_nat j |};
              dstart := N.of_nat s; dend := N.of_nat e; dorig := N.of_nat (length xs) |} in
  exists v2 u2,
    splice_prep c known d (N.of_nat n) (v, u) = Ok (N.of_nat s + N.of_nat n) (v2, u2) /\
    vlen v2 = N.of_nat s /\ N.of_nat new_len <= vcap v2 /\ vcap v2 <= usize_max /\
    store_ok c v2 /\ Held c v2 0 (firstn s xs) /\ Held c v2 (s + n) (skipn e xs) /\
    vbk v2 = vbk v /\ unext u2 = unext u /\ ufuse u2 = None /\
    uevents u2 = (if c_dg c then rev (map EDrop (firstn (j - i) (skipn i xs))) else [])
                 ++ uevents u /\
    (N.of_nat new_len <= vcap v -> vcap v2 = vcap v).
Proof.
  intros Hwf HA Hf new_len Hroom d.
  pose proof (drain_forget_rep _ _ _ _ _ _ _ HA) as HR.
  destruct HA as [Hle Hlen Hcap Hus Hst Hp Hm Ht Htok].
  destruct Hle as [Hsi [Hij [Hje Hel]]].
  assert (Hmax : N.of_nat new_len <= usize_max).
  { destruct Hroom as [Hr | Hg]; [lia|]. unfold grow_ok in Hg. destruct (vbk v); tauto. }
  set (add := N.of_nat s + N.of_nat n + (N.of_nat (length xs) - N.of_nat e) - N.of_nat s).
  assert (Hadd : vlen v + add = N.of_nat new_len) by (unfold add, new_len; lia).
  (* 0. capacity *)
  destruct (reserve_ok c v u (firstn s xs) add Hwf HR) as
      [v1 [u1 [E0 [HR1 [Hc1 [Hcc1 [Hl1 [Hb1 [[Hn1 [Hf1 He1]] Hm1]]]]]]]]].
  { rewrite Hadd. exact Hroom. }
  rewrite Hadd in Hc1.
  pose proof (rep_store _ _ _ HR1) as Hst1.
  pose proof (rep_usize _ _ _ HR1) as Hus1.
  pose proof (rep_held _ _ _ HR1) as Hp1.
  assert (Hkeep : forall off ys, Held c v off ys -> N.of_nat (off + length ys) <= vcap v ->
                                 Held c v1 off ys).
  { intros off ys Hh Hb. refine (heldm_firstn_eq _ _ _ _ _ _ Hh Hm1 _).
    rewrite cap_bytes. nia. }
  assert (Hlm : length (firstn (j - i) (skipn i xs)) = (j - i)%nat).
  { rewrite firstn_length_le; [lia | rewrite skipn_length; lia]. }
  assert (Hlt : length (skipn e xs) = (length xs - e)%nat) by apply skipn_length.
  assert (Hlp : length (firstn s xs) = s) by (apply firstn_length_le; lia).
  assert (Hm' : Held c v1 i (firstn (j - i) (skipn i xs))) by (apply Hkeep; [exact Hm | lia]).
  assert (Ht' : Held c v1 e (skipn e xs)) by (apply Hkeep; [exact Ht | lia]).
  (* 1. drop *)
  assert (Htokm : Forall (tok_ok (szn c)) (firstn (j - i) (skipn i xs)))
    by (apply Forall_firstn', Forall_skipn'; exact Htok).
  destruct (drop_range_ok c known v1 u1 (firstn (j - i) (skipn i xs)) i j)
    as [u2 [E1 [L1 [N1 F1]]]]; auto; try lia.
  { congruence. }
  (* 2. move *)
  destruct (moved_state c v1 (firstn s xs) (skipn e xs) (s + n) Hst1) as [Hst2 [Hp2 Ht2]];
    auto; try (unfold new_len in Hc1; lia).
  exists (with_mem (mwrite ((s + n) * szn c) (flat (szn c) (skipn e xs)) (vmem v1)) v1), u2.
  split; [|split; [|split; [|split; [|split; [|split; [|split; [|split; [|split; [|split; [|split]]]]]]]]]].
  - unfold splice_prep, d. cbn [dcur ci ce dend dstart dorig].
    unfold of_ovf, of_opt, checked_add.
    rewrite (proj2 (N.leb_le (N.of_nat s + N.of_nat n) usize_max))
      by (unfold new_len in Hmax; lia).
    rewrite (bind_ok _ _ (v, u) _ (v, u) eq_refl).
    rewrite (proj2 (N.leb_le (N.of_nat s + N.of_nat n + (N.of_nat (length xs) - N.of_nat e))
                      usize_max))
      by (unfold new_len in Hmax; lia).
    rewrite (bind_ok _ _ (v, u) _ (v, u) eq_refl).
    fold add. rewrite (bind_ok _ _ _ _ _ E0).
    rewrite (bind_ok _ _ _ _ _ E1).
    rewrite (bind_ok _ _ _ tt _
               (move_elements_ok c v1 u2 (N.of_nat e) (N.of_nat s + N.of_nat n)
                  (N.of_nat (length xs) - N.of_nat e) (skipn e xs) Hst1
                  ltac:(lia) ltac:(unfold new_len in Hc1; lia)
                  ltac:(unfold new_len in Hc1; lia)
                  ltac:(rewrite Nat2N.id; exact Ht'))).
    unfold ret. replace (N.to_nat (N.of_nat s + N.of_nat n)) with (s + n)%nat by lia.
    reflexivity.
  - cbn [vlen with_mem]. congruence.
  - exact Hc1.
  - exact Hus1.
  - exact Hst2.
  - exact Hp2.
  - exact Ht2.
  - exact Hb1.
  - congruence.
  - exact F1.
  - unfold uevents. rewrite L1, uevents_drops. f_equal. exact He1.
  - intros Hfit. cbn [with_mem vcap].
    destruct (reserve_room_same c v u add v1 u1) as [-> _]; [rewrite Hadd; exact Hfit|exact Hus|exact E0|reflexivity].
Qed.

Theorem splice_drop_spec c v u xs s e i j known ts k :
  cfg_wf c -> RangeAlive c v xs s e i j -> ufuse u = None ->
  Forall (tok_ok (szn c)) ts ->
  let new_len := (s + length ts + (length xs - e))%nat in
  (N.of_nat new_len <= vcap v \/ grow_ok c v (N.of_nat new_len)) ->
  let d := {| dcur := {| ci := N.of_nat i; ce := N.of_nat j |};
              dstart := N.of_nat s; dend := N.of_nat e; dorig := N.of_nat (length xs) |} in
  exists v' u',
    splice_drop c known d (N.of_nat (length ts)) (map (fun t => honest_item c t k) ts) (v, u)
      = Ok tt (v', u') /\
    Rep c v' (sp_splice s e ts xs) /\ vbk v' = vbk v /\
    unext u' = unext u /\ ufuse u' = None /\
    uevents u' = repeat ENext (length ts)
                 ++ (if c_dg c then rev (map EDrop (firstn (j - i) (skipn i xs))) else [])
                 ++ uevents u /\
    (N.of_nat new_len <= vcap v -> vcap v' = vcap v).
Proof.
  intros Hwf HA Hf Htoks new_len Hroom d.
  destruct (splice_prep_ok c v u xs s e i j known (length ts) Hwf HA Hf Hroom)
    as [v2 [u2 [E2 [Hl2 [Hc2 [Hus2 [Hst2 [Hp2 [Ht2 [Hb2 [Hn2 [Hf2 [He2 Hcap2]]]]]]]]]]]]].
  fold new_len in Hc2.
  destruct HA as [Hle Hlen Hcap Hus Hst Hp Hm Ht Htok].
  destruct Hle as [Hsi [Hij [Hje Hel]]].
  assert (Hlt : length (skipn e xs) = (length xs - e)%nat) by apply skipn_length.
  assert (Hlp : length (firstn s xs) = s) by (apply firstn_length_le; lia).
  (* 3. fill *)
  destruct (splice_fill_ok c k ts s 0 v2 u2 Hst2) as [u3 [E3 [L3 [N3 F3]]]];
    [unfold new_len in Hc2; lia | exact Hf2 |].
  set (v3 := with_mem (mwrite (s * szn c) (flat (szn c) ts) (vmem v2)) v2) in *.
  assert (Hb : ((s + length ts) * szn c + (length xs - e) * szn c <= length (vmem v2))%nat).
  { unfold store_ok in Hst2. rewrite cap_bytes in Hst2. unfold new_len in Hc2. nia. }
  assert (Hb' : (s * szn c + length ts * szn c <= length (vmem v2))%nat) by nia.
  assert (Hst3 : store_ok c v3).
  { unfold store_ok, v3. cbn [vcap vmem with_mem].
    rewrite mwrite_length; [exact Hst2|]. rewrite flat_length. lia. }
  assert (Hp3 : Held c v3 0 (firstn s xs)).
  { change (HeldM (szn c) (vmem v3) 0 (firstn s xs)). unfold v3. cbn [vmem with_mem].
    apply heldm_mwrite_before; [exact Hp2 | rewrite Hlp; lia | lia]. }
  assert (Hts3 : Held c v3 s ts).
  { change (HeldM (szn c) (vmem v3) s ts). unfold v3. cbn [vmem with_mem].
    apply heldm_mwrite_at. lia. }
  assert (Ht3 : Held c v3 (s + length ts) (skipn e xs)).
  { change (HeldM (szn c) (vmem v3) (s + length ts) (skipn e xs)). unfold v3.
    cbn [vmem with_mem].
    apply heldm_mwrite_after; [exact Ht2 | rewrite flat_length; lia | lia]. }
  exists (with_len (N.of_nat s + (0 + N.of_nat (length ts))
                    + (N.of_nat (length xs) - N.of_nat e)) v3), u3.
  split; [|split; [|split; [|split; [|split; [|split]]]]].
  - unfold splice_drop, d. cbn [dcur ci ce dend dstart dorig].
    rewrite (bind_ok _ _ _ _ _ (unwinding_ok _ _ _ _ _ E2)).
    rewrite bo_of_nat, Nat2N.id.
    rewrite (bind_ok _ _ _ _ _ E3).
    rewrite (proj2 (N.ltb_ge _ _)) by lia.
    rewrite (bind_ok _ _ _ tt (v3, u3) eq_refl).
    reflexivity.
  - unfold sp_splice.
    apply rep_of_held; cbn [vlen vcap with_len with_mem v3]; auto.
    + rewrite !app_length. lia.
    + unfold new_len in Hc2. lia.
    + apply held_app; [exact Hp3|]. rewrite Hlp.
      apply held_app; [exact Hts3 | exact Ht3].
    + apply Forall_app. split; [apply Forall_firstn'; exact Htok|].
      apply Forall_app. split; [exact Htoks | apply Forall_skipn'; exact Htok].
  - cbn [vbk with_len with_mem v3]. exact Hb2.
  - congruence.
  - exact F3.
  - unfold uevents at 1. rewrite L3, uevents_nexts. f_equal. exact He2.
  - intros Hfit. cbn [with_len vcap v3 with_mem]. apply Hcap2. exact Hfit.
Qed.

(** a full fixed-capacity vector: a splice whose result does not fit panics and leaves a
    valid vector (the prefix), destroying the offered items once each (C11) *)
Theorem splice_drop_beyond_fixed c v u xs s e i j known ts k :
  RangeAlive c v xs s e i j -> ufuse u = None -> fixed_backend (vbk v) ->
  let new_len := (s + length ts + (length xs - e))%nat in
  vcap v < N.of_nat new_len -> N.of_nat new_len <= usize_max ->
  let d := {| dcur := {| ci := N.of_nat i; ce := N.of_nat j |};
              dstart := N.of_nat s; dend := N.of_nat e; dorig := N.of_nat (length xs) |} in
  exists u',
    splice_drop c known d (N.of_nat (length ts)) (map (fun t => honest_item c t k) ts) (v, u)
      = Panic PCapacity (v, u') /\
    Rep c v (firstn s xs) /\
    uevents u' = (if c_dg c then rev (map EDrop ts) else []) ++ uevents u.
Proof.
  intros HA Hf Hfix new_len Hlt Hmax d.
  pose proof (drain_forget_rep _ _ _ _ _ _ _ HA) as HR.
  destruct HA as [Hle Hlen Hcap Hus Hst Hp Hm Ht Htok].
  destruct Hle as [Hsi [Hij [Hje Hel]]].
  destruct (drop_items_ok c k v ts (disarm u) eq_refl) as [u1 [E1 [L1 [N1 F1]]]].
  exists {| ulog := ulog u1; unext := unext u1; ufuse := ufuse u |}.
  split; [|split].
  - unfold splice_drop. apply bind_panic.
    assert (Hprep : splice_prep c known d (N.of_nat (length ts)) (v, u)
                    = Panic PCapacity (v, u)).
    { unfold splice_prep, d. cbn [dcur ci ce dend dstart dorig].
      unfold of_ovf, of_opt, checked_add.
      rewrite (proj2 (N.leb_le (N.of_nat s + N.of_nat (length ts)) usize_max))
        by (unfold new_len in Hmax; lia).
      rewrite (bind_ok _ _ (v, u) _ (v, u) eq_refl).
      rewrite (proj2 (N.leb_le (N.of_nat s + N.of_nat (length ts)
                                + (N.of_nat (length xs) - N.of_nat e)) usize_max))
        by (unfold new_len in Hmax; lia).
      rewrite (bind_ok _ _ (v, u) _ (v, u) eq_refl).
      apply bind_panic. apply reserve_fixed; [| |exact Hfix];
        unfold new_len in *; lia. }
    unfold unwinding_st, on_unwind. rewrite Hprep.
    unfold quiet_st. cbn [fst snd]. rewrite E1. reflexivity.
  - exact HR.
  - unfold uevents. cbn [ulog]. rewrite L1, uevents_drops. reflexivity.
Qed.
