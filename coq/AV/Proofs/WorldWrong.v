(** * Splices with a wrong-typed replacement value inside histories: the machine's [OSplice] with
      [wrong_at = Some j] refines [WorldSpec.sp_splice_wrong]. *)
From AV.Model Require Import Base Bytes Vec Ops Interp.
From AV.Spec Require Import VecSpec.
From AV.Proofs Require Import MemLemmas Rep VecProofs TempProofs RangeProofs CapProofs CloneProofs NoFault HandleProofs FaultProofs TypeProofs OwnProofs.
From AV.Spec Require Import WorldSpec.
From AV.Proofs Require Import WorldCore WorldSplice.
Arguments N.add : simpl never.
Arguments N.sub : simpl never.
Arguments N.mul : simpl never.

(** the replacement values when the [j]-th one reports another type: item [i] of the list *)
Definition witem (c : cfg) (k : bool) (j i : N) (t : N) : ritem :=
  if j =? i then typed_item c t k (c_ty c + 1) else honest_item c t k.
Fixpoint witems (c : cfg) (k : bool) (j i : N) (ts : list N) : list ritem :=
  match ts with
  | [] => []
  | t :: r => witem c k j i t :: witems c k j (i + 1) r
  end.

Lemma make_items_wrong c rk j : (rk = RWrap \/ rk = RBox) -> forall n i w,
  make_items c rk n i (Some j) w
  = Ok (witems c (rk_flag rk) j i (next_ids c (unext (wuw w)) n)) (bump_by (N.of_nat n) w).
Proof.
  intros Hrk. induction n as [|n IH]; intros i w.
  - cbn [make_items next_ids seq map witems]. unfold ret, bump_by. cbn [N.of_nat]. rewrite N.add_0_r.
    destruct w as [vs [l nx f]]; reflexivity.
  - cbn [make_items]. rewrite next_ids_S. cbn [witems].
    set (w1 := {| wv := wv w; wuw := {| ulog := ulog (wuw w); unext := unext (wuw w) + 1; ufuse := ufuse (wuw w) |} |}).
    assert (Ef : freshw c w = Ok (tok c (unext (wuw w))) w1) by reflexivity.
    assert (Eb : bump_by (N.of_nat (S n)) w = bump_by (N.of_nat n) w1).
    { unfold bump_by, w1. cbn [wv wuw ulog unext ufuse]. do 2 f_equal. lia. }
    rewrite Eb.
    destruct Hrk as [-> | ->]; cbn [rk_flag];
      unfold bind at 1; unfold bind at 1; rewrite Ef; unfold ret at 1;
      unfold bind at 1; rewrite (IH (i + 1) w1); unfold ret, witem, typed_item, honest_item, enc_c;
      destruct (j =? i); reflexivity.
Qed.

(** ... which is: honest values, the wrong one, honest values *)
Lemma witems_honest c k j : forall ts i, j < i -> witems c k j i ts = map (fun t => honest_item c t k) ts.
Proof.
  induction ts as [|t ts IH]; intros i Hlt; [reflexivity|]. cbn [witems map]. unfold witem.
  destruct (N.eqb_spec j i); [lia|]. f_equal. apply IH. lia.
Qed.
Lemma witems_split c k j : forall ts i, i <= j -> (N.to_nat (j - i) < length ts)%nat ->
  witems c k j i ts
  = map (fun t => honest_item c t k) (firstn (N.to_nat (j - i)) ts)
    ++ typed_item c (nth (N.to_nat (j - i)) ts 0) k (c_ty c + 1)
    :: map (fun t => honest_item c t k) (skipn (S (N.to_nat (j - i))) ts).
Proof.
  induction ts as [|t ts IH]; intros i Hij Hlt; [cbn in Hlt; lia|].
  cbn [witems]. unfold witem at 1. destruct (N.eqb_spec j i) as [->|Hne].
  - rewrite N.sub_diag. cbn [N.to_nat firstn skipn nth map app].
    f_equal. apply witems_honest. lia.
  - assert (Hlt' : i < j) by lia.
    replace (N.to_nat (j - i)) with (S (N.to_nat (j - (i + 1)))) by lia.
    cbn [firstn skipn nth map app]. f_equal.
    apply IH; [lia|]. cbn [length] in Hlt. lia.
Qed.

(** destroying them does not look at the type *)
Lemma drop_items_witems c k j : forall ts i s, drop_items c (witems c k j i ts) s = drop_items c (map (fun t => honest_item c t k) ts) s.
Proof.
  induction ts as [|t ts IH]; intros i s; [reflexivity|]. cbn [witems map drop_items].
  assert (Hd : drop_item c (witem c k j i t) = drop_item c (honest_item c t k)) by (unfold witem; destruct (j =? i); reflexivity).
  rewrite Hd. destruct (drop_item c (honest_item c t k) s) as [[] s'|p s'|f]; [apply IH| |reflexivity].
  unfold quiet_st. rewrite IH. reflexivity.
Qed.

Lemma splice_drop_prep_panic_w c v u known d ts k j i p cl :
  ufuse u = None -> splice_prep c known d cl (v, u) = Panic p (v, u) ->
  exists u', splice_drop c known d cl (witems c k j i ts) (v, u) = Panic p (v, u') /\
    unext u' = unext u /\ ufuse u' = None /\
    uevents u' = (if c_dg c then rev (map EDrop ts) else []) ++ uevents u.
Proof.
  intros Hf Hprep.
  destruct (drop_items_ok c k v ts (disarm u) eq_refl) as [u1 [E1 [L1 [N1 F1]]]].
  exists {| ulog := ulog u1; unext := unext u1; ufuse := ufuse u |}.
  split; [|split; [|split]].
  - unfold splice_drop. apply bind_panic.
    unfold unwinding_st, on_unwind. rewrite Hprep.
    unfold quiet_st. cbn [fst snd]. rewrite drop_items_witems, E1. reflexivity.
  - cbn [unext]. rewrite N1. destruct u; reflexivity.
  - exact Hf.
  - unfold uevents. cbn [ulog]. rewrite L1, uevents_drops. f_equal; try (destruct u; reflexivity).
Qed.

Lemma exec_splice_wrong c w st a vid sb eb pat f rk n j claimed r :
  cfg_wf c -> WRep c w st -> ufuse (wuw w) = None ->
  sp_splice_wrong c st (unext (wuw w)) vid sb eb pat f rk n j claimed = Some r ->
  adm_splice c w vid sb eb claimed ->
  res_matches c w (exec c (OSplice a vid sb eb pat f rk n (Some j) claimed) w) r.
Proof.
  intros Hwf HW Hfuse Hr Hadm. unfold sp_splice_wrong in Hr.
  assert (Hrk : rk = RWrap \/ rk = RBox) by (destruct rk; [left|right|discriminate]; reflexivity).
  assert (Hr' : (if negb (j <? n) || negb (claimed =? n) then None else
                 match get_a vid st with
                 | None => None
                 | Some a0 => _ end) = Some r) by (destruct Hrk as [-> | ->]; exact Hr).
  clear Hr. rename Hr' into Hr.
  destruct (N.ltb_spec j n) as [Hjn|]; [|discriminate]. cbn [negb orb] in Hr.
  destruct (N.eqb_spec claimed n) as [->|]; [|discriminate]. cbn [negb] in Hr.
  destruct (get_a vid st) as [av|] eqn:Hg; [|discriminate].
  destruct (wrep_get c w st vid av HW Hg) as (vv & Hgv & HV).
  pose proof (vi_rep _ _ _ HV) as HR. pose proof (rep_len _ _ _ HR) as Hlen.
  specialize (Hadm vv Hgv). rewrite Hlen in Hadm.
  set (xs := a_xs av) in *. cbv zeta in Hr.
  set (nn := N.to_nat n) in *.
  set (ts := next_ids c (unext (wuw w)) nn) in *.
  assert (Hlts : length ts = nn) by apply next_ids_length.
  assert (Hn : n = N.of_nat (length ts)) by (rewrite Hlts; unfold nn; lia).
  set (jn := N.to_nat j) in *.
  assert (Hjlt : (jn < length ts)%nat) by (rewrite Hlts; unfold jn, nn; lia).
  set (w0 := bump_by (N.of_nat nn) w).
  assert (HW0 : WRep c w0 st) by (apply (wrep_wv c w w0 st eq_refl HW)).
  assert (Hgv0 : get_vec vid w0 = Some vv) by exact Hgv.
  assert (Hfuse0 : ufuse (wuw w0) = None) by exact Hfuse.
  assert (Hnx0 : unext (wuw w0) = unext (wuw w) + n) by (unfold w0, bump_by, nn; cbn [wuw unext]; lia).
  assert (Hev0 : uevents (wuw w0) = uevents (wuw w)) by reflexivity.
  set (k := rk_flag rk).
  set (items := witems c k j 0 ts).
  set (good := firstn jn ts). set (tb := nth jn ts 0). set (rest := skipn (S jn) ts).
  assert (Hitems : items = map (fun t => honest_item c t k) good ++ typed_item c tb k (c_ty c + 1) :: map (fun t => honest_item c t k) rest).
  { unfold items, good, tb, rest, jn. rewrite (witems_split c k j ts 0) by (rewrite ?N.sub_0_r; fold jn; lia).
    rewrite N.sub_0_r. reflexivity. }
  assert (Hlit : length items = nn).
  { rewrite Hitems, app_length, map_length. cbn [length]. rewrite map_length. unfold good, rest.
    rewrite firstn_length, skipn_length. lia. }
  assert (Hlgood : length good = jn) by (unfold good; rewrite firstn_length; lia).
  assert (Hskip : skipn jn ts = tb :: rest).
  { unfold tb, rest. apply (skipn_nth_cons 0 ts jn Hjlt). }
  cbn [exec]. rewrite (bind_ok _ _ _ _ _ (peek_vec_ok vid w vv Hgv)).
  rewrite (bind_ok _ _ _ _ _ (make_items_wrong c rk j Hrk nn 0 w)). fold ts k items w0.
  rewrite Hlen.
  assert (Hstep : forall w' st' evs, step_ok c w0 w' st' evs 0 -> step_ok c w w' st' evs (unext (wuw w) + n - unext (wuw w))).
  { intros w' st' evs [R Nx F E]. constructor; auto; try (rewrite Nx, Hnx0; lia); try (rewrite E, Hev0; reflexivity). }
  destruct (range_of_bounds usize_max (N.of_nat (length xs)) (to_sb sb) (to_sb eb)) as [[sN eN]|] eqn:Erb.
  - destruct (into_range_ok _ sb eb (vv, wuw w0) sN eN Erb) as (Eir & Hse & Hel).
    set (s := N.to_nat sN) in *. set (e := N.to_nat eN) in *.
    assert (HsN : sN = N.of_nat s) by (unfold s; rewrite N2Nat.id; reflexivity).
    assert (HeN : eN = N.of_nat e) by (unfold e; rewrite N2Nat.id; reflexivity).
    assert (Hse' : (s <= e)%nat) by lia. assert (Hel' : (e <= length xs)%nat) by lia.
    rewrite (bind_ok _ _ _ _ _ (unwinding_okw _ _ _ _ _ (on_vec_ok vid _ w0 vv _ vv (wuw w0) Hgv0 Eir))). cbn [fst snd].
    set (w1 := put_vec vid (Some vv) (wuw w0) w0).
    set (vr := with_len (N.of_nat s) vv).
    pose proof (drain_new_spec c vv (wuw w0) xs s e HR Hse' Hel') as Edn. rewrite <- HsN, <- HeN in Edn.
    rewrite (bind_ok _ _ _ _ _ (on_vec_ok vid _ w1 vv _ _ _ (get_vec_put_same vid (Some vv) (wuw w0) w0) Edn)).
    rewrite HsN, HeN. fold vr.
    set (w2 := put_vec vid (Some vr) (wuw w1) w1).
    set (d := {| dcur := {| ci := N.of_nat s; ce := N.of_nat e |}; dstart := N.of_nat s; dend := N.of_nat e;
                 dorig := N.of_nat (length xs) |}).
    cbn [dcur].
    assert (Hwk0 : Walking w0 vid vv s w2 []).
    { constructor.
      - apply get_vec_put_same.
      - intros q Hne. unfold w2, w1, put_vec. cbn [wv]. rewrite !slot_set_nth.
        destruct (Nat.eqb_spec q vid); [contradiction|reflexivity].
      - reflexivity.
      - exact Hfuse0.
      - reflexivity. }
    destruct (sp_walk xs pat s e) as [[[[rets ds] i'] j']|] eqn:Ewalk; [|discriminate].
    set (finish := fun q : cursor => on_vec vid (splice_drop c (known_of a) (with_cur q d) n items)).
    destruct (walk_spec c w0 vid av vv s e a HV Hse' Hel' finish pat s e w2 [] rets ds i' j'
                Hwk0 (le_n s) Hse' (le_n e) Ewalk) as (ww' & Ew & Hwk & Hb1 & Hb2 & Hb3).
    cbn [app] in Hwk.
    rewrite (bind_ok _ _ _ _ _ Ew). cbn [fst snd].
    destruct Hwk as [Hv Ho Hnx Hf He].
    assert (Hcl : cur_len (dcur d) = N.of_nat (e - s)) by (unfold d, cur_len; cbn [dcur ci ce]; lia).
    assert (Hkept : forall u', WRep c (put_vec vid (Some vr) u' ww') (set_a vid (Some (with_xs av (firstn s xs))) st)).
    { intros u' q. unfold put_vec, set_a. cbn [wv]. rewrite !slot_set_nth.
      destruct (Nat.eqb_spec q vid) as [->|Hne].
      - apply vi_prefix; [exact HV|exact (Nat.le_trans _ _ _ Hse' Hel')].
      - rewrite (Ho q Hne). apply HW0. }
    destruct f.
    + (* the iterator is dropped *)
      pose proof (range_alive_any c vv xs s e i' j' HR Hb1 Hb2 Hb3 Hel') as HA. fold vr in HA.
      assert (Hnl : N.of_nat s + n + N.of_nat (length xs - e) = N.of_nat (s + nn + (length xs - e))) by (unfold nn; lia).
      rewrite Hnl in Hr.
      assert (Hnn : n = N.of_nat nn) by (unfold nn; lia).
      assert (Hpanic : forall p, splice_prep c (known_of a) (with_cur {| ci := N.of_nat i'; ce := N.of_nat j' |} d) (N.of_nat nn) (vr, wuw ww')
                                 = Panic p (vr, wuw ww') ->
                r = panic_res p (flat_map (drop_ev c) ds ++ (if c_dg c then map EDrop ts else []))
                              (set_a vid (Some (with_xs av (firstn s xs))) st) (unext (wuw w) + n) ->
                res_matches c w ((finish {| ci := N.of_nat i'; ce := N.of_nat j' |};; ret (0, N.of_nat (e - s) :: rets)) ww') r).
      { intros p Hprep ->.
        destruct (splice_drop_prep_panic_w c vr (wuw ww') (known_of a) _ ts k j 0 p _ Hf Hprep) as (u' & Ed & Hn' & Hf' & He').
        assert (Efin : finish {| ci := N.of_nat i'; ce := N.of_nat j' |} ww' = Panic p (put_vec vid (Some vr) u' ww')).
        { unfold finish. apply (on_vec_panic vid _ ww' vr p vr u' Hv). rewrite Hnn at 1. exact Ed. }
        rewrite (bind_panic _ _ _ _ _ Efin).
        cbn [res_matches panic_res s_out s_pk s_ret s_st s_evs s_nx].
        split; [reflexivity|split; [reflexivity|split; [reflexivity|]]].
        apply Hstep. constructor.
        - apply Hkept.
        - rewrite wuw_put. lia.
        - rewrite wuw_put. exact Hf'.
        - rewrite wuw_put. rewrite He', He. rewrite rev_app_distr.
          destruct (c_dg c); cbn [rev app]; rewrite <- ?app_assoc; try rewrite map_rev; reflexivity. }
      rewrite Hcl.
      destruct (N.ltb_spec usize_max (N.of_nat (s + nn + (length xs - e)))) as [Hov|Hnov].
      * injection Hr as Hr. apply (Hpanic POverflow); [|symmetry; exact Hr].
        apply (splice_prep_overflow c vr (wuw ww') xs s e i' j' (known_of a) nn HA Hov).
      * destruct (match acap c (a_bk av) with Some cap => cap <? N.of_nat (s + nn + (length xs - e)) | None => false end) eqn:Ecap.
        -- injection Hr as Hr. apply (Hpanic PCapacity); [|symmetry; exact Hr].
           destruct (acap c (a_bk av)) as [cap|] eqn:Ea; [|discriminate].
           apply N.ltb_lt in Ecap.
           assert (Hcapv : vcap vv = cap). { pose proof (vi_cap _ _ _ HV) as H. rewrite Ea in H. exact H. }
           apply (splice_prep_capacity c vr (wuw ww') xs s e i' j' (known_of a) nn HA).
           ++ unfold vr. cbn [with_len vbk]. rewrite (vi_bk _ _ _ HV). eapply acap_fixed; eauto.
           ++ unfold vr. cbn [with_len vcap]. lia.
           ++ exact Hnov.
        -- injection Hr as <-.
           assert (Hroom : N.of_nat (s + nn + (length xs - e)) <= vcap vr \/
                           grow_ok c vr (N.of_nat (s + nn + (length xs - e)))).
           { destruct (acap c (a_bk av)) as [cap|] eqn:Ea.
             - left. apply N.ltb_ge in Ecap. pose proof (vi_cap _ _ _ HV) as H. rewrite Ea in H.
               unfold vr. cbn [with_len vcap]. lia.
             - assert (Hnf : ~ fixed_backend (vbk vv)). { rewrite (vi_bk _ _ _ HV). eapply acap_none_not_fixed; eauto. }
               cbv zeta in Hadm.
               assert (Hx : sN + n + (N.of_nat (length xs) - eN) = N.of_nat (s + nn + (length xs - e))) by (unfold nn; lia).
               rewrite Hx in Hadm.
               destruct Hadm as [H1|[H1|[H1|H1]]]; [left; exact H1|contradiction|lia|right; exact H1]. }
           assert (Hty : (c_ty c + 1 =? c_ty c) = false) by (apply N.eqb_neq; lia).
           pose proof (splice_drop_wrong_type c vr (wuw ww') xs s e i' j' (known_of a) good tb rest k (c_ty c + 1) Hwf HA Hf Hty) as Hw.
           cbv zeta in Hw. rewrite <- Hitems in Hw. rewrite Hlit in Hw.
           destruct (Hw Hroom) as (v' & u' & Ed & HR' & Hb' & Hf' & Hn' & He' & Hc').
           assert (Efin : finish {| ci := N.of_nat i'; ce := N.of_nat j' |} ww' = Panic PType (put_vec vid (Some v') u' ww')).
           { unfold finish. apply (on_vec_panic vid _ ww' vr PType v' u' Hv). rewrite Hnn at 1. exact Ed. }
           rewrite (bind_panic _ _ _ _ _ Efin).
           cbn [res_matches panic_res s_out s_pk s_ret s_st s_evs s_nx].
           split; [reflexivity|split; [reflexivity|split; [reflexivity|]]].
           apply Hstep. constructor.
           ++ intros q. unfold put_vec, set_a. cbn [wv]. rewrite !slot_set_nth.
              destruct (Nat.eqb_spec q vid) as [->|Hne].
              ** destruct HV as [HRv Hbk Hbw Hcap Hfits]. constructor; cbn [with_xs a_bk a_xs]; auto.
                 --- unfold vr in Hb'. cbn [with_len vbk] in Hb'. congruence.
                 --- destruct (acap c (a_bk av)) as [cap|] eqn:Ea; [|exact I].
                     apply N.ltb_ge in Ecap. rewrite Hc'; [unfold vr; cbn [with_len vcap]; exact Hcap|].
                     unfold vr. cbn [with_len vcap]. lia.
              ** rewrite (Ho q Hne). apply HW0.
           ++ rewrite wuw_put. lia.
           ++ rewrite wuw_put. exact Hf'.
           ++ rewrite wuw_put. rewrite He', He.
              change (ENext :: repeat ENext jn ++ (if c_dg c then map EDrop (skipn jn ts) else []))
                with (repeat ENext (S jn) ++ (if c_dg c then map EDrop (skipn jn ts) else [])).
              rewrite !rev_app_distr.
              rewrite rev_repeat. rewrite Hlgood. rewrite Hskip.
              destruct (c_dg c); cbn [rev app]; rewrite <- ?app_assoc; try rewrite map_rev; reflexivity.
    + (* the iterator is leaked: so are the replacement values *)
      injection Hr as <-. unfold ret, bind. rewrite Hcl.
      cbn [res_matches ok_res s_out s_pk s_ret s_st s_evs s_nx].
      split; [reflexivity|split; [reflexivity|split; [reflexivity|]]].
      apply Hstep. constructor.
      * intros q. unfold set_a. rewrite slot_set_nth.
        destruct (Nat.eqb_spec q vid) as [->|Hne].
        -- rewrite get_vec_slot in Hv. rewrite Hv. apply vi_prefix; [exact HV|exact (Nat.le_trans _ _ _ Hse' Hel')].
        -- rewrite (Ho q Hne). apply HW0.
      * lia.
      * exact Hf.
      * exact He.
  - (* invalid range: panics before the vector is touched; the replacement values are destroyed *)
    injection Hr as <-.
    pose proof (into_range_panic _ sb eb (vv, wuw w0) Erb) as Ep.
    pose proof (on_vec_panic vid _ w0 vv _ vv (wuw w0) Hgv0 Ep) as Ep'.
    set (w1 := put_vec vid (Some vv) (wuw w0) w0) in *.
    destruct (drop_items_ok c k vv ts (wuw w1) Hfuse0) as (u' & Ed & Hl & Hn' & Hf').
    assert (Ecl : quiet (on_vec vid (drop_items c items)) w1 = Ok tt (put_vec vid (Some vv) u' w1)).
    { apply quiet_none; [exact Hfuse0| |rewrite wuw_put; exact Hf'].
      apply (on_vec_ok vid _ w1 vv tt vv u'); [apply get_vec_put_same|]. unfold items. rewrite drop_items_witems. exact Ed. }
    assert (Eu : unwinding (on_vec vid (into_range (N.of_nat (length xs)) sb eb)) (on_vec vid (drop_items c items)) w0
                 = Panic (range_panic sb eb) (put_vec vid (Some vv) u' w1)).
    { unfold unwinding, on_unwind. rewrite Ep'. rewrite Ecl. reflexivity. }
    rewrite (bind_panic _ _ _ _ _ Eu).
    cbn [res_matches panic_res s_out s_pk s_ret s_st s_evs s_nx].
    split; [reflexivity|split; [reflexivity|split; [reflexivity|]]].
    apply Hstep. constructor.
    + apply (wrep_put_same c w1 st vid vv av); [|assumption|assumption].
      apply (wrep_put_same c w0 st vid vv av); assumption.
    + rewrite wuw_put, Hn'. unfold w1. rewrite wuw_put. lia.
    + rewrite wuw_put. exact Hf'.
    + rewrite wuw_put. unfold uevents at 1. rewrite Hl, uevents_drops. destruct (c_dg c); try rewrite map_rev; reflexivity.
Qed.
