(** * Splice whose replacement items are LAZY CLONES (C09: "each consumption - push, insert, splice, downcast -
    clones the source exactly once into the destination").

    The replacement iterator yields lazy clones of values [srcs] (whatever they are clones of: elements of another
    vector, removal handles, drained elements - in the model all of them are the value source [VClone bytes]) and
    announces [cl] items.  [Splice::drop] asks the iterator min(cl, |srcs| + 1) times; every item it receives is
    consumed by exactly one Clone call that creates a NEW value, written into the gap in order; items it does not
    ask for are dropped without any effect (a lazy clone owns nothing).  Result: the vector holds the prefix, the
    min(cl, |srcs|) new values, the tail; the user-code events are, after the destructors of the un-yielded part
    of the range, [ENext; EClone src_1 id_1; ENext; EClone src_2 id_2; ...] (and one more [ENext] when the iterator
    runs dry before the announced length).  Nothing else is cloned, nothing else is destroyed. *)
From AV.Model Require Import Base Bytes Vec Ops.
From AV.Spec Require Import VecSpec.
From AV.Proofs Require Import MemLemmas Rep VecProofs RangeProofs CloneProofs FaultProofs.

Definition lazy_item (c : cfg) (t : N) : ritem :=
  {| r_ty := c_ty c; r_src := VClone (enc (szn c) t) false; r_owned := None |}.

(** a lazy clone that is dropped instead of consumed: nothing happens *)
Lemma drop_items_lazy c : forall srcs s, drop_items c (map (lazy_item c) srcs) s = Ok tt s.
Proof.
  induction srcs as [|t r IH]; intros s; cbn [map drop_items]; [reflexivity|].
  unfold drop_item at 1. cbn [lazy_item r_owned]. unfold ret at 1. apply IH.
Qed.

(** the events of the fill loop, oldest first *)
Fixpoint lazy_fill_events (srcs ids : list N) : list event :=
  match srcs, ids with
  | t :: ts, n :: ns => ENext :: EClone t n :: lazy_fill_events ts ns
  | _, _ => []
  end.

Lemma lazy_fill_events_user srcs : forall ids lg,
  filter is_user_event (rev (lazy_fill_events srcs ids) ++ lg) = rev (lazy_fill_events srcs ids) ++ filter is_user_event lg.
Proof.
  intros ids lg. rewrite filter_app. f_equal. apply filter_all_true. apply Forall_rev.
  revert ids. induction srcs as [|t ts IH]; intros ids; destruct ids as [|n ns]; cbn [lazy_fill_events]; try constructor.
  - reflexivity.
  - constructor; [reflexivity|apply IH].
Qed.

(** step 3 of [Splice::drop] with lazy clones: min(budget, |srcs|) new values are written *)
Lemma splice_fill_lazy c : forall budget srcs p w v u,
  Forall (tok_ok (szn c)) srcs ->
  store_ok c v -> N.of_nat (p + Nat.min budget (length srcs)) <= vcap v -> ufuse u = None ->
  let m := Nat.min budget (length srcs) in
  let ids := fresh_ids c (unext u) m in
  exists u',
    splice_fill c (p * szn c) budget w (map (lazy_item c) srcs) (v, u)
    = Ok (w + N.of_nat m, map (lazy_item c) (skipn budget srcs))
         (with_mem (mwrite (p * szn c) (flat (szn c) ids) (vmem v)) v, u') /\
    unext u' = unext u + N.of_nat m /\ ufuse u' = None /\
    ulog u' = (if (length srcs <? budget)%nat then [ENext] else []) ++ rev (lazy_fill_events (firstn budget srcs) ids) ++ ulog u.
Proof.
  induction budget as [|b IH]; intros srcs p w v u Htok Hst Hle Hf; cbv zeta.
  - exists u. cbn [splice_fill Nat.min firstn skipn fresh_ids seq map flat lazy_fill_events rev app].
    rewrite mwrite_nil, with_mem_id. unfold ret. rewrite N.add_0_r.
    destruct (length srcs <? 0)%nat eqn:E; [apply Nat.ltb_lt in E; lia|]. repeat split; auto. lia.
  - destruct srcs as [|t ts].
    + exists (emit ENext u). cbn [length map splice_fill Nat.min firstn skipn fresh_ids seq flat lazy_fill_events rev app].
      rewrite (bind_ok _ _ (v, u) tt (v, emit ENext u)) by reflexivity.
      rewrite (bind_ok _ _ _ tt (v, emit ENext u)) by (apply unwinding_ok, user_call_ok; exact Hf).
      rewrite mwrite_nil, with_mem_id. unfold ret. rewrite N.add_0_r.
      split; [reflexivity|]. split; [cbn; lia|]. split; [exact Hf|]. reflexivity.
    + inversion Htok as [|? ? Ht Hts]; subst.
      cbn [length Nat.min] in Hle. cbn [length map splice_fill firstn skipn Nat.min].
      rewrite (bind_ok _ _ (v, u) tt (v, emit ENext u)) by reflexivity.
      rewrite (bind_ok _ _ _ tt (v, emit ENext u)) by (apply unwinding_ok, user_call_ok; exact Hf).
      set (u1 := emit ENext u).
      assert (Hf1 : ufuse u1 = None) by exact Hf.
      assert (Hst' := Hst). unfold store_ok in Hst'. rewrite cap_bytes in Hst'.
      assert (Hb : (p * szn c + szn c <= N.to_nat (vcap v) * szn c)%nat) by nia.
      set (n := if c_sz c =? 0 then 0 else unext u).
      assert (Ec : clone_into c (enc (szn c) t) (p * szn c) (v, u1)
                   = Ok tt (with_mem (mwrite (p * szn c) (enc (szn c) n) (vmem v)) v, cloned_uw c t u1)).
      { apply (clone_into_ok c (enc (szn c) t) t (p * szn c) v u1 u1 (dec_enc _ _ Ht) (tick_none _ Hf1) Hst Hb). }
      rewrite (bind_ok _ _ _ tt (with_mem (mwrite (p * szn c) (enc (szn c) n) (vmem v)) v, cloned_uw c t u1)).
      2:{ apply unwinding_ok. cbn [r_ty r_src lazy_item]. rewrite N.eqb_refl.
          rewrite (bind_ok _ _ _ tt (v, u1)) by reflexivity. cbn [write_value]. exact Ec. }
      set (v1 := with_mem (mwrite (p * szn c) (enc (szn c) n) (vmem v)) v).
      set (u2 := cloned_uw c t u1).
      replace (p * szn c + szn c)%nat with ((p + 1) * szn c)%nat by lia.
      destruct (IH ts (p + 1)%nat (w + 1) v1 u2 Hts) as (u' & E & Hn' & Hf' & Hl').
      * unfold store_ok, v1. cbn [vcap vmem with_mem]. rewrite mwrite_length; [exact Hst|]. rewrite enc_length.
        unfold store_ok in Hst. rewrite cap_bytes in Hst. nia.
      * unfold v1. cbn [vcap with_mem]. lia.
      * exact Hf1.
      * cbv zeta in E, Hn', Hl'.
        assert (Hnx2 : unext u2 = unext u + 1) by reflexivity. rewrite Hnx2 in E, Hn', Hl'.
        exists u'. split; [|split; [|split]].
        -- rewrite E. unfold v1. cbn [vmem with_mem]. rewrite fresh_ids_S. fold n. cbn [flat].
           replace ((p + 1) * szn c)%nat with (p * szn c + length (enc (szn c) n))%nat by (rewrite enc_length; lia).
           rewrite mwrite_mwrite_app by (unfold store_ok in Hst; rewrite cap_bytes in Hst; nia).
           replace (w + 1 + N.of_nat (Nat.min b (length ts))) with (w + N.of_nat (S (Nat.min b (length ts)))) by lia.
           reflexivity.
        -- rewrite Hn'. lia.
        -- exact Hf'.
        -- rewrite Hl'. rewrite fresh_ids_S. fold n. cbn [lazy_fill_events rev].
           unfold u2, cloned_uw, u1. cbn [ulog emit unext]. fold n.
           replace (length (t :: ts) <? S b)%nat with (length ts <? b)%nat by (cbn [length]; reflexivity).
           rewrite <- !app_assoc. cbn [app]. reflexivity.
Qed.

(** ** the whole of [Splice::drop] *)
Theorem splice_drop_lazy c v u xs s e i j known srcs cl :
  cfg_wf c -> RangeAlive c v xs s e i j -> ufuse u = None ->
  Forall (tok_ok (szn c)) srcs ->
  let new_len := (s + cl + (length xs - e))%nat in
  (N.of_nat new_len <= vcap v \/ grow_ok c v (N.of_nat new_len)) ->
  let d := {| dcur := {| ci := N.of_nat i; ce := N.of_nat j |};
              dstart := N.of_nat s; dend := N.of_nat e; dorig := N.of_nat (length xs) |} in
  let written := Nat.min cl (length srcs) in
  let ids := fresh_ids c (unext u) written in
  exists v' u',
    splice_drop c known d (N.of_nat cl) (map (lazy_item c) srcs) (v, u) = Ok tt (v', u') /\
    (* exactly [written] new values went in, each the product of one Clone of its source *)
    Rep c v' (sp_splice s e ids xs) /\ vbk v' = vbk v /\
    unext u' = unext u + N.of_nat written /\ ufuse u' = None /\
    uevents u' = (if (length srcs <? cl)%nat then [ENext] else [])
                 ++ rev (lazy_fill_events (firstn cl srcs) ids)
                 ++ (if c_dg c then rev (map EDrop (firstn (j - i) (skipn i xs))) else [])
                 ++ uevents u /\
    (N.of_nat new_len <= vcap v -> vcap v' = vcap v).
Proof.
  intros Hwf HA Hf Htoks new_len Hroom d written ids.
  destruct (splice_prep_ok c v u xs s e i j known cl Hwf HA Hf Hroom)
    as [v2 [u2 [E2 [Hl2 [Hc2 [Hus2 [Hst2 [Hp2 [Ht2 [Hb2 [Hn2 [Hf2 [He2 Hcap2]]]]]]]]]]]]].
  fold new_len in Hc2.
  destruct HA as [Hle Hlen Hcap Hus Hst Hp Hm Ht Htok].
  destruct Hle as [Hsi [Hij [Hje Hel]]].
  assert (Hlt : length (skipn e xs) = (length xs - e)%nat) by apply skipn_length.
  assert (Hlp : length (firstn s xs) = s) by (apply firstn_length_le; lia).
  set (W := ids).
  assert (HlW : length W = written) by (unfold W, ids; apply fresh_ids_length).
  assert (Hwcl : (written <= cl)%nat) by (unfold written; lia).
  assert (HtokW : Forall (tok_ok (szn c)) W) by (apply fresh_ids_tok_ok).
  (* 3. fill *)
  destruct (splice_fill_lazy c cl srcs s 0 v2 u2 Htoks Hst2) as [u3 [E3 [N3 [F3 L3]]]];
    [fold written; unfold new_len in Hc2; lia | exact Hf2 |].
  cbv zeta in E3, N3, L3. rewrite Hn2 in E3, N3, L3. fold written in E3, N3, L3. fold ids in E3, L3. fold W in E3.
  set (v3 := with_mem (mwrite (s * szn c) (flat (szn c) W) (vmem v2)) v2) in *.
  assert (Hb : ((s + cl) * szn c + (length xs - e) * szn c <= length (vmem v2))%nat).
  { unfold store_ok in Hst2. rewrite cap_bytes in Hst2. unfold new_len in Hc2. nia. }
  assert (Hb' : (s * szn c + length W * szn c <= length (vmem v2))%nat) by nia.
  assert (Hst3 : store_ok c v3).
  { unfold store_ok, v3. cbn [vcap vmem with_mem].
    rewrite mwrite_length; [exact Hst2|]. rewrite flat_length. lia. }
  assert (Hp3 : Held c v3 0 (firstn s xs)).
  { change (HeldM (szn c) (vmem v3) 0 (firstn s xs)). unfold v3. cbn [vmem with_mem].
    apply heldm_mwrite_before; [exact Hp2 | rewrite Hlp; lia | lia]. }
  assert (Hts3 : Held c v3 s W).
  { change (HeldM (szn c) (vmem v3) s W). unfold v3. cbn [vmem with_mem].
    apply heldm_mwrite_at. lia. }
  assert (Ht3 : Held c v3 (s + cl) (skipn e xs)).
  { change (HeldM (szn c) (vmem v3) (s + cl) (skipn e xs)). unfold v3.
    cbn [vmem with_mem].
    apply heldm_mwrite_after; [exact Ht2 | rewrite flat_length; nia | lia]. }
  assert (Hpw3 : Held c v3 0 (firstn s xs ++ W)).
  { apply held_app; [exact Hp3|]. rewrite Hlp. exact Hts3. }
  set (tail := skipn e xs) in *.
  set (rest := map (lazy_item c) (skipn cl srcs)) in *.
  (* closing the gap *)
  assert (Hgap : exists v4,
    (if 0 + N.of_nat written <? N.of_nat cl
     then unwinding_st (move_elements c (N.of_nat s + N.of_nat cl)
                          (N.of_nat s + (0 + N.of_nat written))
                          (N.of_nat (length xs) - N.of_nat e))
                       (drop_items c rest)
     else ret tt) (v3, u3) = Ok tt (v4, u3) /\
    store_ok c v4 /\ Held c v4 0 (firstn s xs ++ W) /\ Held c v4 (s + written) tail /\
    vcap v4 = vcap v2 /\ vbk v4 = vbk v2).
  { destruct (N.ltb_spec (0 + N.of_nat written) (N.of_nat cl)) as [Hlt' | Hge'].
    - destruct (moved_state c v3 (firstn s xs ++ W) tail (s + written) Hst3)
        as [Hst4 [Hp4 Ht4]]; auto.
      + cbn [vcap with_mem v3]. unfold new_len in Hc2. lia.
      + rewrite app_length. lia.
      + eexists. split; [|split; [exact Hst4|split; [exact Hp4|split; [exact Ht4|split; reflexivity]]]].
        apply unwinding_ok.
        rewrite (move_elements_ok c v3 u3 (N.of_nat s + N.of_nat cl)
                   (N.of_nat s + (0 + N.of_nat written))
                   (N.of_nat (length xs) - N.of_nat e) tail Hst3).
        * replace (N.to_nat (N.of_nat s + (0 + N.of_nat written))) with (s + written)%nat by lia.
          reflexivity.
        * lia.
        * cbn [vcap with_mem v3]. unfold new_len in Hc2. lia.
        * cbn [vcap with_mem v3]. unfold new_len in Hc2. lia.
        * replace (N.to_nat (N.of_nat s + N.of_nat cl)) with (s + cl)%nat by lia. exact Ht3.
    - exists v3. assert (written = cl) by lia.
      split; [reflexivity|]. split; [exact Hst3|]. split; [exact Hpw3|].
      split; [|split; reflexivity]. replace (s + written)%nat with (s + cl)%nat by lia. exact Ht3. }
  destruct Hgap as [v4 [E4 [Hst4 [Hp4 [Ht4 [Hc4 Hbk4]]]]]].
  (* the items never pulled are destroyed *)
  set (v5 := with_len (N.of_nat s + (0 + N.of_nat written)
                       + (N.of_nat (length xs) - N.of_nat e)) v4).
  pose proof (drop_items_lazy c (skipn cl srcs) (v5, u3)) as E5. fold rest in E5.
  exists v5, u3.
  split; [|split; [|split; [|split; [|split; [|split]]]]].
  - unfold splice_drop, d. cbn [dcur ci ce dend dstart dorig].
    rewrite (bind_ok _ _ _ _ _ (unwinding_ok _ _ _ _ _ E2)).
    rewrite bo_of_nat, Nat2N.id.
    rewrite (bind_ok _ _ _ _ _ E3).
    rewrite (bind_ok _ _ _ _ _ E4).
    unfold bind, setv. cbn [fst snd]. exact E5.
  - unfold sp_splice. fold tail. fold W.
    apply rep_of_held; cbn [vlen vcap with_len v5]; auto.
    + rewrite !app_length. lia.
    + rewrite Hc4. unfold new_len in Hc2. lia.
    + rewrite Hc4. exact Hus2.
    + rewrite app_assoc. apply held_app; [exact Hp4|].
      rewrite app_length, Hlp, HlW. exact Ht4.
    + apply Forall_app. split; [apply Forall_firstn'; exact Htok|].
      apply Forall_app. split; [exact HtokW | apply Forall_skipn'; exact Htok].
  - unfold v5. cbn [vbk with_len]. rewrite Hbk4. exact Hb2.
  - exact N3.
  - exact F3.
  - unfold uevents at 1. rewrite L3.
    assert (Hx : forall lg, filter is_user_event ((if (length srcs <? cl)%nat then [ENext] else []) ++ lg)
                            = (if (length srcs <? cl)%nat then [ENext] else []) ++ filter is_user_event lg).
    { intros lg. destruct (length srcs <? cl)%nat; reflexivity. }
    rewrite Hx, lazy_fill_events_user. fold (uevents u2). rewrite He2. reflexivity.
  - intros Hle'. unfold v5. cbn [vcap with_len]. rewrite Hc4. apply Hcap2. exact Hle'.
Qed.

(** non-vacuity: [1;2;3;4] (3-byte elements, capacity 8), splice(1..3, lazy clones of values 7 and 8) with an honest
    announcement: two Clone calls, new identities 10 and 11 *)
Example splice_drop_lazy_example :
  let c := {| c_sz := 3; c_al := 1; c_dg := true; c_cl := true; c_trap := true; c_ty := 1 |} in
  let m := flat 3 [1; 2; 3; 4] ++ uninit 12 in
  let v := {| vlen := 1; vcap := 8; vmem := m; vgen := 0; vbk := BHeap |} in
  let u := {| ulog := []; unext := 10; ufuse := None |} in
  let d := {| dcur := {| ci := 1; ce := 3 |}; dstart := 1; dend := 3; dorig := 4 |} in
  match splice_drop c false d 2 (map (lazy_item c) [7; 8]) (v, u) with
  | Ok _ (v', u') => snapshot c v' = Some [1; 10; 11; 4] /\
                     rev (ulog u') = [EDrop 2; EDrop 3; ENext; EClone 7 10; ENext; EClone 8 11]
  | _ => False
  end.
Proof. vm_compute. split; reflexivity. Qed.
