(** * Histories in which user code panics: steps with an armed fuse refine [WorldSpec.spec_step_f]. *)
From AV.Model Require Import Base Bytes Vec Ops Interp.
From AV.Spec Require Import VecSpec.
From AV.Proofs Require Import MemLemmas Rep VecProofs TempProofs RangeProofs CapProofs CloneProofs NoFault HandleProofs FaultProofs.
From AV.Spec Require Import WorldSpec.
From AV.Proofs Require Import WorldProofs.
Arguments N.add : simpl never.
Arguments N.sub : simpl never.
Arguments N.mul : simpl never.

(** [clear] with an armed fuse, explicitly *)
Lemma clear_fused c v u xs k :
  Rep c v xs -> ufuse u = Some k ->
  exists u',
    clear c (v, u) = (if c_dg c && (k <? N.of_nat (length xs)) then Panic PUser (with_len 0 v, u') else Ok tt (with_len 0 v, u')) /\
    Rep c (with_len 0 v) [] /\ unext u' = unext u /\
    ulog u' = rev (if c_dg c then (if k <? N.of_nat (length xs) then map EDrop (firstn (S (N.to_nat k)) xs) else map EDrop xs) else []) ++ ulog u.
Proof.
  intros HR Hf. pose proof (rep_held _ _ _ HR) as HH.
  destruct HR as [Hlen Hcap Hus Hst Hmem Htok].
  assert (HR0 : Rep c (with_len 0 v) []).
  { constructor; cbn [with_len vlen vcap vmem length]; auto; try lia. }
  unfold clear, bind, getv, setv. cbn [fst snd]. rewrite Hlen, Nat2N.id.
  destruct (c_dg c) eqn:Hdg; cbn [andb].
  - destruct (N.ltb_spec k (N.of_nat (length xs))) as [Hlt|Hge].
    + destruct (drop_loop_fire c (with_len 0 v) xs 0%nat u (N.to_nat k)) as [u' [E [L [Nx F]]]]; auto.
      { cbn [with_len vcap]. lia. }
      { rewrite N2Nat.id. exact Hf. }
      { lia. }
      exists u'. cbn [Nat.mul] in E. split; [exact E|]. split; [exact HR0|]. split; [exact Nx|exact L].
    + destruct (drop_loop_tick c (with_len 0 v) xs 0%nat u k) as [u' [E [L [Nx F]]]]; auto.
      { cbn [with_len vcap]. lia. }
      exists u'. cbn [Nat.mul] in E. split; [exact E|]. split; [exact HR0|]. split; [exact Nx|exact L].
  - exists u. unfold ret. cbn [rev app]. auto.
Qed.

(** dropping a removal handle with an armed fuse *)
Lemma temp_drop_fused c v u xs k i h known f :
  Rep c v xs -> temp_req k i xs -> temp_for c v xs k i h -> ufuse u = Some f ->
  if c_dg c && (f =? 0)
  then exists u', temp_drop c known h (with_len (N.of_nat i) v, u) = Panic PUser (with_len (N.of_nat i) v, u') /\
                  unext u' = unext u /\ ulog u' = EDrop (nth i xs 0) :: ulog u
  else exists v' u', temp_drop c known h (with_len (N.of_nat i) v, u) = Ok tt (v', u') /\
                  Rep c v' (temp_result k i xs) /\ vcap v' = vcap v /\ vbk v' = vbk v /\ unext u' = unext u /\
                  ulog u' = (if c_dg c then [EDrop (nth i xs 0)] else []) ++ ulog u.
Proof.
  intros HR Hreq Hfor Hfuse.
  destruct (c_dg c) eqn:Hdg; cbn [andb].
  - destruct (N.eqb_spec f 0) as [->|Hnz].
    + destruct (temp_drop_panics c v u xs k i h known HR Hreq Hfor Hdg Hfuse) as (u' & E & Hf' & Hl).
      exists u'. split; [exact E|]. split; [|exact Hl].
      (* unext: the panicking destructor creates nothing *)
      revert E. unfold temp_drop. unfold bind at 1. rewrite (temp_ptr_ok _ _ _ _ _ _ _ Hfor).
      unfold bind at 1. rewrite Hdg.
      unfold bind at 1. unfold getv at 1. cbn [fst snd pgen poff ptr_at vgen with_len].
      rewrite N.eqb_refl. cbn [negb]. unfold bind at 1. unfold ret at 1.
      rewrite (temp_drop_head _ _ _ _ _ _ _ HR Hreq Hfor).
      unfold user_call, tick. cbn [fst snd emit ufuse]. rewrite Hfuse. cbn [N.eqb].
      intros E. injection E as <-. reflexivity.
    + unfold temp_drop. unfold bind at 1. rewrite (temp_ptr_ok _ _ _ _ _ _ _ Hfor).
      unfold bind at 1. rewrite Hdg.
      unfold bind at 1. unfold getv at 1. cbn [fst snd pgen poff ptr_at vgen with_len].
      rewrite N.eqb_refl. cbn [negb]. unfold bind at 1. unfold ret at 1.
      rewrite (temp_drop_head _ _ _ _ _ _ _ HR Hreq Hfor).
      unfold user_call, tick. cbn [fst snd emit ufuse]. rewrite Hfuse.
      destruct (N.eqb_spec f 0) as [|_]; [contradiction|].
      set (u1 := {| ulog := ulog (emit (EDrop (nth i xs 0)) u); unext := unext (emit (EDrop (nth i xs 0)) u); ufuse := Some (f - 1) |}).
      destruct (temp_consume_explicit c v u1 xs k i h HR Hreq Hfor) as (v' & H & HR' & Hc & Hb & _).
      exists v', u1. split; [apply H|]. unfold u1. cbn [emit unext ulog app]. auto 10.
  - unfold temp_drop. unfold bind at 1. rewrite (temp_ptr_ok _ _ _ _ _ _ _ Hfor).
    unfold bind at 1. rewrite Hdg. unfold ret at 1.
    destruct (temp_consume_explicit c v u xs k i h HR Hreq Hfor) as (v' & H & HR' & Hc & Hb & _).
    exists v', u. split; [apply H|]. cbn [app]. auto 10.
Qed.

(** typed slice drop with a fuse that outlives it *)
Lemma drop_slice_tick c v ys : forall p u k,
  store_ok c v -> N.of_nat (p + length ys) <= vcap v -> Held c v p ys ->
  Forall (tok_ok (szn c)) ys -> ufuse u = Some k -> N.of_nat (length ys) <= k ->
  exists u', drop_slice c (p * szn c) (length ys) (v, u) = Ok tt (v, u') /\
    ulog u' = rev (map EDrop ys) ++ ulog u /\ unext u' = unext u /\ ufuse u' = Some (k - N.of_nat (length ys)).
Proof.
  induction ys as [|y ys IH]; intros p u k Hst Hle Hh Hall Hf Hk.
  - exists u. cbn [length drop_slice map rev app]. unfold ret. rewrite Hf. repeat split; auto. f_equal. cbn. lia.
  - cbn [length] in Hle, Hk. cbn [length drop_slice].
    apply (held_split c v p [y] ys) in Hh. destruct Hh as [H1 H2].
    inversion Hall; subst.
    rewrite (drop_at_pre c v u p y) by (auto; lia).
    rewrite (user_call_tick v (emit (EDrop y) u) k) by (auto; lia).
    replace (p * szn c + szn c)%nat with ((p + 1) * szn c)%nat by lia.
    destruct (IH (p + 1)%nat (set_fuse (Some (k - 1)) (emit (EDrop y) u)) (k - 1))
      as [u' [E [L [Nx F]]]]; auto; try lia.
    exists u'. split; [exact E|]. split; [|split].
    + rewrite L. cbn [map rev ulog set_fuse emit]. rewrite <- app_assoc. reflexivity.
    + rewrite Nx. reflexivity.
    + rewrite F. f_equal. lia.
Qed.

(** [drop_elements_range] with an armed fuse: [n] = number of elements in the range *)
Lemma drop_range_fused c known v u ys i j k :
  store_ok c v -> (i <= j)%nat -> N.of_nat j <= vcap v -> length ys = (j - i)%nat ->
  Held c v i ys -> Forall (tok_ok (szn c)) ys -> ufuse u = Some k ->
  exists u',
    drop_range c known (N.of_nat i) (N.of_nat j) (v, u)
    = (if c_dg c && (k <? N.of_nat (j - i)) then Panic PUser (v, u') else Ok tt (v, u')) /\
    unext u' = unext u /\
    ulog u' = rev (if c_dg c then (if k <? N.of_nat (j - i)
                                   then map EDrop (if known then ys else firstn (S (N.to_nat k)) ys)
                                   else map EDrop ys) else []) ++ ulog u /\
    (c_dg c && (k <? N.of_nat (j - i)) = false -> ufuse u' = Some (k - (if c_dg c then N.of_nat (j - i) else 0))).
Proof.
  intros Hst Hij Hj Hlen Hh Hall Hf. unfold drop_range, bind, assert_.
  rewrite (proj2 (N.leb_le (N.of_nat i) (N.of_nat j))) by lia.
  rewrite orb_true_r. unfold ret at 1. rewrite bo_of_nat.
  replace (N.to_nat (N.of_nat j - N.of_nat i)) with (length ys) by lia.
  destruct (c_dg c); cbn [andb].
  - rewrite <- Hlen. destruct (N.ltb_spec k (N.of_nat (length ys))) as [Hlt|Hge].
    + destruct known.
      * destruct (drop_slice_fire c v ys i u (N.to_nat k)) as [u' [E [L [Nx F]]]]; auto; try lia.
        { rewrite N2Nat.id. exact Hf. }
        exists u'. repeat split; auto. discriminate.
      * destruct (drop_loop_fire c v ys i u (N.to_nat k)) as [u' [E [L [Nx F]]]]; auto; try lia.
        { rewrite N2Nat.id. exact Hf. }
        exists u'. repeat split; auto. discriminate.
    + destruct known.
      * destruct (drop_slice_tick c v ys i u k) as [u' [E [L [Nx F]]]]; auto; try lia. exists u'. repeat split; auto.
      * destruct (drop_loop_tick c v ys i u k) as [u' [E [L [Nx F]]]]; auto; try lia. exists u'. repeat split; auto.
  - exists u. unfold ret. cbn [rev app]. repeat split; auto. intros _. rewrite Hf. f_equal. lia.
Qed.

(** the rest of [Drain::drop] once the un-yielded elements are destroyed *)
Lemma drain_drop_after c v u u1 xs s e i j known :
  RangeAlive c v xs s e i j ->
  drop_range c known (N.of_nat i) (N.of_nat j) (v, u) = Ok tt (v, u1) ->
  let d := {| dcur := {| ci := N.of_nat i; ce := N.of_nat j |};
              dstart := N.of_nat s; dend := N.of_nat e; dorig := N.of_nat (length xs) |} in
  exists v', drain_drop c known d (v, u) = Ok tt (v', u1) /\
    Rep c v' (VecSpec.sp_drain s e xs) /\ vcap v' = vcap v /\ vbk v' = vbk v.
Proof.
  intros HA E1 d. destruct HA as [Hle Hlen Hcap Hus Hst Hp Hm Ht Htok].
  destruct Hle as [Hsi [Hij [Hje Hel]]].
  set (tail := skipn e xs) in *.
  assert (Hlt : length tail = (length xs - e)%nat) by apply skipn_length.
  assert (Hlp : length (firstn s xs) = s) by (apply firstn_length_le; lia).
  destruct (moved_state c v (firstn s xs) tail s Hst) as [Hst' [Hp' Ht']]; auto; try lia.
  eexists. split; [|split].
  - unfold drain_drop, d. cbn [dcur ci ce dend dstart dorig].
    rewrite (bind_ok _ _ _ _ _ E1).
    rewrite (bind_ok _ _ _ tt _
               (move_elements_ok c v u1 (N.of_nat e) (N.of_nat s)
                  (N.of_nat (length xs) - N.of_nat e) tail Hst
                  ltac:(lia) ltac:(lia) ltac:(lia) ltac:(rewrite Nat2N.id; exact Ht))).
    unfold setv. cbn [fst snd]. reflexivity.
  - rewrite Nat2N.id. unfold VecSpec.sp_drain. fold tail.
    apply rep_of_held; cbn [vlen vcap with_len with_mem]; auto.
    + rewrite app_length. lia.
    + lia.
    + apply held_app; [exact Hp'|]. rewrite Hlp. exact Ht'.
    + apply Forall_app. split; [apply Forall_firstn' | apply Forall_skipn']; exact Htok.
  - cbn [vcap vbk with_len with_mem]. auto.
Qed.

(** ** splice: the replacement iterator's next() panics *)

Lemma firstn_pos_cons {A} (t : A) ts f : 0 < f -> firstn (N.to_nat f) (t :: ts) = t :: firstn (N.to_nat (f - 1)) ts.
Proof. intros Hf. replace (N.to_nat f) with (S (N.to_nat (f - 1))) by lia. reflexivity. Qed.
Lemma skipn_pos_cons {A} (t : A) ts f : 0 < f -> skipn (N.to_nat f) (t :: ts) = skipn (N.to_nat (f - 1)) ts.
Proof. intros Hf. replace (N.to_nat f) with (S (N.to_nat (f - 1))) by lia. reflexivity. Qed.

(** step 3 of Splice::drop with an armed fuse: the [f]-th call of next() panics (or the fuse outlives the loop) *)
Lemma splice_fill_fused c kf ts : forall p w v u f,
  store_ok c v -> N.of_nat (p + length ts) <= vcap v -> ufuse u = Some f ->
  exists u',
    splice_fill c (p * szn c) (length ts) w (map (fun t => honest_item c t kf) ts) (v, u)
    = (if f <? N.of_nat (length ts)
       then Panic PUser (with_mem (mwrite (p * szn c) (flat (szn c) (firstn (N.to_nat f) ts)) (vmem v)) v, u')
       else Ok (w + N.of_nat (length ts), []) (with_mem (mwrite (p * szn c) (flat (szn c) ts) (vmem v)) v, u')) /\
    unext u' = unext u /\
    ulog u' = (if f <? N.of_nat (length ts)
               then (if c_dg c then rev (map EDrop (skipn (N.to_nat f) ts)) else []) ++ repeat ENext (S (N.to_nat f))
               else repeat ENext (length ts)) ++ ulog u /\
    ufuse u' = (if f <? N.of_nat (length ts) then None else Some (f - N.of_nat (length ts))).
Proof.
  induction ts as [|t ts IH]; intros p w v u f Hst Hle Hf.
  - exists u. cbn [length map splice_fill flat repeat app N.of_nat]. rewrite mwrite_nil, with_mem_id.
    destruct (N.ltb_spec f 0) as [|_]; [lia|]. unfold ret. rewrite !N.add_0_r, N.sub_0_r. auto.
  - cbn [length] in Hle. cbn [length map splice_fill].
    rewrite (bind_ok _ _ (v, u) tt (v, emit ENext u)) by reflexivity.
    destruct (N.eqb_spec f 0) as [->|Hnz].
    + (* this call of next() panics: everything not yet pulled is destroyed *)
      destruct (N.ltb_spec 0 (N.of_nat (S (length ts)))) as [_|]; [|lia].
      assert (Efire : user_call (v, emit ENext u) = Panic PUser (v, disarm (emit ENext u)))
        by (apply user_call_fire; exact Hf).
      destruct (drop_items_ok c kf v (t :: ts) (disarm (disarm (emit ENext u))) eq_refl) as [u1 [E1 [L1 [N1 F1]]]].
      exists {| ulog := ulog u1; unext := unext u1; ufuse := None |}.
      split; [|split; [|split]].
      * apply bind_panic. unfold unwinding_st, on_unwind. rewrite Efire.
        unfold quiet_st. cbn [fst snd map] in *. rewrite E1.
        cbn [N.to_nat firstn flat]. rewrite mwrite_nil, with_mem_id. reflexivity.
      * cbn [unext]. rewrite N1. reflexivity.
      * cbn [ulog N.to_nat skipn repeat]. rewrite L1. cbn [disarm emit ulog]. rewrite <- app_assoc. reflexivity.
      * reflexivity.
    + assert (Hpos : 0 < f) by lia.
      rewrite (bind_ok _ _ _ tt (v, set_fuse (Some (f - 1)) (emit ENext u)))
        by (apply unwinding_ok, user_call_tick; [exact Hf|exact Hpos]).
      rewrite (bind_ok _ _ _ tt
                 (with_mem (mwrite (p * szn c) (enc (szn c) t) (vmem v)) v, set_fuse (Some (f - 1)) (emit ENext u))).
      2:{ apply unwinding_ok. cbn [r_ty r_src honest_item]. rewrite N.eqb_refl.
          rewrite (bind_ok _ _ _ tt (v, set_fuse (Some (f - 1)) (emit ENext u))) by reflexivity.
          apply write_value_ok; [exact Hst | lia]. }
      assert (Hb : (p * szn c + szn c <= length (vmem v))%nat).
      { unfold store_ok in Hst. rewrite cap_bytes in Hst. nia. }
      replace (p * szn c + szn c)%nat with ((p + 1) * szn c)%nat by lia.
      destruct (IH (p + 1)%nat (w + 1)
                  (with_mem (mwrite (p * szn c) (enc (szn c) t) (vmem v)) v) (set_fuse (Some (f - 1)) (emit ENext u)) (f - 1))
        as [u' [E [Nx [L F]]]].
      * unfold store_ok. cbn [vcap vmem with_mem]. rewrite mwrite_length; [exact Hst|].
        rewrite enc_length. exact Hb.
      * cbn [vcap with_mem]. lia.
      * reflexivity.
      * exists u'.
        assert (Hcmp : (f - 1 <? N.of_nat (length ts)) = (f <? N.of_nat (S (length ts)))).
        { destruct (N.ltb_spec (f - 1) (N.of_nat (length ts))); destruct (N.ltb_spec f (N.of_nat (S (length ts)))); try reflexivity; lia. }
        rewrite Hcmp in *.
        assert (Hmw : forall ys, with_mem (mwrite ((p + 1) * szn c) (flat (szn c) ys) (vmem (with_mem (mwrite (p * szn c) (enc (szn c) t) (vmem v)) v)))
                                   (with_mem (mwrite (p * szn c) (enc (szn c) t) (vmem v)) v)
                                 = with_mem (mwrite (p * szn c) (flat (szn c) (t :: ys)) (vmem v)) v).
        { intros ys. cbn [vmem with_mem flat].
          replace ((p + 1) * szn c)%nat with (p * szn c + length (enc (szn c) t))%nat by (rewrite enc_length; lia).
          rewrite mwrite_mwrite_app by lia. reflexivity. }
        split; [|split; [|split]].
        -- rewrite E. destruct (f <? N.of_nat (S (length ts))).
           ++ rewrite Hmw. rewrite (firstn_pos_cons t ts f Hpos). reflexivity.
           ++ rewrite Hmw. replace (w + 1 + N.of_nat (length ts)) with (w + N.of_nat (S (length ts))) by lia. reflexivity.
        -- rewrite Nx. reflexivity.
        -- rewrite L. cbn [set_fuse emit ulog].
           destruct (f <? N.of_nat (S (length ts))).
           ++ rewrite (skipn_pos_cons t ts f Hpos).
              replace (S (N.to_nat f)) with (S (S (N.to_nat (f - 1)))) by lia.
              rewrite <- !app_assoc. f_equal.
              change (repeat ENext (S (S (N.to_nat (f - 1))))) with (ENext :: repeat ENext (S (N.to_nat (f - 1)))).
              rewrite (repeat_cons (S (N.to_nat (f - 1))) ENext). rewrite <- app_assoc. reflexivity.
           ++ cbn [repeat]. rewrite (repeat_cons (length ts) ENext). rewrite <- app_assoc. reflexivity.
        -- rewrite F. destruct (f <? N.of_nat (S (length ts))); [reflexivity|]. f_equal. lia.
Qed.

(** steps 0-2 of Splice::drop with an armed fuse: a destructor of the un-yielded range may panic *)
Lemma splice_prep_fused c v u xs s e i j known n k :
  cfg_wf c -> RangeAlive c v xs s e i j -> ufuse u = Some k ->
  let new_len := (s + n + (length xs - e))%nat in
  (N.of_nat new_len <= vcap v \/ grow_ok c v (N.of_nat new_len)) ->
  let d := {| dcur := {| ci := N.of_nat i; ce := N.of_nat j |};
              dstart := N.of_nat s; dend := N.of_nat e; dorig := N.of_nat (length xs) |} in
  let range := firstn (j - i) (skipn i xs) in
  let fires := c_dg c && (k <? N.of_nat (j - i)) in
  exists v2 u2,
    splice_prep c known d (N.of_nat n) (v, u)
      = (if fires then Panic PUser (v2, u2) else Ok (N.of_nat s + N.of_nat n) (v2, u2)) /\
    Rep c v2 (firstn s xs) /\ vbk v2 = vbk v /\ unext u2 = unext u /\
    (N.of_nat new_len <= vcap v -> vcap v2 = vcap v) /\
    uevents u2 = rev (if c_dg c then (if k <? N.of_nat (j - i)
                                      then map EDrop (if known then range else firstn (S (N.to_nat k)) range)
                                      else map EDrop range) else []) ++ uevents u /\
    (fires = false ->
       N.of_nat new_len <= vcap v2 /\ vcap v2 <= usize_max /\ store_ok c v2 /\
       Held c v2 0 (firstn s xs) /\ Held c v2 (s + n) (skipn e xs) /\
       ufuse u2 = Some (k - (if c_dg c then N.of_nat (j - i) else 0))).
Proof.
  intros Hwf HA Hf new_len Hroom d range fires.
  pose proof (drain_forget_rep _ _ _ _ _ _ _ HA) as HR.
  destruct HA as [Hle Hlen Hcap Hus Hst Hp Hm Ht Htok].
  destruct Hle as [Hsi [Hij [Hje Hel]]].
  assert (Hmax : N.of_nat new_len <= usize_max).
  { destruct Hroom as [Hr | Hg]; [lia|]. unfold grow_ok in Hg. destruct (vbk v); tauto. }
  set (add := N.of_nat s + N.of_nat n + (N.of_nat (length xs) - N.of_nat e) - N.of_nat s).
  assert (Hadd : vlen v + add = N.of_nat new_len) by (unfold add, new_len; lia).
  destruct (reserve_ok c v u (firstn s xs) add Hwf HR) as
      [v1 [u1 [E0 [HR1 [Hc1 [Hcc1 [Hl1 [Hb1 [[Hn1 [Hf1 He1]] Hm1]]]]]]]]].
  { rewrite Hadd. exact Hroom. }
  rewrite Hadd in Hc1.
  pose proof (rep_store _ _ _ HR1) as Hst1.
  pose proof (rep_usize _ _ _ HR1) as Hus1.
  pose proof (rep_held _ _ _ HR1) as Hp1.
  assert (Hkeep : forall off ys, Held c v off ys -> N.of_nat (off + length ys) <= vcap v ->
                                 Held c v1 off ys).
  { intros off ys Hh Hb. refine (heldm_firstn_eq _ _ _ _ _ _ Hh Hm1 _).
    rewrite cap_bytes. nia. }
  assert (Hlm : length range = (j - i)%nat).
  { unfold range. rewrite firstn_length_le; [lia | rewrite skipn_length; lia]. }
  assert (Hlt : length (skipn e xs) = (length xs - e)%nat) by apply skipn_length.
  assert (Hlp : length (firstn s xs) = s) by (apply firstn_length_le; lia).
  assert (Hm' : Held c v1 i range) by (apply Hkeep; [exact Hm | lia]).
  assert (Ht' : Held c v1 e (skipn e xs)) by (apply Hkeep; [exact Ht | lia]).
  assert (Htokm : Forall (tok_ok (szn c)) range)
    by (apply Forall_firstn', Forall_skipn'; exact Htok).
  assert (Hfu1 : ufuse u1 = Some k) by congruence.
  destruct (drop_range_fused c known v1 u1 range i j k Hst1 Hij ltac:(lia) Hlm Hm' Htokm Hfu1)
    as (u2 & E1 & N1 & L1 & F1).
  assert (Hsame : N.of_nat new_len <= vcap v -> vcap v1 = vcap v).
  { intros Hfit. destruct (reserve_room_same c v u add v1 u1) as [-> _]; [rewrite Hadd; exact Hfit|exact Hus|exact E0|reflexivity]. }
  assert (Hprefix : splice_prep c known d (N.of_nat n) (v, u)
                    = (do _ <- drop_range c known (N.of_nat i) (N.of_nat j);
                       move_elements c (N.of_nat e) (N.of_nat s + N.of_nat n) (N.of_nat (length xs) - N.of_nat e);;
                       ret (N.of_nat s + N.of_nat n)) (v1, u1)).
  { unfold splice_prep, d. cbn [dcur ci ce dend dstart dorig].
    unfold of_ovf, of_opt, checked_add.
    rewrite (proj2 (N.leb_le (N.of_nat s + N.of_nat n) usize_max)) by (unfold new_len in Hmax; lia).
    rewrite (bind_ok _ _ (v, u) _ (v, u) eq_refl).
    rewrite (proj2 (N.leb_le (N.of_nat s + N.of_nat n + (N.of_nat (length xs) - N.of_nat e)) usize_max))
      by (unfold new_len in Hmax; lia).
    rewrite (bind_ok _ _ (v, u) _ (v, u) eq_refl).
    fold add. rewrite (bind_ok _ _ _ _ _ E0). reflexivity. }
  rewrite Hprefix.
  assert (Hev : uevents u2 = rev (if c_dg c then (if k <? N.of_nat (j - i)
                                      then map EDrop (if known then range else firstn (S (N.to_nat k)) range)
                                      else map EDrop range) else []) ++ uevents u).
  { unfold uevents at 1. rewrite L1. rewrite <- He1. unfold uevents.
    destruct (c_dg c); [|reflexivity].
    destruct (k <? N.of_nat (j - i)); [destruct known|]; apply (uevents_drops true). }
  unfold fires. destruct (c_dg c && (k <? N.of_nat (j - i))) eqn:Ecase.
  - (* a destructor of the range panics *)
    exists v1, u2. split; [apply bind_panic; exact E1|].
    split; [exact HR1|]. split; [exact Hb1|]. split; [congruence|]. split; [exact Hsame|].
    split; [exact Hev|discriminate].
  - destruct (moved_state c v1 (firstn s xs) (skipn e xs) (s + n) Hst1) as [Hst2 [Hp2 Ht2]];
      auto; try (unfold new_len in Hc1; lia).
    exists (with_mem (mwrite ((s + n) * szn c) (flat (szn c) (skipn e xs)) (vmem v1)) v1), u2.
    split.
    { rewrite (bind_ok _ _ _ _ _ E1).
      rewrite (bind_ok _ _ _ tt _
                 (move_elements_ok c v1 u2 (N.of_nat e) (N.of_nat s + N.of_nat n)
                    (N.of_nat (length xs) - N.of_nat e) (skipn e xs) Hst1
                    ltac:(lia) ltac:(unfold new_len in Hc1; lia)
                    ltac:(unfold new_len in Hc1; lia)
                    ltac:(rewrite Nat2N.id; exact Ht'))).
      unfold ret. replace (N.to_nat (N.of_nat s + N.of_nat n)) with (s + n)%nat by lia. reflexivity. }
    split.
    { apply rep_of_held; cbn [vlen vcap vmem with_mem]; auto.
      - rewrite Hlp. congruence.
      - rewrite Hl1, Hlen. unfold new_len in Hc1. lia.
      - apply Forall_firstn'. exact Htok. }
    split; [cbn [vbk with_mem]; exact Hb1|]. split; [congruence|].
    split; [intros Hfit; cbn [with_mem vcap]; exact (Hsame Hfit)|].
    split; [exact Hev|]. intros _.
    split; [cbn [vcap with_mem]; exact Hc1|]. split; [cbn [vcap with_mem]; exact Hus1|].
    split; [exact Hst2|]. split; [exact Hp2|]. split; [exact Ht2|].
    exact (F1 eq_refl).
Qed.

(** Splice::drop with honest replacement values and an armed fuse: a destructor of the un-yielded range panics
    (A), the [f]-th call of next() panics (B), or the fuse outlives the drop (C) *)
Lemma splice_drop_fused c v u xs s e i j known ts kf k :
  cfg_wf c -> RangeAlive c v xs s e i j -> ufuse u = Some k ->
  Forall (tok_ok (szn c)) ts ->
  let new_len := (s + length ts + (length xs - e))%nat in
  (N.of_nat new_len <= vcap v \/ grow_ok c v (N.of_nat new_len)) ->
  let d := {| dcur := {| ci := N.of_nat i; ce := N.of_nat j |};
              dstart := N.of_nat s; dend := N.of_nat e; dorig := N.of_nat (length xs) |} in
  let range := firstn (j - i) (skipn i xs) in
  let m := if c_dg c then N.of_nat (j - i) else 0 in
  let caseA := c_dg c && (k <? N.of_nat (j - i)) in
  let caseB := negb caseA && (k - m <? N.of_nat (length ts)) in
  let f := N.to_nat (k - m) in
  exists v' u',
    splice_drop c known d (N.of_nat (length ts)) (map (fun t => honest_item c t kf) ts) (v, u)
      = (if caseA || caseB then Panic PUser (v', u') else Ok tt (v', u')) /\
    Rep c v' (if caseA || caseB then firstn s xs else VecSpec.sp_splice s e ts xs) /\
    vbk v' = vbk v /\ unext u' = unext u /\
    (N.of_nat new_len <= vcap v -> vcap v' = vcap v) /\
    uevents u' = rev (if caseA then map EDrop (if known then range else firstn (S (N.to_nat k)) range) ++ (if c_dg c then map EDrop ts else [])
                      else (if c_dg c then map EDrop range else [])
                           ++ (if caseB then repeat ENext (S f) ++ (if c_dg c then map EDrop (skipn f ts) else [])
                               else repeat ENext (length ts)))
                 ++ uevents u.
Proof.
  intros Hwf HA Hf Htoks new_len Hroom d range m caseA caseB f.
  destruct (splice_prep_fused c v u xs s e i j known (length ts) k Hwf HA Hf Hroom)
    as (v2 & u2 & E2 & HR2 & Hb2 & Hn2 & Hcap2 & He2 & Hrest).
  fold range in He2. fold caseA in E2, Hrest.
  unfold splice_drop, d. cbn [dcur ci ce dend dstart dorig].
  destruct caseA eqn:EA; cbn [orb negb andb] in *.
  - (* A: a destructor of the range panics; the replacement values are destroyed *)
    destruct (drop_items_ok c kf v2 ts (disarm u2) eq_refl) as [u3 [E3 [L3 [N3 F3]]]].
    exists v2, {| ulog := ulog u3; unext := unext u3; ufuse := ufuse u2 |}.
    split.
    { apply bind_panic. unfold unwinding_st, on_unwind. unfold d in E2. cbn [dcur ci ce dend dstart dorig] in E2.
      rewrite E2. unfold quiet_st. cbn [fst snd]. rewrite E3. reflexivity. }
    split; [exact HR2|]. split; [exact Hb2|]. split; [cbn [unext]; rewrite N3; exact Hn2|]. split; [exact Hcap2|].
    unfold uevents at 1. cbn [ulog]. rewrite L3, uevents_drops. cbn [disarm ulog]. fold (uevents u2). rewrite He2.
    unfold caseA in EA. apply andb_prop in EA. destruct EA as [Hdg Hlt]. rewrite Hdg, Hlt.
    rewrite rev_app_distr, <- app_assoc. reflexivity.
  - (* the range is gone; now the replacement values are pulled *)
    destruct (Hrest eq_refl) as (Hc2 & Hus2 & Hst2 & Hp2 & Ht2 & Hfu2). fold m in Hfu2. clear Hrest.
    unfold d in E2. cbn [dcur ci ce dend dstart dorig] in E2.
    rewrite (bind_ok _ _ _ _ _ (unwinding_ok _ _ _ _ _ E2)).
    rewrite bo_of_nat, Nat2N.id.
    assert (HAc := HA). destruct HAc as [Hle Hlen Hcap Hus Hst Hp Hm Ht Htok].
    destruct Hle as [Hsi [Hij [Hje Hel]]].
    assert (Hlt : length (skipn e xs) = (length xs - e)%nat) by apply skipn_length.
    assert (Hlp : length (firstn s xs) = s) by (apply firstn_length_le; lia).
    destruct (splice_fill_fused c kf ts s 0 v2 u2 (k - m) Hst2) as [u3 [E3 [N3 [L3 F3]]]];
      [unfold new_len in Hc2; lia | exact Hfu2 |].
    assert (Hb : ((s + length ts) * szn c + (length xs - e) * szn c <= length (vmem v2))%nat).
    { unfold store_ok in Hst2. rewrite cap_bytes in Hst2. unfold new_len in Hc2. nia. }
    assert (Hev23 : forall X, ulog u3 = X ++ ulog u2 -> (forall lg, filter is_user_event (X ++ lg) = X ++ filter is_user_event lg) ->
                    uevents u3 = X ++ uevents u2).
    { intros X HX HfX. unfold uevents. rewrite HX, HfX. reflexivity. }
    unfold caseB. destruct (k - m <? N.of_nat (length ts)) eqn:EB.
    + (* B: the f-th call of next() panics *)
      set (v3 := with_mem (mwrite (s * szn c) (flat (szn c) (firstn f ts)) (vmem v2)) v2) in *.
      exists v3, u3. split; [apply bind_panic; exact E3|].
      assert (Hlf : (length (firstn f ts) <= length ts)%nat) by (rewrite firstn_length; lia).
      split.
      { pose proof (rep_len _ _ _ HR2) as Hl2.
        apply rep_of_held; unfold v3; cbn [vlen vcap vmem with_mem]; auto.
        - rewrite Hlp in Hl2. rewrite Hl2. unfold new_len in Hc2. lia.
        - unfold store_ok. cbn [vcap vmem with_mem]. rewrite mwrite_length; [exact Hst2|]. rewrite flat_length. nia.
        - change (HeldM (szn c) (mwrite (s * szn c) (flat (szn c) (firstn f ts)) (vmem v2)) 0 (firstn s xs)).
          apply heldm_mwrite_before; [exact Hp2 | rewrite Hlp; lia | nia].
        - apply Forall_firstn'. exact Htok. }
      split; [unfold v3; cbn [vbk with_mem]; exact Hb2|]. split; [congruence|].
      split; [intros Hfit; unfold v3; cbn [vcap with_mem]; exact (Hcap2 Hfit)|].
      rewrite (Hev23 _ L3).
      2:{ intros lg. rewrite filter_app. f_equal.
          rewrite filter_app. f_equal.
          - destruct (c_dg c); [|reflexivity]. rewrite <- map_rev.
            induction (rev (skipn (N.to_nat (k - m)) ts)) as [|x l IH]; [reflexivity|]. cbn [map filter is_user_event]. f_equal. exact IH.
          - apply filter_all_true. apply Forall_forall. intros x Hx. apply repeat_spec in Hx. subst x. reflexivity. }
      rewrite He2. unfold caseA in EA. fold f.
      assert (Hrange : (if c_dg c then (if k <? N.of_nat (j - i) then map EDrop (if known then range else firstn (S (N.to_nat k)) range) else map EDrop range) else [])
                       = (if c_dg c then map EDrop range else [])).
      { destruct (c_dg c); [|reflexivity]. cbn [andb] in EA. rewrite EA. reflexivity. }
      rewrite Hrange. rewrite !rev_app_distr, <- !app_assoc. rewrite rev_repeat.
      destruct (c_dg c); reflexivity.
    + (* C: the fuse outlives the drop: Vec::splice's result *)
      set (v3 := with_mem (mwrite (s * szn c) (flat (szn c) ts) (vmem v2)) v2) in *.
      assert (Hb' : (s * szn c + length ts * szn c <= length (vmem v2))%nat) by nia.
      assert (Hst3 : store_ok c v3).
      { unfold store_ok, v3. cbn [vcap vmem with_mem].
        rewrite mwrite_length; [exact Hst2|]. rewrite flat_length. lia. }
      assert (Hp3 : Held c v3 0 (firstn s xs)).
      { change (HeldM (szn c) (vmem v3) 0 (firstn s xs)). unfold v3. cbn [vmem with_mem].
        apply heldm_mwrite_before; [exact Hp2 | rewrite Hlp; lia | lia]. }
      assert (Hts3 : Held c v3 s ts).
      { change (HeldM (szn c) (vmem v3) s ts). unfold v3. cbn [vmem with_mem].
        apply heldm_mwrite_at. lia. }
      assert (Ht3 : Held c v3 (s + length ts) (skipn e xs)).
      { change (HeldM (szn c) (vmem v3) (s + length ts) (skipn e xs)). unfold v3.
        cbn [vmem with_mem].
        apply heldm_mwrite_after; [exact Ht2 | rewrite flat_length; lia | lia]. }
      exists (with_len (N.of_nat s + (0 + N.of_nat (length ts)) + (N.of_nat (length xs) - N.of_nat e)) v3), u3.
      split.
      { rewrite (bind_ok _ _ _ _ _ E3).
        rewrite (proj2 (N.ltb_ge _ _)) by lia.
        rewrite (bind_ok _ _ _ tt (v3, u3) eq_refl).
        reflexivity. }
      split.
      { unfold VecSpec.sp_splice.
        apply rep_of_held; cbn [vlen vcap with_len with_mem v3]; auto.
        - rewrite !app_length. lia.
        - unfold new_len in Hc2. lia.
        - apply held_app; [exact Hp3|]. rewrite Hlp.
          apply held_app; [exact Hts3 | exact Ht3].
        - apply Forall_app. split; [apply Forall_firstn'; exact Htok|].
          apply Forall_app. split; [exact Htoks | apply Forall_skipn'; exact Htok]. }
      split; [cbn [vbk with_len with_mem v3]; exact Hb2|]. split; [congruence|].
      split; [intros Hfit; cbn [with_len vcap v3 with_mem]; exact (Hcap2 Hfit)|].
      rewrite (Hev23 _ L3).
      2:{ intros lg. apply uevents_nexts. }
      rewrite He2. unfold caseA in EA.
      assert (Hrange : (if c_dg c then (if k <? N.of_nat (j - i) then map EDrop (if known then range else firstn (S (N.to_nat k)) range) else map EDrop range) else [])
                       = (if c_dg c then map EDrop range else [])).
      { destruct (c_dg c); [|reflexivity]. cbn [andb] in EA. rewrite EA. reflexivity. }
      rewrite Hrange. rewrite rev_app_distr, <- app_assoc. rewrite rev_repeat. reflexivity.
Qed.

(** what a fused step may do: as [step_ok], but the fuse may still be armed afterwards ([run_step] disarms it) *)
Record step_okf (c : cfg) (w w' : world) (st' : astate) (evs : list event) (dnx : N) : Prop := {
  sf_rep : WRep c w' st';
  sf_nx : unext (wuw w') = unext (wuw w) + dnx;
  sf_evs : uevents (wuw w') = rev evs ++ uevents (wuw w)
}.
Definition res_matches_f (c : cfg) (w : world) (x : res world (N * list N)) (r : sres) : Prop :=
  match x with
  | Ok (out, ret) w' => s_out r = out /\ s_pk r = 0 /\ s_ret r = ret /\
                        step_okf c w w' (s_st r) (s_evs r) (s_nx r - unext (wuw w))
  | Panic p w' => s_out r = 2 /\ s_pk r = panic_code p /\ s_ret r = [] /\
                  step_okf c w w' (s_st r) (s_evs r) (s_nx r - unext (wuw w))
  | Fault _ => False
  end.

Lemma exec_clear_f c w st a v k r :
  WRep c w st -> ufuse (wuw w) = Some k -> sp_clear_f c st (unext (wuw w)) v k = Some r ->
  res_matches_f c w (exec c (OClear a v) w) r.
Proof.
  intros HW Hfuse Hr.
  unfold sp_clear_f in Hr.
  destruct (get_a v st) as [av|] eqn:Hg; [|discriminate]. cbv zeta in Hr.
  destruct (wrep_get c w st v av HW Hg) as (vv & Hgv & HV).
  destruct (clear_fused c vv (wuw w) (a_xs av) k (vi_rep _ _ _ HV) Hfuse) as (u' & E & HR' & Hn & Hl).
  assert (HV' : VI c (with_len 0 vv) (with_xs av [])).
  { destruct HV as [HR Hbk Hbw Hcap Hfits]. constructor; cbn [with_xs a_bk a_xs with_len vbk vcap]; auto. }
  assert (Hrep : WRep c (put_vec v (Some (with_len 0 vv)) u' w) (set_a v (Some (with_xs av [])) st)).
  { apply wrep_put; [exact HW|exact HV']. }
  cbn [exec]. unfold bind.
  destruct (c_dg c && (k <? N.of_nat (length (a_xs av)))) eqn:Ecase; injection Hr as <-.
  - rewrite (on_vec_panic v _ w vv PUser _ u' Hgv E).
    cbn [res_matches_f panic_res s_out s_pk s_ret s_st s_evs s_nx].
    split; [reflexivity|split; [reflexivity|split; [reflexivity|]]]. rewrite N.sub_diag.
    constructor; [exact Hrep|rewrite wuw_put; lia|].
    rewrite wuw_put. unfold uevents. rewrite Hl.
    apply andb_prop in Ecase. destruct Ecase as [Hdg Hlt]. rewrite Hdg, Hlt.
    exact (uevents_drops true (firstn (S (N.to_nat k)) (a_xs av)) (ulog (wuw w))).
  - rewrite (on_vec_ok v _ w vv tt _ u' Hgv E). unfold ret.
    cbn [res_matches_f ok_res s_out s_pk s_ret s_st s_evs s_nx].
    split; [reflexivity|split; [reflexivity|split; [reflexivity|]]]. rewrite N.sub_diag.
    constructor; [exact Hrep|rewrite wuw_put; lia|].
    rewrite wuw_put. unfold uevents. rewrite Hl.
    destruct (c_dg c) eqn:Hdg; [|reflexivity]. cbn [andb] in Ecase. rewrite Ecase.
    exact (uevents_drops true (a_xs av) (ulog (wuw w))).
Qed.

Lemma exec_take_drop_f c w st a vid tk idx k r :
  cfg_wf c -> WRep c w st -> ufuse (wuw w) = Some k -> (tk = TPop -> idx = 0) ->
  sp_take_drop_f c st (unext (wuw w)) vid tk idx k = Some r ->
  res_matches_f c w (take_prog c a vid tk idx KDrop w) r.
Proof.
  intros Hwf HW Hfuse Hpop Hr. unfold sp_take_drop_f in Hr.
  destruct (sp_take c st (unext (wuw w)) vid tk idx KDrop) as [r0|] eqn:E0; [|discriminate].
  unfold sp_take in E0. destruct (get_a vid st) as [av|] eqn:Hg; [|discriminate].
  set (xs := a_xs av) in *. cbv zeta in E0.
  assert (Hcase : (tk = TPop /\ xs = []) \/ (tk <> TPop /\ N.of_nat (length xs) <= idx) \/
                  exists i, temp_req tk i xs /\ (tk <> TPop -> idx = N.of_nat i) /\
                            i = match tk with TPop => (length xs - 1)%nat | _ => N.to_nat idx end).
  { destruct tk.
    - destruct xs as [|x xs'] eqn:Ex; [left; auto|]. right. right. exists (length (x :: xs') - 1)%nat.
      unfold temp_req. cbn [length]. repeat split; try lia; intros; try congruence.
    - destruct (N.lt_ge_cases idx (N.of_nat (length xs))) as [Hlt|Hge].
      + right. right. exists (N.to_nat idx). unfold temp_req. repeat split; try lia; intros; try congruence.
      + right. left. split; [discriminate|exact Hge].
    - destruct (N.lt_ge_cases idx (N.of_nat (length xs))) as [Hlt|Hge].
      + right. right. exists (N.to_nat idx). unfold temp_req. repeat split; try lia; intros; try congruence.
      + right. left. split; [discriminate|exact Hge]. }
  unfold take_prog.
  destruct Hcase as [[Hk Hx]|[[Hk Hoob]|(i & Hreq & Hidx & Hi)]].
  - (* pop on an empty vector *)
    subst tk. rewrite (Hpop eq_refl) in *. rewrite Hx in E0. cbn [length Nat.eqb] in E0. injection E0 as <-.
    cbn [none_res s_out N.eqb andb] in Hr. rewrite Bool.andb_false_r in Hr. injection Hr as <-.
    unfold bind. rewrite (temp_open_pop_empty c w st vid av HW Hg Hx). unfold ret.
    cbn [res_matches_f none_res s_out s_pk s_ret s_st s_evs s_nx].
    split; [reflexivity|split; [reflexivity|split; [reflexivity|]]]. rewrite N.sub_diag.
    constructor; [exact HW|lia|reflexivity].
  - (* index out of range *)
    assert (Hr0 : r0 = panic_res PIndex [] st (unext (wuw w))).
    { destruct tk; [congruence| |]; destruct (N.ltb_spec idx (N.of_nat (length xs))) as [Hlt|_]; try lia; congruence. }
    subst r0. cbn [panic_res s_out N.eqb] in Hr. rewrite Bool.andb_false_r in Hr. injection Hr as <-.
    unfold bind. rewrite (temp_open_oob c w st vid av tk idx HW Hg Hk Hoob).
    cbn [res_matches_f panic_res s_out s_pk s_ret s_st s_evs s_nx].
    split; [reflexivity|split; [reflexivity|split; [reflexivity|]]]. rewrite N.sub_diag.
    constructor; [exact HW|lia|reflexivity].
  - (* a handle for element i *)
    destruct (temp_open_some c w st vid av tk idx i HW Hg Hreq Hidx) as (vv & h & Hgv & HV & Hfor & Eo).
    unfold bind at 1. rewrite Eo.
    assert (Hsel : (match tk with
                    | TPop => if (length xs =? 0)%nat then inr (none_res st (unext (wuw w))) else inl (Some (length xs - 1)%nat)
                    | _ => if idx <? N.of_nat (length xs) then inl (Some (N.to_nat idx))
                           else inr (panic_res PIndex [] st (unext (wuw w)))
                    end : option nat + sres) = inl (Some i)).
    { destruct Hreq as [Hi' _]. subst i. destruct tk.
      - destruct (Nat.eqb_spec (length xs) 0); [lia|reflexivity].
      - destruct (N.ltb_spec idx (N.of_nat (length xs))); [reflexivity|lia].
      - destruct (N.ltb_spec idx (N.of_nat (length xs))); [reflexivity|lia]. }
    rewrite Hsel in E0. cbn [sp_sink] in E0. unfold sp_take_elem in E0. cbv zeta in E0. injection E0 as <-.
    cbn [ok_res s_out N.eqb] in Hr. rewrite Bool.andb_true_r in Hr.
    pose proof (vi_rep _ _ _ HV) as HR. fold xs in HR.
    set (wl := with_len (N.of_nat i) vv) in *.
    set (w1 := put_vec vid (Some wl) (wuw w) w) in *.
    pose proof (temp_drop_fused c vv (wuw w) xs tk i h (known_of a) k HR Hreq Hfor Hfuse) as Hd.
    cbn [apply_sink]. unfold bind.
    destruct (c_dg c && (k =? 0)) eqn:Ecase.
    + (* the destructor panics *)
      destruct Hd as (u' & Ed & Hn' & Hl').
      rewrite <- Hi in Hr. injection Hr as <-.
      rewrite (on_vec_panic vid _ w1 wl PUser wl u' (get_vec_put_same _ _ _ _) Ed).
      cbn [res_matches_f panic_res s_out s_pk s_ret s_st s_evs s_nx].
      split; [reflexivity|split; [reflexivity|split; [reflexivity|]]]. rewrite N.sub_diag.
      constructor.
      * intros n. unfold w1. rewrite put_put_slot.
        apply (wrep_put c w st vid (Some wl) (Some (with_xs av (firstn i xs))) u' HW).
        apply vi_prefix; [exact HV|]. apply Nat.lt_le_incl. exact (proj1 Hreq).
      * rewrite wuw_put. lia.
      * rewrite wuw_put. unfold uevents. rewrite Hl'. cbn [filter is_user_event rev app]. reflexivity.
    + destruct Hd as (v' & u' & Ed & HR' & Hc & Hb & Hn' & Hl').
      injection Hr as <-.
      rewrite (on_vec_ok vid _ w1 wl tt v' u' (get_vec_put_same _ _ _ _) Ed). unfold ret.
      cbn [res_matches_f ok_res s_out s_pk s_ret s_st s_evs s_nx].
      split; [reflexivity|split; [reflexivity|split; [reflexivity|]]]. rewrite N.sub_diag.
      constructor.
      * intros n. unfold w1. rewrite put_put_slot.
        apply (wrep_put c w st vid (Some v') (Some (with_xs av (take_result tk i xs))) u' HW).
        apply (vi_take c vv av tk i v' HV HR' Hc Hb).
      * rewrite wuw_put. lia.
      * rewrite wuw_put. apply uevents_app_drop. exact Hl'.
Qed.

Lemma exec_dropvec_f c w st v k r0 :
  WRep c w st -> ufuse (wuw w) = Some k -> sp_clear_f c st (unext (wuw w)) v k = Some r0 ->
  res_matches_f c w (exec c (ODropVec v) w)
    {| s_out := s_out r0; s_pk := s_pk r0; s_ret := s_ret r0; s_evs := s_evs r0; s_st := set_a v None st; s_nx := s_nx r0 |}.
Proof.
  intros HW Hfuse Hr.
  unfold sp_clear_f in Hr.
  destruct (get_a v st) as [av|] eqn:Hg; [|discriminate]. cbv zeta in Hr.
  destruct (wrep_get c w st v av HW Hg) as (vv & Hgv & HV).
  destruct (clear_fused c vv (wuw w) (a_xs av) k (vi_rep _ _ _ HV) Hfuse) as (u' & E & HR' & Hn & Hl).
  cbn [exec]. rewrite Hgv.
  assert (Hrep : forall u2 w2, wv w2 = wv w -> WRep c (put_vec v None u2 w2) (set_a v None st)).
  { intros u2 w2 Hwv n. unfold put_vec, set_a. cbn [wv]. rewrite Hwv, !slot_set_nth.
    destruct (Nat.eqb n v); [exact I|apply HW]. }
  destruct (c_dg c && (k <? N.of_nat (length (a_xs av)))) eqn:Ecase; injection Hr as <-.
  - (* a destructor panics: the storage is still released *)
    destruct (mem_drop_ok c (with_len 0 vv) (disarm u')) as (v2 & u2 & Ed & _ & Hn2 & Hf2 & He2).
    assert (Edv : drop_vec c (vv, wuw w) = Panic PUser (v2, {| ulog := ulog u2; unext := unext u2; ufuse := ufuse u' |})).
    { unfold drop_vec. apply bind_panic. unfold unwinding_st, on_unwind. rewrite E.
      unfold quiet_st. cbn [fst snd]. rewrite Ed. reflexivity. }
    rewrite (on_vec_panic v _ w vv PUser _ _ Hgv Edv).
    cbn [res_matches_f panic_res s_out s_pk s_ret s_st s_evs s_nx].
    split; [reflexivity|split; [reflexivity|split; [reflexivity|]]]. rewrite N.sub_diag.
    constructor.
    + rewrite wuw_put. intros n. rewrite put_put_slot. apply Hrep. reflexivity.
    + rewrite !wuw_put. cbn [unext]. rewrite Hn2. cbn [disarm unext]. lia.
    + rewrite !wuw_put. unfold uevents at 1. cbn [ulog]. fold (uevents u2). rewrite He2.
      unfold uevents. cbn [disarm ulog]. rewrite Hl.
      apply andb_prop in Ecase. destruct Ecase as [Hdg Hlt]. rewrite Hdg, Hlt.
      exact (uevents_drops true (firstn (S (N.to_nat k)) (a_xs av)) (ulog (wuw w))).
  - destruct (mem_drop_ok c (with_len 0 vv) u') as (v2 & u2 & Ed & _ & Hn2 & Hf2 & He2).
    assert (Edv : drop_vec c (vv, wuw w) = Ok tt (v2, u2)).
    { unfold drop_vec. rewrite (bind_ok _ _ _ _ _ (unwinding_ok _ _ _ _ _ E)). exact Ed. }
    rewrite (on_vec_ok v _ w vv tt _ _ Hgv Edv).
    cbn [res_matches_f ok_res s_out s_pk s_ret s_st s_evs s_nx].
    split; [reflexivity|split; [reflexivity|split; [reflexivity|]]]. rewrite N.sub_diag.
    constructor.
    + rewrite wuw_put. intros n. rewrite put_put_slot. apply Hrep. reflexivity.
    + rewrite !wuw_put. rewrite Hn2. lia.
    + rewrite !wuw_put. rewrite He2. unfold uevents. rewrite Hl.
      destruct (c_dg c) eqn:Hdg; [|reflexivity]. cbn [andb] in Ecase. rewrite Ecase.
      exact (uevents_drops true (a_xs av) (ulog (wuw w))).
Qed.

Lemma exec_drain_f c w st a vid sb eb k r :
  cfg_wf c -> WRep c w st -> ufuse (wuw w) = Some k ->
  sp_drain_f c st (unext (wuw w)) a vid sb eb k = Some r ->
  res_matches_f c w (exec c (ODrain a vid sb eb [] FinDrop) w) r.
Proof.
  intros Hwf HW Hfuse Hr. unfold sp_drain_f in Hr.
  destruct (get_a vid st) as [av|] eqn:Hg; [|discriminate].
  destruct (wrep_get c w st vid av HW Hg) as (vv & Hgv & HV).
  pose proof (vi_rep _ _ _ HV) as HR. pose proof (rep_len _ _ _ HR) as Hlen.
  set (xs := a_xs av) in *. cbv zeta in Hr.
  cbn [exec]. rewrite (bind_ok _ _ _ _ _ (peek_vec_ok vid w vv Hgv)). rewrite Hlen.
  destruct (range_of_bounds usize_max (N.of_nat (length xs)) (to_sb sb) (to_sb eb)) as [[sN eN]|] eqn:Erb.
  - destruct (into_range_ok _ sb eb (vv, wuw w) sN eN Erb) as (Eir & Hse & Hel).
    set (s := N.to_nat sN) in *. set (e := N.to_nat eN) in *.
    assert (HsN : sN = N.of_nat s) by (unfold s; rewrite N2Nat.id; reflexivity).
    assert (HeN : eN = N.of_nat e) by (unfold e; rewrite N2Nat.id; reflexivity).
    assert (Hse' : (s <= e)%nat) by lia. assert (Hel' : (e <= length xs)%nat) by lia.
    rewrite (bind_ok _ _ _ _ _ (on_vec_ok vid _ w vv _ vv (wuw w) Hgv Eir)). cbn [fst snd].
    set (w1 := put_vec vid (Some vv) (wuw w) w).
    set (vr := with_len (N.of_nat s) vv).
    pose proof (drain_new_spec c vv (wuw w) xs s e HR Hse' Hel') as Edn. rewrite <- HsN, <- HeN in Edn.
    rewrite (bind_ok _ _ _ _ _ (on_vec_ok vid _ w1 vv _ _ _ (get_vec_put_same vid (Some vv) (wuw w) w) Edn)).
    rewrite HsN, HeN. fold vr.
    set (w2 := put_vec vid (Some vr) (wuw w1) w1).
    cbn [walk dcur]. unfold ret at 1. unfold bind at 1. cbn [fst snd].
    change (put_vec vid (Some vr) (wuw w) w1) with w2.
    pose proof (range_alive_any c vv xs s e s e HR (le_n s) Hse' (le_n e) Hel') as HA. fold vr in HA.
    set (range := firstn (e - s) (skipn s xs)) in *.
    assert (Hlr : length range = (e - s)%nat).
    { unfold range. rewrite firstn_length_le; [reflexivity|rewrite skipn_length; lia]. }
    assert (HA' := HA). destruct HA' as [Hle' Hlen' Hcap' Hus' Hst' Hp' Hm' Ht' Htok'].
    assert (Htokm : Forall (tok_ok (szn c)) range) by (apply Forall_firstn', Forall_skipn'; exact Htok').
    destruct (drop_range_fused c (known_of a) vr (wuw w) range s e k Hst' Hse' ltac:(lia) Hlr Hm' Htokm Hfuse)
      as (u' & Edr & Hn' & Hl' & _).
    assert (Hg2 : get_vec vid w2 = Some vr) by (apply get_vec_put_same).
    assert (Hu2 : wuw w2 = wuw w) by reflexivity.
    destruct (c_dg c && (k <? N.of_nat (e - s))) eqn:Ecase.
    + (* a destructor panics: the tail is not moved *)
      injection Hr as <-.
      assert (Edd : drain_drop c (known_of a) (with_cur {| ci := N.of_nat s; ce := N.of_nat e |}
                       {| dcur := {| ci := N.of_nat s; ce := N.of_nat e |}; dstart := N.of_nat s; dend := N.of_nat e;
                          dorig := N.of_nat (length xs) |}) (vr, wuw w2) = Panic PUser (vr, u')).
      { unfold drain_drop, with_cur. cbn [dcur ci ce dend dstart dorig]. apply bind_panic. rewrite Hu2. exact Edr. }
      unfold bind at 1. rewrite (on_vec_panic vid _ w2 vr PUser vr u' Hg2 Edd).
      cbn [res_matches_f panic_res s_out s_pk s_ret s_st s_evs s_nx].
      split; [reflexivity|split; [reflexivity|split; [reflexivity|]]]. rewrite N.sub_diag.
      constructor.
      * intros n. unfold w2, w1. rewrite !put_put_slot.
        apply (wrep_put c w st vid (Some vr) (Some (with_xs av (firstn s xs))) u' HW).
        apply vi_prefix; [exact HV|unfold xs in *; lia].
      * rewrite wuw_put. lia.
      * rewrite wuw_put. unfold uevents. rewrite Hl'.
        apply andb_prop in Ecase. destruct Ecase as [Hdg Hlt]. rewrite Hdg, Hlt.
        destruct a; cbn [known_of]; apply (uevents_drops true).
    + (* no panic inside this step *)
      unfold sp_drain in Hr. rewrite Hg in Hr. fold xs in Hr. cbv zeta in Hr. rewrite Erb in Hr.
      cbn [sp_walk] in Hr. fold s e in Hr. injection Hr as <-.
      destruct (drain_drop_after c vr (wuw w) u' xs s e s e (known_of a) HA Edr) as (v' & Edd & HR' & Hc' & Hb').
      assert (Edd' : drain_drop c (known_of a) (with_cur {| ci := N.of_nat s; ce := N.of_nat e |}
                       {| dcur := {| ci := N.of_nat s; ce := N.of_nat e |}; dstart := N.of_nat s; dend := N.of_nat e;
                          dorig := N.of_nat (length xs) |}) (vr, wuw w2) = Ok tt (v', u')).
      { rewrite Hu2. exact Edd. }
      unfold bind at 1. rewrite (on_vec_ok vid _ w2 vr tt v' u' Hg2 Edd'). unfold ret.
      assert (Hcl : cur_len {| ci := N.of_nat s; ce := N.of_nat e |} = N.of_nat (e - s)) by (unfold cur_len; cbn [ci ce]; lia).
      rewrite Hcl.
      cbn [res_matches_f ok_res s_out s_pk s_ret s_st s_evs s_nx flat_map app].
      split; [reflexivity|split; [reflexivity|split; [reflexivity|]]]. rewrite N.sub_diag.
      constructor.
      * intros n. unfold w2, w1. rewrite !put_put_slot.
        apply (wrep_put c w st vid (Some v') (Some (with_xs av (VecSpec.sp_drain s e xs))) u' HW).
        destruct HV as [HRv Hbk Hbw Hcap Hfits]. constructor; cbn [with_xs a_bk a_xs]; auto.
        -- unfold vr in Hb'. cbn [with_len vbk] in Hb'. congruence.
        -- unfold vr in Hc'. cbn [with_len vcap] in Hc'. destruct (acap c (a_bk av)); [congruence|exact I].
      * rewrite wuw_put. lia.
      * rewrite wuw_put. unfold uevents. rewrite Hl'. fold range.
        destruct (c_dg c) eqn:Hdg; [|reflexivity]. cbn [andb] in Ecase. rewrite Ecase.
        exact (uevents_drops true range (ulog (wuw w))).
  - (* invalid range *)
    injection Hr as <-.
    pose proof (into_range_panic _ sb eb (vv, wuw w) Erb) as Ep.
    rewrite (bind_panic _ _ _ _ _ (on_vec_panic vid _ w vv _ vv (wuw w) Hgv Ep)).
    cbn [res_matches_f panic_res s_out s_pk s_ret s_st s_evs s_nx].
    split; [reflexivity|split; [reflexivity|split; [reflexivity|]]]. rewrite N.sub_diag.
    constructor.
    + apply (wrep_put_same c w st vid vv av); assumption.
    + rewrite wuw_put. lia.
    + rewrite wuw_put. reflexivity.
Qed.

Lemma exec_splice_f c w st a vid sb eb rk n wrong_at claimed k r :
  cfg_wf c -> WRep c w st -> ufuse (wuw w) = Some k ->
  sp_splice_f c st (unext (wuw w)) a vid sb eb rk n wrong_at claimed k = Some r ->
  adm_splice c w vid sb eb claimed ->
  res_matches_f c w (exec c (OSplice a vid sb eb [] FinDrop rk n wrong_at claimed) w) r.
Proof.
  intros Hwf HW Hfuse Hr Hadm. unfold sp_splice_f in Hr.
  assert (Hrk : rk = RWrap \/ rk = RBox) by (destruct rk; [left|right|destruct wrong_at; discriminate]; reflexivity).
  destruct wrong_at as [x|]; [destruct rk; discriminate|].
  assert (Hc : claimed = n).
  { destruct (N.eqb_spec claimed n) as [E|NE]; [exact E|]. destruct rk; discriminate. }
  subst claimed. rewrite N.eqb_refl in Hr. cbn [negb] in Hr.
  assert (Hr' : match get_a vid st with None => None | Some av => _ end = Some r) by (destruct Hrk as [-> | ->]; exact Hr).
  clear Hr. rename Hr' into Hr.
  destruct (get_a vid st) as [av|] eqn:Hg; [|discriminate].
  destruct (wrep_get c w st vid av HW Hg) as (vv & Hgv & HV).
  pose proof (vi_rep _ _ _ HV) as HR. pose proof (rep_len _ _ _ HR) as Hlen.
  specialize (Hadm vv Hgv). rewrite Hlen in Hadm.
  set (xs := a_xs av) in *. cbv zeta in Hr.
  set (nn := N.to_nat n) in *.
  set (ts := next_ids c (unext (wuw w)) nn) in *.
  assert (Hlts : length ts = nn) by apply next_ids_length.
  assert (Hn : n = N.of_nat (length ts)) by (rewrite Hlts; unfold nn; lia).
  set (w0 := bump_by (N.of_nat nn) w).
  assert (HW0 : WRep c w0 st) by (apply (wrep_wv c w w0 st eq_refl HW)).
  assert (Hgv0 : get_vec vid w0 = Some vv) by exact Hgv.
  assert (Hfuse0 : ufuse (wuw w0) = Some k) by exact Hfuse.
  assert (Hnx0 : unext (wuw w0) = unext (wuw w) + n) by (unfold w0, bump_by, nn; cbn [wuw unext]; lia).
  assert (Hev0 : uevents (wuw w0) = uevents (wuw w)) by reflexivity.
  set (items := map (fun t => honest_item c t (rk_flag rk)) ts).
  cbn [exec]. rewrite (bind_ok _ _ _ _ _ (peek_vec_ok vid w vv Hgv)).
  rewrite (bind_ok _ _ _ _ _ (make_items_honest c rk Hrk nn 0 w)). fold ts items w0.
  rewrite Hlen.
  destruct (range_of_bounds usize_max (N.of_nat (length xs)) (to_sb sb) (to_sb eb)) as [[sN eN]|] eqn:Erb; [|discriminate].
  destruct (into_range_ok _ sb eb (vv, wuw w0) sN eN Erb) as (Eir & Hse & Hel).
  set (s := N.to_nat sN) in *. set (e := N.to_nat eN) in *.
  assert (HsN : sN = N.of_nat s) by (unfold s; rewrite N2Nat.id; reflexivity).
  assert (HeN : eN = N.of_nat e) by (unfold e; rewrite N2Nat.id; reflexivity).
  assert (Hse' : (s <= e)%nat) by lia. assert (Hel' : (e <= length xs)%nat) by lia.
  rewrite (bind_ok _ _ _ _ _ (unwinding_okw _ _ _ _ _ (on_vec_ok vid _ w0 vv _ vv (wuw w0) Hgv0 Eir))). cbn [fst snd].
  set (w1 := put_vec vid (Some vv) (wuw w0) w0).
  set (vr := with_len (N.of_nat s) vv).
  pose proof (drain_new_spec c vv (wuw w0) xs s e HR Hse' Hel') as Edn. rewrite <- HsN, <- HeN in Edn.
  rewrite (bind_ok _ _ _ _ _ (on_vec_ok vid _ w1 vv _ _ _ (get_vec_put_same vid (Some vv) (wuw w0) w0) Edn)).
  rewrite HsN, HeN. fold vr.
  set (w2 := put_vec vid (Some vr) (wuw w1) w1).
  cbn [walk dcur]. unfold ret at 1. unfold bind at 1. cbn [fst snd].
  change (put_vec vid (Some vr) (wuw w0) w1) with w2.
  assert (Hg2 : get_vec vid w2 = Some vr) by (apply get_vec_put_same).
  assert (Hu2 : wuw w2 = wuw w0) by reflexivity.
  pose proof (range_alive_any c vv xs s e s e HR (le_n s) Hse' (le_n e) Hel') as HA. fold vr in HA.
  assert (Hnl : N.of_nat s + n + N.of_nat (length xs - e) = N.of_nat (s + length ts + (length xs - e))) by lia.
  rewrite Hnl in Hr.
  destruct (usize_max <? N.of_nat (s + length ts + (length xs - e))) eqn:Eov; [discriminate|]. cbn [orb] in Hr.
  destruct (match acap c (a_bk av) with Some cap => cap <? N.of_nat (s + length ts + (length xs - e)) | None => false end) eqn:Ecap; [discriminate|].
  assert (Hroom : N.of_nat (s + length ts + (length xs - e)) <= vcap vr \/
                  grow_ok c vr (N.of_nat (s + length ts + (length xs - e)))).
  { destruct (acap c (a_bk av)) as [cap|] eqn:Ea.
    - left. apply N.ltb_ge in Ecap. pose proof (vi_cap _ _ _ HV) as H. rewrite Ea in H.
      unfold vr. cbn [with_len vcap]. lia.
    - assert (Hnf : ~ fixed_backend (vbk vv)). { rewrite (vi_bk _ _ _ HV). eapply acap_none_not_fixed; eauto. }
      cbv zeta in Hadm. apply N.ltb_ge in Eov.
      assert (Hx : sN + n + (N.of_nat (length xs) - eN) = N.of_nat (s + length ts + (length xs - e))) by lia.
      rewrite Hx in Hadm.
      destruct Hadm as [H1|[H1|[H1|H1]]]; [left; exact H1|contradiction|lia|right; exact H1]. }
  destruct (splice_drop_fused c vr (wuw w0) xs s e s e (known_of a) ts (rk_flag rk) k Hwf HA Hfuse0
              (next_ids_tok_ok _ _ _) Hroom)
    as (v' & u' & Ed & HR' & Hb' & Hn' & Hc' & He').
  set (range := firstn (e - s) (skipn s xs)) in *.
  set (m := if c_dg c then N.of_nat (e - s) else 0) in *.
  assert (Efin : on_vec vid (splice_drop c (known_of a)
                   (with_cur {| ci := N.of_nat s; ce := N.of_nat e |}
                      {| dcur := {| ci := N.of_nat s; ce := N.of_nat e |}; dstart := N.of_nat s; dend := N.of_nat e;
                         dorig := N.of_nat (length xs) |}) n items) w2
                 = match splice_drop c (known_of a)
                     {| dcur := {| ci := N.of_nat s; ce := N.of_nat e |}; dstart := N.of_nat s; dend := N.of_nat e;
                        dorig := N.of_nat (length xs) |} (N.of_nat (length ts)) items (vr, wuw w0) with
                   | Ok a0 (v1, u1) => Ok a0 (put_vec vid (Some v1) u1 w2)
                   | Panic p (v1, u1) => Panic p (put_vec vid (Some v1) u1 w2)
                   | Fault f0 => Fault f0
                   end).
  { unfold on_vec. rewrite Hg2, Hu2. unfold with_cur. cbn [dcur dstart dend dorig]. rewrite <- Hn. reflexivity. }
  unfold bind at 1. rewrite Efin. unfold items. rewrite Ed.
  assert (Hstepf : forall w' st' evs, step_okf c w0 w' st' evs 0 -> step_okf c w w' st' evs (unext (wuw w) + n - unext (wuw w))).
  { intros w' st' evs [R Nx E]. constructor; auto; try (rewrite Nx, Hnx0; lia); try (rewrite E, Hev0; reflexivity). }
  destruct (c_dg c && (k <? N.of_nat (e - s))) eqn:EA; cbn [orb negb andb] in *.
  - (* A *)
    injection Hr as <-.
    cbn [res_matches_f panic_res s_out s_pk s_ret s_st s_evs s_nx].
    split; [reflexivity|split; [reflexivity|split; [reflexivity|]]].
    apply Hstepf. constructor.
    + intros q. unfold w2, w1. rewrite !put_put_slot.
      apply (wrep_put c w0 st vid (Some v') (Some (with_xs av (firstn s xs))) u' HW0).
      destruct HV as [HRv Hbk Hbw Hcap Hfits]. constructor; cbn [with_xs a_bk a_xs]; auto.
      * unfold vr in Hb'. cbn [with_len vbk] in Hb'. congruence.
      * destruct (acap c (a_bk av)) as [cap|] eqn:Ea; [|exact I].
        apply N.ltb_ge in Ecap. rewrite Hc'; [unfold vr; cbn [with_len vcap]; exact Hcap|].
        unfold vr. cbn [with_len vcap]. lia.
    + rewrite wuw_put. lia.
    + rewrite wuw_put. rewrite He'. f_equal. f_equal. destruct a; reflexivity.
  - destruct (k - m <? N.of_nat (length ts)) eqn:EB; cbn [orb] in *.
    + (* B *)
      rewrite Hn in Hr. rewrite EB in Hr. injection Hr as <-.
      cbn [res_matches_f panic_res s_out s_pk s_ret s_st s_evs s_nx].
      split; [reflexivity|split; [reflexivity|split; [reflexivity|]]].
      rewrite <- Hn. apply Hstepf. constructor.
      * intros q. unfold w2, w1. rewrite !put_put_slot.
        apply (wrep_put c w0 st vid (Some v') (Some (with_xs av (firstn s xs))) u' HW0).
        destruct HV as [HRv Hbk Hbw Hcap Hfits]. constructor; cbn [with_xs a_bk a_xs]; auto.
        -- unfold vr in Hb'. cbn [with_len vbk] in Hb'. congruence.
        -- destruct (acap c (a_bk av)) as [cap|] eqn:Ea; [|exact I].
           apply N.ltb_ge in Ecap. rewrite Hc'; [unfold vr; cbn [with_len vcap]; exact Hcap|].
           unfold vr. cbn [with_len vcap]. lia.
      * rewrite wuw_put. lia.
      * rewrite wuw_put. rewrite He'. reflexivity.
    + (* C *)
      rewrite Hn in Hr. rewrite EB in Hr. injection Hr as <-. unfold ret.
      assert (Hcl : cur_len {| ci := N.of_nat s; ce := N.of_nat e |} = N.of_nat (e - s)) by (unfold cur_len; cbn [ci ce]; lia).
      rewrite Hcl.
      cbn [res_matches_f ok_res s_out s_pk s_ret s_st s_evs s_nx].
      split; [reflexivity|split; [reflexivity|split; [reflexivity|]]].
      rewrite <- Hn. apply Hstepf. constructor.
      * intros q. unfold w2, w1. rewrite !put_put_slot.
        apply (wrep_put c w0 st vid (Some v') (Some (with_xs av (VecSpec.sp_splice s e ts xs))) u' HW0).
        destruct HV as [HRv Hbk Hbw Hcap Hfits]. constructor; cbn [with_xs a_bk a_xs]; auto.
        -- unfold vr in Hb'. cbn [with_len vbk] in Hb'. congruence.
        -- destruct (acap c (a_bk av)) as [cap|] eqn:Ea; [|exact I].
           apply N.ltb_ge in Ecap. rewrite Hc'; [unfold vr; cbn [with_len vcap]; exact Hcap|].
           unfold vr. cbn [with_len vcap]. lia.
      * rewrite wuw_put. lia.
      * rewrite wuw_put. rewrite He'. unfold nn in Hlts. rewrite Hlts. reflexivity.
Qed.

(** ** lazy clones offered to push / insert whose Clone panics *)
Lemma raw_action_clone_f c vv a u idx bs t0 k :
  cfg_wf c -> VI c vv a -> dec (szn c) bs = Some t0 -> ufuse u = Some 0 -> can_take c vv 1 ->
  match put_value c a idx (tok c (unext u)) with
  | inl _ => exists v' u', raw_action c idx (VClone bs k) (vv, u) = Panic PUser (v', u') /\
               VI c v' (with_xs a (match idx with None => a_xs a | Some i => firstn (N.to_nat i) (a_xs a) end)) /\
               unext u' = unext u /\ uevents u' = uevents u
  | inr p => raw_action c idx (VClone bs k) (vv, u) = Panic p (vv, u)
  end.
Proof.
  intros Hwf HV Hd Hf Hc. assert (HV' := HV). destruct HV' as [HR Hbk Hbwf Hcap Hfits].
  pose proof (rep_len _ _ _ HR) as Hlen. pose proof (rep_cap _ _ _ HR) as Hle.
  assert (Hroom_of : full c a = false -> vlen vv < vcap vv \/ grow_ok c vv (vcap vv + 1)).
  { intros Hfl. exact (vi_full_false c vv a HV Hfl Hc). }
  assert (Hvi : forall v' xs', Rep c v' xs' -> vbk v' = vbk vv -> (vlen vv < vcap vv -> vcap v' = vcap vv) ->
                               full c a = false -> VI c v' (with_xs a xs')).
  { intros v' xs' HR' Hb' Hc' Hfl. constructor; cbn [with_xs a_bk a_xs]; auto; try congruence.
    unfold full in Hfl. destruct (acap c (a_bk a)) as [cap|] eqn:Ea; [|exact I].
    apply N.leb_gt in Hfl. rewrite Hc'; [exact Hcap|]. rewrite Hcap. lia. }
  unfold put_value, raw_action. destruct idx as [i|].
  - destruct (N.ltb_spec (N.of_nat (length (a_xs a))) i) as [Hoob|Hin].
    + apply (insert_oob c vv u (a_xs a)); assumption.
    + destruct (full c a) eqn:Hfl.
      * destruct (vi_full_true c vv a HV Hfl) as [He Hfx].
        apply (insert_full_fixed c vv u (a_xs a)); auto. lia.
      * pose proof (Hroom_of eq_refl) as Hroom.
        assert (Hi : (N.to_nat i <= length (a_xs a))%nat) by lia.
        destruct (insert_clone_panics c vv u (a_xs a) bs t0 k (N.to_nat i) Hwf HR Hd Hf Hi Hroom)
          as (v' & u' & E & HR' & Hn' & Hf' & He' & Hb' & Hc').
        rewrite N2Nat.id in E. exists v', u'. split; [exact E|]. split; [apply Hvi; auto|]. auto.
  - destruct (full c a) eqn:Hfl.
    + destruct (vi_full_true c vv a HV Hfl) as [He Hfx].
      apply (push_full_fixed c vv u (a_xs a)); auto.
    + pose proof (Hroom_of eq_refl) as Hroom.
      destruct (push_clone_panics c vv u (a_xs a) bs t0 k Hwf HR Hd Hf Hroom)
        as (v' & u' & E & HR' & Hn' & Hf' & He' & Hb' & Hc').
      exists v', u'. split; [exact E|]. split; [apply Hvi; auto|]. auto.
Qed.

Lemma wrep_after_panic c w st vid av idx v' u' :
  WRep c w st -> get_a vid st = Some av ->
  VI c v' (with_xs av (match idx with None => a_xs av | Some i => firstn (N.to_nat i) (a_xs av) end)) ->
  WRep c (put_vec vid (Some v') u' w) (after_clone_panic st vid av idx).
Proof.
  intros HW Hg HV. destruct idx as [i|]; cbn [after_clone_panic].
  - apply wrep_put; [exact HW|exact HV].
  - intros n. unfold put_vec. cbn [wv]. rewrite slot_set_nth. destruct (Nat.eqb_spec n vid) as [->|]; [|apply HW].
    rewrite <- get_a_slot, Hg. destruct av; exact HV.
Qed.

Lemma exec_offer_lazy_f c w st vid idx d src sidx r :
  cfg_wf c -> WRep c w st -> ufuse (wuw w) = Some 0 -> adm_vec c w vid ->
  sp_offer_lazy_f c st (unext (wuw w)) vid idx src sidx = Some r ->
  res_matches_f c w ((do o <- make_offer c (SLazy d src sidx);
                      offer_into c vid o (raw_action c idx);; ret (0, @nil N)) w) r.
Proof.
  intros Hwf HW Hfuse Hadm Hr. unfold sp_offer_lazy_f in Hr.
  destruct (Nat.eqb_spec src vid) as [|Hne]; [discriminate|].
  destruct (get_a vid st) as [av|] eqn:Hga; [|discriminate].
  destruct (get_a src st) as [bv|] eqn:Hgb; [|discriminate].
  destruct (wrep_get c w st vid av HW Hga) as (va & Hgva & HVa).
  destruct (wrep_get c w st src bv HW Hgb) as (vb & Hgvb & HVb).
  pose proof (vi_rep _ _ _ HVb) as HRb. pose proof (rep_len _ _ _ HRb) as Hlb.
  assert (Hrefl : forall w0, wv w0 = wv w -> unext (wuw w0) = unext (wuw w) -> uevents (wuw w0) = uevents (wuw w) ->
                  step_okf c w w0 st [] 0).
  { intros w0 H1 H2 H3. constructor; [apply (wrep_wv c w w0 st H1 HW)|lia|exact H3]. }
  cbn [make_offer]. unfold Interp.elem_bytes.
  unfold bind at 1. unfold bind at 1. unfold bind at 1. rewrite (peek_vec_ok src w vb Hgvb).
  unfold bind at 1. unfold assert_. rewrite Hlb.
  destruct (N.ltb_spec sidx (N.of_nat (length (a_xs bv)))) as [Hlt|Hge].
  2:{ injection Hr as <-. unfold raise.
      cbn [res_matches_f panic_res s_out s_pk s_ret s_st s_evs s_nx].
      split; [reflexivity|split; [reflexivity|split; [reflexivity|]]]. rewrite N.sub_diag. apply Hrefl; reflexivity. }
  set (j := N.to_nat sidx). assert (Hj : (j < length (a_xs bv))%nat) by (unfold j; lia).
  assert (Ej : sidx = N.of_nat j) by (unfold j; lia).
  set (t0 := nth j (a_xs bv) 0) in *.
  unfold ret at 1. rewrite Ej.
  rewrite (on_vec_ok src _ w vb _ vb (wuw w) Hgvb (read_elem c vb (wuw w) (a_xs bv) j HRb Hj)).
  set (w1 := put_vec src (Some vb) (wuw w) w).
  unfold ret at 1. cbv zeta. fold t0.
  set (o := {| f_ty := c_ty c; f_src := VClone (enc (szn c) t0) false; f_checked := true; f_drop := DNone |}).
  assert (Hg1a : get_vec vid w1 = Some va).
  { unfold w1. rewrite get_vec_put_other' by congruence. exact Hgva. }
  assert (HW1 : WRep c w1 st) by (apply (wrep_put_same c w st src vb bv); assumption).
  pose proof (raw_action_clone_f c va av (wuw w1) idx (enc (szn c) t0) t0 false Hwf HVa
                (dec_enc _ _ (elem_tok c vb bv j HVb Hj)) Hfuse (Hadm va Hgva)) as Hspec.
  assert (Hnx1 : unext (wuw w1) = unext (wuw w)) by reflexivity. rewrite Hnx1 in Hspec.
  unfold offer_into, unwinding.
  unfold bind at 1. unfold bind at 1. unfold on_unwind. rewrite offer_check_pass by reflexivity. cbn [f_src o].
  destruct (put_value c av idx (tok c (unext (wuw w)))) as [xs'|p]; injection Hr as <-.
  - destruct Hspec as (v' & u' & E & HV' & Hn' & He').
    rewrite (on_vec_panic vid _ w1 va PUser v' u' Hg1a E).
    unfold quiet, drop_offer. cbn [f_drop o]. unfold ret. cbn [wuw wv ulog unext ufuse].
    cbn [res_matches_f panic_res s_out s_pk s_ret s_st s_evs s_nx].
    split; [reflexivity|split; [reflexivity|split; [reflexivity|]]]. rewrite N.sub_diag.
    constructor; cbn [wuw wv ulog unext ufuse].
    + apply (wrep_wv c (put_vec vid (Some v') u' w1)); [reflexivity|]. apply wrep_after_panic; assumption.
    + rewrite wuw_put. cbn [disarm unext]. rewrite Hn'. lia.
    + rewrite wuw_put. unfold uevents in *. cbn [disarm ulog]. rewrite He'. reflexivity.
  - rewrite (on_vec_panic vid _ w1 va p va (wuw w1) Hg1a Hspec).
    unfold quiet, drop_offer. cbn [f_drop o]. unfold ret. cbn [wuw wv ulog unext ufuse].
    cbn [res_matches_f panic_res s_out s_pk s_ret s_st s_evs s_nx].
    split; [reflexivity|split; [reflexivity|split; [reflexivity|]]]. rewrite N.sub_diag.
    constructor; cbn [wuw wv ulog unext ufuse].
    + apply (wrep_wv c (put_vec vid (Some va) (wuw w1) w1)); [reflexivity|].
      apply (wrep_put_same c w1 st vid va av); assumption.
    + unfold w1. rewrite !wuw_put. destruct (wuw w); cbn; lia.
    + unfold w1. rewrite !wuw_put. unfold uevents. destruct (wuw w); reflexivity.
Qed.

Lemma exec_offer_userlazy_f c w st vid idx d r :
  cfg_wf c -> WRep c w st -> ufuse (wuw w) = Some 0 -> adm_vec c w vid ->
  sp_offer_userlazy_f c st (unext (wuw w)) vid idx = Some r ->
  res_matches_f c w ((do o <- make_offer c (SLazyUser d);
                      offer_into c vid o (raw_action c idx);; ret (0, @nil N)) w) r.
Proof.
  intros Hwf HW Hfuse Hadm Hr. unfold sp_offer_userlazy_f in Hr.
  destruct (get_a vid st) as [av|] eqn:Hga; [|discriminate].
  destruct (wrep_get c w st vid av HW Hga) as (va & Hgva & HVa).
  cbv zeta in Hr.
  set (t := tok c (unext (wuw w))) in *.
  set (o := {| f_ty := c_ty c; f_src := VClone (enc (szn c) t) true; f_checked := true; f_drop := DAfter t |}).
  assert (Emk : make_offer c (SLazyUser d) w = Ok o (bump w)) by reflexivity.
  unfold bind at 1. rewrite Emk.
  set (w0 := bump w).
  assert (Hg0 : get_vec vid w0 = Some va) by exact Hgva.
  assert (Hnx0 : unext (wuw w0) = unext (wuw w) + 1) by reflexivity.
  assert (Hf0 : ufuse (wuw w0) = Some 0) by exact Hfuse.
  pose proof (raw_action_clone_f c va av (wuw w0) idx (enc (szn c) t) t true Hwf HVa
                (dec_enc _ _ (tok_tok_ok c _)) Hf0 (Hadm va Hgva)) as Hspec.
  rewrite Hnx0 in Hspec.
  unfold offer_into, unwinding.
  unfold bind at 1. unfold bind at 1. unfold on_unwind. rewrite offer_check_pass by reflexivity. cbn [f_src o].
  destruct (put_value c av idx (tok c (unext (wuw w) + 1))) as [xs'|p]; injection Hr as <-.
  - destruct Hspec as (v' & u' & E & HV' & Hn' & He').
    rewrite (on_vec_panic vid _ w0 va PUser v' u' Hg0 E).
    unfold quiet, drop_offer. cbn [f_drop o]. unfold harness_drop.
    cbn [res_matches_f panic_res s_out s_pk s_ret s_st s_evs s_nx].
    assert (Hrep : WRep c (put_vec vid (Some v') u' w0) (after_clone_panic st vid av idx)).
    { apply wrep_after_panic; [apply wrep_bump; exact HW|exact Hga|exact HV']. }
    destruct (c_dg c) eqn:Hdg; unfold emitw, ret; cbn [wuw wv put_vec ulog unext ufuse disarm emit res_matches_f];
      (split; [reflexivity|split; [reflexivity|split; [reflexivity|]]]);
      constructor; cbn [wuw wv ulog unext ufuse panic_res s_nx s_evs s_st];
      try (apply (wrep_wv c (put_vec vid (Some v') u' w0)); [reflexivity|exact Hrep]);
      try (rewrite Hn'; unfold w0, bump; cbn [wuw unext]; lia);
      try (unfold uevents in *; cbn [ulog filter is_user_event]; rewrite He'; unfold drop_ev; rewrite Hdg;
           unfold w0, bump; cbn [wuw ulog rev app]; reflexivity).
  - rewrite (on_vec_panic vid _ w0 va p va (wuw w0) Hg0 Hspec).
    unfold quiet, drop_offer. cbn [f_drop o]. unfold harness_drop.
    cbn [res_matches_f panic_res s_out s_pk s_ret s_st s_evs s_nx].
    assert (Hrep : WRep c (put_vec vid (Some va) (wuw w0) w0) st).
    { apply (wrep_put_same c w0 st vid va av); [apply wrep_bump; exact HW|exact Hga|exact HVa]. }
    destruct (c_dg c) eqn:Hdg; unfold emitw, ret; cbn [wuw wv put_vec ulog unext ufuse disarm emit res_matches_f];
      (split; [reflexivity|split; [reflexivity|split; [reflexivity|]]]);
      constructor; cbn [wuw wv ulog unext ufuse panic_res s_nx s_evs s_st];
      try (apply (wrep_wv c (put_vec vid (Some va) (wuw w0) w0)); [reflexivity|exact Hrep]);
      try (unfold w0, bump; cbn [wuw unext]; lia);
      try (unfold uevents, drop_ev; rewrite Hdg; unfold w0, bump; cbn [wuw ulog filter is_user_event rev app]; reflexivity).
Qed.

(** ** clone() whose (k+1)-th Clone panics *)
Lemma fresh_ids_next c nx n : CloneProofs.fresh_ids c nx n = next_ids c nx n.
Proof. reflexivity. Qed.
Lemma exec_clone_f c w st v dst k r :
  cfg_wf c -> WRep c w st -> ufuse (wuw w) = Some k ->
  sp_clone_f c st (unext (wuw w)) v dst k = Some r -> adm_clone c w v ->
  res_matches_f c w (exec c (OClone v dst) w) r.
Proof.
  intros Hwf HW Hfuse Hr Hadm. unfold sp_clone_f in Hr.
  destruct (Nat.eqb dst v); [discriminate|].
  destruct (get_a v st) as [av|] eqn:Hg; [|discriminate].
  destruct (wrep_get c w st v av HW Hg) as (sv & Hgv & HV).
  pose proof (vi_rep _ _ _ HV) as HR. pose proof (rep_len _ _ _ HR) as Hlen.
  cbv zeta in Hr. destruct (N.ltb_spec k (N.of_nat (length (a_xs av)))) as [Hk|]; [|discriminate]. injection Hr as <-.
  assert (Hbw : bk_wf (vbk sv)) by (rewrite (vi_bk _ _ _ HV); apply (vi_wf _ _ _ HV)).
  assert (Hfit : fixed_backend (vbk sv) \/
                 (N.of_nat (length (a_xs av)) <= usize_max /\
                  c_sz c * grow_target {| vlen := 0; vcap := 0; vmem := []; vgen := 0; vbk := vbk sv |}
                             (N.of_nat (length (a_xs av))) <= alloc_limit)).
  { rewrite <- Hlen. apply (Hadm sv Hgv). }
  set (kk := N.to_nat k).
  assert (Hfk : ufuse (wuw w) = Some (N.of_nat kk)) by (unfold kk; rewrite N2Nat.id; exact Hfuse).
  destruct (clone_vec_panics c sv (wuw w) (a_xs av) sv kk Hwf Hbw (vi_consistent _ _ _ HV) HR Hfk ltac:(unfold kk; lia) Hfit)
    as (v' & u' & E & _ & _ & He' & Hn').
  cbn [exec]. rewrite (bind_ok _ _ _ _ _ (peek_vec_ok v w sv Hgv)). rewrite E.
  cbn [res_matches_f panic_res s_out s_pk s_ret s_st s_evs s_nx].
  split; [reflexivity|split; [reflexivity|split; [reflexivity|]]].
  constructor; cbn [wv wuw].
  - apply (wrep_wv c w); [reflexivity|exact HW].
  - rewrite Hn'. unfold kk. lia.
  - rewrite He'. rewrite fresh_ids_next. reflexivity.
Qed.

Lemma exec_fused c w st k o r :
  cfg_wf c -> WRep c w st -> ufuse (wuw w) = Some k ->
  spec_step_f c st (unext (wuw w)) (Some k) o = Some r -> admissible c w o ->
  res_matches_f c w (exec c o w) r.
Proof.
  intros Hwf HW Hfuse Hr Hadm. cbn [spec_step_f] in Hr.
  destruct o; try discriminate.
  - (* ODropVec *)
    destruct (sp_clear_f c st (unext (wuw w)) v k) as [r0|] eqn:E0; [|discriminate]. injection Hr as <-.
    exact (exec_dropvec_f c w st v k r0 HW Hfuse E0).
  - (* OPush *) destruct a; [|discriminate]. cbn [admissible] in Hadm. cbn [exec].
    destruct s; try discriminate; destruct (N.eqb_spec k 0) as [->|]; try discriminate.
    + exact (exec_offer_lazy_f c w st v None depth vid idx r Hwf HW Hfuse Hadm Hr).
    + exact (exec_offer_userlazy_f c w st v None depth r Hwf HW Hfuse Hadm Hr).
  - (* OInsert *) destruct a; [|discriminate]. cbn [admissible] in Hadm. cbn [exec].
    destruct s; try discriminate; destruct (N.eqb_spec k 0) as [->|]; try discriminate.
    + exact (exec_offer_lazy_f c w st v (Some idx) depth vid idx0 r Hwf HW Hfuse Hadm Hr).
    + exact (exec_offer_userlazy_f c w st v (Some idx) depth r Hwf HW Hfuse Hadm Hr).
  - (* OPop *) destruct k0; try discriminate.
    exact (exec_take_drop_f c w st a v TPop 0 k r Hwf HW Hfuse (fun _ => eq_refl) Hr).
  - (* ORemove *) destruct k0; try discriminate.
    exact (exec_take_drop_f c w st a v TRemove idx k r Hwf HW Hfuse ltac:(discriminate) Hr).
  - (* OSwapRemove *) destruct k0; try discriminate.
    exact (exec_take_drop_f c w st a v TSwapRemove idx k r Hwf HW Hfuse ltac:(discriminate) Hr).
  - (* OClear *) exact (exec_clear_f c w st a v k r HW Hfuse Hr).
  - (* ODrain *) destruct pat; [|discriminate]. destruct f; [|discriminate].
    exact (exec_drain_f c w st a v sb eb k r Hwf HW Hfuse Hr).
  - (* OSplice *) destruct pat; [|discriminate]. destruct f; [|discriminate]. cbn [admissible] in Hadm.
    exact (exec_splice_f c w st a v sb eb rk n wrong_at claimed k r Hwf HW Hfuse Hr (proj1 Hadm)).
  - (* OClone *) cbn [admissible] in Hadm. exact (exec_clone_f c w st v dst k r Hwf HW Hfuse Hr Hadm).
Qed.

Definition armed (k : N) (w : world) : world :=
  {| wv := wv w; wuw := {| ulog := []; unext := unext (wuw w); ufuse := Some k |} |}.

Lemma spec_f_small c st nx k o r : spec_step_f c st nx (Some k) o = Some r -> nx <= s_nx r /\ s_out r < 100.
Proof.
  cbn [spec_step_f]. intros H.
  assert (Htd : forall v tk idx, sp_take_drop_f c st nx v tk idx k = Some r -> nx <= s_nx r /\ s_out r < 100).
  { intros v tk idx Ht. unfold sp_take_drop_f in Ht.
    destruct (sp_take c st nx v tk idx KDrop) as [r0|] eqn:E0; [|discriminate]. apply sp_take_nx in E0.
    destruct (c_dg c && (k =? 0) && (s_out r0 =? 0)); [|injection Ht as <-; exact E0].
    destruct (get_a v st); [|discriminate]. injection Ht as <-. cbn; split; lia. }
  assert (Hlz : forall v idx src sidx, sp_offer_lazy_f c st nx v idx src sidx = Some r -> nx <= s_nx r /\ s_out r < 100).
  { intros v idx src sidx Hl. unfold sp_offer_lazy_f in Hl.
    repeat match type of Hl with
    | Some _ = Some _ => injection Hl as <-
    | None = Some _ => discriminate Hl
    | context [match ?x with _ => _ end] => destruct x eqn:?
    | context [if ?x then _ else _] => destruct x eqn:?
    end; cbn; split; lia. }
  assert (Hulz : forall v idx, sp_offer_userlazy_f c st nx v idx = Some r -> nx <= s_nx r /\ s_out r < 100).
  { intros v idx Hl. unfold sp_offer_userlazy_f in Hl. cbv zeta in Hl.
    repeat match type of Hl with
    | Some _ = Some _ => injection Hl as <-
    | None = Some _ => discriminate Hl
    | context [match ?x with _ => _ end] => destruct x eqn:?
    | context [if ?x then _ else _] => destruct x eqn:?
    end; cbn; split; lia. }
  destruct o; try discriminate; try (destruct k0; try discriminate; eapply Htd; exact H);
    try (destruct a; [|discriminate]; destruct s; try discriminate; destruct (k =? 0); try discriminate;
         [eapply Hlz; exact H|eapply Hulz; exact H]).
  - destruct (sp_clear_f c st nx v k) as [r0|] eqn:E0; [|discriminate]. injection H as <-. cbn [s_nx s_out].
    unfold sp_clear_f in E0. destruct (get_a v st) as [av|]; [|discriminate]. cbv zeta in E0.
    destruct (c_dg c && (k <? N.of_nat (length (a_xs av)))); injection E0 as <-; cbn; split; lia.
  - unfold sp_clear_f in H.
    destruct (get_a v st) as [av|]; [|discriminate]. cbv zeta in H.
    destruct (c_dg c && (k <? N.of_nat (length (a_xs av)))); injection H as <-; cbn; split; lia.
  - destruct pat; [|discriminate]. destruct f; [|discriminate]. unfold sp_drain_f in H.
    destruct (get_a v st) as [av|] eqn:Hg; [|discriminate]. cbv zeta in H.
    destruct (range_of_bounds usize_max (N.of_nat (length (a_xs av))) (to_sb sb) (to_sb eb)) as [[s0 e0]|].
    + destruct (c_dg c && (k <? N.of_nat (N.to_nat e0 - N.to_nat s0))).
      * injection H as <-. cbn; split; lia.
      * exact (sp_drain_nx _ _ _ _ _ _ _ _ _ H).
    + injection H as <-. cbn; split; lia.
  - destruct pat; [|discriminate]. destruct f; [|discriminate]. unfold sp_splice_f in H.
    destruct wrong_at; [destruct rk; discriminate|].
    assert (H' : (if negb (claimed =? n) then None else
                  match get_a v st with None => None | Some av => _ end) = Some r) by (destruct rk; try discriminate; exact H).
    clear H. destruct (negb (claimed =? n)); [discriminate|].
    destruct (get_a v st) as [av|]; [|discriminate]. cbv zeta in H'.
    destruct (range_of_bounds usize_max (N.of_nat (length (a_xs av))) (to_sb sb) (to_sb eb)) as [[s0 e0]|]; [|discriminate].
    repeat match type of H' with
    | Some _ = Some _ => injection H' as <-
    | None = Some _ => discriminate H'
    | context [if ?x then _ else _] => destruct x eqn:?
    end; cbn; split; lia.
  - unfold sp_clone_f in H. destruct (Nat.eqb dst v); [discriminate|]. destruct (get_a v st); [|discriminate].
    cbv zeta in H. destruct (k <? N.of_nat (length (a_xs a))); [|discriminate]. injection H as <-. cbn; split; lia.
Qed.

(** one script step, with or without a fuse *)
Theorem step_refines_f c w st fuse o r :
  cfg_wf c -> WRep c w st ->
  spec_step_f c st (unext (wuw w)) fuse o = Some r -> admissible c w o ->
  obs_match c (run_step c fuse o w) r.
Proof.
  intros Hwf HW Hr Hadm. destruct fuse as [k|].
  2:{ exact (step_refines c w st o r Hwf HW Hr Hadm). }
  assert (HW0 : WRep c (armed k w) st) by (apply (wrep_wv c w); [reflexivity|exact HW]).
  assert (Hadm0 : admissible c (armed k w) o) by exact Hadm.
  pose proof (exec_fused c (armed k w) st k o r Hwf HW0 eq_refl Hr Hadm0) as Hx.
  destruct (spec_f_small _ _ _ _ _ _ Hr) as [Hge Hsm].
  unfold run_step. fold (armed k w).
  destruct (exec c o (armed k w)) as [[out ret] w'|p w'|f]; cbn [res_matches_f] in Hx; [| |contradiction].
  - destruct Hx as (Ho & Hp & Hrt & [HR Hn He]).
    constructor; cbn [sr_out sr_pkind sr_ret sr_world].
    + congruence.
    + congruence.
    + congruence.
    + unfold world_events. cbn [wuw disarm ulog]. rewrite filter_rev. fold (uevents (wuw w')).
      rewrite He. cbn [armed wuw uevents ulog filter]. rewrite app_nil_r, rev_involutive. reflexivity.
    + apply (wrep_wv c w'); [reflexivity|exact HR].
    + cbn [wuw disarm unext]. rewrite Hn. cbn [armed wuw unext] in *. lia.
    + rewrite <- Ho. exact Hsm.
  - destruct Hx as (Ho & Hp & Hrt & [HR Hn He]).
    constructor; cbn [sr_out sr_pkind sr_ret sr_world].
    + congruence.
    + congruence.
    + congruence.
    + unfold world_events. cbn [wuw disarm ulog]. rewrite filter_rev. fold (uevents (wuw w')).
      rewrite He. cbn [armed wuw uevents ulog filter]. rewrite app_nil_r, rev_involutive. reflexivity.
    + apply (wrep_wv c w'); [reflexivity|exact HR].
    + cbn [wuw disarm unext]. rewrite Hn. cbn [armed wuw unext] in *. lia.
    + lia.
Qed.

Fixpoint run_hist_f (c : cfg) (ops : list (option N * op)) (w : world) : list step_result :=
  match ops with
  | [] => []
  | (f, o) :: r => let sr := run_step c f o w in sr :: run_hist_f c r (sr_world sr)
  end.
Fixpoint Admissible_f (c : cfg) (w : world) (ops : list (option N * op)) : Prop :=
  match ops with
  | [] => True
  | (f, o) :: r => admissible c w o /\ Admissible_f c (sr_world (run_step c f o w)) r
  end.

(** whole histories, every step of which may carry a fuse: the machine does what the specification says *)
Theorem history_refines_f c ops : forall w st rs,
  cfg_wf c -> WRep c w st ->
  spec_run_f c st (unext (wuw w)) ops = Some rs -> Admissible_f c w ops ->
  Forall2 (obs_match c) (run_hist_f c ops w) rs.
Proof.
  induction ops as [|[f o] ops IH]; intros w st rs Hwf HW Hs Ha; cbn [spec_run_f run_hist_f] in *.
  - injection Hs as <-. constructor.
  - destruct (spec_step_f c st (unext (wuw w)) f o) as [x|] eqn:Ex; [|discriminate].
    destruct Ha as [Ha1 Ha2].
    pose proof (step_refines_f c w st f o x Hwf HW Ex Ha1) as Hm.
    destruct (spec_run_f c (s_st x) (s_nx x) ops) as [l|] eqn:El; [|discriminate]. injection Hs as <-.
    constructor; [exact Hm|].
    apply (IH _ (s_st x)); auto.
    + apply (om_rep _ _ _ Hm).
    + rewrite (om_nx _ _ _ Hm). exact El.
Qed.

(** non-vacuity: a history with armed fuses, and what the theorem says about it *)
Definition exf_ops : list (option N * op) :=
  [ (None, ONew 0 BHeap); (None, OPush Erased 0 SWrap); (None, OPush Erased 0 SWrap); (None, OPush Erased 0 SWrap);
    (None, OPush Erased 0 SWrap);
    (Some 0, ORemove Erased 0 1 KDrop);      (* the destructor of the removed element panics: the tail is leaked *)
    (Some 3, OPop Typed 0 KDrop);            (* the fuse is longer than the step: nothing happens *)
    (None, OPush Erased 0 SWrap); (None, OPush Erased 0 SWrap); (None, OPush Erased 0 SWrap);
    (Some 1, OClear Erased 0);               (* the second destructor panics: the third element is leaked *)
    (Some 0, OPop Erased 0 KDrop);           (* empty: None *)
    (None, OPush Erased 0 SWrap); (Some 5, OClear Typed 0); (None, ODropVec 0);
    (None, ONew 1 BHeap); (None, OPush Erased 1 SWrap); (None, OPush Erased 1 SWrap);
    (Some 0, ODropVec 1);                    (* the vector is dropped, its first destructor panics: the second element is leaked *)
    (None, ONew 2 BHeap); (None, OPush Erased 2 SWrap); (None, OPush Erased 2 SWrap); (None, OPush Erased 2 SWrap); (None, OPush Erased 2 SWrap);
    (Some 1, ODrain Erased 2 (BIncluded 0) (BExcluded 3) [] FinDrop);   (* erased drain: stops at the panicking destructor *)
    (None, OPush Erased 2 SWrap); (None, OPush Erased 2 SWrap); (None, OPush Erased 2 SWrap);
    (Some 0, ODrain Typed 2 BUnbounded (BExcluded 2) [] FinDrop);       (* typed drain: the slice drop goes on, then unwinds *)
    (Some 7, ODrain Typed 2 BUnbounded BUnbounded [] FinDrop);
    (None, OPush Erased 2 SWrap); (None, OPush Erased 2 SWrap); (None, OPush Erased 2 SWrap); (None, OPush Erased 2 SWrap);
    (Some 1, OSplice Erased 2 (BIncluded 1) (BExcluded 3) [] FinDrop RWrap 2 None 2);   (* A: the second destructor of the range panics *)
    (None, OPush Erased 2 SWrap); (None, OPush Erased 2 SWrap); (None, OPush Erased 2 SWrap);
    (Some 2, OSplice Typed 2 (BIncluded 1) (BExcluded 2) [] FinDrop RWrap 3 None 3);    (* B: the second call of next() panics *)
    (Some 9, OSplice Erased 2 BUnbounded BUnbounded [] FinDrop RBox 1 None 1);          (* C: nothing panics *)
    (None, ONew 3 BHeap); (None, OPush Erased 3 SWrap); (None, OPush Erased 3 SWrap);
    (Some 0, OPush Erased 3 (SLazy 1 2 0));        (* the Clone of the lazy clone panics: nothing is created, nothing changes *)
    (Some 0, OInsert Erased 3 1 (SLazy 2 2 0));    (* ... inside insert: the tail behind the insertion point stays hidden *)
    (Some 0, OInsert Erased 3 0 (SLazyUser 1));    (* ... of a value the caller owns: that value is destroyed by the caller *)
    (None, OPush Erased 3 SWrap); (None, OPush Erased 3 SWrap);
    (Some 1, OClone 3 4) ].                        (* the second Clone of clone() panics: the first clone is leaked, no vector appears *)
Example exf_outcomes :
  map (fun r => (s_out r, s_pk r, s_evs r, map (fun o => match o with Some a => a_xs a | None => [] end) (s_st r)))
      (match spec_run_f ex_cfg [] 1 exf_ops with Some rs => rs | None => [] end)
  = [(0,0,[],[[]]); (0,0,[],[[1]]); (0,0,[],[[1;2]]); (0,0,[],[[1;2;3]]); (0,0,[],[[1;2;3;4]]);
     (2,8,[EDrop 2],[[1]]); (0,0,[EDrop 1],[[]]);
     (0,0,[],[[5]]); (0,0,[],[[5;6]]); (0,0,[],[[5;6;7]]);
     (2,8,[EDrop 5; EDrop 6],[[]]); (1,0,[],[[]]);
     (0,0,[],[[8]]); (0,0,[EDrop 8],[[]]); (0,0,[],[[]]);
     (0,0,[],[[]; []]); (0,0,[],[[]; [9]]); (0,0,[],[[]; [9;10]]); (2,8,[EDrop 9],[[]; []]);
     (0,0,[],[[]; []; []]); (0,0,[],[[]; []; [11]]); (0,0,[],[[]; []; [11;12]]); (0,0,[],[[]; []; [11;12;13]]); (0,0,[],[[]; []; [11;12;13;14]]);
     (2,8,[EDrop 11; EDrop 12],[[]; []; []]);
     (0,0,[],[[]; []; [15]]); (0,0,[],[[]; []; [15;16]]); (0,0,[],[[]; []; [15;16;17]]);
     (2,8,[EDrop 15; EDrop 16],[[]; []; []]); (0,0,[],[[]; []; []]);
     (0,0,[],[[]; []; [18]]); (0,0,[],[[]; []; [18;19]]); (0,0,[],[[]; []; [18;19;20]]); (0,0,[],[[]; []; [18;19;20;21]]);
     (2,8,[EDrop 19; EDrop 20; EDrop 22; EDrop 23],[[]; []; [18]]);
     (0,0,[],[[]; []; [18;24]]); (0,0,[],[[]; []; [18;24;25]]); (0,0,[],[[]; []; [18;24;25;26]]);
     (2,8,[EDrop 24; ENext; ENext; EDrop 28; EDrop 29],[[]; []; [18]]);
     (0,0,[EDrop 18; ENext],[[]; []; [30]]);
     (0,0,[],[[]; []; [30]; []]); (0,0,[],[[]; []; [30]; [31]]); (0,0,[],[[]; []; [30]; [31;32]]);
     (2,8,[],[[]; []; [30]; [31;32]]); (2,8,[],[[]; []; [30]; [31]]); (2,8,[EDrop 33],[[]; []; [30]; []]);
     (0,0,[],[[]; []; [30]; [34]]); (0,0,[],[[]; []; [30]; [34;35]]); (2,8,[EClone 34 36],[[]; []; [30]; [34;35]])].
Proof. vm_compute. reflexivity. Qed.
Fixpoint Admissible_fb (c : cfg) (w : world) (ops : list (option N * op)) : bool :=
  match ops with
  | [] => true
  | (f, o) :: r => admissibleb c w o && Admissible_fb c (sr_world (run_step c f o w)) r
  end.
Lemma Admissible_fb_sound c ops : forall w, Admissible_fb c w ops = true -> Admissible_f c w ops.
Proof.
  induction ops as [|[f o] r IH]; intros w H; cbn [Admissible_fb Admissible_f] in *; [exact I|].
  apply andb_prop in H. destruct H as [H1 H2]. split; [apply admissibleb_sound; exact H1|apply IH; exact H2].
Qed.
Example exf_admissible : Admissible_f ex_cfg init_world exf_ops.
Proof. apply Admissible_fb_sound. vm_compute. reflexivity. Qed.
