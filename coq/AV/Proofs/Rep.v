(** * Representation invariant: the byte-level vector state represents a list of tokens. *)
From AV.Model Require Import Base Bytes Vec.
From AV.Proofs Require Import MemLemmas.

(** Well-formed configuration: a real alignment (power-of-two not needed), below 2^32. *)
Definition cfg_wf (c : cfg) : Prop := 0 < c_al c /\ c_al c <= alloc_limit.

(** The buffer has room for [vcap] elements. *)
Definition store_ok (c : cfg) (v : vec) : Prop :=
  (N.to_nat (vcap v * c_sz c) <= length (vmem v))%nat.

(** [Rep c v xs]: the first [len] slots of [v] hold exactly the values [xs]. *)
Record Rep (c : cfg) (v : vec) (xs : list N) : Prop := {
  rep_len : vlen v = N.of_nat (length xs);
  rep_cap : vlen v <= vcap v;
  rep_usize : vcap v <= usize_max;
  rep_store : store_ok c v;
  rep_mem : firstn (length xs * szn c) (vmem v) = flat (szn c) xs;
  rep_tok : Forall (tok_ok (szn c)) xs
}.

(** User-code events (what the element type's Drop / Clone and the replacement iterator
    report), as opposed to allocator / backend events. *)
Definition is_user_event (e : event) : bool :=
  match e with EDrop _ | EClone _ _ | ENext => true | _ => false end.
Definition uevents (u : uw) : list event := filter is_user_event (ulog u).
(** same user world up to allocator / backend events *)
Definition same_user (u u' : uw) : Prop :=
  unext u' = unext u /\ ufuse u' = ufuse u /\ uevents u' = uevents u.

Definition fixed_backend (b : bkind) : Prop :=
  match b with BStack _ | BStackN _ _ | BEmpty => True | _ => False end.

(** Capacity a growing backend ends with when asked to hold [n] elements. *)
Definition grow_target (v : vec) (n : N) : N :=
  match vbk v with
  | BHeap => N.max (saturating_mul (vcap v) 2) n
  | _ => n
  end.
(** The backend can grow to hold [n] (> capacity) elements: resizable, and the request is
    within what the allocator accepts. *)
Definition grow_ok (c : cfg) (v : vec) (n : N) : Prop :=
  match vbk v with
  | BHeap | BReloc _ => n <= usize_max /\ c_sz c * grow_target v n <= alloc_limit
  | _ => False
  end.

(** Backend parameters are machine integers (const generics of type usize). *)
Definition bk_wf (b : bkind) : Prop :=
  match b with
  | BStack s => s <= usize_max
  | BStackN n s => n <= usize_max /\ s <= usize_max
  | BReloc c0 => c0 <= usize_max
  | _ => True
  end.

(** Slots [off, off + length ys) of the storage hold exactly the values [ys]
    (used while a handle or range iterator is alive and [len] is lowered). *)
Definition Held (c : cfg) (v : vec) (off : nat) (ys : list N) : Prop :=
  firstn (length ys * szn c) (skipn (off * szn c) (vmem v)) = flat (szn c) ys.
