(** * The list specification, run beside the machine on every step of every generated case.

    [spec_track c fuse o w] is what [WorldSpec.spec_step] predicts for step [o] from the machine world [w]
    (abstracted by [abs_world]: backend kind + typed snapshot of every vector), when the step lies in the
    fragment the history theorems cover ([spec_step_f] defined - steps with an armed panic fuse included where the fused fragment covers them -, the environment
    assumption [admissibleb] holds) - and [None] otherwise.  [spec_track_sound]: whenever it answers, the
    machine's [run_step] shows exactly that outcome, panic kind, returned values, user-code events and
    lists.  The extracted function runs inside mlrun/driver.ml; the check compares its predictions with the
    IMPLEMENTATION's trace directly (the specification is short enough to read: a second, independent
    oracle next to the byte-level machine) and reports how much of the generated distribution the
    theorems' hypotheses cover. *)
From Coq Require Import String.
From AV.Model Require Import Base Bytes Vec Ops Interp Trace.
From AV.Spec Require Import VecSpec WorldSpec.
From AV.Proofs Require Import MemLemmas Rep VecProofs WorldProofs WorldFused.

Definition abs_slot (c : cfg) (o : option vec) : option (option avec) :=
  match o with
  | None => Some None
  | Some v => match snapshot c v with
              | Some xs => Some (Some {| a_bk := vbk v; a_xs := xs |})
              | None => None
              end
  end.
Fixpoint abs_slots (c : cfg) (l : list (option vec)) : option astate :=
  match l with
  | [] => Some []
  | o :: r => match abs_slot c o, abs_slots c r with
              | Some a, Some st => Some (a :: st)
              | _, _ => None
              end
  end.
Definition abs_world (c : cfg) (w : world) : option astate := abs_slots c (wv w).

Record track := { t_out : N; t_pk : N; t_ret : list N; t_evs : list event; t_st : astate }.
Definition track_of (r : sres) : track :=
  {| t_out := s_out r; t_pk := s_pk r; t_ret := s_ret r; t_evs := s_evs r; t_st := s_st r |}.

Definition spec_track (c : cfg) (fuse : option N) (o : op) (w : world) : option track :=
  match abs_world c w with
  | None => None
  | Some st =>
      if admissibleb c w o
      then match spec_step_f c st (unext (wuw w)) fuse o with
           | Some r => Some (track_of r)
           | None => None
           end
      else None
  end.

Lemma abs_slots_rep c : forall l st,
  (forall n, slot_rel c (slot n l) (slot n st)) ->
  exists st0, abs_slots c l = Some st0 /\ forall n, slot n st0 = slot n st.
Proof.
  induction l as [|o l IH]; intros st H.
  - exists []. split; [reflexivity|]. intros n. specialize (H n). unfold slot in *.
    destruct n; cbn [nth] in *; destruct (nth _ st None) eqn:E; try contradiction; reflexivity.
  - destruct (IH (tl st)) as (st1 & E1 & H1).
    { intros n. specialize (H (S n)). unfold slot in *. cbn [nth] in H. destruct st; cbn [tl nth] in *; [destruct n; exact H|exact H]. }
    pose proof (H 0%nat) as H0. unfold slot in H0. cbn [nth] in H0.
    cbn [abs_slots]. rewrite E1.
    destruct o as [v|].
    + destruct (nth 0 st None) as [a|] eqn:Ea; cbn [slot_rel] in H0; [|contradiction].
      cbn [abs_slot]. rewrite (snapshot_rep c v (a_xs a) (vi_rep _ _ _ H0)).
      eexists. split; [reflexivity|]. intros n. unfold slot in *. destruct n as [|n]; cbn [nth].
      * rewrite Ea. rewrite (vi_bk _ _ _ H0). destruct a; reflexivity.
      * rewrite H1. destruct st; cbn [tl nth]; [destruct n; reflexivity|reflexivity].
    + destruct (nth 0 st None) as [a|] eqn:Ea; cbn [slot_rel] in H0; [contradiction|].
      cbn [abs_slot]. eexists. split; [reflexivity|]. intros n. unfold slot in *. destruct n as [|n]; cbn [nth].
      * rewrite Ea. reflexivity.
      * rewrite H1. destruct st; cbn [tl nth]; [destruct n; reflexivity|reflexivity].
Qed.

Lemma abs_world_wrep c w st : WRep c w st -> exists st0, abs_world c w = Some st0 /\ WRep c w st0.
Proof.
  intros HW. destruct (abs_slots_rep c (wv w) st HW) as (st0 & E & H).
  exists st0. split; [exact E|]. intros n. rewrite H. apply HW.
Qed.

(** whenever the tracked specification answers, the machine does exactly that *)
Theorem spec_track_sound c w st fuse o t :
  cfg_wf c -> WRep c w st -> spec_track c fuse o w = Some t ->
  exists r, obs_match c (run_step c fuse o w) r /\ t = track_of r.
Proof.
  intros Hwf HW Ht. unfold spec_track in Ht.
  destruct (abs_world_wrep c w st HW) as (st0 & E & HW0). rewrite E in Ht.
  destruct (admissibleb c w o) eqn:Ea; [|discriminate].
  destruct (spec_step_f c st0 (unext (wuw w)) fuse o) as [r|] eqn:Er; [|discriminate].
  injection Ht as <-. exists r. split; [|reflexivity].
  apply (step_refines_f c w st0 fuse o r Hwf HW0 Er). apply admissibleb_sound. exact Ea.
Qed.

(** ... in the observables of the trace: outcome, panic kind, returned values, user-code events, and per
    vector the typed snapshot and length *)
Corollary spec_track_observables c w st fuse o t :
  cfg_wf c -> WRep c w st -> spec_track c fuse o w = Some t ->
  let sr := run_step c fuse o w in
  sr_out sr = t_out t /\ sr_pkind sr = t_pk t /\ sr_ret sr = t_ret t /\
  filter is_user_event (world_events (sr_world sr)) = t_evs t /\
  forall n a, get_a n (t_st t) = Some a ->
    exists v, get_vec n (sr_world sr) = Some v /\ snapshot c v = Some (a_xs a) /\
              vlen v = N.of_nat (length (a_xs a)) /\ vbk v = a_bk a.
Proof.
  intros Hwf HW Ht. destruct (spec_track_sound c w st fuse o t Hwf HW Ht) as (r & Hm & ->).
  cbv zeta. cbn [track_of t_out t_pk t_ret t_evs t_st].
  split; [apply (om_out _ _ _ Hm)|]. split; [apply (om_pk _ _ _ Hm)|]. split; [apply (om_ret _ _ _ Hm)|].
  split; [apply (om_evs _ _ _ Hm)|]. intros n a Hg. apply (wrep_snapshot c _ (s_st r) n a (om_rep _ _ _ Hm) Hg).
Qed.

(** ** Rendering (the same text mlrun/driver.ml prints; cross-checked by in-Coq evaluation) *)
Open Scope string_scope.
Definition pr_alen (o : option avec) : string :=
  match o with Some a => sn (N.of_nat (length (a_xs a))) | None => "-" end.
Definition pr_asnap (o : option avec) : string :=
  match o with Some a => "[" ++ pr_list sn "," (a_xs a) ++ "]" | None => "-" end.
Definition track_line (o : option track) : string :=
  match o with
  | None => "-"
  | Some t =>
      "out=" ++ sn (t_out t) ++ " pk=" ++ sn (t_pk t) ++ " ret=" ++ pr_list sn "," (t_ret t)
      ++ " len=" ++ pr_list pr_alen "," (t_st t)
      ++ " snap=" ++ pr_list pr_asnap "|" (t_st t)
      ++ " ev=" ++ pr_list pr_event "," (t_evs t)
  end.
Fixpoint track_steps (c : cfg) (steps : list (option N * op)) (w : world) : list string :=
  match steps with
  | [] => []
  | (fuse, o) :: rest =>
      track_line (spec_track c fuse o w) :: track_steps c rest (sr_world (run_step c fuse o w))
  end.
Definition track_case (c : cfg) (steps : list (option N * op)) : list string :=
  track_steps c steps init_world.

(** non-vacuity: on the example history of WorldProofs every step is tracked *)
Example track_example :
  forallb (fun s => negb (String.eqb s "-")) (track_case ex_cfg (map (fun o => (None, o)) ex_ops)) = true.
Proof. vm_compute. reflexivity. Qed.
