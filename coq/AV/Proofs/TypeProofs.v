(** * The per-item type check of splice (C04): a replacement value of another runtime type makes
      [Splice::drop] panic before that value is written; the vector is left VALID (it holds the
      elements in front of the range), every replacement value is destroyed at most once. *)
From AV.Model Require Import Base Bytes Vec Ops.
From AV.Spec Require Import VecSpec.
From AV.Proofs Require Import MemLemmas Rep VecProofs RangeProofs FaultProofs.
Arguments N.add : simpl never.
Arguments N.sub : simpl never.
Arguments N.mul : simpl never.

(** an owning replacement item whose value reports runtime type [ty] *)
Definition typed_item (c : cfg) (t : N) (k : bool) (ty : N) : ritem :=
  {| r_ty := ty; r_src := VBytes (enc (szn c) t) k; r_owned := Some t |}.

Lemma quiet_st_none {A} (m : M st A) v u a v' u' :
  ufuse u = None -> m (v, u) = Ok a (v', u') -> ufuse u' = None -> quiet_st m (v, u) = Ok a (v', u').
Proof.
  intros Hf E Hf'. unfold quiet_st. cbn [fst snd]. rewrite Hf.
  assert (Hd : disarm u = u) by (destruct u as [l n f]; cbn in *; rewrite Hf; reflexivity).
  rewrite Hd, E. cbn [fst snd]. f_equal. f_equal. destruct u' as [l n f]. cbn in *. rewrite Hf'. reflexivity.
Qed.

Lemma unwinding_st_panic {A} (m : M st A) cleanup s p s1 s2 :
  m s = Panic p s1 -> quiet_st cleanup s1 = Ok tt s2 -> unwinding_st m cleanup s = Panic p s2.
Proof. intros E1 E2. unfold unwinding_st, on_unwind. rewrite E1, E2. reflexivity. Qed.

Lemma drop_item_owned c t k ty v u :
  ufuse u = None ->
  exists u', drop_item c (typed_item c t k ty) (v, u) = Ok tt (v, u') /\
    ulog u' = (if c_dg c then [EDrop t] else []) ++ ulog u /\ unext u' = unext u /\ ufuse u' = None.
Proof.
  intros Hf. unfold drop_item. cbn [r_owned typed_item]. destruct (c_dg c).
  - unfold bind, emitv, user_call, tick. cbn [fst snd emit ufuse]. rewrite Hf.
    eexists. split; [reflexivity|]. cbn [emit ulog unext ufuse app]. auto.
  - exists u. split; [reflexivity|]. auto.
Qed.

Lemma splice_fill_wrong c k ty : (ty =? c_ty c) = false -> forall good budget tb rest p w v u,
  store_ok c v -> N.of_nat (p + length good) <= vcap v -> ufuse u = None -> (length good < budget)%nat ->
  exists m' u',
    splice_fill c (p * szn c) budget w
      (map (fun t => honest_item c t k) good ++ typed_item c tb k ty :: map (fun t => honest_item c t k) rest) (v, u)
    = Panic PType (with_mem m' v, u') /\
    length m' = length (vmem v) /\ firstn (p * szn c) m' = firstn (p * szn c) (vmem v) /\
    ufuse u' = None /\ unext u' = unext u /\
    uevents u' = (if c_dg c then rev (map EDrop (tb :: rest)) else []) ++ repeat ENext (S (length good)) ++ uevents u.
Proof.
  intros Hty. induction good as [|g good IH]; intros budget tb rest p w v u Hst Hle Hf Hb.
  - destruct budget as [|b]; [cbn in Hb; lia|]. cbn [map app splice_fill length].
    rewrite (bind_ok _ _ (v, u) tt (v, emit ENext u)) by reflexivity.
    rewrite (bind_ok _ _ _ tt (v, emit ENext u)) by (apply unwinding_ok, user_call_ok; exact Hf).
    destruct (drop_item_owned c tb k ty v (emit ENext u) Hf) as (u1 & E1 & L1 & N1 & F1).
    destruct (drop_items_ok c k v rest u1 F1) as (u2 & E2 & L2 & N2 & F2).
    exists (vmem v), u2. split.
    + apply bind_panic. rewrite with_mem_id.
      apply (unwinding_st_panic _ _ _ PType (v, u1) (v, u2)).
      * apply bind_panic.
        apply (unwinding_st_panic _ _ _ PType (v, emit ENext u) (v, u1)).
        -- unfold assert_. cbn [r_ty typed_item]. rewrite Hty. reflexivity.
        -- apply (quiet_st_none (drop_item c (typed_item c tb k ty)) v (emit ENext u) tt v u1 Hf E1 F1).
      * apply (quiet_st_none _ v u1 tt v u2 F1 E2 F2).
    + split; [reflexivity|]. split; [reflexivity|]. split; [exact F2|]. split; [cbn [emit unext] in *; congruence|].
      unfold uevents. rewrite L2, uevents_drops, L1. cbn [emit ulog repeat length app map rev].
      destruct (c_dg c); cbn [app filter is_user_event]; [rewrite <- app_assoc|]; reflexivity.
  - destruct budget as [|b]; [cbn in Hb; lia|]. cbn [length] in Hle, Hb.
    cbn [map app splice_fill].
    rewrite (bind_ok _ _ (v, u) tt (v, emit ENext u)) by reflexivity.
    rewrite (bind_ok _ _ _ tt (v, emit ENext u)) by (apply unwinding_ok, user_call_ok; exact Hf).
    rewrite (bind_ok _ _ _ tt (with_mem (mwrite (p * szn c) (enc (szn c) g) (vmem v)) v, emit ENext u)).
    2:{ apply unwinding_ok. cbn [r_ty r_src honest_item]. rewrite N.eqb_refl.
        rewrite (bind_ok _ _ _ tt (v, emit ENext u)) by reflexivity.
        apply write_value_ok; [exact Hst | lia]. }
    assert (Hbb : (p * szn c + szn c <= length (vmem v))%nat).
    { unfold store_ok in Hst. rewrite cap_bytes in Hst. nia. }
    replace (p * szn c + szn c)%nat with ((p + 1) * szn c)%nat by lia.
    destruct (IH b tb rest (p + 1)%nat (w + 1) (with_mem (mwrite (p * szn c) (enc (szn c) g) (vmem v)) v) (emit ENext u))
      as (m' & u' & E & Hlm & Hpre & F & Nx & Ev).
    + unfold store_ok. cbn [vcap vmem with_mem]. rewrite mwrite_length; [exact Hst|]. rewrite enc_length. exact Hbb.
    + cbn [vcap with_mem]. lia.
    + exact Hf.
    + lia.
    + exists m', u'. cbn [with_mem vmem] in *. split.
      * rewrite E. f_equal.
      * split; [rewrite Hlm; apply mwrite_length; rewrite enc_length; exact Hbb|].
        split.
        -- assert (H1 : firstn (p * szn c) m' = firstn (p * szn c) (firstn ((p + 1) * szn c) m')).
           { rewrite firstn_firstn. f_equal. lia. }
           rewrite H1, Hpre, firstn_firstn. replace (Nat.min (p * szn c) ((p + 1) * szn c)) with (p * szn c)%nat by lia.
           apply RangeProofs.mwrite_firstn; lia.
        -- split; [exact F|]. split; [cbn [emit unext] in Nx; exact Nx|].
           rewrite Ev. cbn [length]. f_equal.
           assert (Hu : uevents (emit ENext u) = [ENext] ++ uevents u) by reflexivity.
           rewrite Hu, app_assoc, <- repeat_cons. reflexivity.
Qed.

Theorem splice_drop_wrong_type c v u xs s e i j known good tb rest k ty :
  cfg_wf c -> RangeAlive c v xs s e i j -> ufuse u = None -> (ty =? c_ty c) = false ->
  let items := map (fun t => honest_item c t k) good ++ typed_item c tb k ty :: map (fun t => honest_item c t k) rest in
  let n := length items in
  let new_len := (s + n + (length xs - e))%nat in
  (N.of_nat new_len <= vcap v \/ grow_ok c v (N.of_nat new_len)) ->
  let d := {| dcur := {| ci := N.of_nat i; ce := N.of_nat j |};
              dstart := N.of_nat s; dend := N.of_nat e; dorig := N.of_nat (length xs) |} in
  exists v' u',
    splice_drop c known d (N.of_nat n) items (v, u) = Panic PType (v', u') /\
    Rep c v' (firstn s xs) /\ vbk v' = vbk v /\ ufuse u' = None /\ unext u' = unext u /\
    uevents u' = (if c_dg c then rev (map EDrop (tb :: rest)) else []) ++ repeat ENext (S (length good))
                 ++ (if c_dg c then rev (map EDrop (firstn (j - i) (skipn i xs))) else []) ++ uevents u /\
    (* the storage is only replaced when the announced result does not fit *)
    (N.of_nat new_len <= vcap v -> vcap v' = vcap v).
Proof.
  intros Hwf HA Hf Hty items n new_len Hroom d.
  assert (Hn : n = (length good + S (length rest))%nat).
  { unfold n, items. rewrite app_length, map_length. cbn [length]. rewrite map_length. reflexivity. }
  pose proof (ra_tok _ _ _ _ _ _ _ HA) as Htok. pose proof (ra_le _ _ _ _ _ _ _ HA) as Hle.
  destruct (splice_prep_ok c v u xs s e i j known n Hwf HA Hf Hroom)
    as (v2 & u2 & Ep & Hl2 & Hc2 & Hus2 & Hst2 & Hpre2 & Htl2 & Hbk2 & Hn2 & Hf2 & He2 & Hcap2).
  destruct (splice_fill_wrong c k ty Hty good n tb rest s 0 v2 u2 Hst2) as (m' & u' & Ef & Hlm & Hpm & Hf' & Hn' & He'); auto.
  { unfold new_len in Hc2. lia. }
  { lia. }
  exists (with_mem m' v2), u'. split.
  - unfold splice_drop. cbv zeta. cbn [dstart dend dorig d].
    rewrite (bind_ok _ _ _ _ _ (unwinding_ok _ _ _ _ _ Ep)).
    apply bind_panic. rewrite bo_of_nat, Nat2N.id. exact Ef.
  - split; [|split; [cbn [with_mem vbk]; exact Hbk2|split; [exact Hf'|split; [congruence|]]]].
    + apply rep_of_held; cbn [with_mem vlen vcap vmem].
      * rewrite Hl2. f_equal. rewrite firstn_length. lia.
      * unfold new_len in Hc2. lia.
      * exact Hus2.
      * unfold store_ok. cbn [with_mem vcap vmem]. rewrite Hlm. exact Hst2.
      * unfold Held in *. cbn [with_mem vmem].
        apply (heldm_firstn_eq (szn c) (vmem v2) m' 0 (firstn s xs) (s * szn c) Hpre2 Hpm).
        rewrite firstn_length. nia.
      * apply Forall_firstn'. exact Htok.
    + split; [rewrite He', He2; reflexivity|]. cbn [with_mem vcap]. exact Hcap2.
Qed.
