(** * The allocator ledger along EVERY history of the machine (C18, and C11's "no allocator traffic").

    [CapProofs.heap_resize_ledger] is about one resize.  Here: every operation of [Vec] / [Ops] run on a
    vector - whatever its outcome, ok or panic, with or without an armed panic fuse - appends events that
    replay against that vector's ledger entry ([pres (Rst c)]); lifted to worlds: every script step of
    [Interp.exec], for EVERY [op] of the case language (not only the fragment the list specification
    covers), replays against the multiset of live blocks of the world ([step_ledger]); and by induction every
    history does, from the empty world ([history_ledger]): the allocator only ever sees valid requests, a
    reallocation / deallocation always presents the layout of a block that is live at that moment, and at the
    end the live blocks are exactly those owned by the vectors of the world plus those of vectors the script
    itself overwrote (leaked by the script, not by the crate).

    The argument is structural and generic: [rel_ok] lists what is needed of a relation on vector states and
    one on worlds (reflexive, transitive, insensitive to anything but the log, kept by the three backend calls,
    by state changes that touch neither capacity nor backend, and by non-allocator events); Section [Machine]
    derives from it, definition by definition, that every function of [Vec], [Ops] and [Interp] keeps the
    relation whatever its outcome, up to [exec_regular].  Instance 1 is the ledger (C18).  Instance 2 (C11):
    vectors on the stack backends, the Empty backend and the user-defined backend cause no allocator event
    at all, in any history that builds no heap-backed vector ([history_noalloc]). *)
From Coq Require Import Permutation.
From AV.Model Require Import Base Bytes Vec Ops Interp.
From AV.Proofs Require Import MemLemmas CapProofs.

(** ** Computations that keep a reflexive, transitive relation between the state before and after,
    whatever the outcome *)
Definition pres {S A} (R : S -> S -> Prop) (m : M S A) : Prop :=
  forall s, match m s with
            | Ok _ s' => R s s'
            | Panic _ s' => R s s'
            | Fault _ => True
            end.

Section Generic.
  Context {S : Type} (R : S -> S -> Prop).
  Hypothesis Rrefl : forall s, R s s.
  Hypothesis Rtrans : forall a b c, R a b -> R b c -> R a c.

  Lemma pres_ret {A} (a : A) : pres R (ret a).
  Proof. intros s. apply Rrefl. Qed.
  Lemma pres_raise {A} p : pres R (@raise S A p).
  Proof. intros s. apply Rrefl. Qed.
  Lemma pres_fault {A} f : pres R (@fault_ S A f).
  Proof. intros s. exact I. Qed.
  Lemma pres_bind {A B} (m : M S A) (f : A -> M S B) :
    pres R m -> (forall a, pres R (f a)) -> pres R (bind m f).
  Proof.
    intros Hm Hf s. unfold bind. specialize (Hm s). destruct (m s) as [a s'|p s'|f0]; auto.
    specialize (Hf a s'). destruct (f a s') as [b s''|p s''|f0]; eauto.
  Qed.
  Lemma pres_assert b p : pres R (@assert_ S b p).
  Proof. unfold assert_. destruct b; [apply pres_ret|apply pres_raise]. Qed.
  Lemma pres_of_opt {A} (o : option A) p : pres R (@of_opt S A o p).
  Proof. unfold of_opt. destruct o; [apply pres_ret|apply pres_raise]. Qed.
  Lemma pres_on_unwind {A} (m : M S A) cl : pres R m -> pres R cl -> pres R (on_unwind m cl).
  Proof.
    intros Hm Hc s. unfold on_unwind. specialize (Hm s). destruct (m s) as [a s'|p s'|f0]; auto.
    specialize (Hc s'). destruct (cl s') as [b s''|p' s''|f0]; eauto.
  Qed.
  Lemma pres_catch {A} (m : M S A) : pres R m -> pres R (catch m).
  Proof. intros Hm s. unfold catch. specialize (Hm s). destruct (m s); auto. Qed.
  Lemma pres_get : pres R (@get S).
  Proof. intros s. apply Rrefl. Qed.
End Generic.


(** ** What the structural argument needs of a relation on vector states [RS] and one on worlds [RW] *)
Definition alloc_event (e : event) : bool :=
  match e with EAlloc _ _ | ERealloc _ _ _ | EDealloc _ _ => true | _ => false end.

Record rel_ok (c : cfg) (RS : st -> st -> Prop) (RW : world -> world -> Prop) : Prop := {
  rs_refl : forall s, RS s s;
  rs_trans : forall a b d, RS a b -> RS b d -> RS a d;
  (* a state change that touches neither capacity nor backend *)
  rs_setv : forall f, (forall v, vcap (f v) = vcap v /\ vbk (f v) = vbk v) -> pres RS (setv f);
  rs_emit : forall e, alloc_event e = false -> pres RS (emitv e);
  (* the log is all the relation looks at in the user world *)
  rs_log : forall v u v' u' u1 u1', ulog u1 = ulog u -> ulog u1' = ulog u' -> RS (v, u) (v', u') -> RS (v, u1) (v', u1');
  (* the backend interface *)
  rs_resize : forall n, pres RS (mem_resize c n);
  rs_expand : forall n, pres RS (mem_expand c n);
  rs_mdrop : pres RS (mem_drop c);
  rw_refl : forall w, RW w w;
  rw_trans : forall a b d, RW a b -> RW b d -> RW a d;
  rw_log : forall w w' u1 u1', ulog u1 = ulog (wuw w) -> ulog u1' = ulog (wuw w') -> RW w w' ->
                               RW {| wv := wv w; wuw := u1 |} {| wv := wv w'; wuw := u1' |};
  rw_emit : forall w u' e, alloc_event e = false -> ulog u' = e :: ulog (wuw w) -> RW w {| wv := wv w; wuw := u' |};
  (* a computation on one vector of the world *)
  rw_on_vec : forall A vid (m : M st A), pres RS m -> pres RW (on_vec vid m)
}.

(** the seven script steps that create, replace or drop a vector object are handled per relation *)
Definition regular (o : op) : bool :=
  match o with
  | ONew _ _ | OWithCapacity _ _ _ | ODropVec _ | OClone _ _ | OCloneEmpty _ _ | OCloneEmptyIn _ _ _ | OCloneIn _ _ _ => false
  | _ => true
  end.

Section Machine.
  Variables (c : cfg) (RS : st -> st -> Prop) (RW : world -> world -> Prop).
  Hypothesis OK : rel_ok c RS RW.
  Let spres {A} (m : M st A) : Prop := pres RS m.
  Let wpres {A} (m : M world A) : Prop := pres RW m.

  Lemma sp_ret {A} (a : A) : spres (ret a).
  Proof. apply pres_ret, (rs_refl _ _ _ OK). Qed.
  Lemma sp_raise {A} p : spres (@raise st A p).
  Proof. apply pres_raise, (rs_refl _ _ _ OK). Qed.
  Lemma sp_fault {A} f : spres (@fault_ st A f).
  Proof. apply pres_fault. Qed.
  Lemma sp_bind {A B} (m : M st A) (f : A -> M st B) : spres m -> (forall a, spres (f a)) -> spres (bind m f).
  Proof. apply pres_bind, (rs_trans _ _ _ OK). Qed.
  Lemma sp_assert b p : spres (assert_ b p).
  Proof. apply pres_assert, (rs_refl _ _ _ OK). Qed.
  Lemma sp_of_opt {A} (o : option A) p : spres (of_opt o p).
  Proof. apply pres_of_opt, (rs_refl _ _ _ OK). Qed.
  Lemma sp_of_ovf o : spres (of_ovf o).
  Proof. apply sp_of_opt. Qed.
  Lemma sp_on_unwind {A} (m : M st A) cl : spres m -> spres cl -> spres (on_unwind m cl).
  Proof. apply pres_on_unwind, (rs_trans _ _ _ OK). Qed.
  Lemma sp_getv : spres getv.
  Proof. intros s. apply (rs_refl _ _ _ OK). Qed.
  Lemma sp_setv f : (forall v, vcap (f v) = vcap v /\ vbk (f v) = vbk v) -> spres (setv f).
  Proof. apply (rs_setv _ _ _ OK). Qed.
  Lemma sp_emitv e : alloc_event e = false -> spres (emitv e).
  Proof. apply (rs_emit _ _ _ OK). Qed.
  Lemma sp_user_call : spres user_call.
  Proof.
    intros [v u]. unfold user_call. cbn [fst snd]. unfold tick.
    destruct (ufuse u) as [k|]; [destruct (k =? 0)|]; cbn;
      apply (rs_log _ _ _ OK v u v u); try reflexivity; apply (rs_refl _ _ _ OK).
  Qed.
  Lemma sp_fresh : spres (fresh c).
  Proof. intros [v u]. cbn. apply (rs_log _ _ _ OK v u v u); try reflexivity; apply (rs_refl _ _ _ OK). Qed.
  Lemma sp_quiet {A} (m : M st A) : spres m -> spres (quiet_st m).
  Proof.
    intros Hm [v u]. unfold quiet_st. cbn [fst snd]. specialize (Hm (v, disarm u)).
    destruct (m (v, disarm u)) as [a [v' u']|p [v' u']|f]; auto; cbn [fst snd];
      apply (rs_log _ _ _ OK v (disarm u) v' u'); try reflexivity; exact Hm.
  Qed.
  Lemma sp_unwinding {A} (m : M st A) cl : spres m -> spres cl -> spres (unwinding_st m cl).
  Proof. intros. apply sp_on_unwind; [assumption|apply sp_quiet; assumption]. Qed.
  Lemma sp_mem_resize n : spres (mem_resize c n).
  Proof. apply (rs_resize _ _ _ OK). Qed.
  Lemma sp_mem_expand n : spres (mem_expand c n).
  Proof. apply (rs_expand _ _ _ OK). Qed.
  Lemma sp_mem_drop : spres (mem_drop c).
  Proof. apply (rs_mdrop _ _ _ OK). Qed.

  Create HintDb ledger.
  Hint Resolve sp_mem_resize sp_mem_expand sp_mem_drop : ledger.

  Ltac sp :=
    repeat first
     [ solve [auto with ledger]
     | apply sp_ret | apply sp_raise | apply sp_fault | apply sp_getv | apply sp_assert | apply sp_of_ovf | apply sp_of_opt
     | apply sp_user_call | apply sp_fresh
     | apply sp_unwinding | apply sp_on_unwind | apply sp_quiet
     | apply sp_emitv; reflexivity
     | apply sp_setv; intros ?; split; reflexivity
     | apply sp_bind; [|intros ?]
     | match goal with
       | |- spres (if ?b then _ else _) => destruct b
       | |- spres (match ?x with _ => _ end) => destruct x
       end ].

  Lemma sp_mem_expand_exact n : spres (mem_expand_exact c n).
  Proof. unfold mem_expand_exact. sp. Qed.
  Hint Resolve sp_mem_expand_exact : ledger.
  Lemma sp_check_range off n : spres (check_range c off n).
  Proof. unfold check_range. sp. Qed.
  Hint Resolve sp_check_range : ledger.
  Lemma sp_drop_at off : spres (drop_at c off).
  Proof. unfold drop_at. sp. Qed.
  Hint Resolve sp_drop_at : ledger.
  Lemma sp_drop_loop : forall n off, spres (drop_loop c off n).
  Proof. induction n as [|n IH]; intros off; cbn [drop_loop]; sp. Qed.
  Hint Resolve sp_drop_loop : ledger.
  Lemma sp_drop_slice : forall n off, spres (drop_slice c off n).
  Proof.
    induction n as [|n IH]; intros off; cbn [drop_slice]; [sp|].
    intros s. pose proof (sp_drop_at off s) as H1.
    destruct (drop_at c off s) as [a s1|p s1|f]; auto.
    - pose proof (IH (off + szn c)%nat s1) as H2.
      destruct (drop_slice c (off + szn c) n s1); auto; eapply (rs_trans _ _ _ OK); eauto.
    - pose proof (sp_quiet _ (IH (off + szn c)%nat) s1) as H2.
      destruct (quiet_st (drop_slice c (off + szn c) n) s1); auto. eapply (rs_trans _ _ _ OK); eauto.
  Qed.
  Hint Resolve sp_drop_slice : ledger.
  Lemma sp_clone_into bs off : spres (clone_into c bs off).
  Proof. unfold clone_into. sp. Qed.
  Hint Resolve sp_clone_into : ledger.
  Lemma sp_write_value off s : spres (write_value c off s).
  Proof. unfold write_value. sp. Qed.
  Hint Resolve sp_write_value : ledger.
  Lemma sp_reserve_one : spres (reserve_one c).
  Proof. unfold reserve_one. sp. Qed.
  Lemma sp_reserve n : spres (reserve c n).
  Proof. unfold reserve. sp. Qed.
  Lemma sp_reserve_exact n : spres (reserve_exact c n).
  Proof. unfold reserve_exact. sp. Qed.
  Lemma sp_shrink_to_fit : spres (shrink_to_fit c).
  Proof. unfold shrink_to_fit. sp. Qed.
  Lemma sp_shrink_to n : spres (shrink_to c n).
  Proof. unfold shrink_to. sp. Qed.
  Lemma sp_set_len n : spres (set_len c n).
  Proof. unfold set_len. sp. Qed.
  Lemma sp_shift k a b n : spres (shift c k a b n).
  Proof. unfold shift. sp. Qed.
  Hint Resolve sp_reserve_one sp_reserve sp_reserve_exact sp_shrink_to_fit sp_shrink_to sp_set_len sp_shift : ledger.
  Lemma sp_insert_unchecked i s : spres (insert_unchecked c i s).
  Proof. unfold insert_unchecked. sp. Qed.
  Lemma sp_push_unchecked s : spres (push_unchecked c s).
  Proof. unfold push_unchecked. sp. Qed.
  Lemma sp_clear : spres (clear c).
  Proof. unfold clear. sp. Qed.
  Hint Resolve sp_insert_unchecked sp_push_unchecked sp_clear : ledger.
  Lemma sp_drop_vec : spres (drop_vec c).
  Proof. unfold drop_vec. sp. Qed.
  Lemma sp_clone_loop src : forall n i, spres (clone_loop c src i n).
  Proof. induction n as [|n IH]; intros i; cbn [clone_loop]; sp. Qed.
  Lemma sp_read_ptr p : spres (read_ptr c p).
  Proof. unfold read_ptr. sp. Qed.
  Lemma sp_write_ptr p bs : spres (write_ptr c p bs).
  Proof. unfold write_ptr. sp. Qed.
  Hint Resolve sp_drop_vec sp_clone_loop sp_read_ptr sp_write_ptr : ledger.
  Lemma sp_clone_inner src :
    spres (bind (reserve c (vlen src)) (fun _ => bind (clone_loop c (vmem src) 0 (N.to_nat (vlen src)))
                                                       (fun _ => setv (with_len (vlen src))))).
  Proof. sp. Qed.
  (** the body of [clone_vec] behind the fresh prototype *)
  Lemma sp_clone_body src :
    spres (unwinding_st (bind (reserve c (vlen src)) (fun _ => bind (clone_loop c (vmem src) 0 (N.to_nat (vlen src)))
                                                                 (fun _ => setv (with_len (vlen src)))))
                        (drop_vec c)).
  Proof. sp. Qed.

  (** removal handles, drain, splice ([Ops]) *)
  Lemma sp_temp_new k i : spres (temp_new c k i).
  Proof. unfold temp_new. sp. Qed.
  Lemma sp_temp_ptr h : spres (temp_ptr c h).
  Proof. unfold temp_ptr. sp. Qed.
  Hint Resolve sp_temp_new sp_temp_ptr : ledger.
  Lemma sp_temp_bytes h : spres (temp_bytes c h).
  Proof. unfold temp_bytes. sp. Qed.
  Lemma sp_temp_consume k h : spres (temp_consume c k h).
  Proof. unfold temp_consume. sp. Qed.
  Hint Resolve sp_temp_bytes sp_temp_consume : ledger.
  Lemma sp_temp_drop k h : spres (temp_drop c k h).
  Proof. unfold temp_drop. sp. Qed.
  Lemma sp_into_range len sb eb : spres (into_range len sb eb).
  Proof. unfold into_range. sp. Qed.
  Lemma sp_drain_new s e : spres (drain_new c s e).
  Proof. unfold drain_new. sp. Qed.
  Lemma sp_drop_range k s e : spres (drop_range c k s e).
  Proof. unfold drop_range. sp. Qed.
  Lemma sp_move_elements a b n : spres (move_elements c a b n).
  Proof. unfold move_elements. sp. Qed.
  Hint Resolve sp_temp_drop sp_into_range sp_drain_new sp_drop_range sp_move_elements : ledger.
  Lemma sp_drain_drop k d : spres (drain_drop c k d).
  Proof. unfold drain_drop. sp. Qed.
  Lemma sp_drop_item it : spres (drop_item c it).
  Proof. unfold drop_item. sp. Qed.
  Hint Resolve sp_drain_drop sp_drop_item : ledger.
  Lemma sp_drop_items : forall its, spres (drop_items c its).
  Proof.
    induction its as [|it r IH]; cbn [drop_items]; [sp|].
    intros s. pose proof (sp_drop_item it s) as H1.
    destruct (drop_item c it s) as [a s1|p s1|f]; auto.
    - pose proof (IH s1) as H2. destruct (drop_items c r s1); auto; eapply (rs_trans _ _ _ OK); eauto.
    - pose proof (sp_quiet _ IH s1) as H2.
      destruct (quiet_st (drop_items c r) s1); auto. eapply (rs_trans _ _ _ OK); eauto.
  Qed.
  Hint Resolve sp_drop_items : ledger.
  Lemma sp_splice_fill : forall budget off w its, spres (splice_fill c off budget w its).
  Proof. induction budget as [|b IH]; intros off w its; cbn [splice_fill]; sp. Qed.
  Hint Resolve sp_splice_fill : ledger.
  Lemma sp_splice_prep k d cl : spres (splice_prep c k d cl).
  Proof. unfold splice_prep. sp. Qed.
  Hint Resolve sp_splice_prep : ledger.
  Lemma sp_splice_drop k d cl its : spres (splice_drop c k d cl its).
  Proof. unfold splice_drop. sp. Qed.
  Lemma sp_elem_drop p : spres (elem_drop c p).
  Proof. unfold elem_drop. sp. Qed.
  Hint Resolve sp_splice_drop sp_elem_drop : ledger.

  (** the world *)
  Lemma wp_ret {A} (a : A) : wpres (ret a).
  Proof. apply pres_ret, (rw_refl _ _ _ OK). Qed.
  Lemma wp_raise {A} p : wpres (@raise world A p).
  Proof. apply pres_raise, (rw_refl _ _ _ OK). Qed.
  Lemma wp_fault {A} f : wpres (@fault_ world A f).
  Proof. apply pres_fault. Qed.
  Lemma wp_bind {A B} (m : M world A) (f : A -> M world B) : wpres m -> (forall a, wpres (f a)) -> wpres (bind m f).
  Proof. apply pres_bind, (rw_trans _ _ _ OK). Qed.
  Lemma wp_assert b p : wpres (assert_ b p).
  Proof. apply pres_assert, (rw_refl _ _ _ OK). Qed.
  Lemma wp_of_opt {A} (o : option A) p : wpres (of_opt o p).
  Proof. apply pres_of_opt, (rw_refl _ _ _ OK). Qed.
  Lemma wp_on_unwind {A} (m : M world A) cl : wpres m -> wpres cl -> wpres (on_unwind m cl).
  Proof. apply pres_on_unwind, (rw_trans _ _ _ OK). Qed.
  Lemma wp_peek v : wpres (peek_vec v).
  Proof. intros w. unfold peek_vec. destruct (get_vec v w); apply (rw_refl _ _ _ OK). Qed.
  Lemma wp_emitw e : alloc_event e = false -> wpres (emitw e).
  Proof. intros H w. unfold emitw. apply (rw_emit _ _ _ OK) with (e := e); [exact H|reflexivity]. Qed.
  Lemma wp_freshw : wpres (freshw c).
  Proof. intros [l u]. unfold freshw. cbn [wv wuw]. apply (rw_log _ _ _ OK {| wv := l; wuw := u |} {| wv := l; wuw := u |}); try reflexivity. apply (rw_refl _ _ _ OK). Qed.
  Lemma wp_harness_drop t : wpres (harness_drop c t).
  Proof. unfold harness_drop. destruct (c_dg c); [apply wp_emitw; reflexivity|apply wp_ret]. Qed.
  Lemma wp_decode bs : wpres (decode c bs).
  Proof. unfold decode. destruct (dec (szn c) bs); [apply wp_ret|apply wp_fault]. Qed.
  Lemma wp_quiet {A} (m : M world A) : wpres m -> wpres (quiet m).
  Proof.
    intros Hm w. unfold quiet. set (w0 := {| wv := wv w; wuw := disarm (wuw w) |}).
    specialize (Hm w0). destruct (m w0) as [a w'|p w'|f]; auto;
      apply ((rw_log _ _ _ OK) w0 w' (wuw w) {| ulog := ulog (wuw w'); unext := unext (wuw w'); ufuse := ufuse (wuw w) |}) in Hm;
      try reflexivity; destruct w; exact Hm.
  Qed.
  Lemma wp_unwinding {A} (m : M world A) cl : wpres m -> wpres cl -> wpres (unwinding m cl).
  Proof. intros. apply wp_on_unwind; [assumption|apply wp_quiet; assumption]. Qed.
  Lemma wp_on_vec {A} vid (m : M st A) : spres m -> wpres (on_vec vid m).
  Proof. apply (rw_on_vec _ _ _ OK). Qed.

  Create HintDb wledger.
  Hint Resolve wp_peek wp_freshw wp_harness_drop wp_decode : wledger.

  Ltac wp :=
    repeat first
     [ solve [auto with wledger]
     | apply wp_ret | apply wp_raise | apply wp_fault | apply wp_assert | apply wp_of_opt
     | apply wp_unwinding | apply wp_on_unwind | apply wp_quiet
     | apply wp_emitw; reflexivity
     | apply wp_on_vec; solve [auto with ledger | sp]
     | apply wp_bind; [|intros ?]
     | match goal with
       | |- wpres (if ?b then _ else _) => destruct b
       | |- wpres (match ?x with _ => _ end) => destruct x
       end ].

  Lemma wp_drop_offer o : wpres (drop_offer c o).
  Proof. unfold drop_offer. wp. Qed.
  Lemma wp_finish_offer o : wpres (finish_offer c o).
  Proof. unfold finish_offer. wp. Qed.
  Hint Resolve wp_drop_offer wp_finish_offer : wledger.
  Lemma wp_offer_into v o action : (forall s, spres (action s)) -> wpres (offer_into c v o action).
  Proof. intros H. unfold offer_into. wp. Qed.
  Lemma wp_offer_push v o : wpres (offer_into c v o (push_unchecked c)).
  Proof. apply wp_offer_into. intros. apply sp_push_unchecked. Qed.
  Lemma wp_offer_insert v o i : wpres (offer_into c v o (insert_unchecked c i)).
  Proof. apply wp_offer_into. intros. apply sp_insert_unchecked. Qed.
  Hint Resolve wp_offer_push wp_offer_insert : wledger.
  Lemma wp_elem_bytes v i : wpres (elem_bytes c v i).
  Proof. unfold elem_bytes. wp. Qed.
  Lemma wp_temp_open v k i : wpres (temp_open c v k i).
  Proof. unfold temp_open. wp. Qed.
  Hint Resolve wp_elem_bytes wp_temp_open : wledger.
  Lemma wp_make_offer s : wpres (make_offer c s).
  Proof. unfold make_offer. wp. Qed.
  Lemma wp_repeat_m m : wpres m -> forall n, wpres (repeat_m n m).
  Proof. intros H. induction n as [|n IH]; cbn [repeat_m]; wp. Qed.
  Lemma wp_lazy_down v bs : wpres (lazy_down c v bs).
  Proof. unfold lazy_down. wp. Qed.
  Hint Resolve wp_make_offer wp_lazy_down : wledger.
  Lemma wp_lazy_downs v get : wpres get -> forall n, wpres (lazy_downs c v n get).
  Proof. intros H. induction n as [|n IH]; cbn [lazy_downs]; wp. Qed.
  Lemma wp_apply_sink v known h : forall k, wpres (apply_sink c v known h k).
  Proof.
    induction k as [| |d|d i| |k IH|n d k IH|n k IH|]; cbn [apply_sink]; wp.
    - apply wp_repeat_m. wp.
    - apply wp_lazy_downs. wp.
  Qed.
  Lemma wp_item_ptr v i : wpres (item_ptr c v i).
  Proof. unfold item_ptr. wp. Qed.
  Hint Resolve wp_apply_sink wp_item_ptr : wledger.
  Lemma wp_item_sink v a p : forall k, wpres (item_sink c v a p k).
  Proof.
    induction k as [| |d|d i| |k IH|n d k IH|n k IH|]; cbn [item_sink]; wp.
    - apply wp_repeat_m. wp.
    - apply wp_lazy_downs. wp.
  Qed.
  Hint Resolve wp_item_sink : wledger.
  Lemma wp_walk v a cleanup : (forall k, wpres (cleanup k)) -> forall pat k, wpres (walk c v a cleanup pat k).
  Proof.
    intros Hc. induction pat as [|[front s] rest IH]; intros k; cbn [walk]; [wp|].
    destruct (if front then cur_next k else cur_next_back k) as [oi k']. wp.
  Qed.
  Lemma wp_walk_ro v : forall pat k, wpres (walk_ro c v pat k).
  Proof.
    induction pat as [|front rest IH]; intros k; cbn [walk_ro]; [wp|].
    destruct (if front then cur_next k else cur_next_back k) as [oi k']. wp.
  Qed.
  Lemma wp_walk_nth v : forall pat k, wpres (walk_nth c v pat k).
  Proof.
    induction pat as [|[front n] rest IH]; intros k; cbn [walk_nth]; [wp|].
    destruct (cur_nth front n k) as [oi k']. wp.
  Qed.
  Hint Resolve wp_walk_ro wp_walk_nth : wledger.
  Lemma wp_make_items rk wa : forall n i, wpres (make_items c rk n i wa).
  Proof. induction n as [|n IH]; intros i; cbn [make_items]; wp. Qed.
  Hint Resolve wp_make_items : wledger.

  Ltac wpx :=
    repeat first
     [ solve [auto with wledger]
     | apply wp_ret | apply wp_raise | apply wp_fault | apply wp_assert | apply wp_of_opt
     | apply wp_unwinding | apply wp_on_unwind | apply wp_quiet
     | apply wp_emitw; reflexivity
     | apply wp_on_vec; solve [auto with ledger | sp]
     | apply wp_walk; intros ?
     | apply wp_bind; [|intros ?]
     | match goal with
       | |- wpres (if ?b then _ else _) => destruct b
       | |- wpres (match ?x with _ => _ end) => destruct x
       end ].

  (** the caller's use of a vector obtained from [clone_empty_in], given its whole-vector clone *)
  Lemma wp_clone_in_body n k : (forall m, wpres (clone_and_drop c m)) -> wpres (clone_in_body c n k).
  Proof.
    intros Hcd. unfold clone_in_body. wpx. apply wp_repeat_m. wpx.
  Qed.
  Lemma wp_clone_in_run n k : (forall m, wpres (clone_and_drop c m)) ->
    wpres (bind (unwinding (clone_in_body c n k) (on_vec n (drop_vec c))) (fun r => bind (on_vec n (drop_vec c)) (fun _ => ret r))).
  Proof. intros Hcd. pose proof (wp_clone_in_body n k Hcd). wpx. Qed.

  (** every script step that does not create, replace or drop a vector object *)
  Theorem exec_regular o : regular o = true -> wpres (exec c o).
  Proof.
    destruct o; cbn [regular]; intros Hreg; try discriminate; cbn [exec]; wpx.
    generalize 0. generalize (N.to_nat k) as n. induction n as [|n IH]; intros i; [apply wp_ret|].
    apply wp_bind; [apply wp_freshw|intros t]. apply wp_bind; [|intros _; apply IH].
    apply wp_on_vec. apply sp_write_value.
  Qed.
End Machine.

(** ** The ledger entry of one vector *)
Definition ob (c : cfg) (v : vec) : option (N * N) :=
  match vbk v with BHeap => owned_block c v | _ => None end.

Definition Rst (c : cfg) (s s' : st) : Prop :=
  exists es, appended (snd s) (snd s') es /\ Forall valid_request es /\
             ledger_run (ob c (fst s)) es = Some (ob c (fst s')) /\ vbk (fst s') = vbk (fst s).

Lemma ledger_run_app b es1 b1 es2 :
  ledger_run b es1 = Some b1 -> ledger_run b (es1 ++ es2) = ledger_run b1 es2.
Proof.
  revert b. induction es1 as [|e r IH]; intros b H; cbn [ledger_run app] in *.
  - injection H as <-. reflexivity.
  - destruct (ledger_step b e) as [b'|]; [|discriminate]. apply IH. exact H.
Qed.

Lemma Rst_refl c s : Rst c s s.
Proof. exists []. repeat split; auto. Qed.
Lemma Rst_trans c s1 s2 s3 : Rst c s1 s2 -> Rst c s2 s3 -> Rst c s1 s3.
Proof.
  intros (e1 & A1 & V1 & L1 & B1) (e2 & A2 & V2 & L2 & B2). exists (e1 ++ e2).
  split; [|split; [|split]].
  - unfold appended in *. rewrite A2, A1, rev_app_distr, app_assoc. reflexivity.
  - apply Forall_app. auto.
  - rewrite (ledger_run_app _ _ _ _ L1). exact L2.
  - congruence.
Qed.


Lemma Rst_setv c f : (forall v, vcap (f v) = vcap v /\ vbk (f v) = vbk v) -> pres (Rst c) (setv f).
Proof.
  intros H [v u]. cbn. exists []. cbn [fst snd]. destruct (H v) as [Hc Hb].
  repeat split; auto. unfold ob, owned_block. rewrite Hc, Hb. reflexivity.
Qed.
Lemma Rst_emit c e : alloc_event e = false -> pres (Rst c) (emitv e).
Proof.
  intros H [v u]. cbn. exists [e]. cbn [fst snd]. repeat split.
  - constructor; [destruct e; cbn; auto; discriminate|constructor].
  - cbn. destruct e, (ob c v); cbn in *; try reflexivity; discriminate.
Qed.
Lemma Rst_log c v u v' u' u1 u1' :
  ulog u1 = ulog u -> ulog u1' = ulog u' -> Rst c (v, u) (v', u') -> Rst c (v, u1) (v', u1').
Proof.
  intros H1 H2 (es & A & V & L & B). exists es. cbn [fst snd] in *. repeat split; auto.
  unfold appended in *. congruence.
Qed.
(** ** The backends *)
Lemma ob_heap c v : vbk v = BHeap -> ob c v = owned_block c v.
Proof. unfold ob. intros ->. reflexivity. Qed.
Lemma ob_nonheap c v : vbk v <> BHeap -> ob c v = None.
Proof. unfold ob. destruct (vbk v); congruence. Qed.

Lemma heap_resize_at c n v u : vbk v = BHeap ->
  match heap_resize c n (v, u) with Ok _ s' => Rst c (v, u) s' | Panic _ s' => Rst c (v, u) s' | Fault _ => True end.
Proof.
  intros Hb. pose proof (heap_resize_ledger c v u n Hb) as H.
  destruct (heap_resize c n (v, u)) as [a [v' u']|p [v' u']|f]; auto.
  - destruct H as (es & A & V & L & _ & Hb'). exists es. cbn [fst snd].
    rewrite (ob_heap c v Hb), (ob_heap c v' Hb'). repeat split; auto. congruence.
  - destruct H as [-> ->]. apply Rst_refl.
Qed.
(** a step of a vector that owns no block, emitting no allocator event *)
Lemma Rst_nonheap c v u v' u' es :
  vbk v <> BHeap -> vbk v' = vbk v -> appended u u' es -> forallb (fun e => negb (alloc_event e)) es = true ->
  Rst c (v, u) (v', u').
Proof.
  intros Hn Hb A Hes. exists es. cbn [fst snd]. rewrite (ob_nonheap c v Hn), (ob_nonheap c v') by congruence.
  split; [exact A|]. split; [|split; [|exact Hb]].
  - apply Forall_forall. intros e He. rewrite forallb_forall in Hes. specialize (Hes e He).
    destruct e; cbn in *; auto; discriminate.
  - clear A. induction es as [|e r IH]; [reflexivity|]. cbn [forallb] in Hes. apply andb_prop in Hes. destruct Hes as [He Hr].
    cbn [ledger_run]. destruct e; cbn in *; try discriminate; apply IH; exact Hr.
Qed.
Lemma reloc_resize_at c n v u : vbk v <> BHeap ->
  match reloc_resize c n (v, u) with Ok _ s' => Rst c (v, u) s' | Panic _ s' => Rst c (v, u) s' | Fault _ => True end.
Proof.
  intros Hn. unfold reloc_resize, bind, getv, of_ovf, of_opt. cbn [fst snd].
  destruct (checked_mul (c_sz c) n) as [nb|]; [|apply Rst_refl]. unfold ret.
  destruct (alloc_limit <? nb); [apply Rst_refl|]. unfold setv. cbn [fst snd].
  apply (Rst_nonheap c v u _ u []); auto. reflexivity.
Qed.
Lemma Rst_emit_nonalloc c v u e : alloc_event e = false -> Rst c (v, u) (v, emit e u).
Proof. intros H. pose proof (Rst_emit c e H (v, u)) as X. exact X. Qed.

Lemma Rst_mem_resize c n : pres (Rst c) (mem_resize c n).
Proof.
  intros [v u]. unfold mem_resize, bind, getv. cbn [fst snd]. destruct (vbk v) eqn:Hb; try exact I.
  - apply heap_resize_at. exact Hb.
  - unfold emitv. cbn [fst snd].
    assert (Hn : vbk v <> BHeap) by congruence.
    pose proof (reloc_resize_at c n v (emit (EResize n) u) Hn) as H.
    destruct (reloc_resize c n (v, emit (EResize n) u)); auto;
      (eapply Rst_trans; [apply (Rst_emit_nonalloc c v u (EResize n)); reflexivity|exact H]).
Qed.
Lemma Rst_mem_expand c n : pres (Rst c) (mem_expand c n).
Proof.
  intros [v u]. unfold mem_expand, bind, getv. cbn [fst snd]. destruct (vbk v) eqn:Hb; try apply Rst_refl.
  - unfold of_ovf, of_opt. destruct (checked_add (vcap v) n); [|apply Rst_refl]. unfold ret.
    apply heap_resize_at. exact Hb.
  - unfold emitv. cbn [fst snd]. unfold of_ovf, of_opt.
    assert (Hn : vbk v <> BHeap) by congruence.
    destruct (checked_add (vcap v) n) as [rq|].
    + unfold ret. pose proof (reloc_resize_at c rq v (emit (EExpand n) u) Hn) as H.
      destruct (reloc_resize c rq (v, emit (EExpand n) u)); auto;
        (eapply Rst_trans; [apply (Rst_emit_nonalloc c v u (EExpand n)); reflexivity|exact H]).
    + unfold raise. apply (Rst_emit_nonalloc c v u (EExpand n)); reflexivity.
Qed.
Lemma Rst_mem_drop c : pres (Rst c) (mem_drop c).
Proof.
  intros [v u]. unfold mem_drop, bind, getv. cbn [fst snd]. destruct (vbk v) eqn:Hb; try apply Rst_refl.
  - apply heap_resize_at. exact Hb.
  - apply (Rst_emit_nonalloc c v u EMemDrop). reflexivity.
Qed.

(** ** The world: the multiset of live blocks *)
Definition olist {A} (o : option A) : list A := match o with Some x => [x] | None => [] end.
Definition slot_blocks (c : cfg) (o : option vec) : list (N * N) :=
  match o with Some v => olist (ob c v) | None => [] end.
(** the blocks owned by the vectors of a world *)
Definition live_blocks (c : cfg) (l : list (option vec)) : list (N * N) := flat_map (slot_blocks c) l.

(** replaying allocator events against a multiset of live blocks (lists up to permutation): an allocation
    adds a block, a deallocation must present the layout of some live block and removes it, a reallocation
    must present one and replaces it *)
Inductive greplay : list (N * N) -> list event -> list (N * N) -> Prop :=
| gr_nil l l' : Permutation l l' -> greplay l [] l'
| gr_alloc l s a es l' : 0 < s -> greplay ((s, a) :: l) es l' -> greplay l (EAlloc s a :: es) l'
| gr_dealloc l s a l0 es l' : Permutation l ((s, a) :: l0) -> greplay l0 es l' -> greplay l (EDealloc s a :: es) l'
| gr_realloc l o a n l0 es l' : Permutation l ((o, a) :: l0) -> 0 < n -> greplay ((n, a) :: l0) es l' ->
                                greplay l (ERealloc o a n :: es) l'
| gr_other l e es l' : alloc_event e = false -> greplay l es l' -> greplay l (e :: es) l'.

Lemma greplay_perm_l l1 es l' : greplay l1 es l' -> forall l2, Permutation l1 l2 -> greplay l2 es l'.
Proof.
  induction 1 as [l l' Hp|l s a es l' Hs H IH|l s a l0 es l' Hp H IH|l o a n l0 es l' Hp Hn H IH|l e es l' He H IH]; intros l2 Hp2.
  - constructor. rewrite <- Hp2. exact Hp.
  - constructor; [exact Hs|]. apply IH. constructor. exact Hp2.
  - econstructor; [|exact H]. rewrite <- Hp2. exact Hp.
  - econstructor; [|exact Hn|exact H]. rewrite <- Hp2. exact Hp.
  - constructor; [exact He|]. apply IH. exact Hp2.
Qed.
Lemma greplay_perm_r l es l1 : greplay l es l1 -> forall l2, Permutation l1 l2 -> greplay l es l2.
Proof.
  induction 1 as [l l' Hp|l s a es l' Hs H IH|l s a l0 es l' Hp H IH|l o a n l0 es l' Hp Hn H IH|l e es l' He H IH]; intros l2 Hp2.
  - constructor. rewrite Hp. exact Hp2.
  - constructor; auto.
  - econstructor; eauto.
  - econstructor; eauto.
  - constructor; auto.
Qed.
Lemma greplay_app l es1 l1 : greplay l es1 l1 -> forall es2 l2, greplay l1 es2 l2 -> greplay l (es1 ++ es2) l2.
Proof.
  induction 1 as [l l' Hp|l s a es l' Hs H IH|l s a l0 es l' Hp H IH|l o a n l0 es l' Hp Hn H IH|l e es l' He H IH]; intros es2 l2 H2; cbn [app].
  - apply (greplay_perm_l _ _ _ H2). symmetry. exact Hp.
  - constructor; auto.
  - econstructor; eauto.
  - econstructor; eauto.
  - constructor; auto.
Qed.
(** the ledger entry of one vector, framed by everything else that is live *)
Lemma greplay_lift es : forall b b', ledger_run b es = Some b' -> forall l, greplay (olist b ++ l) es (olist b' ++ l).
Proof.
  induction es as [|e es IH]; intros b b' H l; cbn [ledger_run] in H.
  - injection H as <-. constructor. reflexivity.
  - destruct (ledger_step b e) as [b1|] eqn:E; [|discriminate]. specialize (IH b1 b' H l).
    destruct e; cbn [ledger_step] in E;
      try (injection E as <-; apply gr_other; [reflexivity|exact IH]);
      try (destruct b as [[s0 a0]|]; injection E as <-; apply gr_other; [reflexivity|exact IH]).
    + (* EAlloc *) destruct b as [[s0 a0]|]; [discriminate|]. destruct (N.ltb_spec 0 size); [|discriminate].
      injection E as <-. constructor; [assumption|exact IH].
    + (* ERealloc *) destruct b as [[s0 a0]|]; [|discriminate].
      destruct (osize =? s0) eqn:E1; [|discriminate]. destruct (align =? a0) eqn:E2; [|discriminate].
      destruct (N.ltb_spec 0 nsize); [|discriminate]. cbn [andb] in E. injection E as <-.
      apply N.eqb_eq in E1, E2. subst. eapply gr_realloc; [cbn [olist app]; reflexivity|assumption|exact IH].
    + (* EDealloc *) destruct b as [[s0 a0]|]; [|discriminate].
      destruct (size =? s0) eqn:E1; [|discriminate]. destruct (align =? a0) eqn:E2; [|discriminate].
      cbn [andb] in E. injection E as <-. apply N.eqb_eq in E1, E2. subst. eapply gr_dealloc; [cbn [olist app]; reflexivity|exact IH].
Qed.

Lemma live_set_nth c : forall n l o', exists rest,
  Permutation (live_blocks c l) (slot_blocks c (nth n l None) ++ rest) /\
  Permutation (live_blocks c (set_nth n o' None l)) (slot_blocks c o' ++ rest).
Proof.
  unfold live_blocks.
  induction n as [|n IH]; intros l o'; destruct l as [|x l]; cbn [nth set_nth flat_map].
  - exists []. split; reflexivity.
  - exists (flat_map (slot_blocks c) l). split; reflexivity.
  - destruct (IH [] o') as (rest & H1 & H2). exists rest. destruct n; cbn [nth] in *; split; auto.
  - destruct (IH l o') as (rest & H1 & H2). exists (slot_blocks c x ++ rest). split.
    + rewrite H1. rewrite !app_assoc. apply Permutation_app_tail. apply Permutation_app_comm.
    + rewrite H2. rewrite !app_assoc. apply Permutation_app_tail. apply Permutation_app_comm.
Qed.
Lemma get_vec_nth vid w v : get_vec vid w = Some v -> nth vid (wv w) None = Some v.
Proof.
  unfold get_vec. destruct (nth_error (wv w) vid) as [[x|]|] eqn:E; try discriminate. intros H. injection H as ->.
  apply nth_error_nth with (d := None) in E. exact E.
Qed.
Lemma get_vec_none_nth vid w : get_vec vid w = None -> nth vid (wv w) None = None.
Proof.
  unfold get_vec. destruct (nth_error (wv w) vid) as [[x|]|] eqn:E; try discriminate; intros _.
  - apply nth_error_nth with (d := None) in E. exact E.
  - apply nth_error_None in E. apply nth_overflow. exact E.
Qed.

(** the relation every script step keeps: the events it appends replay from the live blocks before to the
    live blocks after plus what the script itself abandoned ([lk]), in any context [L] *)
Definition Rw (c : cfg) (w w' : world) : Prop :=
  exists es lk, appended (wuw w) (wuw w') es /\ Forall valid_request es /\
    forall L, greplay (live_blocks c (wv w) ++ L) es (live_blocks c (wv w') ++ lk ++ L).
Lemma Rw_refl c w : Rw c w w.
Proof. exists [], []. repeat split; auto. intros L. constructor. reflexivity. Qed.
Lemma Rw_trans c w1 w2 w3 : Rw c w1 w2 -> Rw c w2 w3 -> Rw c w1 w3.
Proof.
  intros (e1 & k1 & A1 & V1 & G1) (e2 & k2 & A2 & V2 & G2). exists (e1 ++ e2), (k2 ++ k1).
  split; [|split].
  - unfold appended in *. rewrite A2, A1, rev_app_distr, app_assoc. reflexivity.
  - apply Forall_app. auto.
  - intros L. eapply greplay_app; [apply G1|]. rewrite <- app_assoc. apply G2.
Qed.
Lemma Rw_log c w w' u1 u1' :
  ulog u1 = ulog (wuw w) -> ulog u1' = ulog (wuw w') -> Rw c w w' ->
  Rw c {| wv := wv w; wuw := u1 |} {| wv := wv w'; wuw := u1' |}.
Proof.
  intros H1 H2 (es & lk & A & V & G). exists es, lk. cbn [wv wuw]. repeat split; auto.
  unfold appended in *. congruence.
Qed.
Lemma Rw_same_vecs c w u' e : alloc_event e = false -> ulog u' = e :: ulog (wuw w) -> Rw c w {| wv := wv w; wuw := u' |}.
Proof.
  intros He Hl. exists [e], []. cbn [wv wuw]. split; [|split].
  - unfold appended. cbn. exact Hl.
  - constructor; [destruct e; cbn; auto; discriminate|constructor].
  - intros L. apply gr_other; [exact He|]. constructor. reflexivity.
Qed.

(** a computation on one vector of the world *)
Lemma Rw_on_vec c A vid (m : M st A) : pres (Rst c) m -> pres (Rw c) (on_vec vid m).
Proof.
  intros Hm w. unfold on_vec. destruct (get_vec vid w) as [v|] eqn:Hg; [|apply Rw_refl].
  specialize (Hm (v, wuw w)).
  assert (X : forall v' u', Rst c (v, wuw w) (v', u') -> Rw c w (put_vec vid (Some v') u' w)).
  { intros v' u' (es & A0 & V & L & _). cbn [fst snd] in *. exists es, []. unfold put_vec. cbn [wv wuw].
    split; [exact A0|]. split; [exact V|]. intros L0. cbn [app].
    destruct (live_set_nth c vid (wv w) (Some v')) as (rest & H1 & H2).
    rewrite (get_vec_nth _ _ _ Hg) in H1. cbn [slot_blocks] in H1, H2.
    pose proof (greplay_lift es _ _ L (rest ++ L0)) as G.
    eapply greplay_perm_l; [eapply greplay_perm_r; [exact G|]|].
    - rewrite app_assoc. apply Permutation_app_tail. symmetry. exact H2.
    - rewrite app_assoc. apply Permutation_app_tail. symmetry. exact H1. }
  destruct (m (v, wuw w)) as [a [v' u']|p [v' u']|f]; auto.
Qed.


(** ** Instance 1: the ledger *)
Lemma ledger_ok c : rel_ok c (Rst c) (Rw c).
Proof.
  constructor.
  - apply Rst_refl.
  - apply Rst_trans.
  - apply Rst_setv.
  - apply Rst_emit.
  - apply Rst_log.
  - apply Rst_mem_resize.
  - apply Rst_mem_expand.
  - apply Rst_mem_drop.
  - apply Rw_refl.
  - apply Rw_trans.
  - apply Rw_log.
  - apply Rw_same_vecs.
  - apply Rw_on_vec.
Qed.
Definition spres {A} (c : cfg) (m : M st A) : Prop := pres (Rst c) m.
Definition wpres {A} (c : cfg) (m : M world A) : Prop := pres (Rw c) m.
Definition l_drop_vec c : spres c (drop_vec c) := sp_drop_vec c _ _ (ledger_ok c).
Definition l_quiet {A} c (m : M st A) : spres c m -> spres c (quiet_st m) := sp_quiet c _ _ (ledger_ok c) m.
Definition l_unwinding {A} c (m : M st A) cl : spres c m -> spres c cl -> spres c (unwinding_st m cl) := sp_unwinding c _ _ (ledger_ok c) m cl.
Definition l_clone_inner c src := sp_clone_inner c _ _ (ledger_ok c) src.
Definition l_peek c v : wpres c (peek_vec v) := wp_peek c _ _ (ledger_ok c) v.
Definition l_bind {A B} c (m : M world A) (f : A -> M world B) : wpres c m -> (forall a, wpres c (f a)) -> wpres c (bind m f) :=
  wp_bind c _ _ (ledger_ok c) m f.
(** ** A vector that comes into being: its ledger entry starts empty *)
Definition Rnew (c : cfg) (s s' : st) : Prop :=
  exists es, appended (snd s) (snd s') es /\ Forall valid_request es /\
             ledger_run None es = Some (ob c (fst s')).
(** ... or does not, after all: whatever it acquired has been returned *)
Definition Rgone (c : cfg) (s s' : st) : Prop :=
  exists es, appended (snd s) (snd s') es /\ Forall valid_request es /\ ledger_run None es = Some None.

Lemma mem_build_new c bk v u :
  match mem_build c bk (v, u) with
  | Ok _ s' => Rnew c (v, u) s' /\ vbk (fst s') = bk /\ ob c (fst s') = None
  | Panic _ s' => s' = (v, u)
  | Fault _ => True
  end.
Proof.
  assert (Hh : ob c {| vlen := 0; vcap := 0; vmem := []; vgen := 0; vbk := BHeap |} = None).
  { unfold ob, owned_block. cbn. rewrite N.mul_0_r. reflexivity. }
  unfold mem_build. destruct bk as [|size|n size| |c0]; cbn [setv fst snd].
  - split; [|split; [reflexivity|exact Hh]]. exists []. cbn [fst snd ledger_run]. rewrite Hh. repeat split; auto.
  - split; [|split; reflexivity]. exists []. cbn. repeat split; auto.
  - destruct (stackn_fits n (c_sz c) size); cbn; [|reflexivity]. split; [|split; reflexivity]. exists []. cbn. repeat split; auto.
  - split; [|split; reflexivity]. exists []. cbn. repeat split; auto.
  - unfold bind, emitv, setv. cbn [fst snd]. split; [|split; reflexivity]. exists [EBuild (c_sz c) (c_al c)]. cbn. repeat split; auto.
    constructor; [exact I|constructor].
Qed.
Lemma Rnew_Rst c s1 s2 s3 : Rnew c s1 s2 -> Rst c s2 s3 -> Rnew c s1 s3.
Proof.
  intros (e1 & A1 & V1 & L1) (e2 & A2 & V2 & L2 & B2). exists (e1 ++ e2). split; [|split].
  - unfold appended in *. rewrite A2, A1, rev_app_distr, app_assoc. reflexivity.
  - apply Forall_app. auto.
  - rewrite (ledger_run_app _ _ _ _ L1). exact L2.
Qed.
Lemma Rnew_gone c s1 s2 : Rnew c s1 s2 -> ob c (fst s2) = None -> Rgone c s1 s2.
Proof. intros (es & A & V & L) H. exists es. rewrite H in L. auto. Qed.

(** a dropped vector owns nothing afterwards, also when a destructor panicked *)
Lemma mem_drop_none c v u :
  match mem_drop c (v, u) with
  | Ok _ s' => ob c (fst s') = None | Panic _ s' => s' = (v, u) | Fault _ => True end.
Proof.
  unfold mem_drop, bind, getv. cbn [fst snd]. destruct (vbk v) eqn:Hb.
  - pose proof (heap_resize_ledger c v u 0 Hb) as H. destruct (heap_resize c 0 (v, u)) as [a [v' u']|p [v' u']|f]; auto.
    + destruct H as (es & _ & _ & _ & Hc & Hb'). cbn [fst]. rewrite (ob_heap c v' Hb'). unfold owned_block. rewrite Hc, N.mul_0_r. reflexivity.
    + destruct H as [-> ->]. reflexivity.
  - unfold ret. cbn [fst]. apply ob_nonheap. congruence.
  - unfold ret. cbn [fst]. apply ob_nonheap. congruence.
  - unfold ret. cbn [fst]. apply ob_nonheap. congruence.
  - unfold emitv. cbn [fst]. apply ob_nonheap. congruence.
Qed.
(** heap_resize to 0 never panics: dropping the storage cannot fail *)
Lemma mem_drop_no_panic c v u p s' : mem_drop c (v, u) = Panic p s' -> False.
Proof.
  unfold mem_drop, bind, getv. cbn [fst snd]. destruct (vbk v); try discriminate.
  unfold heap_resize, bind, getv. cbn [fst snd]. destruct (vcap v =? 0); [discriminate|].
  destruct (c_sz c =? 0); [discriminate|]. cbn. discriminate.
Qed.
Lemma quiet_st_panic {A} (m : M st A) s p s' : quiet_st m s = Panic p s' ->
  exists s1, m (fst s, disarm (snd s)) = Panic p s1.
Proof. unfold quiet_st. destruct (m (fst s, disarm (snd s))) as [a s1|p1 s1|f]; try discriminate. intros H. injection H as <- _. eauto. Qed.
Lemma quiet_st_ok_fst {A} (m : M st A) s a s' : quiet_st m s = Ok a s' ->
  exists s1, m (fst s, disarm (snd s)) = Ok a s1 /\ fst s' = fst s1.
Proof. unfold quiet_st. destruct (m (fst s, disarm (snd s))) as [a1 s1|p1 s1|f]; try discriminate. intros H. injection H as <- <-. eauto. Qed.

Lemma drop_vec_none c s :
  match drop_vec c s with
  | Ok _ s' => ob c (fst s') = None | Panic _ s' => ob c (fst s') = None | Fault _ => True end.
Proof.
  unfold drop_vec, bind, unwinding_st, on_unwind.
  destruct (clear c s) as [a [v1 u1]|p [v1 u1]|f]; auto.
  - pose proof (mem_drop_none c v1 u1) as H. destruct (mem_drop c (v1, u1)) as [b s2|p s2|f] eqn:E; auto.
    exfalso. eapply mem_drop_no_panic; eauto.
  - destruct (quiet_st (mem_drop c) (v1, u1)) as [b s2|p2 s2|f] eqn:E; auto.
    destruct (quiet_st_ok_fst _ _ _ _ E) as (s3 & E3 & Hf). cbn [fst snd] in E3.
    pose proof (mem_drop_none c v1 (disarm u1)) as H. rewrite E3 in H. rewrite Hf. exact H.
Qed.

(** [clone_vec]: the clone under construction, or nothing at all when the cloning panicked *)
Lemma clone_vec_new c src v u :
  match clone_vec c src (v, u) with
  | Ok _ s' => Rnew c (v, u) s'
  | Panic _ s' => Rgone c (v, u) s'
  | Fault _ => True
  end.
Proof.
  unfold clone_vec.
  set (body := bind (reserve c (vlen src)) (fun _ => bind (clone_loop c (vmem src) 0 (N.to_nat (vlen src))) (fun _ => setv (with_len (vlen src))))).
  assert (Hbody : spres c body) by (exact (l_clone_inner c src)).
  unfold bind. pose proof (mem_build_new c (vbk src) v u) as Hb.
  destruct (mem_build c (vbk src) (v, u)) as [a s1|p s1|f]; auto.
  2:{ subst s1. exists []. cbn. repeat split; auto. }
  destruct Hb as [Hn _].
  unfold unwinding_st, on_unwind.
  pose proof (Hbody s1) as H1. destruct (body s1) as [b s2|p s2|f]; auto.
  - eapply Rnew_Rst; eauto.
  - pose proof (l_quiet c _ (l_drop_vec c) s2) as H2.
    destruct (quiet_st (drop_vec c) s2) as [b s3|p3 s3|f] eqn:E; auto.
    apply Rnew_gone; [eapply Rnew_Rst; [eapply Rnew_Rst|]; eauto|].
    destruct (quiet_st_ok_fst _ _ _ _ E) as (s4 & E4 & Hf). rewrite Hf.
    pose proof (drop_vec_none c (fst s2, disarm (snd s2))) as H. rewrite E4 in H. exact H.
Qed.

(** ** Script steps that create, replace or drop a vector *)
Lemma set_nth_twice {A} (x y d : A) : forall n l, set_nth n y d (set_nth n x d l) = set_nth n y d l.
Proof. induction n as [|n IH]; intros l; destruct l; cbn [set_nth]; try reflexivity; rewrite IH; reflexivity. Qed.
Lemma nth_set_nth_same {A} (x d : A) : forall n l, nth n (set_nth n x d l) d = x.
Proof. induction n as [|n IH]; intros l; destruct l; cbn [set_nth nth]; auto. Qed.

(** slot [vid] goes from a vector with ledger entry [b] (plus blocks [lk] the script abandons with it) to [o'] *)
Lemma Rw_put_gen c w vid es o' u' b b' lk :
  appended (wuw w) u' es -> Forall valid_request es -> ledger_run b es = Some b' ->
  Permutation (slot_blocks c (nth vid (wv w) None)) (olist b ++ lk) ->
  slot_blocks c o' = olist b' ->
  Rw c w (put_vec vid o' u' w).
Proof.
  intros A0 V L Hold Hnew. exists es, lk. unfold put_vec. cbn [wv wuw]. split; [exact A0|]. split; [exact V|].
  intros L0. destruct (live_set_nth c vid (wv w) o') as (rest & H1 & H2).
  pose proof (greplay_lift es _ _ L (lk ++ rest ++ L0)) as G.
  eapply greplay_perm_l; [eapply greplay_perm_r; [exact G|]|].
  - rewrite H2, Hnew. rewrite <- !app_assoc. apply Permutation_app_head.
    rewrite !app_assoc. apply Permutation_app_tail. apply Permutation_app_comm.
  - rewrite H1, Hold. rewrite <- !app_assoc. reflexivity.
Qed.
Lemma Rw_events_only c w u' es :
  appended (wuw w) u' es -> Forall valid_request es -> ledger_run None es = Some None ->
  Rw c w {| wv := wv w; wuw := u' |}.
Proof.
  intros A0 V L. exists es, []. cbn [wv wuw]. split; [exact A0|]. split; [exact V|].
  intros L0. exact (greplay_lift es _ _ L (live_blocks c (wv w) ++ L0)).
Qed.
Lemma Rw_new c w dst v0 v' u' : Rnew c (v0, wuw w) (v', u') -> Rw c w (put_vec dst (Some v') u' w).
Proof.
  intros (es & A0 & V & L). cbn [fst snd] in *.
  apply (Rw_put_gen c w dst es (Some v') u' None (ob c v') (slot_blocks c (nth dst (wv w) None))); auto.
Qed.
Lemma Rw_gone c w v0 v' u' : Rgone c (v0, wuw w) (v', u') -> Rw c w {| wv := wv w; wuw := u' |}.
Proof. intros (es & A0 & V & L). cbn [fst snd] in *. eapply Rw_events_only; eauto. Qed.

Lemma wp_exec_new c dst bk : wpres c (exec c (ONew dst bk)).
Proof.
  cbn [exec]. intros w. set (v0 := {| vlen := 0; vcap := 0; vmem := []; vgen := 0; vbk := bk |}).
  pose proof (mem_build_new c bk v0 (wuw w)) as H.
  destruct (mem_build c bk (v0, wuw w)) as [a [v u]|p [v u]|f]; auto.
  - destruct H as [H _]. eapply Rw_new; eauto.
  - injection H as _ ->. destruct w; apply Rw_refl.
Qed.
Lemma mem_resize_panic_same c n v u p v' u' : mem_resize c n (v, u) = Panic p (v', u') -> v' = v.
Proof.
  unfold mem_resize, bind, getv. cbn [fst snd]. destruct (vbk v) eqn:Hb; try discriminate.
  - intros E. pose proof (heap_resize_ledger c v u n Hb) as H. rewrite E in H. tauto.
  - unfold emitv, reloc_resize, bind, getv, of_ovf, of_opt. cbn [fst snd].
    destruct (checked_mul (c_sz c) n) as [nb|]; cbn.
    + destruct (alloc_limit <? nb); cbn; intros E; [injection E as _ <- _; reflexivity|discriminate].
    + intros E. injection E as _ <- _. reflexivity.
Qed.
Lemma wp_exec_withcap c dst bk n : wpres c (exec c (OWithCapacity dst bk n)).
Proof.
  cbn [exec]. intros w. set (v0 := {| vlen := 0; vcap := 0; vmem := []; vgen := 0; vbk := bk |}).
  unfold bind. pose proof (mem_build_new c bk v0 (wuw w)) as H.
  destruct (mem_build c bk (v0, wuw w)) as [a [v1 u1]|p [v1 u1]|f]; auto.
  2:{ injection H as _ ->. destruct w; apply Rw_refl. }
  destruct H as (Hn & _ & Hob1). cbn [fst] in Hob1.
  pose proof (l_unwinding c _ _ (Rst_mem_resize c n) (Rst_mem_drop c) (v1, u1)) as H2.
  destruct (unwinding_st (mem_resize c n) (mem_drop c) (v1, u1)) as [b [v2 u2]|p [v2 u2]|f] eqn:E; auto.
  - eapply Rw_new. eapply Rnew_Rst; eauto.
  - eapply Rw_gone. apply Rnew_gone; [eapply Rnew_Rst; eauto|]. cbn [fst].
    unfold unwinding_st, on_unwind in E.
    destruct (mem_resize c n (v1, u1)) as [b1 s1|p1 [v1' u1']|f1] eqn:E1; try discriminate.
    apply mem_resize_panic_same in E1. subst v1'.
    destruct (quiet_st (mem_drop c) (v1, u1')) as [b3 s3|p3 s3|f3] eqn:E3; try discriminate.
    injection E as _ E. destruct (quiet_st_ok_fst _ _ _ _ E3) as (s4 & E4 & Hf). cbn [fst snd] in E4.
    pose proof (mem_drop_none c v1 (disarm u1')) as Hd. rewrite E4 in Hd.
    rewrite E in Hf. cbn [fst] in Hf. rewrite Hf. exact Hd.
Qed.

Lemma wp_exec_dropvec c v : wpres c (exec c (ODropVec v)).
Proof.
  cbn [exec]. intros w. destruct (get_vec v w) as [vv|] eqn:Hg; [|apply Rw_refl].
  unfold on_vec. rewrite Hg.
  pose proof (l_drop_vec c (vv, wuw w)) as H1. pose proof (drop_vec_none c (vv, wuw w)) as H2.
  assert (X : forall v' u', Rst c (vv, wuw w) (v', u') -> ob c v' = None ->
                            Rw c w (put_vec v None (wuw (put_vec v (Some v') u' w)) (put_vec v (Some v') u' w))).
  { intros v' u' (es & A0 & V & L & _) Hn. cbn [fst snd] in *. unfold put_vec at 1 3. cbn [wv wuw].
    rewrite set_nth_twice. rewrite Hn in L.
    apply (Rw_put_gen c w v es None u' (ob c vv) None []); auto.
    rewrite (get_vec_nth _ _ _ Hg), app_nil_r. reflexivity. }
  destruct (drop_vec c (vv, wuw w)) as [a [v' u']|p [v' u']|f]; auto.
Qed.

Lemma wp_exec_clone c v dst : wpres c (exec c (OClone v dst)).
Proof.
  cbn [exec]. apply l_bind; [apply l_peek|intros sv]. intros w.
  pose proof (clone_vec_new c sv sv (wuw w)) as H.
  destruct (clone_vec c sv (sv, wuw w)) as [a [nv u]|p [nv u]|f]; auto.
  - eapply Rw_new; eauto.
  - eapply Rw_gone; eauto.
Qed.
Lemma wp_build_into c bk sv dst :
  wpres c ((fun w => match mem_build c bk (sv, wuw w) with
                     | Ok _ (nv, u) => Ok (0, []) (put_vec dst (Some nv) u w)
                     | Panic p (_, u) => Panic p {| wv := wv w; wuw := u |}
                     | Fault f => Fault f
                     end) : M world (N * list N)).
Proof.
  intros w. pose proof (mem_build_new c bk sv (wuw w)) as H.
  destruct (mem_build c bk (sv, wuw w)) as [a [nv u]|p [nv u]|f]; auto.
  - destruct H as [H _]. eapply Rw_new; eauto.
  - injection H as _ ->. destruct w; apply Rw_refl.
Qed.


Lemma wp_exec_clone_empty c v dst : wpres c (exec c (OCloneEmpty v dst)).
Proof. cbn [exec]. apply l_bind; [apply l_peek|intros sv]. apply wp_build_into. Qed.
Lemma wp_exec_clone_empty_in c v dst bk : wpres c (exec c (OCloneEmptyIn v dst bk)).
Proof. cbn [exec]. apply l_bind; [apply l_peek|intros sv]. apply wp_build_into. Qed.

(** the caller's own clone of a vector: built from nothing, returned entirely *)
Lemma l_clone_and_drop c n : wpres c (clone_and_drop c n).
Proof.
  intros w. unfold clone_and_drop. destruct (get_vec n w) as [cv|]; [|apply Rw_refl].
  pose proof (clone_vec_new c cv cv (wuw w)) as H.
  destruct (clone_vec c cv (cv, wuw w)) as [a [cl u]|p [cl u]|f]; auto.
  - pose proof (l_drop_vec c (cl, u)) as H1. pose proof (drop_vec_none c (cl, u)) as H2.
    destruct (drop_vec c (cl, u)) as [b [v' u']|p [v' u']|f]; auto;
      (eapply Rw_gone; apply Rnew_gone; [eapply Rnew_Rst; eauto|exact H2]).
  - eapply Rw_gone; eauto.
Qed.
Lemma live_blocks_app c l1 l2 : live_blocks c (l1 ++ l2) = live_blocks c l1 ++ live_blocks c l2.
Proof. unfold live_blocks. apply flat_map_app. Qed.
(** the scratch slot goes out of scope (whatever it still owned is the caller's leak; see [clone_in_returns]) *)
Lemma Rw_strip c w n : Rw c w {| wv := firstn n (wv w); wuw := wuw w |}.
Proof.
  exists [], (live_blocks c (skipn n (wv w))). cbn [wv wuw]. split; [reflexivity|]. split; [constructor|].
  intros L. constructor. rewrite <- (firstn_skipn n (wv w)) at 1. rewrite live_blocks_app, <- app_assoc. reflexivity.
Qed.
Lemma wp_exec_clone_in c v bk k : wpres c (exec c (OCloneIn v bk k)).
Proof.
  cbn [exec]. apply l_bind; [apply l_peek|intros sv]. intros w.
  pose proof (mem_build_new c bk sv (wuw w)) as H.
  destruct (mem_build c bk (sv, wuw w)) as [a [nv u]|p [nv u]|f]; auto.
  2:{ injection H as _ ->. destruct w; apply Rw_refl. }
  destruct H as [H _]. pose proof (Rw_new c w (length (wv w)) sv nv u H) as H1.
  set (w1 := put_vec (length (wv w)) (Some nv) u w) in *.
  pose proof (wp_clone_in_run c _ _ (ledger_ok c) (length (wv w)) k (l_clone_and_drop c) w1) as H2.
  match goal with |- match (match ?m w1 with _ => _ end) with _ => _ end => destruct (m w1) as [r w2|p w2|f] end; auto;
    (eapply Rw_trans; [exact H1|]; eapply Rw_trans; [exact H2|]; apply Rw_strip).
Qed.

(** ** EVERY script step, whatever the operation and its outcome *)
Theorem exec_ledger c o : wpres c (exec c o).
Proof.
  destruct (regular o) eqn:Hr; [exact (exec_regular c _ _ (ledger_ok c) o Hr)|].
  destruct o; try discriminate.
  - apply wp_exec_new.
  - apply wp_exec_withcap.
  - apply wp_exec_dropvec.
  - apply wp_exec_clone.
  - apply wp_exec_clone_empty.
  - apply wp_exec_clone_empty_in.
  - apply wp_exec_clone_in.
Qed.
(** ... as [run_step] runs it: fresh log, any fuse; a fault (never reached, by the other theorems) leaves the
    world as it was *)
Definition step_events (c : cfg) (fuse : option N) (o : op) (w : world) : list event :=
  world_events (sr_world (run_step c fuse o w)).

Theorem step_ledger c fuse o w :
  Forall valid_request (step_events c fuse o w) /\
  exists lk, forall L,
    greplay (live_blocks c (wv w) ++ L) (step_events c fuse o w)
            (live_blocks c (wv (sr_world (run_step c fuse o w))) ++ lk ++ L).
Proof.
  unfold step_events, run_step, world_events.
  set (w0 := {| wv := wv w; wuw := {| ulog := []; unext := unext (wuw w); ufuse := fuse |} |}).
  pose proof (exec_ledger c o w0) as H.
  assert (X : forall w', Rw c w0 w' ->
     Forall valid_request (rev (ulog (disarm (wuw w')))) /\
     exists lk, forall L, greplay (live_blocks c (wv w) ++ L) (rev (ulog (disarm (wuw w')))) (live_blocks c (wv w') ++ lk ++ L)).
  { intros w' (es & lk & A0 & V & G). unfold appended in A0. cbn [w0 wuw ulog disarm] in *.
    rewrite app_nil_r in A0. rewrite A0, rev_involutive. split; [exact V|]. exists lk. exact G. }
  destruct (exec c o w0) as [[out r] w'|p w'|f]; cbn [sr_world wv wuw]; auto.
  cbn [w0 wuw disarm ulog rev]. split; [constructor|]. exists []. intros L. constructor. reflexivity.
Qed.

(** ** Whole histories, from the empty world: every step may carry a fuse *)
Fixpoint run_steps (c : cfg) (steps : list (option N * op)) (w : world) : list event * world :=
  match steps with
  | [] => ([], w)
  | (fuse, o) :: rest =>
      let w1 := sr_world (run_step c fuse o w) in
      let '(es, w') := run_steps c rest w1 in
      (step_events c fuse o w ++ es, w')
  end.

Theorem steps_ledger c steps : forall w,
  let '(es, w') := run_steps c steps w in
  Forall valid_request es /\
  exists lk, forall L, greplay (live_blocks c (wv w) ++ L) es (live_blocks c (wv w') ++ lk ++ L).
Proof.
  induction steps as [|[fuse o] rest IH]; intros w; cbn [run_steps].
  - split; [constructor|]. exists []. intros L. constructor. reflexivity.
  - specialize (IH (sr_world (run_step c fuse o w))).
    destruct (run_steps c rest (sr_world (run_step c fuse o w))) as [es w'].
    destruct IH as (V2 & lk2 & G2). destruct (step_ledger c fuse o w) as (V1 & lk1 & G1).
    split; [apply Forall_app; auto|]. exists (lk2 ++ lk1). intros L.
    eapply greplay_app; [apply G1|]. rewrite <- app_assoc. apply G2.
Qed.

(** C18 along every history: all the allocator ever sees, from the first step on, are valid requests that
    replay against the multiset of live blocks starting EMPTY - every reallocation and deallocation presents
    the layout of a block live at that moment -, and what is live at the end is what the vectors of the
    final world own, plus the blocks of vectors the script overwrote *)
Theorem history_ledger c steps :
  let '(es, w') := run_steps c steps init_world in
  Forall valid_request es /\ exists lk, greplay [] es (live_blocks c (wv w') ++ lk).
Proof.
  pose proof (steps_ledger c steps init_world) as H.
  destruct (run_steps c steps init_world) as [es w']. destruct H as (V & lk & G). split; [exact V|].
  exists lk. specialize (G []). cbn [init_world wv live_blocks flat_map app] in G. rewrite app_nil_r in G. exact G.
Qed.

(** what a replay guarantees, event by event *)
Lemma greplay_nil_inv l l' : greplay l [] l' -> Permutation l l'.
Proof. inversion 1; assumption. Qed.
(** a history whose replay ends with no live block has returned everything it took: allocations and
    deallocations balance *)
Definition is_alloc (e : event) : bool := match e with EAlloc _ _ => true | _ => false end.
Definition is_dealloc (e : event) : bool := match e with EDealloc _ _ => true | _ => false end.
Lemma greplay_count l es l' : greplay l es l' ->
  (length l + length (filter is_alloc es) = length l' + length (filter is_dealloc es))%nat.
Proof.
  induction 1 as [l l' Hp|l s a es l' Hs H IH|l s a l0 es l' Hp H IH|l o a n l0 es l' Hp Hn H IH|l e es l' He H IH];
    cbn [filter is_alloc is_dealloc length].
  - rewrite (Permutation_length Hp). lia.
  - cbn [length] in IH. lia.
  - rewrite (Permutation_length Hp). cbn [length]. lia.
  - rewrite (Permutation_length Hp). cbn [length] in *. lia.
  - destruct e; cbn in *; try discriminate; lia.
Qed.

(** C11 along every history: a world whose vectors all live on the stack backends, the Empty backend or the
    user-defined backend owns no block *)
Lemma live_blocks_nonheap c l :
  Forall (fun o => match o with Some v => vbk v <> BHeap | None => True end) l -> live_blocks c l = [].
Proof.
  induction 1 as [|o l Ho Hl IH]; [reflexivity|]. unfold live_blocks in *. cbn [flat_map]. rewrite IH, app_nil_r.
  destruct o as [v|]; [|reflexivity]. cbn [slot_blocks]. rewrite (ob_nonheap c v Ho). reflexivity.
Qed.

(** non-vacuity: a history with growth, shrinking to zero, a clone, a panicking destructor inside clear, an
    overwritten vector (leaked by the script) and drops; its events replay, and the live blocks at the end are
    the block of the one heap vector still there plus the overwritten one *)
Definition lx_cfg : cfg := {| c_sz := 3; c_al := 1; c_dg := true; c_cl := true; c_trap := true; c_ty := 1 |}.
Definition lx_steps : list (option N * op) :=
  [ (None, ONew 0 BHeap); (None, OPush Erased 0 SWrap); (None, OPush Erased 0 SWrap); (None, OPush Erased 0 SWrap);
    (None, OClone 0 1); (Some 1, OClear Erased 0); (None, OShrinkToFit 0); (None, OReserve 0 9);
    (None, ONew 2 (BStackN 2 8)); (None, OPush Erased 2 SWrap);
    (None, ONew 0 BHeap);                      (* overwrites vector 0: its block is the script's leak *)
    (None, OPush Erased 0 SWrap); (None, ODropVec 1) ].
Example lx_events :
  filter alloc_event (fst (run_steps lx_cfg lx_steps init_world))
  = [EAlloc 3 1; ERealloc 3 1 6; ERealloc 6 1 12; EAlloc 9 1; EDealloc 12 1; EAlloc 27 1; EAlloc 3 1; EDealloc 9 1]
  /\ live_blocks lx_cfg (wv (snd (run_steps lx_cfg lx_steps init_world))) = [(3, 1)].
Proof. vm_compute. split; reflexivity. Qed.



(** the operations of the vector machine, bundled *)
Theorem vector_ops_ledger c :
  (forall n, spres c (reserve c n)) /\ (forall n, spres c (reserve_exact c n)) /\
  spres c (shrink_to_fit c) /\ (forall n, spres c (shrink_to c n)) /\
  (forall s, spres c (push_unchecked c s)) /\ (forall i s, spres c (insert_unchecked c i s)) /\
  spres c (clear c) /\ spres c (drop_vec c) /\ (forall n, spres c (set_len c n)) /\
  (forall k i, spres c (temp_new c k i)) /\ (forall k h, spres c (temp_consume c k h)) /\ (forall k h, spres c (temp_drop c k h)) /\
  (forall s e, spres c (drain_new c s e)) /\ (forall k d, spres c (drain_drop c k d)) /\
  (forall k d cl its, spres c (splice_drop c k d cl its)) /\
  (forall p bs, spres c (write_ptr c p bs)) /\ (forall p, spres c (read_ptr c p)).
Proof.
  pose proof (ledger_ok c) as OK. repeat split; intros.
  - apply (sp_reserve c _ _ OK).
  - apply (sp_reserve_exact c _ _ OK).
  - apply (sp_shrink_to_fit c _ _ OK).
  - apply (sp_shrink_to c _ _ OK).
  - apply (sp_push_unchecked c _ _ OK).
  - apply (sp_insert_unchecked c _ _ OK).
  - apply (sp_clear c _ _ OK).
  - apply (sp_drop_vec c _ _ OK).
  - apply (sp_set_len c _ _ OK).
  - apply (sp_temp_new c _ _ OK).
  - apply (sp_temp_consume c _ _ OK).
  - apply (sp_temp_drop c _ _ OK).
  - apply (sp_drain_new c _ _ OK).
  - apply (sp_drain_drop c _ _ OK).
  - apply (sp_splice_drop c _ _ OK).
  - apply (sp_write_ptr c _ _ OK).
  - apply (sp_read_ptr c _ _ OK).
Qed.

(** ** Instance 2 (C11): vectors that are not heap-backed cause no allocator traffic - in any history *)
Definition noalloc (es : list event) : Prop := forallb (fun e => negb (alloc_event e)) es = true.
Lemma noalloc_app a b : noalloc a -> noalloc b -> noalloc (a ++ b).
Proof. unfold noalloc. intros Ha Hb. rewrite forallb_app, Ha, Hb. reflexivity. Qed.

Definition Rna (s s' : st) : Prop :=
  vbk (fst s') = vbk (fst s) /\
  (vbk (fst s) <> BHeap -> exists es, appended (snd s) (snd s') es /\ noalloc es).
Lemma Rna_refl s : Rna s s.
Proof. split; [reflexivity|]. intros _. exists []. split; reflexivity. Qed.
Lemma Rna_trans a b d : Rna a b -> Rna b d -> Rna a d.
Proof.
  intros [B1 H1] [B2 H2]. split; [congruence|]. intros Hn.
  destruct (H1 Hn) as (e1 & A1 & N1). destruct H2 as (e2 & A2 & N2); [congruence|].
  exists (e1 ++ e2). split; [|apply noalloc_app; assumption].
  unfold appended in *. rewrite A2, A1, rev_app_distr, app_assoc. reflexivity.
Qed.
Lemma Rna_setv f : (forall v, vcap (f v) = vcap v /\ vbk (f v) = vbk v) -> pres Rna (setv f).
Proof. intros H [v u]. cbn. split; [apply H|]. intros _. exists []. split; reflexivity. Qed.
Lemma Rna_emit e : alloc_event e = false -> pres Rna (emitv e).
Proof.
  intros H [v u]. cbn. split; [reflexivity|]. intros _. exists [e]. split; [reflexivity|].
  unfold noalloc. cbn. rewrite H. reflexivity.
Qed.
Lemma Rna_log v u v' u' u1 u1' :
  ulog u1 = ulog u -> ulog u1' = ulog u' -> Rna (v, u) (v', u') -> Rna (v, u1) (v', u1').
Proof.
  intros E1 E2 [B H]. split; [exact B|]. intros Hn. destruct (H Hn) as (es & A0 & N0). exists es. split; [|exact N0].
  unfold appended in *. cbn [fst snd] in *. congruence.
Qed.
Lemma Rna_heap c n v u : vbk v = BHeap ->
  match heap_resize c n (v, u) with Ok _ s' => Rna (v, u) s' | Panic _ s' => Rna (v, u) s' | Fault _ => True end.
Proof.
  intros Hb. pose proof (heap_resize_ledger c v u n Hb) as H.
  destruct (heap_resize c n (v, u)) as [a [v' u']|p [v' u']|f]; auto.
  - destruct H as (es & _ & _ & _ & _ & Hb'). split; [cbn; congruence|]. cbn [fst]. intros Hn. contradiction.
  - destruct H as [-> ->]. apply Rna_refl.
Qed.
Lemma Rna_reloc c n v u e : alloc_event e = false ->
  match reloc_resize c n (v, emit e u) with
  | Ok _ s' => Rna (v, u) s' | Panic _ s' => Rna (v, u) s' | Fault _ => True end.
Proof.
  intros He. unfold reloc_resize, bind, getv, of_ovf, of_opt. cbn [fst snd].
  assert (X : forall v', vbk v' = vbk v -> Rna (v, u) (v', emit e u)).
  { intros v' Hb. split; [exact Hb|]. intros _. exists [e]. split; [reflexivity|]. unfold noalloc. cbn. rewrite He. reflexivity. }
  destruct (checked_mul (c_sz c) n) as [nb|]; [|apply X; reflexivity]. unfold ret.
  destruct (alloc_limit <? nb); [apply X; reflexivity|]. unfold setv. cbn [fst snd]. apply X. reflexivity.
Qed.
Lemma Rna_mem_resize c n : pres Rna (mem_resize c n).
Proof.
  intros [v u]. unfold mem_resize, bind, getv. cbn [fst snd]. destruct (vbk v) eqn:Hb; try exact I.
  - apply Rna_heap. exact Hb.
  - unfold emitv. cbn [fst snd]. apply Rna_reloc. reflexivity.
Qed.
Lemma Rna_mem_expand c n : pres Rna (mem_expand c n).
Proof.
  intros [v u]. unfold mem_expand, bind, getv. cbn [fst snd]. destruct (vbk v) eqn:Hb; try apply Rna_refl.
  - unfold of_ovf, of_opt. destruct (checked_add (vcap v) n); [|apply Rna_refl]. unfold ret. apply Rna_heap. exact Hb.
  - unfold emitv. cbn [fst snd]. unfold of_ovf, of_opt. destruct (checked_add (vcap v) n) as [rq|].
    + unfold ret. apply Rna_reloc. reflexivity.
    + unfold raise. pose proof (Rna_emit (EExpand n) eq_refl (v, u)) as X. exact X.
Qed.
Lemma Rna_mem_drop c : pres Rna (mem_drop c).
Proof.
  intros [v u]. unfold mem_drop, bind, getv. cbn [fst snd]. destruct (vbk v) eqn:Hb; try apply Rna_refl.
  - apply Rna_heap. exact Hb.
  - pose proof (Rna_emit EMemDrop eq_refl (v, u)) as X. exact X.
Qed.

Definition nonheap_slot (o : option vec) : Prop := match o with Some v => vbk v <> BHeap | None => True end.
Definition heapless (l : list (option vec)) : Prop := Forall nonheap_slot l.
Lemma heapless_set_nth o : nonheap_slot o -> forall n l, heapless l -> heapless (set_nth n o None l).
Proof.
  intros Ho. induction n as [|n IH]; intros l Hl; destruct l as [|x l]; cbn [set_nth].
  - constructor; [exact Ho|constructor].
  - inversion Hl; subst. constructor; assumption.
  - constructor; [exact I|]. apply IH. constructor.
  - inversion Hl; subst. constructor; [assumption|]. apply IH. assumption.
Qed.
Lemma heapless_get vid w v : heapless (wv w) -> get_vec vid w = Some v -> vbk v <> BHeap.
Proof.
  unfold get_vec. intros Hl. destruct (nth_error (wv w) vid) as [[x|]|] eqn:E; try discriminate. intros H. injection H as ->.
  apply nth_error_In in E. unfold heapless in Hl. rewrite Forall_forall in Hl. exact (Hl _ E).
Qed.

Definition Rw2 (w w' : world) : Prop :=
  heapless (wv w) -> heapless (wv w') /\ exists es, appended (wuw w) (wuw w') es /\ noalloc es.
Lemma Rw2_refl w : Rw2 w w.
Proof. intros H. split; [exact H|]. exists []. split; reflexivity. Qed.
Lemma Rw2_trans a b d : Rw2 a b -> Rw2 b d -> Rw2 a d.
Proof.
  intros H1 H2 Ha. destruct (H1 Ha) as (Hb & e1 & A1 & N1). destruct (H2 Hb) as (Hd & e2 & A2 & N2).
  split; [exact Hd|]. exists (e1 ++ e2). split; [|apply noalloc_app; assumption].
  unfold appended in *. rewrite A2, A1, rev_app_distr, app_assoc. reflexivity.
Qed.
Lemma Rw2_log w w' u1 u1' : ulog u1 = ulog (wuw w) -> ulog u1' = ulog (wuw w') -> Rw2 w w' ->
  Rw2 {| wv := wv w; wuw := u1 |} {| wv := wv w'; wuw := u1' |}.
Proof.
  intros E1 E2 H Hl. cbn [wv wuw] in *. destruct (H Hl) as (Hl' & es & A0 & N0). split; [exact Hl'|]. exists es.
  split; [|exact N0]. unfold appended in *. congruence.
Qed.
Lemma Rw2_emit w u' e : alloc_event e = false -> ulog u' = e :: ulog (wuw w) -> Rw2 w {| wv := wv w; wuw := u' |}.
Proof.
  intros He Hu Hl. cbn [wv wuw]. split; [exact Hl|]. exists [e]. split; [exact Hu|]. unfold noalloc. cbn. rewrite He. reflexivity.
Qed.
Lemma Rw2_on_vec A vid (m : M st A) : pres Rna m -> pres Rw2 (on_vec vid m).
Proof.
  intros Hm w. unfold on_vec. destruct (get_vec vid w) as [v|] eqn:Hg; [|apply Rw2_refl].
  specialize (Hm (v, wuw w)).
  assert (X : forall v' u', Rna (v, wuw w) (v', u') -> Rw2 w (put_vec vid (Some v') u' w)).
  { intros v' u' [B H] Hl. cbn [fst snd] in *. pose proof (heapless_get _ _ _ Hl Hg) as Hn.
    unfold put_vec. cbn [wv wuw]. split; [|exact (H Hn)].
    apply heapless_set_nth; [cbn; congruence|exact Hl]. }
  destruct (m (v, wuw w)) as [a [v' u']|p [v' u']|f]; auto.
Qed.
Lemma noalloc_ok c : rel_ok c Rna Rw2.
Proof.
  constructor.
  - apply Rna_refl.
  - apply Rna_trans.
  - apply Rna_setv.
  - apply Rna_emit.
  - apply Rna_log.
  - apply Rna_mem_resize.
  - apply Rna_mem_expand.
  - apply Rna_mem_drop.
  - apply Rw2_refl.
  - apply Rw2_trans.
  - apply Rw2_log.
  - apply Rw2_emit.
  - apply Rw2_on_vec.
Qed.

(** building storage on any backend never talks to the allocator (Heap allocates lazily) *)
Lemma mem_build_na c bk v0 u :
  match mem_build c bk (v0, u) with
  | Ok _ (v', u') => vbk v' = bk /\ exists es, appended u u' es /\ noalloc es
  | Panic _ s' => s' = (v0, u)
  | Fault _ => True
  end.
Proof.
  unfold mem_build. destruct bk as [|size|n size| |c0]; cbn [setv fst snd];
    try (split; [reflexivity|]; exists []; split; reflexivity).
  - destruct (stackn_fits n (c_sz c) size); cbn; [|reflexivity]. split; [reflexivity|]. exists []. split; reflexivity.
  - unfold bind, emitv, setv. cbn [fst snd]. split; [reflexivity|]. exists [EBuild (c_sz c) (c_al c)]. split; reflexivity.
Qed.

Lemma clone_vec_na c src v u : vbk src <> BHeap ->
  match clone_vec c src (v, u) with
  | Ok _ (v', u') => vbk v' = vbk src /\ exists es, appended u u' es /\ noalloc es
  | Panic _ (v', u') => True /\ exists es, appended u u' es /\ noalloc es
  | Fault _ => True
  end.
Proof.
  intros Hn. unfold clone_vec. unfold bind at 1. pose proof (mem_build_na c (vbk src) v u) as H.
  destruct (mem_build c (vbk src) (v, u)) as [a [v1 u1]|p [v1 u1]|f]; auto.
  2:{ injection H as -> ->. split; [exact I|]. exists []. split; reflexivity. }
  destruct H as (Hb & e1 & A1 & N1).
  pose proof (sp_clone_body c _ _ (noalloc_ok c) src (v1, u1)) as H2.
  assert (X : forall v2 u2, Rna (v1, u1) (v2, u2) -> vbk v2 = vbk src /\ exists es, appended u u2 es /\ noalloc es).
  { intros v2 u2 [B H]. cbn [fst snd] in *. split; [congruence|]. destruct H as (e2 & A2 & N2); [congruence|].
    exists (e1 ++ e2). split; [|apply noalloc_app; assumption].
    unfold appended in *. rewrite A2, A1, rev_app_distr, app_assoc. reflexivity. }
  match goal with |- match ?m (v1, u1) with _ => _ end => destruct (m (v1, u1)) as [b [v2 u2]|p [v2 u2]|f] end.
  - exact (X v2 u2 H2).
  - destruct (X v2 u2 H2) as [_ He]. split; [exact I|exact He].
  - exact I.
Qed.

Definition heapfree_op (o : op) : Prop :=
  match o with
  | ONew _ bk | OWithCapacity _ bk _ | OCloneEmptyIn _ _ bk | OCloneIn _ bk _ => bk <> BHeap
  | _ => True
  end.

Lemma Rw2_build c bk sv dst w : (heapless (wv w) -> bk <> BHeap) ->
  match mem_build c bk (sv, wuw w) with
  | Ok _ (nv, u) => Rw2 w (put_vec dst (Some nv) u w)
  | Panic p (_, u) => Rw2 w {| wv := wv w; wuw := u |}
  | Fault f => True
  end.
Proof.
  intros Hbk. pose proof (mem_build_na c bk sv (wuw w)) as H.
  destruct (mem_build c bk (sv, wuw w)) as [a [nv u]|p [nv u]|f]; auto.
  - destruct H as (Hb & es & A0 & N0). intros Hl. unfold put_vec. cbn [wv wuw]. split; [|eauto].
    apply heapless_set_nth; [cbn; rewrite Hb; exact (Hbk Hl)|exact Hl].
  - injection H as _ ->. destruct w; apply Rw2_refl.
Qed.

Lemma na_clone_and_drop c n : pres Rw2 (clone_and_drop c n).
Proof.
  intros w. unfold clone_and_drop. destruct (get_vec n w) as [cv|] eqn:Hg; [|apply Rw2_refl].
  pose proof (clone_vec_na c cv cv (wuw w)) as H.
  destruct (clone_vec c cv (cv, wuw w)) as [a [cl u]|p [cl u]|f]; auto.
  - pose proof (sp_drop_vec c _ _ (noalloc_ok c) (cl, u)) as H1.
    assert (X : forall v' u', Rna (cl, u) (v', u') -> Rw2 w {| wv := wv w; wuw := u' |}).
    { intros v' u' [_ H2] Hl. cbn [wv wuw fst snd] in *. split; [exact Hl|].
      destruct (H (heapless_get _ _ _ Hl Hg)) as (Hb & e1 & A1 & N1).
      destruct H2 as (e2 & A2 & N2); [rewrite Hb; exact (heapless_get _ _ _ Hl Hg)|].
      exists (e1 ++ e2). split; [|apply noalloc_app; assumption].
      unfold appended in *. rewrite A2, A1, rev_app_distr, app_assoc. reflexivity. }
    destruct (drop_vec c (cl, u)) as [b [v' u']|p [v' u']|f]; auto; exact (X v' u' H1).
  - intros Hl. cbn [wv wuw]. split; [exact Hl|]. exact (proj2 (H (heapless_get _ _ _ Hl Hg))).
Qed.
Lemma heapless_firstn n l : heapless l -> heapless (firstn n l).
Proof. unfold heapless. revert l. induction n as [|n IH]; intros l H; destruct l; cbn [firstn]; auto. inversion H; subst. constructor; auto. Qed.

Theorem exec_noalloc c o : heapfree_op o -> pres Rw2 (exec c o).
Proof.
  intros Hop. destruct (regular o) eqn:Hr; [exact (exec_regular c _ _ (noalloc_ok c) o Hr)|].
  pose proof (noalloc_ok c) as OK.
  destruct o; try discriminate; cbn [heapfree_op] in Hop; cbn [exec].
  - (* ONew *) intros w. pose proof (Rw2_build c bk {| vlen := 0; vcap := 0; vmem := []; vgen := 0; vbk := bk |} dst w (fun _ => Hop)) as H.
    destruct (mem_build c bk ({| vlen := 0; vcap := 0; vmem := []; vgen := 0; vbk := bk |}, wuw w)) as [a [nv u]|p [nv u]|f]; exact H.
  - (* OWithCapacity *)
    intros w. set (v0 := {| vlen := 0; vcap := 0; vmem := []; vgen := 0; vbk := bk |}).
    unfold bind. pose proof (mem_build_na c bk v0 (wuw w)) as H.
    destruct (mem_build c bk (v0, wuw w)) as [a [v1 u1]|p [v1 u1]|f]; auto.
    2:{ injection H as _ ->. destruct w; apply Rw2_refl. }
    destruct H as (Hb & e1 & A1 & N1).
    pose proof (sp_unwinding c _ _ OK _ _ (Rna_mem_resize c n) (Rna_mem_drop c) (v1, u1)) as H2.
    assert (X : forall v2 u2, Rna (v1, u1) (v2, u2) -> vbk v2 <> BHeap /\ exists es, appended (wuw w) u2 es /\ noalloc es).
    { intros v2 u2 [B H]. cbn [fst snd] in *. split; [congruence|]. destruct H as (e2 & A2 & N2); [congruence|].
      exists (e1 ++ e2). split; [|apply noalloc_app; assumption].
      unfold appended in *. rewrite A2, A1, rev_app_distr, app_assoc. reflexivity. }
    destruct (unwinding_st (mem_resize c n) (mem_drop c) (v1, u1)) as [b [v2 u2]|p [v2 u2]|f]; auto; intros Hl;
      destruct (X v2 u2 H2) as [Hn He].
    + unfold put_vec. cbn [wv wuw]. split; [|exact He]. apply heapless_set_nth; [exact Hn|exact Hl].
    + cbn [wv wuw]. split; [exact Hl|exact He].
  - (* ODropVec *)
    intros w. destruct (get_vec v w) as [vv|] eqn:Hg; [|apply Rw2_refl].
    pose proof (wp_on_vec c _ _ OK v _ (sp_drop_vec c _ _ OK) w) as H.
    assert (X : forall w', Rw2 w w' -> Rw2 w (put_vec v None (wuw w') w')).
    { intros w' Hw Hl. destruct (Hw Hl) as (Hl' & He). unfold put_vec. cbn [wv wuw]. split; [|exact He].
      apply heapless_set_nth; [exact I|exact Hl']. }
    destruct (on_vec v (drop_vec c) w); auto.
  - (* OClone *)
    intros w. unfold bind, peek_vec. destruct (get_vec v w) as [sv|] eqn:Hg; [|apply Rw2_refl].
    pose proof (clone_vec_na c sv sv (wuw w)) as H.
    destruct (clone_vec c sv (sv, wuw w)) as [a [nv u]|p [nv u]|f]; auto; intros Hl;
      destruct (H (heapless_get _ _ _ Hl Hg)) as (Hb & He).
    + unfold put_vec. cbn [wv wuw]. split; [|exact He]. apply heapless_set_nth; [cbn; rewrite Hb; exact (heapless_get _ _ _ Hl Hg)|exact Hl].
    + cbn [wv wuw]. split; [exact Hl|exact He].
  - (* OCloneEmpty *)
    intros w. unfold bind, peek_vec. destruct (get_vec v w) as [sv|] eqn:Hg; [|apply Rw2_refl].
    pose proof (Rw2_build c (vbk sv) sv dst w (fun Hl => heapless_get _ _ _ Hl Hg)) as H.
    destruct (mem_build c (vbk sv) (sv, wuw w)) as [a [nv u]|p [nv u]|f]; exact H.
  - (* OCloneEmptyIn *)
    intros w. unfold bind, peek_vec. destruct (get_vec v w) as [sv|] eqn:Hg; [|apply Rw2_refl].
    pose proof (Rw2_build c bk sv dst w (fun _ => Hop)) as H.
    destruct (mem_build c bk (sv, wuw w)) as [a [nv u]|p [nv u]|f]; exact H.
  - (* OCloneIn *)
    intros w. unfold bind at 1. unfold peek_vec. destruct (get_vec v w) as [sv|] eqn:Hg; [|apply Rw2_refl].
    pose proof (Rw2_build c bk sv (length (wv w)) w (fun _ => Hop)) as H1.
    destruct (mem_build c bk (sv, wuw w)) as [a [nv u]|p [nv u]|f]; auto.
    set (w1 := put_vec (length (wv w)) (Some nv) u w) in *.
    pose proof (wp_clone_in_run c _ _ OK (length (wv w)) k (na_clone_and_drop c) w1) as H2.
    assert (X : forall w2, Rw2 w1 w2 -> Rw2 w {| wv := firstn (length (wv w)) (wv w2); wuw := wuw w2 |}).
    { intros w2 Hw Hl. destruct (H1 Hl) as (Hl1 & e1 & A1 & N1). destruct (Hw Hl1) as (Hl2 & e2 & A2 & N2).
      cbn [wv wuw]. split; [apply heapless_firstn; exact Hl2|].
      exists (e1 ++ e2). split; [|apply noalloc_app; assumption].
      unfold appended in *. rewrite A2, A1, rev_app_distr, app_assoc. reflexivity. }
    match goal with |- match (match ?m w1 with _ => _ end) with _ => _ end => destruct (m w1) as [r w2|p w2|f] end; auto.
Qed.

Theorem step_noalloc c fuse o w :
  heapless (wv w) -> heapfree_op o ->
  heapless (wv (sr_world (run_step c fuse o w))) /\ noalloc (step_events c fuse o w).
Proof.
  intros Hl Hop. unfold step_events, run_step, world_events.
  set (w0 := {| wv := wv w; wuw := {| ulog := []; unext := unext (wuw w); ufuse := fuse |} |}).
  pose proof (exec_noalloc c o Hop w0) as H.
  assert (X : forall w', Rw2 w0 w' -> heapless (wv w') /\ noalloc (rev (ulog (disarm (wuw w'))))).
  { intros w' Hw. destruct (Hw Hl) as (Hl' & es & A0 & N0). split; [exact Hl'|].
    unfold appended in A0. cbn [w0 wuw ulog disarm] in *. rewrite app_nil_r in A0. rewrite A0, rev_involutive. exact N0. }
  destruct (exec c o w0) as [[out r] w'|p w'|f]; cbn [sr_world wv wuw]; auto.
  cbn [w0 wuw disarm ulog rev wv]. split; [exact Hl|reflexivity].
Qed.

(** C11 along every history: as long as the script builds no heap-backed vector, no step of it - whatever
    the operations, outcomes and armed panic fuses - makes the allocator see a single request *)
Theorem history_noalloc c steps : forall w,
  heapless (wv w) -> Forall (fun fo => heapfree_op (snd fo)) steps ->
  noalloc (fst (run_steps c steps w)) /\ heapless (wv (snd (run_steps c steps w))).
Proof.
  induction steps as [|[fuse o] rest IH]; intros w Hl Hops; cbn [run_steps].
  - split; [reflexivity|exact Hl].
  - inversion Hops as [|x l Ho Hrest]; subst. cbn [snd] in Ho.
    destruct (step_noalloc c fuse o w Hl Ho) as [Hl1 N1].
    specialize (IH (sr_world (run_step c fuse o w)) Hl1 Hrest).
    destruct (run_steps c rest (sr_world (run_step c fuse o w))) as [es w']. cbn [fst snd] in *.
    destruct IH as [N2 Hl2]. split; [apply noalloc_app; assumption|exact Hl2].
Qed.

(** non-vacuity: a history on StackN<3,16>, the user-defined backend and Empty with growth refused, a clone, a splice, a panicking
    destructor and drops - not one allocator event *)
Definition nx_steps : list (option N * op) :=
  [ (None, ONew 0 (BStackN 3 16)); (None, OPush Erased 0 SWrap); (None, OPush Erased 0 SWrap); (None, OPush Erased 0 SWrap);
    (None, OPush Erased 0 SWrap);                 (* beyond the fixed capacity: panics *)
    (None, OClone 0 1); (None, OWithCapacity 2 (BReloc 2) 5); (None, OPush Erased 2 SWrap); (None, OReserve 0 9);
    (None, OSplice Erased 0 (BIncluded 0) (BExcluded 1) [] FinDrop RWrap 2 None 2);
    (Some 0, OClear Erased 1); (None, ODropVec 0); (None, OCloneEmptyIn 1 3 BEmpty) ].
Example nx_heapfree : Forall (fun fo => heapfree_op (snd fo)) nx_steps.
Proof. repeat constructor; cbn; discriminate. Qed.

Example nx_events :
  fst (run_steps lx_cfg nx_steps init_world)
  = [EDrop 4; EClone 1 5; EClone 2 6; EClone 3 7; EBuild 3 1; EResize 5; EDrop 9; EDrop 10; EDrop 5] /\
  world_lens (snd (run_steps lx_cfg nx_steps init_world)) = [None; Some 0; Some 1; Some 0].
Proof. vm_compute. split; reflexivity. Qed.
