(** C11 - Stack backends hold exactly their stated capacity and never use the heap.

    Capacity of Stack<SIZE> and StackN<N, SIZE> as stated, construction panics when N elements do
    not fit (also when N * size is not representable: defect D17, repaired).  All refinement
    theorems of C01 / C02 / C08 are stated for an arbitrary backend with the side condition
    'len < cap or the backend can grow', so every operation whose result fits behaves exactly as
    on the heap backend; beyond capacity push / insert panic with the state unchanged and splice
    leaves the valid prefix; no step of a fixed-capacity backend emits an allocator event. *)
From AV.Model Require Import Base Bytes Vec Ops.
From AV.Spec Require Import VecSpec.
From AV.Proofs Require Import MemLemmas Rep VecProofs RangeProofs CapProofs CloneProofs.

Theorem C11_stack_capacity :
  forall (c : cfg) (size : N) (v0 : vec) (u : uw),
         exists v' : vec,
           mem_build c (BStack size) (v0, u) = Ok tt (v', u) /\
           vcap v' = (if c_sz c =? 0 then usize_max else size / c_sz c) /\ vlen v' = 0.
Proof. exact stack_capacity. Qed.

Theorem C11_stackn_capacity :
  forall (c : cfg) (n size : N) (v0 : vec) (u : uw),
         (n * c_sz c <= size ->
          n * c_sz c <= usize_max ->
          exists v' : vec, mem_build c (BStackN n size) (v0, u) = Ok tt (v', u) /\ vcap v' = n /\ vlen v' = 0) /\
         (size < n * c_sz c -> mem_build c (BStackN n size) (v0, u) = Panic PStackN (v0, u)).
Proof. exact stackn_capacity. Qed.

Theorem C11_push_beyond :
  forall (c : cfg) (v : vec) (u : uw) (xs : list N) (s : vsrc),
         Rep c v xs ->
         vlen v = vcap v -> fixed_backend (vbk v) -> push_unchecked c s (v, u) = Panic PCapacity (v, u).
Proof. exact push_full_fixed. Qed.

Theorem C11_insert_beyond :
  forall (c : cfg) (v : vec) (u : uw) (xs : list N) (s : vsrc) (i : N),
         Rep c v xs ->
         i <= vlen v ->
         vlen v = vcap v -> fixed_backend (vbk v) -> insert_unchecked c i s (v, u) = Panic PCapacity (v, u).
Proof. exact insert_full_fixed. Qed.

Theorem C11_splice_beyond :
  forall (c : cfg) (v : vec) (u : uw) (xs : list N) (s e i j : nat) (known : bool) 
           (ts : list N) (k : bool),
         RangeAlive c v xs s e i j ->
         ufuse u = None ->
         fixed_backend (vbk v) ->
         let new_len := (s + length ts + (length xs - e))%nat in
         vcap v < N.of_nat new_len ->
         N.of_nat new_len <= usize_max ->
         let d :=
           {|
             dcur := {| ci := N.of_nat i; ce := N.of_nat j |};
             dstart := N.of_nat s;
             dend := N.of_nat e;
             dorig := N.of_nat (length xs)
           |} in
         exists u' : uw,
           splice_drop c known d (N.of_nat (length ts)) (map (fun t : N => honest_item c t k) ts) (v, u) =
           Panic PCapacity (v, u') /\
           Rep c v (firstn s xs) /\ uevents u' = (if c_dg c then rev (map EDrop ts) else []) ++ uevents u.
Proof. exact splice_drop_beyond_fixed. Qed.

Theorem C11_expand_panics :
  forall (c : cfg) (v : vec) (u : uw) (add : N),
         fixed_backend (vbk v) -> mem_expand c add (v, u) = Panic PCapacity (v, u).
Proof. exact mem_expand_fixed. Qed.

Theorem C11_no_allocator_events :
  forall (c : cfg) (bk : bkind) (v0 : vec) (u : uw),
         fixed_backend bk ->
         match mem_build c bk (v0, u) with
         | Ok _ (_, u') | Panic _ (_, u') => u' = u
         | Fault _ => True
         end.
Proof. exact fixed_backend_no_events. Qed.

(** clone on a fixed-capacity backend (first disjunct of the capacity hypothesis) *)
Theorem C11_clone_fits :
  forall (c : cfg) (src : vec) (u : uw) (xs : list N) (v0 : vec),
         cfg_wf c ->
         bk_wf (vbk src) ->
         backend_consistent c src ->
         Rep c src xs ->
         ufuse u = None ->
         fixed_backend (vbk src) \/
         N.of_nat (length xs) <= usize_max /\
         c_sz c *
         grow_target {| vlen := 0; vcap := 0; vmem := []; vgen := 0; vbk := vbk src |} (N.of_nat (length xs)) <=
         alloc_limit ->
         let ys := fresh_ids c (unext u) (length xs) in
         exists (v' : vec) (u' : uw),
           clone_vec c src (v0, u) = Ok tt (v', u') /\
           Rep c v' ys /\
           vbk v' = vbk src /\
           length ys = length xs /\
           unext u' = unext u + N.of_nat (length xs) /\
           ufuse u' = None /\
           uevents u' = rev (clone_events xs ys) ++ uevents u /\
           (fixed_backend (vbk src) -> vcap v' = vcap src).
Proof. exact clone_vec_ok. Qed.

Theorem C11_stackn_pinned_refuted :
  exists n sz size : N,
           n <= usize_max /\
           sz <= usize_max /\
           stackn_fits_pinned false n sz size = Some true /\ ~ n * sz <= size /\ stackn_fits n sz size = false.
Proof. exact stackn_fits_pinned_refuted. Qed.


(* ---- histories ---- *)
From AV.Model Require Import Ops Interp.
From AV.Proofs Require Import Ledger.
(** EVERY HISTORY OF THE MACHINE (AV.Proofs.Ledger, instance 2): a world without heap-backed vectors stays one under every operation of the case language that does not itself build a heap-backed vector ([heapfree_op]), whatever the outcome (ok, panic, any armed panic fuse), and the step appends no allocator event; by induction no history of such steps does. *)
Theorem C11_step_never_allocates :
  forall (c : cfg) (fuse : option N) (o : op) (w : world),
         heapless (wv w) ->
         heapfree_op o -> heapless (wv (sr_world (run_step c fuse o w))) /\ noalloc (step_events c fuse o w).
Proof. exact step_noalloc. Qed.

Theorem C11_history_never_allocates :
  forall (c : cfg) (steps : list (option N * op)) (w : world),
         heapless (wv w) ->
         Forall (fun fo : option N * op => heapfree_op (snd fo)) steps ->
         noalloc (fst (run_steps c steps w)) /\ heapless (wv (snd (run_steps c steps w))).
Proof. exact history_noalloc. Qed.

(** non-vacuity: StackN<3,16> filled beyond its capacity, cloned, spliced beyond it, cleared with a panicking destructor; the user-defined backend and Empty beside it *)
Theorem C11_history_example :
  fst (run_steps lx_cfg nx_steps init_world) =
         [EDrop 4; EClone 1 5; EClone 2 6; EClone 3 7; EBuild 3 1; EResize 5; EDrop 9; EDrop 10; EDrop 5] /\
         world_lens (snd (run_steps lx_cfg nx_steps init_world)) = [None; Some 0; Some 1; Some 0].
Proof. exact nx_events. Qed.

(* ---- end histories ---- *)
Print Assumptions C11_stack_capacity.
Print Assumptions C11_stackn_capacity.
Print Assumptions C11_push_beyond.
Print Assumptions C11_insert_beyond.
Print Assumptions C11_splice_beyond.
Print Assumptions C11_expand_panics.
Print Assumptions C11_no_allocator_events.
Print Assumptions C11_clone_fits.
Print Assumptions C11_stackn_pinned_refuted.
Print Assumptions C11_step_never_allocates.
Print Assumptions C11_history_never_allocates.
Print Assumptions C11_history_example.
