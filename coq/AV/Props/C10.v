(** C10 - Capacity management on resizable storage keeps its promises.

    [Rep] contains len <= capacity, so every theorem of C01/C02/C08 re-establishes it.  reserve /
    reserve_exact: no-op (no event at all) when capacity suffices, capacity >= len + n afterwards,
    panic (both build profiles) when len + n is not representable, contents unchanged; shrink_to /
    shrink_to_fit: exactly min(cap, max(len, m)) on resizable backends - never larger than before,
    never below len - contents unchanged; growth by repeated push doubles: n pushes from empty
    cause at most log2(n) + 2 (re)allocations, for ALL n (the harness can only count up to 2^16). *)
From AV.Model Require Import Base Bytes Vec.
From AV.Spec Require Import VecSpec.
From AV.Proofs Require Import MemLemmas Rep VecProofs CapProofs.

Theorem C10_reserve_noop :
  forall (c : cfg) (v : vec) (u : uw) (xs : list N) (n : N),
         Rep c v xs ->
         vlen v + n <= vcap v -> reserve c n (v, u) = Ok tt (v, u) /\ reserve_exact c n (v, u) = Ok tt (v, u).
Proof. exact reserve_noop. Qed.

Theorem C10_reserve_grows :
  forall (c : cfg) (v : vec) (u : uw) (xs : list N) (n : N),
         cfg_wf c ->
         Rep c v xs ->
         vcap v < vlen v + n ->
         grow_ok c v (vlen v + n) ->
         exists (v' : vec) (u' : uw),
           reserve c n (v, u) = Ok tt (v', u') /\
           Rep c v' xs /\
           vlen v + n <= vcap v' /\ vcap v' = grow_target v (vlen v + n) /\ vbk v' = vbk v /\ same_user u u'.
Proof. exact reserve_grows. Qed.

(** defect D12 (repaired) *)
Theorem C10_reserve_overflow :
  forall (c : cfg) (v : vec) (u : uw) (n : N),
         usize_max < vlen v + n ->
         reserve c n (v, u) = Panic POverflow (v, u) /\ reserve_exact c n (v, u) = Panic POverflow (v, u).
Proof. exact reserve_overflow. Qed.

Theorem C10_reserve_exact_grows :
  forall (c : cfg) (v : vec) (u : uw) (xs : list N) (n : N),
         cfg_wf c ->
         Rep c v xs ->
         resizable_backend (vbk v) ->
         vcap v < vlen v + n ->
         vlen v + n <= usize_max ->
         c_sz c * (vlen v + n) <= alloc_limit ->
         exists (v' : vec) (u' : uw),
           reserve_exact c n (v, u) = Ok tt (v', u') /\
           Rep c v' xs /\ vcap v' = vlen v + n /\ vbk v' = vbk v /\ same_user u u'.
Proof. exact reserve_exact_grows. Qed.

(** defect D5 (repaired): never grows *)
Theorem C10_shrink_to :
  forall (c : cfg) (v : vec) (u : uw) (xs : list N) (m : N),
         cfg_wf c ->
         Rep c v xs ->
         resizable_backend (vbk v) ->
         c_sz c * vcap v <= alloc_limit ->
         exists (v' : vec) (u' : uw),
           shrink_to c m (v, u) = Ok tt (v', u') /\
           Rep c v' xs /\
           vcap v' = N.min (vcap v) (N.max (vlen v) m) /\
           vbk v' = vbk v /\ same_user u u' /\ (vcap v <= N.max (vlen v) m -> v' = v /\ u' = u).
Proof. exact shrink_to_spec. Qed.

Theorem C10_shrink_to_fit :
  forall (c : cfg) (v : vec) (u : uw) (xs : list N),
         cfg_wf c ->
         Rep c v xs ->
         resizable_backend (vbk v) ->
         c_sz c * vcap v <= alloc_limit ->
         exists (v' : vec) (u' : uw),
           shrink_to_fit c (v, u) = Ok tt (v', u') /\
           Rep c v' xs /\ vcap v' = vlen v /\ vbk v' = vbk v /\ same_user u u'.
Proof. exact shrink_to_fit_spec. Qed.

Theorem C10_doubling :
  forall cap : N, 0 < cap -> cap * 2 <= usize_max -> heap_grow1 cap = cap * 2.
Proof. exact heap_grow1_double. Qed.

Theorem C10_push_follows_growth_policy :
  forall (c : cfg) (v : vec) (u : uw) (xs : list N) (t : N) (k : bool),
         cfg_wf c ->
         Rep c v xs ->
         tok_ok (szn c) t ->
         vbk v = BHeap ->
         vlen v < vcap v \/ grow_ok c v (vcap v + 1) ->
         exists (v' : vec) (u' : uw),
           push_unchecked c (VBytes (enc (szn c) t) k) (v, u) = Ok tt (v', u') /\
           vcap v' = (if vlen v =? vcap v then heap_grow1 (vcap v) else vcap v).
Proof. exact push_heap_cap. Qed.

Theorem C10_amortised :
  forall n : nat,
         N.of_nat n * 2 <= usize_max ->
         let '(cap, steps) := push_run n 0 0 0 in N.of_nat n <= cap /\ steps <= N.log2 (N.of_nat n) + 2.
Proof. exact push_run_log. Qed.


(* ---- histories ---- *)
From AV.Model Require Import Interp.
From AV.Spec Require Import WorldSpec.
From AV.Proofs Require Import WorldCore WorldProofs CapHistory.
(** WHOLE HISTORIES: reserve / reserve_exact / shrink_to_fit / shrink_to are part of the history fragment of AV.Props.C01 - in the list specification they leave every vector's elements unchanged (sp_capacity) and C01_history_refines shows the machine agrees, whatever is interleaved with them; and len <= capacity holds for every vector in every state of every history.  The PROMISES of the capacity calls hold at every step of every history of the fragment ([cap_promise]: a reserve / reserve_exact that returns leaves room for n more and changes nothing when there already was, a request whose length is not representable panics rather than returning; shrink_to_fit ends at exactly len, shrink_to(m) at exactly min(capacity, max(len, m)) - never growing, never below len; with_capacity(n) gives exactly n on the resizable backends): the one-call theorems above composed, through the glue of Interp.exec / run_step, with the fact that every state a history passes through is represented. *)
Theorem C10_history_len_le_cap :
  forall (c : cfg) (ops : list op) (w : world) (st : astate) (rs : list sres),
         cfg_wf c ->
         WRep c w st ->
         spec_run c st (unext (wuw w)) ops = Some rs ->
         Admissible c w ops ->
         Forall
           (fun sr : step_result =>
            forall (n : nat) (v : vec), get_vec n (sr_world sr) = Some v -> vlen v <= vcap v)
           (run_hist c ops w).
Proof. exact history_len_le_cap. Qed.

(** one step of the fragment, from any represented world *)
Theorem C10_capacity_call_promise :
  forall (c : cfg) (w : world) (st : astate) (o : op) (r : sres),
         cfg_wf c ->
         WRep c w st ->
         spec_step c st (unext (wuw w)) o = Some r ->
         admissible c w o -> cap_promise c o w (run_step c None o w).
Proof. exact step_cap_promise. Qed.

(** every step of every history of the fragment *)
Theorem C10_history_cap_promises :
  forall (c : cfg) (ops : list op) (w : world) (st : astate) (rs : list sres),
         cfg_wf c ->
         WRep c w st ->
         spec_run c st (unext (wuw w)) ops = Some rs ->
         Admissible c w ops ->
         Forall3 (fun (o : op) (w0 : world) (sr : step_result) => cap_promise c o w0 sr) ops
           (worlds_before c ops w) (run_hist c ops w).
Proof. exact history_cap_promises. Qed.

(** non-vacuity: the 109-step example history (reserve beyond a fixed capacity, reserve, reserve_exact, shrink_to, shrink_to_fit, reserve of usize::MAX, with_capacity on two backends) *)
Theorem C10_history_cap_promises_example :
  Forall3 (fun (o : op) (w0 : world) (sr : step_result) => cap_promise ex_cfg o w0 sr) ex_ops
           (worlds_before ex_cfg ex_ops init_world) (run_hist ex_cfg ex_ops init_world).
Proof. exact ex_cap_promises. Qed.

(** a reserve / reserve_exact whose result would need more bytes than any allocation can have (not representable, or no valid Layout; on the relocating test backend: more than its allocator serves) panics - with the overflow / layout panic the crate documents - BEFORE the backend is asked to move anything: the vector, its capacity and its storage are untouched (inside histories: `WorldSpec.sp_capacity`, `exec_capacity`) *)
Theorem C10_oversized_request_refused :
  forall (c : cfg) (v : vec) (u : uw) (xs : list N) (n : N),
         cfg_wf c ->
         Rep c v xs ->
         resizable_backend (vbk v) ->
         c_sz c * vcap v <= alloc_limit ->
         vlen v + n <= usize_max ->
         layout_limit c (vbk v) < c_sz c * (vlen v + n) ->
         let p := if usize_max <? c_sz c * (vlen v + n) then POverflow else PLayout in
         exists u1 u2 : uw,
           reserve c n (v, u) = Panic p (v, u1) /\
           reserve_exact c n (v, u) = Panic p (v, u2) /\ same_user u u1 /\ same_user u u2.
Proof. exact reserve_layout_panic. Qed.

(** the same for `with_capacity(n)` (and every other path into `MemResizable::resize`): refused before anything is allocated, the half-built storage is dropped by the unwinding, the destination keeps what it held (`exec_withcap`) *)
Theorem C10_oversized_capacity_refused :
  forall (c : cfg) (v : vec) (u : uw) (n : N),
         cfg_wf c ->
         resizable_backend (vbk v) ->
         c_sz c * vcap v <= alloc_limit ->
         layout_limit c (vbk v) < c_sz c * n ->
         let p := if usize_max <? c_sz c * n then POverflow else PLayout in
         exists u1 : uw, mem_resize c n (v, u) = Panic p (v, u1) /\ same_user u u1.
Proof. exact mem_resize_layout_panic. Qed.

(* ---- end histories ---- *)
Print Assumptions C10_reserve_noop.
Print Assumptions C10_reserve_grows.
Print Assumptions C10_reserve_overflow.
Print Assumptions C10_reserve_exact_grows.
Print Assumptions C10_shrink_to.
Print Assumptions C10_shrink_to_fit.
Print Assumptions C10_doubling.
Print Assumptions C10_push_follows_growth_policy.
Print Assumptions C10_amortised.
Print Assumptions C10_history_len_le_cap.
Print Assumptions C10_capacity_call_promise.
Print Assumptions C10_history_cap_promises.
Print Assumptions C10_history_cap_promises_example.
Print Assumptions C10_oversized_request_refused.
Print Assumptions C10_oversized_capacity_refused.
