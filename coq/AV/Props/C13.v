(** C13 - Element handles address exactly the requested element; views stay coherent.

    get/at(i) and the i-th iterator item resolve to the pointer (current generation, i x size)
    and read exactly the i-th value of the represented list; None / panic iff i >= len.  A write
    through a handle (ElementMut, typed reference, removal handle before consumption - all are
    [write_ptr] at that pointer) changes slot i and nothing else: the new state represents the list
    with position i updated, so the typed snapshot, the byte view and every other handle read the
    same thing ([C13_write_then_read]).  Swap between two handles is two such writes.  PARTIAL: the
    three dispatch arms of swap_unchecked (typed/typed, typed/untyped, untyped byte swap) are one
    [write_ptr] pair in the model; their agreement is covered by the correspondence check's
    `handles' family (all ordered pairs of handle kinds, sizes 0..160). *)
From AV.Model Require Import Base Bytes Vec Ops.
From AV.Proofs Require Import MemLemmas Rep VecProofs HandleProofs.

Theorem C13_get :
  forall (c : cfg) (v : vec) (xs : list N) (i : N),
         Rep c v xs -> get_ptr c v i = (if i <? N.of_nat (length xs) then Some (ptr_at c v i) else None).
Proof. exact get_ptr_spec. Qed.

Theorem C13_read :
  forall (c : cfg) (v : vec) (u : uw) (xs : list N) (i : nat),
         Rep c v xs ->
         (i < length xs)%nat ->
         read_ptr c (ptr_at c v (N.of_nat i)) (v, u) = Ok (enc (szn c) (nth i xs 0)) (v, u).
Proof. exact read_elem. Qed.

(** exactly slot i changes; length, capacity, storage identity unchanged *)
Theorem C13_write_frame :
  forall (c : cfg) (v : vec) (u : uw) (xs : list N) (i : nat) (t : N),
         Rep c v xs ->
         (i < length xs)%nat ->
         tok_ok (szn c) t ->
         exists v' : vec,
           write_ptr c (ptr_at c v (N.of_nat i)) (enc (szn c) t) (v, u) = Ok tt (v', u) /\
           Rep c v' (upd i t xs) /\
           vlen v' = vlen v /\
           vcap v' = vcap v /\ vgen v' = vgen v /\ vbk v' = vbk v /\ length (vmem v') = length (vmem v).
Proof. exact write_elem. Qed.

Theorem C13_write_then_read :
  forall (c : cfg) (v : vec) (u : uw) (xs : list N) (i j : nat) (t : N),
         Rep c v xs ->
         (i < length xs)%nat ->
         (j < length xs)%nat ->
         tok_ok (szn c) t ->
         exists v' : vec,
           write_ptr c (ptr_at c v (N.of_nat i)) (enc (szn c) t) (v, u) = Ok tt (v', u) /\
           snapshot c v' = Some (upd i t xs) /\
           read_ptr c (ptr_at c v' (N.of_nat j)) (v', u) =
           Ok (enc (szn c) (if (j =? i)%nat then t else nth j xs 0)) (v', u).
Proof. exact write_then_read. Qed.

Theorem C13_upd_same :
  forall (i : nat) (t : N) (xs : list N), (i < length xs)%nat -> nth i (upd i t xs) 0 = t.
Proof. exact upd_nth_same. Qed.

Theorem C13_upd_other :
  forall (i j : nat) (t : N) (xs : list N),
         (i < length xs)%nat -> j <> i -> nth j (upd i t xs) 0 = nth j xs 0.
Proof. exact upd_nth_other. Qed.


(* ---- histories ---- *)
From AV.Model Require Import Interp.
From AV.Spec Require Import WorldSpec.
From AV.Proofs Require Import WorldProofs WorldMore.
(** WHOLE HISTORIES: element handles are steps of the history fragment of AV.Props.C01.  Reading element i through any view kind gives the list's i-th value ([WorldSpec.sp_look], case ORead; out of range: None); writing a new value through a handle replaces exactly element i, hands back the old value and changes nothing else ([WorldSpec.sp_write], out of range: PIndex, nothing changes); swapping through two handles of different vectors exchanges exactly those two values ([WorldSpec.sp_swap]).  The byte-level machine does this at any point of any history, and every other vector's list stays what it was because the specification's vectors are separate lists ([C13_write_in_histories], [C13_swap_in_histories], [C13_read_in_histories]). *)
Theorem C13_read_in_histories :
  forall (c : cfg) (w : world) (st : astate) (o : op) (r : sres),
         cfg_wf c ->
         WRep c w st ->
         ufuse (wuw w) = None -> sp_look c st (unext (wuw w)) o = Some r -> res_matches c w (exec c o w) r.
Proof. exact exec_look. Qed.

Theorem C13_write_in_histories :
  forall (c : cfg) (w : world) (st : astate) (hk : N) (vid : nat) (idx : N) (r : sres),
         WRep c w st ->
         ufuse (wuw w) = None ->
         sp_write c st (unext (wuw w)) vid idx = Some r -> res_matches c w (exec c (OWrite hk vid idx) w) r.
Proof. exact exec_write. Qed.

Theorem C13_swap_in_histories :
  forall (c : cfg) (w : world) (st : astate) (v1 : nat) (i : N) (v2 : nat) (j : N) (r : sres),
         WRep c w st ->
         ufuse (wuw w) = None ->
         sp_swap c st (unext (wuw w)) v1 i v2 j = Some r -> res_matches c w (exec c (OSwap 0 v1 i v2 j) w) r.
Proof. exact exec_swap. Qed.

(** the removal handle of v1[i] (remove(i), before it is consumed) swapped with the element handle of v2[j], then dropped, as a step of any history: v2[j] holds what was v1[i], the value that was v2[j] is destroyed with the handle, v1 has lost position i, nothing else changes *)
Theorem C13_swap_with_removal_handle_in_histories :
  forall (c : cfg) (w : world) (st : astate) (pr : N) (v1 : nat) (i : N) (v2 : nat) (j : N) (r : sres),
         cfg_wf c ->
         WRep c w st ->
         ufuse (wuw w) = None ->
         pr <> 0 ->
         sp_swap_temp c st (unext (wuw w)) v1 i v2 j = Some r ->
         res_matches c w (exec c (OSwap pr v1 i v2 j) w) r.
Proof. exact exec_swap_temp. Qed.

(* ---- end histories ---- *)
Print Assumptions C13_get.
Print Assumptions C13_read.
Print Assumptions C13_write_frame.
Print Assumptions C13_write_then_read.
Print Assumptions C13_upd_same.
Print Assumptions C13_upd_other.
Print Assumptions C13_read_in_histories.
Print Assumptions C13_write_in_histories.
Print Assumptions C13_swap_in_histories.
Print Assumptions C13_swap_with_removal_handle_in_histories.
