(** C17 - Decomposing a vector into raw parts and rebuilding it is lossless.

    In the model into_raw_parts / RawParts::clone / from_raw_parts are the identity on machine
    states: the step reports the vector's length, capacity, element layout, type-id match and
    drop-function presence, appends no event (nothing destroyed, nothing deallocated) and leaves the
    world unchanged - hence the rebuilt vector is indistinguishable under all further operations
    (it IS the same model state, to which every other theorem applies).  That the implementation
    agrees with this identity (fields of RawParts, its clone, behaviour after rebuilding, allocator
    and registry counters across the round trip) is the correspondence check's `parts' family. *)
From AV.Model Require Import Base Bytes Vec Ops Interp.
From AV.Proofs Require Import HandleProofs.

Theorem C17_parts_identity :
  forall (c : cfg) (vid : nat) (mode : N) (w : world) (v : vec),
         get_vec vid w = Some v ->
         exec c (OParts vid mode) w = Ok (0, [vlen v; vcap v; c_sz c; c_al c; 1; if c_dg c then 1 else 0]) w.
Proof. exact parts_identity. Qed.

(** Non-vacuity: parts of a vector with two elements, then continued use. *)
Example C17_example :
  let c := {| c_sz := 3; c_al := 1; c_dg := true; c_cl := true; c_trap := true; c_ty := 1 |} in
  match (exec c (ONew 0 BHeap);; exec c (OPush Erased 0 SWrap);; exec c (OPush Erased 0 SRaw);;
         exec c (OParts 0 2)) init_world with
  | Ok (0, r) w => r = [2; 2; 3; 1; 1; 1] /\ world_snaps c w = [Some (Some [1; 2])]
  | _ => False
  end.
Proof. vm_compute. split; reflexivity. Qed.

Print Assumptions C17_parts_identity.
