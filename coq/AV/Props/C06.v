(** C06 - Panicking or misreporting user code cannot corrupt a vector.

    For each site where user code runs inside an operation, the state when the k-th call
    panics, for EVERY k: the vector represents a prefix of what it held (hence no duplicates,
    every visible element intact), the destructor events are a duplicate-free initial segment,
    everything else is leaked.  Lying replacement iterators (any claimed length, not only
    +-2): exactly min(claimed, yielded) items go in, the others are destroyed once each, the
    result is a valid vector.  Sites covered by theorems: clear / vector drop, removal-handle
    drop, Drain::drop (erased and typed arm), lazy clone in push and insert, whole-vector
    clone, Splice::drop with a misreporting iterator.  PARTIAL: a panic of the replacement
    iterator's next() or of an element destructor inside Splice::drop, and the unwinding glue of
    [Interp.exec] (by-value arguments dropped while unwinding), are covered by the fuse sweeps of
    the correspondence check only. *)
From AV.Model Require Import Base Bytes Vec Ops.
From AV.Spec Require Import VecSpec.
From AV.Proofs Require Import MemLemmas Rep VecProofs TempProofs RangeProofs FaultProofs CloneProofs.

Theorem C06_clear_panics :
  forall (c : cfg) (v : vec) (u : uw) (xs : list N) (k : nat),
         Rep c v xs ->
         c_dg c = true ->
         ufuse u = Some (N.of_nat k) ->
         (k < length xs)%nat ->
         exists (v' : vec) (u' : uw),
           clear c (v, u) = Panic PUser (v', u') /\
           Rep c v' [] /\
           vcap v' = vcap v /\
           ufuse u' = None /\ unext u' = unext u /\ ulog u' = rev (map EDrop (firstn (S k) xs)) ++ ulog u.
Proof. exact clear_panics. Qed.

Theorem C06_clear_fuse_survives :
  forall (c : cfg) (v : vec) (u : uw) (xs : list N) (k : N),
         Rep c v xs ->
         c_dg c = true ->
         ufuse u = Some k ->
         N.of_nat (length xs) <= k ->
         exists (v' : vec) (u' : uw),
           clear c (v, u) = Ok tt (v', u') /\
           Rep c v' [] /\ ufuse u' = Some (k - N.of_nat (length xs)) /\ ulog u' = rev (map EDrop xs) ++ ulog u.
Proof. exact clear_fuse_survives. Qed.

Theorem C06_handle_drop_panics :
  forall (c : cfg) (v : vec) (u : uw) (xs : list N) (k : tkind) (i : nat) (h : temp) (known : bool),
         Rep c v xs ->
         temp_req k i xs ->
         temp_for c v xs k i h ->
         c_dg c = true ->
         ufuse u = Some 0 ->
         exists u' : uw,
           temp_drop c known h (with_len (N.of_nat i) v, u) = Panic PUser (with_len (N.of_nat i) v, u') /\
           ufuse u' = None /\ ulog u' = EDrop (nth i xs 0) :: ulog u.
Proof. exact temp_drop_panics. Qed.

Theorem C06_drain_drop_panics_erased :
  forall (c : cfg) (v : vec) (u : uw) (xs : list N) (s e i j k : nat),
         RangeAlive c v xs s e i j ->
         c_dg c = true ->
         ufuse u = Some (N.of_nat k) ->
         (k < j - i)%nat ->
         let d :=
           {|
             dcur := {| ci := N.of_nat i; ce := N.of_nat j |};
             dstart := N.of_nat s;
             dend := N.of_nat e;
             dorig := N.of_nat (length xs)
           |} in
         exists u' : uw,
           drain_drop c false d (v, u) = Panic PUser (v, u') /\
           Rep c v (firstn s xs) /\
           ufuse u' = None /\ ulog u' = rev (map EDrop (firstn (S k) (skipn i xs))) ++ ulog u.
Proof. exact drain_drop_panics_erased. Qed.

Theorem C06_drain_drop_panics_typed :
  forall (c : cfg) (v : vec) (u : uw) (xs : list N) (s e i j k : nat),
         RangeAlive c v xs s e i j ->
         c_dg c = true ->
         ufuse u = Some (N.of_nat k) ->
         (k < j - i)%nat ->
         let d :=
           {|
             dcur := {| ci := N.of_nat i; ce := N.of_nat j |};
             dstart := N.of_nat s;
             dend := N.of_nat e;
             dorig := N.of_nat (length xs)
           |} in
         exists u' : uw,
           drain_drop c true d (v, u) = Panic PUser (v, u') /\
           Rep c v (firstn s xs) /\
           ufuse u' = None /\ ulog u' = rev (map EDrop (firstn (j - i) (skipn i xs))) ++ ulog u.
Proof. exact drain_drop_panics_typed. Qed.

Theorem C06_push_clone_panics :
  forall (c : cfg) (v : vec) (u : uw) (xs : list N) (bs : mem) (t0 : N) (k : bool),
         cfg_wf c ->
         Rep c v xs ->
         dec (szn c) bs = Some t0 ->
         ufuse u = Some 0 ->
         vlen v < vcap v \/ grow_ok c v (vcap v + 1) ->
         exists (v' : vec) (u' : uw),
           push_unchecked c (VClone bs k) (v, u) = Panic PUser (v', u') /\
           Rep c v' xs /\ unext u' = unext u /\ ufuse u' = None /\ uevents u' = uevents u.
Proof. exact push_clone_panics. Qed.

(** defect D9 (repaired): the shifted tail is hidden while the clone runs *)
Theorem C06_insert_clone_panics :
  forall (c : cfg) (v : vec) (u : uw) (xs : list N) (bs : mem) (t0 : N) (k : bool) (i : nat),
         cfg_wf c ->
         Rep c v xs ->
         dec (szn c) bs = Some t0 ->
         ufuse u = Some 0 ->
         (i <= length xs)%nat ->
         vlen v < vcap v \/ grow_ok c v (vcap v + 1) ->
         exists (v' : vec) (u' : uw),
           insert_unchecked c (N.of_nat i) (VClone bs k) (v, u) = Panic PUser (v', u') /\
           Rep c v' (firstn i xs) /\ unext u' = unext u /\ ufuse u' = None /\ uevents u' = uevents u.
Proof. exact insert_clone_panics. Qed.

Theorem C06_clone_vec_panics :
  forall (c : cfg) (src : vec) (u : uw) (xs : list N) (v0 : vec) (k : nat),
         cfg_wf c ->
         bk_wf (vbk src) ->
         backend_consistent c src ->
         Rep c src xs ->
         ufuse u = Some (N.of_nat k) ->
         (k < length xs)%nat ->
         fixed_backend (vbk src) \/
         N.of_nat (length xs) <= usize_max /\
         c_sz c *
         grow_target {| vlen := 0; vcap := 0; vmem := []; vgen := 0; vbk := vbk src |} (N.of_nat (length xs)) <=
         alloc_limit ->
         exists (v' : vec) (u' : uw),
           clone_vec c src (v0, u) = Panic PUser (v', u') /\
           vlen v' = 0 /\
           ufuse u' = None /\
           uevents u' = rev (clone_events (firstn k xs) (fresh_ids c (unext u) k)) ++ uevents u.
Proof. exact clone_vec_panics. Qed.

(** defect D10 (repaired): the claimed length is never trusted *)
Theorem C06_splice_liar :
  forall (c : cfg) (v : vec) (u : uw) (xs : list N) (s e i j : nat) (known : bool) 
           (ts : list N) (k : bool) (cl : nat),
         cfg_wf c ->
         RangeAlive c v xs s e i j ->
         ufuse u = None ->
         Forall (tok_ok (szn c)) ts ->
         let new_len := (s + cl + (length xs - e))%nat in
         N.of_nat new_len <= vcap v \/ grow_ok c v (N.of_nat new_len) ->
         let d :=
           {|
             dcur := {| ci := N.of_nat i; ce := N.of_nat j |};
             dstart := N.of_nat s;
             dend := N.of_nat e;
             dorig := N.of_nat (length xs)
           |} in
         let written := Nat.min cl (length ts) in
         exists (v' : vec) (u' : uw),
           splice_drop c known d (N.of_nat cl) (map (fun t : N => honest_item c t k) ts) (v, u) =
           Ok tt (v', u') /\
           Rep c v' (sp_splice s e (firstn written ts) xs) /\
           ufuse u' = None /\
           filter (fun ev : event => match ev with
                                     | EDrop _ => true
                                     | _ => false
                                     end) (uevents u') =
           (if c_dg c then rev (map EDrop (skipn written ts)) else []) ++
           (if c_dg c then rev (map EDrop (firstn (j - i) (skipn i xs))) else []) ++
           filter (fun ev : event => match ev with
                                     | EDrop _ => true
                                     | _ => false
                                     end) (uevents u).
Proof. exact splice_drop_liar. Qed.

Theorem C06_prefix_nodup :
  forall (xs : list N) (n : nat), NoDup xs -> NoDup (firstn n xs).
Proof. exact prefix_nodup. Qed.

Theorem C06_drops_distinct :
  forall (xs : list N) (i k : nat),
         NoDup xs ->
         NoDup (firstn k (skipn i xs)) /\ (forall t : N, In t (firstn k (skipn i xs)) -> ~ In t (firstn i xs)).
Proof. exact drops_distinct. Qed.


Print Assumptions C06_clear_panics.
Print Assumptions C06_clear_fuse_survives.
Print Assumptions C06_handle_drop_panics.
Print Assumptions C06_drain_drop_panics_erased.
Print Assumptions C06_drain_drop_panics_typed.
Print Assumptions C06_push_clone_panics.
Print Assumptions C06_insert_clone_panics.
Print Assumptions C06_clone_vec_panics.
Print Assumptions C06_splice_liar.
Print Assumptions C06_prefix_nodup.
Print Assumptions C06_drops_distinct.
