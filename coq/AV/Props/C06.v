(** C06 - Panicking or misreporting user code cannot corrupt a vector.

    For each site where user code runs inside an operation, the state when the k-th call
    panics, for EVERY k: the vector represents a prefix of what it held (hence no duplicates,
    every visible element intact), the destructor events are a duplicate-free initial segment,
    everything else is leaked.  Lying replacement iterators (any claimed length, not only
    +-2): exactly min(claimed, yielded) items go in, the others are destroyed once each, the
    result is a valid vector.  Sites covered by theorems: clear / vector drop, removal-handle
    drop, Drain::drop (erased and typed arm), lazy clone in push and insert, whole-vector
    clone, Splice::drop with a misreporting iterator.  A panic of the replacement iterator's next() or of an element destructor inside Splice::drop, and
    the unwinding glue of [Interp.exec], are covered by the fused history fragment below; splices by
    misreporting iterators are steps of the (panic-free) history fragment. *)
From AV.Model Require Import Base Bytes Vec Ops.
From AV.Spec Require Import VecSpec.
From AV.Proofs Require Import MemLemmas Rep VecProofs TempProofs RangeProofs FaultProofs CloneProofs.

Theorem C06_clear_panics :
  forall (c : cfg) (v : vec) (u : uw) (xs : list N) (k : nat),
         Rep c v xs ->
         c_dg c = true ->
         ufuse u = Some (N.of_nat k) ->
         (k < length xs)%nat ->
         exists (v' : vec) (u' : uw),
           clear c (v, u) = Panic PUser (v', u') /\
           Rep c v' [] /\
           vcap v' = vcap v /\
           ufuse u' = None /\ unext u' = unext u /\ ulog u' = rev (map EDrop (firstn (S k) xs)) ++ ulog u.
Proof. exact clear_panics. Qed.

Theorem C06_clear_fuse_survives :
  forall (c : cfg) (v : vec) (u : uw) (xs : list N) (k : N),
         Rep c v xs ->
         c_dg c = true ->
         ufuse u = Some k ->
         N.of_nat (length xs) <= k ->
         exists (v' : vec) (u' : uw),
           clear c (v, u) = Ok tt (v', u') /\
           Rep c v' [] /\ ufuse u' = Some (k - N.of_nat (length xs)) /\ ulog u' = rev (map EDrop xs) ++ ulog u.
Proof. exact clear_fuse_survives. Qed.

Theorem C06_handle_drop_panics :
  forall (c : cfg) (v : vec) (u : uw) (xs : list N) (k : tkind) (i : nat) (h : temp) (known : bool),
         Rep c v xs ->
         temp_req k i xs ->
         temp_for c v xs k i h ->
         c_dg c = true ->
         ufuse u = Some 0 ->
         exists u' : uw,
           temp_drop c known h (with_len (N.of_nat i) v, u) = Panic PUser (with_len (N.of_nat i) v, u') /\
           ufuse u' = None /\ ulog u' = EDrop (nth i xs 0) :: ulog u.
Proof. exact temp_drop_panics. Qed.

Theorem C06_drain_drop_panics_erased :
  forall (c : cfg) (v : vec) (u : uw) (xs : list N) (s e i j k : nat),
         RangeAlive c v xs s e i j ->
         c_dg c = true ->
         ufuse u = Some (N.of_nat k) ->
         (k < j - i)%nat ->
         let d :=
           {|
             dcur := {| ci := N.of_nat i; ce := N.of_nat j |};
             dstart := N.of_nat s;
             dend := N.of_nat e;
             dorig := N.of_nat (length xs)
           |} in
         exists u' : uw,
           drain_drop c false d (v, u) = Panic PUser (v, u') /\
           Rep c v (firstn s xs) /\
           ufuse u' = None /\ ulog u' = rev (map EDrop (firstn (S k) (skipn i xs))) ++ ulog u.
Proof. exact drain_drop_panics_erased. Qed.

Theorem C06_drain_drop_panics_typed :
  forall (c : cfg) (v : vec) (u : uw) (xs : list N) (s e i j k : nat),
         RangeAlive c v xs s e i j ->
         c_dg c = true ->
         ufuse u = Some (N.of_nat k) ->
         (k < j - i)%nat ->
         let d :=
           {|
             dcur := {| ci := N.of_nat i; ce := N.of_nat j |};
             dstart := N.of_nat s;
             dend := N.of_nat e;
             dorig := N.of_nat (length xs)
           |} in
         exists u' : uw,
           drain_drop c true d (v, u) = Panic PUser (v, u') /\
           Rep c v (firstn s xs) /\
           ufuse u' = None /\ ulog u' = rev (map EDrop (firstn (j - i) (skipn i xs))) ++ ulog u.
Proof. exact drain_drop_panics_typed. Qed.

Theorem C06_push_clone_panics :
  forall (c : cfg) (v : vec) (u : uw) (xs : list N) (bs : mem) (t0 : N) (k : bool),
         cfg_wf c ->
         Rep c v xs ->
         dec (szn c) bs = Some t0 ->
         ufuse u = Some 0 ->
         vlen v < vcap v \/ grow_ok c v (vcap v + 1) ->
         exists (v' : vec) (u' : uw),
           push_unchecked c (VClone bs k) (v, u) = Panic PUser (v', u') /\
           Rep c v' xs /\
           unext u' = unext u /\
           ufuse u' = None /\ uevents u' = uevents u /\ vbk v' = vbk v /\ (vlen v < vcap v -> vcap v' = vcap v).
Proof. exact push_clone_panics. Qed.

(** defect D9 (repaired): the shifted tail is hidden while the clone runs *)
Theorem C06_insert_clone_panics :
  forall (c : cfg) (v : vec) (u : uw) (xs : list N) (bs : mem) (t0 : N) (k : bool) (i : nat),
         cfg_wf c ->
         Rep c v xs ->
         dec (szn c) bs = Some t0 ->
         ufuse u = Some 0 ->
         (i <= length xs)%nat ->
         vlen v < vcap v \/ grow_ok c v (vcap v + 1) ->
         exists (v' : vec) (u' : uw),
           insert_unchecked c (N.of_nat i) (VClone bs k) (v, u) = Panic PUser (v', u') /\
           Rep c v' (firstn i xs) /\
           unext u' = unext u /\
           ufuse u' = None /\ uevents u' = uevents u /\ vbk v' = vbk v /\ (vlen v < vcap v -> vcap v' = vcap v).
Proof. exact insert_clone_panics. Qed.

Theorem C06_clone_vec_panics :
  forall (c : cfg) (src : vec) (u : uw) (xs : list N) (v0 : vec) (k : nat),
         cfg_wf c ->
         bk_wf (vbk src) ->
         backend_consistent c src ->
         Rep c src xs ->
         ufuse u = Some (N.of_nat k) ->
         (k < length xs)%nat ->
         fixed_backend (vbk src) \/
         N.of_nat (length xs) <= usize_max /\
         c_sz c *
         grow_target {| vlen := 0; vcap := 0; vmem := []; vgen := 0; vbk := vbk src |} (N.of_nat (length xs)) <=
         alloc_limit ->
         exists (v' : vec) (u' : uw),
           clone_vec c src (v0, u) = Panic PUser (v', u') /\
           vlen v' = 0 /\
           ufuse u' = None /\
           uevents u' = rev (clone_events (firstn k xs) (fresh_ids c (unext u) k)) ++ uevents u /\
           unext u' = unext u + N.of_nat k.
Proof. exact clone_vec_panics. Qed.

(** defect D10 (repaired): the claimed length is never trusted *)
Theorem C06_splice_liar :
  forall (c : cfg) (v : vec) (u : uw) (xs : list N) (s e i j : nat) (known : bool) 
           (ts : list N) (k : bool) (cl : nat),
         cfg_wf c ->
         RangeAlive c v xs s e i j ->
         ufuse u = None ->
         Forall (tok_ok (szn c)) ts ->
         let new_len := (s + cl + (length xs - e))%nat in
         N.of_nat new_len <= vcap v \/ grow_ok c v (N.of_nat new_len) ->
         let d :=
           {|
             dcur := {| ci := N.of_nat i; ce := N.of_nat j |};
             dstart := N.of_nat s;
             dend := N.of_nat e;
             dorig := N.of_nat (length xs)
           |} in
         let written := Nat.min cl (length ts) in
         exists (v' : vec) (u' : uw),
           splice_drop c known d (N.of_nat cl) (map (fun t : N => honest_item c t k) ts) (v, u) =
           Ok tt (v', u') /\
           Rep c v' (sp_splice s e (firstn written ts) xs) /\
           ufuse u' = None /\
           filter (fun ev : event => match ev with
                                     | EDrop _ => true
                                     | _ => false
                                     end) (uevents u') =
           (if c_dg c then rev (map EDrop (skipn written ts)) else []) ++
           (if c_dg c then rev (map EDrop (firstn (j - i) (skipn i xs))) else []) ++
           filter (fun ev : event => match ev with
                                     | EDrop _ => true
                                     | _ => false
                                     end) (uevents u).
Proof. exact splice_drop_liar. Qed.

(** the same with everything the step shows: backend, identity counter, the exact event sequence (the iterator is asked min(claimed, yielded+1) times), capacity untouched when the announcement fits *)
Theorem C06_splice_liar_full :
  forall (c : cfg) (v : vec) (u : uw) (xs : list N) (s e i j : nat) (known : bool) 
           (ts : list N) (k : bool) (cl : nat),
         cfg_wf c ->
         RangeAlive c v xs s e i j ->
         ufuse u = None ->
         Forall (tok_ok (szn c)) ts ->
         let new_len := (s + cl + (length xs - e))%nat in
         N.of_nat new_len <= vcap v \/ grow_ok c v (N.of_nat new_len) ->
         let d :=
           {|
             dcur := {| ci := N.of_nat i; ce := N.of_nat j |};
             dstart := N.of_nat s;
             dend := N.of_nat e;
             dorig := N.of_nat (length xs)
           |} in
         let written := Nat.min cl (length ts) in
         exists (v' : vec) (u' : uw),
           splice_drop c known d (N.of_nat cl) (map (fun t : N => honest_item c t k) ts) (v, u) =
           Ok tt (v', u') /\
           Rep c v' (sp_splice s e (firstn written ts) xs) /\
           vbk v' = vbk v /\
           unext u' = unext u /\
           ufuse u' = None /\
           uevents u' =
           (if c_dg c then rev (map EDrop (skipn written ts)) else []) ++
           repeat ENext (Nat.min cl (S (length ts))) ++
           (if c_dg c then rev (map EDrop (firstn (j - i) (skipn i xs))) else []) ++ uevents u /\
           (N.of_nat new_len <= vcap v -> vcap v' = vcap v).
Proof. exact splice_drop_liar_full. Qed.

Theorem C06_prefix_nodup :
  forall (xs : list N) (n : nat), NoDup xs -> NoDup (firstn n xs).
Proof. exact prefix_nodup. Qed.

Theorem C06_drops_distinct :
  forall (xs : list N) (i k : nat),
         NoDup xs ->
         NoDup (firstn k (skipn i xs)) /\ (forall t : N, In t (firstn k (skipn i xs)) -> ~ In t (firstn i xs)).
Proof. exact drops_distinct. Qed.


(* ---- histories ---- *)
From AV.Model Require Import Base Bytes Vec Ops Interp.
From AV.Spec Require Import WorldSpec.
From AV.Proofs Require Import WorldProofs WorldFused OwnHistory.
(** WHOLE HISTORIES WITH PANICKING USER CODE.  [WorldSpec.spec_step_f] gives a script step that carries a fuse (the (k+1)-th call of user code it makes panics) its meaning on lists; [spec_run_f] a whole history in which any step may carry one.  The fused fragment: clear and the drop of a whole vector (the destructor of element k panics: elements 0..k have been destroyed - each once -, the vector is empty - resp. gone, its storage released all the same -, elements k+1.. are leaked) a dropped removal handle of pop / remove / swap_remove (the element's destructor panics: the vector keeps the elements in front of the handle, the tail behind it is leaked), a drain over any range that is dropped unconsumed (the destructor of its k-th element panics: the type-erased drain stops there, the typed one destroys the rest of the range all the same and unwinds; the tail is not moved: the vector keeps the elements in front of the range, the rest is leaked), and a splice (honest replacement values, any range, result that fits) that is dropped unconsumed: a destructor of the range panics (as the drain; every replacement value is destroyed once), or - the range being gone - the f-th call of the replacement iterator's next() panics (the values not yet pulled are destroyed once each, those already moved in and the tail are leaked, the vector keeps the elements in front of the range: [C06_splice_drop_fused], the one-step theorem that was missing), erased and typed, with every fuse length (a fuse longer than the step changes nothing); steps without a fuse are the whole fragment of AV.Props.C01.  [C06_step_refines_fused] / [C06_history_refines_fused]: the byte-level machine ([Interp.run_step] with that fuse, through the unwinding glue of [Interp.exec]) shows exactly the specification's outcome, panic kind, events and lists, never faults, and the vectors stay represented - hence usable - afterwards, at any point of any history of any number of vectors.  [C06_history_exactly_once_fused] (on the specification, transferred by the refinement): after every such history the identities created are exactly those visible + destroyed + leaked, so nothing is destroyed twice, nothing destroyed or leaked is still visible, nothing is visible twice - the only damage is leaks.  Non-vacuity: [exf_admissible], [exf_outcomes] (a 40-step history with twelve armed steps).  Still one-step theorems + correspondence: panics inside partly consumed drains / splices, clone, lazy clones, and lying replacement iterators that also panic, and replacement iterators that panic. *)
Theorem C06_clear_fused :
  forall (c : cfg) (v : vec) (u : uw) (xs : list N) (k : N),
         Rep c v xs ->
         ufuse u = Some k ->
         exists u' : uw,
           clear c (v, u) =
           (if c_dg c && (k <? N.of_nat (length xs))
            then Panic PUser (with_len 0 v, u')
            else Ok tt (with_len 0 v, u')) /\
           Rep c (with_len 0 v) [] /\
           unext u' = unext u /\
           ulog u' =
           rev
             (if c_dg c
              then if k <? N.of_nat (length xs) then map EDrop (firstn (S (N.to_nat k)) xs) else map EDrop xs
              else []) ++ ulog u.
Proof. exact clear_fused. Qed.

Theorem C06_handle_drop_fused :
  forall (c : cfg) (v : vec) (u : uw) (xs : list N) (k : tkind) (i : nat) (h : temp) 
           (known : bool) (f : N),
         Rep c v xs ->
         temp_req k i xs ->
         temp_for c v xs k i h ->
         ufuse u = Some f ->
         if c_dg c && (f =? 0)
         then
          exists u' : uw,
            temp_drop c known h (with_len (N.of_nat i) v, u) = Panic PUser (with_len (N.of_nat i) v, u') /\
            unext u' = unext u /\ ulog u' = EDrop (nth i xs 0) :: ulog u
         else
          exists (v' : vec) (u' : uw),
            temp_drop c known h (with_len (N.of_nat i) v, u) = Ok tt (v', u') /\
            Rep c v' (temp_result k i xs) /\
            vcap v' = vcap v /\
            vbk v' = vbk v /\
            unext u' = unext u /\ ulog u' = (if c_dg c then [EDrop (nth i xs 0)] else []) ++ ulog u.
Proof. exact temp_drop_fused. Qed.

Theorem C06_drop_range_fused :
  forall (c : cfg) (known : bool) (v : vec) (u : uw) (ys : list N) (i j : nat) (k : N),
         store_ok c v ->
         (i <= j)%nat ->
         N.of_nat j <= vcap v ->
         length ys = (j - i)%nat ->
         Held c v i ys ->
         Forall (tok_ok (szn c)) ys ->
         ufuse u = Some k ->
         exists u' : uw,
           drop_range c known (N.of_nat i) (N.of_nat j) (v, u) =
           (if c_dg c && (k <? N.of_nat (j - i)) then Panic PUser (v, u') else Ok tt (v, u')) /\
           unext u' = unext u /\
           ulog u' =
           rev
             (if c_dg c
              then
               if k <? N.of_nat (j - i)
               then map EDrop (if known then ys else firstn (S (N.to_nat k)) ys)
               else map EDrop ys
              else []) ++ ulog u /\
           (c_dg c && (k <? N.of_nat (j - i)) = false ->
            ufuse u' = Some (k - (if c_dg c then N.of_nat (j - i) else 0))).
Proof. exact drop_range_fused. Qed.

Theorem C06_splice_fill_fused :
  forall (c : cfg) (kf : bool) (ts : list N) (p : nat) (w : N) (v : vec) (u : uw) (f : N),
         store_ok c v ->
         N.of_nat (p + length ts) <= vcap v ->
         ufuse u = Some f ->
         exists u' : uw,
           splice_fill c (p * szn c) (length ts) w (map (fun t : N => honest_item c t kf) ts) (v, u) =
           (if f <? N.of_nat (length ts)
            then
             Panic PUser (with_mem (mwrite (p * szn c) (flat (szn c) (firstn (N.to_nat f) ts)) (vmem v)) v, u')
            else
             Ok (w + N.of_nat (length ts), []) (with_mem (mwrite (p * szn c) (flat (szn c) ts) (vmem v)) v, u')) /\
           unext u' = unext u /\
           ulog u' =
           (if f <? N.of_nat (length ts)
            then
             (if c_dg c then rev (map EDrop (skipn (N.to_nat f) ts)) else []) ++ repeat ENext (S (N.to_nat f))
            else repeat ENext (length ts)) ++ ulog u /\
           ufuse u' = (if f <? N.of_nat (length ts) then None else Some (f - N.of_nat (length ts))).
Proof. exact splice_fill_fused. Qed.

Theorem C06_splice_drop_fused :
  forall (c : cfg) (v : vec) (u : uw) (xs : list N) (s e i j : nat) (known : bool) 
           (ts : list N) (kf : bool) (k : N),
         cfg_wf c ->
         RangeAlive c v xs s e i j ->
         ufuse u = Some k ->
         Forall (tok_ok (szn c)) ts ->
         let new_len := (s + length ts + (length xs - e))%nat in
         N.of_nat new_len <= vcap v \/ grow_ok c v (N.of_nat new_len) ->
         let d :=
           {|
             dcur := {| ci := N.of_nat i; ce := N.of_nat j |};
             dstart := N.of_nat s;
             dend := N.of_nat e;
             dorig := N.of_nat (length xs)
           |} in
         let range := firstn (j - i) (skipn i xs) in
         let m := if c_dg c then N.of_nat (j - i) else 0 in
         let caseA := c_dg c && (k <? N.of_nat (j - i)) in
         let caseB := negb caseA && (k - m <? N.of_nat (length ts)) in
         let f := N.to_nat (k - m) in
         exists (v' : vec) (u' : uw),
           splice_drop c known d (N.of_nat (length ts)) (map (fun t : N => honest_item c t kf) ts) (v, u) =
           (if caseA || caseB then Panic PUser (v', u') else Ok tt (v', u')) /\
           Rep c v' (if caseA || caseB then firstn s xs else VecSpec.sp_splice s e ts xs) /\
           vbk v' = vbk v /\
           unext u' = unext u /\
           (N.of_nat new_len <= vcap v -> vcap v' = vcap v) /\
           uevents u' =
           rev
             (if caseA
              then
               map EDrop (if known then range else firstn (S (N.to_nat k)) range) ++
               (if c_dg c then map EDrop ts else [])
              else
               (if c_dg c then map EDrop range else []) ++
               (if caseB
                then repeat ENext (S f) ++ (if c_dg c then map EDrop (skipn f ts) else [])
                else repeat ENext (length ts))) ++ uevents u.
Proof. exact splice_drop_fused. Qed.

(** clone() whose (k+1)-th Clone panics, as a step of a history: k clones exist and are leaked (the half-built copy is dropped with its length still 0), its storage is released, no vector of the world changes *)
Theorem C06_clone_fused :
  forall (c : cfg) (w : world) (st : astate) (v dst : nat) (k : N) (r : sres),
         cfg_wf c ->
         WRep c w st ->
         ufuse (wuw w) = Some k ->
         sp_clone_f c st (unext (wuw w)) v dst k = Some r ->
         adm_clone c w v -> res_matches_f c w (exec c (OClone v dst) w) r.
Proof. exact exec_clone_f. Qed.

(** a lazy clone offered to push / insert whose Clone panics (through the glue of Interp.exec: source read, type check, raw operation, unwinding): refusals come first and are unchanged, otherwise nothing is created; push leaves the vector as it was, insert keeps the prefix and leaks the hidden tail (D9) *)
Theorem C06_lazy_offer_fused :
  forall (c : cfg) (w : world) (st : astate) (vid : nat) (idx : option N) (d : N) 
           (src : nat) (sidx : N) (r : sres),
         cfg_wf c ->
         WRep c w st ->
         ufuse (wuw w) = Some 0 ->
         adm_vec c w vid ->
         sp_offer_lazy_f c st (unext (wuw w)) vid idx src sidx = Some r ->
         res_matches_f c w
           ((do o <- make_offer c (SLazy d src sidx); offer_into c vid o (raw_action c idx);; ret (0, [])) w) r.
Proof. exact exec_offer_lazy_f. Qed.

(** the same for a lazy clone of a value the caller owns: that value is destroyed by the caller, once *)
Theorem C06_user_lazy_offer_fused :
  forall (c : cfg) (w : world) (st : astate) (vid : nat) (idx : option N) (d : N) (r : sres),
         cfg_wf c ->
         WRep c w st ->
         ufuse (wuw w) = Some 0 ->
         adm_vec c w vid ->
         sp_offer_userlazy_f c st (unext (wuw w)) vid idx = Some r ->
         res_matches_f c w
           ((do o <- make_offer c (SLazyUser d); offer_into c vid o (raw_action c idx);; ret (0, [])) w) r.
Proof. exact exec_offer_userlazy_f. Qed.

(** one script step, with or without a fuse *)
Theorem C06_step_refines_fused :
  forall (c : cfg) (w : world) (st : astate) (fuse : option N) (o : op) (r : sres),
         cfg_wf c ->
         WRep c w st ->
         spec_step_f c st (unext (wuw w)) fuse o = Some r ->
         admissible c w o -> obs_match c (run_step c fuse o w) r.
Proof. exact step_refines_f. Qed.

Theorem C06_history_refines_fused :
  forall (c : cfg) (ops : list (option N * op)) (w : world) (st : astate) (rs : list sres),
         cfg_wf c ->
         WRep c w st ->
         spec_run_f c st (unext (wuw w)) ops = Some rs ->
         Admissible_f c w ops -> Forall2 (obs_match c) (run_hist_f c ops w) rs.
Proof. exact history_refines_f. Qed.

Theorem C06_history_accounting_fused :
  forall (c : cfg) (ops : list (option N * op)) (st : astate) (nx : N) (rs : list sres) (D L : list N),
         c_dg c = true ->
         1 <= nx ->
         spec_run_f c st nx ops = Some rs ->
         Permutation.Permutation (created c nx) (vis st ++ D ++ L) ->
         Permutation.Permutation (created c (snd (end_of st nx rs)))
           (vis (fst (end_of st nx rs)) ++ (D ++ hist_drops rs) ++ L ++ hist_leaks_f c st nx ops).
Proof. exact history_own_f. Qed.

Theorem C06_history_exactly_once_fused :
  forall (c : cfg) (ops : list (option N * op)) (rs : list sres),
         c_dg c = true ->
         c_sz c <> 0 ->
         spec_run_f c [] 1 ops = Some rs ->
         NoDup (vis (fst (end_of [] 1 rs)) ++ hist_drops rs ++ hist_leaks_f c [] 1 ops).
Proof. exact history_exactly_once_f. Qed.

Theorem C06_example_admissible :
  Admissible_f ex_cfg init_world exf_ops.
Proof. exact exf_admissible. Qed.

Theorem C06_example_outcomes :
  map
           (fun r : sres =>
            (s_out r, s_pk r, s_evs r,
             map (fun o : option avec => match o with
                                         | Some a => a_xs a
                                         | None => []
                                         end) (s_st r)))
           match spec_run_f ex_cfg [] 1 exf_ops with
           | Some rs => rs
           | None => []
           end =
         [(0, 0, [], [[]]); (0, 0, [], [[1]]); (0, 0, [], [[1; 2]]); (0, 0, [], [[1; 2; 3]]);
          (0, 0, [], [[1; 2; 3; 4]]); (2, 8, [EDrop 2], [[1]]); (0, 0, [EDrop 1], [[]]); (
          0, 0, [], [[5]]); (0, 0, [], [[5; 6]]); (0, 0, [], [[5; 6; 7]]); (2, 8, [EDrop 5; EDrop 6], [[]]);
          (1, 0, [], [[]]); (0, 0, [], [[8]]); (0, 0, [EDrop 8], [[]]); (0, 0, [], [[]]); (
          0, 0, [], [[]; []]); (0, 0, [], [[]; [9]]); (0, 0, [], [[]; [9; 10]]); (2, 8, [EDrop 9], [[]; []]);
          (0, 0, [], [[]; []; []]); (0, 0, [], [[]; []; [11]]); (0, 0, [], [[]; []; [11; 12]]);
          (0, 0, [], [[]; []; [11; 12; 13]]); (0, 0, [], [[]; []; [11; 12; 13; 14]]);
          (2, 8, [EDrop 11; EDrop 12], [[]; []; []]); (0, 0, [], [[]; []; [15]]);
          (0, 0, [], [[]; []; [15; 16]]); (0, 0, [], [[]; []; [15; 16; 17]]);
          (2, 8, [EDrop 15; EDrop 16], [[]; []; []]); (0, 0, [], [[]; []; []]); (0, 0, [], [[]; []; [18]]);
          (0, 0, [], [[]; []; [18; 19]]); (0, 0, [], [[]; []; [18; 19; 20]]);
          (0, 0, [], [[]; []; [18; 19; 20; 21]]);
          (2, 8, [EDrop 19; EDrop 20; EDrop 22; EDrop 23], [[]; []; [18]]); (0, 0, [], [[]; []; [18; 24]]);
          (0, 0, [], [[]; []; [18; 24; 25]]); (0, 0, [], [[]; []; [18; 24; 25; 26]]);
          (2, 8, [EDrop 24; ENext; ENext; EDrop 28; EDrop 29], [[]; []; [18]]);
          (0, 0, [EDrop 18; ENext], [[]; []; [30]]); (0, 0, [], [[]; []; [30]; []]);
          (0, 0, [], [[]; []; [30]; [31]]); (0, 0, [], [[]; []; [30]; [31; 32]]);
          (2, 8, [], [[]; []; [30]; [31; 32]]); (2, 8, [], [[]; []; [30]; [31]]);
          (2, 8, [EDrop 33], [[]; []; [30]; []]); (0, 0, [], [[]; []; [30]; [34]]);
          (0, 0, [], [[]; []; [30]; [34; 35]]); (2, 8, [EClone 34 36], [[]; []; [30]; [34; 35]])].
Proof. exact exf_outcomes. Qed.

(* ---- end histories ---- *)
Print Assumptions C06_clear_panics.
Print Assumptions C06_clear_fuse_survives.
Print Assumptions C06_handle_drop_panics.
Print Assumptions C06_drain_drop_panics_erased.
Print Assumptions C06_drain_drop_panics_typed.
Print Assumptions C06_push_clone_panics.
Print Assumptions C06_insert_clone_panics.
Print Assumptions C06_clone_vec_panics.
Print Assumptions C06_splice_liar.
Print Assumptions C06_splice_liar_full.
Print Assumptions C06_prefix_nodup.
Print Assumptions C06_drops_distinct.
Print Assumptions C06_clear_fused.
Print Assumptions C06_handle_drop_fused.
Print Assumptions C06_drop_range_fused.
Print Assumptions C06_splice_fill_fused.
Print Assumptions C06_splice_drop_fused.
Print Assumptions C06_clone_fused.
Print Assumptions C06_lazy_offer_fused.
Print Assumptions C06_user_lazy_offer_fused.
Print Assumptions C06_step_refines_fused.
Print Assumptions C06_history_refines_fused.
Print Assumptions C06_history_accounting_fused.
Print Assumptions C06_history_exactly_once_fused.
Print Assumptions C06_example_admissible.
Print Assumptions C06_example_outcomes.
