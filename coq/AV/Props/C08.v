(** C08 - Cloning yields an equal, fully independent vector on every backend.

    [clone_vec] builds a NEW vector record from the source: same backend kind, length, and
    element i is a fresh identity cloned from source element i, exactly one Clone event per
    element in index order ([C08_clone]); it succeeds on fixed-capacity backends whenever the
    source is a vector [mem_build] could have produced (the contents then fit).  Independence:
    model vectors are separate values, every operation takes and returns one vector, so no
    operation on one can change another - by construction; that the implementation's vectors
    do not alias is checked by the correspondence (every single operation on original and
    clone).  clone_empty / clone_empty_in are [mem_build] ([C08_clone_empty]). *)
From AV.Model Require Import Base Bytes Vec.
From AV.Spec Require Import VecSpec.
From AV.Proofs Require Import MemLemmas Rep VecProofs CloneProofs.

Theorem C08_clone :
  forall (c : cfg) (src : vec) (u : uw) (xs : list N) (v0 : vec),
         cfg_wf c ->
         bk_wf (vbk src) ->
         backend_consistent c src ->
         Rep c src xs ->
         ufuse u = None ->
         fixed_backend (vbk src) \/
         N.of_nat (length xs) <= usize_max /\
         c_sz c *
         grow_target {| vlen := 0; vcap := 0; vmem := []; vgen := 0; vbk := vbk src |} (N.of_nat (length xs)) <=
         alloc_limit ->
         let ys := fresh_ids c (unext u) (length xs) in
         exists (v' : vec) (u' : uw),
           clone_vec c src (v0, u) = Ok tt (v', u') /\
           Rep c v' ys /\
           vbk v' = vbk src /\
           length ys = length xs /\
           unext u' = unext u + N.of_nat (length xs) /\
           ufuse u' = None /\
           uevents u' = rev (clone_events xs ys) ++ uevents u /\
           (fixed_backend (vbk src) -> vcap v' = vcap src).
Proof. exact clone_vec_ok. Qed.

Theorem C08_clone_loop :
  forall (c : cfg) (v : vec) (u : uw) (src : vec) (xs ys rest : list N),
         Held c src 0 (xs ++ rest) ->
         Forall (tok_ok (szn c)) (xs ++ rest) ->
         length ys = length xs ->
         Held c v 0 ys ->
         store_ok c v ->
         N.of_nat (length xs + length rest) <= vcap v ->
         ufuse u = None ->
         exists (m' : mem) (u' : uw),
           clone_loop c (vmem src) (length xs) (length rest) (v, u) = Ok tt (with_mem m' v, u') /\
           length m' = length (vmem v) /\
           Held c (with_mem m' v) 0 (ys ++ fresh_ids c (unext u) (length rest)) /\
           unext u' = unext u + N.of_nat (length rest) /\
           ufuse u' = None /\ ulog u' = rev (clone_events rest (fresh_ids c (unext u) (length rest))) ++ ulog u.
Proof. exact clone_loop_ok. Qed.

Theorem C08_clone_empty :
  forall (c : cfg) (bk : bkind) (u : uw) (v0 : vec),
         bk_wf bk ->
         forall (v' : vec) (u' : uw),
         mem_build c bk (v0, u) = Ok tt (v', u') ->
         Rep c v' [] /\ vbk v' = bk /\ uevents u' = uevents u /\ unext u' = unext u /\ ufuse u' = ufuse u.
Proof. exact mem_build_rep. Qed.

Theorem C08_fresh_ids_length :
  forall (c : cfg) (n0 : N) (k : nat), length (fresh_ids c n0 k) = k.
Proof. exact fresh_ids_length. Qed.

Theorem C08_fresh_ids_distinct :
  forall (c : cfg) (n0 : N) (k : nat),
         c_sz c <> 0 -> NoDup (fresh_ids c n0 k) /\ Forall (fun t : N => n0 <= t) (fresh_ids c n0 k).
Proof. exact fresh_ids_fresh. Qed.


(* ---- histories ---- *)
From AV.Model Require Import Interp.
From AV.Spec Require Import WorldSpec.
From AV.Proofs Require Import WorldProofs.
(** WHOLE HISTORIES: clone / clone_empty / clone_empty_in are part of the history fragment of AV.Props.C01 - in the list specification [WorldSpec.sp_clone] the clone holds NEW values (fresh identities, one Clone event per element in index order), lives in another slot on the same backend kind and the source list is untouched; [C01_history_refines] shows the machine agrees inside any history, so every later operation on either vector leaves the other's list alone (the specification's vectors are separate lists).  Hypothesis [adm_clone]: the contents fit fresh storage of that backend kind - always true for fixed capacity. *)
Theorem C08_clone_in_histories :
  forall (c : cfg) (w : world) (st : astate) (v dst : nat) (r : sres),
         cfg_wf c ->
         WRep c w st ->
         ufuse (wuw w) = None ->
         sp_clone c st (unext (wuw w)) v dst = Some r ->
         adm_clone c w v -> res_matches c w (exec c (OClone v dst) w) r.
Proof. exact exec_clone. Qed.

Theorem C08_clone_empty_in_histories :
  forall (c : cfg) (w : world) (st0 : astate) (dst : nat) (bk : bkind) (v0 : vec) (r : sres),
         WRep c w st0 ->
         ufuse (wuw w) = None ->
         bk_wf bk ->
         sp_new c st0 (unext (wuw w)) dst bk = Some r ->
         res_matches c w
           match mem_build c bk (v0, wuw w) with
           | Ok _ (v, u) => Ok (0, []) (put_vec dst (Some v) u w)
           | Panic p (_, u) => Panic p {| wv := wv w; wuw := u |}
           | Fault f => Fault f
           end r.
Proof. exact exec_build. Qed.

(* ---- end histories ---- *)
Print Assumptions C08_clone.
Print Assumptions C08_clone_loop.
Print Assumptions C08_clone_empty.
Print Assumptions C08_fresh_ids_length.
Print Assumptions C08_fresh_ids_distinct.
Print Assumptions C08_clone_in_histories.
Print Assumptions C08_clone_empty_in_histories.
