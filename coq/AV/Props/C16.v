(** C16 - Uses of a vector conflicting with a live handle are rejected at compile time.
    Finite-domain theorem over the borrow-check verdict table regenerated from /repo. *)
From Coq Require Import List Bool String.
From AV.Static Require Import C16Spec.
From AV.Gen Require Import C16Table.

Theorem C16_table_ok : table_ok c16_domain c16_table = true.
Proof. vm_compute. reflexivity. Qed.

Theorem C16_domain_size : List.length c16_domain = expected_cells.
Proof. vm_compute. reflexivity. Qed.

(** every conflicting program that is not a listed finding is rejected, and its control
    program compiles *)
Theorem C16_conflicts_rejected : forall r c, In (r, c) c16_domain ->
  exists v, find_cell c16_table r c = Some v /\ v_control_accepted v = true /\
            (is_known r c = false -> v_probe_rejected v = true).
Proof. exact (table_ok_sound c16_domain c16_table C16_table_ok). Qed.

Print Assumptions C16_table_ok.
Print Assumptions C16_domain_size.
Print Assumptions C16_conflicts_rejected.
