(** C14 - All iterators are exact-size, double-ended and fused.

    The model's iterators (iter, iter_mut, drain, splice, and the cursor the typed
    counterparts are compared against) all advance through [Ops.cur_next] /
    [Ops.cur_next_back] and report [Ops.cur_len]; the statements quantify over every
    range and every list of next/next_back calls of any length. *)
From AV.Model Require Import Base Ops.
From AV.Proofs Require Import IterProofs.

(** Any interleaving: front items (in call order) ++ not yet yielded ++ reversed back
    items = the ascending list of positions of the range.  Hence every position is
    yielded at most once, front items ascend, back items descend, nothing else appears. *)
Theorem C14_partition : forall calls k,
  cur_wf k ->
  let '(outs, k') := run_cur calls k in
  cur_wf k' /\ fronts outs ++ cur_abs k' ++ rev (backs outs) = cur_abs k.
Proof. exact run_cur_partition. Qed.

(** size_hint() = (len(), Some(len())) = number of items still to come, at every step. *)
Theorem C14_exact_size : forall calls k,
  cur_wf k ->
  let '(outs, k') := run_cur calls k in
  forall pre c post, outs = pre ++ c :: post ->
    (N.to_nat (co_hint c) + yielded (pre ++ [c]) = length (cur_abs k))%nat.
Proof. exact run_cur_hints. Qed.

(** After exhaustion both ends return None forever and the hint stays 0. *)
Theorem C14_fused : forall calls k,
  cur_wf k -> cur_abs k = [] ->
  let '(outs, k') := run_cur calls k in
  k' = k /\ Forall (fun c => co_item c = None /\ co_hint c = 0) outs.
Proof. exact run_cur_fused. Qed.

(** The positions of a range are distinct, so "at most once" above is "exactly once"
    for a fully consumed iterator. *)
Theorem C14_positions_distinct : forall k, NoDup (cur_abs k).
Proof. intros k. apply seqN_NoDup. Qed.

(** Non-vacuity: a concrete range and interleaving. *)
Example C14_example :
  let k := {| ci := 2; ce := 6 |} in
  cur_wf k /\
  map co_item (fst (run_cur [true; false; false; true; true; true; false] k))
  = [Some 2; Some 5; Some 4; Some 3; None; None; None].
Proof. split; [unfold cur_wf; cbn; lia | vm_compute; reflexivity]. Qed.

(* ---- histories ---- *)
From AV.Model Require Import Interp.
From AV.Spec Require Import WorldSpec.
From AV.Proofs Require Import WorldProofs.
From AV.Proofs Require Import IterProofs.
(** WHOLE HISTORIES: iter / iter_mut (typed and erased), an iterator and its clone, nth / nth_back are part of the history fragment of AV.Props.C01.  On the list specification [WorldSpec.sp_look] the iterator is the index cursor [i, j) over the vector's list: next() yields xs[i] and moves i up, next_back() yields xs[j-1] and moves j down, the size hint after every call is exactly j - i, an exhausted cursor keeps answering None ([sp_walk_ro]); a clone continues from the same position without disturbing the original ([sp_adv]); nth(n) / nth_back(n) yield the n-th element from that end and consume n + 1, or exhaust the iterator ([sp_walk_nth]).  The byte-level machine does exactly this for EVERY call sequence at any point of any history, and leaves every vector untouched ([C14_look_in_histories], by the inductions [C14_walk_ro], [C14_walk_nth]). *)
Theorem C14_walk_ro :
  forall (c : Vec.cfg) (w : world) (vid : nat) (av : avec) (vv : Vec.vec),
         get_vec vid w = Some vv ->
         VI c vv av ->
         forall (pat : list bool) (i j : nat) (ww : world),
         same_world w ww ->
         (i <= j)%nat ->
         (j <= length (a_xs av))%nat ->
         exists ww' : world,
           walk_ro c vid pat {| ci := N.of_nat i; ce := N.of_nat j |} ww =
           Ok (sp_walk_ro (a_xs av) pat i j) ww' /\ same_world w ww'.
Proof. exact walk_ro_spec. Qed.

Theorem C14_walk_nth :
  forall (c : Vec.cfg) (w : world) (vid : nat) (av : avec) (vv : Vec.vec),
         get_vec vid w = Some vv ->
         VI c vv av ->
         forall (pat : list (bool * N)) (i j : nat) (ww : world),
         same_world w ww ->
         (i <= j)%nat ->
         (j <= length (a_xs av))%nat ->
         exists ww' : world,
           walk_nth c vid pat {| ci := N.of_nat i; ce := N.of_nat j |} ww =
           Ok (sp_walk_nth (a_xs av) pat i j) ww' /\ same_world w ww'.
Proof. exact walk_nth_spec. Qed.

Theorem C14_look_in_histories :
  forall (c : Vec.cfg) (w : world) (st : astate) (o : op) (r : sres),
         Rep.cfg_wf c ->
         WRep c w st ->
         ufuse (wuw w) = None -> sp_look c st (unext (wuw w)) o = Some r -> res_matches c w (exec c o w) r.
Proof. exact exec_look. Qed.

(** the cursor arithmetic never leaves the machine's index space: from a well-formed cursor whose end is a machine integer, every call sequence keeps index <= end <= usize::MAX, every size hint and every yielded position is a machine integer - no `index + 1` wraps, no `end - 1` underflows; the unbounded arithmetic of the model is the machine's *)
Theorem C14_cursor_stays_in_index_space :
  forall (calls : list bool) (k : cursor),
         cur_in_range k ->
         let
         '(outs, k') := run_cur calls k in
          cur_in_range k' /\
          Forall
            (fun o : call_out =>
             co_hint o <= usize_max /\ match co_item o with
                                       | Some x => x < usize_max
                                       | None => True
                                       end) outs.
Proof. exact run_cur_in_range. Qed.

(** the hypothesis holds for the cursor of `cursor_max`: usize::MAX-3 .. usize::MAX *)
Theorem C14_cursor_at_the_end_of_the_index_space :
  cur_in_range {| ci := usize_max - 3; ce := usize_max |}.
Proof. exact cursor_at_the_end_in_range. Qed.

(* ---- end histories ---- *)
Print Assumptions C14_partition.
Print Assumptions C14_exact_size.
Print Assumptions C14_fused.
Print Assumptions C14_positions_distinct.
Print Assumptions C14_walk_ro.
Print Assumptions C14_walk_nth.
Print Assumptions C14_look_in_histories.
Print Assumptions C14_cursor_stays_in_index_space.
Print Assumptions C14_cursor_at_the_end_of_the_index_space.
