(** C05 - Storage is accessed only in bounds, initialised, and never via stale pointers.

    In the model every memory access goes through [check_range] (inside capacity x element size of
    the CURRENT storage, else Fault FOob), every cached pointer carries the storage generation it
    was taken at (else Fault FStale; every capacity change of a relocating backend bumps the
    generation), every typed read decodes a whole initialised value (else Fault FDecode).  The
    theorems say that on a state representing a list NO operation reaches a Fault, for every
    element size, capacity and backend kind, with the complete case split (room / can grow / fixed
    and full => panic); plus the storage lifecycle of the user-defined backend: one build with the
    element layout, no resize request below the live length, release once after the remaining
    elements are destroyed.  PARTIAL: whole histories through [Interp.exec] (composition of these
    steps, including moves between vectors) are covered by the correspondence check on the
    relocating, poison-filling, quarantining backend of the harness. *)
From AV.Model Require Import Base Bytes Vec Ops.
From AV.Spec Require Import VecSpec.
From AV.Proofs Require Import MemLemmas Rep VecProofs TempProofs RangeProofs CapProofs NoFault HandleProofs.

Theorem C05_push_no_fault :
  forall (c : cfg) (v : vec) (u : uw) (xs : list N) (t : N) (k : bool),
         cfg_wf c ->
         Rep c v xs ->
         tok_ok (szn c) t -> can_take c v 1 -> not_fault (push_unchecked c (VBytes (enc (szn c) t) k) (v, u)).
Proof. exact push_no_fault. Qed.

(** any index, in range or not *)
Theorem C05_insert_no_fault :
  forall (c : cfg) (v : vec) (u : uw) (xs : list N) (t : N) (k : bool) (i : N),
         cfg_wf c ->
         Rep c v xs ->
         tok_ok (szn c) t ->
         can_take c v 1 -> not_fault (insert_unchecked c i (VBytes (enc (szn c) t) k) (v, u)).
Proof. exact insert_no_fault. Qed.

(** pop / remove / swap_remove handles incl. the cached swap_remove pointer *)
Theorem C05_handle_no_fault :
  forall (c : cfg) (v : vec) (u : uw) (xs : list N) (k : tkind) (i : nat) (h : temp) (known : bool),
         Rep c v xs ->
         temp_req k i xs ->
         temp_for c v xs k i h ->
         ufuse u = None ->
         not_fault (temp_new c k (N.of_nat i) (v, u)) /\
         not_fault (temp_bytes c h (with_len (N.of_nat i) v, u)) /\
         not_fault (temp_consume c known h (with_len (N.of_nat i) v, u)) /\
         not_fault (temp_drop c known h (with_len (N.of_nat i) v, u)).
Proof. exact handle_no_fault. Qed.

Theorem C05_clear_no_fault :
  forall (c : cfg) (v : vec) (u : uw) (xs : list N),
         Rep c v xs -> ufuse u = None -> not_fault (clear c (v, u)).
Proof. exact clear_no_fault. Qed.

Theorem C05_read_no_fault :
  forall (c : cfg) (v : vec) (u : uw) (xs : list N) (i : nat),
         Rep c v xs -> (i < length xs)%nat -> not_fault (read_ptr c (ptr_at c v (N.of_nat i)) (v, u)).
Proof. exact read_no_fault. Qed.

Theorem C05_drain_drop_no_fault :
  forall (c : cfg) (v : vec) (u : uw) (xs : list N) (s e i j : nat) (known : bool),
         RangeAlive c v xs s e i j ->
         ufuse u = None ->
         not_fault
           (drain_drop c known
              {|
                dcur := {| ci := N.of_nat i; ce := N.of_nat j |};
                dstart := N.of_nat s;
                dend := N.of_nat e;
                dorig := N.of_nat (length xs)
              |} (v, u)).
Proof. exact drain_drop_no_fault. Qed.

Theorem C05_splice_drop_no_fault :
  forall (c : cfg) (v : vec) (u : uw) (xs : list N) (s e i j : nat) (known : bool) 
           (ts : list N) (k : bool),
         cfg_wf c ->
         RangeAlive c v xs s e i j ->
         ufuse u = None ->
         Forall (tok_ok (szn c)) ts ->
         let new_len := (s + length ts + (length xs - e))%nat in
         N.of_nat new_len <= usize_max ->
         N.of_nat new_len <= vcap v \/ grow_ok c v (N.of_nat new_len) \/ fixed_backend (vbk v) ->
         not_fault
           (splice_drop c known
              {|
                dcur := {| ci := N.of_nat i; ce := N.of_nat j |};
                dstart := N.of_nat s;
                dend := N.of_nat e;
                dorig := N.of_nat (length xs)
              |} (N.of_nat (length ts)) (map (fun t : N => honest_item c t k) ts) (
              v, u)).
Proof. exact splice_drop_no_fault. Qed.

Theorem C05_reserve_no_fault :
  forall (c : cfg) (v : vec) (u : uw) (xs : list N) (n : N),
         cfg_wf c -> Rep c v xs -> vlen v + n <= usize_max -> can_take c v n -> not_fault (reserve c n (v, u)).
Proof. exact reserve_no_fault. Qed.

Theorem C05_shrink_no_fault :
  forall (c : cfg) (v : vec) (u : uw) (xs : list N) (m : N),
         cfg_wf c ->
         Rep c v xs ->
         resizable_backend (vbk v) ->
         c_sz c * vcap v <= alloc_limit ->
         not_fault (shrink_to c m (v, u)) /\ not_fault (shrink_to_fit c (v, u)).
Proof. exact shrink_no_fault. Qed.

Theorem C05_build_once_with_element_layout :
  forall (c : cfg) (c0 : N) (v0 : vec) (u : uw),
         mem_build c (BReloc c0) (v0, u) =
         Ok tt
           ({| vlen := 0; vcap := c0; vmem := uninit (N.to_nat (c_sz c * c0)); vgen := 0; vbk := BReloc c0 |},
            emit (EBuild (c_sz c) (c_al c)) u).
Proof. exact build_reloc_event. Qed.

Theorem C05_shrink_never_below_len :
  forall (c : cfg) (c0 : N) (v : vec) (u : uw) (m : N),
         vbk v = BReloc c0 ->
         forall r : res st unit,
         shrink_to c m (v, u) = r ->
         r = Ok tt (v, u) /\ vcap v <= N.max (vlen v) m \/
         (exists n : N, vlen v <= n /\ n < vcap v /\ r = reloc_resize c n (v, emit (EResize n) u)).
Proof. exact shrink_request_ge_len. Qed.

Theorem C05_shrink_to_fit_request :
  forall (c : cfg) (c0 : N) (v : vec) (u : uw),
         vbk v = BReloc c0 -> shrink_to_fit c (v, u) = reloc_resize c (vlen v) (v, emit (EResize (vlen v)) u).
Proof. exact shrink_to_fit_request. Qed.

Theorem C05_release_after_elements :
  forall (c : cfg) (c0 : N) (v : vec) (u : uw) (xs : list N),
         Rep c v xs ->
         ufuse u = None ->
         vbk v = BReloc c0 ->
         exists (v' : vec) (u' : uw),
           drop_vec c (v, u) = Ok tt (v', u') /\
           vlen v' = 0 /\ ulog u' = EMemDrop :: (if c_dg c then rev (map EDrop xs) else []) ++ ulog u.
Proof. exact drop_vec_reloc. Qed.


(* ---- histories ---- *)
From AV.Model Require Import Interp.
From AV.Spec Require Import WorldSpec.
From AV.Proofs Require Import WorldProofs.
(** WHOLE HISTORIES: no step of any history of the fragment (see AV.Props.C01, C01_history_refines) reaches a Fault - out-of-bounds access, stale pointer after a capacity change, typed read of uninitialised or moved-out bytes, backend misuse - on every backend kind, including the relocating one with prebuilt capacity (outcome codes >= 100 are the faults). *)
Theorem C05_history_no_fault :
  forall (c : cfg) (ops : list op) (w : world) (st : astate) (rs : list sres),
         cfg_wf c ->
         WRep c w st ->
         spec_run c st (unext (wuw w)) ops = Some rs ->
         Admissible c w ops -> Forall (fun sr : step_result => sr_out sr < 100) (run_hist c ops w).
Proof. exact history_no_fault. Qed.

(* ---- end histories ---- *)
Print Assumptions C05_push_no_fault.
Print Assumptions C05_insert_no_fault.
Print Assumptions C05_handle_no_fault.
Print Assumptions C05_clear_no_fault.
Print Assumptions C05_read_no_fault.
Print Assumptions C05_drain_drop_no_fault.
Print Assumptions C05_splice_drop_no_fault.
Print Assumptions C05_reserve_no_fault.
Print Assumptions C05_shrink_no_fault.
Print Assumptions C05_build_once_with_element_layout.
Print Assumptions C05_shrink_never_below_len.
Print Assumptions C05_shrink_to_fit_request.
Print Assumptions C05_release_after_elements.
Print Assumptions C05_history_no_fault.
