(** C07 - Forgetting a removal handle or range iterator only leaks.

    'Forget' is 'the finishing step never runs', so the state after a forget is the state while
    the handle is alive.  For a removal handle at index i that state represents [firstn i xs]
    ([C07_handle_alive]); for a drain / splice over [s, e) at ANY cursor position it represents
    [firstn s xs] ([C07_range_alive]): elements before the index are unchanged, elements at or
    after it are missing, the vector is a valid [Rep] (so every later operation is covered by
    C01/C02), and a prefix of a duplicate-free list is duplicate-free.  Forgetting a yielded item
    changes nothing in the model (the item is a pointer). *)
From AV.Model Require Import Base Bytes Vec Ops.
From AV.Spec Require Import VecSpec.
From AV.Proofs Require Import MemLemmas Rep VecProofs TempProofs RangeProofs FaultProofs.

(** creating the handle lowers len to the index and changes nothing else *)
Theorem C07_handle_new :
  forall (c : cfg) (v : vec) (u : uw) (xs : list N) (k : tkind) (i : nat),
         Rep c v xs ->
         temp_req k i xs ->
         exists h : temp,
           temp_new c k (N.of_nat i) (v, u) = Ok h (with_len (N.of_nat i) v, u) /\ temp_for c v xs k i h.
Proof. exact temp_new_spec. Qed.

Theorem C07_handle_alive :
  forall (c : cfg) (v : vec) (xs : list N) (i : nat),
         Rep c v xs -> (i <= length xs)%nat -> Rep c (with_len (N.of_nat i) v) (firstn i xs).
Proof. exact temp_alive_rep. Qed.

Theorem C07_range_new :
  forall (c : cfg) (v : vec) (xs : list N) (s e : nat),
         Rep c v xs ->
         (s <= e)%nat -> (e <= length xs)%nat -> RangeAlive c (with_len (N.of_nat s) v) xs s e s e.
Proof. exact range_alive_init. Qed.

Theorem C07_range_alive :
  forall (c : cfg) (v : vec) (xs : list N) (s e i j : nat),
         RangeAlive c v xs s e i j -> Rep c v (firstn s xs).
Proof. exact drain_forget_rep. Qed.

Theorem C07_prefix_nodup :
  forall (xs : list N) (n : nat), NoDup xs -> NoDup (firstn n xs).
Proof. exact prefix_nodup. Qed.


(* ---- histories ---- *)
From AV.Model Require Import Base Bytes Vec Ops Interp.
From AV.Spec Require Import WorldSpec.
From AV.Proofs Require Import WorldProofs OwnHistory.
(** WHOLE HISTORIES: leaking is a step of the history fragment of AV.Props.C01 at every stage - a removal handle ([KForget] sink of [WorldSpec.sp_sink], also after it was written through or lazily cloned), a drain or splice iterator with the cursor anywhere ([FinForget]), and an ITEM it yielded ([KForget] in [WorldSpec.sp_walk_mv]) while the iterator itself is dropped, leaked or consumed further.  [C07_leaked_drain_in_histories] / [C07_leaked_splice_in_histories]: the byte-level machine does what the list specification says at any point of any history - elements in front of the range unchanged, nothing behind it visible unless the iterator was dropped; [C07_leak_accounting]: the only effect on ownership is that the leaked values ([OwnHistory.leak_of]) are never destroyed - nothing is duplicated or destroyed twice. *)
Theorem C07_forgotten_handle_in_histories :
  forall (c : cfg) (a : api) (sk : sink) (w : world) (st : astate) (vid : nat) 
           (av : avec) (k : tkind) (i : nat) (vv : vec) (h : temp) (r : sres),
         cfg_wf c ->
         WRep c w st ->
         get_a vid st = Some av ->
         temp_req k i (a_xs av) ->
         get_vec vid w = Some vv ->
         VI c vv av ->
         temp_for c vv (a_xs av) k i h ->
         ufuse (wuw w) = None ->
         (forall d : nat, In d (sink_dsts sk) -> d <> vid -> adm_many c w d (sink_count sk d)) ->
         sp_sink c st (unext (wuw w)) vid av k i sk = Some r ->
         match
           apply_sink c vid (known_of a) h sk (put_vec vid (Some (with_len (N.of_nat i) vv)) (wuw w) w)
         with
         | Ok rets w2 =>
             s_out r = 0 /\
             s_pk r = 0 /\ s_ret r = rets /\ step_ok c w w2 (s_st r) (s_evs r) (s_nx r - unext (wuw w))
         | Panic p w2 =>
             s_out r = 2 /\
             s_pk r = panic_code p /\
             s_ret r = [] /\ step_ok c w w2 (s_st r) (s_evs r) (s_nx r - unext (wuw w))
         | Fault _ => False
         end.
Proof. exact sink_spec. Qed.

Theorem C07_leaked_drain_in_histories :
  forall (c : cfg) (w : world) (st : astate) (a : api) (vid : nat) (sb eb : bound)
           (pat : list (bool * sink)) (f : fin) (r : sres),
         cfg_wf c ->
         WRep c w st ->
         ufuse (wuw w) = None ->
         sp_drain_mv c st (unext (wuw w)) vid sb eb pat f = Some r ->
         adm_pat c w vid pat -> res_matches c w (exec c (ODrain a vid sb eb pat f) w) r.
Proof. exact exec_drain_mv. Qed.

Theorem C07_leaked_splice_in_histories :
  forall (c : cfg) (w : world) (st : astate) (a : api) (vid : nat) (sb eb : bound)
           (pat : list (bool * sink)) (f : fin) (rk : rkind) (n : N) (wrong_at : option N) 
           (claimed : N) (r : sres),
         cfg_wf c ->
         WRep c w st ->
         ufuse (wuw w) = None ->
         sp_splice_mv c st (unext (wuw w)) vid sb eb pat f rk n wrong_at claimed = Some r ->
         adm_splice c w vid sb eb claimed ->
         adm_pat c w vid pat -> res_matches c w (exec c (OSplice a vid sb eb pat f rk n wrong_at claimed) w) r.
Proof. exact exec_splice_mv. Qed.

(** after every step: created = visible + destroyed + leaked, as multisets - with [leak_of] saying exactly which values a forgotten handle, iterator or item leaks *)
Theorem C07_leak_accounting :
  forall c : cfg,
         c_dg c = true ->
         forall (st : astate) (nx : N) (o : op) (r : sres) (D L : list N),
         1 <= nx ->
         spec_step c st nx o = Some r ->
         Permutation.Permutation (created c nx) (vis st ++ D ++ L) ->
         Permutation.Permutation (created c (s_nx r))
           (vis (s_st r) ++ (D ++ drops (s_evs r)) ++ L ++ leak_of c st nx o).
Proof. exact step_own. Qed.

(* ---- end histories ---- *)
Print Assumptions C07_handle_new.
Print Assumptions C07_handle_alive.
Print Assumptions C07_range_new.
Print Assumptions C07_range_alive.
Print Assumptions C07_prefix_nodup.
Print Assumptions C07_forgotten_handle_in_histories.
Print Assumptions C07_leaked_drain_in_histories.
Print Assumptions C07_leaked_splice_in_histories.
Print Assumptions C07_leak_accounting.
