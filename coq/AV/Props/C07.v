(** C07 - Forgetting a removal handle or range iterator only leaks.

    'Forget' is 'the finishing step never runs', so the state after a forget is the state while
    the handle is alive.  For a removal handle at index i that state represents [firstn i xs]
    ([C07_handle_alive]); for a drain / splice over [s, e) at ANY cursor position it represents
    [firstn s xs] ([C07_range_alive]): elements before the index are unchanged, elements at or
    after it are missing, the vector is a valid [Rep] (so every later operation is covered by
    C01/C02), and a prefix of a duplicate-free list is duplicate-free.  Forgetting a yielded item
    changes nothing in the model (the item is a pointer). *)
From AV.Model Require Import Base Bytes Vec Ops.
From AV.Spec Require Import VecSpec.
From AV.Proofs Require Import MemLemmas Rep VecProofs TempProofs RangeProofs FaultProofs.

(** creating the handle lowers len to the index and changes nothing else *)
Theorem C07_handle_new :
  forall (c : cfg) (v : vec) (u : uw) (xs : list N) (k : tkind) (i : nat),
         Rep c v xs ->
         temp_req k i xs ->
         exists h : temp,
           temp_new c k (N.of_nat i) (v, u) = Ok h (with_len (N.of_nat i) v, u) /\ temp_for c v xs k i h.
Proof. exact temp_new_spec. Qed.

Theorem C07_handle_alive :
  forall (c : cfg) (v : vec) (xs : list N) (i : nat),
         Rep c v xs -> (i <= length xs)%nat -> Rep c (with_len (N.of_nat i) v) (firstn i xs).
Proof. exact temp_alive_rep. Qed.

Theorem C07_range_new :
  forall (c : cfg) (v : vec) (xs : list N) (s e : nat),
         Rep c v xs ->
         (s <= e)%nat -> (e <= length xs)%nat -> RangeAlive c (with_len (N.of_nat s) v) xs s e s e.
Proof. exact range_alive_init. Qed.

Theorem C07_range_alive :
  forall (c : cfg) (v : vec) (xs : list N) (s e i j : nat),
         RangeAlive c v xs s e i j -> Rep c v (firstn s xs).
Proof. exact drain_forget_rep. Qed.

Theorem C07_prefix_nodup :
  forall (xs : list N) (n : nat), NoDup xs -> NoDup (firstn n xs).
Proof. exact prefix_nodup. Qed.


Print Assumptions C07_handle_new.
Print Assumptions C07_handle_alive.
Print Assumptions C07_range_new.
Print Assumptions C07_range_alive.
Print Assumptions C07_prefix_nodup.
