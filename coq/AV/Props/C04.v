(** C04 - Values of the wrong runtime type are never admitted or reinterpreted.

    Decision rule on the model: [Interp.offer_into] is what AnyVec::push / insert do - compare the
    value's type id with the vector's, then run the raw operation.  For EVERY raw operation
    [action] (so in particular push_unchecked and insert_unchecked at any index), every world and
    every vector: a checked value of another type panics with PType before [action] is reached, the
    vectors of the world are untouched, an owning wrapper destroys its value exactly once and a
    borrowed one (raw pointer wrapper, lazy clone) does nothing at all; with the right type the check
    is transparent.  Splice's per-item check sits inside [Ops.splice_fill] in front of every write
    (same [assert_] on [r_ty]); that a rejected splice leaves a valid vector is [C11_splice_beyond]
    / [C06_splice_liar]-style reasoning on [splice_drop] and is PARTIAL here (covered by the
    correspondence check's `types' family, as are the downcast / type-report entry points whose
    model is a constant table: OProbeTypes, ODownWrong, OSwapWrong). *)
From AV.Model Require Import Base Bytes Vec Ops Interp.
From AV.Proofs Require Import MemLemmas Rep HandleProofs.

Theorem C04_wrong_type_owned_value_rejected :
  forall (c : cfg) (vid : nat) (o : offer) (action : vsrc -> M st unit) (w : world) (t : N),
         f_checked o = true ->
         (f_ty o =? c_ty c) = false ->
         f_drop o = DOwned t ->
         offer_into c vid o action w =
         Panic PType {| wv := wv w; wuw := if c_dg c then emit (EDrop t) (wuw w) else wuw w |}.
Proof. exact offer_wrong_type_owned. Qed.

Theorem C04_wrong_type_borrowed_value_rejected :
  forall (c : cfg) (vid : nat) (o : offer) (action : vsrc -> M st unit) (w : world),
         f_checked o = true ->
         (f_ty o =? c_ty c) = false -> f_drop o = DNone -> offer_into c vid o action w = Panic PType w.
Proof. exact offer_wrong_type_borrowed. Qed.

Theorem C04_right_type_check_transparent :
  forall (c : cfg) (vid : nat) (o : offer) (action : vsrc -> M st unit) (w : world),
         (f_ty o =? c_ty c) = true ->
         offer_into c vid o action w =
         (unwinding (on_vec vid (action (f_src o))) (drop_offer c o);; finish_offer c o) w.
Proof. exact offer_right_type. Qed.

(** Non-vacuity: a wrong-typed owned value offered to a non-empty vector. *)
Example C04_example :
  let c := {| c_sz := 2; c_al := 2; c_dg := true; c_cl := true; c_trap := true; c_ty := 1 |} in
  let w0 := init_world in
  match (exec c (ONew 0 BHeap);; exec c (OPush Erased 0 SWrap);; exec c (OPush Erased 0 (SWrong 7))) w0 with
  | Panic PType w => world_snaps c w = [Some (Some [1])]
  | _ => False
  end.
Proof. vm_compute. reflexivity. Qed.

Print Assumptions C04_wrong_type_owned_value_rejected.
Print Assumptions C04_wrong_type_borrowed_value_rejected.
Print Assumptions C04_right_type_check_transparent.
