(** C04 - Values of the wrong runtime type are never admitted or reinterpreted.

    Decision rule on the model: [Interp.offer_into] is what AnyVec::push / insert do - compare the
    value's type id with the vector's, then run the raw operation.  For EVERY raw operation
    [action] (so in particular push_unchecked and insert_unchecked at any index), every world and
    every vector: a checked value of another type panics with PType before [action] is reached, the
    vectors of the world are untouched, an owning wrapper destroys its value exactly once and a
    borrowed one (raw pointer wrapper, lazy clone) does nothing at all; with the right type the check
    is transparent.  Splice: [C04_splice_wrong_type] - for EVERY range, cursor position, number of correctly typed items in
    front of the wrong one and of items behind it: Splice::drop panics with PType before the wrong value
    is written, the vector is left VALID (it represents the elements in front of the range; tail and
    already written replacement values are leaked, which C04/C06 permit), the wrong value and the items
    the iterator still held are destroyed exactly once each.  PARTIAL: the downcast / type-report entry
    points are a constant table in the model (OProbeTypes, ODownWrong, OSwapWrong) and are covered by the
    correspondence check's `types' family only. *)
From AV.Model Require Import Base Bytes Vec Ops Interp.
From AV.Spec Require Import VecSpec.
From AV.Proofs Require Import MemLemmas Rep RangeProofs HandleProofs TypeProofs.

Theorem C04_wrong_type_owned_value_rejected :
  forall (c : cfg) (vid : nat) (o : offer) (action : vsrc -> M st unit) (w : world) (t : N),
         f_checked o = true ->
         (f_ty o =? c_ty c) = false ->
         f_drop o = DOwned t ->
         offer_into c vid o action w =
         Panic PType {| wv := wv w; wuw := if c_dg c then emit (EDrop t) (wuw w) else wuw w |}.
Proof. exact offer_wrong_type_owned. Qed.

Theorem C04_wrong_type_borrowed_value_rejected :
  forall (c : cfg) (vid : nat) (o : offer) (action : vsrc -> M st unit) (w : world),
         f_checked o = true ->
         (f_ty o =? c_ty c) = false -> f_drop o = DNone -> offer_into c vid o action w = Panic PType w.
Proof. exact offer_wrong_type_borrowed. Qed.

Theorem C04_right_type_check_transparent :
  forall (c : cfg) (vid : nat) (o : offer) (action : vsrc -> M st unit) (w : world),
         (f_ty o =? c_ty c) = true ->
         offer_into c vid o action w =
         (unwinding (on_vec vid (action (f_src o))) (drop_offer c o);; finish_offer c o) w.
Proof. exact offer_right_type. Qed.

(** per-item check of splice *)
Theorem C04_splice_wrong_type :
  forall (c : cfg) (v : vec) (u : uw) (xs : list N) (s e i j : nat) (known : bool) 
           (good : list N) (tb : N) (rest : list N) (k : bool) (ty : N),
         cfg_wf c ->
         RangeAlive c v xs s e i j ->
         ufuse u = None ->
         (ty =? c_ty c) = false ->
         let items :=
           map (fun t : N => honest_item c t k) good ++
           typed_item c tb k ty :: map (fun t : N => honest_item c t k) rest in
         let n := length items in
         let new_len := (s + n + (length xs - e))%nat in
         N.of_nat new_len <= vcap v \/ grow_ok c v (N.of_nat new_len) ->
         let d :=
           {|
             dcur := {| ci := N.of_nat i; ce := N.of_nat j |};
             dstart := N.of_nat s;
             dend := N.of_nat e;
             dorig := N.of_nat (length xs)
           |} in
         exists (v' : vec) (u' : uw),
           splice_drop c known d (N.of_nat n) items (v, u) = Panic PType (v', u') /\
           Rep c v' (firstn s xs) /\
           vbk v' = vbk v /\
           ufuse u' = None /\
           unext u' = unext u /\
           uevents u' =
           (if c_dg c then rev (map EDrop (tb :: rest)) else []) ++
           repeat ENext (S (length good)) ++
           (if c_dg c then rev (map EDrop (firstn (j - i) (skipn i xs))) else []) ++ uevents u /\
           (N.of_nat new_len <= vcap v -> vcap v' = vcap v).
Proof. exact splice_drop_wrong_type. Qed.

(** Non-vacuity: a wrong-typed owned value offered to a non-empty vector. *)
Example C04_example :
  let c := {| c_sz := 2; c_al := 2; c_dg := true; c_cl := true; c_trap := true; c_ty := 1 |} in
  let w0 := init_world in
  match (exec c (ONew 0 BHeap);; exec c (OPush Erased 0 SWrap);; exec c (OPush Erased 0 (SWrong 7))) w0 with
  | Panic PType w => world_snaps c w = [Some (Some [1])]
  | _ => False
  end.
Proof. vm_compute. reflexivity. Qed.

(* ---- histories ---- *)
From AV.Model Require Import Interp.
From AV.Spec Require Import WorldSpec.
From AV.Proofs Require Import WorldProofs.
(** WHOLE HISTORIES: the run-time type checks are steps of the history fragment of AV.Props.C01 and hold at any point of any history: a value of another type offered to the erased push / insert is refused with PType BEFORE anything else is looked at (also before the index), destroyed once, and nothing else changes ([WorldSpec.sp_offer_wrong], [C04_wrong_offer_in_histories]); a removal handle whose downcast to another type is refused behaves as a dropped handle ([C04_refused_downcast_in_histories]); the type probes (downcasts of the vector, of element references and of element handles succeed for the element type and for no other; reported type id and layout) and the refused swap with a value of another type ([WorldSpec.sp_look], cases OProbeTypes / OSwapWrong: [C04_type_checks_in_histories]).  Splices with a wrong-typed replacement value are steps of the fragment too: [WorldSpec.sp_splice_wrong], [C04_wrong_splice_in_histories] (on top of the one-step theorem [C04_splice_wrong_type]). *)
Theorem C04_type_checks_in_histories :
  forall (c : cfg) (w : world) (st : astate) (o : op) (r : sres),
         cfg_wf c ->
         WRep c w st ->
         ufuse (wuw w) = None -> sp_look c st (unext (wuw w)) o = Some r -> res_matches c w (exec c o w) r.
Proof. exact exec_look. Qed.

Theorem C04_wrong_offer_in_histories :
  forall (c : cfg) (w : world) (st0 : astate) (vid : nat) (s : src) (k : N) 
           (action : vsrc -> M st unit) (r : sres),
         WRep c w st0 ->
         ufuse (wuw w) = None ->
         s = SWrong k \/ s = SBoxWrong k ->
         sp_offer_wrong c st0 (unext (wuw w)) vid k = Some r ->
         res_matches c w ((do o <- make_offer c s; offer_into c vid o action;; ret (0, [])) w) r.
Proof. exact exec_offer_wrong. Qed.

Theorem C04_refused_downcast_in_histories :
  forall (c : cfg) (w : world) (st : astate) (vid : nat) (k : tkind) (idx : N) (r0 : sres),
         cfg_wf c ->
         WRep c w st ->
         ufuse (wuw w) = None ->
         sp_take c st (unext (wuw w)) vid k match k with
                                            | TPop => 0
                                            | _ => idx
                                            end KDrop = Some r0 ->
         res_matches c w (exec c (ODownWrong vid k idx) w)
           (if s_out r0 =? 0
            then
             {|
               s_out := 0;
               s_pk := 0;
               s_ret := [1; c_sz c; 0; 0; 0];
               s_evs := s_evs r0;
               s_st := s_st r0;
               s_nx := s_nx r0
             |}
            else r0).
Proof. exact exec_down_wrong. Qed.

(** splice whose j-th replacement value (of n, honestly announced) has another runtime type, as a step of any history, for every range and cursor position: refused with PType by the per-item check; the vector keeps exactly the elements in front of the range - shorter but valid and fully usable by every later step -, the refused value and those behind it are destroyed once each, the values already written are leaked with the tail (never visible, never destroyed twice) *)
Theorem C04_wrong_splice_in_histories :
  forall (c : cfg) (w : world) (st : astate) (a : api) (vid : nat) (sb eb : bound)
           (pat : list (bool * sink)) (f : fin) (rk : rkind) (n j claimed : N) (r : sres),
         cfg_wf c ->
         WRep c w st ->
         ufuse (wuw w) = None ->
         sp_splice_wrong c st (unext (wuw w)) vid sb eb pat f rk n j claimed = Some r ->
         adm_splice c w vid sb eb claimed ->
         res_matches c w (exec c (OSplice a vid sb eb pat f rk n (Some j) claimed) w) r.
Proof. exact exec_splice_wrong. Qed.

(* ---- end histories ---- *)
Print Assumptions C04_wrong_type_owned_value_rejected.
Print Assumptions C04_wrong_type_borrowed_value_rejected.
Print Assumptions C04_right_type_check_transparent.
Print Assumptions C04_splice_wrong_type.
Print Assumptions C04_type_checks_in_histories.
Print Assumptions C04_wrong_offer_in_histories.
Print Assumptions C04_refused_downcast_in_histories.
Print Assumptions C04_wrong_splice_in_histories.
