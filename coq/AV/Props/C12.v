(** C12 - Byte and slice views expose exactly the initialised elements, correctly aligned.

    In the model the storage IS the byte list: as_bytes is its first len * size cells, the spare
    view the (cap - len) * size cells that follow; [Rep] says the former are exactly the
    encodings of the elements ([C12_bytes_are_the_elements]), and values written into the spare
    part become exactly the new tail after set_len ([C12_spare_write_set_len]).  PARTIAL:
    addresses are not modelled, so the alignment clause (storage pointer aligned for the element
    type, for every placement of the vector object) is decided by the correspondence check
    alone; for over-aligned element types on the inline stack buffers it is a KNOWN FINDING (D7). *)
From AV.Model Require Import Base Bytes Vec.
From AV.Spec Require Import VecSpec.
From AV.Proofs Require Import MemLemmas Rep VecProofs.

Theorem C12_bytes_are_the_elements :
  forall (c : cfg) (v : vec) (xs : list N), Rep c v xs -> Held c v 0 xs.
Proof. exact rep_held. Qed.

Theorem C12_snapshot :
  forall (c : cfg) (v : vec) (xs : list N), Rep c v xs -> snapshot c v = Some xs.
Proof. exact snapshot_rep. Qed.

Theorem C12_spare_write_set_len :
  forall (c : cfg) (v : vec) (u : uw) (xs ys : list N) (m' : list cell),
         Rep c v xs ->
         Forall (tok_ok (szn c)) ys ->
         N.of_nat (length xs + length ys) <= vcap v ->
         length m' = length (vmem v) ->
         firstn (length xs * szn c) m' = firstn (length xs * szn c) (vmem v) ->
         firstn (length ys * szn c) (skipn (length xs * szn c) m') = flat (szn c) ys ->
         exists v' : vec,
           set_len c (N.of_nat (length xs + length ys)) (with_mem m' v, u) = Ok tt (v', u) /\
           Rep c v' (xs ++ ys).
Proof. exact spare_write_set_len. Qed.


(* ---- histories ---- *)
From AV.Model Require Import Base Vec Ops Interp.
From AV.Spec Require Import WorldSpec.
From AV.Proofs Require Import WorldCore WorldMore WorldProofs.
(** WHOLE HISTORIES: values written into the spare capacity (spare_bytes_mut of the erased vector, spare_capacity_mut of the typed view) followed by set_len are a step of the history fragment of AV.Props.C01: in the list specification the k fresh values become the new tail ([sp_spare_write]), the machine agrees from every represented world in which they fit below the capacity (the caller's obligation, [admissible]), and [C01_history_refines] / [C03_history_accounting] therefore cover scripts in which such writes are interleaved with every other operation of the fragment.  The byte and typed views of every vector in every state of every such history are those of the represented list ([C12_bytes_are_the_elements] and [C12_snapshot] apply: [C01_history_snapshots]).  On the fixed-capacity backends the geometry of all four views is a step of the fragment as well ([sp_views]; on the resizable backends the capacity is not part of the list specification and the geometry is the model's definition compared with the implementation). *)
Theorem C12_spare_write_in_histories :
  forall (c : cfg) (w : world) (st : astate) (a : api) (v : nat) (k : N) (r : sres),
         cfg_wf c ->
         WRep c w st ->
         ufuse (wuw w) = None ->
         sp_spare_write c st (unext (wuw w)) v k = Some r ->
         (forall vv : vec, get_vec v w = Some vv -> vlen vv + k <= vcap vv) ->
         res_matches c w (exec c (OSpareWrite a v k) w) r.
Proof. exact exec_spare_write. Qed.

(** the view geometry report as a step of any history, on the backends whose capacity the backend kind fixes (Stack, StackN, Empty): as_bytes covers exactly len x size bytes from offset 0, the spare views exactly the (capacity - len) x size bytes behind them, the typed views the same elements *)
Theorem C12_views_in_histories :
  forall (c : cfg) (w : world) (st : astate) (v : nat) (r : sres),
         WRep c w st ->
         ufuse (wuw w) = None ->
         sp_views c st (unext (wuw w)) v = Some r -> res_matches c w (exec c (OViews v) w) r.
Proof. exact exec_views. Qed.

(* ---- end histories ---- *)
Print Assumptions C12_bytes_are_the_elements.
Print Assumptions C12_snapshot.
Print Assumptions C12_spare_write_set_len.
Print Assumptions C12_spare_write_in_histories.
Print Assumptions C12_views_in_histories.
