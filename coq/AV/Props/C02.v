(** C02 - drain and splice match Vec for every range, replacement and consumption pattern.

    [into_range] is exactly the RangeBounds normalisation of the specification, panics
    included (also when a bound + 1 is not representable).  While a range iterator is
    alive the storage is described by [RangeAlive] for ANY cursor position [i, j) inside
    the range - i.e. after any interleaving of next / next_back (C14 gives the cursor
    positions) - and dropping it there yields exactly what Vec::drain / Vec::splice leave:
    the result does not depend on the consumption pattern. *)
From AV.Model Require Import Base Bytes Vec Ops.
From AV.Spec Require Import VecSpec.
From AV.Proofs Require Import MemLemmas Rep VecProofs RangeProofs.

Theorem C02_into_range : forall (len : N) (sb eb : bound) (s : st),
  match range_of_bounds usize_max len (to_sbound sb) (to_sbound eb) with
  | Some (a, b) => into_range len sb eb s = Ok (a, b) s
  | None => exists p, into_range len sb eb s = Panic p s
  end.
Proof. exact into_range_spec. Qed.

Theorem C02_drain_new : forall c v u xs s e,
  Rep c v xs -> (s <= e)%nat -> (e <= length xs)%nat ->
  drain_new c (N.of_nat s) (N.of_nat e) (v, u)
  = Ok {| dcur := {| ci := N.of_nat s; ce := N.of_nat e |};
          dstart := N.of_nat s; dend := N.of_nat e; dorig := N.of_nat (length xs) |}
       (with_len (N.of_nat s) v, u).
Proof. exact drain_new_spec. Qed.

Theorem C02_alive_init : forall c v xs s e,
  Rep c v xs -> (s <= e)%nat -> (e <= length xs)%nat ->
  RangeAlive c (with_len (N.of_nat s) v) xs s e s e.
Proof. exact range_alive_init. Qed.

Theorem C02_drain_drop : forall c v u xs s e i j known,
  RangeAlive c v xs s e i j -> ufuse u = None ->
  let d := {| dcur := {| ci := N.of_nat i; ce := N.of_nat j |};
              dstart := N.of_nat s; dend := N.of_nat e; dorig := N.of_nat (length xs) |} in
  exists v' u',
    drain_drop c known d (v, u) = Ok tt (v', u') /\
    Rep c v' (sp_drain s e xs) /\ vcap v' = vcap v /\ vbk v' = vbk v /\
    unext u' = unext u /\ ufuse u' = None /\
    ulog u' = (if c_dg c then rev (map EDrop (firstn (j - i) (skipn i xs))) else []) ++ ulog u.
Proof. exact drain_drop_spec. Qed.

Theorem C02_splice_drop : forall c v u xs s e i j known ts k,
  cfg_wf c -> RangeAlive c v xs s e i j -> ufuse u = None ->
  Forall (tok_ok (szn c)) ts ->
  let new_len := (s + length ts + (length xs - e))%nat in
  (N.of_nat new_len <= vcap v \/ grow_ok c v (N.of_nat new_len)) ->
  let d := {| dcur := {| ci := N.of_nat i; ce := N.of_nat j |};
              dstart := N.of_nat s; dend := N.of_nat e; dorig := N.of_nat (length xs) |} in
  exists v' u',
    splice_drop c known d (N.of_nat (length ts)) (map (fun t => honest_item c t k) ts) (v, u)
      = Ok tt (v', u') /\
    Rep c v' (sp_splice s e ts xs) /\ vbk v' = vbk v /\
    unext u' = unext u /\ ufuse u' = None /\
    uevents u' = repeat ENext (length ts)
                 ++ (if c_dg c then rev (map EDrop (firstn (j - i) (skipn i xs))) else [])
                 ++ uevents u /\
    (N.of_nat new_len <= vcap v -> vcap v' = vcap v).
Proof. exact splice_drop_spec. Qed.

(** Non-vacuity / the defect D2 scenario on the repaired model:
    drain(1..4), next_back(), drop  on [1,2,3,4,5] leaves [1,5]. *)
Example C02_example :
  let c := {| c_sz := 3; c_al := 1; c_dg := true; c_cl := true; c_trap := true; c_ty := 1 |} in
  let u := {| ulog := []; unext := 1; ufuse := None |} in
  let v0 := {| vlen := 0; vcap := 0; vmem := []; vgen := 0; vbk := BHeap |} in
  match (push_unchecked c (VBytes (enc 3 1) true);; push_unchecked c (VBytes (enc 3 2) true);;
         push_unchecked c (VBytes (enc 3 3) true);; push_unchecked c (VBytes (enc 3 4) true);;
         push_unchecked c (VBytes (enc 3 5) true);;
         do d <- drain_new c 1 4;
         let '(_, k) := cur_next_back (dcur d) in
         drain_drop c false {| dcur := k; dstart := dstart d; dend := dend d; dorig := dorig d |}) (v0, u) with
  | Ok _ (v, u') => snapshot c v = Some [1; 5] /\ ulog u' = [EDrop 3; EDrop 2] ++ skipn 2 (ulog u')
  | _ => False
  end.
Proof. vm_compute. split; reflexivity. Qed.

(* ---- histories ---- *)
From AV.Model Require Import Interp.
From AV.Spec Require Import WorldSpec.
From AV.Proofs Require Import WorldProofs.
(** WHOLE HISTORIES: drain AND splice are part of the history fragment of AV.Props.C01 - for EVERY range in every RangeBounds form (invalid ranges panic with the right kind before the vector changes: [C02_into_range_panics]), EVERY sequence of next / next_back / nth / nth_back calls of any length (also after exhaustion; items passed over by nth, skip or step_by are destroyed like dropped ones and never reported: [KSkip]) whose items are dropped or downcast, erased and typed variant, iterator dropped or leaked: the list specifications [WorldSpec.sp_drain] / [WorldSpec.sp_splice] (yielded values front-ascending / back-descending, exact size hints, Vec::drain's / Vec::splice's result, the un-yielded values destroyed in order, then the replacement values pulled and moved in) are what the byte-level machine does, inside any history of any number of vectors ([C01_history_refines] covers ODrain and OSplice; [C02_walk] is the per-pattern induction).  Splice fragment ([C02_splice_in_histories]): ANY number of replacement values of the vector's element type, handed over by value or boxed, honest size hint; a result that does not fit a fixed capacity (or whose length is not representable) panics, destroys every replacement value once and leaves the prefix; a leaked Splice leaks the replacement values; an invalid range destroys them.  Still PARTIAL (one-step theorems above + correspondence): replacement iterators that lie about their length, yield lazily cloned or wrong-typed items, and item sinks that move yielded values into other vectors.  Drains whose items are pushed / inserted into other vectors or forgotten ([WorldSpec.sp_drain_mv]) are steps of the fragment too: [C02_moving_walk], [C02_moving_drain_in_histories].  Splices with such patterns ([WorldSpec.sp_splice_mv]): [C02_moving_splice_in_histories]. *)
Theorem C02_into_range_panics :
  forall (len : N) (sb eb : bound) (s : st),
         range_of_bounds usize_max len (to_sb sb) (to_sb eb) = None ->
         into_range len sb eb s = Panic (range_panic sb eb) s.
Proof. exact into_range_panic. Qed.

Theorem C02_walk :
  forall (c : cfg) (w : world) (vid : nat) (av : avec) (vv : vec) (s e : nat) (a : api),
         VI c vv av ->
         (s <= e)%nat ->
         (e <= length (a_xs av))%nat ->
         forall (cleanup : cursor -> M world unit) (pat : list (bool * sink)) (i j : nat) 
           (ww : world) (evs : list event) (rets ds : list N) (i' j' : nat),
         Walking w vid vv s ww evs ->
         (s <= i)%nat ->
         (i <= j)%nat ->
         (j <= e)%nat ->
         sp_walk (a_xs av) pat i j = Some (rets, ds, i', j') ->
         exists ww' : world,
           walk c vid a cleanup pat {| ci := N.of_nat i; ce := N.of_nat j |} ww =
           Ok (rets, {| ci := N.of_nat i'; ce := N.of_nat j' |}) ww' /\
           Walking w vid vv s ww' (evs ++ flat_map (drop_ev c) ds) /\ (i <= i')%nat /\ (i' <= j' <= j)%nat.
Proof. exact walk_spec. Qed.

Theorem C02_drain_in_histories :
  forall (c : cfg) (w : world) (st : astate) (a : api) (vid : nat) (sb eb : bound)
           (pat : list (bool * sink)) (f : fin) (r : sres),
         cfg_wf c ->
         WRep c w st ->
         ufuse (wuw w) = None ->
         sp_drain c st (unext (wuw w)) vid sb eb pat f = Some r ->
         res_matches c w (exec c (ODrain a vid sb eb pat f) w) r.
Proof. exact exec_drain. Qed.

Theorem C02_splice_in_histories :
  forall (c : cfg) (w : world) (st : astate) (a : api) (vid : nat) (sb eb : bound)
           (pat : list (bool * sink)) (f : fin) (rk : rkind) (n : N) (wrong_at : option N) 
           (claimed : N) (r : sres),
         cfg_wf c ->
         WRep c w st ->
         ufuse (wuw w) = None ->
         sp_splice c st (unext (wuw w)) vid sb eb pat f rk n wrong_at claimed = Some r ->
         adm_splice c w vid sb eb claimed ->
         res_matches c w (exec c (OSplice a vid sb eb pat f rk n wrong_at claimed) w) r.
Proof. exact exec_splice. Qed.

(** the iterator's calls when yielded items are also MOVED into other vectors or forgotten: by induction over any call list, the machine's walk is the specification's [sp_walk_mv] - the other vectors change while the iterator is alive; a refused move stops the walk and the unwinding drops the iterator at that cursor *)
Theorem C02_moving_walk :
  forall (c : cfg) (w : world) (vid : nat) (av : avec) (vv : vec) (s e : nat) (a : api),
         cfg_wf c ->
         VI c vv av ->
         (s <= e)%nat ->
         (e <= length (a_xs av))%nat ->
         forall (cleanup : cursor -> M world unit) (pat : list (bool * sink)) (i j : nat) 
           (ww : world) (stw : astate) (evs : list event),
         WalkM c w vid av vv s ww stw evs ->
         (s <= i)%nat ->
         (i <= j)%nat ->
         (j <= e)%nat ->
         adm_pat c ww vid pat ->
         match sp_walk_mv c vid (a_xs av) pat i j stw (unext (wuw ww)) with
         | Some (WDone rets evs1 i' j' st' _ nx') =>
             exists ww' : world,
               walk c vid a cleanup pat {| ci := N.of_nat i; ce := N.of_nat j |} ww =
               Ok (rets, {| ci := N.of_nat i'; ce := N.of_nat j' |}) ww' /\
               WalkM c w vid av vv s ww' st' (evs ++ evs1) /\
               unext (wuw ww') = nx' /\ (i <= i')%nat /\ (i' <= j' <= j)%nat
         | Some (WStop p evs1 i' j' st' _ nx') =>
             exists ww1 : world,
               walk c vid a cleanup pat {| ci := N.of_nat i; ce := N.of_nat j |} ww =
               unwound p (cleanup {| ci := N.of_nat i'; ce := N.of_nat j' |}) ww1 /\
               WalkM c w vid av vv s ww1 st' (evs ++ evs1) /\
               unext (wuw ww1) = nx' /\ (i <= i')%nat /\ (i' <= j' <= j)%nat
         | None => True
         end.
Proof. exact walk_mv_spec. Qed.

(** drain with any such pattern as a step of any history: outcome, values handed out, destructor runs in order, every vector afterwards (also after a refused move) *)
Theorem C02_moving_drain_in_histories :
  forall (c : cfg) (w : world) (st : astate) (a : api) (vid : nat) (sb eb : bound)
           (pat : list (bool * sink)) (f : fin) (r : sres),
         cfg_wf c ->
         WRep c w st ->
         ufuse (wuw w) = None ->
         sp_drain_mv c st (unext (wuw w)) vid sb eb pat f = Some r ->
         adm_pat c w vid pat -> res_matches c w (exec c (ODrain a vid sb eb pat f) w) r.
Proof. exact exec_drain_mv. Qed.

(** dropping a Splice with the cursor anywhere, in any world the (moving) walk can reach: refused (length not representable / beyond a fixed capacity: the replacement values destroyed once each) or the gap filled - exact events, contents, capacity *)
Theorem C02_splice_drop_at_any_cursor :
  forall (c : cfg) (w0 : world) (vid : nat) (av : avec) (vv : vec) (s e : nat) 
           (a : api) (ts : list N) (k : bool) (claimed : N) (i' j' : nat) (ww : world) 
           (st' : astate) (evs : list event),
         cfg_wf c ->
         VI c vv av ->
         (s <= e)%nat ->
         (e <= length (a_xs av))%nat ->
         WalkM c w0 vid av vv s ww st' evs ->
         (s <= i')%nat ->
         (i' <= j')%nat ->
         (j' <= e)%nat ->
         Forall (tok_ok (szn c)) ts ->
         (let nl := N.of_nat s + claimed + (N.of_nat (length (a_xs av)) - N.of_nat e) in
          nl <= vcap vv \/ fixed_backend (vbk vv) \/ usize_max < nl \/ grow_ok c vv nl) ->
         let xs := a_xs av in
         let d :=
           {|
             dcur := {| ci := N.of_nat s; ce := N.of_nat e |};
             dstart := N.of_nat s;
             dend := N.of_nat e;
             dorig := N.of_nat (length xs)
           |} in
         let items := map (fun t : N => honest_item c t k) ts in
         let finish :=
           on_vec vid
             (splice_drop c (known_of a) (with_cur {| ci := N.of_nat i'; ce := N.of_nat j' |} d) claimed items)
           in
         match sp_splice_fin c av s e i' j' ts claimed (N.of_nat (length ts)) with
         | inl p =>
             exists w' : world,
               finish ww = Panic p w' /\
               step_ok c w0 w' st' (evs ++ (if c_dg c then map EDrop ts else []))
                 (unext (wuw ww) - unext (wuw w0))
         | inr (fevs, ys) =>
             exists w' : world,
               finish ww = Ok tt w' /\
               step_ok c w0 w' (set_a vid (Some (with_xs av ys)) st') (evs ++ fevs)
                 (unext (wuw ww) - unext (wuw w0))
         end.
Proof. exact splice_finish. Qed.

(** splice whose yielded items are also moved into other vectors or forgotten, as a step of any history; a refused move unwinds through the Splice, whose drop still fills the gap *)
Theorem C02_moving_splice_in_histories :
  forall (c : cfg) (w : world) (st : astate) (a : api) (vid : nat) (sb eb : bound)
           (pat : list (bool * sink)) (f : fin) (rk : rkind) (n : N) (wrong_at : option N) 
           (claimed : N) (r : sres),
         cfg_wf c ->
         WRep c w st ->
         ufuse (wuw w) = None ->
         sp_splice_mv c st (unext (wuw w)) vid sb eb pat f rk n wrong_at claimed = Some r ->
         adm_splice c w vid sb eb claimed ->
         adm_pat c w vid pat -> res_matches c w (exec c (OSplice a vid sb eb pat f rk n wrong_at claimed) w) r.
Proof. exact exec_splice_mv. Qed.

(* ---- end histories ---- *)
Print Assumptions C02_into_range.
Print Assumptions C02_drain_new.
Print Assumptions C02_alive_init.
Print Assumptions C02_drain_drop.
Print Assumptions C02_splice_drop.
Print Assumptions C02_into_range_panics.
Print Assumptions C02_walk.
Print Assumptions C02_drain_in_histories.
Print Assumptions C02_splice_in_histories.
Print Assumptions C02_moving_walk.
Print Assumptions C02_moving_drain_in_histories.
Print Assumptions C02_splice_drop_at_any_cursor.
Print Assumptions C02_moving_splice_in_histories.
