(** C15 - Send/Sync/Clone constraints are enforced on elements and mirrored by handles.

    Finite-domain theorem.  [AV.Gen.C15Table.c15_table] is REGENERATED FROM /repo ON EVERY
    RUN: it holds the Rust compiler's verdict ("does this type implement this trait")
    for every cell of the domain - every public vector / view / handle / iterator type x
    {Send, Sync} x the 8 constraint sets x {Heap, Stack, StackN, Empty, and the 16
    capability classes of user backends} x element classes, plus the SatisfyTraits,
    Clone and capacity-method cells.  [C15Spec.rule] states what C15 demands of a
    verdict.  The theorem below is re-checked against the new table by every build: a
    source change that makes a handle Send / Sync when the corresponding reference to
    the vector could not be makes [vm_compute] produce [false] and the proof fail. *)
From Coq Require Import List Bool.
From AV.Static Require Import C15Spec.
From AV.Gen Require Import C15Table.

Theorem C15_table_ok : table_ok c15_table = true.
Proof. vm_compute. reflexivity. Qed.

(** ... hence for every cell of the domain the compiler's verdict obeys the rule *)
Theorem C15_every_cell : forall c, In c domain ->
  exists v, lookup c15_table c = Some v /\ rule c v = true.
Proof. exact (table_ok_sound c15_table C15_table_ok). Qed.

(** the rule, spelled out *)
Theorem C15_vector_iff : forall tr b v,
  rule (CErased KAnyVec tr b ASend) v = true <-> (v = true <-> vec_send tr b = true).
Proof. exact rule_vec_iff. Qed.
Theorem C15_shared_only_when : forall k tr b a,
  access_of k = Shared -> rule (CErased k tr b a) true = true -> vec_sync tr b = true.
Proof. exact rule_shared_only_when. Qed.
Theorem C15_exclusive_send_only_when : forall k tr b,
  access_of k = Exclusive -> rule (CErased k tr b ASend) true = true -> vec_send tr b = true.
Proof. exact rule_exclusive_send_only_when. Qed.
Theorem C15_element_constraints : forall tr e v,
  rule (CSatisfy tr e) v = true ->
  (v = true <-> ((t_clone tr = true -> e_clone e = true) /\ (t_send tr = true -> c_send (e_caps e) = true)
                 /\ (t_sync tr = true -> c_sync (e_caps e) = true))).
Proof. exact rule_satisfy. Qed.
Theorem C15_domain_size : length domain = 4936.
Proof. exact domain_size. Qed.

Print Assumptions C15_table_ok.
Print Assumptions C15_every_cell.
Print Assumptions C15_vector_iff.
Print Assumptions C15_shared_only_when.
Print Assumptions C15_exclusive_send_only_when.
Print Assumptions C15_element_constraints.
Print Assumptions C15_domain_size.
