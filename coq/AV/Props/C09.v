(** C09 - Lazy clones clone exactly when, and as often as, they are consumed.

    In the model a lazy clone is the value source [VClone bytes]: creating, copying or dropping
    it is no operation at all (no event, no state).  Each consumption by push / insert performs
    exactly one Clone of the source value, the destination receives the fresh clone, nothing
    else changes ([C09_push], [C09_insert]).  A lazy clone of a lazy clone is the same [VClone]
    of the same bytes (the chain depth does not exist in the model - [LazyClone::clone_into]
    delegates), so the statements hold for every depth; that the implementation agrees for depth
    1..3 and for every cloneable source kind is checked by the correspondence. *)
From AV.Model Require Import Base Bytes Vec.
From AV.Spec Require Import VecSpec.
From AV.Proofs Require Import MemLemmas Rep VecProofs CloneProofs.
From AV.Proofs Require Import LazySplice.

Theorem C09_push :
  forall (c : cfg) (v : vec) (u : uw) (xs : list N) (bs : mem) (t0 : N) (k : bool),
         cfg_wf c ->
         Rep c v xs ->
         dec (szn c) bs = Some t0 ->
         ufuse u = None ->
         vlen v < vcap v \/ grow_ok c v (vcap v + 1) ->
         let n := if c_sz c =? 0 then 0 else unext u in
         exists (v' : vec) (u' : uw),
           push_unchecked c (VClone bs k) (v, u) = Ok tt (v', u') /\
           Rep c v' (xs ++ [n]) /\
           vbk v' = vbk v /\
           unext u' = unext u + 1 /\
           ufuse u' = None /\
           uevents u' = EClone t0 n :: uevents u /\ (vlen v < vcap v -> vcap v' = vcap v /\ vgen v' = vgen v).
Proof. exact push_clone_ok. Qed.

Theorem C09_insert :
  forall (c : cfg) (v : vec) (u : uw) (xs : list N) (bs : mem) (t0 : N) (k : bool) (i : nat),
         cfg_wf c ->
         Rep c v xs ->
         dec (szn c) bs = Some t0 ->
         ufuse u = None ->
         (i <= length xs)%nat ->
         vlen v < vcap v \/ grow_ok c v (vcap v + 1) ->
         let n := if c_sz c =? 0 then 0 else unext u in
         exists (v' : vec) (u' : uw),
           insert_unchecked c (N.of_nat i) (VClone bs k) (v, u) = Ok tt (v', u') /\
           Rep c v' (sp_insert i n xs) /\
           vbk v' = vbk v /\
           unext u' = unext u + 1 /\
           ufuse u' = None /\
           uevents u' = EClone t0 n :: uevents u /\ (vlen v < vcap v -> vcap v' = vcap v /\ vgen v' = vgen v).
Proof. exact insert_clone_ok. Qed.

Theorem C09_push_panics :
  forall (c : cfg) (v : vec) (u : uw) (xs : list N) (bs : mem) (t0 : N) (k : bool),
         cfg_wf c ->
         Rep c v xs ->
         dec (szn c) bs = Some t0 ->
         ufuse u = Some 0 ->
         vlen v < vcap v \/ grow_ok c v (vcap v + 1) ->
         exists (v' : vec) (u' : uw),
           push_unchecked c (VClone bs k) (v, u) = Panic PUser (v', u') /\
           Rep c v' xs /\
           unext u' = unext u /\
           ufuse u' = None /\ uevents u' = uevents u /\ vbk v' = vbk v /\ (vlen v < vcap v -> vcap v' = vcap v).
Proof. exact push_clone_panics. Qed.

(** splice as a consumption of lazy clones: the fill loop of Splice::drop - min(announced, delivered) new values, one Clone each, in order *)
Theorem C09_splice_fill_lazy :
  forall (c : cfg) (budget : nat) (srcs : list N) (p : nat) (w : N) (v : vec) (u : uw),
         Forall (tok_ok (szn c)) srcs ->
         store_ok c v ->
         N.of_nat (p + Nat.min budget (length srcs)) <= vcap v ->
         ufuse u = None ->
         let m := Nat.min budget (length srcs) in
         let ids := fresh_ids c (unext u) m in
         exists u' : uw,
           Ops.splice_fill c (p * szn c) budget w (map (lazy_item c) srcs) (v, u) =
           Ok (w + N.of_nat m, map (lazy_item c) (skipn budget srcs))
             (with_mem (mwrite (p * szn c) (flat (szn c) ids) (vmem v)) v, u') /\
           unext u' = unext u + N.of_nat m /\
           ufuse u' = None /\
           ulog u' =
           (if (length srcs <? budget)%nat then [ENext] else []) ++
           rev (lazy_fill_events (firstn budget srcs) ids) ++ ulog u.
Proof. exact splice_fill_lazy. Qed.

(** ... and the whole of Splice::drop: the vector holds the prefix, the new values, the tail; the events are the destructors of the un-yielded part of the range, then ENext; EClone src id for every item taken (one more ENext when the iterator runs dry before the announced length); items never asked for are dropped without effect; nothing else is cloned or destroyed *)
Theorem C09_splice_consumes_lazy_clones :
  forall (c : cfg) (v : vec) (u : uw) (xs : list N) (s e i j : nat) (known : bool) 
           (srcs : list N) (cl : nat),
         cfg_wf c ->
         RangeProofs.RangeAlive c v xs s e i j ->
         ufuse u = None ->
         Forall (tok_ok (szn c)) srcs ->
         let new_len := (s + cl + (length xs - e))%nat in
         N.of_nat new_len <= vcap v \/ grow_ok c v (N.of_nat new_len) ->
         let d :=
           {|
             Ops.dcur := {| Ops.ci := N.of_nat i; Ops.ce := N.of_nat j |};
             Ops.dstart := N.of_nat s;
             Ops.dend := N.of_nat e;
             Ops.dorig := N.of_nat (length xs)
           |} in
         let written := Nat.min cl (length srcs) in
         let ids := fresh_ids c (unext u) written in
         exists (v' : vec) (u' : uw),
           Ops.splice_drop c known d (N.of_nat cl) (map (lazy_item c) srcs) (v, u) = Ok tt (v', u') /\
           Rep c v' (sp_splice s e ids xs) /\
           vbk v' = vbk v /\
           unext u' = unext u + N.of_nat written /\
           ufuse u' = None /\
           uevents u' =
           (if (length srcs <? cl)%nat then [ENext] else []) ++
           rev (lazy_fill_events (firstn cl srcs) ids) ++
           (if c_dg c then rev (map EDrop (firstn (j - i) (skipn i xs))) else []) ++ uevents u /\
           (N.of_nat new_len <= vcap v -> vcap v' = vcap v).
Proof. exact splice_drop_lazy. Qed.

(** non-vacuity *)
Theorem C09_splice_lazy_example :
  let c := {| c_sz := 3; c_al := 1; c_dg := true; c_cl := true; c_trap := true; c_ty := 1 |} in
         let m := flat 3 [1; 2; 3; 4] ++ uninit 12 in
         let v := {| vlen := 1; vcap := 8; vmem := m; vgen := 0; vbk := BHeap |} in
         let u := {| ulog := []; unext := 10; ufuse := None |} in
         let d :=
           {| Ops.dcur := {| Ops.ci := 1; Ops.ce := 3 |}; Ops.dstart := 1; Ops.dend := 3; Ops.dorig := 4 |} in
         match Ops.splice_drop c false d 2 (map (lazy_item c) [7; 8]) (v, u) with
         | Ok _ (v', u') =>
             snapshot c v' = Some [1; 10; 11; 4] /\
             rev (ulog u') = [EDrop 2; EDrop 3; ENext; EClone 7 10; ENext; EClone 8 11]
         | _ => False
         end.
Proof. exact splice_drop_lazy_example. Qed.


(* ---- histories ---- *)
From AV.Model Require Import Interp.
From AV.Spec Require Import WorldSpec.
From AV.Proofs Require Import WorldMore WorldDrain WorldProofs.
(** WHOLE HISTORIES: a lazy clone of an element of another vector (any nesting depth) offered to push or insert - erased or typed path - is a step of the history fragment of AV.Props.C01 ([WorldSpec.sp_offer_lazy]): exactly one Clone call, at the moment of consumption, of exactly the source element's current value; the destination receives the NEW value at the right place, the source vector is untouched; an offer that is refused (source index, insertion index, full fixed capacity) clones nothing.  [C09_lazy_offer_in_histories] proves that the byte-level machine does this at any point of any history (on top of [C09_push] / [C09_insert] through [C09_raw_action_clone]).  The same holds for a lazy clone of a value the CALLER owns (a user-defined cloneable value whose Type is the concrete element type - the only lazily cloned source with a known static type): [WorldSpec.sp_offer_userlazy], [C09_user_lazy_offer_in_histories]; and for lazy clones of a removal handle that are downcast (a new value each time, destroyed by the caller) before the handle is consumed: sink [KLazyDown] of [WorldSpec.sp_sink] (C01_sinks_in_histories).  Lazy clones of another vector's elements consumed by splice as replacement items are a step of the fragment too ([WorldSpec.sp_splice_lazy], [C09_lazy_splice_in_histories]): exactly min(announced, yielded) Clone calls, in order, each of the source element the item was made from, after the drained range is destroyed; a forgotten splice clones nothing and leaks no replacement value; an empty source panics before the range is touched.  Lazy clones of DRAINED elements are inside the fragment too ([WorldSpec.sp_item], [C09_lazy_clones_of_drained_items], composed over any call pattern by [C02_moving_walk]). *)
Theorem C09_raw_action_clone :
  forall (c : cfg) (vv : vec) (a : avec) (u : uw) (idx : option N) (bs : mem) (t0 : N) (k : bool),
         cfg_wf c ->
         VI c vv a ->
         dec (szn c) bs = Some t0 ->
         ufuse u = None ->
         NoFault.can_take c vv 1 ->
         let n := tok c (unext u) in
         match put_value c a idx n with
         | inl xs' =>
             exists (v' : vec) (u' : uw),
               raw_action c idx (VClone bs k) (vv, u) = Ok tt (v', u') /\
               VI c v' (with_xs a xs') /\
               unext u' = unext u + 1 /\ ufuse u' = None /\ uevents u' = EClone t0 n :: uevents u
         | inr p => raw_action c idx (VClone bs k) (vv, u) = Panic p (vv, u)
         end.
Proof. exact raw_action_clone_spec. Qed.

Theorem C09_lazy_offer_in_histories :
  forall (c : cfg) (w : world) (st : astate) (a : api) (vid : nat) (idx : option N) 
           (d : N) (src : nat) (sidx : N) (r : sres),
         cfg_wf c ->
         WRep c w st ->
         ufuse (wuw w) = None ->
         adm_vec c w vid ->
         sp_offer_lazy c st (unext (wuw w)) vid idx src sidx = Some r ->
         res_matches c w
           ((do o <- make_offer c (SLazy d src sidx);
             let o0 := match a with
                       | Erased => o
                       | Typed => unchecked o
                       end in
             offer_into c vid o0 (raw_action c idx);; ret (0, [])) w) r.
Proof. exact exec_offer_lazy. Qed.

Theorem C09_user_lazy_offer_in_histories :
  forall (c : cfg) (w : world) (st : astate) (vid : nat) (idx : option N) (d : N) (r : sres),
         cfg_wf c ->
         WRep c w st ->
         ufuse (wuw w) = None ->
         adm_vec c w vid ->
         sp_offer_userlazy c st (unext (wuw w)) vid idx = Some r ->
         res_matches c w
           ((do o <- make_offer c (SLazyUser d); offer_into c vid o (raw_action c idx);; ret (0, [])) w) r.
Proof. exact exec_offer_userlazy. Qed.

(** at(idx).lazy_clone()^depth .downcast::<T>() as a step of any history: exactly one Clone of that element whatever the depth of the chain, the clone is the caller's (destroyed there), the vector and every other vector are untouched; out of range: panics *)
Theorem C09_lazy_down_in_histories :
  forall (c : cfg) (w : world) (st : astate) (d : N) (v : nat) (idx : N) (r : sres),
         cfg_wf c ->
         WRep c w st ->
         ufuse (wuw w) = None ->
         sp_lazy_down c st (unext (wuw w)) v idx = Some r -> res_matches c w (exec c (OLazyDown d v idx) w) r.
Proof. exact exec_lazy_down. Qed.

(** splice(range, (0..n).map(|i| src.at(i % len).lazy_clone())) as a step of any history, with any announced length: the clones are made when the items are written into the gap - one Clone each, of exactly the source element - the source vector is untouched; too long for the backend: refused, no Clone at all *)
Theorem C09_lazy_splice_in_histories :
  forall (c : cfg) (w : world) (st : astate) (a : api) (vid : nat) (sb eb : Ops.bound)
           (pat : list (bool * sink)) (f : fin) (src : nat) (n claimed : N) (r : sres),
         cfg_wf c ->
         WRep c w st ->
         ufuse (wuw w) = None ->
         sp_splice_lazy c st (unext (wuw w)) vid sb eb pat f src n claimed = Some r ->
         adm_splice c w vid sb eb claimed ->
         res_matches c w (exec c (OSplice a vid sb eb pat f (RLazy src) n None claimed) w) r.
Proof. exact exec_splice_lazy. Qed.

(** a drained item as the source of lazy clones, at any point of any history, nested to any depth: each downcast ([KLazyDown]) and each push into another vector ([KLazy]) is one Clone call of exactly that item's value and makes a new value; the item itself is untouched and then goes wherever the rest of the sink says; a refused push clones nothing more, destroys the item once and unwinds through the iterator *)
Theorem C09_lazy_clones_of_drained_items :
  forall (c : cfg) (w : world) (vid : nat) (av : avec) (vv : vec) (s e : nat) (a : api),
         cfg_wf c ->
         VI c vv av ->
         (s <= e)%nat ->
         (e <= length (a_xs av))%nat ->
         forall idx : nat,
         (s <= idx)%nat ->
         (idx < e)%nat ->
         forall (sk : sink) (ww : world) (stw : astate) (evs : list event),
         WalkM c w vid av vv s ww stw evs ->
         (forall d : nat, d <> vid -> adm_many c ww d (sink_count sk d)) ->
         let t := nth idx (a_xs av) 0 in
         match sp_item c vid stw (unext (wuw ww)) t sk with
         | Some (inl (out, evs0, st1, _, nx1)) =>
             exists ww' : world,
               item_sink c vid a (ptr_at c (with_len (N.of_nat s) vv) (N.of_nat idx)) sk ww = Ok out ww' /\
               WalkM c w vid av vv s ww' st1 (evs ++ evs0) /\
               unext (wuw ww') = nx1 /\
               (forall (d : nat) (m : N),
                d <> vid -> adm_many c ww d (sink_count sk d + m) -> adm_many c ww' d m)
         | Some (inr (p, evs0, st1, nx1)) =>
             exists ww' : world,
               item_sink c vid a (ptr_at c (with_len (N.of_nat s) vv) (N.of_nat idx)) sk ww = Panic p ww' /\
               WalkM c w vid av vv s ww' st1 (evs ++ evs0) /\ unext (wuw ww') = nx1
         | None => True
         end.
Proof. exact item_mv_spec. Qed.

(* ---- end histories ---- *)
Print Assumptions C09_push.
Print Assumptions C09_insert.
Print Assumptions C09_push_panics.
Print Assumptions C09_splice_fill_lazy.
Print Assumptions C09_splice_consumes_lazy_clones.
Print Assumptions C09_splice_lazy_example.
Print Assumptions C09_raw_action_clone.
Print Assumptions C09_lazy_offer_in_histories.
Print Assumptions C09_user_lazy_offer_in_histories.
Print Assumptions C09_lazy_down_in_histories.
Print Assumptions C09_lazy_splice_in_histories.
Print Assumptions C09_lazy_clones_of_drained_items.
