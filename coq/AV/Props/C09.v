(** C09 - Lazy clones clone exactly when, and as often as, they are consumed.

    In the model a lazy clone is the value source [VClone bytes]: creating, copying or dropping
    it is no operation at all (no event, no state).  Each consumption by push / insert performs
    exactly one Clone of the source value, the destination receives the fresh clone, nothing
    else changes ([C09_push], [C09_insert]).  A lazy clone of a lazy clone is the same [VClone]
    of the same bytes (the chain depth does not exist in the model - [LazyClone::clone_into]
    delegates), so the statements hold for every depth; that the implementation agrees for depth
    1..3 and for every cloneable source kind is checked by the correspondence. *)
From AV.Model Require Import Base Bytes Vec.
From AV.Spec Require Import VecSpec.
From AV.Proofs Require Import MemLemmas Rep VecProofs CloneProofs.

Theorem C09_push :
  forall (c : cfg) (v : vec) (u : uw) (xs : list N) (bs : mem) (t0 : N) (k : bool),
         cfg_wf c ->
         Rep c v xs ->
         dec (szn c) bs = Some t0 ->
         ufuse u = None ->
         vlen v < vcap v \/ grow_ok c v (vcap v + 1) ->
         let n := if c_sz c =? 0 then 0 else unext u in
         exists (v' : vec) (u' : uw),
           push_unchecked c (VClone bs k) (v, u) = Ok tt (v', u') /\
           Rep c v' (xs ++ [n]) /\
           vbk v' = vbk v /\ unext u' = unext u + 1 /\ ufuse u' = None /\ uevents u' = EClone t0 n :: uevents u.
Proof. exact push_clone_ok. Qed.

Theorem C09_insert :
  forall (c : cfg) (v : vec) (u : uw) (xs : list N) (bs : mem) (t0 : N) (k : bool) (i : nat),
         cfg_wf c ->
         Rep c v xs ->
         dec (szn c) bs = Some t0 ->
         ufuse u = None ->
         (i <= length xs)%nat ->
         vlen v < vcap v \/ grow_ok c v (vcap v + 1) ->
         let n := if c_sz c =? 0 then 0 else unext u in
         exists (v' : vec) (u' : uw),
           insert_unchecked c (N.of_nat i) (VClone bs k) (v, u) = Ok tt (v', u') /\
           Rep c v' (sp_insert i n xs) /\
           vbk v' = vbk v /\ unext u' = unext u + 1 /\ ufuse u' = None /\ uevents u' = EClone t0 n :: uevents u.
Proof. exact insert_clone_ok. Qed.

Theorem C09_push_panics :
  forall (c : cfg) (v : vec) (u : uw) (xs : list N) (bs : mem) (t0 : N) (k : bool),
         cfg_wf c ->
         Rep c v xs ->
         dec (szn c) bs = Some t0 ->
         ufuse u = Some 0 ->
         vlen v < vcap v \/ grow_ok c v (vcap v + 1) ->
         exists (v' : vec) (u' : uw),
           push_unchecked c (VClone bs k) (v, u) = Panic PUser (v', u') /\
           Rep c v' xs /\ unext u' = unext u /\ ufuse u' = None /\ uevents u' = uevents u.
Proof. exact push_clone_panics. Qed.


Print Assumptions C09_push.
Print Assumptions C09_insert.
Print Assumptions C09_push_panics.
