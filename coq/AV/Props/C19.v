(** C19 - Without the alloc feature the crate is heap-free and fully functional.

    Finite-domain theorem over the API / build-fact table regenerated from /repo on every run
    ([AV.Gen.C19Table], translator avcheck/c19.py: rustdoc JSON of both builds + cargo build
    facts).  The behavioural half - a stack-backed vector provides the complete operation set
    with behaviour identical to the default build - is carried by the theorems of C01/C02/C08/C11
    about the executable model (they are stated for every backend kind, in particular [BStack],
    [BStackN], [BEmpty], and the model has no notion of the alloc feature) together with the
    correspondence of the harness linked against the `--no-default-features` build with that
    model on the stack-backend case families (run by this property's check). *)
From Coq Require Import List Bool String.
From AV.Static Require Import C19Spec.
From AV.Gen Require Import C19Table.

Theorem C19_table_ok : table_ok c19_items c19_facts = true.
Proof. vm_compute. reflexivity. Qed.

Theorem C19_gated :
  (forall i, In i c19_items -> i_noalloc i = true -> i_heap i = false /\ i_default i = true) /\
  (forall i, In i c19_items -> i_default i = true -> i_heap i = false -> i_noalloc i = true) /\
  f_lib_builds c19_facts = true /\ f_nostd_staticlib_links c19_facts = true /\
  (forall c, In c (f_noalloc_crates c19_facts) -> c = "core"%string \/ c = "compiler_builtins"%string).
Proof. exact (table_ok_sound c19_items c19_facts C19_table_ok). Qed.

Print Assumptions C19_table_ok.
Print Assumptions C19_gated.
