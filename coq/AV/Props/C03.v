(** C03 - Every element has exactly one owner and is destroyed exactly once.

    Two layers.  (1) The ownership invariant [own_inv]: all identities in vectors, held outside
    vectors and already destroyed are pairwise distinct; it is preserved by ANY step that only
    moves identities between places and creates fresh ones ([C03_step]), and it implies: nothing
    destroyed twice, nothing visible after destruction, nothing in two places ([C03_no_double_drop],
    [C03_visible_alive], [C03_one_place]), and when all vectors and held values are gone
    everything created has been destroyed ([C03_all_gone]).  (2) Every machine operation is such
    a step: the refinement theorems of C01/C02/C08 give the exact list a vector represents
    afterwards and the exact destructor events, and the list-level lemmas below show these are
    permutations ([C03_remove_moves], [C03_drain_moves], ...).  The erased destructor's stride and
    the by-count accounting of zero-sized values are part of [clear_ok]/[drain_drop_spec] (events
    list every value once; for size 0 all tokens are 0, so equality of event lists is equality of
    counts).  (3) whole histories: see the block "histories" appended by tools/append_props.py. *)
From Coq Require Import List NArith Permutation.
From AV.Spec Require Import VecSpec.
From AV.Proofs Require Import OwnProofs.

(** a step that creates fresh identities and otherwise only moves identities preserves the invariant *)
Theorem C03_step :
  forall (o o' : own) (new : list N),
         own_inv o ->
         NoDup new ->
         (forall t : N, In t new -> ~ In t (own_all o)) ->
         Permutation (new ++ own_all o) (own_all o') -> own_inv o'.
Proof. exact own_step_inv. Qed.

Theorem C03_no_double_drop :
  forall o : own, own_inv o -> NoDup (o_dropped o).
Proof. exact own_no_double_drop. Qed.

Theorem C03_visible_alive :
  forall (o : own) (v : list N) (t : N),
         own_inv o -> In v (o_vecs o) -> In t v -> ~ In t (o_dropped o) /\ ~ In t (o_held o).
Proof. exact own_visible_alive. Qed.

Theorem C03_one_place :
  forall (o : own) (v1 v2 : list N) (i j : nat) (t : N),
         own_inv o ->
         nth_error (o_vecs o) i = Some v1 -> nth_error (o_vecs o) j = Some v2 -> In t v1 -> In t v2 -> i = j.
Proof. exact own_one_place. Qed.

Theorem C03_vector_has_no_duplicates :
  forall (o : own) (v : list N), own_inv o -> In v (o_vecs o) -> NoDup v.
Proof. exact own_vec_nodup. Qed.

Theorem C03_all_gone :
  forall o : own, o_vecs o = nil -> o_held o = nil -> own_all o = o_dropped o.
Proof. exact own_all_gone. Qed.

Theorem C03_push_moves :
  forall (t : N) (xs : list N), Permutation (t :: xs) (sp_push t xs).
Proof. exact sp_push_perm. Qed.

Theorem C03_insert_moves :
  forall (t : N) (xs : list N) (i : nat), Permutation (t :: xs) (sp_insert i t xs).
Proof. exact sp_insert_perm. Qed.

Theorem C03_remove_moves :
  forall (xs : list N) (i : nat), i < length xs -> Permutation xs (nth i xs 0%N :: sp_remove i xs).
Proof. exact sp_remove_perm. Qed.

Theorem C03_swap_remove_moves :
  forall (xs : list N) (i : nat), i < length xs -> Permutation xs (nth i xs 0%N :: sp_swap_remove i xs).
Proof. exact sp_swap_remove_perm. Qed.

Theorem C03_pop_moves :
  forall xs : list N, xs <> nil -> Permutation xs (last xs 0%N :: removelast xs).
Proof. exact removelast_perm. Qed.

Theorem C03_drain_moves :
  forall (xs : list N) (s e : nat),
         s <= e -> e <= length xs -> Permutation xs (sp_drained s e xs ++ sp_drain s e xs).
Proof. exact sp_drain_perm. Qed.

Theorem C03_splice_moves :
  forall (xs ts : list N) (s e : nat),
         s <= e -> e <= length xs -> Permutation (ts ++ xs) (sp_drained s e xs ++ sp_splice s e ts xs).
Proof. exact sp_splice_perm. Qed.


(* ---- histories ---- *)
From AV.Model Require Import Base Bytes Vec Ops Interp.
From AV.Spec Require Import WorldSpec.
From AV.Proofs Require Import WorldProofs OwnHistory.
(** WHOLE HISTORIES (this replaces the PARTIAL remark in the header for the fragment of AV.Props.C01).  On the list specification: after EVERY history the identities created so far are, as a multiset, exactly those visible in some vector + those destroyed + those leaked by a forgotten handle ([C03_history_accounting]); hence for non-zero-sized types nothing is destroyed twice, nothing destroyed or leaked is still visible, nothing is visible twice ([C03_history_exactly_once], [C03_history_no_double_drop]); when all vectors are gone and nothing was leaked, everything created was destroyed - for zero-sized types this is the accounting by count ([C03_history_all_destroyed]).  [C03_history_events_are_the_specs] transfers it to the byte-level machine: its destructor events in every step are the specification's (and its snapshots are the specification's lists, C01_history_snapshots).  Moves of drained elements into other vectors: [C03_moving_drain_accounting]. *)
(** one step *)
Theorem C03_step_accounting :
  forall c : cfg,
         c_dg c = true ->
         forall (st : astate) (nx : N) (o : op) (r : sres) (D L : list N),
         1 <= nx ->
         spec_step c st nx o = Some r ->
         Permutation (created c nx) (vis st ++ D ++ L) ->
         Permutation (created c (s_nx r)) (vis (s_st r) ++ (D ++ drops (s_evs r)) ++ L ++ leak_of c st nx o).
Proof. exact step_own. Qed.

Theorem C03_history_accounting :
  forall (c : cfg) (ops : list op) (rs : list sres),
         c_dg c = true ->
         spec_run c [] 1 ops = Some rs ->
         Permutation (created c (snd (end_of [] 1 rs)))
           (vis (fst (end_of [] 1 rs)) ++ hist_drops rs ++ hist_leaks c [] 1 ops).
Proof. exact history_own_init. Qed.

Theorem C03_history_exactly_once :
  forall (c : cfg) (ops : list op) (rs : list sres),
         c_dg c = true ->
         c_sz c <> 0 ->
         spec_run c [] 1 ops = Some rs ->
         NoDup (vis (fst (end_of [] 1 rs)) ++ hist_drops rs ++ hist_leaks c [] 1 ops).
Proof. exact history_exactly_once. Qed.

Theorem C03_history_no_double_drop :
  forall (c : cfg) (ops : list op) (rs : list sres),
         c_dg c = true ->
         c_sz c <> 0 ->
         spec_run c [] 1 ops = Some rs ->
         NoDup (hist_drops rs) /\
         NoDup (vis (fst (end_of [] 1 rs))) /\
         (forall t : N, In t (hist_drops rs) -> ~ In t (vis (fst (end_of [] 1 rs)))).
Proof. exact history_no_double_drop. Qed.

Theorem C03_history_all_destroyed :
  forall (c : cfg) (ops : list op) (rs : list sres),
         c_dg c = true ->
         spec_run c [] 1 ops = Some rs ->
         vis (fst (end_of [] 1 rs)) = [] ->
         hist_leaks c [] 1 ops = [] ->
         Permutation (created c (snd (end_of [] 1 rs))) (hist_drops rs) /\
         length (hist_drops rs) = N.to_nat (snd (end_of [] 1 rs) - 1).
Proof. exact history_all_destroyed. Qed.

Theorem C03_history_events_are_the_specs :
  forall (c : cfg) (ops : list op) (w : world) (st : astate) (rs : list sres),
         Rep.cfg_wf c ->
         WRep c w st ->
         spec_run c st (unext (wuw w)) ops = Some rs ->
         Admissible c w ops ->
         Forall2
           (fun (sr : step_result) (r : sres) =>
            filter Rep.is_user_event (world_events (sr_world sr)) = s_evs r) (run_hist c ops w) rs.
Proof. exact history_events. Qed.

(** drained items moved into other vectors, forgotten, destroyed or left to the iterator: every value of the range ends up in exactly one place, also when a move is refused and the iterator is dropped by the unwinding *)
Theorem C03_moving_drain_accounting :
  forall c : cfg,
         c_dg c = true ->
         forall (st : astate) (nx : N) (v : nat) (sb eb : bound) (pat : list (bool * sink)) 
           (f : fin) (r : sres) (D L : list N),
         1 <= nx ->
         sp_drain c st nx v sb eb pat f = None ->
         sp_drain_mv c st nx v sb eb pat f = Some r ->
         Permutation (created c nx) (vis st ++ D ++ L) ->
         Permutation (created c (s_nx r))
           (vis (s_st r) ++ (D ++ drops (s_evs r)) ++ L ++ leak_of c st nx (ODrain Erased v sb eb pat f)).
Proof. exact drain_mv_own. Qed.

Theorem C03_moving_walk_accounting :
  forall c : cfg,
         c_dg c = true ->
         forall (v : nat) (xs : list N) (pat : list (bool * sink)) (i j : nat) (st : astate) 
           (nx : N) (r : wres),
         (i <= j)%nat ->
         (j <= length xs)%nat ->
         1 <= nx ->
         sp_walk_mv c v xs pat i j st nx = Some r ->
         let
         '(evs, i', j', st', lost, nx') := wres_parts r in
          exists news : list N,
            created c nx' = created c nx ++ news /\
            Permutation (vis st ++ firstn (j - i) (skipn i xs) ++ news)
              (vis st' ++ drops evs ++ lost ++ firstn (j' - i') (skipn i' xs)) /\
            (i <= i')%nat /\ (i' <= j')%nat /\ (j' <= j)%nat /\ get_a v st' = get_a v st /\ nx <= nx'.
Proof. exact sp_walk_mv_perm. Qed.

(** splices whose yielded items are moved or forgotten: every element and every replacement value ends up in exactly one place *)
Theorem C03_moving_splice_accounting :
  forall c : cfg,
         c_dg c = true ->
         forall (st : astate) (nx : N) (v : nat) (sb eb : bound) (pat : list (bool * sink)) 
           (f : fin) (rk : rkind) (n : N) (wa : option N) (cl : N) (r : sres) (D L : list N),
         1 <= nx ->
         sp_splice c st nx v sb eb pat f rk n wa cl = None ->
         sp_splice_mv c st nx v sb eb pat f rk n wa cl = Some r ->
         Permutation (created c nx) (vis st ++ D ++ L) ->
         Permutation (created c (s_nx r))
           (vis (s_st r) ++
            (D ++ drops (s_evs r)) ++ L ++ leak_of c st nx (OSplice Erased v sb eb pat f rk n wa cl)).
Proof. exact splice_mv_own. Qed.

(** a splice refused by the type check: every element and replacement value is visible, destroyed once, or leaked - never two of these *)
Theorem C03_wrong_splice_accounting :
  forall c : cfg,
         c_dg c = true ->
         forall (st : astate) (nx : N) (v : nat) (sb eb : bound) (pat : list (bool * sink)) 
           (f : fin) (rk : rkind) (n j cl : N) (r : sres) (D L : list N),
         1 <= nx ->
         sp_splice_wrong c st nx v sb eb pat f rk n j cl = Some r ->
         Permutation (created c nx) (vis st ++ D ++ L) ->
         Permutation (created c (s_nx r))
           (vis (s_st r) ++
            (D ++ drops (s_evs r)) ++ L ++ leak_of c st nx (OSplice Erased v sb eb pat f rk n (Some j) cl)).
Proof. exact splice_wrong_own. Qed.

(* ---- end histories ---- *)
Print Assumptions C03_step.
Print Assumptions C03_no_double_drop.
Print Assumptions C03_visible_alive.
Print Assumptions C03_one_place.
Print Assumptions C03_vector_has_no_duplicates.
Print Assumptions C03_all_gone.
Print Assumptions C03_push_moves.
Print Assumptions C03_insert_moves.
Print Assumptions C03_remove_moves.
Print Assumptions C03_swap_remove_moves.
Print Assumptions C03_pop_moves.
Print Assumptions C03_drain_moves.
Print Assumptions C03_splice_moves.
Print Assumptions C03_step_accounting.
Print Assumptions C03_history_accounting.
Print Assumptions C03_history_exactly_once.
Print Assumptions C03_history_no_double_drop.
Print Assumptions C03_history_all_destroyed.
Print Assumptions C03_history_events_are_the_specs.
Print Assumptions C03_moving_drain_accounting.
Print Assumptions C03_moving_walk_accounting.
Print Assumptions C03_moving_splice_accounting.
Print Assumptions C03_wrong_splice_accounting.
