(** C18 - Heap storage uses consistent, valid layouts and is never leaked.

    The ledger: a heap vector owns a block exactly while capacity * size > 0, of exactly that
    many bytes and the element alignment ([owned_block]).  EVERY resize, whatever its outcome,
    emits events that replay against the ledger ([ledger_run]: realloc / dealloc present exactly
    the live block's layout, alloc happens only with no live block), requests only valid
    layouts (size <= isize::MAX - (align - 1)), and leaves the ledger describing the new state;
    a rejected request panics before any event with the state unchanged ([C18_resize_ledger]).
    Dropping the storage returns everything ([C18_release]).  All capacity changes of the model
    go through [heap_resize] (mem_expand, mem_resize, mem_drop on BHeap), so the invariant holds
    along every history. *)
From AV.Model Require Import Base Bytes Vec.
From AV.Spec Require Import VecSpec.
From AV.Proofs Require Import MemLemmas Rep VecProofs CapProofs.

Theorem C18_resize_ledger :
  forall (c : cfg) (v : vec) (u : uw) (n : N),
         vbk v = BHeap ->
         match heap_resize c n (v, u) with
         | Ok _ (v', u') =>
             exists es : list event,
               appended u u' es /\
               Forall valid_request es /\
               ledger_run (owned_block c v) es = Some (owned_block c v') /\ vcap v' = n /\ vbk v' = BHeap
         | Panic _ (v', u') => v' = v /\ u' = u
         | Fault _ => True
         end.
Proof. exact heap_resize_ledger. Qed.

Theorem C18_release :
  forall (c : cfg) (v : vec) (u : uw),
         vbk v = BHeap ->
         exists (v' : vec) (u' : uw) (es : list event),
           mem_drop c (v, u) = Ok tt (v', u') /\
           appended u u' es /\ ledger_run (owned_block c v) es = Some None /\ owned_block c v' = None.
Proof. exact heap_release. Qed.


(* ---- histories ---- *)
From AV.Model Require Import Ops Interp.
From AV.Proofs Require Import Ledger.
(** EVERY HISTORY OF THE MACHINE (AV.Proofs.Ledger) - not only the fragment the list specification covers: all operations of the case language, any outcome (ok, panic, armed panic fuse at any call of user code).  [pres R m]: computation m relates the state before and after by R whatever its outcome.  [Rst c]: on ONE vector, the events appended replay (ledger_run) from its ledger entry before to its entry after, all requests valid, backend unchanged; a vector that is not heap-backed has the empty entry before and after.  [Rw c]: on a WORLD, the events replay (greplay: multiset semantics - a deallocation / reallocation must present the layout of a block that is live at that moment) from the live blocks of its vectors to the live blocks afterwards plus the blocks of vectors the script itself overwrote, in any context of other live blocks.  By induction over the script: from the empty world the whole allocator traffic of a history is valid and replays from NO live block to exactly the blocks the vectors of the final world own (plus what the script overwrote); allocations and deallocations balance accordingly. *)
(** every operation on one vector keeps its ledger entry, whatever the outcome *)
Theorem C18_every_vector_operation :
  forall c : cfg,
         (forall n : N, spres c (reserve c n)) /\
         (forall n : N, spres c (reserve_exact c n)) /\
         spres c (shrink_to_fit c) /\
         (forall n : N, spres c (shrink_to c n)) /\
         (forall s : vsrc, spres c (push_unchecked c s)) /\
         (forall (i : N) (s : vsrc), spres c (insert_unchecked c i s)) /\
         spres c (clear c) /\
         spres c (drop_vec c) /\
         (forall n : N, spres c (set_len c n)) /\
         (forall (k : tkind) (i : N), spres c (temp_new c k i)) /\
         (forall (k : bool) (h : temp), spres c (temp_consume c k h)) /\
         (forall (k : bool) (h : temp), spres c (temp_drop c k h)) /\
         (forall s e : N, spres c (drain_new c s e)) /\
         (forall (k : bool) (d : drain), spres c (drain_drop c k d)) /\
         (forall (k : bool) (d : drain) (cl : N) (its : list ritem), spres c (splice_drop c k d cl its)) /\
         (forall (p : eptr) (bs : mem), spres c (write_ptr c p bs)) /\
         (forall p : eptr, spres c (read_ptr c p)).
Proof. exact vector_ops_ledger. Qed.

(** a clone under construction starts from the empty entry; when the cloning panics everything it acquired has been returned *)
Theorem C18_clone_is_new_or_gone :
  forall (c : cfg) (src v : vec) (u : uw),
         match clone_vec c src (v, u) with
         | Ok _ s' => Rnew c (v, u) s'
         | Panic _ s' => Rgone c (v, u) s'
         | Fault _ => True
         end.
Proof. exact clone_vec_new. Qed.

(** also when a destructor panicked *)
Theorem C18_dropped_vector_owns_nothing :
  forall (c : cfg) (s : st),
         match drop_vec c s with
         | Ok _ s' | Panic _ s' => ob c (fst s') = None
         | Fault _ => True
         end.
Proof. exact drop_vec_none. Qed.

(** every operation of the case language *)
Theorem C18_every_script_step :
  forall (c : cfg) (o : op), wpres c (exec c o).
Proof. exact exec_ledger. Qed.

Theorem C18_step_ledger :
  forall (c : cfg) (fuse : option N) (o : op) (w : world),
         Forall valid_request (step_events c fuse o w) /\
         (exists lk : list (N * N),
            forall L : list (N * N),
            greplay (live_blocks c (wv w) ++ L) (step_events c fuse o w)
              (live_blocks c (wv (sr_world (run_step c fuse o w))) ++ lk ++ L)).
Proof. exact step_ledger. Qed.

Theorem C18_history_ledger :
  forall (c : cfg) (steps : list (option N * op)),
         let
         '(es, w') := run_steps c steps init_world in
          Forall valid_request es /\ (exists lk : list (N * N), greplay [] es (live_blocks c (wv w') ++ lk)).
Proof. exact history_ledger. Qed.

(** what a replay implies for the counts: live before + allocations = live after + deallocations *)
Theorem C18_replay_balance :
  forall (l : list (N * N)) (es : list event) (l' : list (N * N)),
         greplay l es l' ->
         (length l + length (filter is_alloc es))%nat = (length l' + length (filter is_dealloc es))%nat.
Proof. exact greplay_count. Qed.

(** non-vacuity: growth, shrink to zero after a panicking destructor, a clone, an overwritten vector, drops *)
Theorem C18_history_example :
  filter alloc_event (fst (run_steps lx_cfg lx_steps init_world)) =
         [EAlloc 3 1; ERealloc 3 1 6; ERealloc 6 1 12; EAlloc 9 1; EDealloc 12 1; EAlloc 27 1; 
          EAlloc 3 1; EDealloc 9 1] /\
         live_blocks lx_cfg (wv (snd (run_steps lx_cfg lx_steps init_world))) = [(3, 1)].
Proof. exact lx_events. Qed.

(* ---- end histories ---- *)
Print Assumptions C18_resize_ledger.
Print Assumptions C18_release.
Print Assumptions C18_every_vector_operation.
Print Assumptions C18_clone_is_new_or_gone.
Print Assumptions C18_dropped_vector_owns_nothing.
Print Assumptions C18_every_script_step.
Print Assumptions C18_step_ledger.
Print Assumptions C18_history_ledger.
Print Assumptions C18_replay_balance.
Print Assumptions C18_history_example.
