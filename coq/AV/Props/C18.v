(** C18 - Heap storage uses consistent, valid layouts and is never leaked.

    The ledger: a heap vector owns a block exactly while capacity * size > 0, of exactly that
    many bytes and the element alignment ([owned_block]).  EVERY resize, whatever its outcome,
    emits events that replay against the ledger ([ledger_run]: realloc / dealloc present exactly
    the live block's layout, alloc happens only with no live block), requests only valid
    layouts (size <= isize::MAX - (align - 1)), and leaves the ledger describing the new state;
    a rejected request panics before any event with the state unchanged ([C18_resize_ledger]).
    Dropping the storage returns everything ([C18_release]).  All capacity changes of the model
    go through [heap_resize] (mem_expand, mem_resize, mem_drop on BHeap), so the invariant holds
    along every history. *)
From AV.Model Require Import Base Bytes Vec.
From AV.Spec Require Import VecSpec.
From AV.Proofs Require Import MemLemmas Rep VecProofs CapProofs.

Theorem C18_resize_ledger :
  forall (c : cfg) (v : vec) (u : uw) (n : N),
         vbk v = BHeap ->
         match heap_resize c n (v, u) with
         | Ok _ (v', u') =>
             exists es : list event,
               appended u u' es /\
               Forall valid_request es /\
               ledger_run (owned_block c v) es = Some (owned_block c v') /\ vcap v' = n /\ vbk v' = BHeap
         | Panic _ (v', u') => v' = v /\ u' = u
         | Fault _ => True
         end.
Proof. exact heap_resize_ledger. Qed.

Theorem C18_release :
  forall (c : cfg) (v : vec) (u : uw),
         vbk v = BHeap ->
         exists (v' : vec) (u' : uw) (es : list event),
           mem_drop c (v, u) = Ok tt (v', u') /\
           appended u u' es /\ ledger_run (owned_block c v) es = Some None /\ owned_block c v' = None.
Proof. exact heap_release. Qed.


Print Assumptions C18_resize_ledger.
Print Assumptions C18_release.
